"""Per-property configuration for run.py: which Lean modules hold the theorems, which cargo
profiles the correspondence harness runs in, and the evidence texts."""

COMMON_TRUST = [
    "hand-written Lean model of the anchored Rust code (tied to /repo by the correspondence harness on every run)",
    "correspondence harness (Rust, links the real crate) + line-protocol driver; generator quality bounds what it sees",
    "rustc/LLVM/core, bit_field, bitflags: modelled by their documented meaning, not verified",
]

PROPS = {
    "C05": {
        "modules": ["X86Model.Properties.C05"],
        "namespaces": ["X86.C05"],
        "profiles": ["debug", "release"],
        "rule": "boundary-biased canonical starts (both halves, edges of the gap) x counts chosen small / "
                "at the distance to 2^47, 2^64, the half start / around 2^48 / huge; three page sizes; "
                "all 512 indices x counts. A case is non-trivial when count != 0 (stepping) or start != end "
                "(steps_between); distinct by full input text.",
        "trusted": COMMON_TRUST,
        "assumptions": ["usize = u64 (64-bit target)"],
        "level_text": "Lean 4 theorems (omega-level arithmetic, no bound on operands): the model of Step::{forward_checked,backward_checked,steps_between} for VirtAddr, Page<4K/2M/1G> and PageTableIndex equals the contiguous-canonical-sequence spec (rank/unrank) for every canonical operand and every count < 2^64, and the three operations are mutually inverse. The model is tied to the code by running the real crate and the compiled model on the same ~7e5 (quick) / ~3e7 (thorough) boundary-biased cases in both cargo profiles.",
        "level_note": "Trusted: Lean kernel + propext/Classical.choice/Quot.sound; the hand-written model (validated, not proved, against the Rust code by differential testing); usize = u64.",
        "explanation": "Theorems: model = contiguous-sequence spec for all canonical operands and all counts < 2^64; "
                       "forward/backward/steps_between mutually inverse; pages stay aligned; indices stay < 512. "
                       "Correspondence: Step::{forward_checked,backward_checked,steps_between} of the real crate vs the model.",
    },
}

# Properties that are not claimed, with the reason (kept current).
NOT_APPLICABLE = {}

# Hook commits in /repo (guarded by cargo feature `verif_hooks`).
HOOK_COMMITS = []
