"""Per-property configuration, one JSON file per claimed property (checks/<id>.json):

  modules      Lean modules holding the property's theorems (built + audited on every run)
  namespaces   Lean namespaces whose theorems are counted as proof obligations
  profiles     cargo profiles the correspondence harness runs in (["debug"] or ["debug","release"])
  allow_bv_decide  true if the theorems may depend on `*._native.bv_decide.ax_*` axioms
  rule / explanation / assumptions / trusted / level_text / level_note / technique   evidence + MANIFEST texts
  no_harness   true for a property decided by generated-constant theorems alone
  framework_checks  scripts validating the *specification side* against a second source (non-zero exit =
               FRAMEWORK-ERROR, never a violation); run by `setup` and at the start of every `check`
  eval_script / eval_modules  Lean file with a `main` (relative to lean/), run with `lake env lean --run` after
               building eval_modules: evaluates the spec oracle on source-derived (generated) data and prints
               `MISMATCH <row>` (concrete failing input -> VIOLATION replay), `UNCOVERED <row>`, `COUNTS k=v ...`
  uncovered_note    text explaining the `uncovered` list in the evidence
"""
import glob
import json
import os

_HERE = os.path.dirname(os.path.abspath(__file__))

COMMON_TRUST = [
    "hand-written Lean model of the anchored Rust code (tied to /repo by the correspondence harness on every run)",
    "correspondence harness (Rust, links the real crate) + line-protocol driver; generator quality bounds what it sees",
    "rustc/LLVM/core, bit_field, bitflags: modelled by their documented meaning, not verified",
]

PROPS = {}
for _p in sorted(glob.glob(os.path.join(_HERE, "C*.json"))):
    _c = json.load(open(_p))
    if _c.get("trusted") == "COMMON":
        _c["trusted"] = list(COMMON_TRUST)
    elif isinstance(_c.get("trusted"), list):
        _c["trusted"] = [t for x in _c["trusted"] for t in (COMMON_TRUST if x == "COMMON" else [x])]
    PROPS[os.path.basename(_p)[:-5]] = _c

# Properties that are not claimed, with the reason (kept current).
NOT_APPLICABLE = {}

# Hook commits in /repo (guarded by cargo feature `verif_hooks`).
HOOK_COMMITS = [
    "a102e24 verif_hooks: add off-by-default cargo feature and hook module",
    "a706040 verif_hooks: RFLAGS read overlay and write recorder (guarded)",
    "9652786 verif_hooks: Invlpgb::verif_new constructor (guarded)",
    "7119148 verif_hooks: expose recursive table-page computation (guarded)",
]
