-- Root of the `X86Model` library.
import X86Model.Base
import X86Model.Model.Addr
import X86Model.Model.Page
import X86Model.Spec.Canon
import X86Model.Properties.C05
import X86Model.Model.Entry
import X86Model.Spec.PageEntry
import X86Model.Properties.C08
import X86Model.Model.BitField
import X86Model.Model.Tss
import X86Model.Model.Gdt
import X86Model.Spec.Descriptor
import X86Model.Properties.C15
import X86Model.Spec.GdtTable
import X86Model.Properties.C14
