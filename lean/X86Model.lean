-- Root of the `X86Model` library.
import X86Model.Base
import X86Model.Model.Addr
import X86Model.Model.Page
import X86Model.Spec.Canon
import X86Model.Properties.C05
import X86Model.Properties.C18
import X86Model.Properties.C17
import X86Model.Properties.C16
import X86Model.Properties.C11
