-- Root of the `X86Model` library.
import X86Model.Base
import X86Model.Model.Addr
import X86Model.Model.Page
import X86Model.Model.AddrProg
import X86Model.Spec.Canon
import X86Model.Properties.C03
import X86Model.Properties.C04
import X86Model.Properties.C05
import X86Model.Properties.C06
import X86Model.Properties.C07
import X86Model.Generated.Consts
import X86Model.Model.Codecs
import X86Model.Spec.ArchTable
import X86Model.Spec.Codecs
import X86Model.Proofs.Bits
import X86Model.Properties.C19
