/-
Specification vocabulary for the address properties (C03–C07), written without
reference to the model: canonical addresses, their position (`rank`) in the
ascending enumeration of the 2^48 canonical addresses, and the inverse (`unrank`).
-/
import X86Model.Base

namespace X86.Spec

/-- Canonical 64-bit virtual address: bits 48..63 equal bit 47. -/
def canon (a : Nat) : Prop := a < 2^47 ∨ (2^64 - 2^47 ≤ a ∧ a < 2^64)

instance (a : Nat) : Decidable (canon a) := by unfold canon; exact inferInstance

/-- Valid physical address: bits 52..63 clear. -/
def physValid (a : Nat) : Prop := a < 2^52

instance (a : Nat) : Decidable (physValid a) := by unfold physValid; exact inferInstance

/-- Position of a canonical address in the ascending list of all canonical addresses. -/
abbrev rank (a : Nat) : Nat := a % 2^48

/-- The canonical address at position `r < 2^48`. -/
abbrev unrank (r : Nat) : Nat := if r < 2^47 then r else r + (2^64 - 2^48)

/-- Stepping forward `n` positions in the contiguous canonical sequence. -/
def forwardSpec (s n : Nat) : Option Nat :=
  if rank s + n < 2^48 then some (unrank (rank s + n)) else none

/-- Stepping backward `n` positions. -/
def backwardSpec (s n : Nat) : Option Nat :=
  if n ≤ rank s then some (unrank (rank s - n)) else none

/-- Distance from `s` to `e` when `e` is not before `s`. -/
def stepsSpec (s e : Nat) : Option Nat :=
  if rank s ≤ rank e then some (rank e - rank s) else none

/-- Stepping a page of size `sz` forward by `n` pages. -/
def pageForwardSpec (sz p n : Nat) : Option Nat :=
  if rank p + n * sz < 2^48 then some (unrank (rank p + n * sz)) else none

/-- Stepping a page of size `sz` backward by `n` pages. -/
def pageBackwardSpec (sz p n : Nat) : Option Nat :=
  if n * sz ≤ rank p then some (unrank (rank p - n * sz)) else none

/-- `Step::steps_between` result pair (lower bound, exact upper bound) in units of `sz`. -/
def stepsPairSpec (sz s e : Nat) : Nat × Option Nat :=
  match stepsSpec s e with
  | some d => (d / sz, some (d / sz))
  | none => (0, none)

/-- Table-index stepping stays within `0..512`. -/
def indexForwardSpec (i n : Nat) : Option Nat := if i + n < 512 then some (i + n) else none
def indexBackwardSpec (i n : Nat) : Option Nat := if n ≤ i then some (i - n) else none
def indexStepsSpec (s e : Nat) : Nat × Option Nat := if s ≤ e then (e - s, some (e - s)) else (0, none)

/-- Both in the lower half or both in the upper half. -/
def sameHalf (a b : Nat) : Prop := (a < 2^47 ∧ b < 2^47) ∨ (2^64 - 2^47 ≤ a ∧ 2^64 - 2^47 ≤ b)

instance (a b : Nat) : Decidable (sameHalf a b) := by unfold sameHalf; exact inferInstance

/-- One of the three architectural page sizes. -/
def pageSize (sz : Nat) : Prop := sz = 4096 ∨ sz = 2097152 ∨ sz = 1073741824

instance (sz : Nat) : Decidable (pageSize sz) := by unfold pageSize; exact inferInstance

/-! ### Page-table index fields of a virtual address (4-level, 9-9-9-9-12 layout) -/

/-- Index into the level-`k` table (`k = 1..4`): bit field `12+9(k-1) .. 12+9k-1`. -/
def idxSpec (k a : Nat) : Nat := a / 2^(12 + 9 * (k - 1)) % 512

/-- Page offset: bits 0..11. -/
def offSpec (a : Nat) : Nat := a % 4096

/-- The 48-bit number with the given index fields (page offset 0). -/
def ofIndices (i4 i3 i2 i1 : Nat) : Nat := i4 * 2^39 + i3 * 2^30 + i2 * 2^21 + i1 * 2^12

/-- Bytes of address space covered by one entry of a level-`l` table. -/
def entrySpan (l : Nat) : Nat := 4096 * 512^(l - 1)

/-! ### Alignment -/

/-- `r` is the greatest multiple of `al` that is not above `a`. -/
def GreatestMultipleLE (al a r : Nat) : Prop := al ∣ r ∧ r ≤ a ∧ ∀ m, al ∣ m → m ≤ a → m ≤ r

/-- `r` is the least multiple of `al` that is not below `a`. -/
def LeastMultipleGE (al a r : Nat) : Prop := al ∣ r ∧ a ≤ r ∧ ∀ m, al ∣ m → a ≤ m → r ≤ m

/-- The same among canonical addresses only. -/
def GreatestCanonMultipleLE (al a r : Nat) : Prop :=
  canon r ∧ al ∣ r ∧ r ≤ a ∧ ∀ m, canon m → al ∣ m → m ≤ a → m ≤ r

def LeastCanonMultipleGE (al a r : Nat) : Prop :=
  canon r ∧ al ∣ r ∧ a ≤ r ∧ ∀ m, canon m → al ∣ m → a ≤ m → r ≤ m

/-- Executable forms used by the driver oracle. -/
def downMultiple (a al : Nat) : Nat := a / al * al
def upMultiple (a al : Nat) : Nat := (a + al - 1) / al * al
def isPow2Spec (n : Nat) : Bool := (List.range 64).any (fun k => n == 2^k)

/-! ### Ranges -/

/-- The `n` items `s, s+sz, s+2sz, …` in ascending order. -/
def itemsSpec (sz s : Nat) : Nat → List Nat
  | 0 => []
  | n + 1 => s :: itemsSpec sz (s + sz) n

/-- Number of items of an exclusive / inclusive range with aligned bounds. -/
def lenSpec (incl : Bool) (sz s e : Nat) : Nat :=
  if incl then (if s ≤ e then (e - s) / sz + 1 else 0) else (if s < e then (e - s) / sz else 0)

/-- Order-sensitive checksum of an item list (used to compare long item sequences on one protocol line). -/
def listHash (l : List Nat) : Nat := l.foldl (fun h x => (h * 1000003 + x + 1) % 2^64) 0

end X86.Spec
