/-
Specification vocabulary for the address properties (C03–C07), written without
reference to the model: canonical addresses, their position (`rank`) in the
ascending enumeration of the 2^48 canonical addresses, and the inverse (`unrank`).
-/
import X86Model.Base

namespace X86.Spec

/-- Canonical 64-bit virtual address: bits 48..63 equal bit 47. -/
def canon (a : Nat) : Prop := a < 2^47 ∨ (2^64 - 2^47 ≤ a ∧ a < 2^64)

instance (a : Nat) : Decidable (canon a) := by unfold canon; exact inferInstance

/-- Valid physical address: bits 52..63 clear. -/
def physValid (a : Nat) : Prop := a < 2^52

instance (a : Nat) : Decidable (physValid a) := by unfold physValid; exact inferInstance

/-- Position of a canonical address in the ascending list of all canonical addresses. -/
abbrev rank (a : Nat) : Nat := a % 2^48

/-- The canonical address at position `r < 2^48`. -/
abbrev unrank (r : Nat) : Nat := if r < 2^47 then r else r + (2^64 - 2^48)

/-- Stepping forward `n` positions in the contiguous canonical sequence. -/
def forwardSpec (s n : Nat) : Option Nat :=
  if rank s + n < 2^48 then some (unrank (rank s + n)) else none

/-- Stepping backward `n` positions. -/
def backwardSpec (s n : Nat) : Option Nat :=
  if n ≤ rank s then some (unrank (rank s - n)) else none

/-- Distance from `s` to `e` when `e` is not before `s`. -/
def stepsSpec (s e : Nat) : Option Nat :=
  if rank s ≤ rank e then some (rank e - rank s) else none

/-- Stepping a page of size `sz` forward by `n` pages. -/
def pageForwardSpec (sz p n : Nat) : Option Nat :=
  if rank p + n * sz < 2^48 then some (unrank (rank p + n * sz)) else none

/-- Stepping a page of size `sz` backward by `n` pages. -/
def pageBackwardSpec (sz p n : Nat) : Option Nat :=
  if n * sz ≤ rank p then some (unrank (rank p - n * sz)) else none

/-- `Step::steps_between` result pair (lower bound, exact upper bound) in units of `sz`. -/
def stepsPairSpec (sz s e : Nat) : Nat × Option Nat :=
  match stepsSpec s e with
  | some d => (d / sz, some (d / sz))
  | none => (0, none)

/-- Table-index stepping stays within `0..512`. -/
def indexForwardSpec (i n : Nat) : Option Nat := if i + n < 512 then some (i + n) else none
def indexBackwardSpec (i n : Nat) : Option Nat := if n ≤ i then some (i - n) else none
def indexStepsSpec (s e : Nat) : Nat × Option Nat := if s ≤ e then (e - s, some (e - s)) else (0, none)

/-- Both in the lower half or both in the upper half. -/
def sameHalf (a b : Nat) : Prop := (a < 2^47 ∧ b < 2^47) ∨ (2^64 - 2^47 ≤ a ∧ 2^64 - 2^47 ≤ b)

instance (a b : Nat) : Decidable (sameHalf a b) := by unfold sameHalf; exact inferInstance

/-- One of the three architectural page sizes. -/
def pageSize (sz : Nat) : Prop := sz = 4096 ∨ sz = 2097152 ∨ sz = 1073741824

instance (sz : Nat) : Decidable (pageSize sz) := by unfold pageSize; exact inferInstance

end X86.Spec
