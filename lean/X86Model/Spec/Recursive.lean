/-
Recursive page-table addressing, stated independently of the model (C20, and the software-MMU
oracle of the mapper histories).

With P4 slot `R` pointing back to the P4 frame, the hardware walk of an address whose first `k`
indices are `R` stays in the P4 table for `k` steps and then follows the remaining indices; so the
table reached by following `(j4, j3, …)` from P4 appears as a 4 KiB "page" at
  P4 table:                (R, R, R, R)
  P3 table of (i4,…):      (R, R, R, i4)
  P2 table of (i4,i3,…):   (R, R, i4, i3)
  P1 table of (i4,i3,i2,…): (R, i4, i3, i2)
each sign-extended to a canonical address (`unrank`).
-/
import X86Model.Spec.Canon
import X86Model.Spec.Walk

namespace X86.Spec

/-- Address of the page through which the level-3 table of `va` is reached under recursive index `R`. -/
def recP3 (R va : Nat) : Nat := unrank (ofIndices R R R (idxSpec 4 va))
/-- … the level-2 table of `va`. -/
def recP2 (R va : Nat) : Nat := unrank (ofIndices R R (idxSpec 4 va) (idxSpec 3 va))
/-- … the level-1 table of `va`. -/
def recP1 (R va : Nat) : Nat := unrank (ofIndices R (idxSpec 4 va) (idxSpec 3 va) (idxSpec 2 va))
/-- … the level-4 table itself. -/
def recP4 (R : Nat) : Nat := unrank (ofIndices R R R R)

/-- Outcome of `RecursivePageTable::new`. -/
inductive NewOutcome where
  | ok (recursiveIndex : Nat)
  | notRecursive
  | notActive
  deriving DecidableEq, Repr

/-- What the documentation of `RecursivePageTable::new` requires, as a function of the table
reference's address `a`, the raw CR3 value and the raw content `e` of slot `idxSpec 4 a` of the
table: the address must have the recursive form (all four indices equal), and that slot must be
present and point to the frame CR3 holds (bits 51:12 of both, `tableAddr`). The checks are made in
this order. -/
def newSpec (a : Nat) (cr3 e : BitVec 64) : NewOutcome :=
  let R := idxSpec 4 a
  if idxSpec 3 a ≠ R ∨ idxSpec 2 a ≠ R ∨ idxSpec 1 a ≠ R then .notRecursive
  else if bitP e ∧ tableAddr e = tableAddr cr3 then .ok R
  else .notActive

end X86.Spec
