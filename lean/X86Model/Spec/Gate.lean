/-
Spec for C12: the interrupt descriptor table of IA-32e (64-bit) mode, written from the manuals.

  Intel SDM Vol. 3A §6.10 "Interrupt Descriptor Table (IDT)" (IDTR = 16-bit limit + base; "the limit
    value is expressed in bytes and is added to the base address to get the address of the last valid
    byte", so a table of N gates has limit 16·N − 1);
  §6.14.1 "64-Bit Mode IDT" and Figure 6-8 "64-Bit IDT Gate Descriptors" (16-byte gates, "the
    interrupt vector is scaled by 16": the gate of vector v is at IDTR.base + 16·v);
  Table 3-2 "System-Segment and Gate-Descriptor Types" (IA-32e column: 1110 = 64-bit interrupt gate,
    1111 = 64-bit trap gate);  §6.12.1.3 (an interrupt gate clears IF on entry, a trap gate does not);
  §6.14.5 "Interrupt Stack Table" (IST field 1–7 selects a stack, 0 = no stack switch);
  §6.3.1 Table 6-1 "Protected-Mode Exceptions and Interrupts" and §6.15 (which vectors exist, which
    push an error code, which are aborts); AMD APM Vol. 2 §8.2 Table 8-1 (vectors 28–30).

Independent of the model (imports only core).
-/
namespace X86.Spec

/-! ### The 64-bit interrupt/trap gate (Figure 6-8), viewed as one little-endian 128-bit word

byte 0–1   offset 15:0          bits   0–15
byte 2–3   segment selector     bits  16–31
byte 4     IST (bits 0–2), bits 3–7 reserved/zero            bits 32–34 / 35–39
byte 5     type (bits 0–3), "0" (bit 4), DPL (bits 5–6), P (bit 7)   bits 40–43 / 44 / 45–46 / 47
byte 6–7   offset 31:16         bits  48–63
byte 8–11  offset 63:32         bits  64–95
byte 12–15 reserved             bits  96–127
-/
structure GateFields where
  offset : BitVec 64
  selector : BitVec 16
  ist : BitVec 3
  type : BitVec 4
  dpl : BitVec 2
  p : Bool
  /-- the must-be-zero bits of bytes 4–5 are zero: bits 35–39 and bit 44 -/
  mbz : Bool
  /-- bytes 12–15 (reserved; zero in every gate software builds) -/
  reserved : BitVec 32
  deriving DecidableEq, Repr

def decodeGate (w : BitVec 128) : GateFields :=
  { offset := w.extractLsb' 64 32 ++ (w.extractLsb' 48 16 ++ w.extractLsb' 0 16)
    selector := w.extractLsb' 16 16
    ist := w.extractLsb' 32 3
    type := w.extractLsb' 40 4
    dpl := w.extractLsb' 45 2
    p := w.getLsbD 47
    mbz := w.extractLsb' 35 5 == 0#5 && !w.getLsbD 44
    reserved := w.extractLsb' 96 32 }

/-- The gate as the two little-endian quadwords a memory dump shows (bytes 0–7, bytes 8–15). -/
def gateOfWords (lo hi : BitVec 64) : BitVec 128 := hi ++ lo

def GATE_INTERRUPT : BitVec 4 := 0xE#4
def GATE_TRAP : BitVec 4 := 0xF#4

/-- Bytes per gate, number of vectors, and the IDTR limit of a full table. -/
def IDT_GATE_BYTES : Nat := 16
def IDT_VECTORS : Nat := 256
def IDT_LIMIT : Nat := IDT_GATE_BYTES * IDT_VECTORS - 1

/-- Where the CPU looks for the gate of vector `v`, relative to IDTR.base. -/
def gateByteOffset (v : Nat) : Nat := IDT_GATE_BYTES * v

/-- What an entry that was given handler address `a` while the code segment was `cs` must decode to:
that address, that selector, present, 64-bit interrupt gate, ring 0, no stack switch, reserved bits 0. -/
def expectedGate (a : BitVec 64) (cs : BitVec 16) : GateFields :=
  { offset := a, selector := cs, ist := 0#3, type := GATE_INTERRUPT, dpl := 0#2, p := true, mbz := true,
    reserved := 0#32 }

/-- An untouched entry: a non-present gate whose type field still reads "interrupt gate" (the
"must-be-one" bits 9–11 of the option word), everything else zero. -/
def missingGate : GateFields :=
  { offset := 0#64, selector := 0#16, ist := 0#3, type := GATE_INTERRUPT, dpl := 0#2, p := false, mbz := true,
    reserved := 0#32 }

/-- `VirtAddr` canonical form of a 64-bit value: bits 63:47 all equal (sign extension of bit 47). -/
def canon48 (a : BitVec 64) : BitVec 64 := (a.extractLsb' 0 48).signExtend 64

/-! ### Operations on a gate, as the architecture understands them -/

inductive GateOp where
  /-- give the gate a handler: resets every option (bytes 12–15 are not written) -/
  | handler (a : BitVec 64) (cs : BitVec 16)
  | present (b : Bool)
  /-- `true`: interrupts are disabled on entry, i.e. an interrupt gate; `false`: a trap gate -/
  | disableInterrupts (b : Bool)
  | privilegeLevel (d : BitVec 2)
  /-- zero-based index into the TSS's interrupt stack table (7 stacks: 0–6) -/
  | stackIndex (i : Nat)
  | codeSelector (s : BitVec 16)
  deriving DecidableEq, Repr

/-- The gate after the operation — exactly one field changes (all of them for `handler`).
`none`: the request cannot be expressed in a gate (there are only seven interrupt stacks) and has to be
refused, leaving the gate as it was. -/
def GateFields.apply (g : GateFields) : GateOp → Option GateFields
  | .handler a cs => some { expectedGate a cs with reserved := g.reserved }
  | .present b => some { g with p := b }
  | .disableInterrupts b => some { g with type := if b then GATE_INTERRUPT else GATE_TRAP }
  | .privilegeLevel d => some { g with dpl := d }
  | .stackIndex i => if i ≤ 6 then some { g with ist := BitVec.ofNat 3 (i + 1) } else none
  | .codeSelector s => some { g with selector := s }

/-- Run a sequence; a refused operation leaves the gate unchanged. Returns the gate after every step. -/
def GateFields.run (g : GateFields) : List GateOp → List (Bool × GateFields)
  | [] => []
  | op :: rest =>
    match g.apply op with
    | some g' => (true, g') :: GateFields.run g' rest
    | none => (false, g) :: GateFields.run g rest

def GateFields.final (g : GateFields) (ops : List GateOp) : GateFields :=
  ops.foldl (fun g op => (g.apply op).getD g) g

/-! ### The vectors (Table 6-1; APM Table 8-1 for 28–30) -/

structure VecInfo where
  vector : Nat
  mnemonic : String
  /-- the CPU pushes an error code -/
  errorCode : Bool
  /-- abort class: the interrupted program cannot be resumed, the handler must not return -/
  abort : Bool
  deriving DecidableEq, Repr

def exceptions : List VecInfo :=
  [ ⟨0,  "#DE", false, false⟩,   -- Divide Error, fault
    ⟨1,  "#DB", false, false⟩,   -- Debug, fault/trap
    ⟨2,  "NMI", false, false⟩,   -- non-maskable interrupt
    ⟨3,  "#BP", false, false⟩,   -- Breakpoint, trap
    ⟨4,  "#OF", false, false⟩,   -- Overflow, trap
    ⟨5,  "#BR", false, false⟩,   -- BOUND Range Exceeded, fault
    ⟨6,  "#UD", false, false⟩,   -- Invalid Opcode, fault
    ⟨7,  "#NM", false, false⟩,   -- Device Not Available, fault
    ⟨8,  "#DF", true,  true⟩,    -- Double Fault, abort, error code (zero)
    ⟨9,  "CSO", false, false⟩,   -- Coprocessor Segment Overrun (legacy; fault, no error code)
    ⟨10, "#TS", true,  false⟩,   -- Invalid TSS
    ⟨11, "#NP", true,  false⟩,   -- Segment Not Present
    ⟨12, "#SS", true,  false⟩,   -- Stack-Segment Fault
    ⟨13, "#GP", true,  false⟩,   -- General Protection
    ⟨14, "#PF", true,  false⟩,   -- Page Fault
    ⟨16, "#MF", false, false⟩,   -- x87 FPU Floating-Point Error
    ⟨17, "#AC", true,  false⟩,   -- Alignment Check, error code (zero)
    ⟨18, "#MC", false, true⟩,    -- Machine Check, abort
    ⟨19, "#XM", false, false⟩,   -- SIMD Floating-Point Exception
    ⟨20, "#VE", false, false⟩,   -- Virtualization Exception
    ⟨21, "#CP", true,  false⟩,   -- Control Protection Exception
    ⟨28, "#HV", false, false⟩,   -- Hypervisor Injection Exception (AMD)
    ⟨29, "#VC", true,  false⟩,   -- VMM Communication Exception (AMD)
    ⟨30, "#SX", true,  false⟩ ]  -- Security Exception (AMD)

/-- Vectors below 32 that neither manual defines ("Intel reserved. Do not use." / APM "Reserved"). -/
def reservedVectors : List Nat := [15, 22, 23, 24, 25, 26, 27, 31]

def vecInfo (v : Nat) : Option VecInfo := exceptions.find? (fun e => e.vector == v)

def isReserved (v : Nat) : Bool := reservedVectors.contains v
/-- Vectors 32–255 are user-defined interrupts: no error code, never aborts. -/
def pushesErrorCode (v : Nat) : Bool := match vecInfo v with | some e => e.errorCode | none => false
def isAbort (v : Nat) : Bool := match vecInfo v with | some e => e.abort | none => false

/-- A handler for vector `v` can have the plain signature `fn(frame)` (returns, no error code)
exactly when `v` is a defined vector without error code that is not an abort. Indexing by a bare
vector number hands out plain-signature entries, so it has to refuse all others. -/
def indexRefused (v : Nat) : Bool := isReserved v || pushesErrorCode v || isAbort v

/-- Why a refused vector is refused. -/
inductive Refusal where
  | reserved | errorCode | diverging
  deriving DecidableEq, Repr

/-- The reason an honest message may state for refusing `v` (an abort that also pushes an error code
— #DF — may be described either way). -/
def refusalAllowed (v : Nat) (r : Refusal) : Bool :=
  match r with
  | .reserved => isReserved v
  | .errorCode => pushesErrorCode v
  | .diverging => isAbort v

/-- The exception each named field of the crate's table is documented to be for (field name, vector):
the names are the crate's, the numbers Table 6-1's. -/
def namedVectors : List (String × Nat) :=
  [ ("divide_error", 0), ("debug", 1), ("non_maskable_interrupt", 2), ("breakpoint", 3), ("overflow", 4),
    ("bound_range_exceeded", 5), ("invalid_opcode", 6), ("device_not_available", 7), ("double_fault", 8),
    ("invalid_tss", 10), ("segment_not_present", 11), ("stack_segment_fault", 12),
    ("general_protection_fault", 13), ("page_fault", 14), ("x87_floating_point", 16), ("alignment_check", 17),
    ("machine_check", 18), ("simd_floating_point", 19), ("virtualization", 20), ("cp_protection_exception", 21),
    ("hv_injection_exception", 28), ("vmm_communication_exception", 29), ("security_exception", 30) ]

def vectorOfName (n : String) : Option Nat := (namedVectors.find? (fun p => p.1 == n)).map (·.2)

/-! ### Ranges of vectors (`RangeBounds<u8>`) -/

inductive Bound where
  | included (v : Nat)
  | excluded (v : Nat)
  | unbounded
  deriving DecidableEq, Repr

/-- The bound is a bound on `u8` values. -/
def Bound.inU8 : Bound → Prop
  | .included v => v < 256
  | .excluded v => v < 256
  | .unbounded => True

instance (b : Bound) : Decidable b.inU8 := by
  cases b <;> unfold Bound.inU8 <;> exact inferInstance

/-- First vector of a range with this start bound. -/
def Bound.first : Bound → Nat
  | .included v => v
  | .excluded v => v + 1
  | .unbounded => 0

/-- One past the last vector of a range with this end bound. -/
def Bound.endExcl : Bound → Nat
  | .included v => v + 1
  | .excluded v => v
  | .unbounded => IDT_VECTORS

/-- Range access to the table: refused when the range starts below vector 32 (those entries have
individual handler types) or is inverted; otherwise it denotes the vectors `first .. endExcl`, i.e.
`some (first, count)`. -/
def rangeSpec (lo hi : Bound) : Option (Nat × Nat) :=
  if lo.first < 32 then none
  else if hi.endExcl < lo.first then none
  else some (lo.first, hi.endExcl - lo.first)

end X86.Spec
