/-
Hardware-style 4-level page walk over raw table memory (Intel SDM Vol. 3A §4.5, "4-level
paging": Figure 4-8 linear-address translation, Tables 4-14..4-19 entry formats).
Written independently of the mapper model: it only knows the architectural entry format.

  * bit 0 P (present), bit 1 R/W, bit 2 U/S, bit 7 PS (page size; PDPTE/PDE only)
  * PML4E/PDPTE/PDE referencing a table: table address = bits 51:12
  * PDPTE with PS=1: 1 GiB page, address = bits 51:30;  PDE with PS=1: 2 MiB page, bits 51:21
  * PTE: 4 KiB page, address = bits 51:12
  * a PML4E with bit 7 set is a reserved-bit violation: no translation
  * effective R/W and U/S = AND of the bits of every entry used by the walk

Memory is a function `frame address → index (0..511) → 64-bit word`.
-/
import X86Model.Base

namespace X86.Spec

abbrev PhysMem := BitVec 64 → Nat → BitVec 64

def bitP (e : BitVec 64) : Bool := e &&& 1#64 != 0#64
def bitRW (e : BitVec 64) : Bool := e &&& 2#64 != 0#64
def bitUS (e : BitVec 64) : Bool := e &&& 4#64 != 0#64
def bitPS (e : BitVec 64) : Bool := e &&& 0x80#64 != 0#64

/-- bits 51:12 -/
def tableAddr (e : BitVec 64) : BitVec 64 := e &&& 0x000ffffffffff000#64
/-- bits 51:21 -/
def addr2M (e : BitVec 64) : BitVec 64 := e &&& 0x000fffffffe00000#64
/-- bits 51:30 -/
def addr1G (e : BitVec 64) : BitVec 64 := e &&& 0x000fffffc0000000#64

/-- Leaf attribute bits (everything that is not the address field): bits 0..11 and 52..63 for a
4 KiB leaf, additionally bit 12 (PAT) for a huge leaf. -/
def leafFlags4K (e : BitVec 64) : BitVec 64 := e &&& 0xfff0000000000fff#64
def leafFlagsHuge (e : BitVec 64) : BitVec 64 := e &&& 0xfff0000000001fff#64

def vaIdx4 (va : Nat) : Nat := va / 2^39 % 512
def vaIdx3 (va : Nat) : Nat := va / 2^30 % 512
def vaIdx2 (va : Nat) : Nat := va / 2^21 % 512
def vaIdx1 (va : Nat) : Nat := va / 2^12 % 512

/-- Result of a successful translation. -/
structure Xlat where
  base : Nat            -- physical start address of the mapped page
  size : Nat            -- 4096, 2^21 or 2^30
  off : Nat             -- offset of the address inside the page
  flags : BitVec 64     -- leaf attribute bits
  rw : Bool             -- effective writable (AND along the walk)
  us : Bool             -- effective user-accessible (AND along the walk)
  deriving DecidableEq, Repr

def Xlat.pa (x : Xlat) : Nat := x.base + x.off

/-- The MMU's view: translate `va` starting from the root table at physical address `cr3`. -/
def walk (m : PhysMem) (cr3 : BitVec 64) (va : Nat) : Option Xlat :=
  let e4 := m cr3 (vaIdx4 va)
  if !bitP e4 || bitPS e4 then none else
  let e3 := m (tableAddr e4) (vaIdx3 va)
  if !bitP e3 then none else
  if bitPS e3 then
    some { base := (addr1G e3).toNat, size := 2^30, off := va % 2^30, flags := leafFlagsHuge e3,
           rw := bitRW e4 && bitRW e3, us := bitUS e4 && bitUS e3 }
  else
  let e2 := m (tableAddr e3) (vaIdx2 va)
  if !bitP e2 then none else
  if bitPS e2 then
    some { base := (addr2M e2).toNat, size := 2^21, off := va % 2^21, flags := leafFlagsHuge e2,
           rw := bitRW e4 && bitRW e3 && bitRW e2, us := bitUS e4 && bitUS e3 && bitUS e2 }
  else
  let e1 := m (tableAddr e2) (vaIdx1 va)
  if !bitP e1 then none else
    some { base := (tableAddr e1).toNat, size := 4096, off := va % 4096, flags := leafFlags4K e1,
           rw := bitRW e4 && bitRW e3 && bitRW e2 && bitRW e1,
           us := bitUS e4 && bitUS e3 && bitUS e2 && bitUS e1 }

/-! ### Structural reading of the hierarchy, for the documented-outcome spec (C02) -/

/-- What a slot of a table at level `lvl` (4..1) holds. -/
inductive Slot where
  | unused                  -- all-zero entry
  | table (t : BitVec 64)   -- present, PS = 0, level ≥ 2: pointer to the next table
  | leaf (e : BitVec 64)    -- present page: PS = 1 at level 3/2, any present entry at level 1
  | other (e : BitVec 64)   -- non-zero but not present (not produced by the documented API)
  deriving DecidableEq, Repr

def slotOf (lvl : Nat) (e : BitVec 64) : Slot :=
  if e == 0#64 then .unused
  else if !bitP e then .other e
  else if lvl == 1 then .leaf e
  else if bitPS e then .leaf e
  else .table (tableAddr e)

/-- Outcome classes of the documented API. -/
inductive DocOutcome where
  | success
  | allocFailed
  | parentHuge
  | alreadyMapped
  | notMapped
  | someError          -- an error is required, the documentation does not say which
  | undefined          -- the documentation does not define the outcome for this state
  deriving DecidableEq, Repr

/-- Operation classes for `docOutcome`. -/
inductive OpClass where
  | map            -- map_to / identity_map (may allocate)
  | other          -- unmap, update_flags, translate_page
  deriving DecidableEq, Repr

/-- Documented outcome of an operation on the page whose parent-table indices (top-down) are
`parents` and whose slot index in the last table is `leafIdx`; `lvl` is the level of the table
`tbl` (4 at the root). `allocs` are the allocator's answers to come (`true` = a frame). Decided
top-down along the page's path: first unused parent ⇒ allocate (map) / not mapped (others);
first parent that is a huge leaf ⇒ ParentEntryHugePage; then the slot itself. -/
def docOutcome (m : PhysMem) (cls : OpClass) :
    (lvl : Nat) → (tbl : BitVec 64) → (parents : List Nat) → (leafIdx : Nat) → (allocs : List Bool) → DocOutcome
  | lvl, tbl, [], leafIdx, _ =>
    match slotOf lvl (m tbl leafIdx), cls with
    | .unused, .map => .success
    | .unused, .other => .notMapped
    | .leaf _, .map => .alreadyMapped
    | .leaf _, .other => .success
    | .table _, _ => .someError        -- a huge-page request whose slot holds a next-level table
    | .other _, _ => .undefined
  | lvl, tbl, i :: rest, leafIdx, allocs =>
    match slotOf lvl (m tbl i), cls with
    | .unused, .other => .notMapped
    | .unused, .map =>
      -- this table and all tables below it must be allocated
      if (allocs.take (rest.length + 1)).all id && allocs.length ≥ rest.length + 1 then .success
      else .allocFailed
    | .leaf _, _ => .parentHuge
    | .table t, _ => docOutcome m cls (lvl - 1) t rest leafIdx allocs
    | .other _, _ => .undefined

end X86.Spec
