/-
Specification of the interrupt-flag discipline (C17), over the flag alone.

Programs are nestings of "run this closure without interrupts" around leaves. The
specification assigns to a program and an initial flag: the result value, the final flag, the
flag-changing/halting instructions executed (in order) and, for every leaf closure body that ran,
the value it returned together with the flag it ran under. It is written directly from the
property's sentences: *without interrupts* = run the body once with the flag clear, bracketed by
`cli … sti` exactly when the flag was set, and the flag afterwards is what it was before.
-/
import X86Model.Base

namespace X86.Spec

/-- Test programs: what the harness builds out of closures. -/
inductive Prog where
  /-- a closure body that returns `v` (and reports the flag it ran under) -/
  | ret (v : Nat)
  /-- `without_interrupts(|| body)` -/
  | wi (body : Prog)
  /-- run `a`, then `b`; the result combines both results -/
  | seq (a b : Prog)
  /-- `interrupts::enable()` -/
  | enable
  /-- `interrupts::disable()` -/
  | disable
  /-- `interrupts::are_enabled()`, result 1/0 -/
  | query
  /-- a closure body that panics -/
  | boom
  deriving DecidableEq, Repr

/-- The flag-relevant instructions. -/
inductive IEv where
  | cli | sti | hlt
  deriving DecidableEq, Repr

/-- How `seq` combines the two results (any injective-enough mixing would do; the harness
uses the same). -/
def mix (x y : Nat) : Nat := (x * 31 + y) % 2^64

/-- What a leaf reports: its value and the flag it ran under. -/
def leafMark (v : Nat) (flag : Bool) : Nat := 2 * v + (if flag then 1 else 0)

structure IOut where
  res : Nat
  flag : Bool
  evs : List IEv
  marks : List Nat
  deriving DecidableEq, Repr

/-- Specified behaviour; `none` for programs whose behaviour the property does not describe (a
body that panics). -/
def Prog.spec : Prog → Bool → Option IOut
  | .ret v, f => some ⟨v, f, [], [leafMark v f]⟩
  | .wi body, f =>
    match body.spec false with
    | some o =>
      some ⟨o.res, f, (if f then [IEv.cli] else []) ++ o.evs ++ (if f then [IEv.sti] else []), o.marks⟩
    | none => none
  | .seq a b, f =>
    match a.spec f with
    | some oa =>
      match b.spec oa.flag with
      | some ob => some ⟨mix oa.res ob.res, ob.flag, oa.evs ++ ob.evs, oa.marks ++ ob.marks⟩
      | none => none
    | none => none
  | .enable, _ => some ⟨0, true, [IEv.sti], []⟩
  | .disable, _ => some ⟨0, false, [IEv.cli], []⟩
  | .query, f => some ⟨if f then 1 else 0, f, [], []⟩
  | .boom, _ => none

/-- The property's premise: every closure handed to `without_interrupts` leaves the flag as it
found it (it is entered with the flag clear, so: it ends with the flag clear). -/
def Prog.bodiesPreserve : Prog → Bool
  | .wi body =>
    body.bodiesPreserve && (match body.spec false with | some o => o.flag == false | none => false)
  | .seq a b => a.bodiesPreserve && b.bodiesPreserve
  | _ => true

/-- Nesting depth of `without_interrupts`. -/
def Prog.depth : Prog → Nat
  | .wi b => b.depth + 1
  | .seq a b => max a.depth b.depth
  | _ => 0

end X86.Spec
