/-
Spec for C08: what a 4-level paging-structure entry and a paging structure are, written from
the Intel SDM Vol. 3A §4.5 ("4-Level Paging"), Tables 4-15 … 4-20 and Figure 4-11, and from the
property text. Independent of the model (imports only core).

* An entry is one 64-bit word. Bits 12 … 51 (M-1:12 with the architectural maximum M = 52) hold
  the 4 KiB-aligned physical address of the next structure / the frame; bit 0 is P (present).
  All other bits (0–11 and 52–63) are control/ignored bits: the property's *flag domain*.
* A paging structure is 4096 bytes, 4 KiB aligned, made of 512 entries of 8 bytes; entry `i`
  occupies bytes `8i … 8i+7`, least-significant byte first (little-endian).
* "Storing address A and flags F" means the word `A ||| F`; the history of setter calls is
  summarised by the pair (last address, last flags).
-/
namespace X86.Spec

/-! ### One entry -/

/-- Bits 12 … 51: the physical-address field of an entry. -/
def ADDR_FIELD : BitVec 64 := 0x000ffffffffff000#64

/-- Bits 0 … 11 and 52 … 63: the flag domain of the property. -/
def FLAGDOM : BitVec 64 := 0xfff0000000000fff#64

/-- Bit 0: P (present). -/
def P_BIT : BitVec 64 := 1#64

/-- Bit 12: inside the address field; in a huge-page leaf it is the PAT bit. -/
def BIT12 : BitVec 64 := 0x1000#64

/-- A storable address: a physical address (below 2^52) aligned to 4 KiB. -/
def validAddr (a : BitVec 64) : Bool := a &&& ~~~ADDR_FIELD == 0#64

/-- A flag set drawn from the flag domain. -/
def inFlagDom (f : BitVec 64) : Bool := f &&& ~~~FLAGDOM == 0#64

/-- 4 KiB alignment (the only thing the code can check about an address value). -/
def aligned4K (a : BitVec 64) : Bool := a &&& 0xfff#64 == 0#64

/-- What an entry should be after a history of setter calls: the last address stored and the
last flags stored. -/
structure Stored where
  addr : BitVec 64
  flags : BitVec 64
  deriving DecidableEq, Repr

/-- The hardware word that stores `s`. -/
def Stored.word (s : Stored) : BitVec 64 := s.addr ||| s.flags

/-- Reading an arbitrary hardware word as (address field, flag-domain bits). -/
def Stored.ofWord (w : BitVec 64) : Stored := ⟨w &&& ADDR_FIELD, w &&& FLAGDOM⟩

/-- The four setters of the property's histories. `setAddr`/`setFrame` carry (address, flags). -/
inductive SetOp where
  | setAddr (a f : BitVec 64)
  | setFrame (a f : BitVec 64)
  | setFlags (f : BitVec 64)
  | setUnused
  deriving DecidableEq, Repr

/-- A call the property speaks about: aligned address below 2^52, flags from the flag domain. -/
def SetOp.inDomain : SetOp → Bool
  | .setAddr a f => validAddr a && inFlagDom f
  | .setFrame a f => validAddr a && inFlagDom f
  | .setFlags f => inFlagDom f
  | .setUnused => true

/-- "Last address, last flags": `set_addr`/`set_frame` replace both, `set_flags` replaces the
flags only, `set_unused` stores address 0 with no flags. A `set_addr` with an unaligned address
is rejected (`none`: the call must panic and leave the entry as it was). -/
def specStep (s : Stored) : SetOp → Option Stored
  | .setAddr a f => if aligned4K a then some ⟨a, f⟩ else none
  | .setFrame a f => if aligned4K a then some ⟨a, f⟩ else none
  | .setFlags f => some ⟨s.addr, f⟩
  | .setUnused => some ⟨0#64, 0#64⟩

/-- The spec's run over a whole history (`none` as soon as a call must panic). -/
def specRun (s : Stored) : List SetOp → Option Stored
  | [] => some s
  | op :: rest => match specStep s op with
    | some s' => specRun s' rest
    | none => none

/-- The explicit reading of "last": scan the history from its end. -/
def lastAddr? : List SetOp → Option (BitVec 64)   -- argument: history, most recent call first
  | [] => none
  | .setAddr a _ :: _ => some a
  | .setFrame a _ :: _ => some a
  | .setUnused :: _ => some 0#64
  | .setFlags _ :: rest => lastAddr? rest

def lastFlags? : List SetOp → Option (BitVec 64)  -- argument: history, most recent call first
  | [] => none
  | .setAddr _ f :: _ => some f
  | .setFrame _ f :: _ => some f
  | .setFlags f :: _ => some f
  | .setUnused :: _ => some 0#64

/-- What the getters must report for an entry that stores `s` (`s` in the property's domain):
raw word, `addr()`, `flags()`, `is_unused()`, `frame()`.
`flags()` additionally reports bit 12 of the word (the crate defines a flag `PAT_HUGE_PAGE` on
that bit), which lies in the address field, so it mirrors address bit 12. -/
structure Observed where
  raw : BitVec 64
  addr : BitVec 64
  flags : BitVec 64
  unused : Bool
  frame : Option (BitVec 64)
  deriving DecidableEq, Repr

def Stored.expected (s : Stored) : Observed :=
  { raw := s.addr ||| s.flags
    addr := s.addr
    flags := s.flags ||| (s.addr &&& BIT12)
    unused := s.addr == 0#64 && s.flags == 0#64
    frame := if s.flags &&& P_BIT == P_BIT then some s.addr else none }

/-! ### A table -/

def TABLE_BYTES : Nat := 4096
def TABLE_ALIGN : Nat := 4096
def ENTRY_BYTES : Nat := 8
def ENTRIES : Nat := 512

/-- Byte `k` (0 = least significant) of a 64-bit word. -/
def byteOf (w : BitVec 64) (k : Nat) : BitVec 8 := (w >>> (8 * k)).setWidth 8

/-- The memory image of a table whose entry `i` is `t i`: byte at offset `o`. -/
def imageByte (t : Nat → BitVec 64) (o : Nat) : BitVec 8 := byteOf (t (o / 8)) (o % 8)

/-- The entry stored at slot `i` of a memory image `m` (little-endian). -/
def wordAt (m : Nat → BitVec 8) (i : Nat) : BitVec 64 :=
  (List.range 8).foldl (fun acc k => acc ||| ((m (8 * i + k)).setWidth 64 <<< (8 * k))) 0#64

/-- Byte offset of slot `i`. -/
def slotOffset (i : Nat) : Nat := 8 * i

/-- Bytes of the image that change when slot `i` goes from `old` to `new`:
`(offset, new byte)` in ascending offset order. -/
def changedBytes (i : Nat) (old new : BitVec 64) : List (Nat × BitVec 8) :=
  (List.range 8).filterMap (fun k =>
    if byteOf old k == byteOf new k then none else some (8 * i + k, byteOf new k))

end X86.Spec
