/-
Spec for C15 (and the descriptor side of C14): segment descriptors, the 64-bit TSS/LDT system
descriptor, segment selectors, the 64-bit TSS and the pseudo-descriptor operand of LGDT/LIDT,
written from the Intel SDM Vol. 3A:
  §3.4.2 "Segment Selectors" (Figure 3-6), §3.4.5 "Segment Descriptors" (Figure 3-8),
  §3.4.5.1 "Code- and Data-Segment Descriptor Types" (Table 3-1), §3.5 Table 3-2 (system types),
  §8.2.3 / Figure 8-4 "Format of TSS and LDT Descriptors in 64-bit Mode",
  §8.7 / Figure 8-11 "64-Bit TSS Format", §2.4.1 / Figure 2-6 (GDTR: 16-bit limit, 64-bit base),
  §3.5.1 (pseudo-descriptor format).
Independent of the model (imports only core).
-/
namespace X86.Spec

/-! ### 8-byte segment descriptor (Figure 3-8), viewed as one little-endian 64-bit word -/

structure SegFields where
  /-- segment limit 19:0 — bits 0–15 (15:0) and bits 48–51 (19:16) -/
  limit : BitVec 20
  /-- base address 31:0 — bits 16–31 (15:0), 32–39 (23:16), 56–63 (31:24) -/
  base : BitVec 32
  /-- type field — bits 40–43 -/
  type : BitVec 4
  /-- S (descriptor type: false = system, true = code or data) — bit 44 -/
  s : Bool
  /-- DPL — bits 45–46 -/
  dpl : BitVec 2
  /-- P (present) — bit 47 -/
  p : Bool
  /-- AVL — bit 52 -/
  avl : Bool
  /-- L (64-bit code segment) — bit 53 -/
  l : Bool
  /-- D/B (default operation size) — bit 54 -/
  db : Bool
  /-- G (granularity) — bit 55 -/
  g : Bool
  deriving DecidableEq, Repr

def decodeSeg (w : BitVec 64) : SegFields :=
  { limit := w.extractLsb' 48 4 ++ w.extractLsb' 0 16
    base := w.extractLsb' 56 8 ++ (w.extractLsb' 32 8 ++ w.extractLsb' 16 16)
    type := w.extractLsb' 40 4
    s := w.getLsbD 44
    dpl := w.extractLsb' 45 2
    p := w.getLsbD 47
    avl := w.getLsbD 52
    l := w.getLsbD 53
    db := w.getLsbD 54
    g := w.getLsbD 55 }

/-! Code/data type field (Table 3-1): bit 3 = code; bit 2 = conforming (code) / expand-down
(data); bit 1 = readable (code) / writable (data); bit 0 = accessed. -/
def SegFields.isCode (d : SegFields) : Bool := d.type.getLsbD 3
def SegFields.confOrExpandDown (d : SegFields) : Bool := d.type.getLsbD 2
def SegFields.readOrWrite (d : SegFields) : Bool := d.type.getLsbD 1
def SegFields.accessed (d : SegFields) : Bool := d.type.getLsbD 0

/-! ### 16-byte system descriptor in 64-bit mode (Figure 8-4): low and high quadword -/

structure SysFields where
  /-- base address 63:0 — low qword as in Figure 3-8, plus high qword bits 0–31 (63:32) -/
  base : BitVec 64
  limit : BitVec 20
  type : BitVec 4
  s : Bool
  dpl : BitVec 2
  p : Bool
  avl : Bool
  g : Bool
  /-- the two bits of the low qword that are "0" in Figure 8-4 (bits 53, 54), both zero -/
  lowReservedZero : Bool
  /-- high qword bits 40–44 (dword 3 bits 8–12), which must be zero -/
  mbz : Bool
  /-- high qword bits 32–63 (dword 3, reserved), all zero -/
  highReservedZero : Bool
  deriving DecidableEq, Repr

def decodeSys (lo hi : BitVec 64) : SysFields :=
  let d := decodeSeg lo
  { base := hi.extractLsb' 0 32 ++ d.base
    limit := d.limit
    type := d.type
    s := d.s
    dpl := d.dpl
    p := d.p
    avl := d.avl
    g := d.g
    lowReservedZero := !d.l && !d.db
    mbz := hi.extractLsb' 40 5 == 0#5
    highReservedZero := hi.extractLsb' 32 32 == 0#32 }

/-- System-segment type 9: "64-bit TSS (Available)" (Table 3-2, IA-32e mode column). -/
def TYPE_TSS64_AVAILABLE : BitVec 4 := 0x9#4

/-- Size of the 64-bit TSS (Figure 8-11: the I/O map base word ends at byte 0x67). -/
def TSS_BYTES : Nat := 0x68

/-- What the TSS descriptor for a TSS at address `ptr` must decode to: full base, limit =
size − 1 in bytes (G = 0), available 64-bit TSS, system descriptor, ring 0, present, every
reserved bit zero. -/
def expectedTss (ptr : BitVec 64) : SysFields :=
  { base := ptr, limit := 0x67#20, type := TYPE_TSS64_AVAILABLE, s := false, dpl := 0#2, p := true,
    avl := false, g := false, lowReservedZero := true, mbz := true, highReservedZero := true }

/-! ### The six predefined code/data descriptors: what their names state -/

inductive Preset where
  | kernelData | kernelCode32 | kernelCode64 | userData | userCode32 | userCode64
  deriving DecidableEq, Repr

def Preset.all : List Preset :=
  [.kernelData, .kernelCode32, .kernelCode64, .userData, .userCode32, .userCode64]

/-- kind (code?), L, D/B, DPL stated by the name. "64-bit code": L = 1 and D = 0 (SDM §5.2.1 /
§3.4.5: L = 1 requires D = 0); "32-bit code": L = 0, D = 1; data ("64-bit or flat 32-bit"):
L = 0, B = 1. -/
def Preset.code : Preset → Bool
  | .kernelData | .userData => false
  | _ => true
def Preset.long : Preset → Bool
  | .kernelCode64 | .userCode64 => true
  | _ => false
def Preset.dsize : Preset → Bool
  | .kernelCode64 | .userCode64 => false
  | _ => true
def Preset.dpl : Preset → BitVec 2
  | .kernelData | .kernelCode32 | .kernelCode64 => 0#2
  | _ => 3#2

/-- The full field set expected of a preset: a present, flat (base 0, limit 0xFFFFF in 4 KiB
units), accessed, readable/writable, non-conforming / expand-up code or data segment with the
named kind, size bits and privilege level; AVL clear. -/
def expectedPreset (k : Preset) : SegFields :=
  { limit := 0xfffff#20, base := 0#32,
    type := (if k.code then 0x8#4 else 0x0#4) ||| 0x3#4,   -- code? | readable/writable | accessed
    s := true, dpl := k.dpl, p := true, avl := false, l := k.long, db := k.dsize, g := true }

/-- The architectural field behind each named descriptor flag, as a mask over the 64-bit word
(Figure 3-8 / Table 3-1), in the order: accessed (type bit 0), writable/readable (type bit 1),
conforming/expand-down (type bit 2), executable (type bit 3), S, DPL (both bits), P, AVL, L, D/B,
G, limit 15:0, limit 19:16, base 23:0, base 31:24. -/
def fieldMask (lo width : Nat) : BitVec 64 := BitVec.ofNat 64 ((2 ^ width - 1) * 2 ^ lo)

def flagFieldMasks : List (BitVec 64) :=
  [fieldMask 40 1, fieldMask 41 1, fieldMask 42 1, fieldMask 43 1, fieldMask 44 1, fieldMask 45 2, fieldMask 47 1, fieldMask 52 1,
   fieldMask 53 1, fieldMask 54 1, fieldMask 55 1, fieldMask 0 16, fieldMask 48 4, fieldMask 16 24, fieldMask 56 8]

/-! ### Segment selector (Figure 3-6): RPL bits 0–1, TI bit 2 (0 = GDT), index bits 3–15 -/

structure SelFields where
  index : BitVec 13
  ti : Bool
  rpl : BitVec 2
  deriving DecidableEq, Repr

def decodeSel (s : BitVec 16) : SelFields :=
  { index := s.extractLsb' 3 13, ti := s.getLsbD 2, rpl := s.extractLsb' 0 2 }

/-! ### 64-bit TSS (Figure 8-11) and pseudo-descriptor (LGDT/LIDT operand) layouts -/

/-- Byte offsets in the TSS. -/
def TSS_OFF_RSP0 : Nat := 4
def TSS_OFF_IST1 : Nat := 0x24
def TSS_OFF_IOMAP_BASE : Nat := 0x66

/-- The pseudo-descriptor: 16-bit limit at byte 0, 64-bit base at byte 2, 10 bytes. -/
def DTP_OFF_LIMIT : Nat := 0
def DTP_OFF_BASE : Nat := 2
def DTP_BYTES : Nat := 10

/-- Little-endian bytes of a value. -/
def leBytes (n : Nat) (v : Nat) : List Nat := (List.range n).map (fun k => (v / 256 ^ k) % 256)

/-- The 0x68 bytes of a TSS holding stack pointers `rsp` (3), `ist` (7) and I/O map base `iomap`,
all reserved fields zero. -/
def encodeTss (rsp ist : List Nat) (iomap : Nat) : List Nat :=
  leBytes 4 0 ++ (rsp.take 3).flatMap (leBytes 8) ++ leBytes 8 0 ++ (ist.take 7).flatMap (leBytes 8)
    ++ leBytes 8 0 ++ leBytes 2 0 ++ leBytes 2 iomap

/-- The 10 bytes of a pseudo-descriptor. -/
def encodeDtp (limit base : Nat) : List Nat := leBytes 2 limit ++ leBytes 8 base

end X86.Spec
