/-
What a correct port access looks like to an observer of the executed instructions, written
from the instruction reference (SDM Vol. 2, IN / OUT): the DX-forms are
  IN AL,DX = EC    IN AX,DX = 66 ED (operand-size prefix)    IN EAX,DX = ED
  OUT DX,AL = EE   OUT DX,AX = 66 EF                           OUT DX,EAX = EF
none of which has a memory operand; the port number is DX, the datum is AL/AX/EAX.
-/
import X86Model.Spec.Insn

namespace X86.Spec

/-- Encoding (lower-case hex) of `in <acc>, dx` per width. -/
def inOpcode : Width → String
  | .b8 => "ec"
  | .b16 => "66ed"
  | .b32 => "ed"

/-- Encoding of `out dx, <acc>` per width. -/
def outOpcode : Width → String
  | .b8 => "ee"
  | .b16 => "66ef"
  | .b32 => "ef"

/-- Does the instruction have a memory operand (explicit or stack)? -/
def Insn.touchesMemory : Insn → Bool
  | .invlpg _ => false          -- the operand is an address, no access is made
  | .invpcid _ _ _ | .lgdt _ _ | .lidt _ _ | .retfq _ | .pushfq | .popfq _ | .stmxcsr | .ldmxcsr _ => true
  | _ => false

/-- One trapped instruction of a port access as reported by the trap harness. -/
structure PortEv where
  opcode : String
  dx : Nat
  acc : Nat
  deriving DecidableEq, Repr

/-- A read of width `w` on `port` while the device supplies `dev` (a 32-bit word; a narrower
read obtains its low bits): exactly one instruction, the `in` of that width, DX = port, and
both the accumulator and the returned value are the device's datum. -/
def portReadOk (w : Width) (port dev : Nat) (evs : List PortEv) (ret : Nat) : Bool :=
  match evs with
  | [e] => e.opcode == inOpcode w && e.dx == port && e.acc == dev % 2^w.bits && ret == dev % 2^w.bits
  | _ => false

/-- A write of the `w`-bit value `val`: exactly one `out` of that width, DX = port, accumulator = value. -/
def portWriteOk (w : Width) (port val : Nat) (evs : List PortEv) : Bool :=
  match evs with
  | [e] => e.opcode == outOpcode w && e.dx == port && e.acc == val % 2^w.bits
  | _ => false

/-- The harness' view of an instruction of the abstract machine (port instructions only). -/
def Insn.portEv (c : Cpu) : Insn → Option PortEv
  | .inp w port => some ⟨inOpcode w, port.toNat, ((c.dev port w) &&& w.mask).toNat⟩
  | .out w port val => some ⟨outOpcode w, port.toNat, (val &&& w.mask).toNat⟩
  | _ => none

end X86.Spec
