/-
Architectural table for C19: `(type, name) ↦ value` for the crate's public constants, written
from the architecture manuals and NOT derived from the crate (only the *keys* are the crate's
names; every row names the architectural mnemonic it was read from).

  SDM  = Intel 64 and IA-32 Architectures Software Developer's Manual (Vol. 1, 2, 3, 4)
  APM  = AMD64 Architecture Programmer's Manual, Vol. 2 (System Programming)

A constant of the crate that has no row here is *uncovered* (listed in the evidence, no alarm);
a row whose value differs from the crate's constant is a violation (Properties/C19.lean).
The rows of RFlags, Cr0Flags, Cr3Flags, Cr4Flags, Dr6Flags, Dr7Flags are additionally compared
with the Linux UAPI headers on every `run.py setup` (tools/crosscheck_archtable.py), which
parses this file textually: keep every row in the form `("NAME", <bit k | literal | a <<< k>)`.

Imports: core only (this file is linked into the `driver` executable). It must not import the
model or the generated constants.
-/
namespace X86.Spec.ArchTable

/-- The value with only bit `k` set. -/
def bit (k : Nat) : Nat := 2 ^ k

def table : List (String × List (String × Nat)) := [

  -- SDM Vol.3 §4.5 (4-level paging), Tables 4-15 … 4-20 (formats of PML4E/PDPTE/PDE/PTE);
  -- APM Vol.2 §5.4.1 (field definitions).
  ("PageTableFlags", [
    ("PRESENT",         bit 0),    -- P
    ("WRITABLE",        bit 1),    -- R/W
    ("USER_ACCESSIBLE", bit 2),    -- U/S
    ("WRITE_THROUGH",   bit 3),    -- PWT
    ("NO_CACHE",        bit 4),    -- PCD
    ("ACCESSED",        bit 5),    -- A
    ("DIRTY",           bit 6),    -- D
    ("HUGE_PAGE",       bit 7),    -- PS (PDPTE/PDE)
    ("PAT_4KIB_PAGE",   bit 7),    -- PAT in a PTE that maps a 4-KByte page
    ("GLOBAL",          bit 8),    -- G
    ("BIT_9",           bit 9),    -- bits 11:9 ignored (APM: AVL)
    ("BIT_10",          bit 10),
    ("BIT_11",          bit 11),
    ("PAT_HUGE_PAGE",   bit 12),   -- PAT in a PDE/PDPTE that maps a 2-MByte/1-GByte page
    ("BIT_52",          bit 52),   -- bits 62:52 ignored (APM: available); 62:59 = protection key if CR4.PKE
    ("BIT_53",          bit 53),
    ("BIT_54",          bit 54),
    ("BIT_55",          bit 55),
    ("BIT_56",          bit 56),
    ("BIT_57",          bit 57),
    ("BIT_58",          bit 58),
    ("BIT_59",          bit 59),
    ("BIT_60",          bit 60),
    ("BIT_61",          bit 61),
    ("BIT_62",          bit 62),
    ("NO_EXECUTE",      bit 63)    -- XD (APM: NX)
  ]),

  -- SDM Vol.3 §3.4.5, Figure 3-8 (segment descriptor); the 8-byte descriptor as one 64-bit
  -- little-endian word: second doubleword bit b is bit 32+b.  §5.2.1 for code segments in 64-bit mode.
  ("DescriptorFlags", [
    ("ACCESSED",     bit 40),             -- type bit 0: A
    ("WRITABLE",     bit 41),             -- type bit 1: W (data) / R (code)
    ("CONFORMING",   bit 42),             -- type bit 2: C (code) / E expand-down (data)
    ("EXECUTABLE",   bit 43),             -- type bit 3: 1 = code
    ("USER_SEGMENT", bit 44),             -- S (descriptor type: 1 = code or data)
    ("DPL_RING_3",   3 <<< 45),           -- DPL field, bits 46:45, value 3
    ("PRESENT",      bit 47),             -- P
    ("AVAILABLE",    bit 52),             -- AVL
    ("LONG_MODE",    bit 53),             -- L
    ("DEFAULT_SIZE", bit 54),             -- D/B
    ("GRANULARITY",  bit 55),             -- G
    ("LIMIT_0_15",   0xFFFF),             -- segment limit 15:00, bits 15:0
    ("LIMIT_16_19",  0xF <<< 48),         -- segment limit 19:16, bits 51:48
    ("BASE_0_23",    0xFFFFFF <<< 16),    -- base 23:00, bits 39:16
    ("BASE_24_31",   0xFF <<< 56),        -- base 31:24, bits 63:56
    -- SDM Vol.2B, SYSCALL / SYSRET "Operation" (the flat descriptors these instructions load):
    -- base 0, limit FFFFFH, G=1, P=1, S=1; code: type 11 (execute/read, accessed), L=1,D=0 (64-bit) or
    -- L=0,D=1 (32-bit); stack/data: type 3 (read/write, accessed), B=1; DPL 0 (SYSCALL) or 3 (SYSRET).
    ("KERNEL_DATA",   0x00CF93000000FFFF),
    ("KERNEL_CODE32", 0x00CF9B000000FFFF),
    ("KERNEL_CODE64", 0x00AF9B000000FFFF),
    ("USER_DATA",     0x00CFF3000000FFFF),
    ("USER_CODE32",   0x00CFFB000000FFFF),
    ("USER_CODE64",   0x00AFFB000000FFFF)
  ]),

  -- SDM Vol.3 §4.7, Figure 4-12 (page-fault error code); APM Vol.2 §8.4.2 (RMP bit).
  ("PageFaultErrorCode", [
    ("PROTECTION_VIOLATION", bit 0),   -- P
    ("CAUSED_BY_WRITE",      bit 1),   -- W/R
    ("USER_MODE",            bit 2),   -- U/S
    ("MALFORMED_TABLE",      bit 3),   -- RSVD
    ("INSTRUCTION_FETCH",    bit 4),   -- I/D
    ("PROTECTION_KEY",       bit 5),   -- PK
    ("SHADOW_STACK",         bit 6),   -- SS
    ("SGX",                  bit 15),  -- SGX
    ("RMP",                  bit 31)   -- RMP (AMD SEV-SNP)
  ]),

  -- SDM Vol.3 §6.3.1, Table 6-1 / §6.15 (exception and interrupt reference);
  -- APM Vol.2 §8.2, Table 8-1 (vectors 28-30).
  ("ExceptionVector", [
    ("Division",             0),    -- #DE
    ("Debug",                1),    -- #DB
    ("NonMaskableInterrupt", 2),    -- NMI
    ("Breakpoint",           3),    -- #BP
    ("Overflow",             4),    -- #OF
    ("BoundRange",           5),    -- #BR
    ("InvalidOpcode",        6),    -- #UD
    ("DeviceNotAvailable",   7),    -- #NM
    ("Double",               8),    -- #DF
    ("InvalidTss",           10),   -- #TS
    ("SegmentNotPresent",    11),   -- #NP
    ("Stack",                12),   -- #SS
    ("GeneralProtection",    13),   -- #GP
    ("Page",                 14),   -- #PF
    ("X87FloatingPoint",     16),   -- #MF
    ("AlignmentCheck",       17),   -- #AC
    ("MachineCheck",         18),   -- #MC
    ("SimdFloatingPoint",    19),   -- #XM (APM: #XF)
    ("Virtualization",       20),   -- #VE
    ("ControlProtection",    21),   -- #CP
    ("HypervisorInjection",  28),   -- #HV
    ("VmmCommunication",     29),   -- #VC
    ("Security",             30)    -- #SX
  ]),

  -- SDM Vol.3 §2.5 (control registers), Figure 2-7.
  ("Cr0Flags", [
    ("PROTECTED_MODE_ENABLE", bit 0),    -- PE
    ("MONITOR_COPROCESSOR",   bit 1),    -- MP
    ("EMULATE_COPROCESSOR",   bit 2),    -- EM
    ("TASK_SWITCHED",         bit 3),    -- TS
    ("EXTENSION_TYPE",        bit 4),    -- ET
    ("NUMERIC_ERROR",         bit 5),    -- NE
    ("WRITE_PROTECT",         bit 16),   -- WP
    ("ALIGNMENT_MASK",        bit 18),   -- AM
    ("NOT_WRITE_THROUGH",     bit 29),   -- NW
    ("CACHE_DISABLE",         bit 30),   -- CD
    ("PAGING",                bit 31)    -- PG
  ]),

  -- SDM Vol.3 §2.5, §4.5 Table 4-12 (use of CR3 with 4-level paging, CR4.PCIDE = 0).
  ("Cr3Flags", [
    ("PAGE_LEVEL_WRITETHROUGH",  bit 3),   -- PWT
    ("PAGE_LEVEL_CACHE_DISABLE", bit 4)    -- PCD
  ]),

  -- SDM Vol.3 §2.5, Figure 2-7 (CR4).
  ("Cr4Flags", [
    ("VIRTUAL_8086_MODE_EXTENSIONS",         bit 0),    -- VME
    ("PROTECTED_MODE_VIRTUAL_INTERRUPTS",    bit 1),    -- PVI
    ("TIMESTAMP_DISABLE",                    bit 2),    -- TSD
    ("DEBUGGING_EXTENSIONS",                 bit 3),    -- DE
    ("PAGE_SIZE_EXTENSION",                  bit 4),    -- PSE
    ("PHYSICAL_ADDRESS_EXTENSION",           bit 5),    -- PAE
    ("MACHINE_CHECK_EXCEPTION",              bit 6),    -- MCE
    ("PAGE_GLOBAL",                          bit 7),    -- PGE
    ("PERFORMANCE_MONITOR_COUNTER",          bit 8),    -- PCE
    ("OSFXSR",                               bit 9),    -- OSFXSR
    ("OSXMMEXCPT_ENABLE",                    bit 10),   -- OSXMMEXCPT
    ("USER_MODE_INSTRUCTION_PREVENTION",     bit 11),   -- UMIP
    ("L5_PAGING",                            bit 12),   -- LA57
    ("VIRTUAL_MACHINE_EXTENSIONS",           bit 13),   -- VMXE
    ("SAFER_MODE_EXTENSIONS",                bit 14),   -- SMXE
    ("FSGSBASE",                             bit 16),   -- FSGSBASE
    ("PCID",                                 bit 17),   -- PCIDE
    ("OSXSAVE",                              bit 18),   -- OSXSAVE
    ("KEY_LOCKER",                           bit 19),   -- KL
    ("SUPERVISOR_MODE_EXECUTION_PROTECTION", bit 20),   -- SMEP
    ("SUPERVISOR_MODE_ACCESS_PREVENTION",    bit 21),   -- SMAP
    ("PROTECTION_KEY_USER",                  bit 22),   -- PKE
    ("CONTROL_FLOW_ENFORCEMENT",             bit 23),   -- CET
    ("PROTECTION_KEY_SUPERVISOR",            bit 24)    -- PKS
  ]),

  -- APM Vol.2 §3.1.7, Figure 3-8 (EFER); SDM Vol.4 Table 2-2 IA32_EFER for SCE/LME/LMA/NXE.
  ("EferFlags", [
    ("SYSTEM_CALL_EXTENSIONS",         bit 0),    -- SCE
    ("LONG_MODE_ENABLE",               bit 8),    -- LME
    ("LONG_MODE_ACTIVE",               bit 10),   -- LMA
    ("NO_EXECUTE_ENABLE",              bit 11),   -- NXE
    ("SECURE_VIRTUAL_MACHINE_ENABLE",  bit 12),   -- SVME
    ("LONG_MODE_SEGMENT_LIMIT_ENABLE", bit 13),   -- LMSLE
    ("FAST_FXSAVE_FXRSTOR",            bit 14),   -- FFXSR
    ("TRANSLATION_CACHE_EXTENSION",    bit 15)    -- TCE
  ]),

  -- SDM Vol.4 Table 2-2, IA32_U_CET (6A0H) / IA32_S_CET (6A2H); Vol.1 §17.
  ("CetFlags", [
    ("SS_ENABLE",                  bit 0),    -- SH_STK_EN
    ("SS_WRITE_ENABLE",            bit 1),    -- WR_SHSTK_EN
    ("IBT_ENABLE",                 bit 2),    -- ENDBR_EN
    ("IBT_LEGACY_ENABLE",          bit 3),    -- LEG_IW_EN
    ("IBT_NO_TRACK_ENABLE",        bit 4),    -- NO_TRACK_EN
    ("IBT_LEGACY_SUPPRESS_ENABLE", bit 5),    -- SUPPRESS_DIS
    ("IBT_SUPPRESS_ENABLE",        bit 10),   -- SUPPRESS
    ("IBT_TRACKED",                bit 11)    -- TRACKER
  ]),

  -- SDM Vol.3 §10.4.4, Figure 10-5 and §10.12.1, Figure 10-26 (IA32_APIC_BASE).
  ("ApicBaseFlags", [
    ("BSP",           bit 8),    -- BSP
    ("X2APIC_ENABLE", bit 10),   -- EXTD
    ("LAPIC_ENABLE",  bit 11)    -- EN (APIC global enable)
  ]),

  -- MSR numbers: SDM Vol.4 Table 2-2 (architectural MSRs); APM Vol.2 Appendix A.
  ("Efer",         [("MSR", 0xC0000080)]),   -- IA32_EFER / EFER
  ("Star",         [("MSR", 0xC0000081)]),   -- IA32_STAR / STAR
  ("LStar",        [("MSR", 0xC0000082)]),   -- IA32_LSTAR / LSTAR
  ("CStar",        [("MSR", 0xC0000083)]),   -- IA32_CSTAR / CSTAR
  ("SFMask",       [("MSR", 0xC0000084)]),   -- IA32_FMASK / SFMASK
  ("FsBase",       [("MSR", 0xC0000100)]),   -- IA32_FS_BASE
  ("GsBase",       [("MSR", 0xC0000101)]),   -- IA32_GS_BASE
  ("KernelGsBase", [("MSR", 0xC0000102)]),   -- IA32_KERNEL_GS_BASE
  ("ApicBase",     [("MSR", 0x1B)]),         -- IA32_APIC_BASE
  ("UCet",         [("MSR", 0x6A0)]),        -- IA32_U_CET
  ("SCet",         [("MSR", 0x6A2)]),        -- IA32_S_CET

  -- SDM Vol.3 §11.12.4, Table 11-12 (memory type setting of PAT entries following power up or
  -- reset: PAT0 WB, PAT1 WT, PAT2 UC-, PAT3 UC, PAT4..7 the same), reset value 0007040600070406H.
  ("Pat", [
    ("MSR", 0x277),                          -- IA32_PAT
    ("DEFAULT_0", 6), ("DEFAULT_1", 4), ("DEFAULT_2", 7), ("DEFAULT_3", 0),
    ("DEFAULT_4", 6), ("DEFAULT_5", 4), ("DEFAULT_6", 7), ("DEFAULT_7", 0),
    ("DEFAULT_PACKED", 0x0007040600070406)
  ]),

  -- SDM Vol.3 §11.12.2, Table 11-10 (memory types that can be encoded with PAT).
  ("PatMemoryType", [
    ("StrongUncacheable", 0),   -- UC
    ("WriteCombining",    1),   -- WC
    ("WriteThrough",      4),   -- WT
    ("WriteProtected",    5),   -- WP
    ("WriteBack",         6),   -- WB
    ("Uncacheable",       7)    -- UC-
  ]),

  -- SDM Vol.1 §3.4.3, Figure 3-8 (EFLAGS); RFLAGS bits 63:22 reserved.
  ("RFlags", [
    ("CARRY_FLAG",                bit 0),    -- CF
    ("PARITY_FLAG",               bit 2),    -- PF
    ("AUXILIARY_CARRY_FLAG",      bit 4),    -- AF
    ("ZERO_FLAG",                 bit 6),    -- ZF
    ("SIGN_FLAG",                 bit 7),    -- SF
    ("TRAP_FLAG",                 bit 8),    -- TF
    ("INTERRUPT_FLAG",            bit 9),    -- IF
    ("DIRECTION_FLAG",            bit 10),   -- DF
    ("OVERFLOW_FLAG",             bit 11),   -- OF
    ("IOPL_LOW",                  bit 12),   -- IOPL, bits 13:12
    ("IOPL_HIGH",                 bit 13),
    ("NESTED_TASK",               bit 14),   -- NT
    ("RESUME_FLAG",               bit 16),   -- RF
    ("VIRTUAL_8086_MODE",         bit 17),   -- VM
    ("ALIGNMENT_CHECK",           bit 18),   -- AC
    ("VIRTUAL_INTERRUPT",         bit 19),   -- VIF
    ("VIRTUAL_INTERRUPT_PENDING", bit 20),   -- VIP
    ("ID",                        bit 21)    -- ID
  ]),

  -- SDM Vol.1 §10.2.3, Figure 10-3 (MXCSR); RC encoding Table 4-8 (00 nearest, 01 down, 10 up,
  -- 11 toward zero); §10.2.3: "the default MXCSR value at reset is 1F80H".
  ("MxCsr", [
    ("INVALID_OPERATION",         bit 0),    -- IE
    ("DENORMAL",                  bit 1),    -- DE
    ("DIVIDE_BY_ZERO",            bit 2),    -- ZE
    ("OVERFLOW",                  bit 3),    -- OE
    ("UNDERFLOW",                 bit 4),    -- UE
    ("PRECISION",                 bit 5),    -- PE
    ("DENORMALS_ARE_ZEROS",       bit 6),    -- DAZ
    ("INVALID_OPERATION_MASK",    bit 7),    -- IM
    ("DENORMAL_MASK",             bit 8),    -- DM
    ("DIVIDE_BY_ZERO_MASK",       bit 9),    -- ZM
    ("OVERFLOW_MASK",             bit 10),   -- OM
    ("UNDERFLOW_MASK",            bit 11),   -- UM
    ("PRECISION_MASK",            bit 12),   -- PM
    ("ROUNDING_CONTROL_NEGATIVE", 1 <<< 13), -- RC = 01B (round down, toward -inf), bits 14:13
    ("ROUNDING_CONTROL_POSITIVE", 2 <<< 13), -- RC = 10B (round up, toward +inf)
    ("ROUNDING_CONTROL_ZERO",     3 <<< 13), -- RC = 11B (toward zero, truncate)
    ("FLUSH_TO_ZERO",             bit 15),   -- FZ
    ("default",                   0x1F80)    -- reset value
  ]),

  -- SDM Vol.1 §13.3 (XCR0 state-component bitmap); APM Vol.2 §11.5.2 (XCR0[62] = LWP).
  ("XCr0Flags", [
    ("X87",       bit 0),    -- x87 state
    ("SSE",       bit 1),    -- SSE state
    ("AVX",       bit 2),    -- AVX state
    ("BNDREG",    bit 3),    -- MPX BND0-BND3
    ("BNDCSR",    bit 4),    -- MPX BNDCFGU/BNDSTATUS
    ("OPMASK",    bit 5),    -- AVX-512 opmask
    ("ZMM_HI256", bit 6),    -- AVX-512 ZMM_Hi256
    ("HI16_ZMM",  bit 7),    -- AVX-512 Hi16_ZMM
    ("MPK",       bit 9),    -- PKRU state
    ("LWP",       bit 62)    -- AMD lightweight profiling
  ]),

  -- SDM Vol.3 §17.2.3 (debug status register DR6).
  ("Dr6Flags", [
    ("TRAP0",           bit 0),    -- B0
    ("TRAP1",           bit 1),    -- B1
    ("TRAP2",           bit 2),    -- B2
    ("TRAP3",           bit 3),    -- B3
    ("TRAP",            0xF),      -- B0..B3
    ("ACCESS_DETECTED", bit 13),   -- BD
    ("STEP",            bit 14),   -- BS
    ("SWITCH",          bit 15),   -- BT
    ("RTM",             bit 16)    -- RTM
  ]),

  -- SDM Vol.3 §17.2.4 (debug control register DR7): Ln = bit 2n, Gn = bit 2n+1.
  ("Dr7Flags", [
    ("LOCAL_BREAKPOINT_0_ENABLE",       bit 0),    -- L0
    ("GLOBAL_BREAKPOINT_0_ENABLE",      bit 1),    -- G0
    ("LOCAL_BREAKPOINT_1_ENABLE",       bit 2),    -- L1
    ("GLOBAL_BREAKPOINT_1_ENABLE",      bit 3),    -- G1
    ("LOCAL_BREAKPOINT_2_ENABLE",       bit 4),    -- L2
    ("GLOBAL_BREAKPOINT_2_ENABLE",      bit 5),    -- G2
    ("LOCAL_BREAKPOINT_3_ENABLE",       bit 6),    -- L3
    ("GLOBAL_BREAKPOINT_3_ENABLE",      bit 7),    -- G3
    ("LOCAL_EXACT_BREAKPOINT_ENABLE",   bit 8),    -- LE
    ("GLOBAL_EXACT_BREAKPOINT_ENABLE",  bit 9),    -- GE
    ("RESTRICTED_TRANSACTIONAL_MEMORY", bit 11),   -- RTM
    ("GENERAL_DETECT_ENABLE",           bit 13)    -- GD
  ]),

  -- SDM Vol.3 §17.2.4: R/Wn field encodings (with CR4.DE = 1).
  ("BreakpointCondition", [
    ("InstructionExecution", 0),   -- 00 break on instruction execution only
    ("DataWrites",           1),   -- 01 break on data writes only
    ("IoReadsWrites",        2),   -- 10 break on I/O reads or writes
    ("DataReadsWrites",      3)    -- 11 break on data reads or writes but not instruction fetches
  ]),

  -- SDM Vol.3 §17.2.4: LENn field encodings.
  ("BreakpointSize", [
    ("Length1B", 0),   -- 00 1-byte length
    ("Length2B", 1),   -- 01 2-byte length
    ("Length8B", 2),   -- 10 8-byte length (undefined on some older processors)
    ("Length4B", 3)    -- 11 4-byte length
  ]),

  -- SDM Vol.3 §17.2 : DR0..DR3 are debug registers number 0..3 (the number selects Ln/Gn/RWn/LENn).
  ("DebugAddressRegisterNumber", [("Dr0", 0), ("Dr1", 1), ("Dr2", 2), ("Dr3", 3)]),

  -- SDM Vol.3 §5.5 (privilege levels 0..3; CPL/DPL/RPL are 2-bit fields holding this number).
  ("PrivilegeLevel", [("Ring0", 0), ("Ring1", 1), ("Ring2", 2), ("Ring3", 3)]),

  -- SDM Vol.3 §4.5: level 1 = page table (VA bits 20:12), 2 = page directory (29:21),
  -- 3 = page-directory-pointer table (38:30), 4 = PML4 (47:39).
  ("PageTableLevel", [("One", 1), ("Two", 2), ("Three", 3), ("Four", 4)]),

  -- SDM Vol.3 §4.5: page sizes 4 KBytes, 2 MBytes, 1 GByte; 512 entries per paging structure;
  -- 48-bit linear addresses (2^48 bytes of linear-address space).
  ("Size4KiB",   [("SIZE", 0x1000)]),
  ("Size2MiB",   [("SIZE", 0x200000)]),
  ("Size1GiB",   [("SIZE", 0x40000000)]),
  ("page_table", [("ENTRY_COUNT", 512)]),
  ("addr",       [("ADDRESS_SPACE_SIZE", 0x1000000000000)])
]

/-- The architectural value of the crate's constant `ty::name`, if the table has a row for it. -/
def lookup (ty name : String) : Option Nat :=
  match table.lookup ty with
  | some rows => rows.lookup name
  | none => none

/-- A generated constant conforms when the table has no row for it or the row has its value. -/
def conforms (c : String × String × Nat) : Bool :=
  match lookup c.1 c.2.1 with
  | none => true
  | some v => v == c.2.2

/-- The table has a row for this constant. -/
def covered (c : String × String × Nat) : Bool := (lookup c.1 c.2.1).isSome

/-- Number of rows. -/
def rowCount : Nat := (table.map (·.2.length)).foldl (· + ·) 0

end X86.Spec.ArchTable
