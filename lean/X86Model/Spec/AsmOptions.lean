/-
Which `asm!` options an instruction admits (Rust reference, "Inline assembly / Options", read against
the instruction's architectural behaviour in the Intel SDM / AMD APM):

* `pure`      — "no side effects, outputs depend only on inputs": the compiler may delete, merge and
                hoist the block. Admissible only for instructions whose result is a function of
                their register inputs and that change no machine state (`nop`, `lea`).
                Everything else in this crate reads or changes machine state (RFLAGS, control/debug/
                model-specific registers, I/O ports, TLB, descriptor-table registers).
* `nomem`     — "does not read or write memory": not admissible for instructions with a memory
                operand the hardware dereferences (`lgdt/lidt/ldmxcsr/invpcid` read it,
                `sgdt/sidt/stmxcsr` write it).
* `readonly`  — "does not write memory": not admissible where the hardware writes the operand.
* `nostack`   — "does not push to the stack / touch the red zone": not admissible for
                `push/pop/pushfq/popfq/retfq/iretq`.
* compiler barriers: `interrupts::enable` / `interrupts::disable` are the acquire/release pair of
  `without_interrupts` — the closure's memory accesses must stay between `cli` and `sti`, so these two
  blocks must not be `nomem`, `readonly` or `pure` (C17: "executes the closure with the flag clear").

Instructions not listed in `known` are reported as uncovered by the conformance theorems' companion
`uncoveredMnemonics` (no alarm: a new instruction must not fail the check).
-/
import X86Model.Generated.AsmSites

namespace X86.Spec.AsmOptions
open X86.Generated

/-- instructions whose result depends only on register inputs and that change no machine state -/
def pureOK : List String := ["nop", "lea"]
/-- the hardware reads through the memory operand -/
def memRead : List String := ["lgdt", "lidt", "ldmxcsr", "invpcid"]
/-- the hardware writes through the memory operand -/
def memWrite : List String := ["sgdt", "sidt", "stmxcsr"]
/-- the instruction pushes or pops -/
def stackUse : List String := ["push", "pop", "pushfq", "popfq", "retfq", "iretq"]

/-- every mnemonic the table has an opinion about -/
def known : List String :=
  pureOK ++ memRead ++ memWrite ++ stackUse ++
  ["sti", "cli", "hlt", "int3", "int", "xchg", "in", "out", "mov", "rd$base", "wr$base", "swapgs", "ltr",
   "invlpg", "tlbsync", "invlpgb", "rdmsr", "wrmsr", "xgetbv", "xsetbv"]

/-- the blocks that must act as compiler barriers: (file, function) -/
def barrierFns : List (String × String) :=
  [("src/instructions/interrupts.rs", "enable"), ("src/instructions/interrupts.rs", "disable")]

def has (s : AsmSite) (o : String) : Bool := s.options.contains o

/-- The option set of a block is admissible for the instructions it contains. -/
def admissible (s : AsmSite) : Bool :=
  (!has s "pure" || s.mnemonics.all (pureOK.contains ·)) &&
  (!has s "nomem" || s.mnemonics.all (fun m => !memRead.contains m && !memWrite.contains m)) &&
  (!has s "readonly" || s.mnemonics.all (fun m => !memWrite.contains m)) &&
  (!has s "nostack" || s.mnemonics.all (fun m => !stackUse.contains m)) &&
  (!barrierFns.contains (s.file, s.func) || (!has s "nomem" && !has s "readonly" && !has s "pure"))

def sitesOfFiles (files : List String) : List AsmSite := asmSites.filter (fun s => files.contains s.file)

/-- the instruction lists of the blocks of one function -/
def blocksOf (file func : String) : List (List String) :=
  (asmSites.filter (fun s => s.file == file && s.func == func)).map (·.insns)

def uncoveredMnemonics : List String :=
  (asmSites.flatMap (·.mnemonics)).eraseDups.filter (fun m => !known.contains m)

end X86.Spec.AsmOptions
