/-
The abstract machine the instruction wrappers run on: the architectural register file (`Cpu`),
the privileged and system instructions the crate issues (`Insn`, with their operand values), and
what each of them does according to the manuals (`step`).

Written from Intel SDM Vol. 2 (instruction reference: CLI, STI, HLT, IN, OUT, MOV to/from control
and debug registers, RDMSR, WRMSR, XGETBV, XSETBV, INVLPG, INVPCID, LGDT/LIDT, LTR, MOV Sreg,
SWAPGS, RD/WRFSBASE, RD/WRGSBASE, PUSHFQ/POPFQ, RET far, STMXCSR/LDMXCSR) and AMD APM Vol. 3
(INVLPGB, TLBSYNC). Nothing here refers to the crate: this file is the *spec* side. The models of
the wrappers (Model/*.lean) use this vocabulary to say which instructions a wrapper issues.

Simplifications, all on the side of "state the wrappers do not depend on": faults are not
modelled (the wrappers' callers are at CPL 0), descriptor caches are not modelled (a segment
load stores the selector), the TLB and the I/O devices are not state: their instructions leave
the register file unchanged and are visible in the instruction trace only.
-/
import X86Model.Base

namespace X86.Spec

/-- Operand width of a port access. -/
inductive Width where
  | b8 | b16 | b32
  deriving DecidableEq, Repr

def Width.bits : Width → Nat
  | .b8 => 8
  | .b16 => 16
  | .b32 => 32

/-- Value mask of a width, as a 32-bit word. -/
def Width.mask : Width → BitVec 32
  | .b8 => 0xff#32
  | .b16 => 0xffff#32
  | .b32 => 0xffffffff#32

/-- Segment registers in their instruction-encoding order (SDM Vol. 2, `Sreg` field). -/
inductive Sreg where
  | es | cs | ss | ds | fs | gs
  deriving DecidableEq, Repr

def Sreg.num : Sreg → Nat
  | .es => 0 | .cs => 1 | .ss => 2 | .ds => 3 | .fs => 4 | .gs => 5

/-- MSR numbers with architectural side meaning (SDM Vol. 4 Table 2-2 / APM Vol. 2 App. A). -/
def IA32_FS_BASE : Nat := 0xC0000100
def IA32_GS_BASE : Nat := 0xC0000101
def IA32_KERNEL_GS_BASE : Nat := 0xC0000102

/-- The architectural register file. -/
structure Cpu where
  cr0 : BitVec 64
  cr2 : BitVec 64
  cr3 : BitVec 64
  cr4 : BitVec 64
  cr8 : BitVec 64
  /-- DR0–DR7 (indices ≥ 8 unused). -/
  dr : Nat → BitVec 64
  xcr0 : BitVec 64
  /-- Model-specific registers by index. FS.base, GS.base and KernelGSbase are the MSRs
  `C000_0100h`–`C000_0102h` (the base registers and these MSRs are the same state). -/
  msr : Nat → BitVec 64
  rflags : BitVec 64
  mxcsr : BitVec 32
  sreg : Sreg → BitVec 16
  tr : BitVec 16
  gdtr : BitVec 16 × BitVec 64
  idtr : BitVec 16 × BitVec 64
  /-- The I/O devices: the value a read of the given width on the given port obtains. -/
  dev : BitVec 16 → Width → BitVec 32

def Cpu.fsBase (c : Cpu) : BitVec 64 := c.msr IA32_FS_BASE
def Cpu.gsBase (c : Cpu) : BitVec 64 := c.msr IA32_GS_BASE
def Cpu.kernelGsBase (c : Cpu) : BitVec 64 := c.msr IA32_KERNEL_GS_BASE

/-- RFLAGS.IF is bit 9 (SDM Vol. 1 §3.4.3). -/
def IF_MASK : BitVec 64 := 0x200#64

def Cpu.ifFlag (c : Cpu) : Bool := c.rflags &&& IF_MASK != 0#64

/-- Control register `n` (CR0, CR2, CR3, CR4, CR8 exist). -/
def Cpu.cr (c : Cpu) (n : Nat) : BitVec 64 :=
  match n with
  | 0 => c.cr0
  | 2 => c.cr2
  | 3 => c.cr3
  | 4 => c.cr4
  | 8 => c.cr8
  | _ => 0#64

def Cpu.setCr (c : Cpu) (n : Nat) (v : BitVec 64) : Cpu :=
  match n with
  | 0 => { c with cr0 := v }
  | 2 => { c with cr2 := v }
  -- MOV to CR3 does not modify bit 63 of CR3, which is reserved and always 0 (SDM Vol. 2, MOV
  -- to/from control registers; bit 63 of the source only selects "no invalidation")
  | 3 => { c with cr3 := v &&& ~~~(1#64 <<< 63) }
  | 4 => { c with cr4 := v }
  | 8 => { c with cr8 := v }
  | _ => c

def Cpu.setDr (c : Cpu) (n : Nat) (v : BitVec 64) : Cpu :=
  { c with dr := fun k => if k = n then v else c.dr k }

def Cpu.setMsr (c : Cpu) (n : Nat) (v : BitVec 64) : Cpu :=
  { c with msr := fun k => if k = n then v else c.msr k }

def Cpu.setSreg (c : Cpu) (s : Sreg) (v : BitVec 16) : Cpu :=
  { c with sreg := fun k => if k = s then v else c.sreg k }

/-- An executed instruction with the values of its source operands. -/
inductive Insn where
  | cli
  | sti
  | hlt
  /-- `in al/ax/eax, dx` -/
  | inp (w : Width) (port : BitVec 16)
  /-- `out dx, al/ax/eax` with the accumulator's low `w` bits -/
  | out (w : Width) (port : BitVec 16) (val : BitVec 32)
  | movFromCr (n : Nat)
  | movToCr (n : Nat) (v : BitVec 64)
  | movFromDr (n : Nat)
  | movToDr (n : Nat) (v : BitVec 64)
  | rdmsr (ecx : BitVec 32)
  | wrmsr (ecx eax edx : BitVec 32)
  | xgetbv (ecx : BitVec 32)
  | xsetbv (ecx eax edx : BitVec 32)
  /-- `invlpg m`: `addr` is the effective address of the operand -/
  | invlpg (addr : BitVec 64)
  /-- `invpcid r64, m128`: the register operand and the two quadwords of the descriptor -/
  | invpcid (kind descLo descHi : BitVec 64)
  | invlpgb (rax : BitVec 64) (ecx edx : BitVec 32)
  | tlbsync
  /-- `lgdt m16&64` with the operand's contents -/
  | lgdt (limit : BitVec 16) (base : BitVec 64)
  | lidt (limit : BitVec 16) (base : BitVec 64)
  | ltr (sel : BitVec 16)
  | movToSreg (s : Sreg) (sel : BitVec 16)
  | movFromSreg (s : Sreg)
  /-- far return popping RIP (to the next instruction) and the given CS stack slot -/
  | retfq (cs : BitVec 64)
  | swapgs
  | rdfsbase
  | rdgsbase
  | wrfsbase (v : BitVec 64)
  | wrgsbase (v : BitVec 64)
  /-- `pushfq; pop r` -/
  | pushfq
  /-- `push r; popfq` -/
  | popfq (v : BitVec 64)
  | stmxcsr
  | ldmxcsr (v : BitVec 32)
  deriving DecidableEq, Repr

/-- Result registers of an instruction: `a` is the destination register (or RAX/EAX/AX/AL),
`d` is RDX where the instruction defines it. -/
structure Out where
  a : BitVec 64
  d : BitVec 64
  deriving DecidableEq, Repr

def Out.none : Out := ⟨0#64, 0#64⟩
def Out.one (v : BitVec 64) : Out := ⟨v, 0#64⟩

/-- `EDX:EAX` as a 64-bit value. -/
def edxEax (eax edx : BitVec 32) : BitVec 64 := (edx.zeroExtend 64 <<< 32) ||| eax.zeroExtend 64

/-- Bits of RFLAGS that POPFQ at CPL 0 loads from the stack (SDM Vol. 2 POPF, Table 4-16,
64-bit mode, CPL 0): CF PF AF ZF SF TF IF DF OF IOPL NT AC ID. RF, VIF, VIP are cleared, VM is
unaffected, bit 1 reads as 1, the other reserved bits read as 0. -/
def POPFQ_LOADED : BitVec 64 := 0x247FD5#64
def RFLAGS_VM : BitVec 64 := 0x20000#64

/-- One instruction: new register file and result registers. -/
def step (c : Cpu) : Insn → Cpu × Out
  | .cli => ({ c with rflags := c.rflags &&& ~~~IF_MASK }, Out.none)
  | .sti => ({ c with rflags := c.rflags ||| IF_MASK }, Out.none)
  | .hlt => (c, Out.none)
  | .inp w port => (c, Out.one ((c.dev port w &&& w.mask).zeroExtend 64))
  | .out _ _ _ => (c, Out.none)
  | .movFromCr n => (c, Out.one (c.cr n))
  | .movToCr n v => (c.setCr n v, Out.none)
  | .movFromDr n => (c, Out.one (c.dr n))
  | .movToDr n v => (c.setDr n v, Out.none)
  | .rdmsr ecx =>
    let v := c.msr ecx.toNat
    (c, ⟨(v.truncate 32 : BitVec 32).zeroExtend 64, v >>> 32⟩)
  | .wrmsr ecx eax edx => (c.setMsr ecx.toNat (edxEax eax edx), Out.none)
  | .xgetbv ecx =>
    let v := if ecx = 0#32 then c.xcr0 else 0#64
    (c, ⟨(v.truncate 32 : BitVec 32).zeroExtend 64, v >>> 32⟩)
  | .xsetbv ecx eax edx =>
    (if ecx = 0#32 then { c with xcr0 := edxEax eax edx } else c, Out.none)
  | .invlpg _ => (c, Out.none)
  | .invpcid _ _ _ => (c, Out.none)
  | .invlpgb _ _ _ => (c, Out.none)
  | .tlbsync => (c, Out.none)
  | .lgdt l b => ({ c with gdtr := (l, b) }, Out.none)
  | .lidt l b => ({ c with idtr := (l, b) }, Out.none)
  | .ltr sel => ({ c with tr := sel }, Out.none)
  | .movToSreg s sel => (c.setSreg s sel, Out.none)
  | .movFromSreg s => (c, Out.one ((c.sreg s).zeroExtend 64))
  | .retfq cs => (c.setSreg .cs (cs.truncate 16), Out.none)
  | .swapgs =>
    let g := c.msr IA32_GS_BASE
    let k := c.msr IA32_KERNEL_GS_BASE
    ((c.setMsr IA32_GS_BASE k).setMsr IA32_KERNEL_GS_BASE g, Out.none)
  | .rdfsbase => (c, Out.one (c.msr IA32_FS_BASE))
  | .rdgsbase => (c, Out.one (c.msr IA32_GS_BASE))
  | .wrfsbase v => (c.setMsr IA32_FS_BASE v, Out.none)
  | .wrgsbase v => (c.setMsr IA32_GS_BASE v, Out.none)
  | .pushfq => (c, Out.one c.rflags)
  | .popfq v =>
    ({ c with rflags := (v &&& POPFQ_LOADED) ||| (c.rflags &&& RFLAGS_VM) ||| 2#64 }, Out.none)
  | .stmxcsr => (c, Out.one (c.mxcsr.zeroExtend 64))
  | .ldmxcsr v => ({ c with mxcsr := v }, Out.none)

/-- Run a list of instructions. -/
def exec (c : Cpu) : List Insn → Cpu
  | [] => c
  | i :: is => exec (step c i).1 is

/-- Instructions that fault at CPL 3 (and are therefore seen by a trap handler in a user
process): everything except the unprivileged flag/base/XCR reads and valid segment loads. -/
def Insn.privileged : Insn → Bool
  | .xgetbv _ | .rdfsbase | .rdgsbase | .wrfsbase _ | .wrgsbase _ | .pushfq | .popfq _
  | .stmxcsr | .ldmxcsr _ | .movFromSreg _ => false
  | _ => true

/-- One observed instruction: mnemonic and numeric operands/results, the form in which the trap
harness reports it. -/
structure Obs where
  mnem : String
  args : List Nat
  deriving DecidableEq, Repr

/-- What an observer of instruction `i` executed in state `c` sees: operands and results. -/
def Insn.obs (c : Cpu) (i : Insn) : Obs :=
  let o := (step c i).2
  match i with
  | .cli => ⟨"cli", []⟩
  | .sti => ⟨"sti", []⟩
  | .hlt => ⟨"hlt", []⟩
  | .inp w port => ⟨s!"in{w.bits}", [port.toNat, o.a.toNat]⟩
  | .out w port val => ⟨s!"out{w.bits}", [port.toNat, (val &&& w.mask).toNat]⟩
  | .movFromCr n => ⟨"rdcr", [n, o.a.toNat]⟩
  | .movToCr n v => ⟨"wrcr", [n, v.toNat]⟩
  | .movFromDr n => ⟨"rddr", [n, o.a.toNat]⟩
  | .movToDr n v => ⟨"wrdr", [n, v.toNat]⟩
  | .rdmsr ecx => ⟨"rdmsr", [ecx.toNat, o.a.toNat, o.d.toNat]⟩
  | .wrmsr ecx eax edx => ⟨"wrmsr", [ecx.toNat, eax.toNat, edx.toNat]⟩
  | .xgetbv ecx => ⟨"xgetbv", [ecx.toNat, o.a.toNat, o.d.toNat]⟩
  | .xsetbv ecx eax edx => ⟨"xsetbv", [ecx.toNat, eax.toNat, edx.toNat]⟩
  | .invlpg a => ⟨"invlpg", [a.toNat]⟩
  | .invpcid k lo hi => ⟨"invpcid", [k.toNat, lo.toNat, hi.toNat]⟩
  | .invlpgb rax ecx edx => ⟨"invlpgb", [rax.toNat, ecx.toNat, edx.toNat]⟩
  | .tlbsync => ⟨"tlbsync", []⟩
  | .lgdt l b => ⟨"lgdt", [l.toNat, b.toNat]⟩
  | .lidt l b => ⟨"lidt", [l.toNat, b.toNat]⟩
  | .ltr sel => ⟨"ltr", [sel.toNat]⟩
  | .movToSreg s sel => ⟨"movsreg", [s.num, sel.toNat]⟩
  | .movFromSreg s => ⟨"rdsreg", [s.num, o.a.toNat]⟩
  | .retfq cs => ⟨"retfq", [cs.toNat, 1]⟩
  | .swapgs => ⟨"swapgs", []⟩
  | .rdfsbase => ⟨"rdfsbase", [o.a.toNat]⟩
  | .rdgsbase => ⟨"rdgsbase", [o.a.toNat]⟩
  | .wrfsbase v => ⟨"wrfsbase", [v.toNat]⟩
  | .wrgsbase v => ⟨"wrgsbase", [v.toNat]⟩
  | .pushfq => ⟨"pushfq", [o.a.toNat]⟩
  | .popfq v => ⟨"popfq", [v.toNat]⟩
  | .stmxcsr => ⟨"stmxcsr", [o.a.toNat]⟩
  | .ldmxcsr v => ⟨"ldmxcsr", [v.toNat]⟩

/-- Observations of a whole trace started in `c`. -/
def observe (c : Cpu) : List Insn → List Obs
  | [] => []
  | i :: is => i.obs c :: observe (step c i).1 is

/-- The part of a trace a trap handler in a user process can see. -/
def observeTrapped (c : Cpu) : List Insn → List Obs
  | [] => []
  | i :: is =>
    if i.privileged then i.obs c :: observeTrapped (step c i).1 is
    else observeTrapped (step c i).1 is

/-- A register file with every register zero (for examples and the driver). -/
def Cpu.zero : Cpu :=
  { cr0 := 0, cr2 := 0, cr3 := 0, cr4 := 0, cr8 := 0, dr := fun _ => 0, xcr0 := 0,
    msr := fun _ => 0, rflags := 2, mxcsr := 0x1f80, sreg := fun _ => 0, tr := 0,
    gdtr := (0, 0), idtr := (0, 0), dev := fun _ _ => 0 }

end X86.Spec
