/-
Specification of the small architectural encodings of C19, written from the manuals in terms
of bit positions (`BitVec.extractLsb'`: "the `len`-bit field whose least significant bit is bit
`lo`") and plain numbers.  Independent of the model (does not import it) and of the crate.

  SDM = Intel SDM, APM = AMD APM Vol.2.  Imports: core only (linked into the `driver`).
-/
namespace X86.Spec

/-- The `len`-bit field of `x` starting at bit `lo`, as a number. -/
def field {w : Nat} (x : BitVec w) (lo len : Nat) : Nat := (x.extractLsb' lo len).toNat

/-- `r` is `x` with the `len`-bit field at `lo` replaced by `v`, every other bit unchanged. -/
def IsFieldUpdate {w : Nat} (x r : BitVec w) (lo len v : Nat) : Prop :=
  field r lo len = v ∧ ∀ i, i < w → (i < lo ∨ lo + len ≤ i) → r.getLsbD i = x.getLsbD i

/-- Executable form of `IsFieldUpdate` (used by the driver as oracle). -/
def isFieldUpdate {w : Nat} (x r : BitVec w) (lo len v : Nat) : Bool :=
  field r lo len == v &&
    (List.range w).all (fun i => if i < lo ∨ lo + len ≤ i then r.getLsbD i == x.getLsbD i else true)

/-! ### Segment selector — SDM Vol.3 §3.4.2, Figure 3-6
bits 1:0 RPL, bit 2 TI (0 = GDT, 1 = LDT), bits 15:3 index. -/

def selRpl (s : BitVec 16) : Nat := field s 0 2
def selTI (s : BitVec 16) : Nat := field s 2 1
def selIndex (s : BitVec 16) : Nat := field s 3 13

/-- The selector with the given fields. -/
def selMake (index ti rpl : Nat) : Nat := index * 8 + ti * 4 + rpl

/-- Privilege levels are the numbers 0..3 (SDM Vol.3 §5.5). -/
def isPrivilegeLevel (n : Nat) : Bool := n < 4

/-! ### PCID — SDM Vol.3 §4.10.1: a PCID is a 12-bit identifier (CR3 bits 11:0). -/

def isPcid (n : Nat) : Bool := n < 2 ^ 12

/-! ### DR6/DR7 — SDM Vol.3 §17.2.3, §17.2.4, Figure 17-1
DR7: L_n = bit 2n, G_n = bit 2n+1 (n = 0..3), LE = 8, GE = 9, bit 10 reserved (reads 1),
RTM = 11, bit 12 reserved, GD = 13, bits 15:14 reserved, R/W_n = bits 17+4n:16+4n,
LEN_n = bits 19+4n:18+4n, bits 63:32 reserved.  DR6: B_n = bit n. -/

def dr7L (n : Nat) : Nat := 2 ^ (2 * n)
def dr7G (n : Nat) : Nat := 2 ^ (2 * n + 1)
def dr6B (n : Nat) : Nat := 2 ^ n
def dr7RWLsb (n : Nat) : Nat := 16 + 4 * n
def dr7LENLsb (n : Nat) : Nat := 18 + 4 * n
def dr7RW (v : BitVec 64) (n : Nat) : Nat := field v (dr7RWLsb n) 2
def dr7LEN (v : BitVec 64) (n : Nat) : Nat := field v (dr7LENLsb n) 2

/-- The flag bits of DR7 that software may set: L0..G3, LE, GE, RTM, GD. -/
def dr7FlagMask : BitVec 64 := 0x2BFF#64
/-- All defined (non-reserved) bits of DR7: the flags and the eight 2-bit fields (bits 31:16). -/
def dr7DefinedMask : BitVec 64 := 0xFFFF2BFF#64

/-- LEN_n encodings: 00 = 1 byte, 01 = 2 bytes, 10 = 8 bytes, 11 = 4 bytes. -/
def lenBytes : Nat → Option Nat
  | 0 => some 1
  | 1 => some 2
  | 2 => some 8
  | 3 => some 4
  | _ => none

/-! ### Exception vectors — SDM Vol.3 Table 6-1, APM Vol.2 Table 8-1
Defined: 0–8, 10–14, 16–21 and (AMD) 28–30.  9 (coprocessor segment overrun) is no longer
generated and reserved, 15, 22–27 and 31 are reserved; 32–255 are not exceptions. -/

def isExceptionVector (n : Nat) : Bool :=
  n ≤ 8 || (10 ≤ n && n ≤ 14) || (16 ≤ n && n ≤ 21) || (28 ≤ n && n ≤ 30)

/-! ### PAT memory types — SDM Vol.3 Table 11-10
0 UC, 1 WC, 4 WT, 5 WP, 6 WB, 7 UC-; 2, 3 and 8..255 reserved. -/

def isPatEncoding (n : Nat) : Bool := n == 0 || n == 1 || (4 ≤ n && n ≤ 7)

/-! ### Selector error code — SDM Vol.3 §6.13, Figure 6-7
bit 0 EXT, bit 1 IDT, bit 2 TI, bits 15:3 segment selector index, bits 31:16 reserved.
IDT = 1: the index refers to a gate in the IDT (TI ignored); IDT = 0: TI selects GDT (0) / LDT (1). -/

def secExt (e : BitVec 64) : Bool := e.getLsbD 0
def secIdt (e : BitVec 64) : Bool := e.getLsbD 1
def secTi (e : BitVec 64) : Bool := e.getLsbD 2
def secIndex (e : BitVec 64) : Nat := field e 3 13
/-- Which table the index refers to: 0 = GDT, 1 = IDT, 2 = LDT. -/
def secTable (e : BitVec 64) : Nat := if secIdt e then 1 else if secTi e then 2 else 0

end X86.Spec
