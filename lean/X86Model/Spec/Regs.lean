/-
Specification side of C16: which architectural register each wrapper is named after, and what a
read / typed write / raw write / update / round trip must produce, stated on raw 64-bit register
contents. Independent of the model (Model/Regs.lean): the MSR numbers are taken from the
manuals, the outcome formulas from the property text. The only crate-derived inputs are the
`modelled` masks (which bits a flags type has names for): the property is *about* those masks
("preserving every bit the type does not model"), they are parameters here.

MSR numbers: Intel SDM Vol. 4 Table 2-2 (IA32_APIC_BASE 1Bh, IA32_PAT 277h, IA32_U_CET 6A0h,
IA32_S_CET 6A2h, IA32_EFER C000_0080h, IA32_STAR C000_0081h, IA32_LSTAR C000_0082h,
IA32_FMASK C000_0084h, IA32_FS_BASE C000_0100h, IA32_GS_BASE C000_0101h,
IA32_KERNEL_GS_BASE C000_0102h); the same numbers in AMD APM Vol. 2 Appendix A.
-/
import X86Model.Spec.Insn

namespace X86.Spec

def ARCH_APIC_BASE : Nat := 0x1B
def ARCH_PAT : Nat := 0x277
def ARCH_U_CET : Nat := 0x6A0
def ARCH_S_CET : Nat := 0x6A2
def ARCH_EFER : Nat := 0xC0000080
def ARCH_STAR : Nat := 0xC0000081
def ARCH_LSTAR : Nat := 0xC0000082
def ARCH_SFMASK : Nat := 0xC0000084
def ARCH_FS_BASE : Nat := 0xC0000100
def ARCH_GS_BASE : Nat := 0xC0000101
def ARCH_KERNEL_GS_BASE : Nat := 0xC0000102

/-- An architectural register. -/
inductive RegId where
  | cr (n : Nat)
  | dr (n : Nat)
  | msr (idx : Nat)
  | xcr0
  | sreg (s : Sreg)
  | tr
  | rflags
  | mxcsr
  | none
  deriving DecidableEq, Repr

/-- Does the observed instruction access (only) the register `r`? `EDX:EAX` of MSR/XCR accesses
are checked against the register by `post`, here only the register selection matters. -/
def Obs.on (r : RegId) (o : Obs) : Bool :=
  match r, o.mnem, o.args with
  | .cr n, "rdcr", [k, _] => k == n
  | .cr n, "wrcr", [k, _] => k == n
  | .dr n, "rddr", [k, _] => k == n
  | .dr n, "wrdr", [k, _] => k == n
  | .msr i, "rdmsr", [k, _, _] => k == i
  | .msr i, "wrmsr", [k, _, _] => k == i
  | .xcr0, "xsetbv", [k, _, _] => k == 0
  | .sreg .cs, "retfq", [_, ok] => ok == 1
  | .sreg s, "movsreg", [k, _] => k == s.num
  | .tr, "ltr", [_] => true
  | .rflags, "popfq", [_] => true
  | _, _, _ => false

/-- Current contents of a register. -/
def Cpu.reg (c : Cpu) : RegId → Nat
  | .cr n => (c.cr n).toNat
  | .dr n => (c.dr n).toNat
  | .msr i => (c.msr i).toNat
  | .xcr0 => c.xcr0.toNat
  | .sreg s => (c.sreg s).toNat
  | .tr => c.tr.toNat
  | .rflags => c.rflags.toNat
  | .mxcsr => c.mxcsr.toNat
  | .none => 0

/-! ### Outcome formulas (on raw contents) -/

/-- A typed read returns exactly the modelled bits of the raw value. -/
def typedRead (modelled old : BitVec 64) : BitVec 64 := old &&& modelled

/-- A typed write stores the given fields and preserves every bit the type does not model. -/
def typedWrite (modelled old fields : BitVec 64) : BitVec 64 := (old &&& ~~~modelled) ||| fields

/-- `update f` = read, apply `f`, typed write. -/
def typedUpdate (modelled old : BitVec 64) (f : BitVec 64 → BitVec 64) : BitVec 64 :=
  typedWrite modelled old (f (typedRead modelled old))

/-- Canonical 64-bit address (bits 63:47 all equal). -/
def canonical (a : BitVec 64) : Bool := a.sshiftRight 47 == 0#64 || a.sshiftRight 47 == ~~~0#64

/-- 4 KiB-aligned physical frame address below 2^52. -/
def frameValid (f : BitVec 64) : Bool := f &&& ~~~0x000ffffffffff000#64 == 0#64

/-- CR3 (SDM Vol. 3 §2.5, §4.5): page-directory base in bits 51:12; with CR4.PCIDE = 0 PWT/PCD in
bits 3 and 4, with CR4.PCIDE = 1 the PCID in bits 11:0. -/
def cr3Frame (v : BitVec 64) : BitVec 64 := v &&& 0x000ffffffffff000#64
def cr3Low12 (v : BitVec 64) : BitVec 64 := v &&& 0xfff#64

/-- STAR (APM Vol. 2 §6.1.1): SYSRET CS/SS base selector in bits 63:48, SYSCALL CS/SS base
selector in bits 47:32. SYSRET loads CS = base + 16 (64-bit), SS = base + 8; SYSCALL loads
CS = base, SS = base + 8. -/
def starSysret (v : BitVec 64) : Nat := (v >>> 48).toNat % 65536
def starSyscall (v : BitVec 64) : Nat := (v >>> 32).toNat % 65536

/-- The four documented rejections of `Star::write`, in documented order; `none` = accepted. -/
def starRejection (csSysret ssSysret csSyscall ssSyscall : Nat) : Option String :=
  if (csSysret : Int) - 16 ≠ (ssSysret : Int) - 8 then some "SysretOffset"
  else if (csSyscall : Int) ≠ (ssSyscall : Int) - 8 then some "SyscallOffset"
  else if ssSysret % 4 ≠ 3 then some "SysretPrivilegeLevel"
  else if ssSyscall % 4 ≠ 0 then some "SyscallPrivilegeLevel"
  else none

/-- PAT (SDM Vol. 3 §11.12.2): eight 8-bit fields; encodings 0 UC, 1 WC, 4 WT, 5 WP, 6 WB, 7 UC-;
2, 3 and 8–255 are reserved. -/
def patEncodingValid (b : Nat) : Bool := b == 0 || b == 1 || b == 4 || b == 5 || b == 6 || b == 7
def patTableValid (v : BitVec 64) : Bool :=
  (List.range 8).all fun i => patEncodingValid ((v >>> (8 * i)).toNat % 256)

/-- IA32_APIC_BASE (SDM Vol. 3 §10.4.4): base address in bits 51:12 (up to MAXPHYADDR), BSP bit
8, x2APIC enable bit 10, global enable bit 11. -/
def apicBaseField : BitVec 64 := 0x000ffffffffff000#64

end X86.Spec
