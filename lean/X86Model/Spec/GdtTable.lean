/-
Spec for C14: what a GDT built by appends is (property text + SDM Vol. 3A §3.5.1 "Segment
Descriptor Tables": the first descriptor is the null descriptor; the table is an array of 8-byte
slots; the limit is "the number of bytes − 1", i.e. 8N − 1 for N slots; §3.4.2: a selector is
index·8 + TI·4 + RPL; in 64-bit mode a system descriptor occupies two consecutive slots, §8.2.3).
Imports only the descriptor decoder spec (not the model).
-/
import X86Model.Spec.Descriptor

namespace X86.Spec

/-- A descriptor to append: one 8-byte code/data descriptor or one 16-byte system descriptor. -/
inductive Desc where
  | user (w : BitVec 64)
  | system (lo hi : BitVec 64)
  deriving DecidableEq, Repr

/-- The slots a descriptor occupies, in order. -/
def Desc.words : Desc → List (BitVec 64)
  | .user w => [w]
  | .system lo hi => [lo, hi]

/-- The descriptor's privilege level: DPL field (bits 45–46) of its first 8 bytes. -/
def Desc.dpl : Desc → BitVec 2
  | .user w => (decodeSeg w).dpl
  | .system lo _ => (decodeSeg lo).dpl

/-- A table with capacity for at least one slot and at most 2^13 (a selector has a 13-bit index;
the limit register has 16 bits). -/
def capacityOk (max : Nat) : Bool := 0 < max && max ≤ 8192

/-- The empty table: just the null descriptor. -/
def gdtEmpty : List (BitVec 64) := [0#64]

/-- One append on a table with `slots` used of `max`. `none`: it does not fit — the call must
panic and leave the table as it was. `some (slots', sel)`: the descriptor's words follow the
existing slots and the returned selector points at its first slot, with RPL = DPL, in the GDT. -/
def gdtAppend (max : Nat) (slots : List (BitVec 64)) (d : Desc) :
    Option (List (BitVec 64) × SelFields) :=
  if slots.length + d.words.length ≤ max then
    some (slots ++ d.words,
      { index := BitVec.ofNat 13 slots.length, ti := false, rpl := d.dpl })
  else none

/-- A history of appends: the final slots and the outcome of each call. -/
def gdtRun (max : Nat) (slots : List (BitVec 64)) :
    List Desc → List (BitVec 64) × List (Option SelFields)
  | [] => (slots, [])
  | d :: rest =>
    match gdtAppend max slots d with
    | some (slots', sel) =>
      let r := gdtRun max slots' rest
      (r.1, some sel :: r.2)
    | none =>
      let r := gdtRun max slots rest
      (r.1, none :: r.2)

/-- The limit for `n` used slots: bytes − 1. -/
def gdtLimit (n : Nat) : Nat := 8 * n - 1

/-- Raw entries that may become a table: non-empty, null descriptor first, within capacity. -/
def rawOk (max : Nat) (raw : List (BitVec 64)) : Bool :=
  capacityOk max && raw.length > 0 && raw.head? == some 0#64 && raw.length ≤ max

end X86.Spec
