/-
Specification side of C11 (flush half): what the invalidation instructions must receive.

INVLPG m (SDM Vol. 2): invalidates the TLB entries for the page containing the operand's address.
INVPCID r64, m128 (SDM Vol. 2, Figure 3-24): descriptor = PCID in bits 11:0 of the first quadword
(bits 63:12 reserved, must be zero), linear address in the second quadword; register = type
0 individual-address, 1 single-context, 2 all-context including globals, 3 all-context except globals.
INVLPGB (AMD APM Vol. 3): rAX[0] valid VA, rAX[1] valid PCID, rAX[2] valid ASID, rAX[3] include
global, rAX[4] final translation only, rAX[5] include nested translations, rAX[63:12] VA;
ECX[15:0] count of additional pages, ECX[31] 0 = 4 KiB / 1 = 2 MiB increment;
EDX[15:0] ASID, EDX[27:16] PCID.
-/
import X86Model.Spec.Canon

namespace X86.Spec

/-- Decoded INVLPGB request. -/
structure InvlpgbReq where
  vaValid : Bool
  pcidValid : Bool
  asidValid : Bool
  global : Bool
  finalOnly : Bool
  nested : Bool
  va : Nat
  count : Nat
  size2M : Bool
  asid : Nat
  pcid : Nat
  deriving DecidableEq, Repr

/-- Field extraction per the APM layout. -/
def decodeInvlpgb (rax ecx edx : Nat) : InvlpgbReq :=
  { vaValid := rax % 2 == 1
    pcidValid := rax / 2 % 2 == 1
    asidValid := rax / 4 % 2 == 1
    global := rax / 8 % 2 == 1
    finalOnly := rax / 16 % 2 == 1
    nested := rax / 32 % 2 == 1
    va := rax / 4096 * 4096
    count := ecx % 65536
    size2M := ecx / 2^31 % 2 == 1
    asid := edx % 65536
    pcid := edx / 65536 % 4096 }

/-- The options a broadcast flush was asked for. -/
structure InvlpgbOpts where
  pcid : Option Nat
  asid : Option Nat
  global : Bool
  finalOnly : Bool
  nested : Bool
  deriving DecidableEq, Repr

/-- Do the option bits and PCID/ASID fields of a request carry exactly the requested options
(and nothing in the reserved positions)? -/
def optsOk (o : InvlpgbOpts) (rax ecx edx : Nat) (r : InvlpgbReq) : Bool :=
  r.pcidValid == o.pcid.isSome && r.asidValid == o.asid.isSome &&
  r.global == o.global && r.finalOnly == o.finalOnly && r.nested == o.nested &&
  r.pcid == o.pcid.getD 0 && r.asid == o.asid.getD 0 &&
  rax / 64 % 64 == 0 &&                  -- rAX[11:6] reserved
  ecx / 65536 % 2^15 == 0 &&             -- ECX[30:16] reserved
  edx / 2^28 == 0 && rax < 2^64 && ecx < 2^32 && edx < 2^32

/-- The pages one request covers, as the crate documents the count ("even if the count is zero,
one page is still flushed"): `max(count, 1)` pages of the request's size starting at its VA. -/
def reqExtent (sz : Nat) (r : InvlpgbReq) : Nat := max r.count 1 * sz

/-- A sequence of range requests is correct for the page range `[start, stop)` (page start
addresses, `sz` ∈ {4 KiB, 2 MiB}), processor maximum `countMax` and options `o` when:
every request is a valid-VA request of the right page size with the requested options;
`count ≤ min(countMax, 65535)`; a request starting in the lower half does not extend past 2^47;
and the requests tile the range in order: the first starts at `start`, each next one starts where
the previous extent ends (stepping over the non-canonical gap), the last extent ends at `stop`.
An empty range needs no request. -/
def invlpgbRangeOk (sz start stop countMax : Nat) (o : InvlpgbOpts) :
    List (Nat × Nat × Nat) → Bool
  | [] => decide (start ≥ stop)
  | (rax, ecx, edx) :: rest =>
    let r := decodeInvlpgb rax ecx edx
    decide (start < stop) &&
    r.vaValid && r.va == start && r.size2M == (sz == size2M) && optsOk o rax ecx edx r &&
    decide (r.count ≤ min countMax 65535) &&
    (decide (start ≥ 2^47) || decide (start + reqExtent sz r ≤ 2^47)) &&
    (match pageForwardSpec sz start (max r.count 1) with
     | some next => decide (rank next ≤ rank stop) && invlpgbRangeOk sz next stop countMax o rest
     | none => false)

/-- The single request of a flush without range: no valid VA, no count. -/
def invlpgbAllOk (o : InvlpgbOpts) : List (Nat × Nat × Nat) → Bool
  | [(rax, ecx, edx)] =>
    let r := decodeInvlpgb rax ecx edx
    !r.vaValid && r.va == 0 && ecx == 0 && optsOk o rax ecx edx r
  | _ => false

/-- INVPCID type numbers and descriptor layout. -/
def invpcidOk (kind addr pcid : Nat) (regVal descLo descHi : Nat) : Bool :=
  regVal == kind &&
  (if kind == 0 then descLo == pcid && descHi == addr
   else if kind == 1 then descLo == pcid && descHi == 0
   else descLo == 0 && descHi == 0) &&
  descLo < 4096

end X86.Spec
