/-
Model of `src/instructions/interrupts.rs`: `are_enabled`, `enable`, `disable`,
`without_interrupts`, `enable_and_hlt`; and the interpretation of test programs
(`Spec.Prog`) as nestings of these calls around instrumented closures.
-/
import X86Model.Model.RFlags
import X86Model.Spec.Interrupts

namespace X86.Interrupts
open X86 X86.Spec X86.Consts

/-- `are_enabled`: `rflags::read().contains(RFlags::INTERRUPT_FLAG)`. -/
def areEnabled : M Bool := do
  let flags ← RFlags.read
  pure (flags &&& RFLAGS_INTERRUPT_FLAG == RFLAGS_INTERRUPT_FLAG)

/-- `enable`: `sti`. -/
def enable : M Unit := do
  let _ ← M.insn .sti
  pure ()

/-- `disable`: `cli`. -/
def disable : M Unit := do
  let _ ← M.insn .cli
  pure ()

/-- `without_interrupts(f)`. A panic in `f` propagates (nothing re-enables interrupts). -/
def withoutInterrupts {α} (f : M α) : M α := do
  let savedIntptFlag ← areEnabled
  if savedIntptFlag then disable
  let ret ← f
  if savedIntptFlag then enable
  pure ret

/-- `enable_and_hlt`: one `asm!` block `sti; hlt`. -/
def enableAndHlt : M Unit := do
  let _ ← M.insn .sti
  let _ ← M.insn .hlt
  pure ()

/-- A test program as the nest of calls and closures the harness builds. Leaves are
instrumented: `ret v` reports the flag it ran under (ghost `M.mark`), then returns `v`. -/
def run : Prog → M Nat
  | .ret v => do
    let c ← M.get
    M.mark (leafMark v c.ifFlag)
    pure v
  | .wi body => withoutInterrupts (run body)
  | .seq a b => do
    let x ← run a
    let y ← run b
    pure (mix x y)
  | .enable => do enable; pure 0
  | .disable => do disable; pure 0
  | .query => do
    let b ← areEnabled
    pure (if b then 1 else 0)
  | .boom => M.panic

end X86.Interrupts
