/-
Model of the page-table mappers (`src/structures/paging/mapper/mapped_page_table.rs`,
`offset_page_table.rs`, and — with `recursive := true` — `recursive_page_table.rs`).

Physical memory is a function `frame address → index → word`; a table is identified with the
physical address of its frame (`PageTableFrameMapping::frame_to_pointer` is assumed injective; the
recursive mapper reaches the same frames through the MMU, see `Spec/Walk.lean` and C20).
Every memory access, allocator request and deallocation is appended to a ghost log (C09/C10).

The three page sizes share one definition: a page is given by the list of its parent-table
indices (top-down, length 1/2/3 for 1 GiB/2 MiB/4 KiB) and the index of its slot in the last
table.
-/
import X86Model.Model.Pte

namespace X86

/-- Ghost events. -/
inductive Ev where
  | rd (f : Word) (i : Nat)
  | wr (f : Word) (i : Nat) (v : Word)
  | alloc (r : Option Word)
  | dealloc (f : Word)
  deriving DecidableEq, Repr

abbrev PMem := Word → Nat → Word

def PMem.set (m : PMem) (f : Word) (i : Nat) (v : Word) : PMem :=
  fun f' i' => if f' = f ∧ i' = i then v else m f' i'

/-- Mapper state: memory, remaining allocator answers, ghost log. The log is kept newest-first
(`log.head?` is the latest event) so that appending an event is O(1) in the executable model;
`St.events` gives it in chronological order. -/
structure St where
  mem : PMem
  allocs : List (Option Word)
  log : List Ev

namespace St
/-- The ghost log in chronological order. -/
def events (s : St) : List Ev := s.log.reverse
def rd (s : St) (f : Word) (i : Nat) : Word × St := (s.mem f i, { s with log := .rd f i :: s.log })
def wr (s : St) (f : Word) (i : Nat) (v : Word) : St :=
  { s with mem := s.mem.set f i v, log := .wr f i v :: s.log }
/-- `allocator.allocate_frame()`: the next answer (an exhausted list answers `None`). -/
def alloc (s : St) : Option Word × St :=
  match s.allocs with
  | [] => (none, { s with log := .alloc none :: s.log })
  | a :: rest => (a, { s with allocs := rest, log := .alloc a :: s.log })
def dealloc (s : St) (f : Word) : St := { s with log := .dealloc f :: s.log }

/-- `PageTable::zero()`: `set_unused` on all 512 entries, in index order. -/
def zeroTable (s : St) (f : Word) : St :=
  (List.range 512).foldl (fun s i => s.wr f i 0#64) s
end St

/-- Which mapper implementation. The recursive one always adds `PRESENT | WRITABLE` to new parent
entries and checks for huge parents on every operation (after the `fix:` commits). -/
structure Kind where
  recursive : Bool
  deriving DecidableEq, Repr

inductive WalkErr where
  | notMapped | hugePage
  deriving DecidableEq, Repr

/-- `PageTableWalker::next_table` on an entry value: `HUGE_PAGE` first, then `frame()`. -/
def nextTable (e : Word) : Except WalkErr Word :=
  if Pte.huge e then .error .hugePage
  else if Pte.present e then .ok (Pte.addr e)
  else .error .notMapped

/-- The recursive mapper's variant used by update_flags / translate_page / set_flags_pN_entry:
`is_unused()` first, then `HUGE_PAGE`; no `PRESENT` test (it dereferences the recursive address). -/
def nextTableU (e : Word) : Except WalkErr Word :=
  if Pte.isUnused e then .error .notMapped
  else if Pte.huge e then .error .hugePage
  else .ok (Pte.addr e)

inductive CreateErr where
  | allocFailed | hugePage
  deriving DecidableEq, Repr

/-- `create_next_table(entry = tbl[i], insert_flags, allocator)`. -/
def createNextTable (k : Kind) (s : St) (tbl : Word) (i : Nat) (pflags : Word) :
    R (Except CreateErr Word) × St :=
  let (e, s) := s.rd tbl i
  if Pte.isUnused e then
    match s.alloc with
    | (none, s) => (.ok (.error .allocFailed), s)
    | (some frame, s) =>
      -- a new table is linked PRESENT whatever flags were requested (`fix:` commit F9); the recursive
      -- mapper also adds WRITABLE
      let fl := if k.recursive then Pte.PRESENT ||| Pte.WRITABLE ||| pflags else Pte.PRESENT ||| pflags
      -- `set_frame` asserts 4 KiB alignment of the allocated frame
      if !Pte.aligned4K frame then (.panic, s) else
      let s := s.wr tbl i (Pte.mk frame fl)
      let e' := Pte.mk frame fl
      match nextTable e' with
      | .error .hugePage => (.ok (.error .hugePage), s)
      | .error .notMapped => (.panic, s)       -- "entry should be mapped at this point"
      | .ok t => (.ok (.ok t), s.zeroTable t)
  else
    -- huge entries are rejected before anything is modified (`fix:` commit F3)
    if Pte.huge e then (.ok (.error .hugePage), s) else
    let (e', s) :=
      if pflags != 0#64 && !Pte.contains e pflags then
        let v := Pte.setFlags e (Pte.flags e ||| pflags)
        (v, s.wr tbl i v)
      else (e, s)
    match nextTable e' with
    | .error .hugePage => (.ok (.error .hugePage), s)
    | .error .notMapped => (.panic, s)
    | .ok t => (.ok (.ok t), s)

/-- Walk down the parent indices creating missing tables (`map_to_*`). -/
def createPath (k : Kind) (pflags : Word) : St → Word → List Nat → R (Except CreateErr Word) × St
  | s, tbl, [] => (.ok (.ok tbl), s)
  | s, tbl, i :: rest =>
    match createNextTable k s tbl i pflags with
    | (.panic, s) => (.panic, s)
    | (.ok (.error e), s) => (.ok (.error e), s)
    | (.ok (.ok t), s) => createPath k pflags s t rest

/-- Walk down existing tables (`next_table_mut` chain of unmap / update_flags / translate_page /
set_flags_pN_entry). -/
def descend : St → Word → List Nat → Except WalkErr Word × St
  | s, tbl, [] => (.ok tbl, s)
  | s, tbl, i :: rest =>
    let (e, s) := s.rd tbl i
    match nextTable e with
    | .error err => (.error err, s)
    | .ok t => descend s t rest

/-- The recursive mapper's descent for update_flags / translate_page / set_flags_pN_entry. -/
def descendU : St → Word → List Nat → Except WalkErr Word × St
  | s, tbl, [] => (.ok tbl, s)
  | s, tbl, i :: rest =>
    let (e, s) := s.rd tbl i
    match nextTableU e with
    | .error err => (.error err, s)
    | .ok t => descendU s t rest

/-- Descent used by update_flags / translate_page / set_flags_pN_entry of mapper kind `k`. -/
def descendK (k : Kind) : St → Word → List Nat → Except WalkErr Word × St :=
  if k.recursive then descendU else descend

inductive MapErr where
  | allocFailed | parentHuge | alreadyMapped
  deriving DecidableEq, Repr

/-- `map_to_with_table_flags` for a page given by `parents`/`leafIdx`; `huge` says whether the
leaf gets `HUGE_PAGE` (2 MiB / 1 GiB). Success returns unit (the flush token names the argument
page: it is constructed from the argument, see `Properties/C11`). -/
def mapTo (k : Kind) (s : St) (p4 : Word) (parents : List Nat) (leafIdx : Nat) (huge : Bool)
    (frame flags pflags : Word) : R (Except MapErr Unit) × St :=
  match createPath k pflags s p4 parents with
  | (.panic, s) => (.panic, s)
  | (.ok (.error .allocFailed), s) => (.ok (.error .allocFailed), s)
  | (.ok (.error .hugePage), s) => (.ok (.error .parentHuge), s)
  | (.ok (.ok t), s) =>
    let (e, s) := s.rd t leafIdx
    if !Pte.isUnused e then (.ok (.error .alreadyMapped), s)
    else
      let fl := if huge then flags ||| Pte.HUGE else flags
      if !Pte.aligned4K frame then (.panic, s)
      else (.ok (.ok ()), s.wr t leafIdx (Pte.mk frame fl))

inductive OpErr where
  | notMapped | parentHuge | invalidFrame (a : Word)
  deriving DecidableEq, Repr

def OpErr.ofWalk : WalkErr → OpErr
  | .notMapped => .notMapped
  | .hugePage => .parentHuge

/-- Is `a` aligned to the page size `sz` (a power of two)? (`PhysFrame::from_start_address`) -/
def alignedTo (a : Word) (sz : Nat) : Bool := a.toNat % sz == 0

/-- `unmap`: returns the frame that was mapped. -/
def unmap (s : St) (p4 : Word) (parents : List Nat) (leafIdx : Nat) (huge : Bool) (sz : Nat) :
    Except OpErr Word × St :=
  match descend s p4 parents with
  | (.error e, s) => (.error (.ofWalk e), s)
  | (.ok t, s) =>
    let (e, s) := s.rd t leafIdx
    if !Pte.present e then (.error .notMapped, s)
    else if huge && !Pte.huge e then (.error .parentHuge, s)
    else if huge && !alignedTo (Pte.hugeAddr e) sz then (.error (.invalidFrame (Pte.addr e)), s)
    else (.ok (if huge then Pte.hugeAddr e else Pte.addr e), s.wr t leafIdx 0#64)

/-- `update_flags` (since `fix:` commit F4 a huge-page request on a slot that holds a table is
rejected with `ParentEntryHugePage`, like `unmap`). -/
def updateFlags (k : Kind) (s : St) (p4 : Word) (parents : List Nat) (leafIdx : Nat) (huge : Bool)
    (flags : Word) : Except OpErr Unit × St :=
  match descendK k s p4 parents with
  | (.error e, s) => (.error (.ofWalk e), s)
  | (.ok t, s) =>
    let (e, s) := s.rd t leafIdx
    if Pte.isUnused e then (.error .notMapped, s)
    else if huge && !Pte.huge e then (.error .parentHuge, s)
    else
      -- huge: `set_addr(huge_frame_addr(entry), flags | HUGE_PAGE)`; 4 KiB: `set_flags(flags)`
      let v := if huge then Pte.mk (Pte.hugeAddr e) (flags ||| Pte.HUGE) else Pte.setFlags e flags
      (.ok (), s.wr t leafIdx v)

/-- `set_flags_p4_entry` / `p3` / `p2`: `parents` are the indices above the entry, `idx` its slot.
(since `fix:` commit F7 an entry that is itself a huge page is rejected). -/
def setParentFlags (k : Kind) (s : St) (p4 : Word) (parents : List Nat) (idx : Nat) (flags : Word) :
    Except OpErr Unit × St :=
  match descendK k s p4 parents with
  | (.error e, s) => (.error (.ofWalk e), s)
  | (.ok t, s) =>
    let (e, s) := s.rd t idx
    if Pte.isUnused e then (.error .notMapped, s)
    -- the level-4 entry (`parents = []`) is not tested for `HUGE_PAGE` by the code
    else if !parents.isEmpty && Pte.huge e then (.error .parentHuge, s)
    else (.ok (), s.wr t idx (Pte.setFlags e flags))

/-- `translate_page`. -/
def translatePage (k : Kind) (s : St) (p4 : Word) (parents : List Nat) (leafIdx : Nat) (huge : Bool) (sz : Nat) :
    Except OpErr Word × St :=
  match descendK k s p4 parents with
  | (.error e, s) => (.error (.ofWalk e), s)
  | (.ok t, s) =>
    let (e, s) := s.rd t leafIdx
    if Pte.isUnused e then (.error .notMapped, s)
    else if huge && !Pte.huge e then (.error .parentHuge, s)
    else if huge && !alignedTo (Pte.hugeAddr e) sz then (.error (.invalidFrame (Pte.addr e)), s)
    else (.ok (if huge then Pte.hugeAddr e else Pte.addr e), s)

/-- Result of `Translate::translate`. -/
inductive Xl where
  | notMapped
  | mapped (frame : Word) (size : Nat) (offset : Nat) (flags : Word)
  | invalid (a : Word)
  deriving DecidableEq, Repr

def alignDownW (a : Word) (sz : Nat) : Word := BitVec.ofNat 64 (a.toNat - a.toNat % sz)

/-- `Translate::translate(addr)`; `i4..i1` are the indices of `addr`. -/
def translate (k : Kind) (s : St) (p4 : Word) (va : Nat) : R Xl × St :=
  let nextTable := if k.recursive then nextTableU else nextTable
  let i4 := va / 2^39 % 512
  let i3 := va / 2^30 % 512
  let i2 := va / 2^21 % 512
  let i1 := va / 2^12 % 512
  let (e4, s) := s.rd p4 i4
  match nextTable e4 with
  | .error .notMapped => (.ok .notMapped, s)
  | .error .hugePage => (.panic, s)          -- "level 4 entry has huge page bit set"
  | .ok t3 =>
    let (e3, s) := s.rd t3 i3
    match nextTable e3 with
    | .error .notMapped => (.ok .notMapped, s)
    | .error .hugePage =>
      (.ok (.mapped (alignDownW (Pte.addr e3) (2^30)) (2^30) (va % 2^30) (Pte.flags e3)), s)
    | .ok t2 =>
      let (e2, s) := s.rd t2 i2
      match nextTable e2 with
      | .error .notMapped => (.ok .notMapped, s)
      | .error .hugePage =>
        (.ok (.mapped (alignDownW (Pte.addr e2) (2^21)) (2^21) (va % 2^21) (Pte.flags e2)), s)
      | .ok t1 =>
        let (e1, s) := s.rd t1 i1
        if Pte.isUnused e1 then (.ok .notMapped, s)
        else (.ok (.mapped (Pte.addr e1) 4096 (va % 4096) (Pte.flags e1)), s)

/-- `translate_addr`: `frame.start_address() + offset` (a `PhysAddr + u64`, which can panic). -/
def translateAddr (k : Kind) (s : St) (p4 : Word) (va : Nat) : R (Option Nat) × St :=
  match translate k s p4 va with
  | (.panic, s) => (.panic, s)
  | (.ok .notMapped, s) => (.ok none, s)
  | (.ok (.invalid _), s) => (.ok none, s)
  | (.ok (.mapped f _ off _), s) =>
    if f.toNat + off < 2^52 then (.ok (some (f.toNat + off)), s) else (.panic, s)

end X86
