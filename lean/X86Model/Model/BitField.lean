/-
Model of the `bit_field` crate's `BitField for u64` (bit_field-0.10.3, src/lib.rs,
`bitfield_numeric_impl!`), transcribed: the shifts are the ones of the source. Ranges are
`start..end` (end exclusive). The three range assertions (`start < 64`, `end <= 64`,
`start <= end`) and the "value does not fit" assertion panic.
-/
import X86Model.Base

namespace X86.BitField

/-- `u64::get_bits(start..end)`. -/
def getBits (x : BitVec 64) (s e : Nat) : R (BitVec 64) :=
  if s < 64 ∧ e ≤ 64 ∧ s ≤ e then
    if s == e then .ok 0#64
    else .ok ((x <<< (64 - e) >>> (64 - e)) >>> s)
  else .panic

/-- `u64::set_bits(start..end, value)`; returns the new value of `self`. -/
def setBits (x : BitVec 64) (s e : Nat) (v : BitVec 64) : R (BitVec 64) :=
  if s < 64 ∧ e ≤ 64 ∧ s ≤ e then
    if (s == e && v == 0#64) || (v <<< (64 - (e - s)) >>> (64 - (e - s)) == v) then
      if s != e then
        let bitmask : BitVec 64 := ~~~((~~~0#64 <<< (64 - e) >>> (64 - e) >>> s) <<< s)
        .ok ((x &&& bitmask) ||| (v <<< s))
      else .ok x
    else .panic
  else .panic

end X86.BitField
