/-
Constants of the register wrappers: `bitflags!` masks (`T::all().bits()`), single flags the code
tests, and MSR numbers (`pub const MSR: Msr = Msr(..)`).

-- GENERATED-CANDIDATE: every definition in this file is a value the translator is meant to
re-extract from /repo's source on every run (DESIGN.md section 5.1); until `translator/gen_*.py`
provides them they are hard-coded here from the source text, and checked against the compiled
crate by the C16 harness (`consts` line: `.bits()` of every `all()` and every MSR number).
-/
import X86Model.Base

namespace X86.Consts

-- GENERATED-CANDIDATE  registers/rflags.rs  RFlags::all().bits()
def RFLAGS_ALL : BitVec 64 := 0x3f7fd5#64
-- GENERATED-CANDIDATE  RFlags::INTERRUPT_FLAG
def RFLAGS_INTERRUPT_FLAG : BitVec 64 := 0x200#64
-- GENERATED-CANDIDATE  registers/control.rs  Cr0Flags::all().bits()
def CR0_ALL : BitVec 64 := 0xe005003f#64
-- GENERATED-CANDIDATE  Cr3Flags::all().bits()
def CR3_ALL : BitVec 64 := 0x18#64
-- GENERATED-CANDIDATE  Cr4Flags::all().bits()
def CR4_ALL : BitVec 64 := 0x1ff7fff#64
-- GENERATED-CANDIDATE  registers/xcontrol.rs  XCr0Flags::all().bits() and the flags `write` tests
def XCR0_ALL : BitVec 64 := 0x40000000000002ff#64
def XCR0_X87 : BitVec 64 := 0x1#64
def XCR0_SSE : BitVec 64 := 0x2#64
def XCR0_AVX : BitVec 64 := 0x4#64
def XCR0_BNDREG : BitVec 64 := 0x8#64
def XCR0_BNDCSR : BitVec 64 := 0x10#64
def XCR0_OPMASK : BitVec 64 := 0x20#64
def XCR0_ZMM_HI256 : BitVec 64 := 0x40#64
def XCR0_HI16_ZMM : BitVec 64 := 0x80#64
-- GENERATED-CANDIDATE  registers/debug.rs  Dr6Flags::all(), Dr7Flags::all(), Dr7Value::valid_bits()
def DR6_ALL : BitVec 64 := 0x1e00f#64
def DR7_FLAGS_ALL : BitVec 64 := 0x2bff#64
def DR7_VALID : BitVec 64 := 0xffff2bff#64
-- GENERATED-CANDIDATE  registers/model_specific.rs  flag masks
def EFER_ALL : BitVec 64 := 0xfd01#64
def CET_ALL : BitVec 64 := 0xc3f#64
def APIC_BASE_ALL : BitVec 64 := 0xd00#64
-- GENERATED-CANDIDATE  registers/mxcsr.rs  MxCsr::all().bits()
def MXCSR_ALL : BitVec 32 := 0xffff#32
-- GENERATED-CANDIDATE  registers/model_specific.rs  `pub const MSR: Msr = Msr(..)`
def MSR_EFER : BitVec 32 := 0xC0000080#32
def MSR_STAR : BitVec 32 := 0xC0000081#32
def MSR_LSTAR : BitVec 32 := 0xC0000082#32
def MSR_SFMASK : BitVec 32 := 0xC0000084#32
def MSR_FS_BASE : BitVec 32 := 0xC0000100#32
def MSR_GS_BASE : BitVec 32 := 0xC0000101#32
def MSR_KERNEL_GS_BASE : BitVec 32 := 0xC0000102#32
def MSR_U_CET : BitVec 32 := 0x6A0#32
def MSR_S_CET : BitVec 32 := 0x6A2#32
def MSR_PAT : BitVec 32 := 0x277#32
def MSR_APIC_BASE : BitVec 32 := 0x1B#32

end X86.Consts
