/-
Model of `src/registers/rflags.rs` (`mod x86_64`): `read`, `read_raw`, `write`, `write_raw`,
`update`. The `verif_hooks` additions (overlay on the value read, recorder on the value written)
are identity/no-ops in a production build and are not part of the model.
-/
import X86Model.Model.Machine
import X86Model.Model.RegConsts

namespace X86.RFlags
open X86 X86.Spec X86.Consts

/-- `read_raw`: `pushfq; pop {r}`. -/
def readRaw : M (BitVec 64) := do
  let o ← M.insn .pushfq
  pure o.a

/-- `read`: `RFlags::from_bits_truncate(read_raw())`. -/
def read : M (BitVec 64) := do
  let r ← readRaw
  pure (r &&& RFLAGS_ALL)

/-- `write_raw`: `push {val}; popfq`. -/
def writeRaw (val : BitVec 64) : M Unit := do
  let _ ← M.insn (.popfq val)
  pure ()

/-- `write`: keep the bits outside `RFlags::all()` of the current value. -/
def write (flags : BitVec 64) : M Unit := do
  let oldValue ← readRaw
  let reserved := oldValue &&& ~~~RFLAGS_ALL
  let newValue := reserved ||| flags
  writeRaw newValue

/-- `update`: `let mut flags = read(); f(&mut flags); write(flags)`. -/
def update (f : BitVec 64 → BitVec 64) : M Unit := do
  let flags ← read
  write (f flags)

end X86.RFlags
