/-
Model of `src/addr.rs`, and of the index/offset/level types of
`src/structures/paging/page_table.rs`.

Every `u64` is a `Nat` below 2^64 (callers supply such values; the correspondence
harness only ever sends u64). Bit operations are written as the div/mod they
denote:  `x >> k` = `x / 2^k`,  `x as u16` = `x % 2^16`,  `x.get_bits(47..)` =
`x / 2^47`,  `x.set_bits(47.., v)` = `x % 2^47 + v * 2^47`,  `x & !(al-1)` for a
power of two `al` = `x - x % al` (bridge lemma: `Proofs/Bits.lean`).
Arithmetic that can overflow goes through `addU64`/`subU64`/`mulU64` (build-profile
dependent) or the `checked*` functions, exactly where the Rust source does.
-/
import X86Model.Base

namespace X86

/-- `((addr << 16) as i64 >> 16) as u64`: copy bit 47 into bits 48..63. -/
def signExt48 (a : Nat) : Nat :=
  if a % 2^48 < 2^47 then a % 2^48 else a % 2^48 + (2^64 - 2^48)

/-- `addr::align_down`. -/
def alignDown (addr align : Nat) : R Nat :=
  if isPow2 align then .ok (addr - addr % align) else .panic

/-- `addr::align_up`. -/
def alignUp (addr align : Nat) : R Nat :=
  if isPow2 align then
    if addr % align = 0 then .ok addr
    else
      -- `(addr | align_mask).checked_add(1)`; `addr | mask = addr - addr % align + (align - 1)`
      match checkedAdd (addr - addr % align + (align - 1)) 1 with
      | some v => .ok v
      | none => .panic
  else .panic

namespace VirtAddr

def newTruncate (a : Nat) : Nat := signExt48 a

def tryNew (a : Nat) : Option Nat :=
  if newTruncate a = a then some a else none

def new (a : Nat) : R Nat := R.ofOption (tryNew a)

def zero : Nat := 0

/-- `from_ptr` is `new(ptr as u64)`. -/
def fromPtr (p : Nat) : R Nat := new p

def alignUp (a align : Nat) : R Nat := (X86.alignUp a align).map newTruncate

def alignDown (a align : Nat) : R Nat := (X86.alignDown a align).map newTruncate

def isAligned (a align : Nat) : R Bool := (alignDown a align).map (fun r => r == a)

def pageOffset (a : Nat) : Nat := (a % 2^16) % 4096
def p1Index (a : Nat) : Nat := ((a / 2^12) % 2^16) % 512
def p2Index (a : Nat) : Nat := ((a / 2^12 / 2^9) % 2^16) % 512
def p3Index (a : Nat) : Nat := ((a / 2^12 / 2^9 / 2^9) % 2^16) % 512
def p4Index (a : Nat) : Nat := ((a / 2^12 / 2^9 / 2^9 / 2^9) % 2^16) % 512

/-- `page_table_index(level)`, `level ∈ 1..4` (`PageTableLevel as u8`). -/
def pageTableIndex (a level : Nat) : Nat := ((a / 2^12 / 2^((level - 1) * 9)) % 2^16) % 512

def stepsBetweenU64 (s e : Nat) : Option Nat :=
  match checkedSub e s with
  | some d => some (d % 2^48)        -- `steps &= 0xffff_ffff_ffff`
  | none => none

/-- `steps_between_impl` on a 64-bit target: `usize::try_from` never fails. -/
def stepsBetweenImpl (s e : Nat) : Nat × Option Nat :=
  match stepsBetweenU64 s e with
  | some d => (d, some d)
  | none => (0, none)

def forwardCheckedU64 (start count : Nat) : Option Nat :=
  if count > 2^48 then none
  else match checkedAdd start count with
    | none => none
    | some addr =>
      if addr / 2^47 = 1 then some (addr % 2^47 + 0x1ffff * 2^47)
      else if addr / 2^47 = 2 then none
      else some addr

def backwardCheckedU64 (start count : Nat) : Option Nat :=
  if count > 2^48 then none
  else match checkedSub start count with
    | none => none
    | some addr =>
      if addr / 2^47 = 0x1fffe then some (addr % 2^47)
      else if addr / 2^47 = 0x1fffd then none
      else some addr

/-- `VirtAddr + u64`: `VirtAddr::new(self.0.checked_add(rhs).unwrap())` (checked since the
`fix:` commit for C07; before it was the profile-dependent `self.0 + rhs`). -/
def add (a rhs : Nat) : R Nat := (R.ofOption (checkedAdd a rhs)).bind new

def sub (a rhs : Nat) : R Nat := (R.ofOption (checkedSub a rhs)).bind new

def subAddr (a b : Nat) : R Nat := R.ofOption (checkedSub a b)

end VirtAddr

namespace PhysAddr

def newTruncate (a : Nat) : Nat := a % 2^52

def tryNew (a : Nat) : Option Nat := if newTruncate a = a then some a else none

def new (a : Nat) : R Nat := R.ofOption (tryNew a)

def alignUp (a align : Nat) : R Nat := (X86.alignUp a align).bind new

/-- `PhysAddr(align_down(self.0, align))` — no re-validation in the source. -/
def alignDown (a align : Nat) : R Nat := X86.alignDown a align

def isAligned (a align : Nat) : R Bool := (alignDown a align).map (fun r => r == a)

/-- `PhysAddr + u64`: `PhysAddr::new(self.0.checked_add(rhs).unwrap())`. -/
def add (a rhs : Nat) : R Nat := (R.ofOption (checkedAdd a rhs)).bind new

def sub (a rhs : Nat) : R Nat := (R.ofOption (checkedSub a rhs)).bind new

def subAddr (a b : Nat) : R Nat := R.ofOption (checkedSub a b)

end PhysAddr

/-! ### `PageTableIndex`, `PageOffset`, `PageTableLevel` -/

namespace PageTableIndex
def new (i : Nat) : R Nat := if i < 512 then .ok i else .panic
def newTruncate (i : Nat) : Nat := i % 512
/-- `Step::forward_checked`: `usize::checked_add`, then `< 512`. -/
def forwardChecked (i count : Nat) : Option Nat :=
  match checkedAdd i count with
  | none => none
  | some idx => if idx < 512 then some idx else none
def backwardChecked (i count : Nat) : Option Nat := checkedSub i count
/-- `Step::steps_between` of the underlying `u16`. -/
def stepsBetween (s e : Nat) : Nat × Option Nat :=
  if s ≤ e then (e - s, some (e - s)) else (0, none)
end PageTableIndex

namespace PageOffset
def new (o : Nat) : R Nat := if o < 4096 then .ok o else .panic
def newTruncate (o : Nat) : Nat := o % 4096
end PageOffset

namespace PageTableLevel
/-- Levels are the numbers 1..4 (`PageTableLevel as u8`). -/
def nextLower (l : Nat) : Option Nat := if l = 4 then some 3 else if l = 3 then some 2 else if l = 2 then some 1 else none
def nextHigher (l : Nat) : Option Nat := if l = 4 then none else if l = 3 then some 4 else if l = 2 then some 3 else some 2
def tableAlign (l : Nat) : Nat := 2^(l * 9 + 12)
def entryAlign (l : Nat) : Nat := 2^((l - 1) * 9 + 12)
end PageTableLevel

end X86
