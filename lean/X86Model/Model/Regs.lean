/-
Model of the system-register wrappers:
  src/registers/control.rs         Cr0, Cr2, Cr3, Cr4
  src/registers/model_specific.rs  Msr, Efer, FsBase, GsBase, KernelGsBase, Star, LStar, SFMask,
                                   UCet, SCet, Pat, ApicBase
  src/registers/debug.rs           Dr0–Dr3, Dr6, Dr7
  src/registers/xcontrol.rs        XCr0
  src/registers/mxcsr.rs           read, write, update
  src/instructions/segmentation.rs Segment::{get_reg,set_reg} for CS/SS/DS/ES/FS/GS,
                                   Segment64::{read_base,write_base}, GS::swap
  src/instructions/tables.rs       load_tss
(`src/registers/rflags.rs` is Model/RFlags.lean.)

Each definition transcribes the Rust function of the same name *as it is written*: the Rust-level
glue in the monad `M`, and `M.insn` for every `asm!` block, with the operand the block receives.
Representation of the argument types (raw hardware words):
  bitflags types (`Cr0Flags`, …, `Dr7Value`)  `BitVec 64` = `.bits()`
  `VirtAddr`, `PhysFrame`, `Page<Size4KiB>`   `BitVec 64` = the (start) address
  `SegmentSelector`, `Pcid`                   `BitVec 16`
  `[PatMemoryType; 8]`                        `BitVec 64`, byte `i` = `table[i].bits()`
Validity of these values (canonical, aligned, < 2^52, < 4096, valid PAT byte) is an invariant of
the Rust types; it appears as a hypothesis in the theorems, not in the definitions.
-/
import X86Model.Model.Machine
import X86Model.Model.RegConsts

namespace X86.Regs
open X86 X86.Spec X86.Consts

/-! ### Address types on raw words (src/addr.rs) -/

/-- `VirtAddr::new_truncate`: `((addr << 16) as i64 >> 16) as u64`. -/
def virtNewTruncate (a : BitVec 64) : BitVec 64 := (a <<< 16).sshiftRight 16

/-- `VirtAddr::try_new`. -/
def virtTryNew (a : BitVec 64) : Option (BitVec 64) :=
  if virtNewTruncate a = a then some (virtNewTruncate a) else none

/-- `VirtAddr::new`: panics on a non-canonical address. -/
def virtNew (a : BitVec 64) : R (BitVec 64) := R.ofOption (virtTryNew a)

/-- `PhysAddr::new_truncate`: `addr % (1 << 52)`. -/
def physNewTruncate (a : BitVec 64) : BitVec 64 := a &&& 0x000fffffffffffff#64

/-- `PhysAddr::new`. -/
def physNew (a : BitVec 64) : R (BitVec 64) :=
  if physNewTruncate a = a then .ok a else .panic

/-- `PhysFrame::<Size4KiB>::containing_address`: `align_down(4096)`. -/
def frameContaining (a : BitVec 64) : BitVec 64 := a &&& ~~~0xfff#64

/-- `Page::<Size4KiB>::from_start_address(a).unwrap()`. -/
def pageFromStart (a : BitVec 64) : R (BitVec 64) :=
  if a &&& 0xfff#64 = 0#64 then .ok a else .panic

/-! ### `Msr` (model_specific.rs:271-312) -/

namespace Msr

/-- `Msr::read`: `rdmsr` with `in("ecx") self.0`, `out("eax") low`, `out("edx") high`;
`((high as u64) << 32) | (low as u64)`. -/
def read (reg : BitVec 32) : M (BitVec 64) := do
  let o ← M.insn (.rdmsr reg)
  let low : BitVec 32 := o.a.truncate 32
  let high : BitVec 32 := o.d.truncate 32
  pure ((high.zeroExtend 64 <<< 32) ||| low.zeroExtend 64)

/-- `Msr::write`: `low = value as u32; high = (value >> 32) as u32; wrmsr`. -/
def write (reg : BitVec 32) (value : BitVec 64) : M Unit := do
  let low : BitVec 32 := value.truncate 32
  let high : BitVec 32 := (value >>> 32).truncate 32
  let _ ← M.insn (.wrmsr reg low high)
  pure ()

end Msr

/-! ### Control registers (control.rs) -/

namespace Cr0

def readRaw : M (BitVec 64) := do
  let o ← M.insn (.movFromCr 0)
  pure o.a

/-- `Cr0Flags::from_bits_truncate(Self::read_raw())`. -/
def read : M (BitVec 64) := do
  let v ← readRaw
  pure (v &&& CR0_ALL)

def writeRaw (value : BitVec 64) : M Unit := do
  let _ ← M.insn (.movToCr 0 value)
  pure ()

def write (flags : BitVec 64) : M Unit := do
  let oldValue ← readRaw
  let reserved := oldValue &&& ~~~CR0_ALL
  let newValue := reserved ||| flags
  writeRaw newValue

def update (f : BitVec 64 → BitVec 64) : M Unit := do
  let flags ← read
  write (f flags)

end Cr0

namespace Cr2

def readRaw : M (BitVec 64) := do
  let o ← M.insn (.movFromCr 2)
  pure o.a

/-- `Cr2::read`: `VirtAddr::try_new(Self::read_raw())` (`Err` = `none`). -/
def read : M (Option (BitVec 64)) := do
  let v ← readRaw
  pure (virtTryNew v)

end Cr2

namespace Cr3

/-- `Cr3::read_raw`: `(PhysFrame::containing_address(PhysAddr::new(value & 0x000f_ffff_ffff_f000)),
(value & 0xFFF) as u16)`. -/
def readRaw : M (BitVec 64 × BitVec 16) := do
  let o ← M.insn (.movFromCr 3)
  let value := o.a
  let addr ← M.ofR (physNew (value &&& 0x000ffffffffff000#64))
  let frame := frameContaining addr
  pure (frame, (value &&& 0xfff#64).truncate 16)

/-- `Cr3::read`: `Cr3Flags::from_bits_truncate(value.into())`. -/
def read : M (BitVec 64 × BitVec 64) := do
  let (frame, value) ← readRaw
  let flags := (value.zeroExtend 64) &&& CR3_ALL
  pure (frame, flags)

/-- `Cr3::read_pcid`: `Pcid::new(value).unwrap()` (`Err` iff `value >= 4096`). -/
def readPcid : M (BitVec 64 × BitVec 16) := do
  let (frame, value) ← readRaw
  if value.toNat ≥ 4096 then M.panic else pure (frame, value)

/-- `write_raw_impl`: `((top_bit as u64) << 63) | addr.as_u64() | val as u64; mov cr3, value`. -/
def writeRawImpl (topBit : Bool) (frame : BitVec 64) (val : BitVec 16) : M Unit := do
  let addr := frame
  let value := ((if topBit then 1#64 else 0#64) <<< 63) ||| addr ||| val.zeroExtend 64
  let _ ← M.insn (.movToCr 3 value)
  pure ()

/-- `Cr3::write`: `write_raw_impl(false, frame, flags.bits() as u16)`. -/
def write (frame flags : BitVec 64) : M Unit := writeRawImpl false frame (flags.truncate 16)

def writePcid (frame : BitVec 64) (pcid : BitVec 16) : M Unit := writeRawImpl false frame pcid

def writePcidNoFlush (frame : BitVec 64) (pcid : BitVec 16) : M Unit := writeRawImpl true frame pcid

def writeRaw (frame : BitVec 64) (val : BitVec 16) : M Unit := writeRawImpl false frame val

def update (f : BitVec 64 × BitVec 64 → BitVec 64 × BitVec 64) : M Unit := do
  let (frame, flags) ← read
  let (frame', flags') := f (frame, flags)
  write frame' flags'

def updatePcid (f : BitVec 64 × BitVec 16 → BitVec 64 × BitVec 16) : M Unit := do
  let (frame, pcid) ← readPcid
  let (frame', pcid') := f (frame, pcid)
  writePcid frame' pcid'

def updatePcidNoFlush (f : BitVec 64 × BitVec 16 → BitVec 64 × BitVec 16) : M Unit := do
  let (frame, pcid) ← readPcid
  let (frame', pcid') := f (frame, pcid)
  writePcidNoFlush frame' pcid'

end Cr3

namespace Cr4

def readRaw : M (BitVec 64) := do
  let o ← M.insn (.movFromCr 4)
  pure o.a

def read : M (BitVec 64) := do
  let v ← readRaw
  pure (v &&& CR4_ALL)

def writeRaw (value : BitVec 64) : M Unit := do
  let _ ← M.insn (.movToCr 4 value)
  pure ()

def write (flags : BitVec 64) : M Unit := do
  let oldValue ← readRaw
  let reserved := oldValue &&& ~~~CR4_ALL
  let newValue := reserved ||| flags
  writeRaw newValue

def update (f : BitVec 64 → BitVec 64) : M Unit := do
  let flags ← read
  write (f flags)

end Cr4

/-! ### Model-specific registers (model_specific.rs) -/

namespace Efer

def readRaw : M (BitVec 64) := Msr.read MSR_EFER

def read : M (BitVec 64) := do
  let v ← readRaw
  pure (v &&& EFER_ALL)

def writeRaw (flags : BitVec 64) : M Unit := Msr.write MSR_EFER flags

def write (flags : BitVec 64) : M Unit := do
  let oldValue ← readRaw
  let reserved := oldValue &&& ~~~EFER_ALL
  let newValue := reserved ||| flags
  writeRaw newValue

def update (f : BitVec 64 → BitVec 64) : M Unit := do
  let flags ← read
  write (f flags)

end Efer

/-- The four address-valued MSR wrappers have the same two functions:
`read = VirtAddr::new(MSR.read())`, `write(address) = MSR.write(address.as_u64())`. -/
def addrMsrRead (reg : BitVec 32) : M (BitVec 64) := do
  let v ← Msr.read reg
  M.ofR (virtNew v)

def addrMsrWrite (reg : BitVec 32) (address : BitVec 64) : M Unit := Msr.write reg address

namespace FsBase
def read : M (BitVec 64) := addrMsrRead MSR_FS_BASE
def write (a : BitVec 64) : M Unit := addrMsrWrite MSR_FS_BASE a
end FsBase

namespace GsBase
def read : M (BitVec 64) := addrMsrRead MSR_GS_BASE
def write (a : BitVec 64) : M Unit := addrMsrWrite MSR_GS_BASE a
end GsBase

namespace KernelGsBase
def read : M (BitVec 64) := addrMsrRead MSR_KERNEL_GS_BASE
def write (a : BitVec 64) : M Unit := addrMsrWrite MSR_KERNEL_GS_BASE a
end KernelGsBase

namespace LStar
def read : M (BitVec 64) := addrMsrRead MSR_LSTAR
def write (a : BitVec 64) : M Unit := addrMsrWrite MSR_LSTAR a
end LStar

/-- `u16 + k` / `u16 - k` in the build profile `cfg`. -/
def addU16 (cfg : Cfg) (a : BitVec 16) (k : Nat) : R (BitVec 16) :=
  if a.toNat + k < 2^16 then .ok (a + BitVec.ofNat 16 k)
  else if cfg.ovf then .panic else .ok (a + BitVec.ofNat 16 k)

def subU16 (cfg : Cfg) (a : BitVec 16) (k : Nat) : R (BitVec 16) :=
  if k ≤ a.toNat then .ok (a - BitVec.ofNat 16 k)
  else if cfg.ovf then .panic else .ok (a - BitVec.ofNat 16 k)

/-- `InvalidStarSegmentSelectors`. -/
inductive StarError where
  | sysretOffset | syscallOffset | sysretPrivilegeLevel | syscallPrivilegeLevel
  deriving DecidableEq, Repr

/-- The variant's name (`{:?}`). -/
def StarError.name : StarError → String
  | .sysretOffset => "SysretOffset"
  | .syscallOffset => "SyscallOffset"
  | .sysretPrivilegeLevel => "SysretPrivilegeLevel"
  | .syscallPrivilegeLevel => "SyscallPrivilegeLevel"

namespace Star

/-- `Star::read_raw`: `(msr.get_bits(48..64), msr.get_bits(32..48))`. -/
def readRaw : M (BitVec 16 × BitVec 16) := do
  let v ← Msr.read MSR_STAR
  let sysret : BitVec 16 := (v >>> 48).truncate 16
  let syscall : BitVec 16 := (v >>> 32).truncate 16
  pure (sysret, syscall)

/-- `Star::read`: `(raw.0 + 16, raw.0 + 8, raw.1, raw.1 + 8)` (plain `u16` additions). -/
def read (cfg : Cfg) : M (BitVec 16 × BitVec 16 × BitVec 16 × BitVec 16) := do
  let raw ← readRaw
  let a ← M.ofR (addU16 cfg raw.1 16)
  let b ← M.ofR (addU16 cfg raw.1 8)
  let d ← M.ofR (addU16 cfg raw.2 8)
  pure (a, b, raw.2, d)

/-- `Star::write_raw`: `set_bits(48..64, sysret)`, `set_bits(32..48, syscall)` on zero. -/
def writeRaw (sysret syscall : BitVec 16) : M Unit := do
  let v : BitVec 64 := (sysret.zeroExtend 64 <<< 48) ||| (syscall.zeroExtend 64 <<< 32)
  Msr.write MSR_STAR v

/-- `Star::write`: the four checks (on `i32` values, so no underflow), then
`write_raw(ss_sysret.0 - 8, cs_syscall.0)` (a plain `u16` subtraction). -/
def write (cfg : Cfg) (csSysret ssSysret csSyscall ssSyscall : BitVec 16) :
    M (Except StarError Unit) := do
  let csSysretCmp : Int := csSysret.toNat - 16
  let ssSysretCmp : Int := ssSysret.toNat - 8
  let csSyscallCmp : Int := csSyscall.toNat
  let ssSyscallCmp : Int := ssSyscall.toNat - 8
  if csSysretCmp ≠ ssSysretCmp then pure (.error .sysretOffset)
  else if csSyscallCmp ≠ ssSyscallCmp then pure (.error .syscallOffset)
  else if ssSysret &&& 3#16 ≠ 3#16 then pure (.error .sysretPrivilegeLevel)
  else if ssSyscall &&& 3#16 ≠ 0#16 then pure (.error .syscallPrivilegeLevel)
  else do
    let s ← M.ofR (subU16 cfg ssSysret 8)
    writeRaw s csSyscall
    pure (.ok ())

end Star

namespace SFMask

/-- `SFMask::read`: `RFlags::from_bits(MSR.read()).unwrap()`. -/
def read : M (BitVec 64) := do
  let v ← Msr.read MSR_SFMASK
  if v &&& ~~~RFLAGS_ALL = 0#64 then pure v else M.panic

def write (value : BitVec 64) : M Unit := Msr.write MSR_SFMASK value

def update (f : BitVec 64 → BitVec 64) : M Unit := do
  let flags ← read
  write (f flags)

end SFMask

/-- `UCet` and `SCet` have the same code on different MSRs:
`read`: `(CetFlags::from_bits_truncate(value),
          Page::from_start_address(VirtAddr::new(value & !(Page::<Size4KiB>::SIZE - 1))).unwrap())`,
`write(flags, page)`: `write_raw(flags.bits() | page.start_address().as_u64())`. -/
def cetRead (reg : BitVec 32) : M (BitVec 64 × BitVec 64) := do
  let value ← Msr.read reg
  let cetFlags := value &&& CET_ALL
  let va ← M.ofR (virtNew (value &&& ~~~0xfff#64))
  let legacyBitmap ← M.ofR (pageFromStart va)
  pure (cetFlags, legacyBitmap)

def cetWrite (reg : BitVec 32) (flags legacyBitmap : BitVec 64) : M Unit :=
  Msr.write reg (flags ||| legacyBitmap)

def cetUpdate (reg : BitVec 32) (f : BitVec 64 × BitVec 64 → BitVec 64 × BitVec 64) : M Unit := do
  let (flags, bitmap) ← cetRead reg
  let (flags', bitmap') := f (flags, bitmap)
  cetWrite reg flags' bitmap'

namespace UCet
def read : M (BitVec 64 × BitVec 64) := cetRead MSR_U_CET
def write (flags page : BitVec 64) : M Unit := cetWrite MSR_U_CET flags page
def update (f : BitVec 64 × BitVec 64 → BitVec 64 × BitVec 64) : M Unit := cetUpdate MSR_U_CET f
end UCet

namespace SCet
def read : M (BitVec 64 × BitVec 64) := cetRead MSR_S_CET
def write (flags page : BitVec 64) : M Unit := cetWrite MSR_S_CET flags page
def update (f : BitVec 64 × BitVec 64 → BitVec 64 × BitVec 64) : M Unit := cetUpdate MSR_S_CET f
end SCet

/-- `PatMemoryType::from_bits(b).is_some()`: 0, 1, 4, 5, 6, 7. -/
def patByteValid (b : BitVec 8) : Bool :=
  b == 0#8 || b == 1#8 || b == 4#8 || b == 5#8 || b == 6#8 || b == 7#8

/-- All eight bytes of the word are valid memory types. -/
def patValid (v : BitVec 64) : Bool :=
  (List.range 8).all fun i => patByteValid ((v >>> (8 * i)).truncate 8)

namespace Pat

/-- `Pat::read`: `MSR.read().to_ne_bytes().map(|b| PatMemoryType::from_bits(b).unwrap())`. -/
def read : M (BitVec 64) := do
  let v ← Msr.read MSR_PAT
  if patValid v then pure v else M.panic

/-- `Pat::write`: `u64::from_ne_bytes(table.map(PatMemoryType::bits))`. -/
def write (table : BitVec 64) : M Unit := Msr.write MSR_PAT table

end Pat

namespace ApicBase

/-- `ApicBase::read_raw`: `(PhysFrame::containing_address(PhysAddr::new_truncate(raw)), raw)`. -/
def readRaw : M (BitVec 64 × BitVec 64) := do
  let raw ← Msr.read MSR_APIC_BASE
  let addr := physNewTruncate raw
  let frame := frameContaining addr
  pure (frame, raw)

def read : M (BitVec 64 × BitVec 64) := do
  let (frame, flags) ← readRaw
  pure (frame, flags &&& APIC_BASE_ALL)

/-- `ApicBase::write_raw`: `msr.write(flags | addr.as_u64())`. -/
def writeRaw (frame flags : BitVec 64) : M Unit := Msr.write MSR_APIC_BASE (flags ||| frame)

/-- `ApicBase::write`: `reserved = old_flags & !(ApicBaseFlags::all().bits()) & !0x000f_ffff_ffff_f000`
(the base-address field, bits 12–51, is replaced by `frame`; it is not a reserved field).
History: before /repo commit beef14c the second mask was missing, so the old base address was kept
as "reserved" and OR-ed into the new one (DESIGN.md section 9, F6). -/
def write (frame flags : BitVec 64) : M Unit := do
  let (_, oldFlags) ← readRaw
  let reserved := oldFlags &&& ~~~APIC_BASE_ALL &&& ~~~0x000ffffffffff000#64
  let newFlags := reserved ||| flags
  writeRaw frame newFlags

end ApicBase

/-! ### Debug registers (debug.rs) -/

namespace Dr

/-- `DebugAddressRegister::read` for `Dr0`–`Dr3` (`n` = the register of the type). -/
def read (n : Nat) : M (BitVec 64) := do
  let o ← M.insn (.movFromDr n)
  pure o.a

def write (n : Nat) (addr : BitVec 64) : M Unit := do
  let _ ← M.insn (.movToDr n addr)
  pure ()

end Dr

namespace Dr6

def readRaw : M (BitVec 64) := do
  let o ← M.insn (.movFromDr 6)
  pure o.a

def read : M (BitVec 64) := do
  let v ← readRaw
  pure (v &&& DR6_ALL)

end Dr6

namespace Dr7

def readRaw : M (BitVec 64) := do
  let o ← M.insn (.movFromDr 7)
  pure o.a

/-- `Dr7Value::from_bits_truncate(Self::read_raw())`. -/
def read : M (BitVec 64) := do
  let v ← readRaw
  pure (v &&& DR7_VALID)

def writeRaw (value : BitVec 64) : M Unit := do
  let _ ← M.insn (.movToDr 7 value)
  pure ()

def write (value : BitVec 64) : M Unit := do
  let oldValue ← readRaw
  let reserved := oldValue &&& ~~~DR7_VALID
  let newValue := reserved ||| value
  writeRaw newValue

def update (f : BitVec 64 → BitVec 64) : M Unit := do
  let value ← read
  write (f value)

end Dr7

/-! ### XCR0 (xcontrol.rs) -/

namespace XCr0

/-- `XCr0::read_raw`: `xgetbv` with `in("ecx") 0`. -/
def readRaw : M (BitVec 64) := do
  let o ← M.insn (.xgetbv 0#32)
  let low : BitVec 32 := o.a.truncate 32
  let high : BitVec 32 := o.d.truncate 32
  pure ((high.zeroExtend 64 <<< 32) ||| low.zeroExtend 64)

def read : M (BitVec 64) := do
  let v ← readRaw
  pure (v &&& XCR0_ALL)

def writeRaw (value : BitVec 64) : M Unit := do
  let low : BitVec 32 := value.truncate 32
  let high : BitVec 32 := (value >>> 32).truncate 32
  let _ ← M.insn (.xsetbv 0#32 low high)
  pure ()

def contains (flags m : BitVec 64) : Bool := flags &&& m == m
def intersects (flags m : BitVec 64) : Bool := flags &&& m != 0#64

/-- The assertions of `XCr0::write`, in source order. -/
def valid (flags : BitVec 64) : Bool :=
  contains flags XCR0_X87 &&
  (!contains flags XCR0_AVX || contains flags XCR0_SSE) &&
  (!intersects flags (XCR0_BNDREG ||| XCR0_BNDCSR) || contains flags (XCR0_BNDREG ||| XCR0_BNDCSR)) &&
  (!intersects flags (XCR0_OPMASK ||| XCR0_ZMM_HI256 ||| XCR0_HI16_ZMM) ||
    (contains flags XCR0_AVX && contains flags (XCR0_OPMASK ||| XCR0_ZMM_HI256 ||| XCR0_HI16_ZMM)))

/-- `XCr0::write`: read the old value first, then the assertions, then `write_raw`. -/
def write (flags : BitVec 64) : M Unit := do
  let oldValue ← readRaw
  let reserved := oldValue &&& ~~~XCR0_ALL
  let newValue := reserved ||| flags
  M.assert (valid flags)
  writeRaw newValue

def update (f : BitVec 64 → BitVec 64) : M Unit := do
  let flags ← read
  write (f flags)

end XCr0

/-! ### MXCSR (mxcsr.rs) -/

namespace MxCsr

def read : M (BitVec 32) := do
  let o ← M.insn .stmxcsr
  pure ((o.a.truncate 32 : BitVec 32) &&& MXCSR_ALL)

def write (mxcsr : BitVec 32) : M Unit := do
  let _ ← M.insn (.ldmxcsr mxcsr)
  pure ()

def update (f : BitVec 32 → BitVec 32) : M Unit := do
  let v ← read
  write (f v)

end MxCsr

/-! ### Segment registers (instructions/segmentation.rs, instructions/tables.rs) -/

namespace Segment

/-- `<S as Segment>::get_reg`: `mov {0:x}, sreg`. -/
def getReg (s : Sreg) : M (BitVec 16) := do
  let o ← M.insn (.movFromSreg s)
  pure (o.a.truncate 16)

/-- `<S as Segment>::set_reg` for SS/DS/ES/FS/GS: `mov sreg, {0:x}`; for CS: push the selector
(zero-extended to 64 bits), push the address of the next instruction, `retfq`. -/
def setReg (s : Sreg) (sel : BitVec 16) : M Unit := do
  match s with
  | .cs =>
    let _ ← M.insn (.retfq (sel.zeroExtend 64))
    pure ()
  | _ =>
    let _ ← M.insn (.movToSreg s sel)
    pure ()

/-- `FS::read_base` / `GS::read_base`: `rdfsbase`/`rdgsbase`, `VirtAddr::new_unsafe`. -/
def readBaseFs : M (BitVec 64) := do
  let o ← M.insn .rdfsbase
  pure o.a

def readBaseGs : M (BitVec 64) := do
  let o ← M.insn .rdgsbase
  pure o.a

def writeBaseFs (base : BitVec 64) : M Unit := do
  let _ ← M.insn (.wrfsbase base)
  pure ()

def writeBaseGs (base : BitVec 64) : M Unit := do
  let _ ← M.insn (.wrgsbase base)
  pure ()

/-- `GS::swap`. -/
def swapGs : M Unit := do
  let _ ← M.insn .swapgs
  pure ()

/-- `load_tss`: `ltr {0:x}`. -/
def loadTss (sel : BitVec 16) : M Unit := do
  let _ ← M.insn (.ltr sel)
  pure ()

end Segment

end X86.Regs
