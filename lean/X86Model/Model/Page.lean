/-
Model of `src/structures/paging/page.rs` and `frame.rs`: pages and frames are
their start address (a `Nat`) together with the page size `sz ∈ {4096, 2^21, 2^30}`
passed as a parameter (the Rust type parameter `S`).
-/
import X86Model.Model.Addr

namespace X86

namespace Page

/-- `Page::from_start_address` (`Err(AddressNotAligned)` is `none`). -/
def fromStartAddress (sz a : Nat) : Option Nat :=
  -- `address.is_aligned_u64(S::SIZE)`; `S::SIZE` is a power of two, `align_down` cannot panic
  if VirtAddr.newTruncate (a - a % sz) = a then some (VirtAddr.newTruncate (a - a % sz)) else none

def containingAddress (sz a : Nat) : Nat := VirtAddr.newTruncate (a - a % sz)

def p4Index (p : Nat) : Nat := VirtAddr.p4Index p
def p3Index (p : Nat) : Nat := VirtAddr.p3Index p
def p2Index (p : Nat) : Nat := VirtAddr.p2Index p
def p1Index (p : Nat) : Nat := VirtAddr.p1Index p
def pageTableIndex (p level : Nat) : Nat := VirtAddr.pageTableIndex p level

def fromIndices1G (i4 i3 : Nat) : Nat :=
  containingAddress size1G (VirtAddr.newTruncate (i4 * 2^39 + i3 * 2^30))
def fromIndices2M (i4 i3 i2 : Nat) : Nat :=
  containingAddress size2M (VirtAddr.newTruncate (i4 * 2^39 + i3 * 2^30 + i2 * 2^21))
def fromIndices4K (i4 i3 i2 i1 : Nat) : Nat :=
  containingAddress size4K (VirtAddr.newTruncate (i4 * 2^39 + i3 * 2^30 + i2 * 2^21 + i1 * 2^12))

/-- `Page + u64`: `containing_address(start + rhs.checked_mul(SIZE).unwrap())`. -/
def add (sz p rhs : Nat) : R Nat :=
  (R.ofOption (checkedMul rhs sz)).bind fun off => (VirtAddr.add p off).map (containingAddress sz)

/-- `Page - u64`. -/
def sub (sz p rhs : Nat) : R Nat :=
  (R.ofOption (checkedMul rhs sz)).bind fun off => (VirtAddr.sub p off).map (containingAddress sz)

/-- `Page - Page`. -/
def subPage (sz p q : Nat) : R Nat := (VirtAddr.subAddr p q).map (· / sz)

def stepsBetweenImpl (sz s e : Nat) : Nat × Option Nat :=
  match VirtAddr.stepsBetweenU64 s e with
  | some d => (d / sz, some (d / sz))
  | none => (0, none)

def forwardChecked (sz p count : Nat) : Option Nat :=
  match checkedMul count sz with
  | none => none
  | some c => VirtAddr.forwardCheckedU64 p c

def backwardChecked (sz p count : Nat) : Option Nat :=
  match checkedMul count sz with
  | none => none
  | some c => VirtAddr.backwardCheckedU64 p c

end Page

namespace PhysFrame

def fromStartAddress (sz a : Nat) : Option Nat :=
  if a - a % sz = a then some a else none

def containingAddress (sz a : Nat) : Nat := a - a % sz

def add (sz f rhs : Nat) : R Nat :=
  (R.ofOption (checkedMul rhs sz)).bind fun off => (PhysAddr.add f off).map (containingAddress sz)

def sub (sz f rhs : Nat) : R Nat :=
  (R.ofOption (checkedMul rhs sz)).bind fun off => (PhysAddr.sub f off).map (containingAddress sz)

def subFrame (sz f g : Nat) : R Nat := (PhysAddr.subAddr f g).map (· / sz)

end PhysFrame

/-! ### Ranges

A range is the pair `(start, end)`. `next` is one call of `Iterator::next`: the
item (if any) and the updated range, or a panic. `collect` drives `next` to the
end (fuel bounds the recursion; theorems instantiate it with the range length + 1).
-/

structure Range where
  start : Nat
  stop : Nat
  deriving DecidableEq, Repr

/-- Which of the four range types. -/
inductive RangeKind where
  | page | pageIncl | frame | frameIncl
  deriving DecidableEq, Repr

namespace Range

def isEmpty (k : RangeKind) (r : Range) : Bool :=
  match k with
  | .page | .frame => decide (r.start ≥ r.stop)
  | .pageIncl | .frameIncl => decide (r.start > r.stop)

/-- `len()`; the subtraction is `Page - Page` / `PhysFrame - PhysFrame`, the `+ 1` a plain `u64` add. -/
def len (cfg : Cfg) (k : RangeKind) (sz : Nat) (r : Range) : R Nat :=
  if isEmpty k r then .ok 0
  else match k with
    | .page => Page.subPage sz r.stop r.start
    | .frame => PhysFrame.subFrame sz r.stop r.start
    | .pageIncl => (Page.subPage sz r.stop r.start).bind fun d => addU64 cfg d 1
    | .frameIncl => (PhysFrame.subFrame sz r.stop r.start).bind fun d => addU64 cfg d 1

/-- `size()` = `S::SIZE * self.len()`. -/
def size (cfg : Cfg) (k : RangeKind) (sz : Nat) (r : Range) : R Nat :=
  (len cfg k sz r).bind fun l => mulU64 cfg sz l

/-- Largest frame start address of size `sz`: `PhysAddr::new_truncate(u64::MAX).align_down(SIZE)`. -/
def maxFrame (sz : Nat) : Nat := (2^52 - 1) - (2^52 - 1) % sz

/-- One `Iterator::next` call. -/
def next (k : RangeKind) (sz : Nat) (r : Range) : R (Option Nat × Range) :=
  match k with
  | .page =>
    if r.start < r.stop then
      (Page.add sz r.start 1).map fun s' => (some r.start, { r with start := s' })
    else .ok (none, r)
  | .frame =>
    if r.start < r.stop then
      (PhysFrame.add sz r.start 1).map fun s' => (some r.start, { r with start := s' })
    else .ok (none, r)
  | .pageIncl =>
    if r.start ≤ r.stop then
      -- step `start` over the canonical sequence (jumping the gap); at the very last page
      -- shrink `end` instead
      match VirtAddr.forwardCheckedU64 r.start sz with
      | some nxt => .ok (some r.start, { r with start := Page.containingAddress sz nxt })
      | none => (Page.sub sz r.stop 1).map fun e' => (some r.start, { r with stop := e' })
    else .ok (none, r)
  | .frameIncl =>
    if r.start ≤ r.stop then
      if r.start < maxFrame sz then
        (PhysFrame.add sz r.start 1).map fun s' => (some r.start, { r with start := s' })
      else
        (PhysFrame.sub sz r.stop 1).map fun e' => (some r.start, { r with stop := e' })
    else .ok (none, r)

/-- Drive `next` until it returns `None` (at most `fuel` items). `none` = fuel exhausted. -/
def collect (k : RangeKind) (sz : Nat) : Nat → Range → Option (R (List Nat))
  | 0, _ => none
  | fuel + 1, r =>
    match next k sz r with
    | .panic => some .panic
    | .ok (none, _) => some (.ok [])
    | .ok (some x, r') =>
      match collect k sz fuel r' with
      | none => none
      | some .panic => some .panic
      | some (.ok xs) => some (.ok (x :: xs))

/-- `PageRange<Size2MiB>::as_4kib_page_range`. -/
def as4KiB (r : Range) : Range :=
  { start := Page.containingAddress size4K r.start, stop := Page.containingAddress size4K r.stop }

end Range

end X86
