/-
Bit-vector mirror of the arithmetic models (`Model/Addr.lean`, `Model/Page.lean`).

Every definition here is the `BitVec` transliteration of the `Nat` model of the same name: `%`, `/`, `*`
by constants, `+`, `-`, comparisons. Two families of theorems meet in this file:

* `Properties/SrcTie.lean` proves that the definitions *generated from the Rust source*
  (`Generated/SrcFns.lean`) are equal to these, for all inputs, by `bv_decide` (so any behaviour-preserving
  rewrite of the source keeps the theorem, and any behaviour-changing one breaks it);
* `Proofs/RefBridge.lean` proves that these are equal to the `Nat` models (`toNat` commutes), by linear
  arithmetic — independent of the source.

Together: every theorem of `Properties/C03 … C07` about the `Nat` models holds of the translated source.
No imports beyond `Base`: nothing here is needed by the driver.
-/
import X86Model.Base.Rust

namespace X86.RefBV

/-- `signExt48` of `Model/Addr.lean`. -/
def signExt48 (a : BitVec 64) : BitVec 64 :=
  bif BitVec.ult (a % 0x1000000000000#64) 0x800000000000#64 then a % 0x1000000000000#64
  else a % 0x1000000000000#64 + 0xffff000000000000#64

/-- `alignDown`: for a power of two `al`, `a &&& ~~~(al - 1)` (= `a - a % al`, `RefBridge.alignDown_toNat`). -/
def alignDown (a al : BitVec 64) : R (BitVec 64) :=
  bif Rust.isPowerOfTwo al then .ok (a &&& ~~~(al - 1)) else .panic

/-- `alignUp`. -/
def alignUp (a al : BitVec 64) : R (BitVec 64) :=
  bif Rust.isPowerOfTwo al then
    bif (a &&& (al - 1)) == 0 then .ok a
    else bif (a ||| (al - 1)) == BitVec.allOnes 64 then .panic
    else .ok ((a ||| (al - 1)) + 1)
  else .panic

namespace VirtAddr
def newTruncate (a : BitVec 64) : BitVec 64 := signExt48 a
def tryNew (a : BitVec 64) : Option (BitVec 64) := bif newTruncate a == a then some a else none
def new (a : BitVec 64) : R (BitVec 64) := R.ofOption (tryNew a)
def alignUp (a al : BitVec 64) : R (BitVec 64) := (RefBV.alignUp a al).map newTruncate
def alignDown (a al : BitVec 64) : R (BitVec 64) := (RefBV.alignDown a al).map newTruncate
def isAligned (a al : BitVec 64) : R Bool := (alignDown a al).map (fun r => r == a)
def pageOffset (a : BitVec 64) : BitVec 16 := (a.setWidth 16) % 4096#16
def p1Index (a : BitVec 64) : BitVec 16 := ((a >>> 12).setWidth 16) % 512#16
def p2Index (a : BitVec 64) : BitVec 16 := ((a >>> 21).setWidth 16) % 512#16
def p3Index (a : BitVec 64) : BitVec 16 := ((a >>> 30).setWidth 16) % 512#16
def p4Index (a : BitVec 64) : BitVec 16 := ((a >>> 39).setWidth 16) % 512#16
/-- `page_table_index(level)` for the four levels (`level` = `PageTableLevel as u8`). -/
def pageTableIndex (a : BitVec 64) (level : BitVec 8) : BitVec 16 :=
  bif level == 1 then p1Index a else bif level == 2 then p2Index a else bif level == 3 then p3Index a else p4Index a
def stepsBetweenU64 (s e : BitVec 64) : Option (BitVec 64) :=
  bif BitVec.ult e s then none else some ((e - s) % 0x1000000000000#64)
def stepsBetweenImpl (s e : BitVec 64) : BitVec 64 × Option (BitVec 64) :=
  bif BitVec.ult e s then (0, none) else ((e - s) % 0x1000000000000#64, some ((e - s) % 0x1000000000000#64))
def forwardCheckedU64 (start count : BitVec 64) : Option (BitVec 64) :=
  bif BitVec.ult 0x1000000000000#64 count then none
  else bif BitVec.uaddOverflow start count then none
  else bif (start + count) / 0x800000000000#64 == 1 then
    some ((start + count) % 0x800000000000#64 + 0xffff800000000000#64)
  else bif (start + count) / 0x800000000000#64 == 2 then none
  else some (start + count)
def backwardCheckedU64 (start count : BitVec 64) : Option (BitVec 64) :=
  bif BitVec.ult 0x1000000000000#64 count then none
  else bif BitVec.ult start count then none
  else bif (start - count) / 0x800000000000#64 == 0x1fffe then some ((start - count) % 0x800000000000#64)
  else bif (start - count) / 0x800000000000#64 == 0x1fffd then none
  else some (start - count)
def add (a rhs : BitVec 64) : R (BitVec 64) :=
  bif BitVec.uaddOverflow a rhs then .panic else new (a + rhs)
def sub (a rhs : BitVec 64) : R (BitVec 64) :=
  bif BitVec.ult a rhs then .panic else new (a - rhs)
def subAddr (a b : BitVec 64) : R (BitVec 64) :=
  bif BitVec.ult a b then .panic else .ok (a - b)
end VirtAddr

namespace PhysAddr
def newTruncate (a : BitVec 64) : BitVec 64 := a % 0x10000000000000#64
def tryNew (a : BitVec 64) : Option (BitVec 64) := bif newTruncate a == a then some a else none
def new (a : BitVec 64) : R (BitVec 64) := R.ofOption (tryNew a)
def alignUp (a al : BitVec 64) : R (BitVec 64) := (RefBV.alignUp a al).bind new
def alignDown (a al : BitVec 64) : R (BitVec 64) := RefBV.alignDown a al
def isAligned (a al : BitVec 64) : R Bool := (alignDown a al).map (fun r => r == a)
def add (a rhs : BitVec 64) : R (BitVec 64) :=
  bif BitVec.uaddOverflow a rhs then .panic else new (a + rhs)
def sub (a rhs : BitVec 64) : R (BitVec 64) :=
  bif BitVec.ult a rhs then .panic else new (a - rhs)
def subAddr (a b : BitVec 64) : R (BitVec 64) :=
  bif BitVec.ult a b then .panic else .ok (a - b)
end PhysAddr

namespace PageTableIndex
def new (i : BitVec 16) : R (BitVec 16) := bif BitVec.ult i 512#16 then .ok i else .panic
def newTruncate (i : BitVec 16) : BitVec 16 := i % 512#16
def forwardChecked (i : BitVec 16) (count : BitVec 64) : Option (BitVec 16) :=
  bif BitVec.uaddOverflow (i.setWidth 64) count then none
  else bif BitVec.ult (i.setWidth 64 + count) 512#64 then some ((i.setWidth 64 + count).setWidth 16) else none
def backwardChecked (i : BitVec 16) (count : BitVec 64) : Option (BitVec 16) :=
  bif BitVec.ult (i.setWidth 64) count then none else some ((i.setWidth 64 - count).setWidth 16)
def stepsBetween (s e : BitVec 16) : BitVec 64 × Option (BitVec 64) :=
  bif BitVec.ule s e then ((e - s).setWidth 64, some ((e - s).setWidth 64)) else (0, none)
end PageTableIndex

namespace PageOffset
def new (o : BitVec 16) : R (BitVec 16) := bif BitVec.ult o 4096#16 then .ok o else .panic
def newTruncate (o : BitVec 16) : BitVec 16 := o % 4096#16
end PageOffset

namespace PageTableLevel
def nextLower (l : BitVec 8) : Option (BitVec 8) :=
  bif l == 4 then some 3 else bif l == 3 then some 2 else bif l == 2 then some 1 else none
def nextHigher (l : BitVec 8) : Option (BitVec 8) :=
  bif l == 4 then none else bif l == 3 then some 4 else bif l == 2 then some 3 else some 2
/-- `1 << (level * 9 + 12)` for the four levels. -/
def tableAlign (l : BitVec 8) : BitVec 64 :=
  bif l == 1 then 0x200000#64 else bif l == 2 then 0x40000000#64 else bif l == 3 then 0x8000000000#64 else 0x1000000000000#64
def entryAlign (l : BitVec 8) : BitVec 64 :=
  bif l == 1 then 0x1000#64 else bif l == 2 then 0x200000#64 else bif l == 3 then 0x40000000#64 else 0x8000000000#64
end PageTableLevel

/-- The three page sizes. -/
def IsPageSize (sz : BitVec 64) : Prop := sz = 0x1000#64 ∨ sz = 0x200000#64 ∨ sz = 0x40000000#64
theorem isPageSize_4K : IsPageSize 0x1000#64 := Or.inl rfl
theorem isPageSize_2M : IsPageSize 0x200000#64 := Or.inr (Or.inl rfl)
theorem isPageSize_1G : IsPageSize 0x40000000#64 := Or.inr (Or.inr rfl)

namespace Page
def containingAddress (sz a : BitVec 64) : BitVec 64 := VirtAddr.newTruncate (a - a % sz)
def fromStartAddress (sz a : BitVec 64) : Option (BitVec 64) :=
  bif VirtAddr.newTruncate (a - a % sz) == a then some (VirtAddr.newTruncate (a - a % sz)) else none
def fromIndices1G (i4 i3 : BitVec 16) : BitVec 64 :=
  containingAddress 0x40000000#64 (VirtAddr.newTruncate (i4.setWidth 64 <<< 39 + i3.setWidth 64 <<< 30))
def fromIndices2M (i4 i3 i2 : BitVec 16) : BitVec 64 :=
  containingAddress 0x200000#64 (VirtAddr.newTruncate
    (i4.setWidth 64 <<< 39 + i3.setWidth 64 <<< 30 + i2.setWidth 64 <<< 21))
def fromIndices4K (i4 i3 i2 i1 : BitVec 16) : BitVec 64 :=
  containingAddress 0x1000#64 (VirtAddr.newTruncate
    (i4.setWidth 64 <<< 39 + i3.setWidth 64 <<< 30 + i2.setWidth 64 <<< 21
      + i1.setWidth 64 <<< 12))
def add (sz p rhs : BitVec 64) : R (BitVec 64) :=
  (R.ofOption (Rust.checkedMul rhs sz)).bind fun off => (VirtAddr.add p off).map (containingAddress sz)
def sub (sz p rhs : BitVec 64) : R (BitVec 64) :=
  (R.ofOption (Rust.checkedMul rhs sz)).bind fun off => (VirtAddr.sub p off).map (containingAddress sz)
def subPage (sz p q : BitVec 64) : R (BitVec 64) := (VirtAddr.subAddr p q).map (· / sz)
def stepsBetweenImpl (sz s e : BitVec 64) : BitVec 64 × Option (BitVec 64) :=
  bif BitVec.ult e s then (0, none)
  else (((e - s) % 0x1000000000000#64) / sz, some (((e - s) % 0x1000000000000#64) / sz))
def forwardChecked (sz p count : BitVec 64) : Option (BitVec 64) :=
  Rust.onOpt (Rust.checkedMul count sz) (fun c => VirtAddr.forwardCheckedU64 p c) none
def backwardChecked (sz p count : BitVec 64) : Option (BitVec 64) :=
  Rust.onOpt (Rust.checkedMul count sz) (fun c => VirtAddr.backwardCheckedU64 p c) none
end Page

namespace PhysFrame
def containingAddress (sz a : BitVec 64) : BitVec 64 := a - a % sz
def fromStartAddress (sz a : BitVec 64) : Option (BitVec 64) := bif a - a % sz == a then some a else none
def add (sz f rhs : BitVec 64) : R (BitVec 64) :=
  (R.ofOption (Rust.checkedMul rhs sz)).bind fun off => (PhysAddr.add f off).map (containingAddress sz)
def sub (sz f rhs : BitVec 64) : R (BitVec 64) :=
  (R.ofOption (Rust.checkedMul rhs sz)).bind fun off => (PhysAddr.sub f off).map (containingAddress sz)
def subFrame (sz f g : BitVec 64) : R (BitVec 64) := (PhysAddr.subAddr f g).map (· / sz)
end PhysFrame

/-! ### Ranges: the pair `(start, end)`; `next` returns the item and the new range. -/

abbrev Range := BitVec 64 × BitVec 64

namespace Range
def pageIsEmpty (r : Range) : Bool := BitVec.ule r.2 r.1
def pageInclIsEmpty (r : Range) : Bool := BitVec.ult r.2 r.1
def pageLen (sz : BitVec 64) (r : Range) : R (BitVec 64) :=
  bif pageIsEmpty r then .ok 0#64 else Page.subPage sz r.2 r.1
def pageInclLen (cfg : Cfg) (sz : BitVec 64) (r : Range) : R (BitVec 64) :=
  bif pageInclIsEmpty r then .ok 0#64 else (Page.subPage sz r.2 r.1).bind fun d => Rust.add cfg d 1#64
def frameLen (sz : BitVec 64) (r : Range) : R (BitVec 64) :=
  bif pageIsEmpty r then .ok 0#64 else PhysFrame.subFrame sz r.2 r.1
def frameInclLen (cfg : Cfg) (sz : BitVec 64) (r : Range) : R (BitVec 64) :=
  bif pageInclIsEmpty r then .ok 0#64 else (PhysFrame.subFrame sz r.2 r.1).bind fun d => Rust.add cfg d 1#64
def pageNext (sz : BitVec 64) (r : Range) : R (Option (BitVec 64) × Range) :=
  bif BitVec.ult r.1 r.2 then (Page.add sz r.1 1#64).map fun s' => (some r.1, (s', r.2)) else .ok (none, r)
def frameNext (sz : BitVec 64) (r : Range) : R (Option (BitVec 64) × Range) :=
  bif BitVec.ult r.1 r.2 then (PhysFrame.add sz r.1 1#64).map fun s' => (some r.1, (s', r.2)) else .ok (none, r)
def pageInclNext (sz : BitVec 64) (r : Range) : R (Option (BitVec 64) × Range) :=
  bif BitVec.ule r.1 r.2 then
    Rust.onOpt (VirtAddr.forwardCheckedU64 r.1 sz)
      (fun nxt => .ok (some r.1, (Page.containingAddress sz nxt, r.2)))
      ((Page.sub sz r.2 1#64).map fun e' => (some r.1, (r.1, e')))
  else .ok (none, r)
/-- Largest frame start address: `PhysAddr::new_truncate(u64::MAX).align_down(SIZE)`. -/
def maxFrame (sz : BitVec 64) : BitVec 64 := 0xfffffffffffff#64 - 0xfffffffffffff#64 % sz
def frameInclNext (sz : BitVec 64) (r : Range) : R (Option (BitVec 64) × Range) :=
  bif BitVec.ule r.1 r.2 then
    -- `PhysAddr::new_truncate(u64::MAX).align_down(SIZE)` (= `maxFrame sz`, `RefBridge.maxFrame_eq`)
    (PhysAddr.alignDown (PhysAddr.newTruncate (BitVec.allOnes 64)) sz).bind fun m =>
      bif BitVec.ult r.1 m then (PhysFrame.add sz r.1 1#64).map fun s' => (some r.1, (s', r.2))
      else (PhysFrame.sub sz r.2 1#64).map fun e' => (some r.1, (r.1, e'))
  else .ok (none, r)
def as4KiB (r : Range) : Range := (Page.containingAddress 0x1000#64 r.1, Page.containingAddress 0x1000#64 r.2)
end Range

end X86.RefBV

/-- Unfold every reference definition of this file. -/
macro "ref_unfold" : tactic =>
  `(tactic| simp only [X86.RefBV.signExt48, X86.RefBV.alignDown, X86.RefBV.alignUp, X86.RefBV.VirtAddr.newTruncate, X86.RefBV.VirtAddr.tryNew, X86.RefBV.VirtAddr.new, X86.RefBV.VirtAddr.alignUp, X86.RefBV.VirtAddr.alignDown, X86.RefBV.VirtAddr.isAligned, X86.RefBV.VirtAddr.pageOffset, X86.RefBV.VirtAddr.p1Index, X86.RefBV.VirtAddr.p2Index, X86.RefBV.VirtAddr.p3Index, X86.RefBV.VirtAddr.p4Index, X86.RefBV.VirtAddr.pageTableIndex, X86.RefBV.VirtAddr.stepsBetweenU64, X86.RefBV.VirtAddr.stepsBetweenImpl, X86.RefBV.VirtAddr.forwardCheckedU64, X86.RefBV.VirtAddr.backwardCheckedU64, X86.RefBV.VirtAddr.add, X86.RefBV.VirtAddr.sub, X86.RefBV.VirtAddr.subAddr, X86.RefBV.PhysAddr.newTruncate, X86.RefBV.PhysAddr.tryNew, X86.RefBV.PhysAddr.new, X86.RefBV.PhysAddr.alignUp, X86.RefBV.PhysAddr.alignDown, X86.RefBV.PhysAddr.isAligned, X86.RefBV.PhysAddr.add, X86.RefBV.PhysAddr.sub, X86.RefBV.PhysAddr.subAddr, X86.RefBV.PageTableIndex.new, X86.RefBV.PageTableIndex.newTruncate, X86.RefBV.PageTableIndex.forwardChecked, X86.RefBV.PageTableIndex.backwardChecked, X86.RefBV.PageTableIndex.stepsBetween, X86.RefBV.PageOffset.new, X86.RefBV.PageOffset.newTruncate, X86.RefBV.PageTableLevel.nextLower, X86.RefBV.PageTableLevel.nextHigher, X86.RefBV.PageTableLevel.tableAlign, X86.RefBV.PageTableLevel.entryAlign, X86.RefBV.Page.containingAddress, X86.RefBV.Page.fromStartAddress, X86.RefBV.Page.fromIndices1G, X86.RefBV.Page.fromIndices2M, X86.RefBV.Page.fromIndices4K, X86.RefBV.Page.add, X86.RefBV.Page.sub, X86.RefBV.Page.subPage, X86.RefBV.Page.stepsBetweenImpl, X86.RefBV.Page.forwardChecked, X86.RefBV.Page.backwardChecked, X86.RefBV.PhysFrame.containingAddress, X86.RefBV.PhysFrame.fromStartAddress, X86.RefBV.PhysFrame.add, X86.RefBV.PhysFrame.sub, X86.RefBV.PhysFrame.subFrame, X86.RefBV.Range.pageIsEmpty, X86.RefBV.Range.pageInclIsEmpty, X86.RefBV.Range.pageLen, X86.RefBV.Range.pageInclLen, X86.RefBV.Range.frameLen, X86.RefBV.Range.frameInclLen, X86.RefBV.Range.pageNext, X86.RefBV.Range.frameNext, X86.RefBV.Range.pageInclNext, X86.RefBV.Range.maxFrame, X86.RefBV.Range.frameInclNext, X86.RefBV.Range.as4KiB] at *)
