/-
Model of `src/instructions/tlb.rs` (`flush`, `flush_all`, `flush_pcid`, the `Invlpgb` broadcast
builder and `flush_broadcast`) and of `MapperFlush::flush` / `MapperFlushAll::flush_all`
(`src/structures/paging/mapper/mod.rs`).

Addresses, pages and counts in the chunking loop are `Nat` (the arithmetic model of
Model/Page.lean is reused for `steps_between_impl` / `forward_checked_impl`); the operands handed
to the instructions are converted to machine words at the `asm!` boundary.
-/
import X86Model.Model.Regs
import X86Model.Model.Page

namespace X86.Tlb
open X86 X86.Spec X86.Regs

/-- `tlb::flush(addr)`: `invlpg [addr]`. -/
def flush (addr : BitVec 64) : M Unit := do
  let _ ← M.insn (.invlpg addr)
  pure ()

/-- `tlb::flush_all()`: `let (frame, flags) = Cr3::read(); Cr3::write(frame, flags)`. -/
def flushAll : M Unit := do
  let (frame, flags) ← Cr3.read
  Cr3.write frame flags

/-- `MapperFlush::new(page).flush()`: `tlb::flush(self.0.start_address())`. A `MapperFlush` is the
page it names (`page` = start address). -/
def mapperFlush (page : BitVec 64) : M Unit := flush page

/-- `MapperFlushAll::flush_all()`. -/
def mapperFlushAll : M Unit := flushAll

/-- `InvPcidCommand`. -/
inductive InvPcidCommand where
  | address (addr : BitVec 64) (pcid : BitVec 16)
  | single (pcid : BitVec 16)
  | all
  | allExceptGlobal
  deriving DecidableEq, Repr

/-- `flush_pcid`: build `InvpcidDescriptor { pcid, address }` (both `u64`, `repr(C)`: pcid at byte 0,
address at byte 8), pick `kind`, `invpcid {kind}, [{&desc}]`. -/
def flushPcid (command : InvPcidCommand) : M Unit := do
  let (kind, descPcid, descAddress) : BitVec 64 × BitVec 64 × BitVec 64 :=
    match command with
    | .address addr pcid => (0#64, pcid.zeroExtend 64, addr)
    | .single pcid => (1#64, pcid.zeroExtend 64, 0#64)
    | .all => (2#64, 0#64, 0#64)
    | .allExceptGlobal => (3#64, 0#64, 0#64)
  let _ ← M.insn (.invpcid kind descPcid descAddress)
  pure ()

/-! ### The broadcast builder -/

/-- `Invlpgb` (the three CPUID-derived fields). -/
structure Invlpgb where
  countMax : Nat          -- u16
  tlbFlushNested : Bool
  nasid : Nat             -- u32
  deriving DecidableEq, Repr

/-- `InvlpgbFlushBuilder<'a, S>`; `sz` is `S::SIZE` (4 KiB or 2 MiB: `NotGiantPageSize`), a page
range is its `(start, end)` page start addresses. -/
structure FlushBuilder where
  invlpgb : Invlpgb
  sz : Nat
  pageRange : Option (Nat × Nat)
  pcid : Option Nat
  asid : Option Nat
  includeGlobal : Bool
  finalTranslationOnly : Bool
  includeNestedTranslations : Bool
  deriving DecidableEq, Repr

/-- `Invlpgb::build`. -/
def Invlpgb.build (i : Invlpgb) : FlushBuilder :=
  { invlpgb := i, sz := size4K, pageRange := none, pcid := none, asid := none,
    includeGlobal := false, finalTranslationOnly := false, includeNestedTranslations := false }

namespace FlushBuilder

/-- `pages(range)`: also switches the page-size parameter. -/
def pages (b : FlushBuilder) (sz : Nat) (range : Nat × Nat) : FlushBuilder :=
  { b with sz := sz, pageRange := some range }

def setPcid (b : FlushBuilder) (pcid : Nat) : FlushBuilder := { b with pcid := some pcid }

/-- `asid(asid)`: `Err(AsidOutOfRangeError)` (= `none`) when `asid >= nasid`. -/
def setAsid (b : FlushBuilder) (asid : Nat) : Option FlushBuilder :=
  if asid ≥ b.invlpgb.nasid then none else some { b with asid := some asid }

def setIncludeGlobal (b : FlushBuilder) : FlushBuilder := { b with includeGlobal := true }

def setFinalTranslationOnly (b : FlushBuilder) : FlushBuilder := { b with finalTranslationOnly := true }

/-- `include_nested_translations`: asserts `tlb_flush_nested`. -/
def setIncludeNestedTranslations (b : FlushBuilder) : R FlushBuilder :=
  if b.invlpgb.tlbFlushNested then .ok { b with includeNestedTranslations := true } else .panic

end FlushBuilder

/-- `bit_field`: `x.set_bit(i, b)` and `x.set_bits(lo..lo+len, v)` on naturals. -/
def setBit (x i : Nat) (b : Bool) : Nat := x - (x / 2^i % 2) * 2^i + (if b then 2^i else 0)
def setBits (x lo len v : Nat) : Nat := x - (x / 2^lo % 2^len) * 2^lo + v * 2^lo

/-- Register image built by `flush_broadcast` (RAX, ECX, EDX). -/
structure BroadcastRegs where
  rax : Nat
  ecx : Nat
  edx : Nat
  deriving DecidableEq, Repr

/-- `flush_broadcast::<S>(va_and_count, pcid, asid, include_global, final_translation_only,
include_nested_translations)`: the register encoding, in source order. -/
def broadcastRegs (sz : Nat) (vaAndCount : Option (Nat × Nat)) (pcid asid : Option Nat)
    (includeGlobal finalOnly nested : Bool) : BroadcastRegs :=
  let rax := 0
  let ecx := 0
  let edx := 0
  let (rax, ecx) :=
    match vaAndCount with
    | some (va, count) =>
      let rax := setBit rax 0 true
      let rax := setBits rax 12 52 (va / 2^12)          -- `set_bits(12.., va.get_bits(12..))`
      let ecx := setBits ecx 0 16 count                 -- `set_bits(0..=15, count)`
      let ecx := setBit ecx 31 (sz == size2M)           -- `S::SIZE == Size2MiB::SIZE`
      (rax, ecx)
    | none => (rax, ecx)
  let (rax, edx) :=
    match pcid with
    | some p => (setBit rax 1 true, setBits edx 16 12 p)  -- `set_bits(16..=27, pcid)`
    | none => (rax, edx)
  let (rax, edx) :=
    match asid with
    | some a => (setBit rax 2 true, setBits edx 0 16 a)   -- `set_bits(0..=15, asid)`
    | none => (rax, edx)
  let rax := setBit rax 3 includeGlobal
  let rax := setBit rax 4 finalOnly
  let rax := setBit rax 5 nested
  ⟨rax, ecx, edx⟩

/-- The `asm!("invlpgb", in("rax") rax, in("ecx") ecx, in("edx") edx)` of `flush_broadcast`. -/
def flushBroadcast (sz : Nat) (vaAndCount : Option (Nat × Nat)) (pcid asid : Option Nat)
    (includeGlobal finalOnly nested : Bool) : M Unit := do
  let r := broadcastRegs sz vaAndCount pcid asid includeGlobal finalOnly nested
  let _ ← M.insn (.invlpgb (BitVec.ofNat 64 r.rax) (BitVec.ofNat 32 r.ecx) (BitVec.ofNat 32 r.edx))
  pure ()

/-- `0xffff_8000_0000_0000`, the first address of the upper half. -/
def SECOND_HALF : Nat := 0xffff800000000000

/-- Pages still to flush as the loop computes it: `Page::steps_between_impl(&start, &end).0`. -/
def remaining (sz start stop : Nat) : Nat := (Page.stepsBetweenImpl sz start stop).1

/-- The count of one loop iteration (before `max(count, 1)`). -/
def chunkCount (sz countMax start stop : Nat) : Nat :=
  let count := remaining sz start stop
  let secondHalfStart := Page.containingAddress sz SECOND_HALF
  let count := if start < secondHalfStart then min count (remaining sz start secondHalfStart) else count
  let count := if count < 65536 then count else 65535        -- `u16::try_from(count).unwrap_or(u16::MAX)`
  min count countMax

/-- How the `while` loop ends. -/
inductive LoopStatus where
  | done
  /-- `forward_checked_impl(..).unwrap()` on `None` -/
  | panicked
  /-- an iteration that does not reduce the number of remaining pages (the loop would not end) -/
  | stuck
  deriving DecidableEq, Repr

structure LoopOut where
  /-- the `(va, count)` pairs handed to `flush_broadcast`, in order -/
  reqs : List (Nat × Nat)
  status : LoopStatus
  deriving DecidableEq, Repr

/-- The `while !pages.is_empty()` loop of `InvlpgbFlushBuilder::flush`, by well-founded recursion
on the number of pages remaining. -/
def flushLoop (sz countMax stop : Nat) (start : Nat) : LoopOut :=
  if start ≥ stop then ⟨[], .done⟩                       -- `pages.is_empty()`
  else
    let count := chunkCount sz countMax start stop
    let incCount := max count 1
    match Page.forwardChecked sz start incCount with
    | none => ⟨[(start, count)], .panicked⟩
    | some next =>
      if remaining sz next stop < remaining sz start stop then
        let rest := flushLoop sz countMax stop next
        ⟨(start, count) :: rest.reqs, rest.status⟩
      else ⟨[(start, count)], .stuck⟩
termination_by remaining sz start stop

/-- Issue the requests. -/
def issueAll (b : FlushBuilder) : List (Nat × Nat) → M Unit
  | [] => pure ()
  | r :: rs => do
    flushBroadcast b.sz (some r) b.pcid b.asid b.includeGlobal b.finalTranslationOnly b.includeNestedTranslations
    issueAll b rs

/-- `InvlpgbFlushBuilder::flush`. -/
def FlushBuilder.flush (b : FlushBuilder) : M Unit :=
  match b.pageRange with
  | some (start, stop) =>
    let out := flushLoop b.sz b.invlpgb.countMax stop start
    match out.status with
    | .done => issueAll b out.reqs
    | _ => do issueAll b out.reqs; M.panic
  | none =>
    flushBroadcast b.sz none b.pcid b.asid b.includeGlobal b.finalTranslationOnly b.includeNestedTranslations

/-- `Invlpgb::tlbsync`. -/
def tlbsync : M Unit := do
  let _ ← M.insn .tlbsync
  pure ()

end X86.Tlb
