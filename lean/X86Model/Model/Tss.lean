/-
Model of `TaskStateSegment` (/repo/src/structures/tss.rs) and `DescriptorTablePointer`
(/repo/src/structures/mod.rs): the field lists as declared, and the `repr(C, packed(N))` layout
rule of the Rust reference ("each field is placed at the next offset that is a multiple of
min(its alignment, N); the size is rounded up to a multiple of min(max alignment, N)").
-/
import X86Model.Base

namespace X86

/-- A field: name, size of one element, alignment of one element, element count. -/
structure Field where
  name : String
  size : Nat
  align : Nat
  count : Nat
  deriving Repr, DecidableEq

def roundUp (n a : Nat) : Nat := (n + a - 1) / a * a

/-- `repr(C, packed(p))` layout: list of (name, offset) in declaration order, and the total size. -/
def layoutPacked (p : Nat) (fields : List Field) : List (String × Nat) × Nat :=
  let step := fun (acc : List (String × Nat) × Nat) (f : Field) =>
    let off := roundUp acc.2 (min f.align p)
    (acc.1 ++ [(f.name, off)], off + f.size * f.count)
  let r := fields.foldl step ([], 0)
  let maxAlign := fields.foldl (fun m f => max m (min f.align p)) 1
  (r.1, roundUp r.2 maxAlign)

def offsetOf (l : List (String × Nat) × Nat) (name : String) : Option Nat :=
  (l.1.find? (fun x => x.1 == name)).map (·.2)

namespace TaskStateSegment

/-- `#[repr(C, packed(4))] pub struct TaskStateSegment { … }` in declaration order
(`VirtAddr` is `repr(transparent)` over `u64`). -/
def fields : List Field :=                             -- GENERATED-CANDIDATE
  [ ⟨"reserved_1", 4, 4, 1⟩,
    ⟨"privilege_stack_table", 8, 8, 3⟩,
    ⟨"reserved_2", 8, 8, 1⟩,
    ⟨"interrupt_stack_table", 8, 8, 7⟩,
    ⟨"reserved_3", 8, 8, 1⟩,
    ⟨"reserved_4", 2, 2, 1⟩,
    ⟨"iomap_base", 2, 2, 1⟩ ]

def PACKED : Nat := 4                                   -- GENERATED-CANDIDATE

def layout : List (String × Nat) × Nat := layoutPacked PACKED fields

/-- `size_of::<TaskStateSegment>()`. -/
def SIZE_OF : Nat := layout.2

/-- `TaskStateSegment::new()`: all stack pointers `VirtAddr::zero()`, reserved fields 0,
`iomap_base: size_of::<TaskStateSegment>() as u16`. Value of each field element. -/
structure Val where
  rsp : List Nat      -- privilege_stack_table, 3 entries
  ist : List Nat      -- interrupt_stack_table, 7 entries
  iomap_base : Nat
  deriving Repr, DecidableEq

def new : Val := { rsp := [0, 0, 0], ist := [0, 0, 0, 0, 0, 0, 0], iomap_base := SIZE_OF % 65536 }

def le (n v : Nat) : List Nat := (List.range n).map (fun k => (v / 256 ^ k) % 256)

/-- Memory image (little-endian target) of a TSS value; reserved fields are zero (they are
private and only ever initialised to 0). Fields are written at their layout offsets. -/
def bytes (v : Val) : List Nat :=
  let put (img : List Nat) (off : Nat) (bs : List Nat) : List Nat :=
    img.take off ++ bs ++ img.drop (off + bs.length)
  let img0 := List.replicate SIZE_OF 0
  let o (n : String) := (offsetOf layout n).getD 0
  let img1 := put img0 (o "privilege_stack_table") ((v.rsp.take 3).flatMap (le 8))
  let img2 := put img1 (o "interrupt_stack_table") ((v.ist.take 7).flatMap (le 8))
  put img2 (o "iomap_base") (le 2 v.iomap_base)

end TaskStateSegment

namespace DescriptorTablePointer

/-- `#[repr(C, packed(2))] pub struct DescriptorTablePointer { pub limit: u16, pub base: VirtAddr }`. -/
def fields : List Field :=                             -- GENERATED-CANDIDATE
  [ ⟨"limit", 2, 2, 1⟩, ⟨"base", 8, 8, 1⟩ ]

def PACKED : Nat := 2                                   -- GENERATED-CANDIDATE

def layout : List (String × Nat) × Nat := layoutPacked PACKED fields

def SIZE_OF : Nat := layout.2

def bytes (limit base : Nat) : List Nat :=
  let o (n : String) := (offsetOf layout n).getD 0
  let img0 := List.replicate SIZE_OF 0
  let put (img : List Nat) (off : Nat) (bs : List Nat) : List Nat :=
    img.take off ++ bs ++ img.drop (off + bs.length)
  put (put img0 (o "limit") (TaskStateSegment.le 2 limit)) (o "base") (TaskStateSegment.le 8 base)

end DescriptorTablePointer

end X86
