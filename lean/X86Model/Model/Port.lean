/-
Model of `src/instructions/port.rs` (+ the traits of `src/structures/port.rs`).

`PortGeneric<T, A>` holds only the port number; the value type `T ∈ {u8, u16, u32}` (here
`Width`) selects the `PortRead`/`PortWrite` impl, i.e. which `asm!` block runs; the access marker
`A` only decides at the type level whether `read`/`write` exist. Values of type `T` are carried
as 32-bit words whose bits above the width are zero (`out("al") value: u8` etc.).
-/
import X86Model.Model.Machine

namespace X86.Port
open X86 X86.Spec

/-- The access markers `ReadOnlyAccess`, `WriteOnlyAccess`, `ReadWriteAccess`. -/
inductive Access where
  | readOnly | writeOnly | readWrite
  deriving DecidableEq, Repr

def Access.canRead : Access → Bool
  | .writeOnly => false
  | _ => true

def Access.canWrite : Access → Bool
  | .readOnly => false
  | _ => true

/-- `PortGeneric<T, A>`: `width`/`access` are the type parameters, `port` the only field. -/
structure PortGeneric where
  width : Width
  access : Access
  port : BitVec 16
  deriving DecidableEq, Repr

/-- `PortGeneric::new`. -/
def new (w : Width) (a : Access) (port : BitVec 16) : PortGeneric := ⟨w, a, port⟩

/-- `<T as PortRead>::read_from_port(port)`: `in al|ax|eax, dx` with `in("dx") port`,
`out("al"|"ax"|"eax") value`. -/
def readFromPort (w : Width) (port : BitVec 16) : M (BitVec 32) := do
  let o ← M.insn (.inp w port)
  pure (o.a.truncate 32)

/-- `<T as PortWrite>::write_to_port(port, value)`: `out dx, al|ax|eax`. -/
def writeToPort (w : Width) (port : BitVec 16) (value : BitVec 32) : M Unit := do
  let _ ← M.insn (.out w port value)
  pure ()

/-- `PortGeneric::read` (exists when `A: PortReadAccess`). -/
def read (p : PortGeneric) : M (BitVec 32) := readFromPort p.width p.port

/-- `PortGeneric::write` (exists when `A: PortWriteAccess`). -/
def write (p : PortGeneric) (value : BitVec 32) : M Unit := writeToPort p.width p.port value

/-- `Clone for PortGeneric`. -/
def clone (p : PortGeneric) : PortGeneric := { width := p.width, access := p.access, port := p.port }

/-- `PartialEq for PortGeneric<T, A>` (both sides have the same `T` and `A`): `self.port == other.port`. -/
def eq (p q : PortGeneric) : Bool := p.port == q.port

end X86.Port
