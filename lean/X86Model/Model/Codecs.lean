/-
Model of the small value types ("codecs") of C19: segment selectors, privilege levels, DR6/DR7
helpers and `Dr7Value`, PCIDs, exception vectors, PAT memory types, breakpoint sizes/conditions,
selector error codes.  Every definition transcribes one Rust function *as it is*; the function
is named in the comment.  Discriminants and flag values come from the generated constants
(`X86.Generated.*`, re-extracted from the source on every run), never from literals here; the
literals that remain are the ones written in the Rust function bodies themselves (match arms).

Raw hardware words are `BitVec`; small integers that cross the API (`u8`, `u16`, `usize`
arguments) are `Nat`.  Imports: core only (linked into the `driver`).
-/
import X86Model.Base
import X86Model.Generated.Consts

namespace X86

/-! ### `bit_field::BitField` (modelled by its documented meaning) -/

/-- `x.get_bits(lo .. lo+len)`. -/
def getBits {w : Nat} (x : BitVec w) (lo len : Nat) : BitVec w :=
  (x >>> lo) &&& BitVec.ofNat w (2 ^ len - 1)

/-- `x.set_bits(lo .. lo+len, v)`: panics when `v` does not fit into `len` bits. -/
def setBits {w : Nat} (x : BitVec w) (lo len : Nat) (v : BitVec w) : R (BitVec w) :=
  if v.toNat < 2 ^ len then
    .ok ((x &&& ~~~(BitVec.ofNat w (2 ^ len - 1) <<< lo)) ||| (v <<< lo))
  else .panic

/-- `x.get_bit(i)`. -/
def getBit {w : Nat} (x : BitVec w) (i : Nat) : Bool := x.getLsbD i

/-! ### `PrivilegeLevel` (src/lib.rs) -/

inductive PrivilegeLevel where
  | ring0 | ring1 | ring2 | ring3
  deriving DecidableEq, Repr

namespace PrivilegeLevel

/-- `self as u16` / `as u8`: the enum discriminant (generated). -/
def toNat : PrivilegeLevel → Nat
  | ring0 => Generated.PrivilegeLevel_Ring0
  | ring1 => Generated.PrivilegeLevel_Ring1
  | ring2 => Generated.PrivilegeLevel_Ring2
  | ring3 => Generated.PrivilegeLevel_Ring3

/-- `PrivilegeLevel::from_u16`: `match value { 0 => Ring0, 1 => Ring1, 2 => Ring2, 3 => Ring3, _ => panic!() }`. -/
def fromU16 (value : Nat) : R PrivilegeLevel :=
  match value with
  | 0 => .ok ring0
  | 1 => .ok ring1
  | 2 => .ok ring2
  | 3 => .ok ring3
  | _ => .panic

end PrivilegeLevel

/-! ### `SegmentSelector` (src/registers/segmentation.rs), a `u16` -/

namespace SegmentSelector

/-- `SegmentSelector::new(index, rpl) = SegmentSelector((index << 3) | (rpl as u16))`
(`<<` on `u16` discards the bits shifted out, in every build profile). -/
def new (index : BitVec 16) (rpl : PrivilegeLevel) : BitVec 16 :=
  (index <<< 3) ||| BitVec.ofNat 16 rpl.toNat

/-- `SegmentSelector::NULL = Self::new(0, PrivilegeLevel::Ring0)`. -/
def null : BitVec 16 := new 0 .ring0

/-- `index(self) = self.0 >> 3`. -/
def index (s : BitVec 16) : BitVec 16 := s >>> 3

/-- `rpl(self) = PrivilegeLevel::from_u16(self.0.get_bits(0..2))`. -/
def rpl (s : BitVec 16) : R PrivilegeLevel := PrivilegeLevel.fromU16 (getBits s 0 2).toNat

/-- `set_rpl(&mut self, rpl) = self.0.set_bits(0..2, rpl as u16)`. -/
def setRpl (s : BitVec 16) (rpl : PrivilegeLevel) : R (BitVec 16) :=
  setBits s 0 2 (BitVec.ofNat 16 rpl.toNat)

end SegmentSelector

/-! ### `Pcid` (src/instructions/tlb.rs) -/

/-- `Pcid::new(pcid: u16)`: `if pcid >= 4096 { Err(PcidTooBig(pcid)) } else { Ok(Pcid(pcid)) }`. -/
def Pcid.new (pcid : Nat) : Option Nat := if pcid ≥ 4096 then none else some pcid

/-! ### Debug registers (src/registers/debug.rs) -/

inductive DebugAddressRegisterNumber where
  | dr0 | dr1 | dr2 | dr3
  deriving DecidableEq, Repr

namespace DebugAddressRegisterNumber

/-- `DebugAddressRegisterNumber::new(n: u8)`. -/
def new (n : Nat) : Option DebugAddressRegisterNumber :=
  match n with
  | 0 => some dr0
  | 1 => some dr1
  | 2 => some dr2
  | 3 => some dr3
  | _ => none

/-- `get(self)`: `match self { Dr0 => 0, Dr1 => 1, Dr2 => 2, Dr3 => 3 }`. -/
def get : DebugAddressRegisterNumber → Nat
  | dr0 => 0
  | dr1 => 1
  | dr2 => 2
  | dr3 => 3

def all : List DebugAddressRegisterNumber := [dr0, dr1, dr2, dr3]

end DebugAddressRegisterNumber

inductive BreakpointCondition where
  | instructionExecution | dataWrites | ioReadsWrites | dataReadsWrites
  deriving DecidableEq, Repr

namespace BreakpointCondition

/-- `self as u64`: the discriminant (generated). -/
def toNat : BreakpointCondition → Nat
  | instructionExecution => Generated.BreakpointCondition_InstructionExecution
  | dataWrites => Generated.BreakpointCondition_DataWrites
  | ioReadsWrites => Generated.BreakpointCondition_IoReadsWrites
  | dataReadsWrites => Generated.BreakpointCondition_DataReadsWrites

/-- `BreakpointCondition::from_bits(bits: u64)`. -/
def fromBits (bits : Nat) : Option BreakpointCondition :=
  match bits with
  | 0b00 => some instructionExecution
  | 0b01 => some dataWrites
  | 0b10 => some ioReadsWrites
  | 0b11 => some dataReadsWrites
  | _ => none

/-- `bit_range(n)`: `lsb = 16 + 4 * n.get(); lsb..lsb + 2`. -/
def lsb (n : DebugAddressRegisterNumber) : Nat := 16 + 4 * n.get

def all : List BreakpointCondition := [instructionExecution, dataWrites, ioReadsWrites, dataReadsWrites]

end BreakpointCondition

inductive BreakpointSize where
  | length1B | length2B | length8B | length4B
  deriving DecidableEq, Repr

namespace BreakpointSize

/-- `self as u64`: the discriminant (generated). -/
def toNat : BreakpointSize → Nat
  | length1B => Generated.BreakpointSize_Length1B
  | length2B => Generated.BreakpointSize_Length2B
  | length8B => Generated.BreakpointSize_Length8B
  | length4B => Generated.BreakpointSize_Length4B

/-- `BreakpointSize::new(size: usize)`. -/
def new (size : Nat) : Option BreakpointSize :=
  match size with
  | 1 => some length1B
  | 2 => some length2B
  | 8 => some length8B
  | 4 => some length4B
  | _ => none

/-- `BreakpointSize::from_bits(bits: u64)`. -/
def fromBits (bits : Nat) : Option BreakpointSize :=
  match bits with
  | 0b00 => some length1B
  | 0b01 => some length2B
  | 0b10 => some length8B
  | 0b11 => some length4B
  | _ => none

/-- `bit_range(n)`: `lsb = 18 + 4 * n.get(); lsb..lsb + 2`. -/
def lsb (n : DebugAddressRegisterNumber) : Nat := 18 + 4 * n.get

def all : List BreakpointSize := [length1B, length2B, length8B, length4B]

end BreakpointSize

namespace Dr6Flags

/-- `Dr6Flags::trap(n)`. -/
def trap : DebugAddressRegisterNumber → BitVec 64
  | .dr0 => BitVec.ofNat 64 Generated.Dr6Flags_TRAP0
  | .dr1 => BitVec.ofNat 64 Generated.Dr6Flags_TRAP1
  | .dr2 => BitVec.ofNat 64 Generated.Dr6Flags_TRAP2
  | .dr3 => BitVec.ofNat 64 Generated.Dr6Flags_TRAP3

end Dr6Flags

namespace Dr7Flags

/-- `Dr7Flags::all().bits()`: the OR of every flag of the `bitflags!` block (generated list). -/
def all : BitVec 64 := BitVec.ofNat 64 (Generated.allBits "Dr7Flags")

/-- `Dr7Flags::local_breakpoint_enable(n)`. -/
def localBreakpointEnable : DebugAddressRegisterNumber → BitVec 64
  | .dr0 => BitVec.ofNat 64 Generated.Dr7Flags_LOCAL_BREAKPOINT_0_ENABLE
  | .dr1 => BitVec.ofNat 64 Generated.Dr7Flags_LOCAL_BREAKPOINT_1_ENABLE
  | .dr2 => BitVec.ofNat 64 Generated.Dr7Flags_LOCAL_BREAKPOINT_2_ENABLE
  | .dr3 => BitVec.ofNat 64 Generated.Dr7Flags_LOCAL_BREAKPOINT_3_ENABLE

/-- `Dr7Flags::global_breakpoint_enable(n)`. -/
def globalBreakpointEnable : DebugAddressRegisterNumber → BitVec 64
  | .dr0 => BitVec.ofNat 64 Generated.Dr7Flags_GLOBAL_BREAKPOINT_0_ENABLE
  | .dr1 => BitVec.ofNat 64 Generated.Dr7Flags_GLOBAL_BREAKPOINT_1_ENABLE
  | .dr2 => BitVec.ofNat 64 Generated.Dr7Flags_GLOBAL_BREAKPOINT_2_ENABLE
  | .dr3 => BitVec.ofNat 64 Generated.Dr7Flags_GLOBAL_BREAKPOINT_3_ENABLE

end Dr7Flags

/- `Dr7Value { bits: u64 }`. -/
namespace Dr7Value

/-- `valid_bits()`: `field_valid_bits = (1 << 32) - (1 << 16)`, `| Dr7Flags::all().bits()`. -/
def validBits : BitVec 64 := BitVec.ofNat 64 ((1 <<< 32) - (1 <<< 16)) ||| Dr7Flags.all

/-- `from_bits(bits)`: `if (bits & !valid_bits()) == 0 { Some } else { None }`. -/
def fromBits (bits : BitVec 64) : Option (BitVec 64) :=
  if bits &&& ~~~validBits = 0 then some bits else none

/-- `from_bits_truncate(bits) = bits & valid_bits()`. -/
def fromBitsTruncate (bits : BitVec 64) : BitVec 64 := bits &&& validBits

/-- `flags(self) = Dr7Flags::from_bits_truncate(self.bits)`. -/
def flags (v : BitVec 64) : BitVec 64 := v &&& Dr7Flags.all

/-- `insert_flags`: `self.bits |= flags.bits()`. -/
def insertFlags (v f : BitVec 64) : BitVec 64 := v ||| f
/-- `remove_flags`: `self.bits &= !flags.bits()`. -/
def removeFlags (v f : BitVec 64) : BitVec 64 := v &&& ~~~f
/-- `toggle_flags`: `self.bits ^= flags.bits()`. -/
def toggleFlags (v f : BitVec 64) : BitVec 64 := v ^^^ f
/-- `set_flags(flags, value)`. -/
def setFlags (v f : BitVec 64) (value : Bool) : BitVec 64 :=
  if value then insertFlags v f else removeFlags v f

/-- `condition(&self, n)`: `from_bits(self.bits.get_bits(bit_range(n))).expect(..)`. -/
def condition (v : BitVec 64) (n : DebugAddressRegisterNumber) : R BreakpointCondition :=
  R.ofOption (BreakpointCondition.fromBits (getBits v (BreakpointCondition.lsb n) 2).toNat)

/-- `set_condition(&mut self, n, condition)`: `self.bits.set_bits(bit_range(n), condition as u64)`. -/
def setCondition (v : BitVec 64) (n : DebugAddressRegisterNumber) (c : BreakpointCondition) : R (BitVec 64) :=
  setBits v (BreakpointCondition.lsb n) 2 (BitVec.ofNat 64 c.toNat)

/-- `size(&self, n)`. -/
def size (v : BitVec 64) (n : DebugAddressRegisterNumber) : R BreakpointSize :=
  R.ofOption (BreakpointSize.fromBits (getBits v (BreakpointSize.lsb n) 2).toNat)

/-- `set_size(&mut self, n, size)`. -/
def setSize (v : BitVec 64) (n : DebugAddressRegisterNumber) (s : BreakpointSize) : R (BitVec 64) :=
  setBits v (BreakpointSize.lsb n) 2 (BitVec.ofNat 64 s.toNat)

end Dr7Value

/-! ### `ExceptionVector` (src/structures/idt.rs) -/

inductive ExceptionVector where
  | division | debug | nonMaskableInterrupt | breakpoint | overflow | boundRange | invalidOpcode
  | deviceNotAvailable | double | invalidTss | segmentNotPresent | stack | generalProtection | page
  | x87FloatingPoint | alignmentCheck | machineCheck | simdFloatingPoint | virtualization
  | controlProtection | hypervisorInjection | vmmCommunication | security
  deriving DecidableEq, Repr

namespace ExceptionVector

/-- `self as u8`: the `#[repr(u8)]` discriminant (generated). -/
def toU8 : ExceptionVector → Nat
  | division => Generated.ExceptionVector_Division
  | debug => Generated.ExceptionVector_Debug
  | nonMaskableInterrupt => Generated.ExceptionVector_NonMaskableInterrupt
  | breakpoint => Generated.ExceptionVector_Breakpoint
  | overflow => Generated.ExceptionVector_Overflow
  | boundRange => Generated.ExceptionVector_BoundRange
  | invalidOpcode => Generated.ExceptionVector_InvalidOpcode
  | deviceNotAvailable => Generated.ExceptionVector_DeviceNotAvailable
  | double => Generated.ExceptionVector_Double
  | invalidTss => Generated.ExceptionVector_InvalidTss
  | segmentNotPresent => Generated.ExceptionVector_SegmentNotPresent
  | stack => Generated.ExceptionVector_Stack
  | generalProtection => Generated.ExceptionVector_GeneralProtection
  | page => Generated.ExceptionVector_Page
  | x87FloatingPoint => Generated.ExceptionVector_X87FloatingPoint
  | alignmentCheck => Generated.ExceptionVector_AlignmentCheck
  | machineCheck => Generated.ExceptionVector_MachineCheck
  | simdFloatingPoint => Generated.ExceptionVector_SimdFloatingPoint
  | virtualization => Generated.ExceptionVector_Virtualization
  | controlProtection => Generated.ExceptionVector_ControlProtection
  | hypervisorInjection => Generated.ExceptionVector_HypervisorInjection
  | vmmCommunication => Generated.ExceptionVector_VmmCommunication
  | security => Generated.ExceptionVector_Security

/-- `impl TryFrom<u8> for ExceptionVector`: the match arms as written. -/
def tryFrom (n : Nat) : Option ExceptionVector :=
  match n with
  | 0x00 => some division
  | 0x01 => some debug
  | 0x02 => some nonMaskableInterrupt
  | 0x03 => some breakpoint
  | 0x04 => some overflow
  | 0x05 => some boundRange
  | 0x06 => some invalidOpcode
  | 0x07 => some deviceNotAvailable
  | 0x08 => some double
  | 0x0A => some invalidTss
  | 0x0B => some segmentNotPresent
  | 0x0C => some stack
  | 0x0D => some generalProtection
  | 0x0E => some page
  | 0x10 => some x87FloatingPoint
  | 0x11 => some alignmentCheck
  | 0x12 => some machineCheck
  | 0x13 => some simdFloatingPoint
  | 0x14 => some virtualization
  | 0x15 => some controlProtection
  | 0x1C => some hypervisorInjection
  | 0x1D => some vmmCommunication
  | 0x1E => some security
  | _ => none

def all : List ExceptionVector :=
  [division, debug, nonMaskableInterrupt, breakpoint, overflow, boundRange, invalidOpcode,
   deviceNotAvailable, double, invalidTss, segmentNotPresent, stack, generalProtection, page,
   x87FloatingPoint, alignmentCheck, machineCheck, simdFloatingPoint, virtualization,
   controlProtection, hypervisorInjection, vmmCommunication, security]

end ExceptionVector

/-! ### `PatMemoryType` (src/registers/model_specific.rs) -/

inductive PatMemoryType where
  | strongUncacheable | writeCombining | writeThrough | writeProtected | writeBack | uncacheable
  deriving DecidableEq, Repr

namespace PatMemoryType

/-- `bits(self) = self as u8` (generated discriminant). -/
def bits : PatMemoryType → Nat
  | strongUncacheable => Generated.PatMemoryType_StrongUncacheable
  | writeCombining => Generated.PatMemoryType_WriteCombining
  | writeThrough => Generated.PatMemoryType_WriteThrough
  | writeProtected => Generated.PatMemoryType_WriteProtected
  | writeBack => Generated.PatMemoryType_WriteBack
  | uncacheable => Generated.PatMemoryType_Uncacheable

/-- `PatMemoryType::from_bits(bits: u8)`. -/
def fromBits (b : Nat) : Option PatMemoryType :=
  match b with
  | 0x00 => some strongUncacheable
  | 0x01 => some writeCombining
  | 0x04 => some writeThrough
  | 0x05 => some writeProtected
  | 0x06 => some writeBack
  | 0x07 => some uncacheable
  | _ => none

def all : List PatMemoryType :=
  [strongUncacheable, writeCombining, writeThrough, writeProtected, writeBack, uncacheable]

end PatMemoryType

/-! ### `SelectorErrorCode`, `DescriptorTable` (src/structures/idt.rs) -/

inductive DescriptorTable where
  | gdt | idt | ldt
  deriving DecidableEq, Repr

/- `SelectorErrorCode { flags: u64 }`. -/
namespace SelectorErrorCode

/-- `new(value)`: `if value > u16::MAX as u64 { None } else { Some(..) }`. -/
def new (value : BitVec 64) : Option (BitVec 64) :=
  if value.toNat > 65535 then none else some value

/-- `new_truncate(value)`: `(value as u16) as u64`. -/
def newTruncate (value : BitVec 64) : BitVec 64 := (value.truncate 16).zeroExtend 64

/-- `external(&self) = self.flags.get_bit(0)`. -/
def external (f : BitVec 64) : Bool := getBit f 0

/-- `descriptor_table(&self)`: `match self.flags.get_bits(1..3) { 0b00 => Gdt, 0b01 => Idt, 0b10 => Ldt, 0b11 => Idt }`. -/
def descriptorTable (f : BitVec 64) : R DescriptorTable :=
  match (getBits f 1 2).toNat with
  | 0b00 => .ok .gdt
  | 0b01 => .ok .idt
  | 0b10 => .ok .ldt
  | 0b11 => .ok .idt
  | _ => .panic   -- `unreachable!()`

/-- `index(&self) = self.flags.get_bits(3..16)`. -/
def index (f : BitVec 64) : BitVec 64 := getBits f 3 13

/-- `is_null(&self) = self.flags == 0`. -/
def isNull (f : BitVec 64) : Bool := f == 0

end SelectorErrorCode

/-! ### Values defined through other constants -/

/-- `MxCsr::default().bits()` (generated: the OR of the six mask flags as written). -/
def MxCsr.default : Nat := Generated.MxCsr_default

end X86
