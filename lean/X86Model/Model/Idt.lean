/-
Model of `/repo/src/structures/idt.rs` (`InterruptDescriptorTable`, `Entry<F>`, `EntryOptions`),
`lidt` of `/repo/src/instructions/tables.rs` and the `DescriptorTablePointer` it is handed.

Everything declarative is taken from `Generated/IdtTables.lean` (re-extracted from the source on
every run): the field list of the table, the arms of both `Index` impls, the field order and types
of `Entry`/`EntryOptions`, the bit positions and value forms of the option setters, `minimal()`,
`missing()`, `new()`, the constants of `condition_slice_bounds` / `slice` / `slice_mut`.
What is written here is the *meaning* of those tables: the `repr(C)` layout rule of the Rust
reference, `bit_field`'s `set_bit`/`set_bits` on `u16` (bit_field-0.10.3), first-match `match`
semantics, slice indexing, the three assignments of `set_handler_addr` and `handler_addr`.

Field *names* of `Entry` (`pointer_low`, `options`, `pointer_middle`, `pointer_high`, `reserved`,
`phantom`) and `EntryOptions` (`cs`, `bits`) are how the model identifies a field; their order and
types come from the generated tables.
-/
import X86Model.Base
import X86Model.Generated.IdtTables
import X86Model.Model.Addr
import X86Model.Model.Machine
import X86Model.Spec.Gate

namespace X86.Idt
open X86.Generated.Idt (Field Target Arm BitSetter)

/-! ### `bit_field::BitField for u16` (`bitfield_numeric_impl!`), for any width `n` -/

/-- `set_bit(bit, value)`: `assert!(bit < BIT_LENGTH)`, then `|= 1 << bit` or `&= !(1 << bit)`. -/
def setBit {n : Nat} (x : BitVec n) (bit : Nat) (v : Bool) : R (BitVec n) :=
  if bit < n then .ok (if v then x ||| (1#n <<< bit) else x &&& ~~~(1#n <<< bit)) else .panic

/-- `set_bits(s..e, value)`: the three range assertions, the "value fits" assertion, then
`(self & bitmask) | (value << s)` with the source's bitmask expression. -/
def setBits {n : Nat} (x : BitVec n) (s e : Nat) (v : BitVec n) : R (BitVec n) :=
  if s < n ∧ e ≤ n ∧ s ≤ e then
    if (s == e && v == 0#n) || (v <<< (n - (e - s)) >>> (n - (e - s)) == v) then
      if s != e then
        let bitmask : BitVec n := ~~~((~~~0#n <<< (n - e) >>> (n - e) >>> s) <<< s)
        .ok ((x &&& bitmask) ||| (v <<< s))
      else .ok x
    else .panic
  else .panic

/-! ### `repr(C)` layout (Rust reference, "The C representation") -/

def roundUpTo (n a : Nat) : Nat := (n + a - 1) / a * a

structure Layout where
  /-- (field, byte offset) in declaration order -/
  offsets : List (String × Nat)
  size : Nat
  align : Nat
  deriving DecidableEq, Repr

/-- Fields are `(name, size, alignment)`; each is placed at the next multiple of its alignment, the
struct's alignment is the largest field alignment (at least `minAlign`, the `repr(align(N))`
modifier), its size the end of the last field rounded up to the alignment. -/
def reprC (fs : List (String × Nat × Nat)) (minAlign : Nat) : Layout :=
  let step := fun (acc : List (String × Nat) × Nat × Nat) (f : String × Nat × Nat) =>
    let off := roundUpTo acc.2.1 f.2.2
    (acc.1 ++ [(f.1, off)], off + f.2.1, max acc.2.2 f.2.2)
  let r := fs.foldl step ([], 0, minAlign)
  ⟨r.1, roundUpTo r.2.1 r.2.2, r.2.2⟩

/-- (size, alignment) of the primitive field types that occur. `SegmentSelector` is
`repr(transparent)` over `u16`; `PhantomData` is a zero-sized type of alignment 1. -/
def primLayout : String → Option (Nat × Nat)
  | "u8" => some (1, 1)
  | "u16" => some (2, 2)
  | "u32" => some (4, 4)
  | "u64" => some (8, 8)
  | "SegmentSelector" => some (2, 2)
  | "PhantomData<F>" => some (0, 1)
  | _ => none

def sized (tyLayout : String → Option (Nat × Nat)) (fs : List (String × String)) :
    Option (List (String × Nat × Nat)) :=
  fs.mapM (fun f => (tyLayout f.2).map (fun sa => (f.1, sa.1, sa.2)))

/-- Layout of `EntryOptions` (`none` unless it is `repr(C)` over known types). -/
def optsLayout : Option Layout :=
  if Generated.Idt.entryOptionsRepr.contains "C" then
    (sized primLayout Generated.Idt.entryOptionsFields).map (reprC · 1)
  else none

def entryTyLayout (t : String) : Option (Nat × Nat) :=
  if t == "EntryOptions" then optsLayout.map (fun l => (l.size, l.align)) else primLayout t

/-- Layout of `Entry<F>`. -/
def entryLayout : Option Layout :=
  if Generated.Idt.entryRepr.contains "C" then
    (sized entryTyLayout Generated.Idt.entryFields).map (reprC · 1)
  else none

/-- `size_of::<Entry<F>>()` (0 if the layout is not determined: every theorem about positions then fails). -/
def entrySize : Nat := (entryLayout.map (·.size)).getD 0
def entryAlign : Nat := (entryLayout.map (·.align)).getD 0

/-- Layout of `InterruptDescriptorTable`: every field is `Entry<_>` or an array of them. -/
def tableLayout : Option Layout :=
  if Generated.Idt.tableRepr.contains "C" && entryLayout.isSome then
    some (reprC (Generated.Idt.fields.map (fun f => (f.name, entrySize * f.len, entryAlign)))
      Generated.Idt.tableAlign)
  else none

/-- `size_of::<InterruptDescriptorTable>()`. -/
def tableSize : Nat := (tableLayout.map (·.size)).getD 0

/-- Byte offset of the field at position `idx` of the table. -/
def fieldOffset (idx : Nat) : Option Nat :=
  tableLayout.bind (fun l => l.offsets[idx]?.map (·.2))

def fieldLen (idx : Nat) : Nat := (Generated.Idt.fields[idx]?.map (·.len)).getD 0

def fieldIdx (name : String) : Option Nat := Generated.Idt.fields.findIdx? (fun f => f.name == name)

/-- Byte offset of the named field (the access path `idt.<name>`). -/
def namedFieldOffset (name : String) : Option Nat := (fieldIdx name).bind fieldOffset

/-- The field covering the 16-byte slot at byte offset `16·k`, by position: (field index, element). -/
def fieldOfSlot (k : Nat) : Option (Nat × Nat) :=
  let rec go (fs : List Field) (idx start : Nat) : Option (Nat × Nat) :=
    match fs with
    | [] => none
    | f :: rest => if k < start + f.len then some (idx, k - start) else go rest (idx + 1) (start + f.len)
  go Generated.Idt.fields 0 0

/-! ### `EntryOptions` and `Entry<F>` -/

structure EntryOptions where
  cs : BitVec 16
  bits : BitVec 16
  deriving DecidableEq, Repr

structure Entry where
  pointer_low : BitVec 16
  options : EntryOptions
  pointer_middle : BitVec 16
  pointer_high : BitVec 32
  reserved : BitVec 32
  deriving DecidableEq, Repr

def lookupNat (l : List (String × Nat)) (n : String) : Nat := ((l.find? (fun p => p.1 == n)).map (·.2)).getD 0

/-- `EntryOptions::minimal()`. -/
def EntryOptions.minimal : EntryOptions :=
  { cs := BitVec.ofNat 16 (lookupNat Generated.Idt.minimal "cs"),
    bits := BitVec.ofNat 16 (lookupNat Generated.Idt.minimal "bits") }

def EntryOptions.getField (o : EntryOptions) : String → Option (BitVec 16)
  | "cs" => some o.cs
  | "bits" => some o.bits
  | _ => none

def EntryOptions.setField (o : EntryOptions) (name : String) (v : BitVec 16) : Option EntryOptions :=
  match name with
  | "cs" => some { o with cs := v }
  | "bits" => some { o with bits := v }
  | _ => none

def ofBool (b : Bool) : BitVec 16 := if b then 1#16 else 0#16

/-- One generated option setter applied to argument `arg` (a `bool` as 0/1, a `PrivilegeLevel` as its
discriminant, a `u16` as itself): evaluate the value expression, then `set_bit`/`set_bits` on the
named field. `arg + N` is `u16` addition: overflow panics in a checked build and wraps otherwise. -/
def applyBitSetter (cfg : Cfg) (s : BitSetter) (o : EntryOptions) (arg : BitVec 16) : R EntryOptions :=
  let val : R (BitVec 16) :=
    match s.form with
    | "arg" => .ok arg
    | "not" => .ok (ofBool (arg == 0#16))
    | "add" =>
      if BitVec.uaddOverflow arg (BitVec.ofNat 16 s.addend) && cfg.ovf then .panic
      else .ok (arg + BitVec.ofNat 16 s.addend)
    | _ => .panic
  match val, o.getField s.field with
  | .ok v, some x =>
    match (if s.single then setBit x s.lo (v != 0#16) else setBits x s.lo s.hi v) with
    | .ok x' => R.ofOption (o.setField s.field x')
    | .panic => .panic
  | _, _ => .panic

/-- The calls a user can make on an entry (after `missing()`), with their arguments. -/
inductive Op where
  /-- `set_handler_addr(a)` while `CS::get_reg()` returns `cs` -/
  | setHandlerAddr (a : BitVec 64) (cs : BitVec 16)
  | setPresent (b : Bool)
  | disableInterrupts (b : Bool)
  /-- `set_privilege_level(PrivilegeLevel::Ring<d>)` -/
  | setPrivilegeLevel (d : BitVec 2)
  | setStackIndex (i : BitVec 16)
  | setCodeSelector (s : BitVec 16)
  deriving DecidableEq, Repr

/-- `set_code_selector(cs)`: `self.<codeSelectorField> = cs`. -/
def EntryOptions.setCodeSelector (o : EntryOptions) (s : BitVec 16) : R EntryOptions :=
  R.ofOption (o.setField Generated.Idt.codeSelectorField s)

def EntryOptions.setPresent (cfg : Cfg) (o : EntryOptions) (b : Bool) : R EntryOptions :=
  applyBitSetter cfg Generated.Idt.set_present o (ofBool b)
def EntryOptions.disableInterrupts (cfg : Cfg) (o : EntryOptions) (b : Bool) : R EntryOptions :=
  applyBitSetter cfg Generated.Idt.disable_interrupts o (ofBool b)
/-- `dpl as u16`: `PrivilegeLevel::Ring<d>` has discriminant `d` (C19: `PrivilegeLevel_Ring0..3`). -/
def EntryOptions.setPrivilegeLevel (cfg : Cfg) (o : EntryOptions) (d : BitVec 2) : R EntryOptions :=
  applyBitSetter cfg Generated.Idt.set_privilege_level o (d.setWidth 16)
def EntryOptions.setStackIndex (cfg : Cfg) (o : EntryOptions) (i : BitVec 16) : R EntryOptions :=
  applyBitSetter cfg Generated.Idt.set_stack_index o i

def missingLit (n : String) : Nat :=
  ((Generated.Idt.missingInit.find? (fun p => p.1 == n && p.2.1 == "lit")).map (·.2.2)).getD 0

/-- `Entry::missing()`. -/
def Entry.missing : Entry :=
  { pointer_low := BitVec.ofNat 16 (missingLit "pointer_low"),
    options := EntryOptions.minimal,
    pointer_middle := BitVec.ofNat 16 (missingLit "pointer_middle"),
    pointer_high := BitVec.ofNat 32 (missingLit "pointer_high"),
    reserved := BitVec.ofNat 32 (missingLit "reserved") }

/-- `set_handler_addr(addr)`: the three pointer parts (`addr as u16`, `(addr >> 16) as u16`,
`(addr >> 32) as u32`), then `options = minimal(); set_code_selector(CS::get_reg()); set_present(true)`.
`cs` is the value `CS::get_reg()` returned. `reserved` is not written. -/
def Entry.setHandlerAddr (cfg : Cfg) (e : Entry) (a : BitVec 64) (cs : BitVec 16) : R Entry :=
  match (EntryOptions.minimal.setCodeSelector cs).bind (fun o => o.setPresent cfg true) with
  | .ok o =>
    .ok { e with pointer_low := a.setWidth 16, pointer_middle := (a >>> 16).setWidth 16,
                 pointer_high := (a >>> 32).setWidth 32, options := o }
  | .panic => .panic

/-- `handler_addr()`: `VirtAddr::new_truncate(low | middle << 16 | high << 32)` (sign extension of bit 47). -/
def Entry.handlerAddr (e : Entry) : BitVec 64 :=
  let addr := e.pointer_low.setWidth 64 ||| (e.pointer_middle.setWidth 64 <<< 16) ||| (e.pointer_high.setWidth 64 <<< 32)
  (addr.extractLsb' 0 48).signExtend 64

def Entry.applyOp (cfg : Cfg) (e : Entry) : Op → R Entry
  | .setHandlerAddr a cs => e.setHandlerAddr cfg a cs
  | .setPresent b => (e.options.setPresent cfg b).map (fun o => { e with options := o })
  | .disableInterrupts b => (e.options.disableInterrupts cfg b).map (fun o => { e with options := o })
  | .setPrivilegeLevel d => (e.options.setPrivilegeLevel cfg d).map (fun o => { e with options := o })
  | .setStackIndex i => (e.options.setStackIndex cfg i).map (fun o => { e with options := o })
  | .setCodeSelector s => (e.options.setCodeSelector s).map (fun o => { e with options := o })

/-- A history of calls on one entry, continuing after a caught panic (the entry is then unchanged:
every assertion precedes the write). Returns the entry after every call and whether the call returned. -/
def Entry.run (cfg : Cfg) (e : Entry) : List Op → List (Bool × Entry)
  | [] => []
  | op :: rest =>
    match e.applyOp cfg op with
    | .ok e' => (true, e') :: Entry.run cfg e' rest
    | .panic => (false, e) :: Entry.run cfg e rest

def Entry.final (cfg : Cfg) (e : Entry) (ops : List Op) : Entry :=
  ops.foldl (fun e op => match e.applyOp cfg op with | .ok e' => e' | .panic => e) e

/-! ### Memory image of an entry: the fields at their `repr(C)` offsets, little-endian -/

/-- OR the zero-extended field values, each shifted to its byte offset. -/
def assemble (val : String → Option (BitVec 128)) (offs : List (String × Nat)) : BitVec 128 :=
  offs.foldr (fun p acc => (((val p.1).getD 0#128) <<< (8 * p.2)) ||| acc) 0#128

def EntryOptions.fieldVal (o : EntryOptions) (n : String) : Option (BitVec 128) :=
  (o.getField n).map (·.setWidth 128)

def EntryOptions.toBits (o : EntryOptions) : BitVec 128 :=
  assemble o.fieldVal ((optsLayout.map (·.offsets)).getD [])

def Entry.fieldVal (e : Entry) : String → Option (BitVec 128)
  | "pointer_low" => some (e.pointer_low.setWidth 128)
  | "options" => some e.options.toBits
  | "pointer_middle" => some (e.pointer_middle.setWidth 128)
  | "pointer_high" => some (e.pointer_high.setWidth 128)
  | "reserved" => some (e.reserved.setWidth 128)
  | "phantom" => some 0#128
  | _ => none

/-- The 16 bytes of an entry as one little-endian 128-bit word. -/
def Entry.toBits (e : Entry) : BitVec 128 :=
  assemble e.fieldVal ((entryLayout.map (·.offsets)).getD [])

def offsetIn (l : Option Layout) (n : String) : Nat :=
  ((l.bind (fun l => l.offsets.find? (fun p => p.1 == n))).map (·.2)).getD 0

def EntryOptions.ofBits (w : BitVec 128) : EntryOptions :=
  { cs := (w >>> (8 * offsetIn optsLayout "cs")).setWidth 16,
    bits := (w >>> (8 * offsetIn optsLayout "bits")).setWidth 16 }

/-- Reading an entry out of 16 raw bytes (what `&table[..]` does to memory written by someone else). -/
def Entry.ofBits (w : BitVec 128) : Entry :=
  { pointer_low := (w >>> (8 * offsetIn entryLayout "pointer_low")).setWidth 16,
    options := EntryOptions.ofBits (w >>> (8 * offsetIn entryLayout "options")),
    pointer_middle := (w >>> (8 * offsetIn entryLayout "pointer_middle")).setWidth 16,
    pointer_high := (w >>> (8 * offsetIn entryLayout "pointer_high")).setWidth 32,
    reserved := (w >>> (8 * offsetIn entryLayout "reserved")).setWidth 32 }

/-! ### Access paths into the table: each returns the byte offset (from the table's address) it reaches -/

def armMatches (a : Arm) (v : Nat) : Bool := a.pats.any (fun p => p.1 ≤ v && v ≤ p.2)

/-- `match index { .. }`: the first arm whose pattern matches. -/
def lookupArm (arms : List Arm) (v : Nat) : Option Target := (arms.find? (armMatches · v)).map (·.target)

/-- `idt[v]` through the given arm list. `&self.f[usize::from(i) - sub]`: the subtraction underflows
only for `i < sub` (panic in a checked build, a huge index — hence the bounds-check panic — otherwise). -/
def indexWith (arms : List Arm) (v : Nat) : R Nat :=
  match lookupArm arms v with
  | some (.field _ idx) => R.ofOption (fieldOffset idx)
  | some (.elem _ idx sub) =>
    if sub ≤ v ∧ v - sub < fieldLen idx then (R.ofOption (fieldOffset idx)).map (· + (v - sub) * entrySize)
    else .panic
  | some (.panic _ _) => .panic
  | none => .panic

/-- `Index<u8>::index`. -/
def index (v : Nat) : R Nat := indexWith Generated.Idt.indexArms v
/-- `IndexMut<u8>::index_mut`. -/
def indexMut (v : Nat) : R Nat := indexWith Generated.Idt.indexMutArms v

/-- The reason stated by the panic message of a refusing arm (the translator looks for the three wordings). -/
def refusalOfReason (reason : String) : Option Spec.Refusal :=
  if reason == "reserved" then some .reserved
  else if reason == "error code" then some .errorCode
  else if reason == "diverging" then some .diverging
  else none

def boundIdx (c : Nat × Nat × Nat) : Spec.Bound → Nat
  | .included v => v + c.1
  | .excluded v => v + c.2.1
  | .unbounded => c.2.2

/-- `condition_slice_bounds(bounds)`; `usize` additions of a `u8` cannot overflow. -/
def conditionSliceBounds (lo hi : Spec.Bound) : R (Nat × Nat) :=
  let lower := boundIdx Generated.Idt.sliceStart lo
  let upper := boundIdx Generated.Idt.sliceEnd hi
  if lower < Generated.Idt.sliceMinLower then .panic else .ok (lower, upper)

/-- `&self.<f>[(lower_idx - a)..(upper_idx - b)]`: `usize` subtractions (panic/wrap by build profile),
then slice indexing (panics unless `start ≤ end ≤ len`). Result: (byte offset of the first element —
also for an empty slice —, number of elements). -/
def sliceRange (cfg : Cfg) (body : String × Nat × Nat × Nat) (lower upper : Nat) : R (Nat × Nat) :=
  (subU64 cfg lower body.2.2.1).bind fun s =>
  (subU64 cfg upper body.2.2.2).bind fun e =>
    if s ≤ e ∧ e ≤ fieldLen body.2.1 then
      (R.ofOption (fieldOffset body.2.1)).map (fun off => (off + s * entrySize, e - s))
    else .panic

def sliceWith (body : String × Nat × Nat × Nat) (cfg : Cfg) (lo hi : Spec.Bound) : R (Nat × Nat) :=
  (conditionSliceBounds lo hi).bind fun lu => sliceRange cfg body lu.1 lu.2

/-- `slice(bounds)` and every `Index<R>` for a range type `R` (which call it). -/
def slice (cfg : Cfg) (lo hi : Spec.Bound) : R (Nat × Nat) := sliceWith Generated.Idt.sliceBody cfg lo hi
/-- `slice_mut(bounds)` and every `IndexMut<R>`. -/
def sliceMut (cfg : Cfg) (lo hi : Spec.Bound) : R (Nat × Nat) := sliceWith Generated.Idt.sliceMutBody cfg lo hi

/-! ### The table as a value: one entry per 16-byte slot -/

structure Table where
  slots : List Entry
  deriving DecidableEq, Repr

/-- `InterruptDescriptorTable::new()`: every field `Entry::missing()` / `[Entry::missing(); N]`
(a field initialised otherwise contributes no slots: the length theorem then fails). -/
def Table.new : Table :=
  ⟨Generated.Idt.newInit.flatMap (fun f => if f.2.1 == "missing" then List.replicate f.2.2 Entry.missing else [])⟩

/-- `reset()`: `*self = Self::new()`. -/
def Table.reset (_t : Table) : Table := Table.new

/-- The entry at byte offset `off` (a multiple of the entry size). -/
def Table.getAt (t : Table) (off : Nat) : Option Entry :=
  if entrySize ≠ 0 ∧ off % entrySize = 0 then t.slots[off / entrySize]? else none

def Table.setAt (t : Table) (off : Nat) (e : Entry) : Table :=
  if entrySize ≠ 0 ∧ off % entrySize = 0 then ⟨t.slots.set (off / entrySize) e⟩ else t

/-- Memory image: the slots' 16-byte words in order. -/
def Table.image (t : Table) : List (BitVec 128) := t.slots.map Entry.toBits

/-! ### `pointer()`, `load()` / `load_unsafe()` -/

/-- `pointer()`: `base: VirtAddr::new(self as *const _ as u64)` (panics on a non-canonical address),
`limit: (size_of::<Self>() - 1) as u16`. `base` is the table's address. -/
def pointer (cfg : Cfg) (base : Nat) : R (BitVec 16 × BitVec 64) :=
  match VirtAddr.new base, subU64 cfg tableSize 1 with
  | .ok b, .ok l => .ok (BitVec.ofNat 16 l, BitVec.ofNat 64 b)
  | _, _ => .panic

/-- `load_unsafe()` (and `load()`, which calls it): `lidt(&self.pointer())` — one `lidt` whose
memory operand holds (limit, base). -/
def load (cfg : Cfg) (base : Nat) : M Unit :=
  match pointer cfg base with
  | .ok (l, b) => do let _ ← M.insn (.lidt l b); pure ()
  | .panic => M.panic

end X86.Idt
