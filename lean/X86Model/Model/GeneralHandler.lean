/-
Model for C13: `set_general_handler!` (src/structures/idt.rs) as an interpreter of the tables the
translator re-extracts from the macro source on every run (Generated/GeneralHandler.lean).

The Rust side is three `macro_rules!` and no run-time logic beyond `range.contains(&IDX)`, so the
model is deliberately a table interpreter: it contains no vector number, field name or offset of its
own. What it adds is the *meaning* of the extracted text:

  * `expand`/`visited`    the bit recursion of `set_general_handler_recursive_bits!`
  * `idxOf`               `const IDX: u8 = $bit0 | ($bit1 << 1) | ...`
  * `selectArm`           first-match semantics of `macro_rules!` on the eight literal bits
  * `fieldSlot`           `#[repr(C)]` layout of `InterruptDescriptorTable` (16-byte entries)
  * `indexMut`            `impl IndexMut<u8>` (used by the catch-all arm's `$idt[$idx]`)
  * `effect`              what one expansion of `set_general_handler_entry!` does when executed
  * `install`             the expansion of `set_general_handler!` run on a table
  * `Stub.enter/exit`     the `extern "x86-interrupt"` stub entered with a stack image
  * `frameValueIretq`     `InterruptStackFrameValue::iretq`

Hardware pieces (`Frame`, `Resume`, the `iretq` instruction) come from Spec/ExceptionTable.lean in the
same way other models take instruction semantics from Spec/Insn.lean; the architectural vector
table of the spec is NOT used here.
-/
import X86Model.Base
import X86Model.Generated.GeneralHandler
import X86Model.Spec.ExceptionTable

namespace X86.GH
open X86 X86.Generated.GH
open X86.Spec.Exc (Frame Resume Report)

/-! ## `set_general_handler_recursive_bits!` -/

/-- `macro_rules!` tries the arms in order: the eight-bit arm only stops the recursion if it comes
before the recursive arm (which matches any number of bits). -/
def eightFirst : Bool := recEightArmPos < recRecursiveArmPos

/-- The bit lists for which the eight-bit arm is reached, in expansion order: the recursive arm
calls itself once per appended literal, each time with that literal added behind the bits collected
so far. (`fuel` bounds the recursion depth; rustc's recursion limit plays that role.) -/
def expand : Nat → List Nat → List (List Nat)
  | 0, bits => if eightFirst && bits.length == 8 then [bits] else []
  | fuel + 1, bits =>
    if eightFirst && bits.length == 8 then [bits]
    else recAppended.flatMap (fun b => expand fuel (bits ++ [b]))

/-- `set_general_handler!` starts the recursion with no bits. -/
def visited : List (List Nat) := expand 8 []

/-- Value bound to `$bit<n>` by the eight-bit arm's matcher (fragments are matched positionally). -/
def bitVal (bits : List Nat) (n : Nat) : Nat := bits.getD (recMatcherBits.idxOf n) 0

/-- `const IDX: u8 = ...`. -/
def idxOf (bits : List Nat) : Nat :=
  recIdxTerms.foldl (fun acc t => acc ||| (bitVal bits t.1 <<< t.2)) 0

/-- The literal bits handed to `set_general_handler_entry!` behind `IDX`. -/
def entryArgs (bits : List Nat) : List Nat := recEntryBits.map (bitVal bits)

/-! ## `set_general_handler_entry!` -/

/-- First arm whose matcher accepts the eight literal bits. -/
def selectArm (args : List Nat) : Option Arm :=
  arms.find? (fun a => a.catchAll || a.bits == args)

/-- Entry number (byte offset / 16) of a field of `InterruptDescriptorTable`: `#[repr(C)]` lays the
fields out in declaration order and every `Entry<F>` is 16 bytes. -/
def fieldSlotAux : List (String × String × Nat × Bool) → Nat → String → Option Nat
  | [], _, _ => none
  | (n, _, len, _) :: rest, acc, name =>
    if n == name then some acc else fieldSlotAux rest (acc + len) name

def fieldSlot (name : String) : Option Nat := fieldSlotAux idtFields 0 name

def fieldInfo (name : String) : Option (String × Nat) :=
  (idtFields.find? (fun f => f.1 == name)).map (fun f => (f.2.1, f.2.2.1))

/-- Total number of entries of the table. -/
def tableEntries : Nat := idtFields.foldl (fun acc f => acc + f.2.2.1) 0

/-- `(has error-code parameter, typed error code, diverging)` of a handler type alias. -/
def handlerType (ty : String) : Option (Bool × Bool × Bool) :=
  (handlerTypes.find? (fun h => h.1 == ty)).map (fun h => (h.2.1, h.2.2.1 == "PageFaultErrorCode", h.2.2.2))

/-- The harness' numbering of handler kinds: 1 error code, 2 typed error code, 4 diverging. -/
def kindNumber (k : Bool × Bool × Bool) : Nat :=
  (if k.1 then 1 else 0) + (if k.2.1 then 2 else 0) + (if k.2.2 then 4 else 0)

/-- `impl IndexMut<u8> for InterruptDescriptorTable`: the entry number `idt[i]` refers to, or panic. -/
def indexMut (i : Nat) : R Nat :=
  match indexMutArms.find? (fun a => a.1.any (fun p => p.1 ≤ i && i ≤ p.2)) with
  | none => .panic
  | some (_, field, k, isArr, panics) =>
    if panics then .panic
    else match fieldSlot field, fieldInfo field with
      | some s, some (_, len) =>
        if isArr then (if k ≤ i && i - k < len then .ok (s + (i - k)) else .panic) else .ok s
      | _, _ => .panic

/-- An installed stub, as far as its behaviour goes. -/
structure Stub where
  /-- the `index` it hands to the general handler -/
  index : Nat
  /-- it has an `error_code` parameter (the x86-interrupt ABI takes it from the top of the stack) -/
  takesErr : Bool
  /-- it hands `Some(error code)` to the general handler (`None` otherwise) -/
  passesErr : Bool
  /-- declared `-> !` -/
  diverging : Bool
  /-- `panic!` after the general handler returned -/
  panicsAfter : Bool
  deriving DecidableEq, Repr

/-- Executing the expansion of `set_general_handler_entry!($idt, $handler, IDX, bits..)`:
`none` = nothing is written; `some (slot, stub)` = entry `slot` gets `stub`; panic = `$idt[$idx]`
refused the index. (`$idx` is bound to `IDX`; `.into()` is the identity `u8 -> u8`;
`Some(error_code.bits())` passes the raw value like `Some(error_code)`.) -/
def effect (bits : List Nat) : R (Option (Nat × Stub)) :=
  let idx := idxOf bits
  match selectArm (entryArgs bits) with
  | none => .panic
  | some arm =>
    if arm.empty then .ok none
    else
      let stub : Stub :=
        { index := idx, takesErr := arm.hasErrParam, passesErr := arm.errArg != "None",
          diverging := arm.diverging, panicsAfter := arm.panicsAfter }
      if arm.target == "[]" then (indexMut idx).map (fun s => some (s, stub))
      else (R.ofOption (fieldSlot arm.target)).map (fun s => some (s, stub))

/-- Every expansion of the eight-bit arm: (IDX, what executing the entry macro does), in order. -/
def effects : List (Nat × R (Option (Nat × Stub))) := visited.map (fun b => (idxOf b, effect b))

/-- Is the stub's signature the handler type of the field it is installed in? (rustc checks this:
`set_handler_fn` takes the field's `F`.) -/
def armTypeChecks (bits : List Nat) : Bool :=
  match selectArm (entryArgs bits) with
  | none => false
  | some arm =>
    if arm.empty then true
    else
      let want := (arm.hasErrParam, arm.errParamType == "PageFaultErrorCode", arm.diverging)
      let fieldTy := if arm.target == "[]" then some "HandlerFunc" else (fieldInfo arm.target).map (·.1)
      match fieldTy.bind handlerType with
      | some k => k == want
      | none => false

/-! ## Ranges (`core::ops::RangeBounds<u8>::contains`) -/

inductive RangeArg where
  | excl (lo hi : Nat)     -- `lo..hi`
  | incl (lo hi : Nat)     -- `lo..=hi`
  | from (lo : Nat)        -- `lo..`
  | to (hi : Nat)          -- `..hi`
  | toIncl (hi : Nat)      -- `..=hi`
  | full                   -- `..`
  deriving DecidableEq, Repr

def RangeArg.contains : RangeArg → Nat → Bool
  | .excl lo hi, v => lo ≤ v && v < hi
  | .incl lo hi, v => lo ≤ v && v ≤ hi
  | .from lo, v => lo ≤ v
  | .to hi, v => v < hi
  | .toIncl hi, v => v ≤ hi
  | .full, _ => true

/-- The three forms of `set_general_handler!`. -/
inductive Form where
  | whole
  | single (i : Nat)
  | range (r : RangeArg)
  deriving DecidableEq, Repr

/-- A forwarded bound: `(0, n)` literal, `(1, _)` the single-index form's `$idx`, `(2, _)` absent. -/
def bound (b : Nat × Nat) (arg : Nat) : Option Nat :=
  if b.1 == 0 then some b.2 else if b.1 == 1 then some arg else none

def rangeOf (src : String × (Nat × Nat) × (Nat × Nat)) (arg : Nat) : Option RangeArg :=
  let incl := src.1 == "..="
  if !incl && src.1 != ".." then none
  else match bound src.2.1 arg, bound src.2.2 arg with
    | some lo, some hi => some (if incl then .incl lo hi else .excl lo hi)
    | some lo, none => if incl then none else some (.from lo)
    | none, some hi => some (if incl then .toIncl hi else .to hi)
    | none, none => if incl then none else some .full

/-- The range each form hands to the recursive macro. -/
def Form.toRange : Form → Option RangeArg
  | .whole => rangeOf formWhole 0
  | .single i => rangeOf formSingle i
  | .range r => if formRange == "$range" then some r else none

/-! ## Installation -/

/-- A table as the *difference* an installation makes: `none` = entry untouched. -/
abbrev Delta := Array (Option Stub)

def Delta.empty : Delta := Array.replicate 256 none

def step (r : RangeArg) (t : Delta) (e : Nat × R (Option (Nat × Stub))) : R Delta :=
  if r.contains e.1 then
    match e.2 with
    | .panic => .panic
    | .ok none => .ok t
    | .ok (some (slot, s)) => .ok (t.setIfInBounds slot (some s))
  else .ok t

def foldR {α β : Type} (f : β → α → R β) : β → List α → R β
  | b, [] => .ok b
  | b, a :: as => match f b a with
    | .ok b' => foldR f b' as
    | .panic => .panic

/-- `set_general_handler!(idt, h, range)`: the 256 guarded expansions run in order. -/
def install (r : RangeArg) : R Delta := foldR (step r) Delta.empty effects

def installForm (f : Form) : R Delta :=
  match f.toRange with
  | some r => install r
  | none => .panic

/-! ## The interrupt stack frame value -/

def alignUp (n a : Nat) : Nat := if a == 0 then n else (n + a - 1) / a * a

/-- `#[repr(C)]`: each field at the next multiple of its alignment. `(name, offset, size)`. -/
def layoutAux : List (String × String × Nat × Nat × Bool) → Nat → List (String × Nat × Nat)
  | [], _ => []
  | (n, _, size, align, _) :: rest, cur =>
    let off := alignUp cur align
    (n, off, size) :: layoutAux rest (off + size)

def frameLayout : List (String × Nat × Nat) := if frameReprC then layoutAux frameFields 0 else []

def frameValueSize : Nat :=
  let endOff := frameLayout.foldl (fun _ f => f.2.1 + f.2.2) 0
  alignUp endOff (frameFields.foldl (fun m f => max m f.2.2.2.1) 1)

def fieldAt (name : String) : Option (Nat × Nat) :=
  (frameLayout.find? (fun f => f.1 == name)).map (·.2)

/-- Read a field of the frame value lying over a stack image of 8-byte words. -/
def readField (words : List Nat) (name : String) : Option Nat :=
  match fieldAt name with
  | none => none
  | some (off, size) =>
    match words[off / 8]? with
    | none => none
    | some w => some (w / 2 ^ (8 * (off % 8)) % 2 ^ (8 * size))

/-- The frame the general handler reads through the public fields (named by their meaning). -/
def decodeFrame (words : List Nat) : Option Frame :=
  match readField words "instruction_pointer", readField words "code_segment",
        readField words "cpu_flags", readField words "stack_pointer", readField words "stack_segment" with
  | some rip, some cs, some fl, some rsp, some ss =>
    if frameWrapperTransparent && frameWrapperInner == "InterruptStackFrameValue" then
      some ⟨rip, cs, fl, rsp, ss⟩
    else none
  | _, _, _, _, _ => none

def frameField (f : Frame) (name : String) : Option Nat :=
  if name == "instruction_pointer" then some f.rip
  else if name == "code_segment" then some f.cs
  else if name == "cpu_flags" then some f.rflags
  else if name == "stack_pointer" then some f.rsp
  else if name == "stack_segment" then some f.ss
  else none

/-- `InterruptStackFrameValue::iretq`: the `push`es of the asm template, then the instruction. -/
def iretqRun (f : Frame) : List (String × String) → List Nat → Option Resume
  | [], _ => none
  | (op, name) :: rest, stack =>
    if op == "push" then
      match (iretqOperands.find? (fun o => o.1 == name)).bind (fun o => frameField f o.2.1) with
      | some v => iretqRun f rest (v :: stack)
      | none => none
    else if op == "iretq" then X86.Spec.Exc.iretq stack
    else none

def frameValueIretq (f : Frame) : Option Resume := iretqRun f iretqSteps []

/-! ## A stub entered with a stack image -/

/-- How a delivery ends for the interrupted program. -/
inductive Exit where
  | resumed (r : Resume)
  /-- the stub panicked (`panic!("General handler returned ...")`) -/
  | panicked
  /-- nothing sensible (stack too short, a `-> !` stub without panic) -/
  | stuck
  deriving DecidableEq, Repr

/-- Entering the stub: the x86-interrupt ABI hands it the error code from the top of the stack when
it declares that parameter, and the frame behind it. Result: what the general handler is called
with and the stack as the stub's epilogue will see it (error code removed). -/
def Stub.enter (s : Stub) (stack : List Nat) : Option (Report × List Nat) :=
  let perr : Option (Option Nat × List Nat) :=
    if s.takesErr then
      match stack with
      | e :: rest => some (some e, rest)
      | [] => none
    else some (none, stack)
  match perr with
  | none => none
  | some (err, rest) =>
    match decodeFrame rest with
    | none => none
    | some fr => some (⟨s.index, fr, if s.passesErr then err else none⟩, rest)

/-- The general handler returned: a diverging stub panics, the others `iretq`. -/
def Stub.exitReturn (s : Stub) (frameStack : List Nat) : Exit :=
  if s.panicsAfter then .panicked
  else if s.diverging then .stuck
  else match X86.Spec.Exc.iretq frameStack with
    | some r => .resumed r
    | none => .stuck

/-- The general handler left through `InterruptStackFrameValue::iretq` on the frame it was given. -/
def exitByIretq (rep : Report) : Exit :=
  match frameValueIretq rep.frame with
  | some r => .resumed r
  | none => .stuck

/-- One delivery: stack image in, (report, exit) out. -/
def Stub.deliver (s : Stub) (stack : List Nat) (leaveByIretq : Bool) : Option (Report × Exit) :=
  match s.enter stack with
  | none => none
  | some (rep, rest) => some (rep, if leaveByIretq then exitByIretq rep else s.exitReturn rest)

end X86.GH
