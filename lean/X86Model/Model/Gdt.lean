/-
Model of /repo/src/structures/gdt.rs: `DescriptorFlags` and its presets, `Descriptor`
(constructors, `dpl`, `tss_segment_unchecked`), `SegmentSelector::new`
(/repo/src/registers/segmentation.rs), `PrivilegeLevel::from_u16` (/repo/src/lib.rs) and
`GlobalDescriptorTable<MAX>` (`empty`, `from_raw_entries`, `entries`, `append`, `push`, `limit`,
`pointer`, `load`). Transcribed as the code is.
-/
import X86Model.Base
import X86Model.Model.BitField
import X86Model.Model.Tss

namespace X86

/-! ### `bitflags! struct DescriptorFlags: u64` -/
namespace DescriptorFlags

def ACCESSED     : BitVec 64 := 1#64 <<< 40            -- GENERATED-CANDIDATE
def WRITABLE     : BitVec 64 := 1#64 <<< 41            -- GENERATED-CANDIDATE
def CONFORMING   : BitVec 64 := 1#64 <<< 42            -- GENERATED-CANDIDATE
def EXECUTABLE   : BitVec 64 := 1#64 <<< 43            -- GENERATED-CANDIDATE
def USER_SEGMENT : BitVec 64 := 1#64 <<< 44            -- GENERATED-CANDIDATE
def DPL_RING_3   : BitVec 64 := 3#64 <<< 45            -- GENERATED-CANDIDATE
def PRESENT      : BitVec 64 := 1#64 <<< 47            -- GENERATED-CANDIDATE
def AVAILABLE    : BitVec 64 := 1#64 <<< 52            -- GENERATED-CANDIDATE
def LONG_MODE    : BitVec 64 := 1#64 <<< 53            -- GENERATED-CANDIDATE
def DEFAULT_SIZE : BitVec 64 := 1#64 <<< 54            -- GENERATED-CANDIDATE
def GRANULARITY  : BitVec 64 := 1#64 <<< 55            -- GENERATED-CANDIDATE
def LIMIT_0_15   : BitVec 64 := 0xFFFF#64              -- GENERATED-CANDIDATE
def LIMIT_16_19  : BitVec 64 := 0xF#64 <<< 48          -- GENERATED-CANDIDATE
def BASE_0_23    : BitVec 64 := 0xFFFFFF#64 <<< 16     -- GENERATED-CANDIDATE
def BASE_24_31   : BitVec 64 := 0xFF#64 <<< 56         -- GENERATED-CANDIDATE

/-- Every constant of the `bitflags!` block, in declaration order. -/
def consts : List (BitVec 64) :=
  [ACCESSED, WRITABLE, CONFORMING, EXECUTABLE, USER_SEGMENT, DPL_RING_3, PRESENT, AVAILABLE,
   LONG_MODE, DEFAULT_SIZE, GRANULARITY, LIMIT_0_15, LIMIT_16_19, BASE_0_23, BASE_24_31]

/-- `DescriptorFlags::all().bits()`. -/
def all : BitVec 64 := consts.foldl (· ||| ·) 0#64

/-- `DescriptorFlags::from_bits_truncate(bits).bits()`. -/
def fromBitsTruncate (bits : BitVec 64) : BitVec 64 := bits &&& all

/-- `const COMMON`. -/
def COMMON : BitVec 64 :=
  fromBitsTruncate (USER_SEGMENT ||| PRESENT ||| WRITABLE ||| ACCESSED ||| LIMIT_0_15 |||
    LIMIT_16_19 ||| GRANULARITY)
def KERNEL_DATA : BitVec 64 := fromBitsTruncate (COMMON ||| DEFAULT_SIZE)
def KERNEL_CODE32 : BitVec 64 := fromBitsTruncate (COMMON ||| EXECUTABLE ||| DEFAULT_SIZE)
def KERNEL_CODE64 : BitVec 64 := fromBitsTruncate (COMMON ||| EXECUTABLE ||| LONG_MODE)
def USER_DATA : BitVec 64 := fromBitsTruncate (KERNEL_DATA ||| DPL_RING_3)
def USER_CODE32 : BitVec 64 := fromBitsTruncate (KERNEL_CODE32 ||| DPL_RING_3)
def USER_CODE64 : BitVec 64 := fromBitsTruncate (KERNEL_CODE64 ||| DPL_RING_3)

end DescriptorFlags

/-- `PrivilegeLevel::from_u16`: the level as a number, panic above 3. -/
def GdtPrivilegeLevel.fromU16 (v : BitVec 16) : R (BitVec 16) :=
  if v == 0#16 then .ok 0#16 else if v == 1#16 then .ok 1#16 else if v == 2#16 then .ok 2#16
  else if v == 3#16 then .ok 3#16 else .panic

/-- `SegmentSelector::new(index, rpl)`: `SegmentSelector((index << 3) | (rpl as u16))`. -/
def GdtSelector.new (index : BitVec 16) (rpl : BitVec 16) : BitVec 16 := (index <<< 3) ||| rpl

/-- `enum Descriptor { UserSegment(u64), SystemSegment(u64, u64) }`. -/
inductive Descriptor where
  | user (value : BitVec 64)
  | system (low high : BitVec 64)
  deriving DecidableEq, Repr

namespace Descriptor

/-- `dpl(self)`: `PrivilegeLevel::from_u16(((value_low & DPL_RING_3.bits()) >> 45) as u16)`. -/
def dpl (d : Descriptor) : R (BitVec 16) :=
  let valueLow := match d with
    | .user v => v
    | .system v _ => v
  let dpl := (valueLow &&& DescriptorFlags.DPL_RING_3) >>> 45
  GdtPrivilegeLevel.fromU16 (dpl.setWidth 16)

def kernelCodeSegment : Descriptor := .user DescriptorFlags.KERNEL_CODE64
def kernelDataSegment : Descriptor := .user DescriptorFlags.KERNEL_DATA
def userDataSegment : Descriptor := .user DescriptorFlags.USER_DATA
def userCodeSegment : Descriptor := .user DescriptorFlags.USER_CODE64

/-- `tss_segment_unchecked(tss)` with `ptr = tss as u64`. `tss_segment(&'static tss)` is the same
function of the reference's address. -/
def tssSegment (ptr : BitVec 64) : R Descriptor := do
  let low := DescriptorFlags.PRESENT
  -- base
  let low ← BitField.setBits low 16 40 (← BitField.getBits ptr 0 24)
  let low ← BitField.setBits low 56 64 (← BitField.getBits ptr 24 32)
  -- limit: (size_of::<TaskStateSegment>() - 1) as u64
  let low ← BitField.setBits low 0 16 (BitVec.ofNat 64 (TaskStateSegment.SIZE_OF - 1))
  -- type (0b1001 = available 64-bit tss)
  let low ← BitField.setBits low 40 44 0b1001#64
  let high := 0#64
  let high ← BitField.setBits high 0 32 (← BitField.getBits ptr 32 64)
  return .system low high

end Descriptor

/-! ### `GlobalDescriptorTable<const MAX: usize>`

`struct { table: [Entry; MAX], len: usize }`; an `Entry` is its raw `u64`. The model keeps the
whole `table` array (a list of length `MAX`) and `len`. -/
structure Gdt where
  max : Nat
  table : List (BitVec 64)
  len : Nat
  deriving DecidableEq, Repr

namespace Gdt

/-- `empty()`: `assert!(MAX > 0)`, `assert!(MAX <= (1 << 13))`, `table: [NULL; MAX], len: 1`. -/
def empty (max : Nat) : R Gdt :=
  if ¬ (max > 0) then .panic
  else if ¬ (max ≤ 2^13) then .panic
  else .ok ⟨max, List.replicate max 0#64, 1⟩

/-- `from_raw_entries(slice)`: `Self::empty().table`, then the three assertions in source order
(`len > 0`, `slice[0] == 0`, `len <= MAX`), then copy. -/
def fromRawEntries (max : Nat) (slice : List (BitVec 64)) : R Gdt :=
  match empty max with
  | .panic => .panic
  | .ok e =>
    let len := slice.length
    if ¬ (len > 0) then .panic
    else if ¬ (slice.head? == some 0#64) then .panic
    else if ¬ (len ≤ max) then .panic
    else .ok ⟨max, slice ++ e.table.drop len, len⟩

/-- `entries(&self)`: `&self.table[..self.len]` (slice bounds check). -/
def entries (g : Gdt) : R (List (BitVec 64)) :=
  if g.len ≤ g.table.length then .ok (g.table.take g.len) else .panic

/-- `push(&mut self, value)`: `self.table[index] = Entry::new(value)` (bounds check, which
precedes the store), `self.len += 1`, returns the index. First component: `self` afterwards. -/
def push (g : Gdt) (value : BitVec 64) : Gdt × R Nat :=
  let index := g.len
  if index < g.table.length then (⟨g.max, g.table.set index value, g.len + 1⟩, .ok index)
  else (g, .panic)

/-- `append(&mut self, entry)`: the capacity test (`self.len > self.table.len().saturating_sub(n)`
→ panic), the pushes, then `SegmentSelector::new(index as u16, entry.dpl())`.
First component: `self` after the call (also when the call panics: mutations made before a panic
stay); second: the selector bits or the panic. -/
def append (g : Gdt) (entry : Descriptor) : Gdt × R (BitVec 16) :=
  let r : Gdt × R Nat :=
    match entry with
    | .user value =>
      if g.len > g.table.length - 1 then (g, .panic)     -- Nat `-` is `saturating_sub`
      else push g value
    | .system lo hi =>
      if g.len > g.table.length - 2 then (g, .panic)
      else
        match push g lo with
        | (g1, .panic) => (g1, .panic)
        | (g1, .ok index) =>
          match push g1 hi with
          | (g2, .panic) => (g2, .panic)
          | (g2, .ok _) => (g2, .ok index)
  match r with
  | (g', .panic) => (g', .panic)
  | (g', .ok index) =>
    match entry.dpl with
    | .panic => (g', .panic)
    | .ok rpl => (g', .ok (GdtSelector.new (BitVec.ofNat 16 index) rpl))

/-- A history of appends on one table (continuing after a caught panic, as a caller using
`catch_unwind` can): final table and the outcome of every call. -/
def appendAll (g : Gdt) : List Descriptor → Gdt × List (R (BitVec 16))
  | [] => (g, [])
  | d :: rest =>
    let (g', r) := append g d
    let (g'', rs) := appendAll g' rest
    (g'', r :: rs)

/-- `limit(&self)`: `(self.len * size_of::<u64>() - 1) as u16` (`usize` arithmetic: the
subtraction panics/wraps on underflow depending on the build profile; `as u16` truncates). -/
def limit (cfg : Cfg) (g : Gdt) : R (BitVec 16) :=
  match mulU64 cfg g.len 8 with
  | .panic => .panic
  | .ok m =>
    match subU64 cfg m 1 with
    | .panic => .panic
    | .ok v => .ok (BitVec.ofNat 16 v)

/-- `pointer(&self)`: `DescriptorTablePointer { base: VirtAddr::new(self.table.as_ptr() as u64),
limit: self.limit() }`; `tableAddr` is the address of `self.table`. `VirtAddr::new` panics on a
non-canonical address. -/
def pointer (cfg : Cfg) (g : Gdt) (tableAddr : Nat) : R (BitVec 16 × Nat) :=
  if tableAddr < 2^47 ∨ (2^64 - 2^47 ≤ tableAddr ∧ tableAddr < 2^64) then
    match limit cfg g with
    | .panic => .panic
    | .ok l => .ok (l, tableAddr)
  else .panic

/-- What `load`/`load_unsafe` do: `lgdt(&self.pointer())` — one `lgdt` instruction whose memory
operand is the 10-byte pointer (limit, base). -/
inductive Insn where
  | lgdt (limit : BitVec 16) (base : Nat)
  deriving DecidableEq, Repr

def load (cfg : Cfg) (g : Gdt) (tableAddr : Nat) : R (List Insn) :=
  match pointer cfg g tableAddr with
  | .panic => .panic
  | .ok (l, b) => .ok [.lgdt l b]

end Gdt

end X86
