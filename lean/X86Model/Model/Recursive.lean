/-
Model of the parts of `src/structures/paging/mapper/recursive_page_table.rs` that are specific to
the recursive mapper: the constructor `RecursivePageTable::new` and the computation of the
recursive addresses `p3_page` / `p2_page` / `p1_page` (the mapper operations themselves are
`Kind.recursive` of `Model/Mapper.lean`).

Addresses and indices are `Nat` (arithmetic model, `Model/Addr.lean`, `Model/Page.lean`); the CR3
value and page-table entries are raw 64-bit words (`Model/Pte.lean`).
-/
import X86Model.Model.Page
import X86Model.Model.Pte

namespace X86

namespace Recursive

/-- `InvalidPageTable`. -/
inductive NewErr where
  | notRecursive
  | notActive
  deriving DecidableEq, Repr

/-- `PhysFrame::containing_address(addr)`: `addr.align_down(4096)` on a raw word. -/
def frameContaining (a : Word) : Word := a &&& ~~~0xfff#64

/-- `Cr3::read().0`: `PhysFrame::containing_address(PhysAddr::new(value & 0x000f_ffff_ffff_f000))`
(the `PhysAddr::new` cannot panic: the mask clears bits 52..63). -/
def cr3Frame (cr3 : Word) : Word := frameContaining (cr3 &&& 0x000ffffffffff000#64)

/-- `PageTableEntry::frame()`: `Err(FrameNotPresent)` (= `none`) without `PRESENT`, else
`PhysFrame::containing_address(self.addr())`. -/
def entryFrame (e : Word) : Option Word :=
  if Pte.present e then some (frameContaining (Pte.addr e)) else none

/-- `RecursivePageTable::new(table)` as a function of the table reference's address `a`
(`table as *const _ as u64`), the raw CR3 value `cr3` (what `mov r, cr3` returns) and the table's
contents `tbl : index → entry`. Returns the recursive index the mapper will use.

    let page = Page::containing_address(VirtAddr::new(a));      -- `VirtAddr::new` panics on non-canonical `a`
    let recursive_index = page.p4_index();
    if page.p3_index() != recursive_index || page.p2_index() != … || page.p1_index() != …
        { return Err(InvalidPageTable::NotRecursive); }
    if Ok(Cr3::read().0) != table[recursive_index].frame()
        { return Err(InvalidPageTable::NotActive); }
    Ok(RecursivePageTable { p4: table, recursive_index })
-/
def new (a : Nat) (cr3 : Word) (tbl : Nat → Word) : R (Except NewErr Nat) :=
  (VirtAddr.new a).map fun va =>
    let page := Page.containingAddress size4K va
    let r := Page.p4Index page
    if Page.p3Index page ≠ r ∨ Page.p2Index page ≠ r ∨ Page.p1Index page ≠ r then .error .notRecursive
    else if some (cr3Frame cr3) ≠ entryFrame (tbl r) then .error .notActive
    else .ok r

/-- `p3_page(page, recursive_index)`:
`Page::from_page_table_indices(r, r, r, page.p4_index())` (any page size; `page` is the start address). -/
def p3Page (page r : Nat) : Nat := Page.fromIndices4K r r r (Page.p4Index page)

/-- `p2_page(page, recursive_index)`: `from_page_table_indices(r, r, page.p4_index(), page.p3_index())`. -/
def p2Page (page r : Nat) : Nat := Page.fromIndices4K r r (Page.p4Index page) (Page.p3Index page)

/-- `p1_page(page, recursive_index)`:
`from_page_table_indices(r, page.p4_index(), page.p3_index(), page.p2_index())`. -/
def p1Page (page r : Nat) : Nat :=
  Page.fromIndices4K r (Page.p4Index page) (Page.p3Index page) (Page.p2Index page)

end Recursive

end X86
