/-
The expression language of safe address-producing operations (C03): a program is any finite
composition of constructors, alignment calls, arithmetic operators, step operations and page /
frame operations; `eval` runs it on the models of Model/Addr.lean and Model/Page.lean.
`none` = no address was produced (panic, `None`, or `Err`).
-/
import X86Model.Model.Page

namespace X86

def R.toOption {α} : R α → Option α
  | .ok a => some a
  | .panic => none

/-- Programs producing a virtual address (or a page, identified with its start address). -/
inductive VProg where
  | new (a : Nat) | tryNew (a : Nat) | newTruncate (a : Nat) | zero | fromPtr (a : Nat)
  | alignUp (p : VProg) (al : Nat) | alignDown (p : VProg) (al : Nat)
  | add (p : VProg) (n : Nat) | sub (p : VProg) (n : Nat)
  | stepFwd (p : VProg) (n : Nat) | stepBwd (p : VProg) (n : Nat)
  | pageContaining (sz : Nat) (p : VProg) | pageFromStart (sz : Nat) (p : VProg)
  | pageAdd (sz : Nat) (p : VProg) (n : Nat) | pageSub (sz : Nat) (p : VProg) (n : Nat)
  | pageFwd (sz : Nat) (p : VProg) (n : Nat) | pageBwd (sz : Nat) (p : VProg) (n : Nat)
  | fromIdx4K (i4 i3 i2 i1 : Nat) | fromIdx2M (i4 i3 i2 : Nat) | fromIdx1G (i4 i3 : Nat)
  | handlerAddr (lo mid hi : Nat)      -- `Entry::handler_addr` of the three pointer fields
  | cr2Read (raw : Nat)                -- `Cr2::read` = `try_new(raw)`

namespace VProg
def eval (cfg : Cfg) : VProg → Option Nat
  | new a => (VirtAddr.new a).toOption
  | tryNew a => VirtAddr.tryNew a
  | newTruncate a => some (VirtAddr.newTruncate a)
  | zero => some VirtAddr.zero
  | fromPtr a => (VirtAddr.fromPtr a).toOption
  | alignUp p al => (eval cfg p).bind fun v => (VirtAddr.alignUp v al).toOption
  | alignDown p al => (eval cfg p).bind fun v => (VirtAddr.alignDown v al).toOption
  | add p n => (eval cfg p).bind fun v => (VirtAddr.add v n).toOption
  | sub p n => (eval cfg p).bind fun v => (VirtAddr.sub v n).toOption
  | stepFwd p n => (eval cfg p).bind fun v => VirtAddr.forwardCheckedU64 v n
  | stepBwd p n => (eval cfg p).bind fun v => VirtAddr.backwardCheckedU64 v n
  | pageContaining sz p => (eval cfg p).map (Page.containingAddress sz)
  | pageFromStart sz p => (eval cfg p).bind (Page.fromStartAddress sz)
  | pageAdd sz p n => (eval cfg p).bind fun v => (Page.add sz v n).toOption
  | pageSub sz p n => (eval cfg p).bind fun v => (Page.sub sz v n).toOption
  | pageFwd sz p n => (eval cfg p).bind fun v => Page.forwardChecked sz v n
  | pageBwd sz p n => (eval cfg p).bind fun v => Page.backwardChecked sz v n
  | fromIdx4K i4 i3 i2 i1 => some (Page.fromIndices4K i4 i3 i2 i1)
  | fromIdx2M i4 i3 i2 => some (Page.fromIndices2M i4 i3 i2)
  | fromIdx1G i4 i3 => some (Page.fromIndices1G i4 i3)
  | handlerAddr lo mid hi => some (VirtAddr.newTruncate (lo + mid * 2^16 + hi * 2^32))
  | cr2Read raw => VirtAddr.tryNew raw
end VProg

/-- Programs producing a physical address (or a frame, identified with its start address). -/
inductive PProg where
  | new (a : Nat) | tryNew (a : Nat) | newTruncate (a : Nat) | zero
  | alignUp (p : PProg) (al : Nat) | alignDown (p : PProg) (al : Nat)
  | add (p : PProg) (n : Nat) | sub (p : PProg) (n : Nat)
  | frameContaining (sz : Nat) (p : PProg) | frameFromStart (sz : Nat) (p : PProg)
  | frameAdd (sz : Nat) (p : PProg) (n : Nat) | frameSub (sz : Nat) (p : PProg) (n : Nat)
  | entryAddr (raw : Nat)              -- `PageTableEntry::addr` of a raw entry word

namespace PProg
def eval (cfg : Cfg) : PProg → Option Nat
  | new a => (PhysAddr.new a).toOption
  | tryNew a => PhysAddr.tryNew a
  | newTruncate a => some (PhysAddr.newTruncate a)
  | zero => some 0
  | alignUp p al => (eval cfg p).bind fun v => (PhysAddr.alignUp v al).toOption
  | alignDown p al => (eval cfg p).bind fun v => (PhysAddr.alignDown v al).toOption
  | add p n => (eval cfg p).bind fun v => (PhysAddr.add v n).toOption
  | sub p n => (eval cfg p).bind fun v => (PhysAddr.sub v n).toOption
  | frameContaining sz p => (eval cfg p).map (PhysFrame.containingAddress sz)
  | frameFromStart sz p => (eval cfg p).bind (PhysFrame.fromStartAddress sz)
  | frameAdd sz p n => (eval cfg p).bind fun v => (PhysFrame.add sz v n).toOption
  | frameSub sz p n => (eval cfg p).bind fun v => (PhysFrame.sub sz v n).toOption
  -- `PhysAddr::new(entry & 0x000f_ffff_ffff_f000)`: bits 12..51 of the word
  | entryAddr raw => (PhysAddr.new (raw % 2^52 / 4096 * 4096)).toOption
end PProg

end X86
