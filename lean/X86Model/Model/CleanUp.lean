/-
Model of `CleanUp::clean_up_addr_range` (both mapper families): the recursive helper
`clean_up(page_table, level, range)` transcribed literally — window `take(end+1).skip(start)`,
per-entry sub-range clamp, gap jump through `forward_checked`, free-if-empty, and for the
recursive mapper the recursive-slot and huge-entry skips.
-/
import X86Model.Model.Mapper
import X86Model.Model.Page

namespace X86

/-- `page_table.iter().all(PageTableEntry::is_unused)`: reads entries in order until the first
non-zero one. -/
def tableIsEmpty (s : St) (tbl : Word) : Bool × St :=
  let rec go (s : St) (i : Nat) (fuel : Nat) : Bool × St :=
    match fuel with
    | 0 => (true, s)
    | fuel + 1 =>
      let (e, s) := s.rd tbl i
      if Pte.isUnused e then go s (i + 1) fuel else (false, s)
  go s 0 512

/-- One call of the helper at `level` (4..1) on table `tbl` for the inclusive 4 KiB page range
`rs ..= re` (page start addresses). Returns "table is now empty". `rIdx` is the recursive index
(only used when `k.recursive`). -/
def cleanUpLevel (k : Kind) (rIdx : Nat) : (level : Nat) → St → Word → Nat → Nat → R Bool × St
  | 0, s, _, _, _ => (.panic, s)
  | level + 1, s, tbl, rs, re =>
    let lvl := level + 1
    if rs > re then (.ok false, s) else
    -- `range.start.start_address().align_down(level.table_address_space_alignment())`
    match VirtAddr.alignDown rs (PageTableLevel.tableAlign lvl) with
    | .panic => (.panic, s)
    | .ok tableAddr =>
    let startIdx := VirtAddr.pageTableIndex rs lvl
    let endIdx := VirtAddr.pageTableIndex re lvl
    if lvl = 1 then
      let (b, s) := tableIsEmpty s tbl
      (.ok b, s)
    else
      let off := PageTableLevel.entryAlign lvl
      -- `.enumerate().take(end + 1).skip(start)` (+ the recursive-slot filter at level 4)
      let idxs := (List.range (endIdx + 1)).drop startIdx
      let step : R Unit × St → Nat → R Unit × St := fun acc i =>
        match acc with
        | (.panic, s) => (.panic, s)
        | (.ok (), s) =>
          if k.recursive && lvl == 4 && i == rIdx then (.ok (), s) else
          let (e, s) := s.rd tbl i
          match nextTable e with
          | .error _ => (.ok (), s)
          | .ok child =>
            -- `forward_checked_impl(table_addr, offset_per_entry * i).unwrap()`
            match VirtAddr.forwardCheckedU64 tableAddr (off * i) with
            | none => (.panic, s)
            | some st0 =>
            -- `start + (offset_per_entry - 1)`
            match VirtAddr.add st0 (off - 1) with
            | .panic => (.panic, s)
            | .ok en0 =>
            let st1 := max (Page.containingAddress 4096 st0) rs
            let en1 := min (Page.containingAddress 4096 en0) re
            match cleanUpLevel k rIdx level s child st1 en1 with
            | (.panic, s) => (.panic, s)
            | (.ok false, s) => (.ok (), s)
            | (.ok true, s) =>
              -- `entry.set_unused(); deallocate_frame(frame)`
              let s := s.wr tbl i 0#64
              (.ok (), s.dealloc child)
      match idxs.foldl step (.ok (), s) with
      | (.panic, s) => (.panic, s)
      | (.ok (), s) =>
        let (b, s) := tableIsEmpty s tbl
        (.ok b, s)

/-- `clean_up_addr_range(range)`. -/
def cleanUpRange (k : Kind) (rIdx : Nat) (s : St) (p4 : Word) (rs re : Nat) : R Unit × St :=
  match cleanUpLevel k rIdx 4 s p4 rs re with
  | (.panic, s) => (.panic, s)
  | (.ok _, s) => (.ok (), s)

/-- `clean_up()` = the whole address space. -/
def cleanUpAll (k : Kind) (rIdx : Nat) (s : St) (p4 : Word) : R Unit × St :=
  cleanUpRange k rIdx s p4 0 0xfffffffffffff000

end X86
