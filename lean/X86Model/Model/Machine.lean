/-
The monad in which the instruction wrappers are transcribed: Rust-level glue that may panic
(`R`), running over the abstract machine of `Spec/Insn.lean` (state `Cpu`), and logging every
instruction it issues. `insn i` is "the `asm!` block executes instruction `i`": it applies the
manual's `step` to the register file, appends `i` to the trace and returns the result registers.

A wrapper's model is therefore: its Rust glue + the instructions it issues. The machine
vocabulary (`Cpu`, `Insn`, `step`) is the specification side and is only *used* here.
-/
import X86Model.Base
import X86Model.Spec.Insn

namespace X86
open X86.Spec

/-- Outcome of running a wrapper: its result (or panic), the final register file and the
instructions executed, in order. A panic keeps what was executed before it. -/
structure Ran (α : Type) where
  res : R α
  cpu : Cpu
  trace : List Insn
  /-- Ghost log: observation points placed by instrumented closures (`M.mark`), in order.
  Not instructions; wrappers of the crate never write it. -/
  marks : List Nat

/-- Computations over the abstract machine. -/
def M (α : Type) : Type := Cpu → Ran α

namespace M

def pure {α} (a : α) : M α := fun c => ⟨.ok a, c, [], []⟩

def bind {α β} (x : M α) (f : α → M β) : M β := fun c =>
  match x c with
  | ⟨.ok a, c1, t1, m1⟩ =>
    match f a c1 with
    | ⟨r, c2, t2, m2⟩ => ⟨r, c2, t1 ++ t2, m1 ++ m2⟩
  | ⟨.panic, c1, t1, m1⟩ => ⟨.panic, c1, t1, m1⟩

instance : Monad M where
  pure := M.pure
  bind := M.bind

/-- A Rust panic (`unwrap` on `None`/`Err`, failed `assert!`, overflow check). -/
def panic {α} : M α := fun c => ⟨.panic, c, [], []⟩

/-- Lift a panicking pure computation. -/
def ofR {α} (r : R α) : M α := fun c => ⟨r, c, [], []⟩

/-- Execute one instruction. -/
def insn (i : Insn) : M Out := fun c => ⟨.ok (step c i).2, (step c i).1, [i], []⟩

/-- Ghost: the current register file (used only by instrumented test closures, never by a
wrapper's model). -/
def get : M Cpu := fun c => ⟨.ok c, c, [], []⟩

/-- Ghost: record an observation. -/
def mark (n : Nat) : M Unit := fun c => ⟨.ok (), c, [], [n]⟩

/-- `assert!(b)`. -/
def assert (b : Bool) : M Unit := if b then M.pure () else M.panic

end M

end X86
