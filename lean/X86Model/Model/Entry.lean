/-
Model of `PageTableEntry`, `PageTableFlags` and `PageTable`
(/repo/src/structures/paging/page_table.rs), transcribed as the code is.

An entry is its raw `u64` (`#[repr(transparent)] struct PageTableEntry { entry: u64 }`).
`PhysAddr`/`PhysFrame` arguments are represented by their `u64` value; their type invariants
(`< 2^52`; frames 4 KiB aligned) are hypotheses of the theorems, not checks of the model, exactly
as in the Rust code (`set_addr` only asserts alignment).
-/
import X86Model.Base

namespace X86

/-! ### `bitflags! struct PageTableFlags: u64` -/
namespace PTFlags

def PRESENT         : BitVec 64 := 1#64           -- GENERATED-CANDIDATE
def WRITABLE        : BitVec 64 := 1#64 <<< 1     -- GENERATED-CANDIDATE
def USER_ACCESSIBLE : BitVec 64 := 1#64 <<< 2     -- GENERATED-CANDIDATE
def WRITE_THROUGH   : BitVec 64 := 1#64 <<< 3     -- GENERATED-CANDIDATE
def NO_CACHE        : BitVec 64 := 1#64 <<< 4     -- GENERATED-CANDIDATE
def ACCESSED        : BitVec 64 := 1#64 <<< 5     -- GENERATED-CANDIDATE
def DIRTY           : BitVec 64 := 1#64 <<< 6     -- GENERATED-CANDIDATE
def HUGE_PAGE       : BitVec 64 := 1#64 <<< 7     -- GENERATED-CANDIDATE
def PAT_4KIB_PAGE   : BitVec 64 := 1#64 <<< 7     -- GENERATED-CANDIDATE
def GLOBAL          : BitVec 64 := 1#64 <<< 8     -- GENERATED-CANDIDATE
def BIT_9           : BitVec 64 := 1#64 <<< 9     -- GENERATED-CANDIDATE
def BIT_10          : BitVec 64 := 1#64 <<< 10    -- GENERATED-CANDIDATE
def BIT_11          : BitVec 64 := 1#64 <<< 11    -- GENERATED-CANDIDATE
def PAT_HUGE_PAGE   : BitVec 64 := 1#64 <<< 12    -- GENERATED-CANDIDATE
def BIT_52          : BitVec 64 := 1#64 <<< 52    -- GENERATED-CANDIDATE
def BIT_53          : BitVec 64 := 1#64 <<< 53    -- GENERATED-CANDIDATE
def BIT_54          : BitVec 64 := 1#64 <<< 54    -- GENERATED-CANDIDATE
def BIT_55          : BitVec 64 := 1#64 <<< 55    -- GENERATED-CANDIDATE
def BIT_56          : BitVec 64 := 1#64 <<< 56    -- GENERATED-CANDIDATE
def BIT_57          : BitVec 64 := 1#64 <<< 57    -- GENERATED-CANDIDATE
def BIT_58          : BitVec 64 := 1#64 <<< 58    -- GENERATED-CANDIDATE
def BIT_59          : BitVec 64 := 1#64 <<< 59    -- GENERATED-CANDIDATE
def BIT_60          : BitVec 64 := 1#64 <<< 60    -- GENERATED-CANDIDATE
def BIT_61          : BitVec 64 := 1#64 <<< 61    -- GENERATED-CANDIDATE
def BIT_62          : BitVec 64 := 1#64 <<< 62    -- GENERATED-CANDIDATE
def NO_EXECUTE      : BitVec 64 := 1#64 <<< 63    -- GENERATED-CANDIDATE

/-- Every constant of the `bitflags!` block, in declaration order. -/
def consts : List (BitVec 64) :=
  [PRESENT, WRITABLE, USER_ACCESSIBLE, WRITE_THROUGH, NO_CACHE, ACCESSED, DIRTY, HUGE_PAGE,
   PAT_4KIB_PAGE, GLOBAL, BIT_9, BIT_10, BIT_11, PAT_HUGE_PAGE, BIT_52, BIT_53, BIT_54, BIT_55,
   BIT_56, BIT_57, BIT_58, BIT_59, BIT_60, BIT_61, BIT_62, NO_EXECUTE]

/-- `PageTableFlags::all().bits()`: the union of all defined flags. -/
def all : BitVec 64 := consts.foldl (· ||| ·) 0#64

/-- `PageTableFlags::from_bits_truncate(bits).bits()`. -/
def fromBitsTruncate (bits : BitVec 64) : BitVec 64 := bits &&& all

/-- `self.contains(other)`. -/
def contains (self other : BitVec 64) : Bool := self &&& other == other

end PTFlags

/-! ### `PageTableEntry` -/
namespace Entry

/-- The literal `0x000f_ffff_ffff_f000` in `addr()`. -/
def ADDR_MASK : BitVec 64 := 0x000ffffffffff000#64   -- GENERATED-CANDIDATE

/-- `Size4KiB::SIZE`. -/
def PAGE_SIZE : BitVec 64 := 4096#64                  -- GENERATED-CANDIDATE

/-- `PhysAddr::align_down(align)` = `align_down(self.0, align)` = `addr & !(align - 1)`
(`align` is a power of two here, so the `assert!(align.is_power_of_two())` passes). -/
def alignDown (a align : BitVec 64) : BitVec 64 := a &&& ~~~(align - 1#64)

/-- `PhysAddr::is_aligned(align)`: `self.align_down(align) == self`. -/
def isAligned (a align : BitVec 64) : Bool := alignDown a align == a

/-- `PageTableEntry::new()`. -/
def new : BitVec 64 := 0#64

/-- `is_unused(&self)`: `self.entry == 0`. -/
def isUnused (e : BitVec 64) : Bool := e == 0#64

/-- `set_unused(&mut self)`: `self.entry = 0`. -/
def setUnused (_e : BitVec 64) : BitVec 64 := 0#64

/-- `flags(&self)`: `PageTableFlags::from_bits_truncate(self.entry)` (as `.bits()`). -/
def flags (e : BitVec 64) : BitVec 64 := PTFlags.fromBitsTruncate e

/-- `addr(&self)`: `PhysAddr::new(self.entry & 0x000f_ffff_ffff_f000)`. `PhysAddr::new` panics on
values with bits 52–63 set; `addrR` keeps that check, `addr` is the value (theorem
`C08.addr_never_panics`: the check never fires). -/
def addr (e : BitVec 64) : BitVec 64 := e &&& ADDR_MASK

def addrR (e : BitVec 64) : R (BitVec 64) :=
  let v := e &&& ADDR_MASK
  if v >>> 52 == 0#64 then .ok v else .panic

/-- `frame(&self)`: `Ok(PhysFrame::containing_address(self.addr()))` if `PRESENT` is contained in
`flags()`, else `Err(FrameNotPresent)`. A frame is represented by its start address;
`containing_address(a)` is `a.align_down(4096)`. `none` = `Err(FrameError::FrameNotPresent)`. -/
def frame (e : BitVec 64) : Option (BitVec 64) :=
  if PTFlags.contains (flags e) PTFlags.PRESENT then some (alignDown (addr e) PAGE_SIZE) else none

/-- `set_addr(&mut self, addr, flags)`: `assert!(addr.is_aligned(Size4KiB::SIZE))`, then
`self.entry = addr.as_u64() | flags.bits()`. Returns the new entry. -/
def setAddr (_e : BitVec 64) (a fl : BitVec 64) : R (BitVec 64) :=
  if isAligned a PAGE_SIZE then .ok (a ||| fl) else .panic

/-- `set_frame(&mut self, frame, flags)`: `self.set_addr(frame.start_address(), flags)`. -/
def setFrame (e : BitVec 64) (frameStart fl : BitVec 64) : R (BitVec 64) := setAddr e frameStart fl

/-- `set_flags(&mut self, flags)`: `self.entry = self.addr().as_u64() | flags.bits()`. -/
def setFlags (e : BitVec 64) (fl : BitVec 64) : BitVec 64 := addr e ||| fl

/-- The four setters as one operation language (for histories). -/
inductive Op where
  | setAddr (a fl : BitVec 64)
  | setFrame (a fl : BitVec 64)
  | setFlags (fl : BitVec 64)
  | setUnused
  deriving DecidableEq, Repr

/-- One setter call on entry `e`. -/
def step (e : BitVec 64) : Op → R (BitVec 64)
  | .setAddr a fl => setAddr e a fl
  | .setFrame a fl => setFrame e a fl
  | .setFlags fl => .ok (setFlags e fl)
  | .setUnused => .ok (setUnused e)

/-- A whole history, stopping at the first panic. -/
def run (e : BitVec 64) : List Op → R (BitVec 64)
  | [] => .ok e
  | op :: rest =>
    match step e op with
    | .ok e' => run e' rest
    | .panic => .panic

end Entry

/-! ### `PageTable`

`#[repr(align(4096))] #[repr(C)] struct PageTable { entries: [PageTableEntry; 512] }`.
A reference to an entry is modelled by the slot number it points at (element offset from
`entries.as_ptr()`); reading/writing through a reference is `read`/`write` on that slot. -/

/-- `ENTRY_COUNT`. -/
def ENTRY_COUNT : Nat := 512                           -- GENERATED-CANDIDATE

structure PageTable where
  entries : Vector (BitVec 64) 512

namespace PageTable

/-- `PageTable::new()`: `[PageTableEntry::new(); 512]`. -/
def new : PageTable := ⟨Vector.replicate 512 Entry.new⟩

/-- Slot `i` (reads of out-of-range slots do not occur: all references below are `< 512`). -/
def read (t : PageTable) (slot : Nat) : BitVec 64 := t.entries[slot]?.getD 0#64

def write (t : PageTable) (slot : Nat) (v : BitVec 64) : PageTable :=
  ⟨t.entries.setIfInBounds slot v⟩

/-- `Index<usize>` / `IndexMut<usize>`: `&self.entries[index]` (array bounds check). -/
def refUsize (index : Nat) : R Nat := if index < ENTRY_COUNT then .ok index else .panic

/-- `Index<PageTableIndex>` / `IndexMut<PageTableIndex>`: `&self.entries[usize::from(index)]`;
`index` is the `u16` inside the `PageTableIndex`. -/
def refPti (index : Nat) : R Nat := refUsize index

/-- `iter()`: `(0..512).map(move |i| &self.entries[i])` — the references yielded, in order. -/
def iterRefs : List Nat := (List.range 512).map (fun i => i)

/-- `iter_mut()`: `(0..512).map(move |i| &mut *ptr.add(i))` with `ptr = entries.as_mut_ptr()`. -/
def iterMutRefs : List Nat := (List.range 512).map (fun i => 0 + i)

/-- `zero(&mut self)`: `for entry in self.iter_mut() { entry.set_unused() }`. -/
def zero (t : PageTable) : PageTable :=
  iterMutRefs.foldl (fun t r => t.write r (Entry.setUnused (t.read r))) t

/-- `is_empty(&self)`: `self.iter().all(|entry| entry.is_unused())`. -/
def isEmpty (t : PageTable) : Bool := iterRefs.all (fun r => Entry.isUnused (t.read r))

/-- `size_of::<PageTable>()`: `repr(C)` array of 512 `repr(transparent)` `u64`s, rounded up to the
alignment. -/
def SIZE_OF : Nat := 512 * 8

/-- `align_of::<PageTable>()`: `#[repr(align(4096))]`. -/
def ALIGN_OF : Nat := 4096                             -- GENERATED-CANDIDATE

/-- `size_of::<PageTableEntry>()`: `repr(transparent)` over `u64`. -/
def ENTRY_SIZE_OF : Nat := 8

/-- Byte `o` of the table's memory (`repr(C)`: element `i` of the array at byte `8 i`; x86_64 is
little-endian: byte `k` of a `u64` holds bits `8k … 8k+7`). -/
def byteAt (t : PageTable) (o : Nat) : BitVec 8 :=
  ((t.read (o / 8)) >>> (8 * (o % 8))).setWidth 8

/-- A table from a function of the slot number. -/
def ofFn (f : Nat → BitVec 64) : PageTable := ⟨Vector.ofFn (fun i : Fin 512 => f i.val)⟩

end PageTable

end X86
