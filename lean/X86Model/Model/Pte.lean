/-
Raw page-table-entry words as the mapper code sees them (`PageTableEntry` of
`src/structures/paging/page_table.rs`), on `BitVec 64`.
-/
import X86Model.Base

namespace X86

abbrev Word := BitVec 64

namespace Pte

/-- `0x000f_ffff_ffff_f000`: the physical-address field, bits 12..51. -/
def ADDR_MASK : Word := 0x000ffffffffff000#64
/-- `PageTableFlags::PRESENT`. -/
def PRESENT : Word := 1#64
/-- `PageTableFlags::WRITABLE`. -/
def WRITABLE : Word := 2#64
/-- `PageTableFlags::USER_ACCESSIBLE`. -/
def USER : Word := 4#64
/-- `PageTableFlags::HUGE_PAGE`. -/
def HUGE : Word := 0x80#64
/-- `PageTableFlags::all().bits()`: bits 0..12 and 52..63 (what `from_bits_truncate` keeps). -/
def FLAGS_ALL : Word := 0xfff0000000001fff#64

/-- `PageTableEntry::flags()`. -/
def flags (e : Word) : Word := e &&& FLAGS_ALL
/-- `PageTableEntry::addr()` (the `PhysAddr::new` inside cannot panic: the mask clears bits 52..63). -/
def addr (e : Word) : Word := e &&& ADDR_MASK
/-- Frame address of a huge-page entry: bit 12 is the PAT flag there (`huge_frame_addr`). -/
def hugeAddr (e : Word) : Word := e &&& 0x000fffffffffe000#64
/-- `is_unused()`. -/
def isUnused (e : Word) : Bool := e == 0#64
/-- `flags().contains(PRESENT)`. -/
def present (e : Word) : Bool := e &&& PRESENT != 0#64
/-- `flags().contains(HUGE_PAGE)`. -/
def huge (e : Word) : Bool := e &&& HUGE != 0#64
/-- `flags().contains(fl)`. -/
def contains (e fl : Word) : Bool := flags e &&& fl == fl
/-- `set_addr(addr, flags)` for a 4 KiB-aligned address (the assert is handled by the caller). -/
def mk (a fl : Word) : Word := a ||| fl
/-- `set_flags(flags)`. -/
def setFlags (e fl : Word) : Word := addr e ||| fl

/-- 4 KiB alignment check of `set_addr`'s assert. -/
def aligned4K (a : Word) : Bool := a &&& 0xfff#64 == 0#64

end Pte

end X86
