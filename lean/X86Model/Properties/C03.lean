/-
C03 — Address values are always valid: canonical virtual, 52-bit physical.
-/
import X86Model.Model.AddrProg
import X86Model.Spec.Canon
import X86Model.Proofs.Canon
import X86Model.Properties.C05

namespace X86.C03
open X86 X86.Spec

/-! #### Constructors -/

/-- The truncating constructor always yields a canonical address. -/
theorem new_truncate_canon (a : Nat) : canon (VirtAddr.newTruncate a) := signExt48_is_canon a

/-- The checked constructor accepts exactly the canonical inputs and returns them unchanged. -/
theorem try_new_accepts_exactly (a : Nat) (_ha : a < 2^64) (v : Nat) :
    VirtAddr.tryNew a = some v ↔ canon a ∧ v = a := by
  unfold VirtAddr.tryNew VirtAddr.newTruncate
  constructor
  · intro h
    by_cases he : signExt48 a = a
    · rw [if_pos he] at h; simp only [Option.some.injEq] at h
      exact ⟨he ▸ signExt48_is_canon a, h.symm⟩
    · rw [if_neg he] at h; cases h
  · rintro ⟨hc, rfl⟩
    rw [if_pos (signExt48_canon v hc)]

theorem try_new_rejects (a : Nat) (ha : a < 2^64) : VirtAddr.tryNew a = none ↔ ¬ canon a := by
  have h := try_new_accepts_exactly a ha a
  constructor
  · intro hn hc; rw [h.2 ⟨hc, rfl⟩] at hn; cases hn
  · intro hn
    cases hv : VirtAddr.tryNew a with
    | none => rfl
    | some v => exact absurd ((try_new_accepts_exactly a ha v).1 hv).1 hn

/-- `new` panics exactly on non-canonical input. -/
theorem new_ok_iff (a : Nat) (ha : a < 2^64) (v : Nat) : VirtAddr.new a = R.ok v ↔ canon a ∧ v = a := by
  unfold VirtAddr.new
  rw [← try_new_accepts_exactly a ha v]
  cases VirtAddr.tryNew a <;> simp [R.ofOption]

/-- Truncation is idempotent, agrees with the checked constructor on valid input, and depends
only on the low 48 bits. -/
theorem new_truncate_idem (a : Nat) :
    VirtAddr.newTruncate (VirtAddr.newTruncate a) = VirtAddr.newTruncate a :=
  signExt48_canon _ (signExt48_is_canon a)

theorem new_truncate_agrees (a : Nat) (h : canon a) : VirtAddr.newTruncate a = a := signExt48_canon a h

theorem new_truncate_low48 (a b : Nat) (h : a % 2^48 = b % 2^48) :
    VirtAddr.newTruncate a = VirtAddr.newTruncate b := by
  unfold VirtAddr.newTruncate signExt48; rw [h]

/-- Physical analogues (52 bits). -/
theorem phys_try_new_accepts_exactly (a v : Nat) : PhysAddr.tryNew a = some v ↔ physValid a ∧ v = a := by
  unfold PhysAddr.tryNew PhysAddr.newTruncate physValid
  constructor
  · intro h; split at h <;> simp only [Option.some.injEq, reduceCtorEq] at h
    subst h; omega
  · rintro ⟨hc, rfl⟩; rw [if_pos (Nat.mod_eq_of_lt hc)]

theorem phys_new_ok_iff (a v : Nat) : PhysAddr.new a = R.ok v ↔ physValid a ∧ v = a := by
  unfold PhysAddr.new
  rw [← phys_try_new_accepts_exactly a v]
  cases PhysAddr.tryNew a <;> simp [R.ofOption]

theorem phys_new_truncate_valid (a : Nat) : physValid (PhysAddr.newTruncate a) := by
  unfold physValid PhysAddr.newTruncate; omega
theorem phys_new_truncate_idem (a : Nat) :
    PhysAddr.newTruncate (PhysAddr.newTruncate a) = PhysAddr.newTruncate a := by
  unfold PhysAddr.newTruncate; omega
theorem phys_new_truncate_agrees (a : Nat) (h : physValid a) : PhysAddr.newTruncate a = a := by
  unfold physValid at h; unfold PhysAddr.newTruncate; omega
theorem phys_new_truncate_low52 (a b : Nat) (h : a % 2^52 = b % 2^52) :
    PhysAddr.newTruncate a = PhysAddr.newTruncate b := h

/-! #### Every program of safe operations yields a valid address (both build profiles) -/

private theorem new_canon {a v : Nat} (h : (VirtAddr.new a).toOption = some v) : canon v := by
  unfold VirtAddr.new VirtAddr.tryNew at h
  split at h
  · rename_i he; simp only [R.ofOption, R.toOption, Option.some.injEq] at h
    subst h; rw [← he]; exact signExt48_is_canon a
  · simp [R.ofOption, R.toOption] at h

private theorem tryNew_canon {a v : Nat} (h : VirtAddr.tryNew a = some v) : canon v := by
  unfold VirtAddr.tryNew at h
  split at h
  · rename_i he; simp only [Option.some.injEq] at h
    subst h; rw [← he]; exact signExt48_is_canon a
  · cases h

private theorem map_trunc_canon {r : R Nat} {v : Nat}
    (h : (r.map VirtAddr.newTruncate).toOption = some v) : canon v := by
  cases r with
  | ok a => simp only [R.map_ok, R.toOption, Option.some.injEq] at h; subst h; exact signExt48_is_canon a
  | panic => cases h

private theorem bind_new_canon {r : R Nat} {v : Nat}
    (h : (r.bind VirtAddr.new).toOption = some v) : canon v := by
  cases r with
  | ok a => exact new_canon h
  | panic => cases h

private theorem map_containing_canon {r : R Nat} {sz v : Nat}
    (h : (r.map (Page.containingAddress sz)).toOption = some v) : canon v := by
  cases r with
  | ok a => simp only [R.map_ok, R.toOption, Option.some.injEq] at h; subst h; exact signExt48_is_canon _
  | panic => cases h

private theorem fwd_canon {s n v : Nat} (hs : canon s) (h : VirtAddr.forwardCheckedU64 s n = some v) :
    canon v := by
  unfold canon at hs ⊢
  simp only [VirtAddr.forwardCheckedU64, checkedAdd] at h
  arith_split

private theorem bwd_canon {s n v : Nat} (hs : canon s) (h : VirtAddr.backwardCheckedU64 s n = some v) :
    canon v := by
  unfold canon at hs ⊢
  simp only [VirtAddr.backwardCheckedU64, checkedSub] at h
  arith_split

/-- **Invariant**: whatever finite program of safe operations produced it, a virtual-address value
is canonical — in checked and in unchecked builds. -/
theorem vprog_valid (cfg : Cfg) (p : VProg) (v : Nat) (h : p.eval cfg = some v) : canon v := by
  induction p generalizing v with
  | new a => exact new_canon h
  | tryNew a => exact tryNew_canon h
  | newTruncate a => simp only [VProg.eval, Option.some.injEq] at h; subst h; exact signExt48_is_canon a
  | zero => simp only [VProg.eval, VirtAddr.zero, Option.some.injEq] at h; subst h; unfold canon; omega
  | fromPtr a => exact new_canon h
  | alignUp p al ih =>
    simp only [VProg.eval] at h
    cases hp : p.eval cfg with
    | none => rw [hp] at h; cases h
    | some w => rw [hp] at h; exact map_trunc_canon h
  | alignDown p al ih =>
    simp only [VProg.eval] at h
    cases hp : p.eval cfg with
    | none => rw [hp] at h; cases h
    | some w => rw [hp] at h; exact map_trunc_canon h
  | add p n ih =>
    simp only [VProg.eval] at h
    cases hp : p.eval cfg with
    | none => rw [hp] at h; cases h
    | some w => rw [hp] at h; exact bind_new_canon h
  | sub p n ih =>
    simp only [VProg.eval] at h
    cases hp : p.eval cfg with
    | none => rw [hp] at h; cases h
    | some w => rw [hp] at h; exact bind_new_canon h
  | stepFwd p n ih =>
    simp only [VProg.eval] at h
    cases hp : p.eval cfg with
    | none => rw [hp] at h; cases h
    | some w => rw [hp] at h; exact fwd_canon (ih w hp) h
  | stepBwd p n ih =>
    simp only [VProg.eval] at h
    cases hp : p.eval cfg with
    | none => rw [hp] at h; cases h
    | some w => rw [hp] at h; exact bwd_canon (ih w hp) h
  | pageContaining sz p ih =>
    simp only [VProg.eval] at h
    cases hp : p.eval cfg with
    | none => rw [hp] at h; cases h
    | some w =>
      rw [hp] at h; simp only [Option.map_some, Option.some.injEq] at h
      subst h; exact signExt48_is_canon _
  | pageFromStart sz p ih =>
    simp only [VProg.eval] at h
    cases hp : p.eval cfg with
    | none => rw [hp] at h; cases h
    | some w =>
      rw [hp] at h; simp only [Option.bind_some, Page.fromStartAddress] at h
      split at h
      · simp only [Option.some.injEq] at h; subst h; exact signExt48_is_canon _
      · cases h
  | pageAdd sz p n ih =>
    simp only [VProg.eval] at h
    cases hp : p.eval cfg with
    | none => rw [hp] at h; cases h
    | some w =>
      rw [hp] at h; simp only [Option.bind_some, Page.add] at h
      cases hm : checkedMul n sz with
      | none => rw [hm] at h; cases h
      | some off => rw [hm] at h; exact map_containing_canon h
  | pageSub sz p n ih =>
    simp only [VProg.eval] at h
    cases hp : p.eval cfg with
    | none => rw [hp] at h; cases h
    | some w =>
      rw [hp] at h; simp only [Option.bind_some, Page.sub] at h
      cases hm : checkedMul n sz with
      | none => rw [hm] at h; cases h
      | some off => rw [hm] at h; exact map_containing_canon h
  | pageFwd sz p n ih =>
    simp only [VProg.eval] at h
    cases hp : p.eval cfg with
    | none => rw [hp] at h; cases h
    | some w =>
      rw [hp] at h; simp only [Option.bind_some, Page.forwardChecked] at h
      cases hm : checkedMul n sz with
      | none => rw [hm] at h; cases h
      | some c => rw [hm] at h; exact fwd_canon (ih w hp) h
  | pageBwd sz p n ih =>
    simp only [VProg.eval] at h
    cases hp : p.eval cfg with
    | none => rw [hp] at h; cases h
    | some w =>
      rw [hp] at h; simp only [Option.bind_some, Page.backwardChecked] at h
      cases hm : checkedMul n sz with
      | none => rw [hm] at h; cases h
      | some c => rw [hm] at h; exact bwd_canon (ih w hp) h
  | fromIdx4K i4 i3 i2 i1 =>
    simp only [VProg.eval, Option.some.injEq] at h; subst h; exact signExt48_is_canon _
  | fromIdx2M i4 i3 i2 =>
    simp only [VProg.eval, Option.some.injEq] at h; subst h; exact signExt48_is_canon _
  | fromIdx1G i4 i3 =>
    simp only [VProg.eval, Option.some.injEq] at h; subst h; exact signExt48_is_canon _
  | handlerAddr lo mid hi =>
    simp only [VProg.eval, Option.some.injEq] at h; subst h; exact signExt48_is_canon _
  | cr2Read raw => exact tryNew_canon h

private theorem pnew_valid {a v : Nat} (h : (PhysAddr.new a).toOption = some v) : physValid v := by
  cases hn : PhysAddr.new a with
  | panic => rw [hn] at h; cases h
  | ok w =>
    rw [hn] at h; simp only [R.toOption, Option.some.injEq] at h; subst h
    have := (phys_new_ok_iff a w).1 hn; rw [this.2]; exact this.1

private theorem bind_pnew_valid {r : R Nat} {v : Nat}
    (h : (r.bind PhysAddr.new).toOption = some v) : physValid v := by
  cases r with
  | ok a => exact pnew_valid h
  | panic => cases h

private theorem map_fcontaining_valid {r : R Nat} {sz v : Nat}
    (hr : ∀ a, r = R.ok a → physValid a)
    (h : (r.map (PhysFrame.containingAddress sz)).toOption = some v) : physValid v := by
  cases r with
  | ok a =>
    simp only [R.map_ok, R.toOption, Option.some.injEq] at h; subst h
    have := hr a rfl; unfold physValid at *; unfold PhysFrame.containingAddress; omega
  | panic => cases h

private theorem bind_pnew_ok_valid {r : R Nat} (a : Nat) (h : r.bind PhysAddr.new = R.ok a) : physValid a := by
  cases r with
  | ok b => exact pnew_valid (by rw [show PhysAddr.new b = R.ok a from h]; rfl)
  | panic => cases h

/-- **Invariant**, physical side: every value produced by a program of safe operations is below 2^52. -/
theorem pprog_valid (cfg : Cfg) (p : PProg) (v : Nat) (h : p.eval cfg = some v) : physValid v := by
  induction p generalizing v with
  | new a => exact pnew_valid h
  | tryNew a => exact ((phys_try_new_accepts_exactly a v).1 h).2 ▸ ((phys_try_new_accepts_exactly a v).1 h).1
  | newTruncate a => simp only [PProg.eval, Option.some.injEq] at h; subst h; exact phys_new_truncate_valid a
  | zero => simp only [PProg.eval, Option.some.injEq] at h; subst h; unfold physValid; omega
  | alignUp p al ih =>
    simp only [PProg.eval] at h
    cases hp : p.eval cfg with
    | none => rw [hp] at h; cases h
    | some w => rw [hp] at h; exact bind_pnew_valid h
  | alignDown p al ih =>
    simp only [PProg.eval] at h
    cases hp : p.eval cfg with
    | none => rw [hp] at h; cases h
    | some w =>
      rw [hp] at h
      simp only [Option.bind_some, PhysAddr.alignDown, alignDown] at h
      split at h
      · simp only [R.toOption, Option.some.injEq] at h; subst h
        have := ih w hp; unfold physValid at *; omega
      · cases h
  | add p n ih =>
    simp only [PProg.eval] at h
    cases hp : p.eval cfg with
    | none => rw [hp] at h; cases h
    | some w => rw [hp] at h; exact bind_pnew_valid h
  | sub p n ih =>
    simp only [PProg.eval] at h
    cases hp : p.eval cfg with
    | none => rw [hp] at h; cases h
    | some w => rw [hp] at h; exact bind_pnew_valid h
  | frameContaining sz p ih =>
    simp only [PProg.eval] at h
    cases hp : p.eval cfg with
    | none => rw [hp] at h; cases h
    | some w =>
      rw [hp] at h; simp only [Option.map_some, Option.some.injEq] at h; subst h
      have := ih w hp; unfold physValid at *; unfold PhysFrame.containingAddress; omega
  | frameFromStart sz p ih =>
    simp only [PProg.eval] at h
    cases hp : p.eval cfg with
    | none => rw [hp] at h; cases h
    | some w =>
      rw [hp] at h; simp only [Option.bind_some, PhysFrame.fromStartAddress] at h
      split at h
      · simp only [Option.some.injEq] at h; subst h; exact ih w hp
      · cases h
  | frameAdd sz p n ih =>
    simp only [PProg.eval] at h
    cases hp : p.eval cfg with
    | none => rw [hp] at h; cases h
    | some w =>
      rw [hp] at h; simp only [Option.bind_some, PhysFrame.add] at h
      cases hm : checkedMul n sz with
      | none => rw [hm] at h; cases h
      | some off =>
        rw [hm] at h
        exact map_fcontaining_valid (fun a ha => bind_pnew_ok_valid a ha) h
  | frameSub sz p n ih =>
    simp only [PProg.eval] at h
    cases hp : p.eval cfg with
    | none => rw [hp] at h; cases h
    | some w =>
      rw [hp] at h; simp only [Option.bind_some, PhysFrame.sub] at h
      cases hm : checkedMul n sz with
      | none => rw [hm] at h; cases h
      | some off =>
        rw [hm] at h
        exact map_fcontaining_valid (fun a ha => bind_pnew_ok_valid a ha) h
  | entryAddr raw => exact pnew_valid h

/-- `PageTableEntry::addr` never panics: the masked word is always a valid physical address. -/
theorem entry_addr_total (raw : Nat) :
    PhysAddr.new (raw % 2^52 / 4096 * 4096) = R.ok (raw % 2^52 / 4096 * 4096) := by
  rw [phys_new_ok_iff]; unfold physValid; omega

/-! #### Non-vacuity: programs that succeed and exercise the interesting branches -/
example : (VProg.add (VProg.new 0x7ffffffffff0) 8).eval ⟨true⟩ = some 0x7ffffffffff8 := by decide
example : (VProg.add (VProg.new 0x7ffffffffff0) 0x10).eval ⟨true⟩ = none := by decide
example : (VProg.stepFwd (VProg.new 0x7ffffffffff0) 0x10).eval ⟨false⟩ = some 0xffff800000000000 := by decide
example : (VProg.alignUp (VProg.new 0x7fffffffffff) 2).eval ⟨false⟩ = some 0xffff800000000000 := by decide
example : (PProg.frameAdd 4096 (PProg.new 0x1000) 2).eval ⟨false⟩ = some 0x3000 := by decide

end X86.C03
