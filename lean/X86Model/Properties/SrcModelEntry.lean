/- C08 carried over to the translated source: any history of `set_addr` / `set_frame` / `set_flags` / `set_unused`
calls executed with the definitions *generated from `src/structures/paging/page_table.rs`* leaves the entry storing
exactly the pair the specification computes, and the generated getters report it (`C08.entry_history`,
`C08.getters_report_stored`). -/
import X86Model.Properties.SrcTie.Entry
import X86Model.Properties.C08

set_option linter.unusedSimpArgs false

namespace X86.SrcModelEntry
open X86 X86.Generated X86.SrcTie X86.Spec

variable (cfg : Cfg)

/-- One setter call on the generated definitions (the entry is its raw `u64`). -/
def srcStep (e : BitVec 64) : Entry.Op → R (BitVec 64)
  | .setAddr a fl => (Src.PageTableEntry_set_addr cfg e a fl).map (·.2)
  | .setFrame a fl => (Src.PageTableEntry_set_frame cfg e a fl).map (·.2)
  | .setFlags fl => (Src.PageTableEntry_set_flags cfg e fl).map (·.2)
  | .setUnused => (Src.PageTableEntry_set_unused cfg e).map (·.2)

theorem map_map {α β γ : Type} (r : R α) (f : α → β) (g : β → γ) : (r.map f).map g = r.map (fun a => g (f a)) := by
  cases r <;> rfl
theorem map_id' {α : Type} (r : R α) : r.map (fun a => a) = r := by cases r <;> rfl

/-- **One call**: the generated setter is the model's. -/
theorem srcStep_eq (e : BitVec 64) (op : Entry.Op) : srcStep cfg e op = Entry.step e op := by
  cases op with
  | setAddr a fl => simp only [srcStep, Entry.step]; rw [PageTableEntry_set_addr, map_map]; exact map_id' _
  | setFrame a fl => simp only [srcStep, Entry.step]; rw [PageTableEntry_set_frame, map_map]; exact map_id' _
  | setFlags fl => simp only [srcStep, Entry.step]; rw [PageTableEntry_set_flags]; rfl
  | setUnused => simp only [srcStep, Entry.step]; rw [PageTableEntry_set_unused]; rfl

/-- A history on the generated definitions, stopping at the first panic. -/
def srcRun (e : BitVec 64) : List Entry.Op → R (BitVec 64)
  | [] => .ok e
  | op :: rest =>
    match srcStep cfg e op with
    | .ok e' => srcRun e' rest
    | .panic => .panic

/-- **Histories**, by induction over the call list. -/
theorem srcRun_eq (ops : List Entry.Op) (e : BitVec 64) : srcRun cfg e ops = Entry.run e ops := by
  induction ops generalizing e with
  | nil => rfl
  | cons op rest ih =>
    simp only [srcRun, Entry.run, srcStep_eq]
    cases Entry.step e op with
    | ok e' => exact ih e'
    | panic => rfl

/-- **C08 for the translated source.** For every entry storing an in-domain pair (4 KiB-aligned 52-bit address, flags
inside the flag domain) and every sequence of in-domain setter calls: the generated setters do not panic (either
profile) and the entry ends up storing exactly the pair the specification computes - the last address with the last
flags -, and the generated getters report that pair: `addr()` the address, `flags()` the flags, `is_unused()` whether
the word is zero. -/
theorem C08_entry_history_of_source (ops : List Entry.Op) (s : Spec.Stored) (hs : C08.StoredOk s)
    (hops : ∀ op ∈ ops, (C08.toSpec op).inDomain = true) :
    ∃ s', Spec.specRun s (ops.map C08.toSpec) = some s' ∧ srcRun cfg s.word ops = .ok s'.word ∧ C08.StoredOk s' ∧
      Src.PageTableEntry_addr cfg s'.word = .ok (Entry.addr s'.word) ∧
      Src.PageTableEntry_flags cfg s'.word = .ok (Entry.flags s'.word) ∧
      Src.PageTableEntry_is_unused cfg s'.word = .ok (Entry.isUnused s'.word) := by
  obtain ⟨s', h1, h2, h3⟩ := C08.entry_history ops s hs hops
  exact ⟨s', h1, by rw [srcRun_eq]; exact h2, h3, PageTableEntry_addr_ok cfg _, PageTableEntry_flags cfg _,
    PageTableEntry_is_unused cfg _⟩

end X86.SrcModelEntry
