/-
C10 — clean_up frees exactly the empty in-range tables, once; translations unchanged.

`Model/CleanUp.lean` transcribes the recursive helper of `clean_up_addr_range` literally (index window
`take(end+1).skip(start)`, per-entry sub-range clamp, gap jump through `forward_checked`, free-if-empty,
recursive-slot and huge-entry skips). The theorems are about ANY state satisfying the hierarchy
invariant (every state reachable through the API: `C01.history_from_empty`), ANY range arguments and
both mapper kinds; they speak about the hardware walk of the raw memory (`Spec.walk`) and about the
ghost log of the call.

Part 1 (no assumption on the range arguments at all):
* `clean_up_translations_unchanged` — no address's translation changes; the invariant is kept.
* `clean_up_frees_only_empty_unlinked_tables` — every deallocated frame was a level-1..3 table of
  the hierarchy (never the level-4 table, never reached through a huge entry), all of its 512 entries
  are zero, it is no longer linked, it does not hang under the recursive slot (recursive mapper).
* `clean_up_frees_once`, `clean_up_unlinks_before_freeing` — no frame is freed twice; each
  deallocation is immediately preceded by the write that zeroes the parent entry pointing to it.
* `clean_up_only_zeroes_table_entries`, `clean_up_log_shape` — memory changes only by zeroing
  entries of page tables; the log consists of reads and zero-writes of page tables and deallocations.
Part 2 (ranges of canonical 4 KiB pages, `rs ≤ re`; `Proofs/CleanUpRange.lean`): never panics, frees only
tables whose address span overlaps the range, leaves tables that do not overlap it untouched, leaves no
empty table wholly inside the range, and a second run frees nothing.
-/
import X86Model.Proofs.CleanUpRange
import X86Model.Properties.C09

namespace X86.C10
open X86 X86.Spec

/-- `clean_up_addr_range` is the helper at level 4 on the level-4 table. -/
theorem clean_up_range_post (k : Kind) (rIdx : Nat) (s : St) (p4 : Word) (rs re : Nat) (hinv : Inv s.mem p4) :
    ∃ seg, CleanPost p4 (recSkipOf k rIdx) [] s (cleanUpRange k rIdx s p4 rs re).2 seg := by
  obtain ⟨⟨seg, h⟩, _⟩ := cleanUpLevel_post k rIdx p4 4 [] p4 s rs re hinv rfl rfl (fun _ h => by cases h)
    (fun _ _ h => absurd rfl h)
  unfold cleanUpRange
  split <;> (rename_i heq; rw [heq] at h; exact ⟨seg, h⟩)

/-- **No address's translation changes** (the hardware walk of the raw memory, every virtual
address, any range, both mapper kinds), and the hierarchy invariant is kept. -/
theorem clean_up_translations_unchanged (k : Kind) (rIdx : Nat) (s : St) (p4 : Word) (rs re : Nat)
    (hinv : Inv s.mem p4) :
    (∀ va, walk (cleanUpRange k rIdx s p4 rs re).2.mem p4 va = walk s.mem p4 va) ∧
    Inv (cleanUpRange k rIdx s p4 rs re).2.mem p4 := by
  obtain ⟨seg, h⟩ := clean_up_range_post k rIdx s p4 rs re hinv
  exact ⟨h.walk, h.inv⟩

/-- **What is deallocated**: only frames that were page tables of level 1..3 of the hierarchy
(reached from the level-4 table through 1..3 present, non-huge entries — so never the level-4 table
itself and never a huge-page frame), that are entirely zero, that are no longer linked, and — for the
recursive mapper — that do not hang under the recursive slot. -/
theorem clean_up_frees_only_empty_unlinked_tables (k : Kind) (rIdx : Nat) (s : St) (p4 : Word) (rs re : Nat)
    (hinv : Inv s.mem p4) :
    ∃ seg, (cleanUpRange k rIdx s p4 rs re).2.events = s.events ++ seg ∧
      ∀ g ∈ deallocsIn seg,
        g ≠ p4 ∧
        ∃ q, 1 ≤ q.length ∧ q.length ≤ 3 ∧ IdxOK q ∧ tblAt s.mem p4 q = some g ∧
          tblAt (cleanUpRange k rIdx s p4 rs re).2.mem p4 q = none ∧
          (∀ x, x < 512 → (cleanUpRange k rIdx s p4 rs re).2.mem g x = 0#64) ∧
          (k.recursive = true → q.head? ≠ some rIdx) := by
  obtain ⟨seg, h⟩ := clean_up_range_post k rIdx s p4 rs re hinv
  refine ⟨seg, h.events, ?_⟩
  intro g hg
  obtain ⟨q, hq, hqi, hb, h1, h2, h3, h4⟩ := h.freed g hg
  have hq1 : 1 ≤ q.length := by have := hb.2; simp at this; omega
  refine ⟨?_, q, hq1, hq, hqi, h1, h2, h3, ?_⟩
  · intro hgp
    have : q = [] := hinv.wf q [] p4 hq (by simp) hqi (fun _ h => by cases h) (hgp ▸ h1) rfl
    rw [this] at hq1; simp at hq1
  · intro hk
    exact h4 rIdx (by simp [recSkipOf, hk])

/-- **Each frame is freed at most once.** -/
theorem clean_up_frees_once (k : Kind) (rIdx : Nat) (s : St) (p4 : Word) (rs re : Nat) (hinv : Inv s.mem p4) :
    ∃ seg, (cleanUpRange k rIdx s p4 rs re).2.events = s.events ++ seg ∧ (deallocsIn seg).Nodup := by
  obtain ⟨seg, h⟩ := clean_up_range_post k rIdx s p4 rs re hinv
  exact ⟨seg, h.events, h.nodup⟩

/-- **Only after unlinking**: every `dealloc g` event is immediately preceded by the write that
zeroes the parent entry which pointed to `g`. -/
theorem clean_up_unlinks_before_freeing (k : Kind) (rIdx : Nat) (s : St) (p4 : Word) (rs re : Nat)
    (hinv : Inv s.mem p4) :
    ∃ seg, (cleanUpRange k rIdx s p4 rs re).2.events = s.events ++ seg ∧ UnlinkedBeforeFree s.mem seg := by
  obtain ⟨seg, h⟩ := clean_up_range_post k rIdx s p4 rs re hinv
  exact ⟨seg, h.events, h.order⟩

/-- Memory changes only by zeroing entries of page tables of the hierarchy. -/
theorem clean_up_only_zeroes_table_entries (k : Kind) (rIdx : Nat) (s : St) (p4 : Word) (rs re : Nat)
    (hinv : Inv s.mem p4) (f : Word) (j : Nat)
    (hne : (cleanUpRange k rIdx s p4 rs re).2.mem f j ≠ s.mem f j) :
    (cleanUpRange k rIdx s p4 rs re).2.mem f j = 0#64 ∧ IsTable s.mem p4 f := by
  obtain ⟨seg, h⟩ := clean_up_range_post k rIdx s p4 rs re hinv
  obtain ⟨h0, q, hq, hqi, _, hf⟩ := h.mem f j hne
  exact ⟨h0, q, by omega, hqi, hf⟩

/-- **Only table links are zeroed, and only links to tables that this run frees**: a word that
clean-up modifies pointed (present, not huge) to a table which is deallocated in the same run. -/
theorem clean_up_only_zeroes_links_to_freed_tables (k : Kind) (rIdx : Nat) (s : St) (p4 : Word) (rs re : Nat)
    (hinv : Inv s.mem p4) :
    ∃ seg, (cleanUpRange k rIdx s p4 rs re).2.events = s.events ++ seg ∧
      ∀ f j, (cleanUpRange k rIdx s p4 rs re).2.mem f j ≠ s.mem f j →
        ∃ c, tableOf (s.mem f j) = some c ∧ c ∈ deallocsIn seg := by
  obtain ⟨seg, h⟩ := clean_up_range_post k rIdx s p4 rs re hinv
  exact ⟨seg, h.events, h.link⟩

/-- **Leaf entries are never touched**: a slot that does not point to a table — unused, a present
page, or a page mapped WITHOUT `PRESENT` (a non-zero, non-present word) — holds the same word afterwards. -/
theorem clean_up_keeps_leaf_entries (k : Kind) (rIdx : Nat) (s : St) (p4 : Word) (rs re : Nat)
    (hinv : Inv s.mem p4) (f : Word) (j : Nat) (hleaf : tableOf (s.mem f j) = none) :
    (cleanUpRange k rIdx s p4 rs re).2.mem f j = s.mem f j := by
  obtain ⟨seg, h⟩ := clean_up_range_post k rIdx s p4 rs re hinv
  apply Classical.byContradiction
  intro hne
  obtain ⟨c, hc, _⟩ := h.link f j hne
  rw [hleaf] at hc; cases hc

/-- **A table that is not empty at the end was not freed and is still linked where it was** (so are all
tables above it). -/
theorem clean_up_keeps_nonempty_tables (k : Kind) (rIdx : Nat) (s : St) (p4 : Word) (rs re : Nat)
    (hinv : Inv s.mem p4) (q : List Nat) (t : Word) (hqi : IdxOK q) (ht : tblAt s.mem p4 q = some t)
    (j : Nat) (hj : j < 512) (hfin : (cleanUpRange k rIdx s p4 rs re).2.mem t j ≠ 0#64) :
    tblAt (cleanUpRange k rIdx s p4 rs re).2.mem p4 q = some t ∧
    ∃ seg, (cleanUpRange k rIdx s p4 rs re).2.events = s.events ++ seg ∧ t ∉ deallocsIn seg := by
  obtain ⟨seg, h⟩ := clean_up_range_post k rIdx s p4 rs re hinv
  generalize (cleanUpRange k rIdx s p4 rs re).2 = s' at h hfin ⊢
  -- a table with a non-zero entry at the end is not among the freed ones
  have notFreed : ∀ g x, x < 512 → s'.mem g x ≠ 0#64 → g ∉ deallocsIn seg := by
    intro g x hx hnz hg
    obtain ⟨_, _, _, _, _, _, hz, _⟩ := h.freed g hg
    exact hnz (hz x hx)
  have gen : ∀ (q : List Nat) (tbl0 : Word), IdxOK q → tblAt s.mem tbl0 q = some t →
      tblAt s'.mem tbl0 q = some t ∧ ∃ x, x < 512 ∧ s'.mem tbl0 x ≠ 0#64 := by
    intro q
    induction q with
    | nil =>
      intro tbl0 _ h0
      simp [tblAt] at h0; subst h0
      exact ⟨rfl, j, hj, hfin⟩
    | cons i rest ih =>
      intro tbl0 hidx h0
      have hi : i < 512 := hidx i (by simp)
      simp only [tblAt] at h0
      cases hto : tableOf (s.mem tbl0 i) with
      | none => rw [hto] at h0; cases h0
      | some t' =>
        rw [hto] at h0
        obtain ⟨h1, x, hx, hnz⟩ := ih t' (fun y hy => hidx y (List.mem_cons_of_mem _ hy)) h0
        -- the link to `t'` was not zeroed: `t'` is not freed
        have hsame : s'.mem tbl0 i = s.mem tbl0 i := by
          apply Classical.byContradiction
          intro hne
          obtain ⟨c, hc, hd⟩ := h.link tbl0 i hne
          rw [hto] at hc
          have : c = t' := (Option.some.inj hc).symm
          subst this
          exact notFreed c x hx hnz hd
        refine ⟨by simp only [tblAt, hsame, hto]; exact h1, i, hi, ?_⟩
        rw [hsame]
        intro hz; rw [hz] at hto
        have h0' : tableOf (0#64 : Word) = none := by decide
        rw [h0'] at hto; cases hto
  exact ⟨(gen q p4 hqi ht).1, seg, h.events, notFreed t j hj hfin⟩

/-- **Clean-up never frees a table that holds a leaf entry** — in particular not the table holding the
slot of a page mapped without `PRESENT`: the table `t` at path `q` has, in slot `j`, a non-zero word that
is not a table link (a present page, or a non-present one); afterwards the slot holds the same word, `t` is
still linked at `q`, and `t` is not among the deallocated frames. -/
theorem clean_up_keeps_table_with_leaf (k : Kind) (rIdx : Nat) (s : St) (p4 : Word) (rs re : Nat)
    (hinv : Inv s.mem p4) (q : List Nat) (t : Word) (hqi : IdxOK q) (ht : tblAt s.mem p4 q = some t)
    (j : Nat) (hj : j < 512) (hnz : s.mem t j ≠ 0#64) (hleaf : tableOf (s.mem t j) = none) :
    (cleanUpRange k rIdx s p4 rs re).2.mem t j = s.mem t j ∧
    tblAt (cleanUpRange k rIdx s p4 rs re).2.mem p4 q = some t ∧
    ∃ seg, (cleanUpRange k rIdx s p4 rs re).2.events = s.events ++ seg ∧ t ∉ deallocsIn seg := by
  have hsame := clean_up_keeps_leaf_entries k rIdx s p4 rs re hinv t j hleaf
  exact ⟨hsame, clean_up_keeps_nonempty_tables k rIdx s p4 rs re hinv q t hqi ht j hj (by rw [hsame]; exact hnz)⟩

/-- The log of a clean-up: reads and zero-writes of page tables, and deallocations; no allocator
request, allocator state untouched. -/
theorem clean_up_log_shape (k : Kind) (rIdx : Nat) (s : St) (p4 : Word) (rs re : Nat) (hinv : Inv s.mem p4) :
    ∃ seg, (cleanUpRange k rIdx s p4 rs re).2.events = s.events ++ seg ∧
      (cleanUpRange k rIdx s p4 rs re).2.allocs = s.allocs ∧
      ∀ ev ∈ seg, (∃ f j, (ev = .rd f j ∨ ev = .wr f j 0#64) ∧ IsTable s.mem p4 f) ∨ (∃ g, ev = .dealloc g) := by
  obtain ⟨seg, h⟩ := clean_up_range_post k rIdx s p4 rs re hinv
  refine ⟨seg, h.events, h.allocs, ?_⟩
  intro ev hev
  rcases h.touch ev hev with ⟨f, j, hk, q, hq, hqi, _, hf⟩ | hd
  · exact Or.inl ⟨f, j, hk, q, hq, hqi, hf⟩
  · exact Or.inr hd

/-- `clean_up()` is `clean_up_addr_range` over the whole address space. -/
theorem clean_up_all_eq (k : Kind) (rIdx : Nat) (s : St) (p4 : Word) :
    cleanUpAll k rIdx s p4 = cleanUpRange k rIdx s p4 0 0xfffffffffffff000 := rfl

/-! ### Part 2: ranges of pages

`rs`, `re` are start addresses of 4 KiB pages (`PageAddr`: canonical, page aligned) with `rs ≤ re`;
spans are in page numbers of rank space (`pn`), so a range spanning the canonical gap or ending at the
last page is an ordinary interval. `Overlaps q lo hi`: the address span of the table at index path `q`
intersects `lo..hi`. -/

/-- **Clean-up of a range of pages never panics** (no `unwrap` on `None` in the gap jump, no
overflow in the per-entry sub-range, for every hierarchy and every range — including ranges that
span the canonical gap or end at the last page). -/
theorem clean_up_range_never_panics (k : Kind) (rIdx : Nat) (s : St) (p4 : Word) (rs re : Nat)
    (hinv : Inv s.mem p4) (hs : PageAddr rs) (he : PageAddr re) (hle : rs ≤ re) :
    (cleanUpRange k rIdx s p4 rs re).1 = .ok () := by
  obtain ⟨_, ⟨b, hb, _⟩, _⟩ := cleanUpLevel_range k rIdx p4 4 [] p4 s rs re (by omega) hinv rfl rfl (fun _ h => by cases h)
    (fun _ _ h => absurd rfl h) (rangeIn_top hs he hle)
  unfold cleanUpRange
  split
  · rename_i heq; rw [heq] at hb; cases hb
  · rfl

/-- **Only tables overlapping the range are freed, and tables that do not overlap it are
untouched**: every deallocated frame was the table at a path whose span intersects the range; every
modified word lies in the level-4 table or in a table whose span intersects the range. -/
theorem clean_up_touches_only_overlapping_tables (k : Kind) (rIdx : Nat) (s : St) (p4 : Word) (rs re : Nat)
    (hinv : Inv s.mem p4) (hs : PageAddr rs) (he : PageAddr re) (hle : rs ≤ re) :
    ∃ seg, (cleanUpRange k rIdx s p4 rs re).2.events = s.events ++ seg ∧
      (∀ g ∈ deallocsIn seg, ∃ q, q.length ≤ 3 ∧ IdxOK q ∧ tblAt s.mem p4 q = some g ∧ Overlaps q (pn rs) (pn re)) ∧
      (∀ f j, (cleanUpRange k rIdx s p4 rs re).2.mem f j ≠ s.mem f j →
        ∃ q, q.length ≤ 2 ∧ IdxOK q ∧ tblAt s.mem p4 q = some f ∧ (q = [] ∨ Overlaps q (pn rs) (pn re))) := by
  obtain ⟨⟨seg, hc, ho⟩, _, _⟩ := cleanUpLevel_range k rIdx p4 4 [] p4 s rs re (by omega) hinv rfl rfl (fun _ h => by cases h)
    (fun _ _ h => absurd rfl h) (rangeIn_top hs he hle)
  have hst : (cleanUpRange k rIdx s p4 rs re).2 = (cleanUpLevel k rIdx 4 s p4 rs re).2 := by
    unfold cleanUpRange; split <;> (rename_i heq; rw [heq])
  rw [hst]
  exact ⟨seg, hc.events, ho.freedOv, ho.memOv⟩

/-- **No empty table is left inside the range**: afterwards every linked table of level 1..3 whose
span intersects the range — in particular every one lying wholly inside it — holds at least one
entry (recursive mapper: outside the recursive slot). -/
theorem clean_up_leaves_no_empty_table (k : Kind) (rIdx : Nat) (s : St) (p4 : Word) (rs re : Nat)
    (hinv : Inv s.mem p4) (hs : PageAddr rs) (he : PageAddr re) (hle : rs ≤ re)
    (q : List Nat) (g : Word) (hq1 : 1 ≤ q.length) (hq : q.length ≤ 3) (hqi : IdxOK q)
    (hov : Overlaps q (pn rs) (pn re)) (hns : k.recursive = true → q.head? ≠ some rIdx)
    (hg : tblAt (cleanUpRange k rIdx s p4 rs re).2.mem p4 q = some g) :
    ∃ j, j < 512 ∧ (cleanUpRange k rIdx s p4 rs re).2.mem g j ≠ 0#64 := by
  obtain ⟨_, _, hcomp⟩ := cleanUpLevel_range k rIdx p4 4 [] p4 s rs re (by omega) hinv rfl rfl (fun _ h => by cases h)
    (fun _ _ h => absurd rfl h) (rangeIn_top hs he hle)
  have hst : (cleanUpRange k rIdx s p4 rs re).2 = (cleanUpLevel k rIdx 4 s p4 rs re).2 := by
    unfold cleanUpRange; split <;> (rename_i heq; rw [heq])
  rw [hst] at hg ⊢
  refine hcomp q g ⟨List.nil_prefix, by simp; omega⟩ hq hqi hov ?_ hg
  intro x hx
  unfold recSkipOf at hx
  split at hx
  · rename_i hk; simp only [Option.some.injEq] at hx; rw [← hx]; exact hns hk
  · cases hx

/-- "wholly inside" implies "overlaps". -/
theorem inside_overlaps (q : List Nat) (lo hi : Nat) (h : lo ≤ spanLo q ∧ spanHi q ≤ hi) : Overlaps q lo hi :=
  ⟨Nat.le_trans (spanLo_le_spanHi q) h.2, Nat.le_trans h.1 (spanLo_le_spanHi q)⟩

/-- **Repeating the clean-up deallocates nothing**: a second run over the same range on the state
the first run left behind only reads — no write, no deallocation, memory unchanged. -/
theorem clean_up_twice_frees_nothing (k : Kind) (rIdx : Nat) (s : St) (p4 : Word) (rs re : Nat)
    (hinv : Inv s.mem p4) (hs : PageAddr rs) (he : PageAddr re) (hle : rs ≤ re) :
    let s1 := (cleanUpRange k rIdx s p4 rs re).2
    ReadsOnly s1 (cleanUpRange k rIdx s1 p4 rs re).2 := by
  intro s1
  obtain ⟨⟨seg, hc, _⟩, _, hcomp⟩ := cleanUpLevel_range k rIdx p4 4 [] p4 s rs re (by omega) hinv rfl rfl (fun _ h => by cases h)
    (fun _ _ h => absurd rfl h) (rangeIn_top hs he hle)
  have hst : (cleanUpRange k rIdx s p4 rs re).2 = (cleanUpLevel k rIdx 4 s p4 rs re).2 := by
    unfold cleanUpRange; split <;> (rename_i heq; rw [heq])
  have hs1 : s1 = (cleanUpLevel k rIdx 4 s p4 rs re).2 := hst
  have hinv1 : Inv s1.mem p4 := by rw [hs1]; exact hc.inv
  have hstable : Stable p4 (recSkipOf k rIdx) [] (pn rs) (pn re) s1.mem := by
    rw [hs1]; exact hcomp
  have := cleanUpLevel_stable k rIdx p4 4 [] p4 s1 rs re (by omega) hinv1 rfl rfl (fun _ h => by cases h)
    (fun _ _ h => absurd rfl h) (rangeIn_top hs he hle) hstable
  have hst2 : (cleanUpRange k rIdx s1 p4 rs re).2 = (cleanUpLevel k rIdx 4 s1 p4 rs re).2 := by
    unfold cleanUpRange; split <;> (rename_i heq; rw [heq])
  rw [hst2]; exact this

/-- An empty range (`start > end`) does nothing at all. -/
theorem clean_up_empty_range (k : Kind) (rIdx : Nat) (s : St) (p4 : Word) (rs re : Nat) (h : rs > re) :
    cleanUpRange k rIdx s p4 rs re = (.ok (), s) := by
  unfold cleanUpRange cleanUpLevel
  simp [h]

/-- The whole-address-space clean-up is within the quantifier of the range theorems. -/
example : PageAddr 0 ∧ PageAddr 0xfffffffffffff000 ∧ (0 : Nat) ≤ 0xfffffffffffff000 := by
  refine ⟨?_, ?_, by omega⟩ <;> (unfold PageAddr canon; omega)

/-! ### Non-vacuity: a reachable hierarchy with empty tables, and what clean-up does to it

Map one 4 KiB page into the empty hierarchy (three tables are allocated), unmap it again: three
empty tables are left behind. -/

def st1 : St := (mapTo ⟨false⟩ C09.demo3 0x1000#64 [0, 0, 0] 5 false 0x5000#64 1#64 3#64).2
def st2 : St := (unmap st1 0x1000#64 [0, 0, 0] 5 false 4096).2

-- the state satisfies the invariant the theorems assume (it is reached through the API)
set_option maxRecDepth 100000 in
example : Inv st2.mem 0x1000#64 := by
  have h0 : Inv C09.demo3.mem 0x1000#64 := C01.init_inv _ _ (fun _ => rfl)
  have hidx : IdxOK [0, 0, 0] := by intro j h; simp at h; omega
  have hpf : ParentFlagsOK 3#64 := ⟨by decide, by decide⟩
  have hlf : (if false = true then C01.LeafFlagsHuge 1#64 else C01.LeafFlags4K 1#64) := by
    simp only [Bool.false_eq_true, if_false]; exact ⟨by decide, by decide⟩
  have hfr : C01.FrameOK 4096 0x5000#64 := by unfold C01.FrameOK; simp only [if_true]; decide
  have hm := C01.map_to_spec ⟨false⟩ C09.demo3 0x1000#64 [0, 0, 0] 5 false 4096 0x5000#64 1#64 3#64
    (.s4k 0 0 0) h0 hidx (by omega) hpf hlf hfr C09.demo3_allocsOK
  have hres : (mapTo ⟨false⟩ C09.demo3 0x1000#64 [0, 0, 0] 5 false 0x5000#64 1#64 3#64) = (.ok (.ok ()), st1) := by
    have h1 : (match (mapTo ⟨false⟩ C09.demo3 0x1000#64 [0, 0, 0] 5 false 0x5000#64 1#64 3#64).1 with
        | .ok (.ok ()) => true | _ => false) = true := by
      set_option maxRecDepth 100000 in decide +kernel
    cases hmt : mapTo ⟨false⟩ C09.demo3 0x1000#64 [0, 0, 0] 5 false 0x5000#64 1#64 3#64 with
    | mk res s' =>
      have hs' : s' = st1 := by unfold st1; rw [hmt]
      rw [hmt] at h1
      cases res with
      | panic => simp at h1
      | ok e => cases e with
        | error _ => simp at h1
        | ok u => cases u; rw [hs']
  rw [hres] at hm
  have h1 : Inv st1.mem 0x1000#64 := hm.1
  have hu : ∃ fr, (unmap st1 0x1000#64 [0, 0, 0] 5 false 4096).1 = .ok fr := by
    have hb : (match (unmap st1 0x1000#64 [0, 0, 0] 5 false 4096).1 with | .ok _ => true | .error _ => false) = true := by
      decide +kernel
    cases hx : (unmap st1 0x1000#64 [0, 0, 0] 5 false 4096).1 with
    | ok fr => exact ⟨fr, rfl⟩
    | error e => rw [hx] at hb; simp at hb
  obtain ⟨fr, hu⟩ := hu
  exact (C01.unmap_ok st1 0x1000#64 [0, 0, 0] 5 false 4096 (.s4k 0 0 0) h1 hidx fr hu).1

/-- The same hierarchy written out (level-4 table `0x1000` → `0x2000` → `0x3000` → `0x4000`, all
other words zero), for fast evaluation. -/
def m3 : PMem := fun f i =>
  if f = 0x1000#64 ∧ i = 0 then 0x2003#64
  else if f = 0x2000#64 ∧ i = 0 then 0x3003#64
  else if f = 0x3000#64 ∧ i = 0 then 0x4003#64
  else 0#64
def st3 : St := { mem := m3, allocs := [], log := [] }

/-- clean-up of the page's own range: the three empty tables are freed bottom-up, each right after
its parent entry is zeroed; a second run frees nothing -/
example :
    let r := cleanUpRange ⟨false⟩ 0 st3 0x1000#64 0 0
    deallocsIn r.2.events = [0x4000#64, 0x3000#64, 0x2000#64] ∧
    r.2.events.filter (fun ev => match ev with | .wr _ _ _ => true | _ => false) =
      [.wr 0x3000#64 0 0#64, .wr 0x2000#64 0 0#64, .wr 0x1000#64 0 0#64] ∧
    deallocsIn ((cleanUpRange ⟨false⟩ 0 r.2 0x1000#64 0 0).2.events.drop r.2.events.length) = [] := by
  set_option maxRecDepth 1000000 in decide +kernel

/-- a range that only covers the neighbouring 2 MiB block frees nothing: the level-1 table of page 0
does not overlap it, and the level-2 table still holds an entry afterwards -/
example : deallocsIn (cleanUpRange ⟨false⟩ 0 st3 0x1000#64 0x200000 0x3ff000).2.events = [] := by
  set_option maxRecDepth 1000000 in decide +kernel

/-- with the recursive mapper and recursive index 0 the same hierarchy is left alone -/
example : deallocsIn (cleanUpRange ⟨true⟩ 0 st3 0x1000#64 0 0xfffffffffffff000).2.events = [] := by
  set_option maxRecDepth 1000000 in decide +kernel

end X86.C10
