/-
C10 — clean_up frees exactly the empty in-range tables, once; translations unchanged.

`Model/CleanUp.lean` transcribes the recursive helper of `clean_up_addr_range` literally (index window
`take(end+1).skip(start)`, per-entry sub-range clamp, gap jump through `forward_checked`, free-if-empty,
recursive-slot and huge-entry skips). The theorems are about ANY state satisfying the hierarchy
invariant (every state reachable through the API: `C01.history_from_empty`), ANY range arguments and
both mapper kinds; they speak about the hardware walk of the raw memory (`Spec.walk`) and about the
ghost log of the call.

Part 1 (no assumption on the range arguments at all):
* `clean_up_translations_unchanged` — no address's translation changes; the invariant is kept.
* `clean_up_frees_only_empty_unlinked_tables` — every deallocated frame was a level-1..3 table of
  the hierarchy (never the level-4 table, never reached through a huge entry), all of its 512 entries
  are zero, it is no longer linked, it does not hang under the recursive slot (recursive mapper).
* `clean_up_frees_once`, `clean_up_unlinks_before_freeing` — no frame is freed twice; each
  deallocation is immediately preceded by the write that zeroes the parent entry pointing to it.
* `clean_up_only_zeroes_table_entries`, `clean_up_log_shape` — memory changes only by zeroing
  entries of page tables; the log consists of reads and zero-writes of page tables and deallocations.
Part 2 (ranges of canonical 4 KiB pages, `rs ≤ re`; `Proofs/CleanUpRange.lean`): never panics, frees only
tables whose address span overlaps the range, leaves tables that do not overlap it untouched, leaves no
empty table wholly inside the range, and a second run frees nothing.
-/
import X86Model.Proofs.CleanUpTree

namespace X86.C10
open X86 X86.Spec

/-- `clean_up_addr_range` is the helper at level 4 on the level-4 table. -/
theorem clean_up_range_post (k : Kind) (rIdx : Nat) (s : St) (p4 : Word) (rs re : Nat) (hinv : Inv s.mem p4) :
    ∃ seg, CleanPost p4 (recSkipOf k rIdx) [] s (cleanUpRange k rIdx s p4 rs re).2 seg := by
  obtain ⟨⟨seg, h⟩, _⟩ := cleanUpLevel_post k rIdx p4 4 [] p4 s rs re hinv rfl rfl (fun _ h => by cases h)
    (fun _ _ h => absurd rfl h)
  unfold cleanUpRange
  split <;> (rename_i heq; rw [heq] at h; exact ⟨seg, h⟩)

/-- **No address's translation changes** (the hardware walk of the raw memory, every virtual
address, any range, both mapper kinds), and the hierarchy invariant is kept. -/
theorem clean_up_translations_unchanged (k : Kind) (rIdx : Nat) (s : St) (p4 : Word) (rs re : Nat)
    (hinv : Inv s.mem p4) :
    (∀ va, walk (cleanUpRange k rIdx s p4 rs re).2.mem p4 va = walk s.mem p4 va) ∧
    Inv (cleanUpRange k rIdx s p4 rs re).2.mem p4 := by
  obtain ⟨seg, h⟩ := clean_up_range_post k rIdx s p4 rs re hinv
  exact ⟨h.walk, h.inv⟩

/-- **What is deallocated**: only frames that were page tables of level 1..3 of the hierarchy
(reached from the level-4 table through 1..3 present, non-huge entries — so never the level-4 table
itself and never a huge-page frame), that are entirely zero, that are no longer linked, and — for the
recursive mapper — that do not hang under the recursive slot. -/
theorem clean_up_frees_only_empty_unlinked_tables (k : Kind) (rIdx : Nat) (s : St) (p4 : Word) (rs re : Nat)
    (hinv : Inv s.mem p4) :
    ∃ seg, (cleanUpRange k rIdx s p4 rs re).2.events = s.events ++ seg ∧
      ∀ g ∈ deallocsIn seg,
        g ≠ p4 ∧
        ∃ q, 1 ≤ q.length ∧ q.length ≤ 3 ∧ IdxOK q ∧ tblAt s.mem p4 q = some g ∧
          tblAt (cleanUpRange k rIdx s p4 rs re).2.mem p4 q = none ∧
          (∀ x, x < 512 → (cleanUpRange k rIdx s p4 rs re).2.mem g x = 0#64) ∧
          (k.recursive = true → q.head? ≠ some rIdx) := by
  obtain ⟨seg, h⟩ := clean_up_range_post k rIdx s p4 rs re hinv
  refine ⟨seg, h.events, ?_⟩
  intro g hg
  obtain ⟨q, hq, hqi, hb, h1, h2, h3, h4⟩ := h.freed g hg
  have hq1 : 1 ≤ q.length := by have := hb.2; simp at this; omega
  refine ⟨?_, q, hq1, hq, hqi, h1, h2, h3, ?_⟩
  · intro hgp
    have : q = [] := hinv.wf q [] p4 hq (by simp) hqi (fun _ h => by cases h) (hgp ▸ h1) rfl
    rw [this] at hq1; simp at hq1
  · intro hk
    exact h4 rIdx (by simp [recSkipOf, hk])

/-- **Each frame is freed at most once.** -/
theorem clean_up_frees_once (k : Kind) (rIdx : Nat) (s : St) (p4 : Word) (rs re : Nat) (hinv : Inv s.mem p4) :
    ∃ seg, (cleanUpRange k rIdx s p4 rs re).2.events = s.events ++ seg ∧ (deallocsIn seg).Nodup := by
  obtain ⟨seg, h⟩ := clean_up_range_post k rIdx s p4 rs re hinv
  exact ⟨seg, h.events, h.nodup⟩

/-- **Only after unlinking**: every `dealloc g` event is immediately preceded by the write that
zeroes the parent entry which pointed to `g`. -/
theorem clean_up_unlinks_before_freeing (k : Kind) (rIdx : Nat) (s : St) (p4 : Word) (rs re : Nat)
    (hinv : Inv s.mem p4) :
    ∃ seg, (cleanUpRange k rIdx s p4 rs re).2.events = s.events ++ seg ∧ UnlinkedBeforeFree s.mem seg := by
  obtain ⟨seg, h⟩ := clean_up_range_post k rIdx s p4 rs re hinv
  exact ⟨seg, h.events, h.order⟩

/-- Memory changes only by zeroing entries of page tables of the hierarchy. -/
theorem clean_up_only_zeroes_table_entries (k : Kind) (rIdx : Nat) (s : St) (p4 : Word) (rs re : Nat)
    (hinv : Inv s.mem p4) (f : Word) (j : Nat)
    (hne : (cleanUpRange k rIdx s p4 rs re).2.mem f j ≠ s.mem f j) :
    (cleanUpRange k rIdx s p4 rs re).2.mem f j = 0#64 ∧ IsTable s.mem p4 f := by
  obtain ⟨seg, h⟩ := clean_up_range_post k rIdx s p4 rs re hinv
  obtain ⟨h0, q, hq, hqi, _, hf⟩ := h.mem f j hne
  exact ⟨h0, q, by omega, hqi, hf⟩

/-- The log of a clean-up: reads and zero-writes of page tables, and deallocations; no allocator
request, allocator state untouched. -/
theorem clean_up_log_shape (k : Kind) (rIdx : Nat) (s : St) (p4 : Word) (rs re : Nat) (hinv : Inv s.mem p4) :
    ∃ seg, (cleanUpRange k rIdx s p4 rs re).2.events = s.events ++ seg ∧
      (cleanUpRange k rIdx s p4 rs re).2.allocs = s.allocs ∧
      ∀ ev ∈ seg, (∃ f j, (ev = .rd f j ∨ ev = .wr f j 0#64) ∧ IsTable s.mem p4 f) ∨ (∃ g, ev = .dealloc g) := by
  obtain ⟨seg, h⟩ := clean_up_range_post k rIdx s p4 rs re hinv
  refine ⟨seg, h.events, h.allocs, ?_⟩
  intro ev hev
  rcases h.touch ev hev with ⟨f, j, hk, q, hq, hqi, _, hf⟩ | hd
  · exact Or.inl ⟨f, j, hk, q, hq, hqi, hf⟩
  · exact Or.inr hd

/-- `clean_up()` is `clean_up_addr_range` over the whole address space. -/
theorem clean_up_all_eq (k : Kind) (rIdx : Nat) (s : St) (p4 : Word) :
    cleanUpAll k rIdx s p4 = cleanUpRange k rIdx s p4 0 0xfffffffffffff000 := rfl

end X86.C10
