/-
C02 — Mapper errors are precise and a failed call changes no mapping.

Second sentence of the property ("a call that returns an error … leaves the mapping of every
address exactly as it was and creates no new mapping; at most the requested parent flags may be
added to existing parent-table entries"), for every page size and every allocator answer
sequence. The first sentence (the documented outcome is reported exactly) is decided on every call
by the correspondence oracle `Spec.docOutcome`; see `outcome_*` below for what is proved of it.
-/
import X86Model.Properties.C01Map

namespace X86.C02
open X86 X86.Spec X86.C01

/-- **map_to error ⇒ no mapping changes** (any mapper kind, page size, parent flags, allocator
behaviour: failure of the 1st, 2nd or 3rd request, huge parent, page already mapped; leaf flags with or
without `PRESENT`). -/
theorem map_error_no_change (k : Kind) (s : St) (p4 : Word) (parents : List Nat) (li : Nat) (huge : Bool) (sz : Nat)
    (frame flags pflags : Word)
    (sh : PageShape parents huge sz) (hinv : Inv s.mem p4) (hpi : IdxOK parents) (hli : li < 512)
    (hpf : ParentFlagsOK pflags) (hfl : if huge then LeafBitsHuge flags else LeafBits4K flags)
    (hfr : FrameOK sz frame) (hal : AllocsOK s.mem p4 s.allocs)
    (e : MapErr) (s' : St) (h : mapTo k s p4 parents li huge frame flags pflags = (.ok (.error e), s')) :
    Inv s'.mem p4 ∧ ∀ va, (walk s'.mem p4 va).map Xlat.core = (walk s.mem p4 va).map Xlat.core := by
  have := map_to_full k s p4 parents li huge sz frame flags pflags sh hinv hpi hpf hfl hfr hal
  rw [h] at this; exact ⟨this.inv, this.core⟩

/-- `PageAlreadyMapped` is reported only if the page's slot holds a non-zero entry — present or not: a
page mapped without `PRESENT` cannot be mapped over. -/
theorem map_already_mapped_slot_used (k : Kind) (s : St) (p4 : Word) (parents : List Nat) (li : Nat) (huge : Bool)
    (sz : Nat) (frame flags pflags : Word)
    (sh : PageShape parents huge sz) (hinv : Inv s.mem p4) (hpi : IdxOK parents)
    (hpf : ParentFlagsOK pflags) (hfl : if huge then LeafBitsHuge flags else LeafBits4K flags)
    (hfr : FrameOK sz frame) (hal : AllocsOK s.mem p4 s.allocs)
    (s' : St) (h : mapTo k s p4 parents li huge frame flags pflags = (.ok (.error .alreadyMapped), s')) :
    ∃ t, tblAt s'.mem p4 parents = some t ∧ s'.mem t li ≠ 0#64 := by
  have := map_to_full k s p4 parents li huge sz frame flags pflags sh hinv hpi hpf hfl hfr hal
  rw [h] at this; exact this.used rfl

/-- `map_to` never panics when the allocator honours its contract (leaf flags with or without `PRESENT`). -/
theorem map_no_panic (k : Kind) (s : St) (p4 : Word) (parents : List Nat) (li : Nat) (huge : Bool) (sz : Nat)
    (frame flags pflags : Word)
    (sh : PageShape parents huge sz) (hinv : Inv s.mem p4) (hpi : IdxOK parents) (hli : li < 512)
    (hpf : ParentFlagsOK pflags) (hfl : if huge then LeafBitsHuge flags else LeafBits4K flags)
    (hfr : FrameOK sz frame) (hal : AllocsOK s.mem p4 s.allocs) :
    (mapTo k s p4 parents li huge frame flags pflags).1 ≠ .panic := by
  have := map_to_full k s p4 parents li huge sz frame flags pflags sh hinv hpi hpf hfl hfr hal
  intro hp
  cases hm : mapTo k s p4 parents li huge frame flags pflags with
  | mk res s' =>
    rw [hm] at this hp
    simp only at hp
    subst hp
    exact this

/-- Failed unmap / update_flags / set_flags_pN_entry leave memory literally untouched;
translate_page never writes. -/
theorem unmap_error_no_change (s : St) (p4 : Word) (parents : List Nat) (li : Nat) (huge : Bool) (sz : Nat)
    (e : OpErr) (h : (unmap s p4 parents li huge sz).1 = .error e) :
    (unmap s p4 parents li huge sz).2.mem = s.mem := unmap_err s p4 parents li huge sz e h

theorem update_flags_error_no_change (s : St) (p4 : Word) (parents : List Nat) (li : Nat) (huge : Bool)
    (flags : Word) (e : OpErr) (h : (updateFlags ⟨false⟩ s p4 parents li huge flags).1 = .error e) :
    (updateFlags ⟨false⟩ s p4 parents li huge flags).2.mem = s.mem :=
  update_flags_err s p4 parents li huge flags e h

theorem set_parent_flags_error_no_change (s : St) (p4 : Word) (parents : List Nat) (idx : Nat)
    (flags : Word) (e : OpErr) (h : (setParentFlags ⟨false⟩ s p4 parents idx flags).1 = .error e) :
    (setParentFlags ⟨false⟩ s p4 parents idx flags).2.mem = s.mem :=
  set_parent_flags_err s p4 parents idx flags e h

theorem translate_page_no_change (k : Kind) (s : St) (p4 : Word) (parents : List Nat) (li : Nat) (huge : Bool) (sz : Nat) :
    (translatePage k s p4 parents li huge sz).2.mem = s.mem := translate_page_pure k s p4 parents li huge sz

/-- No call reports success for a mapping of a size that does not exist: a successful huge-page
`update_flags` found a huge leaf in the slot (never a next-level table). -/
theorem update_flags_ok_is_huge_leaf (s : St) (p4 : Word) (parents : List Nat) (li : Nat) (flags : Word)
    (h : (updateFlags ⟨false⟩ s p4 parents li true flags).1 = .ok ()) :
    ∃ t, tblAt s.mem p4 parents = some t ∧ Pte.huge (s.mem t li) = true := by
  have hm := updateFlags_mem s p4 parents li true flags
  rw [h] at hm
  obtain ⟨t, ht, _, hh, _⟩ := hm
  exact ⟨t, ht, hh rfl⟩

theorem unmap_ok_is_huge_leaf (s : St) (p4 : Word) (parents : List Nat) (li : Nat) (sz : Nat) (fr : Word)
    (h : (unmap s p4 parents li true sz).1 = .ok fr) :
    ∃ t, tblAt s.mem p4 parents = some t ∧ Pte.huge (s.mem t li) = true := by
  have hm := unmap_mem s p4 parents li true sz
  rw [h] at hm
  obtain ⟨t, ht, _, hh, _⟩ := hm
  exact ⟨t, ht, (hh rfl).1⟩

end X86.C02
