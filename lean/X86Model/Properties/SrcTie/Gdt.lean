/- Source tie for C14 / C15 / C19: privilege levels, segment selectors and descriptors
(`src/lib.rs`, `src/registers/segmentation.rs`, `src/structures/gdt.rs`), translated by
`translator/gen_fns.py`, equal the models of `Model/Gdt.lean` and `Model/Codecs.lean` for all inputs. -/
import X86Model.Properties.SrcTie.Tactic
import X86Model.Model.Gdt
import X86Model.Model.Codecs

set_option linter.unusedSimpArgs false

namespace X86.SrcTie
open X86 X86.Generated

variable (cfg : Cfg)

/-- The erased form of `enum Descriptor { UserSegment(u64), SystemSegment(u64, u64) }` used by the translator:
(tag, first word, second word). -/
def descTuple : Descriptor → BitVec 8 × BitVec 64 × BitVec 64
  | .user v => (0#8, v, 0#64)
  | .system lo hi => (1#8, lo, hi)

instance : Inhabited Descriptor := ⟨.user 0#64⟩
theorem descTuple_cond (c : Bool) (a b : Descriptor) :
    descTuple (bif c then a else b) = bif c then descTuple a else descTuple b := by cases c <;> rfl
theorem descTuple_user (v : BitVec 64) : descTuple (.user v) = (0#8, v, 0#64) := rfl
theorem descTuple_system (lo hi : BitVec 64) : descTuple (.system lo hi) = (1#8, lo, hi) := rfl
theorem descTuple_default : descTuple default = (0#8, 0#64, 0#64) := rfl

theorem tss_size : TaskStateSegment.SIZE_OF = 104 := by decide

/-- Unfold the GDT model down to bit-vector terms, in phases: first the functions, then the helpers that contain an
`if` (converted to `bif` in the same pass, before anything inside their conditions is rewritten - otherwise the
`Decidable` instance of the `if` no longer matches, see `Rust.ite_true_eq_cond`), then the literal range checks of the
`bit_field` transcription, then the constants. -/
macro "tie_gdt" : tactic =>
  `(tactic| ((try simp only [R.ext_obs_iff, Rust.opt_ext_obs_iff, Rust.res_ext_obs_iff, Rust.prod_ext_obs_iff,
                Rust.unit_eq]) <;>
             (try simp only [Descriptor.dpl, Descriptor.tssSegment, bind, pure] at *) <;>
             (try simp only [GdtPrivilegeLevel.fromU16, GdtSelector.new, BitField.getBits, BitField.setBits, tss_size,
                Rust.ite_true_eq_cond] at *) <;>
             (try simp (config := {decide := true}) only [if_true, if_false, ite_true, ite_false,
                Rust.ite_true_eq_cond, Bool.or_true, Bool.true_or, Bool.false_or, Bool.false_and, cond_true, cond_false,
                R.bind_ok, Nat.reduceBEq, Nat.reduceSub] at *) <;>
             (try simp only [DescriptorFlags.PRESENT, DescriptorFlags.DPL_RING_3] at *) <;>
             (repeat (first | src_unfold | rust_obs_simp
                            | simp only [descTuple_cond, descTuple_default, descTuple_user, descTuple_system] at *)) <;>
             bv_decide (config := { timeout := 120 })))

/-- C15: the TSS descriptor built by the source equals the model's, for every pointer. -/
theorem Descriptor_tss_segment_unchecked (ptr : BitVec 64) :
    Src.Descriptor_tss_segment_unchecked cfg ptr = (Descriptor.tssSegment ptr).map descTuple := by tie_gdt

/-- C14/C15: `dpl()` of the source on either kind of descriptor. -/
theorem Descriptor_dpl_user (v : BitVec 64) :
    Src.Descriptor_dpl cfg (descTuple (.user v)) = (Descriptor.dpl (.user v)).map (·.setWidth 8) := by tie_gdt
theorem Descriptor_dpl_system (lo hi : BitVec 64) :
    Src.Descriptor_dpl cfg (descTuple (.system lo hi)) = (Descriptor.dpl (.system lo hi)).map (·.setWidth 8) := by
  tie_gdt

/-- `PrivilegeLevel::from_u16` (the level as its discriminant). -/
theorem PrivilegeLevel_from_u16 (v : BitVec 16) :
    Src.PrivilegeLevel_from_u16 cfg v = (GdtPrivilegeLevel.fromU16 v).map (·.setWidth 8) := by tie_gdt

theorem SegmentSelector_new (i : BitVec 16) (rpl : BitVec 8) :
    Src.SegmentSelector_new cfg i rpl = .ok (GdtSelector.new i (rpl.setWidth 16)) := by tie_gdt
theorem SegmentSelector_index (s : BitVec 16) :
    Src.SegmentSelector_index cfg s = .ok (SegmentSelector.index s) := by
  simp only [SegmentSelector.index]; tie_gdt
/-- `rpl()` never panics and returns bits 0..1. -/
theorem SegmentSelector_rpl (s : BitVec 16) :
    Src.SegmentSelector_rpl cfg s = .ok ((s &&& 3#16).setWidth 8) := by tie_gdt
/-- `set_rpl` replaces bits 0..1 and nothing else (levels 0..3). -/
theorem SegmentSelector_set_rpl (s : BitVec 16) (rpl : BitVec 8) (h : BitVec.ult rpl 4#8 = true) :
    Src.SegmentSelector_set_rpl cfg s rpl = .ok ((), (s &&& ~~~3#16) ||| rpl.setWidth 16) := by tie_gdt

/-! ### the codec model of C19 (`Model/Codecs.lean`: `PrivilegeLevel` as an inductive type whose numbers are the
re-extracted discriminants) -/

/-- the discriminant of a level as the translator represents it -/
def lvl8 (l : PrivilegeLevel) : BitVec 8 := BitVec.ofNat 8 l.toNat

theorem codec_selector_new (i : BitVec 16) (l : PrivilegeLevel) :
    Src.SegmentSelector_new cfg i (lvl8 l) = .ok (X86.SegmentSelector.new i l) := by
  cases l <;> (simp only [lvl8, X86.SegmentSelector.new, PrivilegeLevel.toNat, Generated.PrivilegeLevel_Ring0,
    Generated.PrivilegeLevel_Ring1, Generated.PrivilegeLevel_Ring2, Generated.PrivilegeLevel_Ring3]; tie_gdt)

theorem codec_selector_rpl (s : BitVec 16) :
    (Src.SegmentSelector_rpl cfg s).map some = (X86.SegmentSelector.rpl s).map (fun l => some (lvl8 l)) := by
  rw [SegmentSelector_rpl]
  have h : (s &&& 3#16) = 0#16 ∨ (s &&& 3#16) = 1#16 ∨ (s &&& 3#16) = 2#16 ∨ (s &&& 3#16) = 3#16 := by bv_decide
  have hg : (getBits s 0 2) = s &&& 3#16 := by unfold getBits; bv_decide
  unfold X86.SegmentSelector.rpl
  rw [hg]
  rcases h with h | h | h | h <;> rw [h] <;> rfl

theorem codec_selector_set_rpl (s : BitVec 16) (l : PrivilegeLevel) :
    Src.SegmentSelector_set_rpl cfg s (lvl8 l) = (X86.SegmentSelector.setRpl s l).map fun r => ((), r) := by
  cases l <;> (simp only [lvl8, X86.SegmentSelector.setRpl, setBits, PrivilegeLevel.toNat,
    Generated.PrivilegeLevel_Ring0, Generated.PrivilegeLevel_Ring1, Generated.PrivilegeLevel_Ring2,
    Generated.PrivilegeLevel_Ring3]; simp (config := {decide := true}) only [if_true, ite_true]; tie_gdt)

/-- The four preset descriptors (the flag values are re-extracted from the `bitflags!` block). -/
theorem Descriptor_kernel_code_segment :
    Src.Descriptor_kernel_code_segment cfg = .ok (descTuple Descriptor.kernelCodeSegment) := by
  simp only [Src.Descriptor_kernel_code_segment, Descriptor.kernelCodeSegment, descTuple_user]; decide
theorem Descriptor_kernel_data_segment :
    Src.Descriptor_kernel_data_segment cfg = .ok (descTuple Descriptor.kernelDataSegment) := by
  simp only [Src.Descriptor_kernel_data_segment, Descriptor.kernelDataSegment, descTuple_user]; decide
theorem Descriptor_user_data_segment :
    Src.Descriptor_user_data_segment cfg = .ok (descTuple Descriptor.userDataSegment) := by
  simp only [Src.Descriptor_user_data_segment, Descriptor.userDataSegment, descTuple_user]; decide
theorem Descriptor_user_code_segment :
    Src.Descriptor_user_code_segment cfg = .ok (descTuple Descriptor.userCodeSegment) := by
  simp only [Src.Descriptor_user_code_segment, Descriptor.userCodeSegment, descTuple_user]; decide

end X86.SrcTie
