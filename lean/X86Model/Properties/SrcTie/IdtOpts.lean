/- Source tie for C12: `EntryOptions` (`src/structures/idt.rs`), translated by `translator/gen_fns.py`, equals
the model of `Model/Idt.lean` (whose setter tables are themselves re-extracted from the source by
`translator/gen_idt.py`) for all inputs and both build profiles. Two independent readings of the same source
text - a table of bit positions interpreted by `applyBitSetter`, and a statement-by-statement translation over
`Base/Rust.lean` - are proved to agree. -/
import X86Model.Properties.SrcTie.Tactic
import X86Model.Proofs.Idt

set_option linter.unusedSimpArgs false

namespace X86.SrcTie
open X86 X86.Generated X86.Idt

variable (cfg : Cfg)

/-- The erased form of `struct EntryOptions { cs: SegmentSelector, bits: u16 }` used by the translator. -/
def optTuple (o : EntryOptions) : BitVec 16 × BitVec 16 := (o.cs, o.bits)

/-- a `&mut self` method returning `&mut Self`: the translator returns the new value twice -/
def optRet (o : EntryOptions) : (BitVec 16 × BitVec 16) × (BitVec 16 × BitVec 16) := (optTuple o, optTuple o)

macro "tie_opts" : tactic =>
  `(tactic| ((try simp only [R.ext_obs_iff, Rust.opt_ext_obs_iff, Rust.res_ext_obs_iff, Rust.prod_ext_obs_iff,
                Rust.unit_eq]) <;>
             (try simp only [optRet, optTuple, Rust.ite_true_eq_cond] at *) <;>
             (repeat (first | src_unfold | rust_obs_simp)) <;>
             bv_decide (config := { timeout := 120 })))

theorem EntryOptions_minimal : Src.EntryOptions_minimal cfg = .ok (optTuple EntryOptions.minimal) := by
  rw [minimal_eq]; tie_opts

theorem EntryOptions_set_code_selector (o : EntryOptions) (s : BitVec 16) :
    Src.EntryOptions_set_code_selector cfg (optTuple o) s = (o.setCodeSelector s).map optRet := by
  rw [set_code_selector_eq]; simp only [R.map]; tie_opts

theorem EntryOptions_set_present (o : EntryOptions) (b : Bool) :
    Src.EntryOptions_set_present cfg (optTuple o) b = (o.setPresent cfg b).map optRet := by
  rw [set_present_eq]; simp only [R.map]; cases b <;> tie_opts

theorem EntryOptions_present (o : EntryOptions) :
    Src.EntryOptions_present cfg (optTuple o) = .ok (o.bits.getLsbD 15) := by tie_opts

theorem EntryOptions_disable_interrupts (o : EntryOptions) (b : Bool) :
    Src.EntryOptions_disable_interrupts cfg (optTuple o) b = (o.disableInterrupts cfg b).map optRet := by
  rw [disable_interrupts_eq]; simp only [R.map]; cases b <;> tie_opts

/-- `set_privilege_level(PrivilegeLevel::Ring<d>)`: the level is its discriminant `d` (a `u8` for the translator). -/
theorem EntryOptions_set_privilege_level (o : EntryOptions) (d : BitVec 2) :
    Src.EntryOptions_set_privilege_level cfg (optTuple o) (d.setWidth 8) = (o.setPrivilegeLevel cfg d).map optRet := by
  rw [set_privilege_level_eq]; simp only [R.map]; tie_opts

/-- `privilege_level()` reads bits 13..14 and never panics. -/
theorem EntryOptions_privilege_level (o : EntryOptions) :
    Src.EntryOptions_privilege_level cfg (optTuple o) = .ok (((o.bits >>> 13) &&& 3#16).setWidth 8) := by tie_opts

/-- `set_stack_index_eq` with Boolean conditions -/
theorem set_stack_index_bif (o : EntryOptions) (i : BitVec 16) :
    o.setStackIndex cfg i =
      bif (i == 0xffff#16) && cfg.ovf then .panic
      else bif BitVec.ule (i + 1#16) 7#16 then .ok { o with bits := (o.bits &&& 0xfff8#16) ||| (i + 1#16) }
      else .panic := by
  rw [set_stack_index_eq]
  have hle : (i + 1#16 ≤ 7#16) ↔ BitVec.ule (i + 1#16) 7#16 = true := by
    simp [BitVec.ule, BitVec.le_def]
  have hb : (i == 0xffff#16) = decide (i = 0xffff#16) := by
    by_cases h : i = 0xffff#16 <;> simp [h]
  rw [hb]
  by_cases h : i = 0xffff#16 <;> cases hc : cfg.ovf <;> by_cases h7 : BitVec.ule (i + 1#16) 7#16 = true <;>
    simp [h, hc, h7, hle]

/-- `set_stack_index(i)` of the source in closed form: the `i + 1` overflow panics in a checked build only,
and the sum must fit the three bits of the IST field. -/
theorem EntryOptions_set_stack_index_closed (o : EntryOptions) (i : BitVec 16) :
    Src.EntryOptions_set_stack_index cfg (optTuple o) i =
      bif (i == 0xffff#16) && cfg.ovf then .panic
      else bif BitVec.ule (i + 1#16) 7#16 then
        .ok (optRet { o with bits := (o.bits &&& 0xfff8#16) ||| (i + 1#16) })
      else .panic := by tie_opts

/-- …which is the model's: it panics exactly when the model does and writes the same bits. -/
theorem EntryOptions_set_stack_index (o : EntryOptions) (i : BitVec 16) :
    Src.EntryOptions_set_stack_index cfg (optTuple o) i = (o.setStackIndex cfg i).map optRet := by
  rw [EntryOptions_set_stack_index_closed, set_stack_index_bif]
  cases ((i == 0xffff#16) && cfg.ovf) <;> cases (BitVec.ule (i + 1#16) 7#16) <;> rfl

/-- `stack_index()`: the hardware IST field minus one, `None` for 0. -/
theorem EntryOptions_stack_index (o : EntryOptions) :
    Src.EntryOptions_stack_index cfg (optTuple o) =
      .ok (bif (o.bits &&& 7#16) == 0#16 then none else some ((o.bits &&& 7#16) - 1#16)) := by tie_opts

/-! ### `Entry<F>` -/

/-- The erased form of `struct Entry<F>` (`phantom` dropped). -/
def entTuple (e : Entry) : BitVec 16 × (BitVec 16 × BitVec 16) × BitVec 16 × BitVec 32 × BitVec 32 :=
  (e.pointer_low, optTuple e.options, e.pointer_middle, e.pointer_high, e.reserved)

theorem Entry_missing : Src.Entry_missing cfg = .ok (entTuple Entry.missing) := by
  rw [missing_eq]; simp only [entTuple]; tie_opts

/-- `handler_addr()` reassembles the three pointer parts and sign-extends bit 47, for every entry. -/
theorem Entry_handler_addr (e : Entry) :
    Src.Entry_handler_addr cfg (entTuple e) = .ok e.handlerAddr := by
  simp only [entTuple, Entry.handlerAddr]; tie_opts

end X86.SrcTie
