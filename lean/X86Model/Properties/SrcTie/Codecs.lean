/- Source tie for C19 (and C11's PCIDs): selector error codes (`src/structures/idt.rs`), PCIDs
(`src/instructions/tlb.rs`) and DR7 values (`src/registers/debug.rs`), translated by `translator/gen_fns.py`,
equal the models of `Model/Codecs.lean` for all inputs and both build profiles. -/
import X86Model.Properties.SrcTie.Tactic
import X86Model.Model.Codecs

set_option linter.unusedSimpArgs false

namespace X86.SrcTie
open X86 X86.Generated

variable (cfg : Cfg)

/-- `Dr7Flags::all().bits()` as re-extracted by the constant extractor (`Generated/Consts.lean`). -/
theorem dr7Flags_all : Dr7Flags.all = 0x2bff#64 := by decide +kernel

/-- an `if` on an equation of bit vectors as a `bif` (before anything inside the condition is rewritten) -/
theorem ite_bveq_cond {w : Nat} {α : Type} (a b : BitVec w) (x y : α) :
    (if a = b then x else y) = bif a == b then x else y := by
  by_cases h : a = b
  · simp [h]
  · have : (a == b) = false := by simpa using h
    simp [h, this]

/-- Unfold the codec models to bit-vector terms (the `if`s on `Prop`s first, as `bif`s). -/
macro "tie_codec" : tactic =>
  `(tactic| ((try simp only [R.ext_obs_iff, Rust.opt_ext_obs_iff, Rust.res_ext_obs_iff, Rust.prod_ext_obs_iff,
                Rust.unit_eq]) <;>
             (try simp only [SelectorErrorCode.new, SelectorErrorCode.newTruncate, SelectorErrorCode.external,
                SelectorErrorCode.index, SelectorErrorCode.isNull, Dr7Value.fromBits, Dr7Value.fromBitsTruncate,
                Dr7Value.flags, Dr7Value.insertFlags, Dr7Value.removeFlags, Dr7Value.toggleFlags, Dr7Value.setFlags,
                Dr7Value.validBits, dr7Flags_all, getBits, getBit, Rust.ite_true_eq_cond, ite_bveq_cond] at *) <;>
             (repeat (first | src_unfold | rust_obs_simp)) <;>
             bv_decide (config := { timeout := 120 })))

/-! ### `SelectorErrorCode` -/

theorem SelectorErrorCode_new (v : BitVec 64) :
    Src.SelectorErrorCode_new cfg v = .ok (bif BitVec.ult 65535#64 v then none else some v) := by tie_codec

/-- …which is the model's `new` (stated over `toNat`). -/
theorem SelectorErrorCode_new_model (v : BitVec 64) :
    Src.SelectorErrorCode_new cfg v = .ok (SelectorErrorCode.new v) := by
  rw [SelectorErrorCode_new]
  simp only [SelectorErrorCode.new, BitVec.ult, BitVec.toNat_ofNat, Nat.reducePow, Nat.reduceMod, gt_iff_lt]
  by_cases h : 65535 < v.toNat <;> simp [h]

theorem SelectorErrorCode_new_truncate (v : BitVec 64) :
    Src.SelectorErrorCode_new_truncate cfg v = .ok (SelectorErrorCode.newTruncate v) := by tie_codec
theorem SelectorErrorCode_external (f : BitVec 64) :
    Src.SelectorErrorCode_external cfg f = .ok (SelectorErrorCode.external f) := by tie_codec
theorem SelectorErrorCode_index (f : BitVec 64) :
    Src.SelectorErrorCode_index cfg f = .ok (SelectorErrorCode.index f) := by tie_codec
theorem SelectorErrorCode_is_null (f : BitVec 64) :
    Src.SelectorErrorCode_is_null cfg f = .ok (SelectorErrorCode.isNull f) := by tie_codec

/-! ### `Pcid` -/

theorem Pcid_new (p : BitVec 16) :
    Src.Pcid_new cfg p = .ok (bif BitVec.ule 4096#16 p then .error () else .ok p) := by tie_codec

/-- …which is the model's `Pcid.new` on the number. -/
theorem Pcid_new_model (p : BitVec 16) :
    Src.Pcid_new cfg p = .ok (match Pcid.new p.toNat with | some _ => .ok p | none => .error ()) := by
  rw [Pcid_new]
  simp only [Pcid.new, BitVec.ule, BitVec.toNat_ofNat, Nat.reducePow, Nat.reduceMod, ge_iff_le]
  by_cases h : 4096 ≤ p.toNat <;> simp [h]

theorem Pcid_value (p : BitVec 16) : Src.Pcid_value cfg p = .ok p := by tie_codec

/-! ### `Dr7Value` -/

/-- `valid_bits()` never panics (neither profile) and is the model's mask. -/
theorem Dr7Value_valid_bits : Src.Dr7Value_valid_bits cfg = .ok Dr7Value.validBits := by tie_codec

theorem Dr7Value_from_bits (b : BitVec 64) :
    Src.Dr7Value_from_bits cfg b = .ok (Dr7Value.fromBits b) := by tie_codec
theorem Dr7Value_from_bits_truncate (b : BitVec 64) :
    Src.Dr7Value_from_bits_truncate cfg b = .ok (Dr7Value.fromBitsTruncate b) := by tie_codec
theorem Dr7Value_bits (v : BitVec 64) : Src.Dr7Value_bits cfg v = .ok v := by tie_codec
theorem Dr7Value_flags (v : BitVec 64) : Src.Dr7Value_flags cfg v = .ok (Dr7Value.flags v) := by tie_codec
theorem Dr7Value_insert_flags (v f : BitVec 64) :
    Src.Dr7Value_insert_flags cfg v f = .ok ((), Dr7Value.insertFlags v f) := by tie_codec
theorem Dr7Value_remove_flags (v f : BitVec 64) :
    Src.Dr7Value_remove_flags cfg v f = .ok ((), Dr7Value.removeFlags v f) := by tie_codec
theorem Dr7Value_toggle_flags (v f : BitVec 64) :
    Src.Dr7Value_toggle_flags cfg v f = .ok ((), Dr7Value.toggleFlags v f) := by tie_codec
theorem Dr7Value_set_flags (v f : BitVec 64) (value : Bool) :
    Src.Dr7Value_set_flags cfg v f value = .ok ((), Dr7Value.setFlags v f value) := by tie_codec

end X86.SrcTie
