/- Source tie for C19 (and C11's PCIDs): selector error codes (`src/structures/idt.rs`), PCIDs
(`src/instructions/tlb.rs`) and DR7 values (`src/registers/debug.rs`), translated by `translator/gen_fns.py`,
equal the models of `Model/Codecs.lean` for all inputs and both build profiles. -/
import X86Model.Properties.SrcTie.Tactic
import X86Model.Model.Codecs

set_option linter.unusedSimpArgs false

namespace X86.SrcTie
open X86 X86.Generated

variable (cfg : Cfg)

/-- `Dr7Flags::all().bits()` as re-extracted by the constant extractor (`Generated/Consts.lean`). -/
theorem dr7Flags_all : Dr7Flags.all = 0x2bff#64 := by decide +kernel

/-- an `if` on an equation of bit vectors as a `bif` (before anything inside the condition is rewritten) -/
theorem ite_bveq_cond {w : Nat} {α : Type} (a b : BitVec w) (x y : α) :
    (if a = b then x else y) = bif a == b then x else y := by
  by_cases h : a = b
  · simp [h]
  · have : (a == b) = false := by simpa using h
    simp [h, this]

/-- Unfold the codec models to bit-vector terms (the `if`s on `Prop`s first, as `bif`s). -/
macro "tie_codec" : tactic =>
  `(tactic| ((try simp only [R.ext_obs_iff, Rust.opt_ext_obs_iff, Rust.res_ext_obs_iff, Rust.prod_ext_obs_iff,
                Rust.unit_eq]) <;>
             (try simp only [SelectorErrorCode.new, SelectorErrorCode.newTruncate, SelectorErrorCode.external,
                SelectorErrorCode.index, SelectorErrorCode.isNull, Dr7Value.fromBits, Dr7Value.fromBitsTruncate,
                Dr7Value.flags, Dr7Value.insertFlags, Dr7Value.removeFlags, Dr7Value.toggleFlags, Dr7Value.setFlags,
                Dr7Value.validBits, dr7Flags_all, getBits, getBit, Rust.ite_true_eq_cond, ite_bveq_cond] at *) <;>
             (repeat (first | src_unfold | rust_obs_simp)) <;>
             bv_decide (config := { timeout := 120 })))

/-! ### `SelectorErrorCode` -/

theorem SelectorErrorCode_new (v : BitVec 64) :
    Src.SelectorErrorCode_new cfg v = .ok (bif BitVec.ult 65535#64 v then none else some v) := by tie_codec

/-- …which is the model's `new` (stated over `toNat`). -/
theorem SelectorErrorCode_new_model (v : BitVec 64) :
    Src.SelectorErrorCode_new cfg v = .ok (SelectorErrorCode.new v) := by
  rw [SelectorErrorCode_new]
  simp only [SelectorErrorCode.new, BitVec.ult, BitVec.toNat_ofNat, Nat.reducePow, Nat.reduceMod, gt_iff_lt]
  by_cases h : 65535 < v.toNat <;> simp [h]

theorem SelectorErrorCode_new_truncate (v : BitVec 64) :
    Src.SelectorErrorCode_new_truncate cfg v = .ok (SelectorErrorCode.newTruncate v) := by tie_codec
theorem SelectorErrorCode_external (f : BitVec 64) :
    Src.SelectorErrorCode_external cfg f = .ok (SelectorErrorCode.external f) := by tie_codec
theorem SelectorErrorCode_index (f : BitVec 64) :
    Src.SelectorErrorCode_index cfg f = .ok (SelectorErrorCode.index f) := by tie_codec
theorem SelectorErrorCode_is_null (f : BitVec 64) :
    Src.SelectorErrorCode_is_null cfg f = .ok (SelectorErrorCode.isNull f) := by tie_codec

/-! ### `Pcid` -/

theorem Pcid_new (p : BitVec 16) :
    Src.Pcid_new cfg p = .ok (bif BitVec.ule 4096#16 p then .error () else .ok p) := by tie_codec

/-- …which is the model's `Pcid.new` on the number. -/
theorem Pcid_new_model (p : BitVec 16) :
    Src.Pcid_new cfg p = .ok (match Pcid.new p.toNat with | some _ => .ok p | none => .error ()) := by
  rw [Pcid_new]
  simp only [Pcid.new, BitVec.ule, BitVec.toNat_ofNat, Nat.reducePow, Nat.reduceMod, ge_iff_le]
  by_cases h : 4096 ≤ p.toNat <;> simp [h]

theorem Pcid_value (p : BitVec 16) : Src.Pcid_value cfg p = .ok p := by tie_codec

/-! ### `Dr7Value` -/

/-- `valid_bits()` never panics (neither profile) and is the model's mask. -/
theorem Dr7Value_valid_bits : Src.Dr7Value_valid_bits cfg = .ok Dr7Value.validBits := by tie_codec

theorem Dr7Value_from_bits (b : BitVec 64) :
    Src.Dr7Value_from_bits cfg b = .ok (Dr7Value.fromBits b) := by tie_codec
theorem Dr7Value_from_bits_truncate (b : BitVec 64) :
    Src.Dr7Value_from_bits_truncate cfg b = .ok (Dr7Value.fromBitsTruncate b) := by tie_codec
theorem Dr7Value_bits (v : BitVec 64) : Src.Dr7Value_bits cfg v = .ok v := by tie_codec
theorem Dr7Value_flags (v : BitVec 64) : Src.Dr7Value_flags cfg v = .ok (Dr7Value.flags v) := by tie_codec
theorem Dr7Value_insert_flags (v f : BitVec 64) :
    Src.Dr7Value_insert_flags cfg v f = .ok ((), Dr7Value.insertFlags v f) := by tie_codec
theorem Dr7Value_remove_flags (v f : BitVec 64) :
    Src.Dr7Value_remove_flags cfg v f = .ok ((), Dr7Value.removeFlags v f) := by tie_codec
theorem Dr7Value_toggle_flags (v f : BitVec 64) :
    Src.Dr7Value_toggle_flags cfg v f = .ok ((), Dr7Value.toggleFlags v f) := by tie_codec
theorem Dr7Value_set_flags (v f : BitVec 64) (value : Bool) :
    Src.Dr7Value_set_flags cfg v f value = .ok ((), Dr7Value.setFlags v f value) := by tie_codec

/-- the translator's representation of the unit enums of `debug.rs`: the discriminant as a `u8` -/
def darn8 (n : DebugAddressRegisterNumber) : BitVec 8 := BitVec.ofNat 8 n.get
def bc8 (c : BreakpointCondition) : BitVec 8 := BitVec.ofNat 8 c.toNat
def bs8 (s : BreakpointSize) : BitVec 8 := BitVec.ofNat 8 s.toNat

theorem darn_new_get (n : Nat) :
    (DebugAddressRegisterNumber.new n).map (·.get) = if n < 4 then some n else none := by
  match n with
  | 0 => rfl
  | 1 => rfl
  | 2 => rfl
  | 3 => rfl
  | n + 4 => simp [DebugAddressRegisterNumber.new]

theorem bc_fromBits_toNat (n : Nat) :
    (BreakpointCondition.fromBits n).map (·.toNat) = if n < 4 then some n else none := by
  match n with
  | 0 => rfl
  | 1 => rfl
  | 2 => rfl
  | 3 => rfl
  | n + 4 => simp [BreakpointCondition.fromBits]

theorem bs_fromBits_toNat (n : Nat) :
    (BreakpointSize.fromBits n).map (·.toNat) = if n < 4 then some n else none := by
  match n with
  | 0 => rfl
  | 1 => rfl
  | 2 => rfl
  | 3 => rfl
  | n + 4 => simp [BreakpointSize.fromBits]

/-- `n < 4` on a bit vector, with the number put back -/
theorem lt4_map {w : Nat} (hw : 4 < 2 ^ w) (x : BitVec w) :
    (if x.toNat < 4 then some x.toNat else none).map (BitVec.ofNat 8) =
      bif BitVec.ult x (BitVec.ofNat w 4) then some (x.setWidth 8) else none := by
  have h4 : (BitVec.ofNat w 4).toNat = 4 := by simp [BitVec.toNat_ofNat, Nat.mod_eq_of_lt hw]
  by_cases h : x.toNat < 4
  · have : BitVec.ult x (BitVec.ofNat w 4) = true := by simp [BitVec.ult, h4, h]
    simp only [h, this, if_true, Option.map_some, cond_true]
    congr 1
    apply BitVec.eq_of_toNat_eq
    simp [BitVec.toNat_setWidth]
  · have : BitVec.ult x (BitVec.ofNat w 4) = false := by simp [BitVec.ult, h4, h]
    simp [h, this]


/-! ### The unit enums of `debug.rs` and the accessors that go through them -/

theorem DebugAddressRegisterNumber_new_closed (n : BitVec 8) :
    Src.DebugAddressRegisterNumber_new cfg n = .ok (bif BitVec.ult n 4#8 then some (n.setWidth 8) else none) := by
  tie_codec

/-- `DebugAddressRegisterNumber::new` accepts exactly 0..3, as the model. -/
theorem DebugAddressRegisterNumber_new (n : BitVec 8) :
    Src.DebugAddressRegisterNumber_new cfg n = .ok ((DebugAddressRegisterNumber.new n.toNat).map darn8) := by
  rw [DebugAddressRegisterNumber_new_closed]
  have h := lt4_map (w := 8) (by decide) n
  rw [← darn_new_get, Option.map_map] at h
  exact congrArg R.ok h.symm

theorem DebugAddressRegisterNumber_get (n : DebugAddressRegisterNumber) :
    Src.DebugAddressRegisterNumber_get cfg (darn8 n) = .ok (darn8 n) := by
  cases n <;> simp only [darn8, DebugAddressRegisterNumber.get] <;> tie_codec

theorem Dr6Flags_trap (n : DebugAddressRegisterNumber) :
    Src.Dr6Flags_trap cfg (darn8 n) = .ok (Dr6Flags.trap n) := by
  cases n <;> simp only [darn8, DebugAddressRegisterNumber.get, Dr6Flags.trap] <;> rfl
theorem Dr7Flags_local_breakpoint_enable (n : DebugAddressRegisterNumber) :
    Src.Dr7Flags_local_breakpoint_enable cfg (darn8 n) = .ok (Dr7Flags.localBreakpointEnable n) := by
  cases n <;> simp only [darn8, DebugAddressRegisterNumber.get, Dr7Flags.localBreakpointEnable] <;> rfl
theorem Dr7Flags_global_breakpoint_enable (n : DebugAddressRegisterNumber) :
    Src.Dr7Flags_global_breakpoint_enable cfg (darn8 n) = .ok (Dr7Flags.globalBreakpointEnable n) := by
  cases n <;> simp only [darn8, DebugAddressRegisterNumber.get, Dr7Flags.globalBreakpointEnable] <;> rfl

theorem BreakpointCondition_from_bits_closed (b : BitVec 64) :
    Src.BreakpointCondition_from_bits cfg b = .ok (bif BitVec.ult b 4#64 then some (b.setWidth 8) else none) := by
  tie_codec
theorem BreakpointCondition_from_bits (b : BitVec 64) :
    Src.BreakpointCondition_from_bits cfg b = .ok ((BreakpointCondition.fromBits b.toNat).map bc8) := by
  rw [BreakpointCondition_from_bits_closed]
  have h := lt4_map (w := 64) (by decide) b
  rw [← bc_fromBits_toNat, Option.map_map] at h
  exact congrArg R.ok h.symm

theorem BreakpointSize_from_bits_closed (b : BitVec 64) :
    Src.BreakpointSize_from_bits cfg b = .ok (bif BitVec.ult b 4#64 then some (b.setWidth 8) else none) := by
  tie_codec
theorem BreakpointSize_from_bits (b : BitVec 64) :
    Src.BreakpointSize_from_bits cfg b = .ok ((BreakpointSize.fromBits b.toNat).map bs8) := by
  rw [BreakpointSize_from_bits_closed]
  have h := lt4_map (w := 64) (by decide) b
  rw [← bs_fromBits_toNat, Option.map_map] at h
  exact congrArg R.ok h.symm

/-- `BreakpointSize::new(size)`: 1, 2, 8, 4 bytes ↦ LEN encodings 0, 1, 2, 3; nothing else. -/
theorem BreakpointSize_new_closed (s : BitVec 64) :
    Src.BreakpointSize_new cfg s = .ok (bif s == 1#64 then some 0#8 else bif s == 2#64 then some 1#8
      else bif s == 8#64 then some 2#8 else bif s == 4#64 then some 3#8 else none) := by
  tie_codec

/-- `bit_range(n)` never panics (no profile) and is `lsb n .. lsb n + 2`. -/
theorem BreakpointCondition_bit_range (n : DebugAddressRegisterNumber) :
    Src.BreakpointCondition_bit_range cfg (darn8 n) =
      .ok (BitVec.ofNat 64 (BreakpointCondition.lsb n), BitVec.ofNat 64 (BreakpointCondition.lsb n + 2)) := by
  cases n <;> simp only [darn8, DebugAddressRegisterNumber.get, BreakpointCondition.lsb] <;> tie_codec
theorem BreakpointSize_bit_range (n : DebugAddressRegisterNumber) :
    Src.BreakpointSize_bit_range cfg (darn8 n) =
      .ok (BitVec.ofNat 64 (BreakpointSize.lsb n), BitVec.ofNat 64 (BreakpointSize.lsb n + 2)) := by
  cases n <;> simp only [darn8, DebugAddressRegisterNumber.get, BreakpointSize.lsb] <;> tie_codec

/-- `condition(n)` never panics and returns the two bits at `16 + 4n`. -/
theorem Dr7Value_condition_closed (v : BitVec 64) (n : DebugAddressRegisterNumber) :
    Src.Dr7Value_condition cfg v (darn8 n) =
      .ok (((v >>> BreakpointCondition.lsb n) &&& 3#64).setWidth 8) := by
  cases n <;> simp only [darn8, DebugAddressRegisterNumber.get, BreakpointCondition.lsb] <;> tie_codec
theorem Dr7Value_size_closed (v : BitVec 64) (n : DebugAddressRegisterNumber) :
    Src.Dr7Value_size cfg v (darn8 n) = .ok (((v >>> BreakpointSize.lsb n) &&& 3#64).setWidth 8) := by
  cases n <;> simp only [darn8, DebugAddressRegisterNumber.get, BreakpointSize.lsb] <;> tie_codec

/-- `set_condition(n, c)` / `set_size(n, s)` replace exactly the two-bit field and never panic: the model's `setBits`. -/
theorem Dr7Value_set_condition (v : BitVec 64) (n : DebugAddressRegisterNumber) (c : BreakpointCondition) :
    Src.Dr7Value_set_condition cfg v (darn8 n) (bc8 c) = (Dr7Value.setCondition v n c).map (fun x => ((), x)) := by
  cases n <;> cases c <;>
    simp only [darn8, bc8, DebugAddressRegisterNumber.get, BreakpointCondition.lsb, BreakpointCondition.toNat,
      Dr7Value.setCondition, setBits, Generated.BreakpointCondition_InstructionExecution,
      Generated.BreakpointCondition_DataWrites, Generated.BreakpointCondition_IoReadsWrites,
      Generated.BreakpointCondition_DataReadsWrites] <;>
    simp (config := {decide := true}) only [BitVec.toNat_ofNat, Nat.reducePow, Nat.reduceMod, Nat.reduceLT, if_true,
      R.map, Nat.reduceMul, Nat.reduceAdd, Nat.reduceSub] <;>
    tie_codec
theorem Dr7Value_set_size (v : BitVec 64) (n : DebugAddressRegisterNumber) (s : BreakpointSize) :
    Src.Dr7Value_set_size cfg v (darn8 n) (bs8 s) = (Dr7Value.setSize v n s).map (fun x => ((), x)) := by
  cases n <;> cases s <;>
    simp only [darn8, bs8, DebugAddressRegisterNumber.get, BreakpointSize.lsb, BreakpointSize.toNat,
      Dr7Value.setSize, setBits, Generated.BreakpointSize_Length1B, Generated.BreakpointSize_Length2B,
      Generated.BreakpointSize_Length8B, Generated.BreakpointSize_Length4B] <;>
    simp (config := {decide := true}) only [BitVec.toNat_ofNat, Nat.reducePow, Nat.reduceMod, Nat.reduceLT, if_true,
      R.map, Nat.reduceMul, Nat.reduceAdd, Nat.reduceSub] <;>
    tie_codec

theorem ofOption_map_closed {α : Type} (f : Nat → Option α) (g : α → Nat)
    (hf : ∀ n, (f n).map g = if n < 4 then some n else none) (x : BitVec 64) (hx : x.toNat < 4) :
    (R.ofOption (f x.toNat)).map (fun a => BitVec.ofNat 8 (g a)) = .ok (x.setWidth 8) := by
  have h := hf x.toNat
  rw [if_pos hx] at h
  cases hfx : f x.toNat with
  | none => rw [hfx] at h; cases h
  | some a =>
    rw [hfx] at h
    have hg : g a = x.toNat := by simpa using h
    simp only [R.ofOption, R.map, hg]
    congr 1

theorem field2_lt (v : BitVec 64) (l : Nat) : (getBits v l 2).toNat < 4 := by
  simp only [getBits, BitVec.toNat_and, BitVec.toNat_ofNat]
  have : v.toNat >>> l &&& 3 ≤ 3 := Nat.and_le_right
  simp only [Nat.reducePow, Nat.reduceSub, Nat.reduceMod, BitVec.toNat_ushiftRight]
  omega

theorem Dr7Value_condition (v : BitVec 64) (n : DebugAddressRegisterNumber) :
    Src.Dr7Value_condition cfg v (darn8 n) = (Dr7Value.condition v n).map bc8 := by
  rw [Dr7Value_condition_closed]
  have h := ofOption_map_closed BreakpointCondition.fromBits BreakpointCondition.toNat bc_fromBits_toNat
    (getBits v (BreakpointCondition.lsb n) 2) (field2_lt v _)
  have e : (bc8 : BreakpointCondition → BitVec 8) = fun a => BitVec.ofNat 8 (BreakpointCondition.toNat a) := rfl
  rw [Dr7Value.condition, e, h]
  rfl

theorem Dr7Value_size (v : BitVec 64) (n : DebugAddressRegisterNumber) :
    Src.Dr7Value_size cfg v (darn8 n) = (Dr7Value.size v n).map bs8 := by
  rw [Dr7Value_size_closed]
  have h := ofOption_map_closed BreakpointSize.fromBits BreakpointSize.toNat bs_fromBits_toNat
    (getBits v (BreakpointSize.lsb n) 2) (field2_lt v _)
  have e : (bs8 : BreakpointSize → BitVec 8) = fun a => BitVec.ofNat 8 (BreakpointSize.toNat a) := rfl
  rw [Dr7Value.size, e, h]
  rfl

theorem bs_new_toNat (n : Nat) :
    (BreakpointSize.new n).map bs8 =
      if n = 1 then some 0#8 else if n = 2 then some 1#8 else if n = 8 then some 2#8 else if n = 4 then some 3#8
      else none := by
  match n with
  | 0 => rfl
  | 1 => rfl
  | 2 => rfl
  | 3 => rfl
  | 4 => rfl
  | 5 => rfl
  | 6 => rfl
  | 7 => rfl
  | 8 => rfl
  | n + 9 => simp [BreakpointSize.new]

/-- `BreakpointSize::new` is the model's, for every `usize`. -/
theorem BreakpointSize_new (s : BitVec 64) :
    Src.BreakpointSize_new cfg s = .ok ((BreakpointSize.new s.toNat).map bs8) := by
  rw [BreakpointSize_new_closed, bs_new_toNat]
  have e (k : Nat) (hk : k < 2 ^ 64) : (s == BitVec.ofNat 64 k) = decide (s.toNat = k) := by
    by_cases h : s.toNat = k
    · have : s = BitVec.ofNat 64 k := by apply BitVec.eq_of_toNat_eq; simp [h, Nat.mod_eq_of_lt hk]
      simp [this, Nat.mod_eq_of_lt hk]
    · have : ¬ s = BitVec.ofNat 64 k := by intro hs; apply h; rw [hs]; simp [Nat.mod_eq_of_lt hk]
      simp [h, this]
  rw [e 1 (by decide), e 2 (by decide), e 8 (by decide), e 4 (by decide)]
  by_cases h1 : s.toNat = 1 <;> by_cases h2 : s.toNat = 2 <;> by_cases h8 : s.toNat = 8 <;>
    by_cases h4 : s.toNat = 4 <;> simp [h1, h2, h8, h4]

/-- `descriptor_table()` never panics: bits 1..2 ↦ GDT, IDT, LDT, IDT (discriminants 0, 1, 2, 1). -/
theorem SelectorErrorCode_descriptor_table (f : BitVec 64) :
    Src.SelectorErrorCode_descriptor_table cfg f =
      .ok (bif ((f >>> 1) &&& 3#64) == 0#64 then 0#8 else bif ((f >>> 1) &&& 3#64) == 2#64 then 2#8 else 1#8) := by
  tie_codec

/-! ### `ExceptionVector::try_from(u8)`, `PatMemoryType` - all 256 inputs, decided by the kernel -/

def ev8 (v : ExceptionVector) : BitVec 8 := BitVec.ofNat 8 v.toU8
def pat8 (p : PatMemoryType) : BitVec 8 := BitVec.ofNat 8 p.bits

def resOfOpt {α : Type} : Option α → Except Unit α
  | some a => .ok a
  | none => .error ()

instance : DecidableEq (Except Unit (BitVec 8)) := fun a b =>
  match a, b with
  | .ok x, .ok y => if h : x = y then isTrue (h ▸ rfl) else isFalse (by intro e; cases e; exact h rfl)
  | .error _, .error _ => isTrue rfl
  | .ok _, .error _ => isFalse (by intro e; cases e)
  | .error _, .ok _ => isFalse (by intro e; cases e)

theorem ExceptionVector_try_from (n : BitVec 8) :
    Src.ExceptionVector_try_from_u8 cfg n = .ok (resOfOpt ((ExceptionVector.tryFrom n.toNat).map ev8)) := by
  cases cfg with
  | mk ovf => cases ovf <;> revert n <;> decide +kernel

theorem PatMemoryType_from_bits (n : BitVec 8) :
    Src.PatMemoryType_from_bits cfg n = .ok ((PatMemoryType.fromBits n.toNat).map pat8) := by
  cases cfg with
  | mk ovf => cases ovf <;> revert n <;> decide +kernel

theorem PatMemoryType_bits (p : PatMemoryType) : Src.PatMemoryType_bits cfg (pat8 p) = .ok (pat8 p) := rfl
end X86.SrcTie
