/-
The tie between the Rust source and the models, as theorems (stage A).

For every function translated by `translator/gen_fns.py` (`Generated/SrcFns.lean`, regenerated from /repo's
working tree on every run) the generated definition is *equal* to its reference definition in
`Model/RefBV.lean`, for all inputs and both build profiles. Each proof is `src_tie`: extensionality over the
observations of the result, unfolding of every generated and reference definition, and `bv_decide` on the
remaining bit-vector formula. `Proofs/RefBridge.lean` (stage B) carries the reference definitions over to the
`Nat` models the property theorems are stated about.

A change of the source that changes behaviour makes the corresponding theorem here fail (the Lean build of
the property breaks: DESIGN.md section 6, rule 2); a rewrite that preserves behaviour and stays inside the
translator's subset leaves every proof as it is.
-/
import X86Model.Proofs.RustObs
import X86Model.Generated.SrcFns
import X86Model.Model.RefBV

namespace X86.SrcTie
open X86 X86.Generated

/-- extensionality (as rewriting with the `*_ext_obs_iff` lemmas), then unfold everything, then decide -/
macro "tie" : tactic =>
  `(tactic| ((try simp only [R.ext_obs_iff, Rust.opt_ext_obs_iff, Rust.res_ext_obs_iff, Rust.prod_ext_obs_iff,
                Rust.unit_eq]) <;>
             (repeat (first | src_unfold | ref_unfold | rust_obs_simp)) <;> bv_decide (config := { timeout := 120 })))

/-- Compositional variant: unfold only the listed generated definitions, rewrite calls of other translated
functions with their (already proved) tie theorems, then proceed as `tie`. Keeps the terms small: a chain of
`R.bind`s over fully unfolded callees doubles in size with every level. Side conditions of the tie theorems
(`IsPageSize sz` for a concrete `sz`) are discharged by reflexivity. -/
macro "tie_disch" : tactic =>
  `(tactic| first | exact RefBV.isPageSize_4K | exact RefBV.isPageSize_2M | exact RefBV.isPageSize_1G | assumption)

syntax "tie_using" "[" Lean.Parser.Tactic.simpLemma,* "]" "[" Lean.Parser.Tactic.simpLemma,* "]" : tactic
macro_rules
  | `(tactic| tie_using [$us,*] [$ls,*]) => `(tactic|
      ((try simp only [R.ext_obs_iff, Rust.opt_ext_obs_iff, Rust.res_ext_obs_iff, Rust.prod_ext_obs_iff,
                Rust.unit_eq]) <;>
       (simp only [$us,*]) <;>
       (try simp (disch := tie_disch) only [$ls,*, R.bind_ok]) <;>
       (repeat (first | ref_unfold | rust_obs_simp)) <;> bv_decide (config := { timeout := 120 })))

end X86.SrcTie
