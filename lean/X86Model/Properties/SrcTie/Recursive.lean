/- Source tie for C20: the recursive-address helpers `p3_page`, `p2_page`, `p1_page` of
`recursive_page_table.rs` (translated by `translator/gen_fns.py`) equal the model `Recursive.p{3,2,1}Page`
for every page, every page size and every recursive index below 512. -/
import X86Model.Properties.SrcTie.Tactic
import X86Model.Properties.SrcTie.Addr
import X86Model.Properties.SrcTie.Page
import X86Model.Proofs.RefBridge
import X86Model.Model.Recursive

set_option linter.unusedSimpArgs false

namespace X86.SrcTie
open X86 X86.Generated

variable (cfg : Cfg)

theorem p4Index_lt (a : BitVec 64) : BitVec.ult (RefBV.VirtAddr.p4Index a) 512#16 = true := by
  unfold RefBV.VirtAddr.p4Index; bv_decide
theorem p3Index_lt (a : BitVec 64) : BitVec.ult (RefBV.VirtAddr.p3Index a) 512#16 = true := by
  unfold RefBV.VirtAddr.p3Index; bv_decide
theorem p2Index_lt (a : BitVec 64) : BitVec.ult (RefBV.VirtAddr.p2Index a) 512#16 = true := by
  unfold RefBV.VirtAddr.p2Index; bv_decide

theorem rec_p3_page (sz page : BitVec 64) (r : BitVec 16) (hr : BitVec.ult r 512#16 = true) :
    Src.rec_p3_page cfg sz page r = .ok (RefBV.Page.fromIndices4K r r r (RefBV.VirtAddr.p4Index page)) := by
  unfold Src.rec_p3_page
  rw [Page_p4_index, R.bind_ok]
  rw [Page_from_page_table_indices cfg r r r _ hr hr hr (p4Index_lt page)]

theorem rec_p2_page (sz page : BitVec 64) (r : BitVec 16) (hr : BitVec.ult r 512#16 = true) :
    Src.rec_p2_page cfg sz page r
      = .ok (RefBV.Page.fromIndices4K r r (RefBV.VirtAddr.p4Index page) (RefBV.VirtAddr.p3Index page)) := by
  unfold Src.rec_p2_page
  rw [Page_p4_index, R.bind_ok, Page_p3_index, R.bind_ok]
  rw [Page_from_page_table_indices cfg r r _ _ hr hr (p4Index_lt page) (p3Index_lt page)]

theorem rec_p1_page (page : BitVec 64) (r : BitVec 16) (hr : BitVec.ult r 512#16 = true) :
    Src.rec_p1_page cfg page r
      = .ok (RefBV.Page.fromIndices4K r (RefBV.VirtAddr.p4Index page) (RefBV.VirtAddr.p3Index page)
              (RefBV.VirtAddr.p2Index page)) := by
  unfold Src.rec_p1_page
  rw [Page_p4_index, R.bind_ok, Page_p3_index, R.bind_ok, Page_p2_index, R.bind_ok]
  rw [Page_from_page_table_indices cfg r _ _ _ hr (p4Index_lt page) (p3Index_lt page) (p2Index_lt page)]

/-! ### down to the `Nat` model of C20 -/

theorem rec_p3_page_model (sz page : BitVec 64) (r : BitVec 16) (hr : BitVec.ult r 512#16 = true) :
    (Src.rec_p3_page cfg sz page r).map BitVec.toNat = .ok (Recursive.p3Page page.toNat r.toNat) := by
  rw [rec_p3_page cfg sz page r hr]
  simp only [R.map_ok, RefBridge.Page.fromIndices4K_toNat, RefBridge.VirtAddr.p4Index_toNat, Recursive.p3Page,
    Page.p4Index]

theorem rec_p2_page_model (sz page : BitVec 64) (r : BitVec 16) (hr : BitVec.ult r 512#16 = true) :
    (Src.rec_p2_page cfg sz page r).map BitVec.toNat = .ok (Recursive.p2Page page.toNat r.toNat) := by
  rw [rec_p2_page cfg sz page r hr]
  simp only [R.map_ok, RefBridge.Page.fromIndices4K_toNat, RefBridge.VirtAddr.p4Index_toNat,
    RefBridge.VirtAddr.p3Index_toNat, Recursive.p2Page, Page.p4Index, Page.p3Index]

theorem rec_p1_page_model (page : BitVec 64) (r : BitVec 16) (hr : BitVec.ult r 512#16 = true) :
    (Src.rec_p1_page cfg page r).map BitVec.toNat = .ok (Recursive.p1Page page.toNat r.toNat) := by
  rw [rec_p1_page cfg page r hr]
  simp only [R.map_ok, RefBridge.Page.fromIndices4K_toNat, RefBridge.VirtAddr.p4Index_toNat,
    RefBridge.VirtAddr.p3Index_toNat, RefBridge.VirtAddr.p2Index_toNat, Recursive.p1Page, Page.p4Index,
    Page.p3Index, Page.p2Index]

end X86.SrcTie
