/- Stage A of the source tie: `src/addr.rs`, and the index/offset/level types of `page_table.rs`. -/
import X86Model.Properties.SrcTie.Tactic

set_option linter.unusedSimpArgs false

namespace X86.SrcTie
open X86 X86.Generated

variable (cfg : Cfg)

/-! ### `src/addr.rs` -/

theorem align_down (a al : BitVec 64) : Src.align_down cfg a al = RefBV.alignDown a al := by tie
theorem align_up (a al : BitVec 64) : Src.align_up cfg a al = RefBV.alignUp a al := by tie

theorem VirtAddr_new_truncate (a : BitVec 64) :
    Src.VirtAddr_new_truncate cfg a = .ok (RefBV.VirtAddr.newTruncate a) := by tie
theorem VirtAddr_try_new (a : BitVec 64) :
    Src.VirtAddr_try_new cfg a = .ok (Rust.onOpt (RefBV.VirtAddr.tryNew a) Except.ok (Except.error ())) := by tie
theorem VirtAddr_new (a : BitVec 64) : Src.VirtAddr_new cfg a = RefBV.VirtAddr.new a := by tie
theorem VirtAddr_zero : Src.VirtAddr_zero cfg = .ok 0 := by tie
theorem VirtAddr_as_u64 (a : BitVec 64) : Src.VirtAddr_as_u64 cfg a = .ok a := by tie
theorem VirtAddr_is_null (a : BitVec 64) : Src.VirtAddr_is_null cfg a = .ok (a == 0) := by tie
theorem VirtAddr_align_up (a al : BitVec 64) : Src.VirtAddr_align_up cfg a al = RefBV.VirtAddr.alignUp a al := by tie
theorem VirtAddr_align_down (a al : BitVec 64) :
    Src.VirtAddr_align_down cfg a al = RefBV.VirtAddr.alignDown a al := by tie
theorem VirtAddr_align_down_u64 (a al : BitVec 64) :
    Src.VirtAddr_align_down_u64 cfg a al = RefBV.VirtAddr.alignDown a al := by tie
theorem VirtAddr_is_aligned (a al : BitVec 64) :
    Src.VirtAddr_is_aligned cfg a al = RefBV.VirtAddr.isAligned a al := by tie
theorem VirtAddr_is_aligned_u64 (a al : BitVec 64) :
    Src.VirtAddr_is_aligned_u64 cfg a al = RefBV.VirtAddr.isAligned a al := by tie
theorem VirtAddr_page_offset (a : BitVec 64) :
    Src.VirtAddr_page_offset cfg a = .ok (RefBV.VirtAddr.pageOffset a) := by tie
theorem VirtAddr_p1_index (a : BitVec 64) : Src.VirtAddr_p1_index cfg a = .ok (RefBV.VirtAddr.p1Index a) := by tie
theorem VirtAddr_p2_index (a : BitVec 64) : Src.VirtAddr_p2_index cfg a = .ok (RefBV.VirtAddr.p2Index a) := by tie
theorem VirtAddr_p3_index (a : BitVec 64) : Src.VirtAddr_p3_index cfg a = .ok (RefBV.VirtAddr.p3Index a) := by tie
theorem VirtAddr_p4_index (a : BitVec 64) : Src.VirtAddr_p4_index cfg a = .ok (RefBV.VirtAddr.p4Index a) := by tie
theorem VirtAddr_page_table_index (a : BitVec 64) (l : BitVec 8) (hl : l = 1 ∨ l = 2 ∨ l = 3 ∨ l = 4) :
    Src.VirtAddr_page_table_index cfg a l = .ok (RefBV.VirtAddr.pageTableIndex a l) := by
  rcases hl with rfl | rfl | rfl | rfl <;> tie
theorem VirtAddr_steps_between_u64 (s e : BitVec 64) :
    Src.VirtAddr_steps_between_u64 cfg s e = .ok (RefBV.VirtAddr.stepsBetweenU64 s e) := by tie
theorem VirtAddr_steps_between_impl (s e : BitVec 64) :
    Src.VirtAddr_steps_between_impl cfg s e = .ok (RefBV.VirtAddr.stepsBetweenImpl s e) := by tie
theorem VirtAddr_Step_steps_between (s e : BitVec 64) :
    Src.VirtAddr_Step_steps_between cfg s e = .ok (RefBV.VirtAddr.stepsBetweenImpl s e) := by tie
theorem VirtAddr_forward_checked_u64 (s c : BitVec 64) :
    Src.VirtAddr_forward_checked_u64 cfg s c = .ok (RefBV.VirtAddr.forwardCheckedU64 s c) := by tie
theorem VirtAddr_forward_checked_impl (s c : BitVec 64) :
    Src.VirtAddr_forward_checked_impl cfg s c = .ok (RefBV.VirtAddr.forwardCheckedU64 s c) := by tie
theorem VirtAddr_Step_forward_checked (s c : BitVec 64) :
    Src.VirtAddr_Step_forward_checked cfg s c = .ok (RefBV.VirtAddr.forwardCheckedU64 s c) := by tie
theorem VirtAddr_backward_checked_u64 (s c : BitVec 64) :
    Src.VirtAddr_backward_checked_u64 cfg s c = .ok (RefBV.VirtAddr.backwardCheckedU64 s c) := by tie
theorem VirtAddr_Step_backward_checked (s c : BitVec 64) :
    Src.VirtAddr_Step_backward_checked cfg s c = .ok (RefBV.VirtAddr.backwardCheckedU64 s c) := by tie
theorem VirtAddr_add_u64 (a n : BitVec 64) : Src.VirtAddr_add_u64 cfg a n = RefBV.VirtAddr.add a n := by tie
theorem VirtAddr_add_assign_u64 (a n : BitVec 64) :
    Src.VirtAddr_add_assign_u64 cfg a n = (RefBV.VirtAddr.add a n).map fun r => ((), r) := by tie
theorem VirtAddr_sub_u64 (a n : BitVec 64) : Src.VirtAddr_sub_u64 cfg a n = RefBV.VirtAddr.sub a n := by tie
theorem VirtAddr_sub_assign_u64 (a n : BitVec 64) :
    Src.VirtAddr_sub_assign_u64 cfg a n = (RefBV.VirtAddr.sub a n).map fun r => ((), r) := by tie
theorem VirtAddr_sub_VirtAddr (a b : BitVec 64) :
    Src.VirtAddr_sub_VirtAddr cfg a b = RefBV.VirtAddr.subAddr a b := by tie

theorem PhysAddr_new_truncate (a : BitVec 64) :
    Src.PhysAddr_new_truncate cfg a = .ok (RefBV.PhysAddr.newTruncate a) := by tie
theorem PhysAddr_try_new (a : BitVec 64) :
    Src.PhysAddr_try_new cfg a = .ok (Rust.onOpt (RefBV.PhysAddr.tryNew a) Except.ok (Except.error ())) := by tie
theorem PhysAddr_new (a : BitVec 64) : Src.PhysAddr_new cfg a = RefBV.PhysAddr.new a := by tie
theorem PhysAddr_zero : Src.PhysAddr_zero cfg = .ok 0 := by tie
theorem PhysAddr_as_u64 (a : BitVec 64) : Src.PhysAddr_as_u64 cfg a = .ok a := by tie
theorem PhysAddr_is_null (a : BitVec 64) : Src.PhysAddr_is_null cfg a = .ok (a == 0) := by tie
theorem PhysAddr_align_up (a al : BitVec 64) : Src.PhysAddr_align_up cfg a al = RefBV.PhysAddr.alignUp a al := by tie
theorem PhysAddr_align_down (a al : BitVec 64) :
    Src.PhysAddr_align_down cfg a al = RefBV.PhysAddr.alignDown a al := by tie
theorem PhysAddr_align_down_u64 (a al : BitVec 64) :
    Src.PhysAddr_align_down_u64 cfg a al = RefBV.PhysAddr.alignDown a al := by tie
theorem PhysAddr_is_aligned (a al : BitVec 64) :
    Src.PhysAddr_is_aligned cfg a al = RefBV.PhysAddr.isAligned a al := by tie
theorem PhysAddr_is_aligned_u64 (a al : BitVec 64) :
    Src.PhysAddr_is_aligned_u64 cfg a al = RefBV.PhysAddr.isAligned a al := by tie
theorem PhysAddr_add_u64 (a n : BitVec 64) : Src.PhysAddr_add_u64 cfg a n = RefBV.PhysAddr.add a n := by tie
theorem PhysAddr_add_assign_u64 (a n : BitVec 64) :
    Src.PhysAddr_add_assign_u64 cfg a n = (RefBV.PhysAddr.add a n).map fun r => ((), r) := by tie
theorem PhysAddr_sub_u64 (a n : BitVec 64) : Src.PhysAddr_sub_u64 cfg a n = RefBV.PhysAddr.sub a n := by tie
theorem PhysAddr_sub_assign_u64 (a n : BitVec 64) :
    Src.PhysAddr_sub_assign_u64 cfg a n = (RefBV.PhysAddr.sub a n).map fun r => ((), r) := by tie
theorem PhysAddr_sub_PhysAddr (a b : BitVec 64) :
    Src.PhysAddr_sub_PhysAddr cfg a b = RefBV.PhysAddr.subAddr a b := by tie

/-! ### `src/structures/paging/page_table.rs`: indices, offsets, levels -/

theorem PageTableIndex_new (i : BitVec 16) : Src.PageTableIndex_new cfg i = RefBV.PageTableIndex.new i := by tie
theorem PageTableIndex_new_truncate (i : BitVec 16) :
    Src.PageTableIndex_new_truncate cfg i = .ok (RefBV.PageTableIndex.newTruncate i) := by tie
theorem PageTableIndex_into_u64 (i : BitVec 16) : Src.PageTableIndex_into_u64 cfg i = .ok (i.setWidth 64) := by tie
theorem PageTableIndex_Step_steps_between (s e : BitVec 16) :
    Src.PageTableIndex_Step_steps_between cfg s e = .ok (RefBV.PageTableIndex.stepsBetween s e) := by tie
/-- `forward_checked` on an index below 512 (the type's invariant): never panics. -/
theorem PageTableIndex_Step_forward_checked (i : BitVec 16) (c : BitVec 64) :
    Src.PageTableIndex_Step_forward_checked cfg i c = .ok (RefBV.PageTableIndex.forwardChecked i c) := by tie
theorem PageTableIndex_Step_backward_checked (i : BitVec 16) (c : BitVec 64) (hi : BitVec.ult i 512#16 = true) :
    Src.PageTableIndex_Step_backward_checked cfg i c = .ok (RefBV.PageTableIndex.backwardChecked i c) := by tie
theorem PageOffset_new (o : BitVec 16) : Src.PageOffset_new cfg o = RefBV.PageOffset.new o := by tie
theorem PageOffset_new_truncate (o : BitVec 16) :
    Src.PageOffset_new_truncate cfg o = .ok (RefBV.PageOffset.newTruncate o) := by tie
theorem PageTableLevel_next_lower_level (l : BitVec 8) :
    Src.PageTableLevel_next_lower_level cfg l = .ok (RefBV.PageTableLevel.nextLower l) := by tie
theorem PageTableLevel_next_higher_level (l : BitVec 8) :
    Src.PageTableLevel_next_higher_level cfg l = .ok (RefBV.PageTableLevel.nextHigher l) := by tie
theorem PageTableLevel_table_address_space_alignment (l : BitVec 8) (hl : l = 1 ∨ l = 2 ∨ l = 3 ∨ l = 4) :
    Src.PageTableLevel_table_address_space_alignment cfg l = .ok (RefBV.PageTableLevel.tableAlign l) := by
  rcases hl with rfl | rfl | rfl | rfl <;> tie
theorem PageTableLevel_entry_address_space_alignment (l : BitVec 8) (hl : l = 1 ∨ l = 2 ∨ l = 3 ∨ l = 4) :
    Src.PageTableLevel_entry_address_space_alignment cfg l = .ok (RefBV.PageTableLevel.entryAlign l) := by
  rcases hl with rfl | rfl | rfl | rfl <;> tie

end X86.SrcTie
