/- Stage A of the source tie: `PageTableEntry`. -/
import X86Model.Properties.SrcTie.Tactic
import X86Model.Model.Entry
set_option linter.unusedSimpArgs false

namespace X86.SrcTie
open X86 X86.Generated

variable (cfg : Cfg)

/-! ### `PageTableEntry` (the model of C08, `Model/Entry.lean`, is already bit-vector level) -/

theorem ptflags_all : PTFlags.all = 0xfff0000000001fff#64 := by decide

/-- Unfold the entry model. The definitions that contain an `if` are unfolded first, together with the
`if`-to-`bif` conversion, before anything inside their conditions is touched (see `Rust.ite_true_eq_cond`). -/
macro "entry_unfold1" : tactic =>
  `(tactic| simp only [Entry.addrR, Entry.frame, Entry.setAddr, Entry.setFrame, Rust.ite_true_eq_cond] at *)
macro "entry_unfold2" : tactic =>
  `(tactic| simp only [Entry.new, Entry.isUnused, Entry.setUnused, Entry.flags, Entry.addr, Entry.setFlags,
      Entry.alignDown, Entry.isAligned, Entry.ADDR_MASK, Entry.PAGE_SIZE, PTFlags.fromBitsTruncate,
      PTFlags.contains, PTFlags.PRESENT, ptflags_all] at *)

macro "tie_entry" : tactic =>
  `(tactic| ((try simp only [R.ext_obs_iff, Rust.opt_ext_obs_iff, Rust.res_ext_obs_iff, Rust.prod_ext_obs_iff,
                Rust.unit_eq]) <;>
             (repeat (first | src_unfold | ref_unfold | entry_unfold1 | entry_unfold2 | rust_obs_simp)) <;>
             bv_decide (config := { timeout := 120 })))

theorem PageTableEntry_new : Src.PageTableEntry_new cfg = .ok Entry.new := by tie_entry
theorem PageTableEntry_is_unused (e : BitVec 64) :
    Src.PageTableEntry_is_unused cfg e = .ok (Entry.isUnused e) := by tie_entry
theorem PageTableEntry_set_unused (e : BitVec 64) :
    Src.PageTableEntry_set_unused cfg e = .ok ((), Entry.setUnused e) := by tie_entry
theorem PageTableEntry_flags (e : BitVec 64) : Src.PageTableEntry_flags cfg e = .ok (Entry.flags e) := by tie_entry
theorem PageTableEntry_addr (e : BitVec 64) : Src.PageTableEntry_addr cfg e = Entry.addrR e := by tie_entry
/-- `addr()` never panics: the masked value always is a valid physical address. -/
theorem PageTableEntry_addr_ok (e : BitVec 64) : Src.PageTableEntry_addr cfg e = .ok (Entry.addr e) := by tie_entry
theorem PageTableEntry_frame (e : BitVec 64) :
    Src.PageTableEntry_frame cfg e = .ok (Rust.onOpt (Entry.frame e) Except.ok (Except.error ())) := by tie_entry
theorem PageTableEntry_set_addr (e a fl : BitVec 64) :
    Src.PageTableEntry_set_addr cfg e a fl = (Entry.setAddr e a fl).map fun r => ((), r) := by tie_entry
theorem PageTableEntry_set_frame (e a fl : BitVec 64) :
    Src.PageTableEntry_set_frame cfg e a fl = (Entry.setFrame e a fl).map fun r => ((), r) := by tie_entry
theorem PageTableEntry_set_flags (e fl : BitVec 64) :
    Src.PageTableEntry_set_flags cfg e fl = .ok ((), Entry.setFlags e fl) := by tie_entry

end X86.SrcTie
