/- Stage A of the source tie: `PhysFrame<S>` and the four range types (`page.rs`, `frame.rs`). -/
import X86Model.Properties.SrcTie.Tactic
import X86Model.Properties.SrcTie.Addr
import X86Model.Properties.SrcTie.Page

set_option linter.unusedSimpArgs false

namespace X86.SrcTie
open X86 X86.Generated

variable (cfg : Cfg)

/-! ### `src/structures/paging/frame.rs` -/

theorem PhysFrame_containing_address (sz a : BitVec 64) (h : RefBV.IsPageSize sz) :
    Src.PhysFrame_containing_address cfg sz a = .ok (RefBV.PhysFrame.containingAddress sz a) := by
  rcases h with rfl | rfl | rfl <;> tie
theorem PhysFrame_from_start_address (sz a : BitVec 64) (h : RefBV.IsPageSize sz) :
    Src.PhysFrame_from_start_address cfg sz a
      = .ok (Rust.onOpt (RefBV.PhysFrame.fromStartAddress sz a) Except.ok (Except.error ())) := by
  rcases h with rfl | rfl | rfl <;> tie
theorem PhysFrame_from_start_address_unchecked (sz a : BitVec 64) :
    Src.PhysFrame_from_start_address_unchecked cfg sz a = .ok a := by tie
theorem PhysFrame_start_address (sz p : BitVec 64) : Src.PhysFrame_start_address cfg sz p = .ok p := by tie
theorem PhysFrame_size (sz p : BitVec 64) : Src.PhysFrame_size cfg sz p = .ok sz := by tie
theorem PhysFrame_range (sz s e : BitVec 64) : Src.PhysFrame_range cfg sz s e = .ok (s, e) := by tie
theorem PhysFrame_range_inclusive (sz s e : BitVec 64) :
    Src.PhysFrame_range_inclusive cfg sz s e = .ok (s, e) := by tie
theorem PhysFrame_add_u64 (sz p n : BitVec 64) (h : RefBV.IsPageSize sz) :
    Src.PhysFrame_add_u64 cfg sz p n = RefBV.PhysFrame.add sz p n := by
  tie_struct [Src.PhysFrame_add_u64, RefBV.PhysFrame.add, PhysFrame_start_address, PhysAddr_add_u64,
    PhysFrame_containing_address]
theorem PhysFrame_add_assign_u64 (sz p n : BitVec 64) (h : RefBV.IsPageSize sz) :
    Src.PhysFrame_add_assign_u64 cfg sz p n = (RefBV.PhysFrame.add sz p n).map fun r => ((), r) := by
  tie_struct [Src.PhysFrame_add_assign_u64, PhysFrame_add_u64]
theorem PhysFrame_sub_u64 (sz p n : BitVec 64) (h : RefBV.IsPageSize sz) :
    Src.PhysFrame_sub_u64 cfg sz p n = RefBV.PhysFrame.sub sz p n := by
  tie_struct [Src.PhysFrame_sub_u64, RefBV.PhysFrame.sub, PhysFrame_start_address, PhysAddr_sub_u64,
    PhysFrame_containing_address]
theorem PhysFrame_sub_assign_u64 (sz p n : BitVec 64) (h : RefBV.IsPageSize sz) :
    Src.PhysFrame_sub_assign_u64 cfg sz p n = (RefBV.PhysFrame.sub sz p n).map fun r => ((), r) := by
  tie_struct [Src.PhysFrame_sub_assign_u64, PhysFrame_sub_u64]
theorem PhysFrame_sub_PhysFrame (sz p q : BitVec 64) (h : RefBV.IsPageSize sz) :
    Src.PhysFrame_sub_PhysFrame cfg sz p q = RefBV.PhysFrame.subFrame sz p q := by
  rcases h with rfl | rfl | rfl <;> tie

/-! ### ranges -/

theorem PageRange_is_empty (sz : BitVec 64) (r : RefBV.Range) :
    Src.PageRange_is_empty cfg sz r = .ok (RefBV.Range.pageIsEmpty r) := by tie
theorem PageRangeInclusive_is_empty (sz : BitVec 64) (r : RefBV.Range) :
    Src.PageRangeInclusive_is_empty cfg sz r = .ok (RefBV.Range.pageInclIsEmpty r) := by tie
theorem PhysFrameRange_is_empty (sz : BitVec 64) (r : RefBV.Range) :
    Src.PhysFrameRange_is_empty cfg sz r = .ok (RefBV.Range.pageIsEmpty r) := by tie
theorem PhysFrameRangeInclusive_is_empty (sz : BitVec 64) (r : RefBV.Range) :
    Src.PhysFrameRangeInclusive_is_empty cfg sz r = .ok (RefBV.Range.pageInclIsEmpty r) := by tie

theorem PageRange_len (sz : BitVec 64) (r : RefBV.Range) (h : RefBV.IsPageSize sz) :
    Src.PageRange_len cfg sz r = RefBV.Range.pageLen sz r := by
  tie_struct [Src.PageRange_len, RefBV.Range.pageLen, PageRange_is_empty, Page_sub_Page]
  cases RefBV.Range.pageIsEmpty r <;> rfl
theorem PageRangeInclusive_len (sz : BitVec 64) (r : RefBV.Range) (h : RefBV.IsPageSize sz) :
    Src.PageRangeInclusive_len cfg sz r = RefBV.Range.pageInclLen cfg sz r := by
  tie_struct [Src.PageRangeInclusive_len, RefBV.Range.pageInclLen, PageRangeInclusive_is_empty, Page_sub_Page]
  cases RefBV.Range.pageInclIsEmpty r <;> rfl
theorem PhysFrameRange_len (sz : BitVec 64) (r : RefBV.Range) (h : RefBV.IsPageSize sz) :
    Src.PhysFrameRange_len cfg sz r = RefBV.Range.frameLen sz r := by
  tie_struct [Src.PhysFrameRange_len, RefBV.Range.frameLen, PhysFrameRange_is_empty, PhysFrame_sub_PhysFrame]
  cases RefBV.Range.pageIsEmpty r <;> rfl
theorem PhysFrameRangeInclusive_len (sz : BitVec 64) (r : RefBV.Range) (h : RefBV.IsPageSize sz) :
    Src.PhysFrameRangeInclusive_len cfg sz r = RefBV.Range.frameInclLen cfg sz r := by
  tie_struct [Src.PhysFrameRangeInclusive_len, RefBV.Range.frameInclLen, PhysFrameRangeInclusive_is_empty,
    PhysFrame_sub_PhysFrame]
  cases RefBV.Range.pageInclIsEmpty r <;> rfl

theorem PageRange_size (sz : BitVec 64) (r : RefBV.Range) (h : RefBV.IsPageSize sz) :
    Src.PageRange_size cfg sz r = (RefBV.Range.pageLen sz r).bind fun l => Rust.mul cfg sz l := by
  tie_struct [Src.PageRange_size, PageRange_len]
theorem PageRangeInclusive_size (sz : BitVec 64) (r : RefBV.Range) (h : RefBV.IsPageSize sz) :
    Src.PageRangeInclusive_size cfg sz r = (RefBV.Range.pageInclLen cfg sz r).bind fun l => Rust.mul cfg sz l := by
  tie_struct [Src.PageRangeInclusive_size, PageRangeInclusive_len]
theorem PhysFrameRange_size (sz : BitVec 64) (r : RefBV.Range) (h : RefBV.IsPageSize sz) :
    Src.PhysFrameRange_size cfg sz r = (RefBV.Range.frameLen sz r).bind fun l => Rust.mul cfg sz l := by
  tie_struct [Src.PhysFrameRange_size, PhysFrameRange_len]
theorem PhysFrameRangeInclusive_size (sz : BitVec 64) (r : RefBV.Range) (h : RefBV.IsPageSize sz) :
    Src.PhysFrameRangeInclusive_size cfg sz r
      = (RefBV.Range.frameInclLen cfg sz r).bind fun l => Rust.mul cfg sz l := by
  tie_struct [Src.PhysFrameRangeInclusive_size, PhysFrameRangeInclusive_len]

theorem PageRange_next (sz : BitVec 64) (r : RefBV.Range) (h : RefBV.IsPageSize sz) :
    Src.PageRange_next cfg sz r = RefBV.Range.pageNext sz r := by
  tie_struct [Src.PageRange_next, RefBV.Range.pageNext, Page_add_assign_u64]
theorem PhysFrameRange_next (sz : BitVec 64) (r : RefBV.Range) (h : RefBV.IsPageSize sz) :
    Src.PhysFrameRange_next cfg sz r = RefBV.Range.frameNext sz r := by
  tie_struct [Src.PhysFrameRange_next, RefBV.Range.frameNext, PhysFrame_add_assign_u64]
theorem PageRangeInclusive_next (sz : BitVec 64) (r : RefBV.Range) (h : RefBV.IsPageSize sz) :
    Src.PageRangeInclusive_next cfg sz r = RefBV.Range.pageInclNext sz r := by
  tie_struct [Src.PageRangeInclusive_next, RefBV.Range.pageInclNext, Page_start_address,
    VirtAddr_forward_checked_u64, Page_containing_address, Page_sub_assign_u64]
theorem PhysFrameRangeInclusive_next (sz : BitVec 64) (r : RefBV.Range) (h : RefBV.IsPageSize sz) :
    Src.PhysFrameRangeInclusive_next cfg sz r = RefBV.Range.frameInclNext sz r := by
  tie_struct [Src.PhysFrameRangeInclusive_next, RefBV.Range.frameInclNext, PhysFrame_start_address,
    PhysAddr_new_truncate, PhysAddr_align_down_u64, PhysFrame_add_assign_u64, PhysFrame_sub_assign_u64]
theorem PageRange_as_4kib_page_range (r : RefBV.Range) :
    Src.PageRange_as_4kib_page_range cfg r = .ok (RefBV.Range.as4KiB r) := by
  tie_struct [Src.PageRange_as_4kib_page_range, RefBV.Range.as4KiB, Page_start_address,
    Page_containing_address cfg _ _ RefBV.isPageSize_4K]

end X86.SrcTie
