/- Stage A of the source tie: `Page<S>`. -/
import X86Model.Properties.SrcTie.Tactic
import X86Model.Properties.SrcTie.Addr

set_option linter.unusedSimpArgs false

namespace X86.SrcTie
open X86 X86.Generated

variable (cfg : Cfg)

/-! ### `src/structures/paging/page.rs` (`sz` = `S::SIZE`, one of the three page sizes) -/

theorem Page_containing_address (sz a : BitVec 64) (h : RefBV.IsPageSize sz) :
    Src.Page_containing_address cfg sz a = .ok (RefBV.Page.containingAddress sz a) := by
  rcases h with rfl | rfl | rfl <;> tie
theorem Page_from_start_address (sz a : BitVec 64) (h : RefBV.IsPageSize sz) :
    Src.Page_from_start_address cfg sz a
      = .ok (Rust.onOpt (RefBV.Page.fromStartAddress sz a) Except.ok (Except.error ())) := by
  rcases h with rfl | rfl | rfl <;> tie
theorem Page_from_start_address_unchecked (sz a : BitVec 64) :
    Src.Page_from_start_address_unchecked cfg sz a = .ok a := by tie
theorem Page_start_address (sz p : BitVec 64) : Src.Page_start_address cfg sz p = .ok p := by tie
theorem Page_size (sz p : BitVec 64) : Src.Page_size cfg sz p = .ok sz := by tie
theorem Page_p4_index (sz p : BitVec 64) : Src.Page_p4_index cfg sz p = .ok (RefBV.VirtAddr.p4Index p) := by tie
theorem Page_p3_index (sz p : BitVec 64) : Src.Page_p3_index cfg sz p = .ok (RefBV.VirtAddr.p3Index p) := by tie
theorem Page_p2_index (sz p : BitVec 64) : Src.Page_p2_index cfg sz p = .ok (RefBV.VirtAddr.p2Index p) := by tie
theorem Page_p1_index (p : BitVec 64) : Src.Page_p1_index cfg p = .ok (RefBV.VirtAddr.p1Index p) := by tie
theorem Page_page_table_index (sz p : BitVec 64) (l : BitVec 8) (hl : l = 1 ∨ l = 2 ∨ l = 3 ∨ l = 4) :
    Src.Page_page_table_index cfg sz p l = .ok (RefBV.VirtAddr.pageTableIndex p l) := by
  rcases hl with rfl | rfl | rfl | rfl <;> tie
theorem Page_range (sz s e : BitVec 64) : Src.Page_range cfg sz s e = .ok (s, e) := by tie
theorem Page_range_inclusive (sz s e : BitVec 64) : Src.Page_range_inclusive cfg sz s e = .ok (s, e) := by tie
theorem Page_steps_between_impl (sz s e : BitVec 64) (h : RefBV.IsPageSize sz) :
    Src.Page_steps_between_impl cfg sz s e = .ok (RefBV.Page.stepsBetweenImpl sz s e) := by
  rcases h with rfl | rfl | rfl <;> tie
theorem Page_Step_steps_between (sz s e : BitVec 64) (h : RefBV.IsPageSize sz) :
    Src.Page_Step_steps_between cfg sz s e = .ok (RefBV.Page.stepsBetweenImpl sz s e) := by
  rcases h with rfl | rfl | rfl <;> tie
theorem Page_forward_checked_impl (sz p c : BitVec 64) (h : RefBV.IsPageSize sz) :
    Src.Page_forward_checked_impl cfg sz p c = .ok (RefBV.Page.forwardChecked sz p c) := by
  tie_struct [Src.Page_forward_checked_impl, RefBV.Page.forwardChecked, VirtAddr_forward_checked_u64]
theorem Page_Step_forward_checked (sz p c : BitVec 64) (h : RefBV.IsPageSize sz) :
    Src.Page_Step_forward_checked cfg sz p c = .ok (RefBV.Page.forwardChecked sz p c) := by
  tie_struct [Src.Page_Step_forward_checked, Page_forward_checked_impl]
theorem Page_Step_backward_checked (sz p c : BitVec 64) (h : RefBV.IsPageSize sz) :
    Src.Page_Step_backward_checked cfg sz p c = .ok (RefBV.Page.backwardChecked sz p c) := by
  tie_struct [Src.Page_Step_backward_checked, RefBV.Page.backwardChecked, VirtAddr_backward_checked_u64]
/-- indices below 512 (the invariant of `PageTableIndex`) -/
theorem Page_from_page_table_indices_1gib (i4 i3 : BitVec 16)
    (h4 : BitVec.ult i4 512#16 = true) (h3 : BitVec.ult i3 512#16 = true) :
    Src.Page_from_page_table_indices_1gib cfg i4 i3 = .ok (RefBV.Page.fromIndices1G i4 i3) := by tie
theorem Page_from_page_table_indices_2mib (i4 i3 i2 : BitVec 16)
    (h4 : BitVec.ult i4 512#16 = true) (h3 : BitVec.ult i3 512#16 = true) (h2 : BitVec.ult i2 512#16 = true) :
    Src.Page_from_page_table_indices_2mib cfg i4 i3 i2 = .ok (RefBV.Page.fromIndices2M i4 i3 i2) := by tie
theorem Page_from_page_table_indices (i4 i3 i2 i1 : BitVec 16)
    (h4 : BitVec.ult i4 512#16 = true) (h3 : BitVec.ult i3 512#16 = true) (h2 : BitVec.ult i2 512#16 = true)
    (h1 : BitVec.ult i1 512#16 = true) :
    Src.Page_from_page_table_indices cfg i4 i3 i2 i1 = .ok (RefBV.Page.fromIndices4K i4 i3 i2 i1) := by tie
theorem Page_add_u64 (sz p n : BitVec 64) (h : RefBV.IsPageSize sz) :
    Src.Page_add_u64 cfg sz p n = RefBV.Page.add sz p n := by
  tie_struct [Src.Page_add_u64, RefBV.Page.add, Page_start_address, VirtAddr_add_u64, Page_containing_address]
theorem Page_add_assign_u64 (sz p n : BitVec 64) (h : RefBV.IsPageSize sz) :
    Src.Page_add_assign_u64 cfg sz p n = (RefBV.Page.add sz p n).map fun r => ((), r) := by
  tie_struct [Src.Page_add_assign_u64, Page_add_u64]
theorem Page_sub_u64 (sz p n : BitVec 64) (h : RefBV.IsPageSize sz) :
    Src.Page_sub_u64 cfg sz p n = RefBV.Page.sub sz p n := by
  tie_struct [Src.Page_sub_u64, RefBV.Page.sub, Page_start_address, VirtAddr_sub_u64, Page_containing_address]
theorem Page_sub_assign_u64 (sz p n : BitVec 64) (h : RefBV.IsPageSize sz) :
    Src.Page_sub_assign_u64 cfg sz p n = (RefBV.Page.sub sz p n).map fun r => ((), r) := by
  tie_struct [Src.Page_sub_assign_u64, Page_sub_u64]
theorem Page_sub_Page (sz p q : BitVec 64) (h : RefBV.IsPageSize sz) :
    Src.Page_sub_Page cfg sz p q = RefBV.Page.subPage sz p q := by
  rcases h with rfl | rfl | rfl <;> tie

end X86.SrcTie
