/-
C10 (clean-up) and C02, second sentence (failed calls) at HISTORY level.

`Properties/C10.lean` and `Properties/C02.lean` / `C01Map.lean` are per-call theorems under the hypothesis
`Inv s.mem p4` (the hierarchy invariant). Here they are lifted to call histories (`C01HistoryFull.HOp`), in the
style of `Properties/C09History.lean`: for EVERY call `op` of EVERY valid history from the empty level-4 table
(any mapper kind, any recursive index, any allocator answers honouring `AllocsOK`) — i.e. for every decomposition
`ops = pre ++ op :: post` — the per-call statement holds for `op` executed on the memory `runHistory … pre`.

Part 1/2 (C10):
* `CleanUpOK k rIdx p4 m rs re` — ALL clauses of the C10 theorems that need no assumption on the range, for the
  run `cleanUpRange k rIdx ⟨m, [], []⟩ p4 rs re` (exactly the run `C01HistoryFull.exec` makes), without `Inv`.
* `CleanUpPagesOK k rIdx p4 m rs re` — the clauses the C10 theorems prove for ranges of canonical 4 KiB pages
  (`PageAddr rs`, `PageAddr re`, `rs ≤ re`): never panics, freed tables overlap the range, tables that do not
  overlap it are untouched, no empty table overlapping the range survives, an immediately repeated clean-up
  (started, as `exec` does, with the empty log on the memory the first one left) only reads.
* `clean_up_ok`, `clean_up_pages_ok` — one call in a state with `Inv`.
* `history_clean_up_from` / `history_clean_up` — every clean-up call of every valid history.
* `history_then_clean_up` — a clean-up call over an ARBITRARY range made after a valid history
  (`CleanUpOK` for any `rs re`; `CleanUpPagesOK` for page ranges).
Part 3 (C02, second sentence):
* `FailedCallOK`, `failed_call_ok`, `history_failed_call` — a mapper call of a valid history that returns an
  error. See the comment at `FailedCallOK` for what exactly is (and what is not) covered.
Part 4: examples on `C01HistoryFull.demoOps` and two histories with failing calls.

No proof is left open; nothing needed weakening relative to the per-call theorems. One clause of the C02
sentence is NOT covered by the existing per-call theorems and one literal reading of it is FALSE for the model
(counterexample `failed_map_links_new_table` below).
-/
import X86Model.Properties.C09History
import X86Model.Properties.C02

namespace X86.C10History
open X86 X86.Spec X86.C01 X86.C01HistoryDormant X86.C01HistoryFull

/-! ### The run of a clean-up call -/

/-- The state a clean-up over `rs ..= re` returns when started on memory `m` with the empty log and no
allocator answers — exactly the run `C01HistoryFull.exec` makes for `.cleanUpRange rs re`
(and for `.cleanUp` with `rs = 0`, `re = 0xfffffffffffff000`). -/
abbrev cuSt (k : Kind) (rIdx : Nat) (p4 : Word) (m : PMem) (rs re : Nat) : St :=
  (X86.cleanUpRange k rIdx (⟨m, [], []⟩ : St) p4 rs re).2

/-- The ghost log of the call (chronological). -/
abbrev cuLog (k : Kind) (rIdx : Nat) (p4 : Word) (m : PMem) (rs re : Nat) : List Ev :=
  (cuSt k rIdx p4 m rs re).events

/-- The memory after the call. -/
abbrev cuMem (k : Kind) (rIdx : Nat) (p4 : Word) (m : PMem) (rs re : Nat) : PMem :=
  (cuSt k rIdx p4 m rs re).mem

/-- The range of a clean-up call of the history language. -/
def cleanRange? : HOp → Option (Nat × Nat)
  | .call _ => none
  | .cleanUp => some (0, 0xfffffffffffff000)
  | .cleanUpRange rs re => some (rs, re)

theorem exec_cleanUpRange_eq (k : Kind) (rIdx : Nat) (p4 : Word) (m : PMem) (a b : Nat) :
    exec k rIdx p4 m (.cleanUpRange a b) =
      (okR (X86.cleanUpRange k rIdx (⟨m, [], []⟩ : St) p4 a b).1, cuMem k rIdx p4 m a b) := rfl

/-- `exec` of a clean-up call is the run described by `cuSt`. -/
theorem exec_clean (k : Kind) (rIdx : Nat) (p4 : Word) (m : PMem) (op : HOp) (rs re : Nat)
    (h : cleanRange? op = some (rs, re)) :
    exec k rIdx p4 m op =
      (okR (X86.cleanUpRange k rIdx (⟨m, [], []⟩ : St) p4 rs re).1, cuMem k rIdx p4 m rs re) := by
  cases op with
  | call op => cases h
  | cleanUp =>
    simp only [cleanRange?, Option.some.injEq, Prod.mk.injEq] at h
    obtain ⟨rfl, rfl⟩ := h
    rw [exec_cleanUp]
    exact exec_cleanUpRange_eq k rIdx p4 m _ _
  | cleanUpRange a b =>
    simp only [cleanRange?, Option.some.injEq, Prod.mk.injEq] at h
    obtain ⟨rfl, rfl⟩ := h
    rfl

/-- `C09History.callLog` of a clean-up call is `cuLog`. -/
theorem callLog_clean (k : Kind) (rIdx : Nat) (p4 : Word) (m : PMem) (op : HOp) (rs re : Nat)
    (h : cleanRange? op = some (rs, re)) :
    C09History.callLog k rIdx p4 m op = cuLog k rIdx p4 m rs re := by
  cases op with
  | call op => cases h
  | cleanUp =>
    simp only [cleanRange?, Option.some.injEq, Prod.mk.injEq] at h
    obtain ⟨rfl, rfl⟩ := h
    rfl
  | cleanUpRange a b =>
    simp only [cleanRange?, Option.some.injEq, Prod.mk.injEq] at h
    obtain ⟨rfl, rfl⟩ := h
    rfl

/-! ### What is claimed about a clean-up call -/

/-- **The C10 guarantee for one clean-up call** over `rs ..= re` (ANY numbers `rs`, `re`) by a mapper of kind
`k` (recursive index `rIdx`) executed on memory `m` whose level-4 table is `p4`. All clauses of Part 1 of
`Properties/C10.lean`. -/
structure CleanUpOK (k : Kind) (rIdx : Nat) (p4 : Word) (m : PMem) (rs re : Nat) : Prop where
  /-- no address's translation changes (the full hardware walk: frame, size, offset, leaf flags, effective rights) -/
  walk : ∀ va, walk (cuMem k rIdx p4 m rs re) p4 va = walk m p4 va
  /-- the hierarchy invariant holds afterwards -/
  inv : Inv (cuMem k rIdx p4 m rs re) p4
  /-- every freed frame is not the level-4 table; it was a table of level 3..1 of the hierarchy (reached through
  1..3 present non-huge entries — never a huge-page frame), all of its 512 entries are zero afterwards, it is no
  longer linked, and (recursive mapper) it does not hang under the recursive slot -/
  freed : ∀ g ∈ deallocsIn (cuLog k rIdx p4 m rs re),
    g ≠ p4 ∧
    ∃ q, 1 ≤ q.length ∧ q.length ≤ 3 ∧ IdxOK q ∧ tblAt m p4 q = some g ∧
      tblAt (cuMem k rIdx p4 m rs re) p4 q = none ∧
      (∀ x, x < 512 → cuMem k rIdx p4 m rs re g x = 0#64) ∧
      (k.recursive = true → q.head? ≠ some rIdx)
  /-- no frame is freed twice -/
  once : (deallocsIn (cuLog k rIdx p4 m rs re)).Nodup
  /-- each `dealloc g` is immediately preceded by the write zeroing the parent entry that pointed to `g` -/
  order : UnlinkedBeforeFree m (cuLog k rIdx p4 m rs re)
  /-- memory changes only by zeroing entries of page tables of the hierarchy -/
  zeroOnly : ∀ f j, cuMem k rIdx p4 m rs re f j ≠ m f j →
    cuMem k rIdx p4 m rs re f j = 0#64 ∧ IsTable m p4 f
  /-- … and only entries that were links (present, not huge) to a table this very run frees -/
  linksOnly : ∀ f j, cuMem k rIdx p4 m rs re f j ≠ m f j →
    ∃ c, tableOf (m f j) = some c ∧ c ∈ deallocsIn (cuLog k rIdx p4 m rs re)
  /-- leaf entries (unused, present page, page mapped without `PRESENT`, huge page) are never touched -/
  leafKept : ∀ f j, tableOf (m f j) = none → cuMem k rIdx p4 m rs re f j = m f j
  /-- a table that still holds an entry at the end was not freed and is still linked where it was -/
  nonemptyKept : ∀ q t, IdxOK q → tblAt m p4 q = some t → ∀ j, j < 512 → cuMem k rIdx p4 m rs re t j ≠ 0#64 →
    tblAt (cuMem k rIdx p4 m rs re) p4 q = some t ∧ t ∉ deallocsIn (cuLog k rIdx p4 m rs re)
  /-- the allocator is never asked (its state is untouched) … -/
  allocs : (cuSt k rIdx p4 m rs re).allocs = []
  /-- … and the log consists of reads and zero-writes of page tables and of deallocations -/
  shape : ∀ ev ∈ cuLog k rIdx p4 m rs re,
    (∃ f j, (ev = .rd f j ∨ ev = .wr f j 0#64) ∧ IsTable m p4 f) ∨ (∃ g, ev = .dealloc g)

/-- **The C10 guarantee for a clean-up over a range of canonical 4 KiB pages** (Part 2 of `Properties/C10.lean`;
the hypotheses `PageAddr rs`, `PageAddr re`, `rs ≤ re` are exactly those of the per-call theorems). -/
structure CleanUpPagesOK (k : Kind) (rIdx : Nat) (p4 : Word) (m : PMem) (rs re : Nat) : Prop where
  /-- the call returns normally -/
  returns : (X86.cleanUpRange k rIdx (⟨m, [], []⟩ : St) p4 rs re).1 = .ok ()
  /-- every freed frame was the table at a path whose address span intersects the range -/
  freedOverlap : ∀ g ∈ deallocsIn (cuLog k rIdx p4 m rs re),
    ∃ q, q.length ≤ 3 ∧ IdxOK q ∧ tblAt m p4 q = some g ∧ Overlaps q (pn rs) (pn re)
  /-- every modified word lies in the level-4 table or in a table whose span intersects the range: tables that
  do not overlap the range are untouched -/
  untouched : ∀ f j, cuMem k rIdx p4 m rs re f j ≠ m f j →
    ∃ q, q.length ≤ 2 ∧ IdxOK q ∧ tblAt m p4 q = some f ∧ (q = [] ∨ Overlaps q (pn rs) (pn re))
  /-- afterwards every linked table of level 3..1 whose span intersects the range (in particular: lies wholly
  inside it) holds at least one entry (recursive mapper: outside the recursive slot) -/
  noEmptyLeft : ∀ q g, 1 ≤ q.length → q.length ≤ 3 → IdxOK q → Overlaps q (pn rs) (pn re) →
    (k.recursive = true → q.head? ≠ some rIdx) →
    tblAt (cuMem k rIdx p4 m rs re) p4 q = some g →
    ∃ j, j < 512 ∧ cuMem k rIdx p4 m rs re g j ≠ 0#64
  /-- an immediately repeated clean-up over the same range — run as `exec` runs it, with the empty log on the
  memory the first run left — only reads: no write, no deallocation, memory and allocator unchanged -/
  twice : ReadsOnly (⟨cuMem k rIdx p4 m rs re, [], []⟩ : St)
    (X86.cleanUpRange k rIdx (⟨cuMem k rIdx p4 m rs re, [], []⟩ : St) p4 rs re).2

/-! ### One call -/

private theorem seg_eq {m : PMem} {s' : St} {seg : List Ev}
    (h : s'.events = (⟨m, [], []⟩ : St).events ++ seg) : seg = s'.events := by
  rw [h]; rfl

/-- **One clean-up call, any range arguments**: in a state satisfying the hierarchy invariant `CleanUpOK` holds. -/
theorem clean_up_ok (k : Kind) (rIdx : Nat) (p4 : Word) (m : PMem) (rs re : Nat) (hinv : Inv m p4) :
    CleanUpOK k rIdx p4 m rs re := by
  have hinv0 : Inv (⟨m, [], []⟩ : St).mem p4 := hinv
  refine ⟨?_, ?_, ?_, ?_, ?_, ?_, ?_, ?_, ?_, ?_, ?_⟩
  · exact (C10.clean_up_translations_unchanged k rIdx (⟨m, [], []⟩ : St) p4 rs re hinv0).1
  · exact (C10.clean_up_translations_unchanged k rIdx (⟨m, [], []⟩ : St) p4 rs re hinv0).2
  · obtain ⟨seg, he, h⟩ := C10.clean_up_frees_only_empty_unlinked_tables k rIdx (⟨m, [], []⟩ : St) p4 rs re hinv0
    have := seg_eq he; subst this
    exact h
  · obtain ⟨seg, he, h⟩ := C10.clean_up_frees_once k rIdx (⟨m, [], []⟩ : St) p4 rs re hinv0
    have := seg_eq he; subst this
    exact h
  · obtain ⟨seg, he, h⟩ := C10.clean_up_unlinks_before_freeing k rIdx (⟨m, [], []⟩ : St) p4 rs re hinv0
    have := seg_eq he; subst this
    exact h
  · intro f j hne
    exact C10.clean_up_only_zeroes_table_entries k rIdx (⟨m, [], []⟩ : St) p4 rs re hinv0 f j hne
  · obtain ⟨seg, he, h⟩ := C10.clean_up_only_zeroes_links_to_freed_tables k rIdx (⟨m, [], []⟩ : St) p4 rs re hinv0
    have := seg_eq he; subst this
    exact h
  · intro f j hl
    exact C10.clean_up_keeps_leaf_entries k rIdx (⟨m, [], []⟩ : St) p4 rs re hinv0 f j hl
  · intro q t hqi ht j hj hfin
    obtain ⟨h1, seg, he, h2⟩ := C10.clean_up_keeps_nonempty_tables k rIdx (⟨m, [], []⟩ : St) p4 rs re hinv0 q t hqi ht
      j hj hfin
    have := seg_eq he; subst this
    exact ⟨h1, h2⟩
  · obtain ⟨seg, _, h, _⟩ := C10.clean_up_log_shape k rIdx (⟨m, [], []⟩ : St) p4 rs re hinv0
    exact h
  · obtain ⟨seg, he, _, h⟩ := C10.clean_up_log_shape k rIdx (⟨m, [], []⟩ : St) p4 rs re hinv0
    have := seg_eq he; subst this
    exact h

/-- **One clean-up call over a range of canonical pages**: in a state satisfying the hierarchy invariant
`CleanUpPagesOK` holds. -/
theorem clean_up_pages_ok (k : Kind) (rIdx : Nat) (p4 : Word) (m : PMem) (rs re : Nat) (hinv : Inv m p4)
    (hs : PageAddr rs) (he : PageAddr re) (hle : rs ≤ re) : CleanUpPagesOK k rIdx p4 m rs re := by
  have hinv0 : Inv (⟨m, [], []⟩ : St).mem p4 := hinv
  refine ⟨?_, ?_, ?_, ?_, ?_⟩
  · exact C10.clean_up_range_never_panics k rIdx (⟨m, [], []⟩ : St) p4 rs re hinv0 hs he hle
  · obtain ⟨seg, hev, h, _⟩ := C10.clean_up_touches_only_overlapping_tables k rIdx (⟨m, [], []⟩ : St) p4 rs re hinv0
      hs he hle
    have := seg_eq hev; subst this
    exact h
  · obtain ⟨seg, _, _, h⟩ := C10.clean_up_touches_only_overlapping_tables k rIdx (⟨m, [], []⟩ : St) p4 rs re hinv0
      hs he hle
    exact h
  · intro q g hq1 hq hqi hov hns hg
    exact C10.clean_up_leaves_no_empty_table k rIdx (⟨m, [], []⟩ : St) p4 rs re hinv0 hs he hle q g hq1 hq hqi hov hns hg
  · -- as `C10.clean_up_twice_frees_nothing`, but the second run starts with the empty log (as `exec` runs it)
    obtain ⟨⟨seg, hc, _⟩, _, hcomp⟩ := cleanUpLevel_range k rIdx p4 4 [] p4 (⟨m, [], []⟩ : St) rs re (by omega) hinv0
      rfl rfl (fun _ h => by cases h) (fun _ _ h => absurd rfl h) (rangeIn_top hs he hle)
    have hst : ∀ s : St, (X86.cleanUpRange k rIdx s p4 rs re).2 = (cleanUpLevel k rIdx 4 s p4 rs re).2 := by
      intro s; unfold X86.cleanUpRange; split <;> (rename_i heq; rw [heq])
    have hm1 : cuMem k rIdx p4 m rs re = (cleanUpLevel k rIdx 4 (⟨m, [], []⟩ : St) p4 rs re).2.mem := by
      show (X86.cleanUpRange k rIdx (⟨m, [], []⟩ : St) p4 rs re).2.mem = _
      rw [hst]
    rw [hst, hm1]
    have hinv1 : Inv (⟨(cleanUpLevel k rIdx 4 (⟨m, [], []⟩ : St) p4 rs re).2.mem, [], []⟩ : St).mem p4 := hc.inv
    exact cleanUpLevel_stable k rIdx p4 4 [] p4 _ rs re (by omega) hinv1 rfl rfl (fun _ h => by cases h)
      (fun _ _ h => absurd rfl h) (rangeIn_top hs he hle) hcomp

/-! ### Consequences in plain words -/

/-- "deallocates nothing" in terms of the log of the repeated run. -/
theorem CleanUpPagesOK.twice_frees_nothing {k : Kind} {rIdx : Nat} {p4 : Word} {m : PMem} {rs re : Nat}
    (h : CleanUpPagesOK k rIdx p4 m rs re) :
    deallocsIn (cuLog k rIdx p4 (cuMem k rIdx p4 m rs re) rs re) = [] ∧
    cuMem k rIdx p4 (cuMem k rIdx p4 m rs re) rs re = cuMem k rIdx p4 m rs re ∧
    (∀ ev ∈ cuLog k rIdx p4 (cuMem k rIdx p4 m rs re) rs re, ∃ f j, ev = Ev.rd f j) := by
  obtain ⟨hm, _, seg, hev, hrd⟩ := h.twice
  have := seg_eq hev; subst this
  refine ⟨?_, hm, hrd⟩
  unfold deallocsIn
  rw [List.filterMap_eq_nil_iff]
  intro ev hev'
  obtain ⟨f, j, rfl⟩ := hrd ev hev'
  rfl

/-- The level-4 table is never deallocated. -/
theorem CleanUpOK.p4_not_freed {k : Kind} {rIdx : Nat} {p4 : Word} {m : PMem} {rs re : Nat}
    (h : CleanUpOK k rIdx p4 m rs re) : p4 ∉ deallocsIn (cuLog k rIdx p4 m rs re) :=
  fun hp => (h.freed p4 hp).1 rfl

/-- **A freed table was entirely empty at the moment the call was made**: all 512 entries of a frame the run
deallocates were zero or links to tables which the same run deallocates (and which are therefore, recursively,
of this kind) — in particular it held no leaf entry: no page, present or not, and no huge page. -/
theorem CleanUpOK.freed_held_no_leaf {k : Kind} {rIdx : Nat} {p4 : Word} {m : PMem} {rs re : Nat}
    (h : CleanUpOK k rIdx p4 m rs re) (g : Word) (hg : g ∈ deallocsIn (cuLog k rIdx p4 m rs re))
    (j : Nat) (hj : j < 512) :
    m g j = 0#64 ∨ ∃ c, tableOf (m g j) = some c ∧ c ∈ deallocsIn (cuLog k rIdx p4 m rs re) := by
  obtain ⟨_, q, _, _, _, _, _, hz, _⟩ := h.freed g hg
  by_cases hsame : cuMem k rIdx p4 m rs re g j = m g j
  · left; rw [← hsame]; exact hz j hj
  · right; exact h.linksOnly g j hsame

/-- **A table that holds a leaf entry is never freed** — a present page, a huge page, or a page mapped without
`PRESENT`: the slot keeps its word, the table stays linked where it was and is not deallocated. -/
theorem CleanUpOK.keeps_table_with_leaf {k : Kind} {rIdx : Nat} {p4 : Word} {m : PMem} {rs re : Nat}
    (h : CleanUpOK k rIdx p4 m rs re) (q : List Nat) (t : Word) (hqi : IdxOK q) (ht : tblAt m p4 q = some t)
    (j : Nat) (hj : j < 512) (hnz : m t j ≠ 0#64) (hleaf : tableOf (m t j) = none) :
    cuMem k rIdx p4 m rs re t j = m t j ∧ tblAt (cuMem k rIdx p4 m rs re) p4 q = some t ∧
    t ∉ deallocsIn (cuLog k rIdx p4 m rs re) := by
  have hsame := h.leafKept t j hleaf
  exact ⟨hsame, h.nonemptyKept q t hqi ht j hj (by rw [hsame]; exact hnz)⟩

/-- A table lying wholly inside the range overlaps it (so `noEmptyLeft` applies to it). -/
theorem CleanUpPagesOK.no_empty_table_inside {k : Kind} {rIdx : Nat} {p4 : Word} {m : PMem} {rs re : Nat}
    (h : CleanUpPagesOK k rIdx p4 m rs re) (q : List Nat) (g : Word) (hq1 : 1 ≤ q.length) (hq : q.length ≤ 3)
    (hqi : IdxOK q) (hin : pn rs ≤ spanLo q ∧ spanHi q ≤ pn re)
    (hns : k.recursive = true → q.head? ≠ some rIdx)
    (hg : tblAt (cuMem k rIdx p4 m rs re) p4 q = some g) :
    ∃ j, j < 512 ∧ cuMem k rIdx p4 m rs re g j ≠ 0#64 :=
  h.noEmptyLeft q g hq1 hq hqi (C10.inside_overlaps q _ _ hin) hns hg

/-! ### Histories -/

/-- The invariant holds, and the call is valid, at every point of a valid history. -/
theorem history_inv_valid (k : Kind) (rIdx : Nat) (p4 : Word) (pre ops : List HOp) (m : PMem) (a : Abs)
    (hinv : Inv m p4) (hrel : Rel p4 m a) (hv : HistoryValid k rIdx p4 m ops) (op : HOp) (post : List HOp)
    (hops : ops = pre ++ op :: post) :
    Inv (runHistory k rIdx p4 m pre) p4 ∧ Valid p4 (runHistory k rIdx p4 m pre) op := by
  obtain ⟨h1, h2, _⟩ := C09History.history_log_from k rIdx p4 pre ops m a hinv hrel hv op post hops
  exact ⟨h1, h2⟩

/-- The range of a clean-up call that is valid consists of canonical pages. -/
theorem valid_clean_range {p4 : Word} {m : PMem} {op : HOp} {rs re : Nat} (hv : Valid p4 m op)
    (h : cleanRange? op = some (rs, re)) : PageAddr rs ∧ PageAddr re ∧ rs ≤ re := by
  cases op with
  | call op => cases h
  | cleanUp =>
    simp only [cleanRange?, Option.some.injEq, Prod.mk.injEq] at h
    obtain ⟨rfl, rfl⟩ := h
    exact ⟨pageAddr_zero, pageAddr_last, Nat.zero_le _⟩
  | cleanUpRange a b =>
    simp only [cleanRange?, Option.some.injEq, Prod.mk.injEq] at h
    obtain ⟨rfl, rfl⟩ := h
    exact hv

/-- **C10 along histories**, from any state with `Inv`/`Rel`: for every clean-up call `op` (`clean_up()` or
`clean_up_addr_range(rs ..= re)`) of every valid history — every decomposition `ops = pre ++ op :: post` — the
call, executed on the memory the history has reached, satisfies `CleanUpOK` and `CleanUpPagesOK`. -/
theorem history_clean_up_from (k : Kind) (rIdx : Nat) (p4 : Word) (pre ops : List HOp) (m : PMem) (a : Abs)
    (hinv : Inv m p4) (hrel : Rel p4 m a) (hv : HistoryValid k rIdx p4 m ops) (op : HOp) (post : List HOp)
    (hops : ops = pre ++ op :: post) (rs re : Nat) (hr : cleanRange? op = some (rs, re)) :
    CleanUpOK k rIdx p4 (runHistory k rIdx p4 m pre) rs re ∧
    CleanUpPagesOK k rIdx p4 (runHistory k rIdx p4 m pre) rs re := by
  obtain ⟨hi, hvo⟩ := history_inv_valid k rIdx p4 pre ops m a hinv hrel hv op post hops
  obtain ⟨h1, h2, h3⟩ := valid_clean_range hvo hr
  exact ⟨clean_up_ok k rIdx p4 _ rs re hi, clean_up_pages_ok k rIdx p4 _ rs re hi h1 h2 h3⟩

/-- **C10, history theorem**: for every valid history `ops` from the empty level-4 table (`m p4 i = 0` for all
`i`; the rest of `m` is arbitrary), every mapper kind `k`, every recursive index `rIdx`, every allocator
behaviour allowed by `Valid`, and every clean-up call `op` of the history (`ops = pre ++ op :: post`,
`cleanRange? op = some (rs, re)`: `.cleanUp` is the whole address space, `.cleanUpRange rs re` the pages
`rs ..= re`): `CleanUpOK` and `CleanUpPagesOK` hold for the call in the state `runHistory … pre`; `exec` runs
exactly the call these speak about, and `runHistory` continues from its memory. -/
theorem history_clean_up (k : Kind) (rIdx : Nat) (p4 : Word) (m : PMem) (hzero : ∀ i, m p4 i = 0#64)
    (ops : List HOp) (hv : HistoryValid k rIdx p4 m ops)
    (pre : List HOp) (op : HOp) (post : List HOp) (hops : ops = pre ++ op :: post)
    (rs re : Nat) (hr : cleanRange? op = some (rs, re)) :
    CleanUpOK k rIdx p4 (runHistory k rIdx p4 m pre) rs re ∧
    CleanUpPagesOK k rIdx p4 (runHistory k rIdx p4 m pre) rs re ∧
    runHistory k rIdx p4 m (pre ++ [op]) = cuMem k rIdx p4 (runHistory k rIdx p4 m pre) rs re := by
  obtain ⟨h1, h2⟩ := history_clean_up_from k rIdx p4 pre ops m [] (init_inv m p4 hzero) (Rel.init p4 m hzero) hv op post
    hops rs re hr
  refine ⟨h1, h2, ?_⟩
  rw [runHistory_append]
  show (exec k rIdx p4 (runHistory k rIdx p4 m pre) op).2 = _
  rw [exec_clean k rIdx p4 _ op rs re hr]

/-- **A clean-up call made AFTER a valid history, over an arbitrary range** (not part of the history, so no
validity condition restricts `rs`, `re`): `CleanUpOK` holds for any numbers `rs`, `re` whatsoever; for a range
of canonical pages `CleanUpPagesOK` holds as well. -/
theorem history_then_clean_up (k : Kind) (rIdx : Nat) (p4 : Word) (m : PMem) (hzero : ∀ i, m p4 i = 0#64)
    (ops : List HOp) (hv : HistoryValid k rIdx p4 m ops) (rs re : Nat) :
    CleanUpOK k rIdx p4 (runHistory k rIdx p4 m ops) rs re ∧
    (PageAddr rs → PageAddr re → rs ≤ re → CleanUpPagesOK k rIdx p4 (runHistory k rIdx p4 m ops) rs re) := by
  have hi := (history_rel k rIdx p4 ops m [] (init_inv m p4 hzero) (Rel.init p4 m hzero) hv).1
  exact ⟨clean_up_ok k rIdx p4 _ rs re hi, fun h1 h2 h3 => clean_up_pages_ok k rIdx p4 _ rs re hi h1 h2 h3⟩

/-- …and `clean_up()` after a valid history. -/
theorem history_then_clean_up_all (k : Kind) (rIdx : Nat) (p4 : Word) (m : PMem) (hzero : ∀ i, m p4 i = 0#64)
    (ops : List HOp) (hv : HistoryValid k rIdx p4 m ops) :
    CleanUpOK k rIdx p4 (runHistory k rIdx p4 m ops) 0 0xfffffffffffff000 ∧
    CleanUpPagesOK k rIdx p4 (runHistory k rIdx p4 m ops) 0 0xfffffffffffff000 := by
  obtain ⟨h1, h2⟩ := history_then_clean_up k rIdx p4 m hzero ops hv 0 0xfffffffffffff000
  exact ⟨h1, h2 pageAddr_zero pageAddr_last (Nat.zero_le _)⟩

/-- A range with `rs > re` (not a valid history call, but allowed after a history): nothing happens at all. -/
theorem clean_up_empty_range (k : Kind) (rIdx : Nat) (p4 : Word) (m : PMem) (rs re : Nat) (h : rs > re) :
    cuMem k rIdx p4 m rs re = m ∧ cuLog k rIdx p4 m rs re = [] := by
  have := C10.clean_up_empty_range k rIdx (⟨m, [], []⟩ : St) p4 rs re h
  unfold cuMem cuLog cuSt
  rw [this]
  exact ⟨rfl, rfl⟩

/-! ### Failed mapper calls (C02, second sentence)

"A call that returns an error — including allocation failure at any of its up to three allocation points — leaves
the mapping (frame, size and leaf flags) of every address exactly as it was and creates no new mapping; at most
the requested parent flags may be added to existing parent-table entries."

What the existing per-call theorems (`C01.map_to_full`, `C01HistoryDormant.map_to_leaves`, `C09.map_to_log`,
`C01.unmap_err`, `C01.update_flags_err`, `C01.set_parent_flags_err`) deliver for a failed call, and what is
collected in `FailedCallOK`:
* `core`   — the hardware walk of EVERY virtual address gives the same frame, size, offset and leaf flags before
  and after (`Xlat.core`; the effective `rw`/`us` rights of the walk are not claimed: `map_to` may have added the
  requested parent flags — e.g. `WRITABLE`, `USER_ACCESSIBLE` — to parent entries on the page's path);
* `leaves` — no leaf slot of the hierarchy is created, removed or changed (`LeafSame`): this includes pages mapped
  WITHOUT `PRESENT`, which the hardware walk does not see — "creates no new mapping" in the strong sense;
* `inv`    — the hierarchy invariant still holds;
* `memdiff`— every changed memory word lies in a frame that was a page table of the hierarchy before the call or
  in a frame the allocator handed out during the call (no data frame, no other memory);
* `nonMap` — a failed `unmap`, `update_flags`, `set_flags_pN_entry` leaves memory literally unchanged (only
  `map_to` can fail after having written).
NOT covered by the existing theorems (and not proved here): the exact shape of the words a failed `map_to` changes
inside tables that existed before, i.e. the clause "at most the requested parent flags may be added to existing
parent-table entries". From `leaves` such a word is not a leaf slot before or after, but that a changed link
entry is `old | pflags` with the same address is not stated by any per-call theorem (`createNextTable_ok` only
gives `StepOK`). Moreover the literal word-level reading "every changed word of an existing table only gained the
requested parent flags" is FALSE for the model (as for the crate): a `map_to` whose 2nd/3rd allocation fails leaves
the tables allocated before the failure linked — an UNUSED entry of an existing table becomes a link to a new,
empty table (`failed_map_links_new_table` below). No mapping is created by that, and a later clean-up frees them. -/

/-- **What a failed mapper call guarantees** (call `op` of a mapper of kind `k` executed on memory `m`). -/
structure FailedCallOK (k : Kind) (rIdx : Nat) (p4 : Word) (m : PMem) (op : MOp) : Prop where
  /-- the invariant still holds -/
  inv : Inv (exec k rIdx p4 m (.call op)).2 p4
  /-- every address: same frame, size, offset, leaf flags (or unmapped before and after) -/
  core : ∀ va, (Spec.walk (exec k rIdx p4 m (.call op)).2 p4 va).map Xlat.core = (Spec.walk m p4 va).map Xlat.core
  /-- no leaf slot (present or not) is created, removed or changed -/
  leaves : LeafSame p4 m (exec k rIdx p4 m (.call op)).2
  /-- changed words lie in old page tables or in frames allocated during the call -/
  memdiff : ∀ f i, (exec k rIdx p4 m (.call op)).2 f i ≠ m f i →
    IsTable m p4 f ∨ f ∈ allocatedIn (C09History.callLog k rIdx p4 m (.call op))
  /-- only `map_to` can fail after having written -/
  nonMap : (HOp.call op).isMap = false → (exec k rIdx p4 m (.call op)).2 = m

/-- **One failed call**: in a state satisfying the hierarchy invariant, a valid mapper call that returns an error
satisfies `FailedCallOK`. (`map_to` never panics for valid arguments, so `(exec …).1 = false` means `Err`.) -/
theorem failed_call_ok (k : Kind) (rIdx : Nat) (p4 : Word) (m : PMem) (op : MOp) (hinv : Inv m p4)
    (hv : ValidD p4 m op) (hfail : (exec k rIdx p4 m (.call op)).1 = false) : FailedCallOK k rIdx p4 m op := by
  have hlog := C09History.call_log_ok k rIdx p4 m (.call op) hinv hv
  have hmd : ∀ f i, (exec k rIdx p4 m (.call op)).2 f i ≠ m f i →
      IsTable m p4 f ∨ f ∈ allocatedIn (C09History.callLog k rIdx p4 m (.call op)) := by
    intro f i hne
    apply Classical.byContradiction
    intro hc
    exact hne (hlog.unchanged f i (fun h => hc (Or.inl h)) (fun h => hc (Or.inr h)))
  have ofEq : (exec k rIdx p4 m (.call op)).2 = m → FailedCallOK k rIdx p4 m op := by
    intro he
    refine ⟨?_, ?_, ?_, hmd, fun _ => he⟩
    · rw [he]; exact hinv
    · intro va; rw [he]
    · exact LeafSame.of_eq he
  cases op with
  | map parents li huge sz frame flags pflags allocs =>
    obtain ⟨sh, hpi, hli, hpf, hfl, hfr, hal⟩ := hv
    have hfull := map_to_full k (⟨m, allocs, []⟩ : St) p4 parents li huge sz frame flags pflags sh hinv hpi hpf hfl hfr hal
    have hlv := map_to_leaves k (⟨m, allocs, []⟩ : St) p4 parents li huge sz frame flags pflags sh hinv hpi hpf hfl hfr hal
    have h1 : (exec k rIdx p4 m (.call (.map parents li huge sz frame flags pflags allocs))).1 =
        okMap (mapTo k (⟨m, allocs, []⟩ : St) p4 parents li huge frame flags pflags).1 := rfl
    have h2 : (exec k rIdx p4 m (.call (.map parents li huge sz frame flags pflags allocs))).2 =
        (mapTo k (⟨m, allocs, []⟩ : St) p4 parents li huge frame flags pflags).2.mem := rfl
    rw [h1] at hfail
    refine ⟨?_, ?_, ?_, hmd, fun h => by cases h⟩ <;> rw [h2]
    all_goals
      cases hm : mapTo k (⟨m, allocs, []⟩ : St) p4 parents li huge frame flags pflags with
      | mk res s' =>
        rw [hm] at hfull hlv hfail
        cases res with
        | panic => exact hfull.elim
        | ok r =>
          cases r with
          | error e => first | exact hfull.inv | exact hfull.core | exact hlv
          | ok u => cases u; simp [okMap] at hfail
  | unmap parents li huge sz =>
    apply ofEq
    have h1 : (exec k rIdx p4 m (.call (.unmap parents li huge sz))).1 =
        okExc (X86.unmap (⟨m, [], []⟩ : St) p4 parents li huge sz).1 := rfl
    rw [h1] at hfail
    show (X86.unmap (⟨m, [], []⟩ : St) p4 parents li huge sz).2.mem = m
    cases hu : (X86.unmap (⟨m, [], []⟩ : St) p4 parents li huge sz).1 with
    | ok fr => rw [hu] at hfail; simp [okExc] at hfail
    | error e => exact unmap_err _ p4 parents li huge sz e hu
  | update parents li huge sz flags =>
    obtain ⟨sh, hpi, _, _⟩ := hv
    apply ofEq
    have h1 : (exec k rIdx p4 m (.call (.update parents li huge sz flags))).1 =
        okExc (updateFlags k (⟨m, [], []⟩ : St) p4 parents li huge flags).1 := rfl
    rw [h1] at hfail
    show (updateFlags k (⟨m, [], []⟩ : St) p4 parents li huge flags).2.mem = m
    rw [updateFlags_kind k (⟨m, [], []⟩ : St) p4 parents li huge flags hinv sh.len_le.2 hpi] at hfail ⊢
    cases hu : (updateFlags ⟨false⟩ (⟨m, [], []⟩ : St) p4 parents li huge flags).1 with
    | ok u => rw [hu] at hfail; simp [okExc] at hfail
    | error e => exact update_flags_err _ p4 parents li huge flags e hu
  | setParent parents idx flags =>
    obtain ⟨hlen, hpi, _, _⟩ := hv
    apply ofEq
    have h1 : (exec k rIdx p4 m (.call (.setParent parents idx flags))).1 =
        okExc (setParentFlags k (⟨m, [], []⟩ : St) p4 parents idx flags).1 := rfl
    rw [h1] at hfail
    show (setParentFlags k (⟨m, [], []⟩ : St) p4 parents idx flags).2.mem = m
    rw [setParentFlags_kind k (⟨m, [], []⟩ : St) p4 parents idx flags hinv (by omega) hpi] at hfail ⊢
    cases hu : (setParentFlags ⟨false⟩ (⟨m, [], []⟩ : St) p4 parents idx flags).1 with
    | ok u => rw [hu] at hfail; simp [okExc] at hfail
    | error e => exact set_parent_flags_err _ p4 parents idx flags e hu

/-- A failed call has no abstract effect. -/
theorem expectedAbs_failed (k : Kind) (rIdx : Nat) (p4 : Word) (m : PMem) (a : Abs) (pre : List HOp) (op : MOp)
    (hfail : (exec k rIdx p4 (runHistory k rIdx p4 m pre) (.call op)).1 = false) :
    expectedAbs k rIdx p4 m a (pre ++ [.call op]) = expectedAbs k rIdx p4 m a pre := by
  rw [expectedAbs_append]
  show C01HistoryFull.absStep (expectedAbs k rIdx p4 m a pre)
    (exec k rIdx p4 (runHistory k rIdx p4 m pre) (.call op)).1 (.call op) = _
  rw [hfail]
  rfl

/-- **C02 (second sentence) along histories**, from any state with `Inv`/`Rel`. -/
theorem history_failed_call_from (k : Kind) (rIdx : Nat) (p4 : Word) (pre ops : List HOp) (m : PMem) (a : Abs)
    (hinv : Inv m p4) (hrel : Rel p4 m a) (hv : HistoryValid k rIdx p4 m ops) (op : MOp) (post : List HOp)
    (hops : ops = pre ++ .call op :: post)
    (hfail : (exec k rIdx p4 (runHistory k rIdx p4 m pre) (.call op)).1 = false) :
    Inv (runHistory k rIdx p4 m pre) p4 ∧
    FailedCallOK k rIdx p4 (runHistory k rIdx p4 m pre) op ∧
    expectedAbs k rIdx p4 m a (pre ++ [.call op]) = expectedAbs k rIdx p4 m a pre := by
  obtain ⟨hi, hvo⟩ := history_inv_valid k rIdx p4 pre ops m a hinv hrel hv (.call op) post hops
  exact ⟨hi, failed_call_ok k rIdx p4 _ op hi hvo hfail, expectedAbs_failed k rIdx p4 m a pre op hfail⟩

/-- **C02, second sentence, history theorem**: for every valid history `ops` from the empty level-4 table (any
mapper kind, any recursive index, any allocator answers honouring the contract) and every mapper call `op` of it
(`ops = pre ++ .call op :: post`) that returns an error — page already mapped, parent entry is a huge page,
allocation failure at the 1st, 2nd or 3rd request, page not mapped, … — with `m1` the memory before and `m2` the
memory after the call:
1. the invariant holds before and after;
2. the hardware walk of every virtual address yields the same frame, size, offset and leaf flags (`Xlat.core`),
   or "not mapped" in both;
3. the abstract state is unchanged, and the walk after the call is still the one the abstract state dictates;
4. no leaf slot — of a present page or of a page mapped without `PRESENT` — is created, removed or changed;
5. every changed word lies in a frame that was a page table before the call or was handed out by the allocator
   during the call;
6. if the call is not `map_to`, memory is unchanged altogether. -/
theorem history_failed_call (k : Kind) (rIdx : Nat) (p4 : Word) (m : PMem) (hzero : ∀ i, m p4 i = 0#64)
    (ops : List HOp) (hv : HistoryValid k rIdx p4 m ops)
    (pre : List HOp) (op : MOp) (post : List HOp) (hops : ops = pre ++ .call op :: post)
    (hfail : (exec k rIdx p4 (runHistory k rIdx p4 m pre) (.call op)).1 = false) :
    Inv (runHistory k rIdx p4 m pre) p4 ∧ Inv (runHistory k rIdx p4 m (pre ++ [.call op])) p4 ∧
    (∀ va, (Spec.walk (runHistory k rIdx p4 m (pre ++ [.call op])) p4 va).map Xlat.core =
      (Spec.walk (runHistory k rIdx p4 m pre) p4 va).map Xlat.core) ∧
    expectedAbs k rIdx p4 m [] (pre ++ [.call op]) = expectedAbs k rIdx p4 m [] pre ∧
    (∀ va, (Spec.walk (runHistory k rIdx p4 m (pre ++ [.call op])) p4 va).map Xlat.core =
      expectedHw (expectedAbs k rIdx p4 m [] pre) va) ∧
    LeafSame p4 (runHistory k rIdx p4 m pre) (runHistory k rIdx p4 m (pre ++ [.call op])) ∧
    (∀ f i, runHistory k rIdx p4 m (pre ++ [.call op]) f i ≠ runHistory k rIdx p4 m pre f i →
      IsTable (runHistory k rIdx p4 m pre) p4 f ∨
      f ∈ allocatedIn (C09History.callLog k rIdx p4 (runHistory k rIdx p4 m pre) (.call op))) ∧
    ((HOp.call op).isMap = false → runHistory k rIdx p4 m (pre ++ [.call op]) = runHistory k rIdx p4 m pre) := by
  obtain ⟨hi, hf, ha⟩ := history_failed_call_from k rIdx p4 pre ops m [] (init_inv m p4 hzero) (Rel.init p4 m hzero)
    hv op post hops hfail
  have hrun : runHistory k rIdx p4 m (pre ++ [.call op]) = (exec k rIdx p4 (runHistory k rIdx p4 m pre) (.call op)).2 := by
    rw [runHistory_append]; rfl
  -- the prefix `pre` is itself a valid history
  have hvpre : ∀ (pre' : List HOp) (m' : PMem) (rest : List HOp), HistoryValid k rIdx p4 m' (pre' ++ rest) →
      HistoryValid k rIdx p4 m' pre' := by
    intro pre'
    induction pre' with
    | nil => intro _ _ _; trivial
    | cons x xs ih => intro m' rest h; exact ⟨h.1, ih _ rest h.2⟩
  have hpre : HistoryValid k rIdx p4 m pre := hvpre pre m (.call op :: post) (hops ▸ hv)
  have hw := (history_full_from_empty k rIdx p4 m hzero pre hpre).2.1
  rw [hrun]
  refine ⟨hi, hf.inv, hf.core, ha, ?_, hf.leaves, hf.memdiff, hf.nonMap⟩
  intro va
  rw [hf.core va, hw va]

/-! ### Non-vacuity: concrete histories

`C01HistoryFull.demoOps = [opA, opU, .cleanUp, opB, .cleanUp]` from the all-zero memory `m0` with the level-4 table
at `0x1000` (mapper kind `MappedPageTable`): map the 4 KiB page `[0,0,0]/5`, unmap it, `clean_up()` (frees the
three tables), map the 4 KiB page `[0,0,1]/7`, `clean_up()` (frees nothing). -/

private theorem snd_of {α β : Type} {x : α × β} {a : α} {b : β} (h : x = (a, b)) : x.2 = b := by rw [h]

private theorem run2 : runHistory ⟨false⟩ 0 0x1000#64 m0 [opA, opU] = mU := by
  rw [runHistory_cons, snd_of demo_exec1, runHistory_cons, snd_of demo_exec2]; rfl

private theorem run4 : runHistory ⟨false⟩ 0 0x1000#64 m0 [opA, opU, .cleanUp, opB] = mB := by
  rw [runHistory_cons, snd_of demo_exec1, runHistory_cons, snd_of demo_exec2, runHistory_cons, snd_of demo_exec3,
    runHistory_cons, snd_of demo_exec4]; rfl

/-- **a clean-up call that frees tables** (call 3 of `demoOps`): the theorem applies — the hypotheses are
satisfiable — and the run it speaks about deallocates the three empty tables bottom-up -/
example :
    CleanUpOK ⟨false⟩ 0 0x1000#64 (runHistory ⟨false⟩ 0 0x1000#64 m0 [opA, opU]) 0 0xfffffffffffff000 ∧
    CleanUpPagesOK ⟨false⟩ 0 0x1000#64 (runHistory ⟨false⟩ 0 0x1000#64 m0 [opA, opU]) 0 0xfffffffffffff000 ∧
    deallocsIn (cuLog ⟨false⟩ 0 0x1000#64 (runHistory ⟨false⟩ 0 0x1000#64 m0 [opA, opU]) 0 0xfffffffffffff000) =
      [0x4000#64, 0x3000#64, 0x2000#64] := by
  obtain ⟨h1, h2, _⟩ := history_clean_up ⟨false⟩ 0 0x1000#64 m0 (fun _ => rfl) demoOps demo_valid [opA, opU] .cleanUp
    [opB, .cleanUp] rfl 0 0xfffffffffffff000 rfl
  refine ⟨h1, h2, ?_⟩
  rw [run2]
  exact demo_clean3_eval.2.2.2.2

/-- …so, by `CleanUpOK.freed`, each of `0x4000`, `0x3000`, `0x2000` was a table of level 1..3, is all-zero and
unlinked afterwards, and is not the level-4 table -/
example : ∀ g ∈ [0x4000#64, 0x3000#64, 0x2000#64], g ≠ 0x1000#64 ∧
    ∃ q, 1 ≤ q.length ∧ q.length ≤ 3 ∧ IdxOK q ∧ tblAt mU 0x1000#64 q = some g ∧
      tblAt (cuMem ⟨false⟩ 0 0x1000#64 mU 0 0xfffffffffffff000) 0x1000#64 q = none := by
  obtain ⟨h1, _, _⟩ := history_clean_up ⟨false⟩ 0 0x1000#64 m0 (fun _ => rfl) demoOps demo_valid [opA, opU] .cleanUp
    [opB, .cleanUp] rfl 0 0xfffffffffffff000 rfl
  rw [run2] at h1
  intro g hg
  have hd : deallocsIn (cuLog ⟨false⟩ 0 0x1000#64 mU 0 0xfffffffffffff000) = [0x4000#64, 0x3000#64, 0x2000#64] :=
    demo_clean3_eval.2.2.2.2
  obtain ⟨hne, q, a, b, c, d, e, _⟩ := h1.freed g (by rw [hd]; exact hg)
  exact ⟨hne, q, a, b, c, d, e⟩

/-- **a clean-up call that frees nothing** (call 5 of `demoOps`, after the second page was mapped) -/
example :
    CleanUpOK ⟨false⟩ 0 0x1000#64 (runHistory ⟨false⟩ 0 0x1000#64 m0 [opA, opU, .cleanUp, opB]) 0 0xfffffffffffff000 ∧
    CleanUpPagesOK ⟨false⟩ 0 0x1000#64 (runHistory ⟨false⟩ 0 0x1000#64 m0 [opA, opU, .cleanUp, opB]) 0 0xfffffffffffff000 ∧
    deallocsIn (cuLog ⟨false⟩ 0 0x1000#64 (runHistory ⟨false⟩ 0 0x1000#64 m0 [opA, opU, .cleanUp, opB]) 0
      0xfffffffffffff000) = [] := by
  obtain ⟨h1, h2, _⟩ := history_clean_up ⟨false⟩ 0 0x1000#64 m0 (fun _ => rfl) demoOps demo_valid
    [opA, opU, .cleanUp, opB] .cleanUp [] rfl 0 0xfffffffffffff000 rfl
  refine ⟨h1, h2, ?_⟩
  rw [run4]
  exact demo_clean5_eval.1

/-- a clean-up over an arbitrary page range after the whole demo history (`history_then_clean_up`): the range
`0x200000 ..= 0x3ff000` (the 2 MiB block of the second page) -/
example : CleanUpOK ⟨false⟩ 0 0x1000#64 (runHistory ⟨false⟩ 0 0x1000#64 m0 demoOps) 0x200000 0x3ff000 ∧
    CleanUpPagesOK ⟨false⟩ 0 0x1000#64 (runHistory ⟨false⟩ 0 0x1000#64 m0 demoOps) 0x200000 0x3ff000 := by
  obtain ⟨h1, h2⟩ := history_then_clean_up ⟨false⟩ 0 0x1000#64 m0 (fun _ => rfl) demoOps demo_valid 0x200000 0x3ff000
  refine ⟨h1, h2 ?_ ?_ (by omega)⟩ <;> (unfold PageAddr canon; omega)

/-! #### A failed call: mapping an already mapped page -/

/-- `map_to` of the page `[0,0,0]/5` (already mapped by `opA`) to another frame; the allocator has nothing to give -/
def opA2 : HOp := .call (.map [0, 0, 0] 5 false 4096 0x7000#64 3#64 3#64 [])

/-- `unmap` of a page that was never mapped -/
def opU2 : HOp := .call (.unmap [0, 0, 1] 7 false 4096)

def failOps : List HOp := [opA, opA2, opU2]

set_option maxRecDepth 100000 in
theorem fail_exec2 : (exec ⟨false⟩ 0 0x1000#64 mA opA2).1 = false := by decide +kernel

theorem fail_valid2 : Valid 0x1000#64 mA opA2 := by
  have hi3 : IdxOK [0, 0, 0] := by intro j h; simp at h; omega
  refine ⟨.s4k 0 0 0, hi3, by omega, ⟨by decide, by decide⟩, ?_, ?_, trivial⟩
  · simp only [Bool.false_eq_true, if_false]; unfold LeafBits4K; decide
  · unfold FrameOK; simp only [if_true]; decide

theorem failOps_valid : HistoryValid ⟨false⟩ 0 0x1000#64 m0 failOps := by
  unfold failOps
  rw [historyValid_cons, snd_of demo_exec1, historyValid_cons, historyValid_cons]
  exact ⟨demo_valid1, fail_valid2, ⟨.s4k 0 0 1, by intro j h; simp at h; omega⟩, trivial⟩

private theorem run1 : runHistory ⟨false⟩ 0 0x1000#64 m0 [opA] = mA := by
  rw [runHistory_cons, snd_of demo_exec1]; rfl

/-- **a failed mapper call** (call 2 of `failOps`: `PageAlreadyMapped`): the hypotheses of `history_failed_call`
are satisfiable; every address translates as before, the abstract state is still the record of the first page -/
example :
    (∀ va, (Spec.walk (runHistory ⟨false⟩ 0 0x1000#64 m0 ([opA] ++ [opA2])) 0x1000#64 va).map Xlat.core =
      (Spec.walk (runHistory ⟨false⟩ 0 0x1000#64 m0 [opA]) 0x1000#64 va).map Xlat.core) ∧
    expectedAbs ⟨false⟩ 0 0x1000#64 m0 [] ([opA] ++ [opA2]) = expectedAbs ⟨false⟩ 0 0x1000#64 m0 [] [opA] ∧
    LeafSame 0x1000#64 (runHistory ⟨false⟩ 0 0x1000#64 m0 [opA]) (runHistory ⟨false⟩ 0 0x1000#64 m0 ([opA] ++ [opA2])) := by
  have hfail : (exec ⟨false⟩ 0 0x1000#64 (runHistory ⟨false⟩ 0 0x1000#64 m0 [opA])
      (.call (.map [0, 0, 0] 5 false 4096 0x7000#64 3#64 3#64 []))).1 = false := by
    rw [run1]; exact fail_exec2
  obtain ⟨_, _, h3, h4, _, h6, _⟩ := history_failed_call ⟨false⟩ 0 0x1000#64 m0 (fun _ => rfl) failOps failOps_valid
    [opA] (.map [0, 0, 0] 5 false 4096 0x7000#64 3#64 3#64 []) [opU2] rfl hfail
  exact ⟨h3, h4, h6⟩

/-! #### A failed call that has written: allocation failure at the third request -/

/-- `map_to` of the 4 KiB page `[0,0,0]/5` into the empty hierarchy with an allocator that answers `0x2000`,
`0x3000` and then refuses -/
def opF : HOp := .call (.map [0, 0, 0] 5 false 4096 0x5000#64 3#64 3#64 [some 0x2000#64, some 0x3000#64, none])

theorem opF_valid : HistoryValid ⟨false⟩ 0 0x1000#64 m0 [opF] := by
  have hroot : ∀ (q : List Nat) (f : Word), tblAt m0 0x1000#64 q = some f → f = 0x1000#64 := by
    intro q f h
    cases q with
    | nil => simp [tblAt] at h; exact h.symm
    | cons j q =>
      have : tableOf (m0 0x1000#64 j) = none := by show tableOf 0#64 = none; decide
      simp [tblAt, this] at h
  have hi3 : IdxOK [0, 0, 0] := by intro j h; simp at h; omega
  refine ⟨⟨.s4k 0 0 0, hi3, by omega, ⟨by decide, by decide⟩, ?_, ?_, ?_⟩, trivial⟩
  · simp only [Bool.false_eq_true, if_false]; unfold LeafBits4K; decide
  · unfold FrameOK; simp only [if_true]; decide
  · refine ⟨⟨by decide, ?_⟩, ?_, ⟨by decide, ?_⟩, ?_, trivial⟩
    · intro q _ _ h; exact absurd (hroot q _ h) (by decide)
    · intro g hg; simp at hg; subst hg; decide
    · intro q _ _ h; exact absurd (hroot q _ h) (by decide)
    · intro g hg; simp at hg

set_option maxRecDepth 1000000 in
/-- **Counterexample to the word-level reading of "at most the requested parent flags may be added to existing
parent-table entries"**: the call `opF` is valid, FAILS (third allocation refused), and yet entry 0 of the level-4
table — an existing table, the entry unused before — now links the freshly allocated (zeroed) table `0x2000`, whose
entry 0 links `0x3000`. The changed word did not "only gain parent flags". (No mapping is created: `history_failed_call`
applies to this call; the two tables stay behind, empty, until a clean-up.) -/
theorem failed_map_links_new_table :
    HistoryValid ⟨false⟩ 0 0x1000#64 m0 [opF] ∧
    (exec ⟨false⟩ 0 0x1000#64 m0 opF).1 = false ∧
    m0 0x1000#64 0 = 0#64 ∧ (exec ⟨false⟩ 0 0x1000#64 m0 opF).2 0x1000#64 0 = 0x2003#64 ∧
    (exec ⟨false⟩ 0 0x1000#64 m0 opF).2 0x2000#64 0 = 0x3003#64 ∧
    allocatedIn (C09History.callLog ⟨false⟩ 0 0x1000#64 m0 opF) = [0x2000#64, 0x3000#64] := by
  refine ⟨opF_valid, ?_, rfl, ?_, ?_, ?_⟩ <;> decide +kernel

/-- …and the history theorem applied to that failed call: no address is translated afterwards either, and the
abstract state stays empty -/
example : (∀ va, (Spec.walk (runHistory ⟨false⟩ 0 0x1000#64 m0 ([] ++ [opF])) 0x1000#64 va).map Xlat.core = none) ∧
    expectedAbs ⟨false⟩ 0 0x1000#64 m0 [] ([] ++ [opF]) = [] := by
  obtain ⟨_, _, _, h4, h5, _⟩ := history_failed_call ⟨false⟩ 0 0x1000#64 m0 (fun _ => rfl) [opF] opF_valid []
    (.map [0, 0, 0] 5 false 4096 0x5000#64 3#64 3#64 [some 0x2000#64, some 0x3000#64, none]) [] rfl
    failed_map_links_new_table.2.1
  exact ⟨fun va => (h5 va).trans rfl, h4⟩

end X86.C10History
