/-
The correspondence oracle's expectation = the proven specification.

Two formulations of "what the history of mapper calls dictates for a virtual address" exist:
* the executable ORACLE of `Driver/Mapper.lean` (`absLookup`, `walkMatchesAbs`, the update of `abs'` in
  `handleMapper`): a most-recent-first list of `AbsMap` entries looked up by ADDRESS RANGE
  `[start, start + size)` over canonical (sign-extended) addresses;
* the SPECIFICATION of `Properties/C01HistoryDormant.lean` / `C01HistoryFull.lean` (`Abs = List PageRec`,
  `Abs.at`, `expectedHw`, `absOk`): records looked up by INDEX-PATH PREFIX.

This file proves that they are the same function on the states histories reach:
1. `absLookup_toAbsMap`, `oracleExpect_eq_expectedHw` — lookup agreement at every canonical address;
2. `oracleOk_sim` — the oracle's list update for a successful map / unmap / update_flags / set_flags_pN
   call equals the translation of `absOk`, up to the `prw`/`pus` fields (which no lookup reads) and outside
   the degenerate all-zero leaf word;
3. `oracle_history`, `oracle_history_dormant` — for every valid history from the empty table, the oracle's
   own fold agrees with the hardware walk of the model's memory at every canonical address
   (`walkMatchesAbs … = true`).
Corners where the two differ are given as `example`s at the end (non-canonical `va`, the all-zero leaf word,
`unmap` with an out-of-range slot index) together with the corners where they do NOT differ although the
representation loses information (bit 7 of the requested flags of a huge page).

The oracle's update is an inline `let abs'` of the (large) `handleMapper`; `oracleOk` below restates its
branches verbatim (opcodes 0–2: push; 3: filter; 4: flag replacement; 5–7: `prw`/`pus` lowering; 9, 10:
nothing). The oracle's `disabled` list stays `[]` along the histories considered here: `ValidD` requires
`PRESENT` in the flags of every `set_flags_pN_entry` call, for which `handleMapper` only ever filters
`disabled`.
-/
import X86Model.Driver.Mapper
import X86Model.Properties.C01HistoryFull
import X86Model.Proofs.Canon

namespace X86.OracleSpec
open X86 X86.Spec X86.C01 X86.C01HistoryDormant X86.Driver

/-! ### Addresses of pages -/

/-- Start address of the page `parents`/`li` in lower-half form (`PageRec.start`). -/
def pageStart (parents : List Nat) (li : Nat) : Nat :=
  (parents ++ [li]).foldl (fun acc i => acc * 512 + i) 0 * 512 ^ (3 - parents.length) * 4096

/-- The canonical (sign-extended) start address of the page, as the harness passes it. -/
def pageAddr (parents : List Nat) (li : Nat) : Nat := signExt48 (pageStart parents li)

theorem pageStart_eq (r : PageRec) : pageStart r.parents r.li = r.start := rfl

theorem signExt48_cases (s : Nat) (h : s < 2^48) :
    (s < 2^47 ∧ signExt48 s = s) ∨ (2^47 ≤ s ∧ signExt48 s = s + (2^64 - 2^48)) := by
  unfold signExt48; split <;> omega

/-- **Range = prefix.** For a canonical address, lying in `[start, start + size)` of the canonical start
address of a page is the same as having the page's indices as a prefix of the address's index path; and then
the offset `va - start` is `va % size`. -/
theorem inRange_iff_covers {parents : List Nat} {huge : Bool} {sz : Nat} (li : Nat)
    (sh : PageShape parents huge sz) (hpi : IdxOK parents) (hli : li < 512) (va : Nat) (hc : canon va) :
    ((pageAddr parents li ≤ va ∧ va < pageAddr parents li + sz) ↔ parents ++ [li] <+: vaPath va) ∧
    (pageAddr parents li ≤ va → va < pageAddr parents li + sz → va - pageAddr parents li = va % sz) := by
  unfold canon at hc
  cases sh with
  | s4k a b c =>
    have ha : a < 512 := hpi a (by simp)
    have hb : b < 512 := hpi b (by simp)
    have hc' : c < 512 := hpi c (by simp)
    have hS : pageStart [a, b, c] li = a * 2^39 + b * 2^30 + c * 2^21 + li * 2^12 := by
      simp [pageStart]; omega
    have hx := signExt48_cases (pageStart [a, b, c] li) (by omega)
    simp only [pageAddr]
    generalize signExt48 (pageStart [a, b, c] li) = P at *
    simp [vaPath, vaPathFrom, vaIdx, List.cons_prefix_cons]
    omega
  | s2m a b =>
    have ha : a < 512 := hpi a (by simp)
    have hb : b < 512 := hpi b (by simp)
    have hS : pageStart [a, b] li = a * 2^39 + b * 2^30 + li * 2^21 := by
      simp [pageStart]; omega
    have hx := signExt48_cases (pageStart [a, b] li) (by omega)
    simp only [pageAddr]
    generalize signExt48 (pageStart [a, b] li) = P at *
    simp [vaPath, vaPathFrom, vaIdx, List.cons_prefix_cons]
    omega
  | s1g a =>
    have ha : a < 512 := hpi a (by simp)
    have hS : pageStart [a] li = a * 2^39 + li * 2^30 := by
      simp [pageStart]; omega
    have hx := signExt48_cases (pageStart [a] li) (by omega)
    simp only [pageAddr]
    generalize signExt48 (pageStart [a] li) = P at *
    simp [vaPath, vaPathFrom, vaIdx, List.cons_prefix_cons]
    omega

/-- The canonical start address and the size determine the page. -/
theorem pageAddr_inj {p p' : List Nat} {h h' : Bool} {sz sz' : Nat} {li li' : Nat}
    (sh : PageShape p h sz) (sh' : PageShape p' h' sz') (hsz : sz = sz')
    (hpi : IdxOK p) (hpi' : IdxOK p') (hli : li < 512) (hli' : li' < 512)
    (he : pageAddr p li = pageAddr p' li') : p = p' ∧ li = li' := by
  cases sh with
  | s4k a b c =>
    cases sh' with
    | s4k a' b' c' =>
      have ha : a < 512 := hpi a (by simp)
      have hb : b < 512 := hpi b (by simp)
      have hc : c < 512 := hpi c (by simp)
      have ha' : a' < 512 := hpi' a' (by simp)
      have hb' : b' < 512 := hpi' b' (by simp)
      have hc' : c' < 512 := hpi' c' (by simp)
      have hS : pageStart [a, b, c] li = a * 2^39 + b * 2^30 + c * 2^21 + li * 2^12 := by
        simp [pageStart]; omega
      have hS' : pageStart [a', b', c'] li' = a' * 2^39 + b' * 2^30 + c' * 2^21 + li' * 2^12 := by
        simp [pageStart]; omega
      have hx := signExt48_cases (pageStart [a, b, c] li) (by omega)
      have hx' := signExt48_cases (pageStart [a', b', c'] li') (by omega)
      simp only [pageAddr] at he
      have : a = a' ∧ b = b' ∧ c = c' ∧ li = li' := by omega
      obtain ⟨rfl, rfl, rfl, rfl⟩ := this
      exact ⟨rfl, rfl⟩
    | s2m a' b' => exfalso; omega
    | s1g a' => exfalso; omega
  | s2m a b =>
    cases sh' with
    | s4k a' b' c' => exfalso; omega
    | s2m a' b' =>
      have ha : a < 512 := hpi a (by simp)
      have hb : b < 512 := hpi b (by simp)
      have ha' : a' < 512 := hpi' a' (by simp)
      have hb' : b' < 512 := hpi' b' (by simp)
      have hS : pageStart [a, b] li = a * 2^39 + b * 2^30 + li * 2^21 := by
        simp [pageStart]; omega
      have hS' : pageStart [a', b'] li' = a' * 2^39 + b' * 2^30 + li' * 2^21 := by
        simp [pageStart]; omega
      have hx := signExt48_cases (pageStart [a, b] li) (by omega)
      have hx' := signExt48_cases (pageStart [a', b'] li') (by omega)
      simp only [pageAddr] at he
      have : a = a' ∧ b = b' ∧ li = li' := by omega
      obtain ⟨rfl, rfl, rfl⟩ := this
      exact ⟨rfl, rfl⟩
    | s1g a' => exfalso; omega
  | s1g a =>
    cases sh' with
    | s4k a' b' c' => exfalso; omega
    | s2m a' b' => exfalso; omega
    | s1g a' =>
      have ha : a < 512 := hpi a (by simp)
      have ha' : a' < 512 := hpi' a' (by simp)
      have hS : pageStart [a] li = a * 2^39 + li * 2^30 := by
        simp [pageStart]; omega
      have hS' : pageStart [a'] li' = a' * 2^39 + li' * 2^30 := by
        simp [pageStart]; omega
      have hx := signExt48_cases (pageStart [a] li) (by omega)
      have hx' := signExt48_cases (pageStart [a'] li') (by omega)
      simp only [pageAddr] at he
      have : a = a' ∧ li = li' := by omega
      obtain ⟨rfl, rfl⟩ := this
      exact ⟨rfl, rfl⟩

/-- The harness computes the index path from the page address (`pathOf`); for the canonical start address of
a page it returns the page's indices. -/
theorem pathOf_pageAddr {parents : List Nat} {huge : Bool} {sz : Nat} (li : Nat)
    (sh : PageShape parents huge sz) (hpi : IdxOK parents) (hli : li < 512) :
    ∃ szc, sizeOf szc = sz ∧ (szc != 0) = huge ∧ pathOf szc (pageAddr parents li) = (parents, li) := by
  cases sh with
  | s4k a b c =>
    have ha : a < 512 := hpi a (by simp)
    have hb : b < 512 := hpi b (by simp)
    have hc' : c < 512 := hpi c (by simp)
    have hS : pageStart [a, b, c] li = a * 2^39 + b * 2^30 + c * 2^21 + li * 2^12 := by
      simp [pageStart]; omega
    have hx := signExt48_cases (pageStart [a, b, c] li) (by omega)
    refine ⟨0, rfl, rfl, ?_⟩
    simp only [pageAddr, pathOf]
    generalize signExt48 (pageStart [a, b, c] li) = P at *
    simp
    omega
  | s2m a b =>
    have ha : a < 512 := hpi a (by simp)
    have hb : b < 512 := hpi b (by simp)
    have hS : pageStart [a, b] li = a * 2^39 + b * 2^30 + li * 2^21 := by
      simp [pageStart]; omega
    have hx := signExt48_cases (pageStart [a, b] li) (by omega)
    refine ⟨1, rfl, rfl, ?_⟩
    simp only [pageAddr, pathOf]
    generalize signExt48 (pageStart [a, b] li) = P at *
    simp
    omega
  | s1g a =>
    have ha : a < 512 := hpi a (by simp)
    have hS : pageStart [a] li = a * 2^39 + li * 2^30 := by
      simp [pageStart]; omega
    have hx := signExt48_cases (pageStart [a] li) (by omega)
    refine ⟨2, rfl, rfl, ?_⟩
    simp only [pageAddr, pathOf]
    generalize signExt48 (pageStart [a] li) = P at *
    simp
    omega

/-! ### Translation of records, and what the oracle reads of an entry -/

/-- **The oracle entry of a specification record**: canonical start address, size, frame, and the flags with
`HUGE_PAGE` OR-ed in for huge pages (`prw`/`pus`: the defaults; no lookup reads them). -/
def toAbsMap (r : PageRec) : Driver.AbsMap :=
  { start := pageAddr r.parents r.li, size := r.sz, frame := r.frame.toNat, flags := leafFlagsOf r.huge r.flags }

theorem toAbsMap_start (r : PageRec) : (toAbsMap r).start = signExt48 r.start := rfl

/-- The part of an oracle entry that `absLookup`, `walkMatchesAbs` and `softMatchesAbs` read. -/
abbrev Core := Nat × Nat × Nat × Word

def core (x : Driver.AbsMap) : Core := (x.start, x.size, x.frame, x.flags)

/-- The oracle's list `abs` describes the specification's state `a`: same entries in the same order, up to
the `prw`/`pus` fields. -/
def Sim (abs : List Driver.AbsMap) (a : Abs) : Prop := abs.map core = (a.map toAbsMap).map core

theorem Sim.refl (a : Abs) : Sim (a.map toAbsMap) a := rfl
theorem Sim.nil : Sim [] [] := rfl

/-- The tuple `walkMatchesAbs` compares the hardware walk with: frame, size, offset `va - start`, and the
flags on the compared domain `flagDom size`. -/
def oracleExpect (abs : List Driver.AbsMap) (va : Nat) : Option (Nat × Nat × Nat × Word) :=
  (absLookup abs va).map (fun x => (x.frame, x.size, va - x.start, x.flags &&& flagDom x.size))

/-- `walkMatchesAbs` (no switched-off parent entries) says exactly: the mapping part of the hardware walk is
`oracleExpect`. -/
theorem walkMatchesAbs_iff (m : PMem) (p4 : Word) (abs : List Driver.AbsMap) (va : Nat) :
    walkMatchesAbs m p4 abs [] va = true ↔ (walk m p4 va).map Xlat.core = oracleExpect abs va := by
  unfold walkMatchesAbs oracleExpect
  have hd : underDisabled [] va = false := by simp [underDisabled]
  rw [hd]
  simp only [Bool.false_eq_true, if_false]
  cases walk m p4 va with
  | none => cases absLookup abs va <;> simp
  | some x =>
    cases absLookup abs va with
    | none => simp
    | some y => simp [Xlat.core, and_assoc]

/-- Lookup on cores. -/
def coreLookup (l : List Core) (va : Nat) : Option Core :=
  (l.find? (fun c => c.1 ≤ va && va < c.1 + c.2.1)).filter (fun c => c.2.2.2 &&& 1#64 != 0#64)

theorem absLookup_core (abs : List Driver.AbsMap) (va : Nat) :
    (absLookup abs va).map core = coreLookup (abs.map core) va := by
  unfold absLookup coreLookup
  rw [List.find?_map]
  have : ((fun c : Core => decide (c.1 ≤ va) && decide (va < c.1 + c.2.1)) ∘ core) =
      (fun a : Driver.AbsMap => decide (a.start ≤ va) && decide (va < a.start + a.size)) := rfl
  rw [this]
  cases List.find? (fun a : Driver.AbsMap => decide (a.start ≤ va) && decide (va < a.start + a.size)) abs with
  | none => rfl
  | some x =>
    by_cases h : (x.flags &&& 1#64 != 0#64) = true
    · simp [Option.filter, core, h]
    · simp [Option.filter, core, h]

/-- What the oracle expects depends only on the cores of its entries. -/
theorem oracleExpect_core (abs : List Driver.AbsMap) (va : Nat) :
    oracleExpect abs va =
      (coreLookup (abs.map core) va).map (fun c => (c.2.2.1, c.2.1, va - c.1, c.2.2.2 &&& flagDom c.2.1)) := by
  rw [← absLookup_core, Option.map_map]
  rfl

theorem oracleExpect_congr {abs abs' : List Driver.AbsMap} (h : abs.map core = abs'.map core) (va : Nat) :
    oracleExpect abs va = oracleExpect abs' va := by
  rw [oracleExpect_core, oracleExpect_core, h]

theorem walkMatchesAbs_congr {abs abs' : List Driver.AbsMap} (h : abs.map core = abs'.map core) (m : PMem) (p4 : Word)
    (va : Nat) : walkMatchesAbs m p4 abs [] va = walkMatchesAbs m p4 abs' [] va := by
  rw [Bool.eq_iff_iff, walkMatchesAbs_iff, walkMatchesAbs_iff, oracleExpect_congr h]

/-! ### 1. Lookup agreement -/

private theorem present_bit (huge : Bool) (fl : Word) :
    (leafFlagsOf huge fl &&& 1#64 != 0#64) = (fl &&& 1#64 == 1#64) := by
  unfold leafFlagsOf
  cases huge
  · simp only [Bool.false_eq_true, if_false]
    rw [Bool.eq_iff_iff]; simp only [bne_iff_ne, beq_iff_eq, ne_eq]
    unfold Word at *; constructor <;> intro h <;> bv_decide
  · simp only [if_true]
    rw [Bool.eq_iff_iff]; simp only [bne_iff_ne, beq_iff_eq, ne_eq]
    unfold Word at *; constructor <;> intro h <;> bv_decide

private theorem find?_congr' {α : Type} {p q : α → Bool} :
    ∀ (l : List α), (∀ x ∈ l, p x = q x) → l.find? p = l.find? q := by
  intro l
  induction l with
  | nil => intro _; rfl
  | cons x rest ih =>
    intro h
    simp only [List.find?_cons, h x (by simp)]
    rw [ih (fun y hy => h y (List.mem_cons_of_mem _ hy))]

/-- The oracle's range test on the translated record is the specification's prefix test. -/
theorem inRange_toAbsMap (r : PageRec) (hok : r.OK) (va : Nat) (hc : canon va) :
    (decide ((toAbsMap r).start ≤ va) && decide (va < (toAbsMap r).start + (toAbsMap r).size)) = r.covers va := by
  rw [Bool.eq_iff_iff, PageRec.covers_iff, ← (inRange_iff_covers r.li hok.shape hok.idx hok.li va hc).1]
  simp only [Bool.and_eq_true, decide_eq_true_eq]
  exact Iff.rfl

/-- **Lookup agreement** (well-formed records, canonical address): the oracle's `absLookup` on the translated
list finds the translation of the record `Abs.at` finds, and keeps it exactly when the record's flags contain
`PRESENT`. (No disjointness hypothesis is needed: both sides take the FIRST entry containing the address.) -/
theorem absLookup_toAbsMap (a : Abs) (hok : ∀ r ∈ a, r.OK) (va : Nat) (hc : canon va) :
    absLookup (a.map toAbsMap) va = ((a.at va).filter (fun r => r.flags &&& 1#64 == 1#64)).map toAbsMap := by
  unfold absLookup Abs.at
  rw [List.find?_map]
  have hcg : a.find? ((fun x : Driver.AbsMap => decide (x.start ≤ va) && decide (va < x.start + x.size)) ∘ toAbsMap) =
      a.find? (fun r => r.covers va) := by
    apply find?_congr'
    intro r hr
    exact inRange_toAbsMap r (hok r hr) va hc
  rw [hcg]
  cases a.find? (fun r => r.covers va) with
  | none => rfl
  | some r =>
    have hb := present_bit r.huge r.flags
    by_cases h : (r.flags &&& 1#64 == 1#64) = true
    · have hb' : ((toAbsMap r).flags &&& 1#64 != 0#64) = true := by rw [← h]; exact hb
      simp [Option.filter, h, hb']
    · have h' : (r.flags &&& 1#64 == 1#64) = false := by simpa using h
      have hb' : ((toAbsMap r).flags &&& 1#64 != 0#64) = false := by rw [← h']; exact hb
      simp [Option.filter, h', hb']

/-- The same, in the words of the brief: `some (toAbsMap r)` when `a.at va = some r` with `PRESENT`, `none`
otherwise. -/
theorem absLookup_toAbsMap_cases (a : Abs) (hok : ∀ r ∈ a, r.OK) (va : Nat) (hc : canon va) :
    absLookup (a.map toAbsMap) va =
      match a.at va with
      | some r => if r.flags &&& 1#64 = 1#64 then some (toAbsMap r) else none
      | none => none := by
  rw [absLookup_toAbsMap a hok va hc]
  cases a.at va with
  | none => rfl
  | some r =>
    by_cases h : r.flags &&& 1#64 = 1#64
    · simp [Option.filter, h]
    · simp [Option.filter, h]

private theorem flags_dom {parents : List Nat} {huge : Bool} {sz : Nat} (sh : PageShape parents huge sz) (fl : Word)
    (hfl : if huge then LeafBitsHuge fl else LeafBits4K fl) :
    leafFlagsOf huge fl &&& flagDom sz = leafFlagsOf huge fl := by
  cases sh with
  | s4k a b c =>
    simp only [Bool.false_eq_true, if_false] at hfl
    unfold LeafBits4K at hfl
    have hd : flagDom 4096 = 0xfff0000000000fff#64 := by decide
    rw [hd]; unfold leafFlagsOf; simp only [Bool.false_eq_true, if_false]
    unfold Word at *; bv_decide
  | s2m a b =>
    simp only [if_true] at hfl
    unfold LeafBitsHuge at hfl
    have hd : flagDom (2^21) = 0xfff0000000001fff#64 := by decide
    rw [hd]; unfold leafFlagsOf; simp only [if_true]
    unfold Word at *; bv_decide
  | s1g a =>
    simp only [if_true] at hfl
    unfold LeafBitsHuge at hfl
    have hd : flagDom (2^30) = 0xfff0000000001fff#64 := by decide
    rw [hd]; unfold leafFlagsOf; simp only [if_true]
    unfold Word at *; bv_decide

/-- **The oracle's expectation is the specification's** (well-formed records, canonical address): the tuple
`walkMatchesAbs` compares the walk with — frame, size, `va - start`, flags on `flagDom size` — equals
`expectedHw a va` — frame, size, `va % size`, `leafFlagsOf huge flags`. For well-formed records
`leafFlagsOf huge flags` lies inside `flagDom size` (`flags_dom`), so the restriction to the compared domain
loses nothing: the oracle compares ALL the leaf flags the specification speaks about. -/
theorem oracleExpect_eq_expectedHw (a : Abs) (hok : ∀ r ∈ a, r.OK) (va : Nat) (hc : canon va) :
    oracleExpect (a.map toAbsMap) va = expectedHw a va := by
  unfold oracleExpect expectedHw
  rw [absLookup_toAbsMap_cases a hok va hc]
  cases hat : a.at va with
  | none => rfl
  | some r =>
    simp only
    have hat' : a.find? (fun r => r.covers va) = some r := hat
    have hr : r ∈ a := List.mem_of_find?_eq_some hat'
    have hc0 := List.find?_some hat'
    have hcov : r.covers va = true := hc0
    have hrok := hok r hr
    by_cases h : r.flags &&& 1#64 = 1#64
    · rw [if_pos h, if_pos h]
      simp only [Option.map]
      have hin := inRange_iff_covers r.li hrok.shape hrok.idx hrok.li va hc
      have hin' := hin.1.2 ((PageRec.covers_iff r va).1 hcov)
      have hoff := hin.2 hin'.1 hin'.2
      have hfl := flags_dom hrok.shape r.flags hrok.flags
      simp only [toAbsMap, hoff, hfl]
    · rw [if_neg h, if_neg h]; rfl

/-- In terms of the oracle's verdict: on the translated list, `walkMatchesAbs` holds at a canonical address
iff the mapping part of the walk is `expectedHw`. -/
theorem walkMatchesAbs_toAbsMap (m : PMem) (p4 : Word) (a : Abs) (hok : ∀ r ∈ a, r.OK) (va : Nat) (hc : canon va) :
    walkMatchesAbs m p4 (a.map toAbsMap) [] va = true ↔ (walk m p4 va).map Xlat.core = expectedHw a va := by
  rw [walkMatchesAbs_iff, oracleExpect_eq_expectedHw a hok va hc]

/-! ### 2. Update agreement -/

/-- **The oracle's update of its list for a successful call** — the branches of `abs'` in `handleMapper`,
with the harness' numbers expressed by the call's arguments: `page = pageAddr parents li` (the harness derives
`parents`/`li` from `page` by `pathOf`, `pathOf_pageAddr`), `frame` and `flags` the numbers of the words. -/
def oracleOk (abs : List Driver.AbsMap) : MOp → List Driver.AbsMap
  | .map parents li huge sz frame flags pflags _ =>
    { start := pageAddr parents li, size := sz, frame := frame.toNat,
      flags := (if huge then flags ||| 0x80#64 else flags),
      prw := bitRW pflags, pus := bitUS pflags } :: abs
  | .unmap parents li _ sz => abs.filter (fun x => !(x.start == pageAddr parents li && x.size == sz))
  | .update parents li huge sz flags =>
    abs.map (fun x => if x.start == pageAddr parents li && x.size == sz
      then { x with flags := (if huge then flags ||| 0x80#64 else flags) } else x)
  | .setParent parents idx flags =>
    let pre := parents ++ [idx]
    abs.map (fun x =>
      if pre == [vaIdx4 x.start, vaIdx3 x.start, vaIdx2 x.start].take pre.length then
        { x with prw := x.prw && bitRW flags, pus := x.pus && bitUS flags }
      else x)

/-- The oracle's update as a function of whether the call succeeded (`if !isOk then st.abs`). -/
def oracleStep (abs : List Driver.AbsMap) (ok : Bool) (op : MOp) : List Driver.AbsMap := if ok then oracleOk abs op else abs

/-- Side conditions under which the two updates agree; the first two exclude the degenerate all-zero leaf
word (`absOk` keeps no record for it, the oracle keeps an entry), the third is what `pathOf` guarantees:
* `map`: the raw word `frame | flags (| HUGE)` is not zero;
* `update`: the page is huge or the new flags are not zero (then the new raw word is not zero);
* `unmap`: the slot index is a real index (`ValidD` does not say so for `unmap`). -/
def OpND : MOp → Prop
  | .map _ _ huge _ frame flags _ _ => leafWord huge frame flags ≠ 0#64
  | .unmap _ li _ _ => li < 512
  | .update _ _ huge _ flags => huge = true ∨ flags ≠ 0#64
  | .setParent _ _ _ => True

private theorem leafWord_ne_zero (huge : Bool) (frame flags : Word) (h : huge = true ∨ flags ≠ 0#64) :
    leafWord huge frame flags ≠ 0#64 := by
  unfold leafWord Pte.mk leafFlagsOf
  cases huge
  · simp only [Bool.false_eq_true, if_false]
    rcases h with h | h
    · cases h
    · unfold Word at *; bv_decide
  · simp only [if_true]
    unfold Word at *; bv_decide

/-- A record is the record of the page `parents`/`li` iff its oracle entry has the page's canonical start
address and size. -/
theorem isPage_iff_addr (r : PageRec) (hok : r.OK) {parents : List Nat} {huge : Bool} {sz : Nat} (li : Nat)
    (sh : PageShape parents huge sz) (hpi : IdxOK parents) (hli : li < 512) :
    r.isPage parents li = ((toAbsMap r).start == pageAddr parents li && (toAbsMap r).size == sz) := by
  rw [Bool.eq_iff_iff, PageRec.isPage_iff]
  simp only [toAbsMap, Bool.and_eq_true, beq_iff_eq]
  constructor
  · rintro ⟨e1, e2⟩
    refine ⟨by rw [e1, e2], ?_⟩
    exact (pageShape_unique (e1 ▸ hok.shape) sh).2
  · rintro ⟨e1, e2⟩
    exact pageAddr_inj hok.shape sh e2 hok.idx hpi hok.li hli e1

private theorem filter_sim {α β γ : Type} (f : α → γ) (g : β → γ) (P' : γ → Bool) (Q : β → Bool)
    (l : List α) (l' : List β) (h : l.map f = l'.map g) (hQ : ∀ r ∈ l', Q r = P' (g r)) :
    (l.filter (P' ∘ f)).map f = (l'.filter Q).map g := by
  rw [← List.filter_map, h, List.filter_map]
  congr 1
  apply List.filter_congr
  intro r hr
  simp [hQ r hr]

private theorem filterMap_sim {β γ : Type} (g : β → γ) (U' : γ → γ) (V : β → Option β) :
    ∀ (l' : List β), (∀ r ∈ l', ∃ r', V r = some r' ∧ g r' = U' (g r)) →
      (l'.filterMap V).map g = (l'.map g).map U' := by
  intro l'
  induction l' with
  | nil => intro _; rfl
  | cons r rest ih =>
    intro hV
    obtain ⟨r', e1, e2⟩ := hV r (by simp)
    rw [List.filterMap_cons_some e1]
    simp only [List.map_cons, e2]
    rw [ih (fun x hx => hV x (List.mem_cons_of_mem _ hx))]

private theorem map_sim {α β γ : Type} (f : α → γ) (g : β → γ) (U : α → α) (U' : γ → γ) (V : β → Option β)
    (l : List α) (l' : List β) (h : l.map f = l'.map g) (hU : ∀ x, f (U x) = U' (f x))
    (hV : ∀ r ∈ l', ∃ r', V r = some r' ∧ g r' = U' (g r)) :
    (l.map U).map f = (l'.filterMap V).map g := by
  rw [filterMap_sim g U' V l' hV, ← h, List.map_map, List.map_map]
  apply List.map_congr_left
  intro x _
  exact hU x

/-- **Update agreement.** For a call with the shape `ValidD` demands (page shape, real indices), outside the
degenerate all-zero leaf word (`OpND`), the oracle's update of a list describing `a` describes `absOk a op`:
same entries in the same order, up to `prw`/`pus` (`map` sets them from the parent flags, `set_flags_pN_entry`
lowers them; `absOk` does not speak about them and no lookup reads them). -/
theorem oracleOk_sim {abs : List Driver.AbsMap} {a : Abs} (hs : Sim abs a) (hok : ∀ r ∈ a, r.OK)
    (p4 : Word) (m : PMem) (op : MOp) (hv : ValidD p4 m op) (hnd : OpND op) :
    Sim (oracleOk abs op) (absOk a op) := by
  unfold Sim at *
  cases op with
  | map parents li huge sz frame flags pflags allocs =>
    simp only [oracleOk, absOk]
    rw [if_neg hnd]
    simp only [List.map_cons, hs]
    rfl
  | unmap parents li huge sz =>
    obtain ⟨sh, hpi⟩ := hv
    have hli : li < 512 := hnd
    simp only [oracleOk, absOk]
    rw [List.map_map] at hs
    exact Eq.trans (filter_sim core (core ∘ toAbsMap) (fun c => !(c.1 == pageAddr parents li && c.2.1 == sz))
      (fun r => !r.isPage parents li) abs a hs
      (fun r hr => by rw [isPage_iff_addr r (hok r hr) li sh hpi hli]; rfl)) List.map_map.symm
  | update parents li huge sz flags =>
    obtain ⟨sh, hpi, hli, hfl⟩ := hv
    simp only [oracleOk, absOk]
    rw [List.map_map] at hs
    refine Eq.trans (map_sim core (core ∘ toAbsMap) _
      (fun c => if c.1 == pageAddr parents li && c.2.1 == sz
        then (c.1, c.2.1, c.2.2.1, (if huge then flags ||| 0x80#64 else flags)) else c) _ abs a hs ?_ ?_)
      List.map_map.symm
    · intro x
      by_cases hc : (x.start == pageAddr parents li && x.size == sz) = true
      · simp only [core, hc, if_true]
      · simp only [core, hc, Bool.false_eq_true, if_false]
    · intro r hr
      have hpage := isPage_iff_addr r (hok r hr) li sh hpi hli
      by_cases hc : r.isPage parents li = true
      · obtain ⟨e1, e2⟩ := (PageRec.isPage_iff _ _ _).1 hc
        have hh : r.huge = huge := (pageShape_unique (e1 ▸ (hok r hr).shape) sh).1
        have hz : leafWord r.huge r.frame flags ≠ 0#64 := leafWord_ne_zero _ _ _ (by rw [hh]; exact hnd)
        refine ⟨{ r with flags := flags }, by rw [if_pos hc, if_neg hz], ?_⟩
        rw [hc] at hpage
        simp only [Function.comp, core, ← hpage, if_true]
        simp only [toAbsMap, hh]
        rfl
      · refine ⟨r, by rw [if_neg hc], ?_⟩
        have hc' : r.isPage parents li = false := by simpa using hc
        rw [hc'] at hpage
        simp only [Function.comp, core, ← hpage, Bool.false_eq_true, if_false]
  | setParent parents idx flags =>
    simp only [oracleOk, absOk]
    rw [← hs, List.map_map]
    apply List.map_congr_left
    intro x _
    simp only [Function.comp]
    split <;> rfl

/-- A failed call changes neither list. -/
theorem oracleStep_sim {abs : List Driver.AbsMap} {a : Abs} (hs : Sim abs a) (hok : ∀ r ∈ a, r.OK)
    (p4 : Word) (m : PMem) (ok : Bool) (op : MOp) (hv : ValidD p4 m op) (hnd : OpND op) :
    Sim (oracleStep abs ok op) (absStep a ok op) := by
  cases ok
  · exact hs
  · exact oracleOk_sim hs hok p4 m op hv hnd

/-- On exactly translated lists, `unmap` and `update_flags` agree exactly (not only up to `prw`/`pus`). -/
theorem oracleOk_unmap_eq (a : Abs) (hok : ∀ r ∈ a, r.OK) {parents : List Nat} {huge : Bool} {sz : Nat} (li : Nat)
    (sh : PageShape parents huge sz) (hpi : IdxOK parents) (hli : li < 512) :
    oracleOk (a.map toAbsMap) (.unmap parents li huge sz) = (absOk a (.unmap parents li huge sz)).map toAbsMap := by
  simp only [oracleOk, absOk]
  rw [List.filter_map]
  congr 1
  apply List.filter_congr
  intro r hr
  simp only [Function.comp]
  rw [isPage_iff_addr r (hok r hr) li sh hpi hli]

theorem oracleOk_update_eq (a : Abs) (hok : ∀ r ∈ a, r.OK) {parents : List Nat} {huge : Bool} {sz : Nat}
    (li : Nat) (flags : Word) (sh : PageShape parents huge sz) (hpi : IdxOK parents) (hli : li < 512)
    (hnd : huge = true ∨ flags ≠ 0#64) :
    oracleOk (a.map toAbsMap) (.update parents li huge sz flags) =
      (absOk a (.update parents li huge sz flags)).map toAbsMap := by
  simp only [oracleOk, absOk]
  refine (filterMap_sim toAbsMap _ _ a ?_).symm
  intro r hr
  have hpage := isPage_iff_addr r (hok r hr) li sh hpi hli
  by_cases hc : r.isPage parents li = true
  · obtain ⟨e1, e2⟩ := (PageRec.isPage_iff _ _ _).1 hc
    have hh : r.huge = huge := (pageShape_unique (e1 ▸ (hok r hr).shape) sh).1
    have hz : leafWord r.huge r.frame flags ≠ 0#64 := leafWord_ne_zero _ _ _ (by rw [hh]; exact hnd)
    refine ⟨{ r with flags := flags }, by rw [if_pos hc, if_neg hz], ?_⟩
    rw [hc] at hpage
    simp only [← hpage, if_true]
    simp only [toAbsMap, hh]
    rfl
  · refine ⟨r, by rw [if_neg hc], ?_⟩
    have hc' : r.isPage parents li = false := by simpa using hc
    rw [hc'] at hpage
    simp only [← hpage, Bool.false_eq_true, if_false]

/-- `map_to` on exactly translated lists: the pushed entry is the translation of the new record except for
`prw`/`pus`, which the oracle sets from the parent flags (`toAbsMap` leaves the defaults). -/
theorem oracleOk_map_eq (a : Abs) (parents : List Nat) (li : Nat) (huge : Bool) (sz : Nat) (frame flags pflags : Word)
    (allocs : List (Option Word)) (hnd : leafWord huge frame flags ≠ 0#64) :
    oracleOk (a.map toAbsMap) (.map parents li huge sz frame flags pflags allocs) =
      { toAbsMap ⟨parents, li, huge, sz, frame, flags⟩ with prw := bitRW pflags, pus := bitUS pflags } ::
        a.map toAbsMap ∧
    (absOk a (.map parents li huge sz frame flags pflags allocs)).map toAbsMap =
      toAbsMap ⟨parents, li, huge, sz, frame, flags⟩ :: a.map toAbsMap := by
  simp only [oracleOk, absOk]
  rw [if_neg hnd]
  exact ⟨rfl, rfl⟩

/-! ### 3. Histories -/

open X86.C01HistoryFull in
/-- The oracle's update for a call of the extended language: clean-up calls (opcodes 9, 10) change nothing. -/
def oracleStepH (abs : List Driver.AbsMap) (ok : Bool) : HOp → List Driver.AbsMap
  | .call op => oracleStep abs ok op
  | .cleanUp => abs
  | .cleanUpRange _ _ => abs

open X86.C01HistoryFull in
/-- **The oracle's list after a history**: the fold of its own update over the calls' results. -/
def oracleAbs (k : Kind) (rIdx : Nat) (p4 : Word) : PMem → List Driver.AbsMap → List HOp → List Driver.AbsMap
  | _, abs, [] => abs
  | m, abs, op :: rest =>
    oracleAbs k rIdx p4 (C01HistoryFull.exec k rIdx p4 m op).2
      (oracleStepH abs (C01HistoryFull.exec k rIdx p4 m op).1 op) rest

open X86.C01HistoryFull in
def OpNDH : HOp → Prop
  | .call op => OpND op
  | _ => True

open X86.C01HistoryFull in
/-- Along every valid history the oracle's list describes the specification's abstract state. -/
theorem oracle_history_sim (k : Kind) (rIdx : Nat) (p4 : Word) (ops : List HOp) :
    ∀ (m : PMem) (a : Abs) (abs : List Driver.AbsMap), Inv m p4 → Rel p4 m a → Sim abs a →
      C01HistoryFull.HistoryValid k rIdx p4 m ops → (∀ op ∈ ops, OpNDH op) →
      Sim (oracleAbs k rIdx p4 m abs ops) (C01HistoryFull.expectedAbs k rIdx p4 m a ops) := by
  induction ops with
  | nil => intro m a abs _ _ hs _ _; exact hs
  | cons op rest ih =>
    intro m a abs hinv hrel hs ⟨hv, hrest⟩ hnd
    obtain ⟨hi', hr'⟩ := C01HistoryFull.step_ok k rIdx p4 m a op hinv hrel hv
    have hok : ∀ r ∈ a, r.OK := fun r hr => (hrel.slots r hr).1
    refine ih _ _ _ hi' hr' ?_ hrest (fun o ho => hnd o (List.mem_cons_of_mem _ ho))
    cases op with
    | call o => exact oracleStep_sim hs hok p4 m _ o hv (hnd (.call o) (by simp))
    | cleanUp => exact hs
    | cleanUpRange rs re => exact hs

open X86.C01HistoryFull in
/-- **Corollary: the executable oracle and the proven specification are the same function on the states
histories reach.** From an empty level-4 table, after any valid history (language of `C01HistoryFull`: map /
unmap / update_flags / set_flags_pN_entry of every size and mapper kind, leaf flags with or without `PRESENT`,
`clean_up` calls; no all-zero leaf word, `OpNDH`), at every canonical address:
* the oracle's expectation, computed by folding ITS OWN update over the successful calls, is `expectedHw` of
  the specification's abstract state;
* it is the mapping part (frame, size, offset, leaf flags) of the hardware walk of the model's memory;
* i.e. the oracle's check `walkMatchesAbs` accepts the model's memory. -/
theorem oracle_history (k : Kind) (rIdx : Nat) (p4 : Word) (m : PMem) (hzero : ∀ i, m p4 i = 0#64)
    (ops : List HOp) (hv : C01HistoryFull.HistoryValid k rIdx p4 m ops) (hnd : ∀ op ∈ ops, OpNDH op)
    (va : Nat) (hc : canon va) :
    oracleExpect (oracleAbs k rIdx p4 m [] ops) va =
      expectedHw (C01HistoryFull.expectedAbs k rIdx p4 m [] ops) va ∧
    (walk (C01HistoryFull.runHistory k rIdx p4 m ops) p4 va).map Xlat.core =
      oracleExpect (oracleAbs k rIdx p4 m [] ops) va ∧
    walkMatchesAbs (C01HistoryFull.runHistory k rIdx p4 m ops) p4 (oracleAbs k rIdx p4 m [] ops) [] va = true := by
  have hinv := init_inv m p4 hzero
  have hrel := Rel.init p4 m hzero
  obtain ⟨hi', hr', _⟩ := C01HistoryFull.history_rel k rIdx p4 ops m [] hinv hrel hv
  have hs := oracle_history_sim k rIdx p4 ops m [] [] hinv hrel Sim.nil hv hnd
  have hok : ∀ r ∈ C01HistoryFull.expectedAbs k rIdx p4 m [] ops, r.OK := fun r hr => (hr'.slots r hr).1
  have h1 : oracleExpect (oracleAbs k rIdx p4 m [] ops) va =
      expectedHw (C01HistoryFull.expectedAbs k rIdx p4 m [] ops) va := by
    rw [oracleExpect_congr hs va, oracleExpect_eq_expectedHw _ hok va hc]
  have h2 := hw_of_rel hi' hr' va
  refine ⟨h1, by rw [h2, h1], ?_⟩
  rw [walkMatchesAbs_iff, h2, h1]

/-- The same for the language without clean-up calls (`C01HistoryDormant`). -/
def oracleAbsD (k : Kind) (p4 : Word) : PMem → List Driver.AbsMap → List MOp → List Driver.AbsMap
  | _, abs, [] => abs
  | m, abs, op :: rest => oracleAbsD k p4 (exec k p4 m op).2 (oracleStep abs (exec k p4 m op).1 op) rest

theorem oracle_history_dormant_sim (k : Kind) (p4 : Word) (ops : List MOp) :
    ∀ (m : PMem) (a : Abs) (abs : List Driver.AbsMap), Inv m p4 → Rel p4 m a → Sim abs a →
      HistoryValid k p4 m ops → (∀ op ∈ ops, OpND op) →
      Sim (oracleAbsD k p4 m abs ops) (expectedAbs k p4 m a ops) := by
  induction ops with
  | nil => intro m a abs _ _ hs _ _; exact hs
  | cons op rest ih =>
    intro m a abs hinv hrel hs ⟨hv, hrest⟩ hnd
    obtain ⟨hi', hr'⟩ := step_ok k p4 m a op hinv hrel hv
    have hok : ∀ r ∈ a, r.OK := fun r hr => (hrel.slots r hr).1
    exact ih _ _ _ hi' hr' (oracleStep_sim hs hok p4 m _ op hv (hnd _ (by simp))) hrest
      (fun o ho => hnd o (List.mem_cons_of_mem _ ho))

theorem oracle_history_dormant (k : Kind) (p4 : Word) (m : PMem) (hzero : ∀ i, m p4 i = 0#64)
    (ops : List MOp) (hv : HistoryValid k p4 m ops) (hnd : ∀ op ∈ ops, OpND op) (va : Nat) (hc : canon va) :
    oracleExpect (oracleAbsD k p4 m [] ops) va = expectedHw (expectedAbs k p4 m [] ops) va ∧
    walkMatchesAbs (runHistory k p4 m ops) p4 (oracleAbsD k p4 m [] ops) [] va = true := by
  have hinv := init_inv m p4 hzero
  have hrel := Rel.init p4 m hzero
  obtain ⟨hi', hr'⟩ := history_rel k p4 ops m [] hinv hrel hv
  have hs := oracle_history_dormant_sim k p4 ops m [] [] hinv hrel Sim.nil hv hnd
  have hok : ∀ r ∈ expectedAbs k p4 m [] ops, r.OK := fun r hr => (hr'.slots r hr).1
  have h1 : oracleExpect (oracleAbsD k p4 m [] ops) va = expectedHw (expectedAbs k p4 m [] ops) va := by
    rw [oracleExpect_congr hs va, oracleExpect_eq_expectedHw _ hok va hc]
  refine ⟨h1, ?_⟩
  rw [walkMatchesAbs_iff, hw_of_rel hi' hr' va, h1]


/-! ### Non-vacuity: the corollary on the concrete history `C01HistoryDormant.demoOps` -/

theorem demoOps_nd : ∀ op ∈ demoOps, OpND op := by
  intro op hop
  simp only [demoOps, List.mem_cons, List.not_mem_nil, or_false] at hop
  rcases hop with rfl | rfl | rfl | rfl | rfl | rfl
  · show leafWord false 0x5000#64 2#64 ≠ 0#64; decide
  · show 5 < 512; omega
  · show leafWord true 0x40000000#64 2#64 ≠ 0#64; decide
  · exact Or.inr (by decide)
  · trivial
  · exact Or.inl rfl

set_option maxRecDepth 100000 in
/-- the oracle's own list after `demoOps` (most recent first; `prw`/`pus` from the parent flags `3`) -/
example : (oracleAbsD ⟨false⟩ 0x1000#64 m0 [] demoOps).map core =
    [(0xe00000, 2^21, 0x40000000, 0x8000000000000083#64), (0x5000, 4096, 0x5000, 3#64)] := by
  decide +kernel

/-- the oracle accepts the model's memory after `demoOps` at every canonical address, both mapper kinds -/
example (k : Kind) (va : Nat) (hc : canon va) :
    walkMatchesAbs (runHistory k 0x1000#64 m0 demoOps) 0x1000#64 (oracleAbsD k 0x1000#64 m0 [] demoOps) [] va = true :=
  (oracle_history_dormant k 0x1000#64 m0 (fun _ => rfl) demoOps (demoOps_valid k) demoOps_nd va hc).2

/-! ### Corners where the oracle and the specification differ (findings)

(F1) NON-CANONICAL ADDRESSES. The hardware walk (and `Abs.at` / `expectedHw`) ignore the address bits 48..63;
the oracle's range test does not. For a non-canonical `va` whose low 48 bits lie in a present page the
specification (and `walk`) say "mapped", the oracle says "not mapped": `walkMatchesAbs` would reject a correct
memory. The oracle is only sound on canonical probes (hypothesis `canon va` of every theorem above). -/

example :
    let a : Abs := [⟨[0, 0, 0], 5, false, 4096, 0x5000#64, 3#64⟩]
    let va := 2^48 + 0x5123
    ¬ canon va ∧ va < 2^64 ∧
    expectedHw a va = some (0x5000, 4096, 0x123, 3#64) ∧ oracleExpect (a.map toAbsMap) va = none ∧
    -- while at the canonical address with the same low bits they agree
    expectedHw a 0x5123 = oracleExpect (a.map toAbsMap) 0x5123 := by
  decide

/-! (F2) THE ALL-ZERO LEAF WORD. A successful `map_to` of a 4 KiB page to frame 0 with empty flags writes the
word 0: `absOk` keeps no record, the oracle pushes an entry (flags 0). The lists differ (`Sim` fails). The
HARDWARE expectation still agrees there (an entry without `PRESENT` is dropped by `absLookup`), but the
oracle's SOFTWARE check `softMatchesAbs` (which does not filter by `PRESENT`) expects `translate` to report a
mapping, whereas the slot is unused: on the model's own memory after that (valid, successful) call
`softMatchesAbs` is `false`. Such a call must not be generated by the harness (or the oracle must skip the
push when `frame = 0 ∧ flags = 0 ∧ ¬huge`). The same holds for `update_flags` with empty flags on a 4 KiB page
at frame 0: `absOk` drops the record, the oracle keeps the entry with flags 0. -/

def degOp : MOp := .map [0, 0, 0] 5 false 4096 0#64 0#64 3#64 [some 0x2000#64, some 0x3000#64, some 0x4000#64]

example : ¬ OpND degOp := by
  show ¬ (leafWord false 0#64 0#64 ≠ 0#64); decide

example : absOk [] degOp = [] ∧ (oracleOk [] degOp).map core = [(0x5000, 4096, 0, 0#64)] ∧
    ¬ Sim (oracleOk [] degOp) (absOk [] degOp) := by
  refine ⟨by decide, by decide, ?_⟩
  unfold Sim; decide

set_option maxRecDepth 100000 in
/-- the call is valid and succeeds; afterwards the oracle's hardware check accepts the model's memory at an
address of the page, its software check rejects it -/
example : (exec ⟨false⟩ 0x1000#64 m0 degOp).1 = true ∧
    walkMatchesAbs (exec ⟨false⟩ 0x1000#64 m0 degOp).2 0x1000#64 (oracleOk [] degOp) [] 0x5123 = true ∧
    softMatchesAbs (exec ⟨false⟩ 0x1000#64 m0 degOp).2 0x1000#64 (oracleOk [] degOp) [] 0x5123 = false := by
  decide +kernel

example : ValidD 0x1000#64 m0 degOp := by
  have hi3 : IdxOK [0, 0, 0] := by intro j h; simp at h; omega
  refine ⟨.s4k 0 0 0, hi3, by omega, ⟨by decide, by decide⟩, ?_, ?_, C09.demo3_allocsOK⟩
  · simp only [Bool.false_eq_true, if_false]; unfold LeafBits4K; decide
  · unfold FrameOK; simp only [if_true]; decide

/-! (F3) `unmap` WITH A SLOT INDEX ≥ 512 (`ValidD` does not exclude it; the harness' `pathOf` never produces
it): the address arithmetic carries into the parent index, so the oracle's `start == page` test hits the record
of ANOTHER page, which `absOk` (exact index comparison) keeps. Hence the hypothesis `li < 512` in `OpND`. -/

example :
    let a : Abs := [⟨[0, 0, 1], 0, false, 4096, 0x5000#64, 3#64⟩]
    absOk a (.unmap [0, 0, 0] 512 false 4096) = a ∧ oracleOk (a.map toAbsMap) (.unmap [0, 0, 0] 512 false 4096) = [] := by
  decide

/-! (F4) NOT a difference, but a loss of information: `toAbsMap` is not injective on huge pages — bit 7 of the
REQUESTED flags of a huge page (`HUGE_PAGE` itself) is OR-ed in on both sides (`w flags ||| 0x80`,
`leafFlagsOf`), so records that differ only there have the same oracle entry and the same `expectedHw`.
That is why lookup agreement is stated as an equation of `Option`s through `toAbsMap`, not as an
equivalence with `a.at va = some r`. Likewise bit 12 (PAT of huge pages) is inside `flagDom` of huge pages
and outside `flagDom 4096`; `LeafBits4K` forbids it for 4 KiB pages, so nothing is masked away
(`flags_dom`). -/

example : toAbsMap ⟨[0, 0], 7, true, 2^21, 0x40000000#64, 3#64⟩ = toAbsMap ⟨[0, 0], 7, true, 2^21, 0x40000000#64, 0x83#64⟩ ∧
    core (toAbsMap ⟨[0, 0], 7, true, 2^21, 0x40000000#64, 3#64⟩) = (0xe00000, 2^21, 0x40000000, 0x83#64) ∧
    expectedHw [⟨[0, 0], 7, true, 2^21, 0x40000000#64, 3#64⟩] 0xe00123 =
      expectedHw [⟨[0, 0], 7, true, 2^21, 0x40000000#64, 0x83#64⟩] 0xe00123 := by
  refine ⟨rfl, by decide, by decide⟩


/-! ### The restatement `oracleOk` is the driver's own update function

`Driver.absAfterOk` is the function `handleMapper` calls for a successful call (`Driver/Mapper.lean`); the four
equations below are checked by unfolding, so the theorems above are about the code the correspondence check runs.
The harness' opcodes: 0..2 the `map_to` variants, 3 `unmap`, 4 `update_flags`, 5..7 `set_flags_p4/p3/p2_entry`
(a parent path of length 0/1/2 followed by the entry's index); `flagsEff` is computed by `handleMapper` as
`if huge then flags ||| 0x80 else flags`. -/

theorem oracleOk_map_is_driver (abs : List Driver.AbsMap) (parents : List Nat) (li : Nat) (huge : Bool) (sz : Nat)
    (frame flags pflags : Word) (allocs : List (Option Word)) (opcode : Nat) (hop : opcode ≤ 2) (page : Nat)
    (flagsW : Word) (path : List Nat) :
    oracleOk abs (.map parents li huge sz frame flags pflags allocs) =
      Driver.absAfterOk abs opcode (pageAddr parents li) page sz frame.toNat
        (if huge then flags ||| 0x80#64 else flags) pflags flagsW path := by
  simp [oracleOk, Driver.absAfterOk, hop]

theorem oracleOk_unmap_is_driver (abs : List Driver.AbsMap) (parents : List Nat) (li : Nat) (huge : Bool) (sz : Nat)
    (pageEff frame : Nat) (flagsEff pflagsEff flagsW : Word) (path : List Nat) :
    oracleOk abs (.unmap parents li huge sz) =
      Driver.absAfterOk abs 3 pageEff (pageAddr parents li) sz frame flagsEff pflagsEff flagsW path := by
  simp [oracleOk, Driver.absAfterOk]

theorem oracleOk_update_is_driver (abs : List Driver.AbsMap) (parents : List Nat) (li : Nat) (huge : Bool) (sz : Nat)
    (flags : Word) (pageEff frame : Nat) (pflagsEff flagsW : Word) (path : List Nat) :
    oracleOk abs (.update parents li huge sz flags) =
      Driver.absAfterOk abs 4 pageEff (pageAddr parents li) sz frame
        (if huge then flags ||| 0x80#64 else flags) pflagsEff flagsW path := by
  simp [oracleOk, Driver.absAfterOk]

theorem oracleOk_setParent_is_driver (abs : List Driver.AbsMap) (parents : List Nat) (idx : Nat) (flags : Word)
    (hl : parents.length ≤ 2) (rest : List Nat) (pageEff page sz frame : Nat) (flagsEff pflagsEff : Word) :
    oracleOk abs (.setParent parents idx flags) =
      Driver.absAfterOk abs (parents.length + 5) pageEff page sz frame flagsEff pflagsEff flags
        (parents ++ [idx] ++ rest) := by
  have h1 : ¬ (parents.length + 5 ≤ 2) := by omega
  have h3 : (parents.length + 5 == 3) = false := by simp
  have h4 : (parents.length + 5 == 4) = false := by simp
  have h5 : (parents.length + 5 == 5 || parents.length + 5 == 6 || parents.length + 5 == 7) = true := by
    rcases Nat.lt_or_ge parents.length 1 with h | h
    · have : parents.length = 0 := by omega
      simp [this]
    · rcases Nat.lt_or_ge parents.length 2 with h' | h'
      · have : parents.length = 1 := by omega
        simp [this]
      · have : parents.length = 2 := by omega
        simp [this]
  have ht : (parents ++ [idx] ++ rest).take (parents.length + 5 - 4) = parents ++ [idx] := by
    have : parents.length + 5 - 4 = (parents ++ [idx]).length := by simp
    rw [this, List.take_left']
    rfl
  simp only [oracleOk, Driver.absAfterOk, h1, if_false, h3, h4, h5, if_true, ht, Bool.false_eq_true]

end X86.OracleSpec
