/-
C01 — Page tables built by any mapper mean what an MMU would read from them.

This file: effect of the non-allocating operations (unmap, update_flags, set_flags_pN_entry,
translate_page) on the hardware walk `Spec.walk` of the raw table memory, for every virtual
address, together with preservation of the state invariant `Inv`. `Properties/C01Map.lean` does
the same for `map_to`, `Properties/C01Translate.lean` relates `translate*` to the walk.
A page is given by its parent-table indices `parents` and slot index `li`; a virtual address lies
in the page iff `parents ++ [li]` is a prefix of its index path `vaPath va`.
-/
import X86Model.Proofs.MapperWF

namespace X86.C01
open X86 X86.Spec

/-- `bitP 0 = false`: a zero entry ends the walk. -/
private theorem entryStep_zero (m : PhysMem) (lvl va : Nat) (rw us : Bool) :
    entryStep m lvl 0#64 va rw us = none := by
  unfold entryStep; simp [bitP]

/-- **unmap**: on success the page's addresses become unmapped, every other address keeps its
translation, the returned frame is the one the hardware walk found, and the invariant is kept.
On error nothing changes. -/
theorem unmap_ok (s : St) (p4 : Word) (parents : List Nat) (li : Nat) (huge : Bool) (sz : Nat)
    (sh : PageShape parents huge sz) (hinv : Inv s.mem p4) (hpi : IdxOK parents)
    (fr : Word) (h : (unmap s p4 parents li huge sz).1 = .ok fr) :
    Inv (unmap s p4 parents li huge sz).2.mem p4 ∧
    (∀ va, parents ++ [li] <+: vaPath va →
        walk (unmap s p4 parents li huge sz).2.mem p4 va = none ∧
        ∃ x, walk s.mem p4 va = some x ∧ x.base = fr.toNat ∧ x.size = sz) ∧
    (∀ va, ¬ parents ++ [li] <+: vaPath va →
        walk (unmap s p4 parents li huge sz).2.mem p4 va = walk s.mem p4 va) := by
  have hm := unmap_mem s p4 parents li huge sz
  rw [h] at hm
  obtain ⟨t, ht, hpres, hhuge, hfr, hmem⟩ := hm
  obtain ⟨hl1, hl3⟩ := sh.len_le
  rw [hmem]
  refine ⟨?_, ?_, ?_⟩
  · apply Inv_set s.mem p4 hinv parents t li 0#64 ht hl3 hpi
    · cases sh with
      | s4k a b c => left; rfl
      | s2m a b =>
        right
        have := (hhuge rfl).1
        unfold tableOf; simp [this]; decide
      | s1g a =>
        right
        have := (hhuge rfl).1
        unfold tableOf; simp [this]; decide
    · left; rfl
    · intro hp; rw [hp] at hl1; simp at hl1
  · intro va hva
    obtain ⟨rw, us, h1, h2⟩ := walk_set_on s.mem p4 hinv.wf t li 0#64 va parents ht hl3 hva
    refine ⟨by rw [h2, entryStep_zero], ?_⟩
    rw [h1]
    have hP : bitP (s.mem t li) = true := hpres
    cases sh with
    | s4k a b c =>
      refine ⟨leafXlat 1 (s.mem t li) va rw us, ?_, ?_, ?_⟩
      · unfold entryStep; simp [hP]
      · simp [leafXlat, hfr, Pte.addr, tableAddr, Pte.ADDR_MASK]
      · simp [leafXlat]
    | s2m a b =>
      obtain ⟨hh, hal⟩ := hhuge rfl
      have hS : bitPS (s.mem t li) = true := hh
      refine ⟨leafXlat 2 (s.mem t li) va rw us, ?_, ?_, ?_⟩
      · unfold entryStep; simp [hP, hS]
      · simp [leafXlat, hfr, addr2M_of_aligned _ hal]
      · simp [leafXlat]
    | s1g a =>
      obtain ⟨hh, hal⟩ := hhuge rfl
      have hS : bitPS (s.mem t li) = true := hh
      refine ⟨leafXlat 3 (s.mem t li) va rw us, ?_, ?_, ?_⟩
      · unfold entryStep; simp [hP, hS]
      · simp [leafXlat, hfr, addr1G_of_aligned _ hal]
      · simp [leafXlat]
  · intro va hva
    exact walk_set_off s.mem p4 hinv.wf parents t li 0#64 ht hl3 hpi va hva

/-- A failed `unmap` changes no memory at all. -/
theorem unmap_err (s : St) (p4 : Word) (parents : List Nat) (li : Nat) (huge : Bool) (sz : Nat)
    (e : OpErr) (h : (unmap s p4 parents li huge sz).1 = .error e) :
    (unmap s p4 parents li huge sz).2.mem = s.mem := by
  have hm := unmap_mem s p4 parents li huge sz
  rw [h] at hm; exact hm

/-- `unmap` keeps the strict entry invariant "every non-zero entry is present" (it only writes a zero). -/
theorem unmap_strict (s : St) (p4 : Word) (parents : List Nat) (li : Nat) (huge : Bool) (sz : Nat)
    (sh : PageShape parents huge sz) (hinv : Inv s.mem p4) (hpi : IdxOK parents) (hst : AllPresent s.mem p4) :
    AllPresent (unmap s p4 parents li huge sz).2.mem p4 := by
  have hm := unmap_mem s p4 parents li huge sz
  cases h : (unmap s p4 parents li huge sz).1 with
  | error e => rw [h] at hm; rw [hm]; exact hst
  | ok fr =>
    rw [h] at hm
    obtain ⟨t, ht, _, hhuge, _, hmem⟩ := hm
    obtain ⟨_, hl3⟩ := sh.len_le
    rw [hmem]
    apply AllPresent_set s.mem p4 hinv.wf hst parents t li 0#64 ht hl3 hpi _ (Or.inl rfl)
    cases sh with
    | s4k a b c => left; rfl
    | s2m a b =>
      right
      have := (hhuge rfl).1
      unfold tableOf; simp [this]; decide
    | s1g a =>
      right
      have := (hhuge rfl).1
      unfold tableOf; simp [this]; decide

/-- Leaf flags accepted for a 4 KiB page: contain `PRESENT`, no address bits (bits 12..51). -/
def LeafFlags4K (fl : Word) : Prop := fl &&& 1#64 = 1#64 ∧ fl &&& 0x000ffffffffff000#64 = 0#64
/-- Leaf flags accepted for a huge page: contain `PRESENT`, no address bits (bits 13..51; bit 12 is PAT). -/
def LeafFlagsHuge (fl : Word) : Prop := fl &&& 1#64 = 1#64 ∧ fl &&& 0x000fffffffffe000#64 = 0#64
/-- Leaf flags for a 4 KiB page, `PRESENT` not required: no address bits (bits 12..51). -/
def LeafBits4K (fl : Word) : Prop := fl &&& 0x000ffffffffff000#64 = 0#64
/-- Leaf flags for a huge page, `PRESENT` not required: no address bits (bits 13..51). -/
def LeafBitsHuge (fl : Word) : Prop := fl &&& 0x000fffffffffe000#64 = 0#64
/-- Parent-table flags: contain `PRESENT`, not `HUGE_PAGE`, no address bits. -/
def ParentFlags (fl : Word) : Prop :=
  fl &&& 1#64 = 1#64 ∧ fl &&& 0x80#64 = 0#64 ∧ fl &&& 0x000ffffffffff000#64 = 0#64

/-- Leaf flags with `PRESENT` are in particular leaf flags. -/
theorem leafBits_of_leafFlags {huge : Bool} {fl : Word}
    (h : if huge then LeafFlagsHuge fl else LeafFlags4K fl) : if huge then LeafBitsHuge fl else LeafBits4K fl := by
  cases huge
  · exact h.2
  · exact h.2

theorem present_of_leafFlags {huge : Bool} {fl : Word}
    (h : if huge then LeafFlagsHuge fl else LeafFlags4K fl) : fl &&& 1#64 = 1#64 := by
  cases huge
  · exact h.1
  · exact h.1

/-- The leaf flags a mapping of the given shape carries for requested flags `fl`. -/
def leafFlagsOf (huge : Bool) (fl : Word) : Word := if huge then fl ||| 0x80#64 else fl

/-- The frame a leaf entry `e` of a page of size `sz` names, as the MMU reads it (bits 51:12, 51:21 or
51:30 of the entry). -/
def entryFrame (sz : Nat) (e : Word) : Word :=
  if sz = 4096 then tableAddr e else if sz = 2^21 then addr2M e else addr1G e

/-- What the walk does with the entry in a page's slot (a level-1 entry, or a level-2/3 entry with the
PS bit): a translation iff the entry is present. -/
theorem entryStep_leaf {parents : List Nat} {huge : Bool} {sz : Nat} (sh : PageShape parents huge sz)
    (m : PhysMem) (e : Word) (va : Nat) (rw us : Bool) (hh : huge = true → bitPS e = true) :
    ∃ x : Xlat, entryStep m (4 - parents.length) e va rw us = (if bitP e = true then some x else none) ∧
      x.base = (entryFrame sz e).toNat ∧ x.size = sz ∧ x.off = va % sz ∧
      x.flags = (if huge then leafFlagsHuge e else leafFlags4K e) := by
  cases sh with
  | s4k a b c =>
    refine ⟨leafXlat 1 e va rw us, ?_, ?_⟩
    · unfold entryStep; cases hP : bitP e <;> simp
    · simp [leafXlat, entryFrame]
  | s2m a b =>
    have hS := hh rfl
    refine ⟨leafXlat 2 e va rw us, ?_, ?_⟩
    · unfold entryStep; cases hP : bitP e <;> simp [hS]
    · simp [leafXlat, entryFrame]
  | s1g a =>
    have hS := hh rfl
    refine ⟨leafXlat 3 e va rw us, ?_, ?_⟩
    · unfold entryStep; cases hP : bitP e <;> simp [hS]
    · simp [leafXlat, entryFrame]

private theorem upd4k_bits (e fl : Word) (h2 : fl &&& 0x000ffffffffff000#64 = 0#64) :
    bitP (Pte.setFlags e fl) = bitP fl ∧ tableAddr (Pte.setFlags e fl) = tableAddr e ∧
    leafFlags4K (Pte.setFlags e fl) = fl := by
  unfold bitP tableAddr leafFlags4K Pte.setFlags Pte.addr Pte.ADDR_MASK
  unfold Word at *
  refine ⟨?_, ?_, ?_⟩ <;> bv_decide

private theorem updHuge_bits (e fl : Word) (h2 : fl &&& 0x000fffffffffe000#64 = 0#64) :
    let v := Pte.mk (Pte.hugeAddr e) (fl ||| Pte.HUGE)
    bitP v = bitP fl ∧ bitPS v = true ∧ addr2M v = addr2M e ∧ addr1G v = addr1G e ∧
    leafFlagsHuge v = fl ||| 0x80#64 ∧ Pte.huge v = true := by
  unfold bitP bitPS addr2M addr1G leafFlagsHuge Pte.mk Pte.hugeAddr Pte.huge Pte.HUGE
  unfold Word at *
  refine ⟨?_, ?_, ?_, ?_, ?_, ?_⟩ <;> bv_decide

theorem bitP_of_present (fl : Word) (h : fl &&& 1#64 = 1#64) : bitP fl = true := by
  unfold bitP; unfold Word at *; bv_decide

theorem bitP_of_not_present (fl : Word) (h : fl &&& 1#64 = 0#64) : bitP fl = false := by
  unfold bitP; unfold Word at *; bv_decide

/-- **update_flags**, general form (MappedPageTable / OffsetPageTable; the requested flags need not
contain `PRESENT`, and the page may have been mapped without `PRESENT`): on success the page's slot held
a non-zero entry `e`; the hardware translated the page's addresses before iff `e` is present, and
translates them afterwards iff the new flags contain `PRESENT` — to the frame `e` names, with the
page's size and exactly the new leaf flags; every other address keeps its translation; the invariant
is kept. -/
theorem update_flags_spec (s : St) (p4 : Word) (parents : List Nat) (li : Nat) (huge : Bool) (sz : Nat)
    (flags : Word) (sh : PageShape parents huge sz) (hinv : Inv s.mem p4) (hpi : IdxOK parents)
    (hfl : if huge then LeafBitsHuge flags else LeafBits4K flags)
    (h : (updateFlags ⟨false⟩ s p4 parents li huge flags).1 = .ok ()) :
    ∃ t, tblAt s.mem p4 parents = some t ∧ s.mem t li ≠ 0#64 ∧
    Inv (updateFlags ⟨false⟩ s p4 parents li huge flags).2.mem p4 ∧
    (∀ va, parents ++ [li] <+: vaPath va →
        (Pte.present (s.mem t li) = false → walk s.mem p4 va = none) ∧
        (Pte.present (s.mem t li) = true → ∃ x, walk s.mem p4 va = some x ∧
          x.base = (entryFrame sz (s.mem t li)).toNat ∧ x.size = sz ∧ x.off = va % sz) ∧
        (flags &&& 1#64 = 0#64 →
          walk (updateFlags ⟨false⟩ s p4 parents li huge flags).2.mem p4 va = none) ∧
        (flags &&& 1#64 = 1#64 → ∃ x',
          walk (updateFlags ⟨false⟩ s p4 parents li huge flags).2.mem p4 va = some x' ∧
          x'.base = (entryFrame sz (s.mem t li)).toNat ∧ x'.size = sz ∧ x'.off = va % sz ∧
          x'.flags = leafFlagsOf huge flags)) ∧
    (∀ va, ¬ parents ++ [li] <+: vaPath va →
        walk (updateFlags ⟨false⟩ s p4 parents li huge flags).2.mem p4 va = walk s.mem p4 va) ∧
    (flags &&& 1#64 = 1#64 → AllPresent s.mem p4 →
        AllPresent (updateFlags ⟨false⟩ s p4 parents li huge flags).2.mem p4) := by
  have hm := updateFlags_mem s p4 parents li huge flags
  rw [h] at hm
  obtain ⟨t, ht, hused, hhuge, hmem⟩ := hm
  obtain ⟨hl1, hl3⟩ := sh.len_le
  have hne : s.mem t li ≠ 0#64 := by
    intro h0; rw [h0] at hused; simp [Pte.isUnused] at hused
  rw [hmem]
  refine ⟨t, ht, hne, ?_⟩
  -- the new word `v`: same frame, new flags, still a leaf of the page's shape
  have hS : huge = true → bitPS (s.mem t li) = true := hhuge
  generalize hv : (if huge = true then Pte.mk (Pte.hugeAddr (s.mem t li)) (flags ||| Pte.HUGE)
      else Pte.setFlags (s.mem t li) flags) = v
  have facts : bitP v = bitP flags ∧ (huge = true → bitPS v = true) ∧
      entryFrame sz v = entryFrame sz (s.mem t li) ∧
      (if huge then leafFlagsHuge v else leafFlags4K v) = leafFlagsOf huge flags ∧
      (parents.length = 3 ∨ tableOf v = tableOf (s.mem t li)) ∧ DormantLeaf parents.length v := by
    cases sh with
    | s4k a b c =>
      simp only [Bool.false_eq_true, if_false] at hfl hv
      subst hv
      obtain ⟨b1, b2, b3⟩ := upd4k_bits (s.mem t li) flags hfl
      exact ⟨b1, (fun hc => by cases hc), by simp [entryFrame, b2], by simp [leafFlagsOf, b3],
        Or.inl rfl, Or.inl rfl⟩
    | s2m a b =>
      simp only [if_true] at hfl hv
      subst hv
      obtain ⟨b1, b2, b3, b4, b5, b6⟩ := updHuge_bits (s.mem t li) flags hfl
      refine ⟨b1, fun _ => b2, by simp [entryFrame, b3], by simp [leafFlagsOf, b5], Or.inr ?_,
        Or.inr ⟨by simp, b6⟩⟩
      unfold tableOf; rw [b6]; simp [show Pte.huge (s.mem t li) = true from hS rfl]
    | s1g a =>
      simp only [if_true] at hfl hv
      subst hv
      obtain ⟨b1, b2, b3, b4, b5, b6⟩ := updHuge_bits (s.mem t li) flags hfl
      refine ⟨b1, fun _ => b2, by simp [entryFrame, b4], by simp [leafFlagsOf, b5], Or.inr ?_,
        Or.inr ⟨by simp, b6⟩⟩
      unfold tableOf; rw [b6]; simp [show Pte.huge (s.mem t li) = true from hS rfl]
  obtain ⟨f1, f2, f3, f4, f5, f6⟩ := facts
  refine ⟨?_, ?_, ?_, ?_⟩
  · apply Inv_set' s.mem p4 hinv parents t li v ht hl3 hpi f5 (Or.inr (Or.inr f6))
    intro hp; rw [hp] at hl1; simp at hl1
  · intro va hva
    obtain ⟨rw, us, h1, h2⟩ := walk_set_on s.mem p4 hinv.wf t li v va parents ht hl3 hva
    obtain ⟨x, hx, xb, xs, xo, _⟩ := entryStep_leaf sh s.mem (s.mem t li) va rw us hS
    obtain ⟨x', hx', xb', xs', xo', xf'⟩ := entryStep_leaf sh (s.mem.set t li v) v va rw us f2
    rw [h1, h2, hx, hx', f1]
    refine ⟨?_, ?_, ?_, ?_⟩
    · intro hP
      have : bitP (s.mem t li) = false := hP
      simp [this]
    · intro hP
      have : bitP (s.mem t li) = true := hP
      exact ⟨x, by simp [this], xb, xs, xo⟩
    · intro hf; simp [bitP_of_not_present flags hf]
    · intro hf
      exact ⟨x', by simp [bitP_of_present flags hf], by rw [xb', f3], xs', xo', by rw [xf', f4]⟩
  · intro va hva
    exact walk_set_off s.mem p4 hinv.wf parents t li v ht hl3 hpi va hva
  · intro hf hst
    exact AllPresent_set s.mem p4 hinv.wf hst parents t li v ht hl3 hpi f5
      (Or.inr (by rw [present_eq_bitP, f1]; exact bitP_of_present flags hf))

/-- **update_flags** (MappedPageTable / OffsetPageTable) on a page the hardware currently translates
(its entry, if any, is present — `hwas`; automatic when all mappings were made with `PRESENT`), with flags that
contain `PRESENT`: on success every address of the page keeps frame, size and offset and gets exactly
the new leaf flags; every other address keeps its translation; the invariant is kept.
(`update_flags_spec` is the general form, for entries and flags with or without `PRESENT`.) -/
theorem update_flags_ok (s : St) (p4 : Word) (parents : List Nat) (li : Nat) (huge : Bool) (sz : Nat)
    (flags : Word) (sh : PageShape parents huge sz) (hinv : Inv s.mem p4) (hpi : IdxOK parents) (hli : li < 512)
    (hfl : if huge then LeafFlagsHuge flags else LeafFlags4K flags)
    (hwas : ∀ t, tblAt s.mem p4 parents = some t → s.mem t li ≠ 0#64 → Pte.present (s.mem t li) = true)
    (h : (updateFlags ⟨false⟩ s p4 parents li huge flags).1 = .ok ()) :
    Inv (updateFlags ⟨false⟩ s p4 parents li huge flags).2.mem p4 ∧
    (∀ va, parents ++ [li] <+: vaPath va →
        ∃ x x', walk s.mem p4 va = some x ∧
          walk (updateFlags ⟨false⟩ s p4 parents li huge flags).2.mem p4 va = some x' ∧
          x'.base = x.base ∧ x'.size = x.size ∧ x'.off = x.off ∧ x.size = sz ∧
          x'.flags = leafFlagsOf huge flags) ∧
    (∀ va, ¬ parents ++ [li] <+: vaPath va →
        walk (updateFlags ⟨false⟩ s p4 parents li huge flags).2.mem p4 va = walk s.mem p4 va) := by
  obtain ⟨t, ht, hne, hi', hon, hoff, _⟩ := update_flags_spec s p4 parents li huge sz flags sh hinv hpi
    (leafBits_of_leafFlags hfl) h
  refine ⟨hi', ?_, hoff⟩
  intro va hva
  obtain ⟨_, hold, _, hnew⟩ := hon va hva
  obtain ⟨x, hx, xb, xs, xo⟩ := hold (hwas t ht hne)
  obtain ⟨x', hx', xb', xs', xo', xf'⟩ := hnew (present_of_leafFlags hfl)
  exact ⟨x, x', hx, hx', by rw [xb', xb], by rw [xs', xs], by rw [xo', xo], xs, xf'⟩

theorem update_flags_err (s : St) (p4 : Word) (parents : List Nat) (li : Nat) (huge : Bool) (flags : Word)
    (e : OpErr) (h : (updateFlags ⟨false⟩ s p4 parents li huge flags).1 = .error e) :
    (updateFlags ⟨false⟩ s p4 parents li huge flags).2.mem = s.mem := by
  have hm := updateFlags_mem s p4 parents li huge flags
  rw [h] at hm; exact hm

/-- `update_flags` with flags that contain `PRESENT` keeps "every non-zero entry is present". -/
theorem update_flags_strict (s : St) (p4 : Word) (parents : List Nat) (li : Nat) (huge : Bool) (sz : Nat)
    (flags : Word) (sh : PageShape parents huge sz) (hinv : Inv s.mem p4) (hpi : IdxOK parents)
    (hfl : if huge then LeafFlagsHuge flags else LeafFlags4K flags) (hst : AllPresent s.mem p4) :
    AllPresent (updateFlags ⟨false⟩ s p4 parents li huge flags).2.mem p4 := by
  cases h : (updateFlags ⟨false⟩ s p4 parents li huge flags).1 with
  | error e => rw [update_flags_err s p4 parents li huge flags e h]; exact hst
  | ok u =>
    cases u
    obtain ⟨_, _, _, _, _, _, hstr⟩ := update_flags_spec s p4 parents li huge sz flags sh hinv hpi
      (leafBits_of_leafFlags hfl) h
    exact hstr (present_of_leafFlags hfl) hst

private theorem parent_bits (e fl : Word) (h1 : fl &&& 1#64 = 1#64) (h2 : fl &&& 0x80#64 = 0#64)
    (h3 : fl &&& 0x000ffffffffff000#64 = 0#64) :
    bitP (Pte.setFlags e fl) = true ∧ bitPS (Pte.setFlags e fl) = false ∧
    tableAddr (Pte.setFlags e fl) = tableAddr e := by
  unfold bitP bitPS tableAddr Pte.setFlags Pte.addr Pte.ADDR_MASK
  unfold Word at *
  refine ⟨?_, ?_, ?_⟩ <;> bv_decide

/-- **set_flags_p4/p3/p2_entry**, full form (MappedPageTable / OffsetPageTable): on success no address
changes its mapping (frame, size, offset, leaf flags) — only effective rights can change —, the
invariant is kept, and so is its strict variant "every non-zero entry is present". -/
theorem set_parent_flags_full (s : St) (p4 : Word) (parents : List Nat) (idx : Nat) (flags : Word)
    (hlen : parents.length ≤ 2) (hinv : Inv s.mem p4) (hpi : IdxOK parents) (hidx : idx < 512)
    (hfl : ParentFlags flags)
    (h : (setParentFlags ⟨false⟩ s p4 parents idx flags).1 = .ok ()) :
    Inv (setParentFlags ⟨false⟩ s p4 parents idx flags).2.mem p4 ∧
    (∀ va, (walk (setParentFlags ⟨false⟩ s p4 parents idx flags).2.mem p4 va).map Xlat.core =
          (walk s.mem p4 va).map Xlat.core) ∧
    (AllPresent s.mem p4 → AllPresent (setParentFlags ⟨false⟩ s p4 parents idx flags).2.mem p4) := by
  have hm := setParentFlags_mem s p4 parents idx flags
  rw [h] at hm
  obtain ⟨t, ht, hused, hnh, hmem⟩ := hm
  have hl3 : parents.length ≤ 3 := by omega
  have hne : s.mem t idx ≠ 0#64 := by
    intro h0; rw [h0] at hused; simp [Pte.isUnused] at hused
  have hS : bitPS (s.mem t idx) = false := by
    cases hpe : parents with
    | nil =>
      rw [hpe] at ht; simp [tblAt] at ht; subst ht
      exact hinv.p4nh idx hidx
    | cons a l => exact hnh (by rw [hpe]; simp)
  -- a non-zero, non-huge entry of a level-4/3/2 table is a table link: present
  have hP : bitP (s.mem t idx) = true := hinv.present_of_not_huge parents t idx hlen hpi ht hidx hne hS
  obtain ⟨b1, b2, b3⟩ := parent_bits (s.mem t idx) flags hfl.1 hfl.2.1 hfl.2.2
  have hto : tableOf (Pte.setFlags (s.mem t idx) flags) = tableOf (s.mem t idx) := by
    rw [(tableOf_some_iff _ _).2 ⟨b1, b2, rfl⟩, (tableOf_some_iff _ _).2 ⟨hP, hS, rfl⟩, b3]
  rw [hmem]
  refine ⟨?_, ?_, ?_⟩
  · exact Inv_set s.mem p4 hinv _ t idx _ ht hl3 hpi (Or.inr hto) (Or.inr b1) (fun _ => b2)
  rotate_left
  · intro hst
    exact AllPresent_set s.mem p4 hinv.wf hst _ t idx _ ht hl3 hpi (Or.inr hto) (Or.inr b1)
  · intro va
    by_cases hva : parents ++ [idx] <+: vaPath va
    · obtain ⟨rw, us, h1, h2⟩ := walk_set_on s.mem p4 hinv.wf t idx (Pte.setFlags (s.mem t idx) flags) va _ ht hl3 hva
      rw [h1, h2]
      -- both entries are table entries pointing to the same table; below it nothing was written
      obtain ⟨k, hk⟩ : ∃ k, 4 - parents.length = k + 2 := ⟨2 - parents.length, by omega⟩
      have hbelow : ∀ rw' us',
          walkFrom (s.mem.set t idx (Pte.setFlags (s.mem t idx) flags)) (k + 1) (tableAddr (s.mem t idx)) va rw' us' =
          walkFrom s.mem (k + 1) (tableAddr (s.mem t idx)) va rw' us' := by
        intro rw' us'
        have hr' : tblAt s.mem p4 (parents ++ [idx]) = some (tableAddr (s.mem t idx)) := by
          rw [tblAt_append, ht]; simp [tblAt, (tableOf_some_iff _ _).2 ⟨hP, hS, rfl⟩]
        exact walkFrom_set_off s.mem p4 hinv.wf parents t idx _ ht hl3 hpi va (k + 1) _ (parents ++ [idx]) rw' us' hr'
          (by simp; omega) (IdxOK_append.2 ⟨hpi, fun j hj => by simp at hj; rw [hj]; exact hidx⟩)
          (Or.inl (by simp))
      unfold entryStep
      rw [hk]
      by_cases h4 : k + 2 = 4
      · have : k = 2 := by omega
        subst this
        simp only [b1, hP, b2, hS, Bool.not_true, Bool.false_eq_true, if_false, if_true, b3]
        rw [hbelow]; exact walkFrom_core _ _ _ _ _ _ _ _
      · have h1' : k + 2 ≠ 1 := by omega
        simp only [b1, hP, b2, hS, h4, h1', Bool.not_true, Bool.false_eq_true, if_false, b3]
        have : k + 2 - 1 = k + 1 := by omega
        rw [this, hbelow]; exact walkFrom_core _ _ _ _ _ _ _ _
    · rw [walk_set_off s.mem p4 hinv.wf _ t idx _ ht hl3 hpi va hva]

/-- **set_flags_p4/p3/p2_entry** (MappedPageTable / OffsetPageTable): on success no address changes
its mapping (frame, size, offset, leaf flags) — only effective rights can change —, and the
invariant is kept. -/
theorem set_parent_flags_ok (s : St) (p4 : Word) (parents : List Nat) (idx : Nat) (flags : Word)
    (hlen : parents.length ≤ 2) (hinv : Inv s.mem p4) (hpi : IdxOK parents) (hidx : idx < 512)
    (hfl : ParentFlags flags)
    (h : (setParentFlags ⟨false⟩ s p4 parents idx flags).1 = .ok ()) :
    Inv (setParentFlags ⟨false⟩ s p4 parents idx flags).2.mem p4 ∧
    ∀ va, (walk (setParentFlags ⟨false⟩ s p4 parents idx flags).2.mem p4 va).map Xlat.core =
          (walk s.mem p4 va).map Xlat.core :=
  let ⟨h1, h2, _⟩ := set_parent_flags_full s p4 parents idx flags hlen hinv hpi hidx hfl h
  ⟨h1, h2⟩

theorem set_parent_flags_err (s : St) (p4 : Word) (parents : List Nat) (idx : Nat) (flags : Word)
    (e : OpErr) (h : (setParentFlags ⟨false⟩ s p4 parents idx flags).1 = .error e) :
    (setParentFlags ⟨false⟩ s p4 parents idx flags).2.mem = s.mem := by
  have hm := setParentFlags_mem s p4 parents idx flags
  rw [h] at hm; exact hm

/-- `translate_page` never changes memory (any mapper kind). -/
theorem translate_page_pure (k : Kind) (s : St) (p4 : Word) (parents : List Nat) (li : Nat) (huge : Bool) (sz : Nat) :
    (translatePage k s p4 parents li huge sz).2.mem = s.mem := translatePage_mem k s p4 parents li huge sz

end X86.C01
