/-
C01 — Page tables built by any mapper mean what an MMU would read from them.

This file: effect of the non-allocating operations (unmap, update_flags, set_flags_pN_entry,
translate_page) on the hardware walk `Spec.walk` of the raw table memory, for every virtual
address, together with preservation of the state invariant `Inv`. `Properties/C01Map.lean` does
the same for `map_to`, `Properties/C01Translate.lean` relates `translate*` to the walk.
A page is given by its parent-table indices `parents` and slot index `li`; a virtual address lies
in the page iff `parents ++ [li]` is a prefix of its index path `vaPath va`.
-/
import X86Model.Proofs.MapperWF

namespace X86.C01
open X86 X86.Spec

/-- `bitP 0 = false`: a zero entry ends the walk. -/
private theorem entryStep_zero (m : PhysMem) (lvl va : Nat) (rw us : Bool) :
    entryStep m lvl 0#64 va rw us = none := by
  unfold entryStep; simp [bitP]

/-- **unmap**: on success the page's addresses become unmapped, every other address keeps its
translation, the returned frame is the one the hardware walk found, and the invariant is kept.
On error nothing changes. -/
theorem unmap_ok (s : St) (p4 : Word) (parents : List Nat) (li : Nat) (huge : Bool) (sz : Nat)
    (sh : PageShape parents huge sz) (hinv : Inv s.mem p4) (hpi : IdxOK parents)
    (fr : Word) (h : (unmap s p4 parents li huge sz).1 = .ok fr) :
    Inv (unmap s p4 parents li huge sz).2.mem p4 ∧
    (∀ va, parents ++ [li] <+: vaPath va →
        walk (unmap s p4 parents li huge sz).2.mem p4 va = none ∧
        ∃ x, walk s.mem p4 va = some x ∧ x.base = fr.toNat ∧ x.size = sz) ∧
    (∀ va, ¬ parents ++ [li] <+: vaPath va →
        walk (unmap s p4 parents li huge sz).2.mem p4 va = walk s.mem p4 va) := by
  have hm := unmap_mem s p4 parents li huge sz
  rw [h] at hm
  obtain ⟨t, ht, hpres, hhuge, hfr, hmem⟩ := hm
  obtain ⟨hl1, hl3⟩ := sh.len_le
  rw [hmem]
  refine ⟨?_, ?_, ?_⟩
  · apply Inv_set s.mem p4 hinv parents t li 0#64 ht hl3 hpi
    · cases sh with
      | s4k a b c => left; rfl
      | s2m a b =>
        right
        have := (hhuge rfl).1
        unfold tableOf; simp [this]; decide
      | s1g a =>
        right
        have := (hhuge rfl).1
        unfold tableOf; simp [this]; decide
    · left; rfl
    · intro hp; rw [hp] at hl1; simp at hl1
  · intro va hva
    obtain ⟨rw, us, h1, h2⟩ := walk_set_on s.mem p4 hinv.wf t li 0#64 va parents ht hl3 hva
    refine ⟨by rw [h2, entryStep_zero], ?_⟩
    rw [h1]
    have hP : bitP (s.mem t li) = true := hpres
    cases sh with
    | s4k a b c =>
      refine ⟨leafXlat 1 (s.mem t li) va rw us, ?_, ?_, ?_⟩
      · unfold entryStep; simp [hP]
      · simp [leafXlat, hfr, Pte.addr, tableAddr, Pte.ADDR_MASK]
      · simp [leafXlat]
    | s2m a b =>
      obtain ⟨hh, hal⟩ := hhuge rfl
      have hS : bitPS (s.mem t li) = true := hh
      refine ⟨leafXlat 2 (s.mem t li) va rw us, ?_, ?_, ?_⟩
      · unfold entryStep; simp [hP, hS]
      · simp [leafXlat, hfr, addr2M_of_aligned _ hal]
      · simp [leafXlat]
    | s1g a =>
      obtain ⟨hh, hal⟩ := hhuge rfl
      have hS : bitPS (s.mem t li) = true := hh
      refine ⟨leafXlat 3 (s.mem t li) va rw us, ?_, ?_, ?_⟩
      · unfold entryStep; simp [hP, hS]
      · simp [leafXlat, hfr, addr1G_of_aligned _ hal]
      · simp [leafXlat]
  · intro va hva
    exact walk_set_off s.mem p4 hinv.wf parents t li 0#64 ht hl3 hpi va hva

/-- A failed `unmap` changes no memory at all. -/
theorem unmap_err (s : St) (p4 : Word) (parents : List Nat) (li : Nat) (huge : Bool) (sz : Nat)
    (e : OpErr) (h : (unmap s p4 parents li huge sz).1 = .error e) :
    (unmap s p4 parents li huge sz).2.mem = s.mem := by
  have hm := unmap_mem s p4 parents li huge sz
  rw [h] at hm; exact hm

/-- Leaf flags accepted for a 4 KiB page: contain `PRESENT`, no address bits (bits 12..51). -/
def LeafFlags4K (fl : Word) : Prop := fl &&& 1#64 = 1#64 ∧ fl &&& 0x000ffffffffff000#64 = 0#64
/-- Leaf flags accepted for a huge page: contain `PRESENT`, no address bits (bits 13..51; bit 12 is PAT). -/
def LeafFlagsHuge (fl : Word) : Prop := fl &&& 1#64 = 1#64 ∧ fl &&& 0x000fffffffffe000#64 = 0#64
/-- Parent-table flags: contain `PRESENT`, not `HUGE_PAGE`, no address bits. -/
def ParentFlags (fl : Word) : Prop :=
  fl &&& 1#64 = 1#64 ∧ fl &&& 0x80#64 = 0#64 ∧ fl &&& 0x000ffffffffff000#64 = 0#64

/-- The leaf flags a mapping of the given shape carries for requested flags `fl`. -/
def leafFlagsOf (huge : Bool) (fl : Word) : Word := if huge then fl ||| 0x80#64 else fl

private theorem upd4k_bits (e fl : Word) (h1 : fl &&& 1#64 = 1#64) (h2 : fl &&& 0x000ffffffffff000#64 = 0#64) :
    bitP (Pte.setFlags e fl) = true ∧ tableAddr (Pte.setFlags e fl) = tableAddr e ∧
    leafFlags4K (Pte.setFlags e fl) = fl := by
  unfold bitP tableAddr leafFlags4K Pte.setFlags Pte.addr Pte.ADDR_MASK
  unfold Word at *
  refine ⟨?_, ?_, ?_⟩ <;> bv_decide

private theorem updHuge_bits (e fl : Word) (h1 : fl &&& 1#64 = 1#64) (h2 : fl &&& 0x000fffffffffe000#64 = 0#64) :
    let v := Pte.mk (Pte.hugeAddr e) (fl ||| Pte.HUGE)
    bitP v = true ∧ bitPS v = true ∧ addr2M v = addr2M e ∧ addr1G v = addr1G e ∧
    leafFlagsHuge v = fl ||| 0x80#64 ∧ Pte.huge v = true := by
  unfold bitP bitPS addr2M addr1G leafFlagsHuge Pte.mk Pte.hugeAddr Pte.huge Pte.HUGE
  unfold Word at *
  refine ⟨?_, ?_, ?_, ?_, ?_, ?_⟩ <;> bv_decide

/-- **update_flags** (MappedPageTable / OffsetPageTable): on success every address of the page
keeps frame, size and offset and gets exactly the new leaf flags; every other address keeps its
translation; the invariant is kept. -/
theorem update_flags_ok (s : St) (p4 : Word) (parents : List Nat) (li : Nat) (huge : Bool) (sz : Nat)
    (flags : Word) (sh : PageShape parents huge sz) (hinv : Inv s.mem p4) (hpi : IdxOK parents) (hli : li < 512)
    (hfl : if huge then LeafFlagsHuge flags else LeafFlags4K flags)
    (h : (updateFlags ⟨false⟩ s p4 parents li huge flags).1 = .ok ()) :
    Inv (updateFlags ⟨false⟩ s p4 parents li huge flags).2.mem p4 ∧
    (∀ va, parents ++ [li] <+: vaPath va →
        ∃ x x', walk s.mem p4 va = some x ∧
          walk (updateFlags ⟨false⟩ s p4 parents li huge flags).2.mem p4 va = some x' ∧
          x'.base = x.base ∧ x'.size = x.size ∧ x'.off = x.off ∧ x.size = sz ∧
          x'.flags = leafFlagsOf huge flags) ∧
    (∀ va, ¬ parents ++ [li] <+: vaPath va →
        walk (updateFlags ⟨false⟩ s p4 parents li huge flags).2.mem p4 va = walk s.mem p4 va) := by
  have hm := updateFlags_mem s p4 parents li huge flags
  rw [h] at hm
  obtain ⟨t, ht, hused, hhuge, hmem⟩ := hm
  obtain ⟨hl1, hl3⟩ := sh.len_le
  have hne : s.mem t li ≠ 0#64 := by
    intro h0; rw [h0] at hused; simp [Pte.isUnused] at hused
  have hP : bitP (s.mem t li) = true := hinv.pres parents t li hl3 hpi ht hli hne
  rw [hmem]
  cases sh with
  | s4k a b c =>
    simp only [Bool.false_eq_true, if_false] at hfl ⊢
    obtain ⟨b1, b2, b3⟩ := upd4k_bits (s.mem t li) flags hfl.1 hfl.2
    refine ⟨?_, ?_, ?_⟩
    · exact Inv_set s.mem p4 hinv _ t li _ ht hl3 hpi (Or.inl rfl) (Or.inr b1) (fun hp => by cases hp)
    · intro va hva
      obtain ⟨rw, us, h1, h2⟩ := walk_set_on s.mem p4 hinv.wf t li (Pte.setFlags (s.mem t li) flags) va _ ht hl3 hva
      refine ⟨leafXlat 1 (s.mem t li) va rw us, leafXlat 1 (Pte.setFlags (s.mem t li) flags) va rw us, ?_, ?_, ?_⟩
      · rw [h1]; unfold entryStep; simp [hP]
      · rw [h2]; unfold entryStep; simp [b1]
      · simp [leafXlat, b2, b3, leafFlagsOf]
    · intro va hva
      exact walk_set_off s.mem p4 hinv.wf _ t li _ ht hl3 hpi va hva
  | s2m a b =>
    simp only [if_true] at hfl ⊢
    obtain ⟨b1, b2, b3, b4, b5, b6⟩ := updHuge_bits (s.mem t li) flags hfl.1 hfl.2
    have hS : bitPS (s.mem t li) = true := hhuge rfl
    refine ⟨?_, ?_, ?_⟩
    · apply Inv_set s.mem p4 hinv _ t li _ ht hl3 hpi _ (Or.inr b1) (fun hp => by cases hp)
      right; unfold tableOf; rw [b6]; simp [show Pte.huge (s.mem t li) = true from hS]
    · intro va hva
      obtain ⟨rw, us, h1, h2⟩ := walk_set_on s.mem p4 hinv.wf t li (Pte.mk (Pte.hugeAddr (s.mem t li)) (flags ||| Pte.HUGE)) va _ ht hl3 hva
      refine ⟨leafXlat 2 (s.mem t li) va rw us, leafXlat 2 (Pte.mk (Pte.hugeAddr (s.mem t li)) (flags ||| Pte.HUGE)) va rw us, ?_, ?_, ?_⟩
      · rw [h1]; unfold entryStep; simp [hP, hS]
      · rw [h2]; unfold entryStep; simp [b1, b2]
      · simp [leafXlat, b3, b5, leafFlagsOf]
    · intro va hva
      exact walk_set_off s.mem p4 hinv.wf _ t li _ ht hl3 hpi va hva
  | s1g a =>
    simp only [if_true] at hfl ⊢
    obtain ⟨b1, b2, b3, b4, b5, b6⟩ := updHuge_bits (s.mem t li) flags hfl.1 hfl.2
    have hS : bitPS (s.mem t li) = true := hhuge rfl
    refine ⟨?_, ?_, ?_⟩
    · apply Inv_set s.mem p4 hinv _ t li _ ht hl3 hpi _ (Or.inr b1) (fun hp => by cases hp)
      right; unfold tableOf; rw [b6]; simp [show Pte.huge (s.mem t li) = true from hS]
    · intro va hva
      obtain ⟨rw, us, h1, h2⟩ := walk_set_on s.mem p4 hinv.wf t li (Pte.mk (Pte.hugeAddr (s.mem t li)) (flags ||| Pte.HUGE)) va _ ht hl3 hva
      refine ⟨leafXlat 3 (s.mem t li) va rw us, leafXlat 3 (Pte.mk (Pte.hugeAddr (s.mem t li)) (flags ||| Pte.HUGE)) va rw us, ?_, ?_, ?_⟩
      · rw [h1]; unfold entryStep; simp [hP, hS]
      · rw [h2]; unfold entryStep; simp [b1, b2]
      · simp [leafXlat, b4, b5, leafFlagsOf]
    · intro va hva
      exact walk_set_off s.mem p4 hinv.wf _ t li _ ht hl3 hpi va hva

theorem update_flags_err (s : St) (p4 : Word) (parents : List Nat) (li : Nat) (huge : Bool) (flags : Word)
    (e : OpErr) (h : (updateFlags ⟨false⟩ s p4 parents li huge flags).1 = .error e) :
    (updateFlags ⟨false⟩ s p4 parents li huge flags).2.mem = s.mem := by
  have hm := updateFlags_mem s p4 parents li huge flags
  rw [h] at hm; exact hm

private theorem parent_bits (e fl : Word) (h1 : fl &&& 1#64 = 1#64) (h2 : fl &&& 0x80#64 = 0#64)
    (h3 : fl &&& 0x000ffffffffff000#64 = 0#64) :
    bitP (Pte.setFlags e fl) = true ∧ bitPS (Pte.setFlags e fl) = false ∧
    tableAddr (Pte.setFlags e fl) = tableAddr e := by
  unfold bitP bitPS tableAddr Pte.setFlags Pte.addr Pte.ADDR_MASK
  unfold Word at *
  refine ⟨?_, ?_, ?_⟩ <;> bv_decide

/-- **set_flags_p4/p3/p2_entry** (MappedPageTable / OffsetPageTable): on success no address changes
its mapping (frame, size, offset, leaf flags) — only effective rights can change —, and the
invariant is kept. -/
theorem set_parent_flags_ok (s : St) (p4 : Word) (parents : List Nat) (idx : Nat) (flags : Word)
    (hlen : parents.length ≤ 2) (hinv : Inv s.mem p4) (hpi : IdxOK parents) (hidx : idx < 512)
    (hfl : ParentFlags flags)
    (h : (setParentFlags ⟨false⟩ s p4 parents idx flags).1 = .ok ()) :
    Inv (setParentFlags ⟨false⟩ s p4 parents idx flags).2.mem p4 ∧
    ∀ va, (walk (setParentFlags ⟨false⟩ s p4 parents idx flags).2.mem p4 va).map Xlat.core =
          (walk s.mem p4 va).map Xlat.core := by
  have hm := setParentFlags_mem s p4 parents idx flags
  rw [h] at hm
  obtain ⟨t, ht, hused, hnh, hmem⟩ := hm
  have hl3 : parents.length ≤ 3 := by omega
  have hne : s.mem t idx ≠ 0#64 := by
    intro h0; rw [h0] at hused; simp [Pte.isUnused] at hused
  have hP : bitP (s.mem t idx) = true := hinv.pres parents t idx hl3 hpi ht hidx hne
  have hS : bitPS (s.mem t idx) = false := by
    cases hpe : parents with
    | nil =>
      rw [hpe] at ht; simp [tblAt] at ht; subst ht
      exact hinv.p4nh idx hidx
    | cons a l => exact hnh (by rw [hpe]; simp)
  obtain ⟨b1, b2, b3⟩ := parent_bits (s.mem t idx) flags hfl.1 hfl.2.1 hfl.2.2
  have hto : tableOf (Pte.setFlags (s.mem t idx) flags) = tableOf (s.mem t idx) := by
    rw [(tableOf_some_iff _ _).2 ⟨b1, b2, rfl⟩, (tableOf_some_iff _ _).2 ⟨hP, hS, rfl⟩, b3]
  rw [hmem]
  refine ⟨?_, ?_⟩
  · exact Inv_set s.mem p4 hinv _ t idx _ ht hl3 hpi (Or.inr hto) (Or.inr b1) (fun _ => b2)
  · intro va
    by_cases hva : parents ++ [idx] <+: vaPath va
    · obtain ⟨rw, us, h1, h2⟩ := walk_set_on s.mem p4 hinv.wf t idx (Pte.setFlags (s.mem t idx) flags) va _ ht hl3 hva
      rw [h1, h2]
      -- both entries are table entries pointing to the same table; below it nothing was written
      obtain ⟨k, hk⟩ : ∃ k, 4 - parents.length = k + 2 := ⟨2 - parents.length, by omega⟩
      have hbelow : ∀ rw' us',
          walkFrom (s.mem.set t idx (Pte.setFlags (s.mem t idx) flags)) (k + 1) (tableAddr (s.mem t idx)) va rw' us' =
          walkFrom s.mem (k + 1) (tableAddr (s.mem t idx)) va rw' us' := by
        intro rw' us'
        have hr' : tblAt s.mem p4 (parents ++ [idx]) = some (tableAddr (s.mem t idx)) := by
          rw [tblAt_append, ht]; simp [tblAt, (tableOf_some_iff _ _).2 ⟨hP, hS, rfl⟩]
        exact walkFrom_set_off s.mem p4 hinv.wf parents t idx _ ht hl3 hpi va (k + 1) _ (parents ++ [idx]) rw' us' hr'
          (by simp; omega) (IdxOK_append.2 ⟨hpi, fun j hj => by simp at hj; rw [hj]; exact hidx⟩)
          (Or.inl (by simp))
      unfold entryStep
      rw [hk]
      by_cases h4 : k + 2 = 4
      · have : k = 2 := by omega
        subst this
        simp only [b1, hP, b2, hS, Bool.not_true, Bool.false_eq_true, if_false, if_true, b3]
        rw [hbelow]; exact walkFrom_core _ _ _ _ _ _ _ _
      · have h1' : k + 2 ≠ 1 := by omega
        simp only [b1, hP, b2, hS, h4, h1', Bool.not_true, Bool.false_eq_true, if_false, b3]
        have : k + 2 - 1 = k + 1 := by omega
        rw [this, hbelow]; exact walkFrom_core _ _ _ _ _ _ _ _
    · rw [walk_set_off s.mem p4 hinv.wf _ t idx _ ht hl3 hpi va hva]

theorem set_parent_flags_err (s : St) (p4 : Word) (parents : List Nat) (idx : Nat) (flags : Word)
    (e : OpErr) (h : (setParentFlags ⟨false⟩ s p4 parents idx flags).1 = .error e) :
    (setParentFlags ⟨false⟩ s p4 parents idx flags).2.mem = s.mem := by
  have hm := setParentFlags_mem s p4 parents idx flags
  rw [h] at hm; exact hm

/-- `translate_page` never changes memory (any mapper kind). -/
theorem translate_page_pure (k : Kind) (s : St) (p4 : Word) (parents : List Nat) (li : Nat) (huge : Bool) (sz : Nat) :
    (translatePage k s p4 parents li huge sz).2.mem = s.mem := translatePage_mem k s p4 parents li huge sz

end X86.C01
