/-
C14 — GDT contents, selectors and limit always agree.

All statements are for every capacity `max` (not only the six instantiated by the harness), every
descriptor (all 64-bit and 128-bit patterns) and every finite sequence of appends, by induction with the
invariant `Inv`.
-/
import X86Model.Model.Gdt
import X86Model.Spec.GdtTable
import X86Model.Proofs.GdtDefs
import X86Model.Properties.C15
import Std.Tactic.BVDecide
import X86Model.Spec.AsmOptions

namespace X86.C14
open X86 X86.Spec X86.GdtProof

theorem slots_length (g : Gdt) (h : Inv g) : (slots g).length = g.len := by
  unfold slots; rw [List.length_take, h.tlen]; exact Nat.min_eq_left h.le

/-- `entries()` never panics on a table satisfying the invariant and returns the used slots,
which start with the null descriptor. -/
theorem entries_ok (g : Gdt) (h : Inv g) :
    g.entries = .ok (slots g) ∧ (slots g).head? = some 0#64 := by
  constructor
  · unfold Gdt.entries; rw [h.tlen, if_pos h.le]; rfl
  · unfold slots
    have hn := h.null; have hp := h.pos
    cases ht : g.table with
    | nil => rw [ht] at hn; simp at hn
    | cons x xs =>
      rw [ht] at hn; simp at hn
      cases hl : g.len with
      | zero => omega
      | succ n => simp [hn]

/-! ### `empty` -/

theorem empty_ok (max : Nat) (h : capacityOk max = true) :
    ∃ g, Gdt.empty max = .ok g ∧ Inv g ∧ slots g = gdtEmpty ∧ g.max = max := by
  simp only [capacityOk, Bool.and_eq_true, decide_eq_true_eq] at h
  refine ⟨⟨max, List.replicate max 0#64, 1⟩, ?_, ?_, ?_, rfl⟩
  · unfold Gdt.empty; simp [h.1, h.2] <;> omega
  · refine ⟨by simp, by simp, by simp; omega, by simp; omega, ?_⟩
    simp [List.getElem?_replicate]; omega
  · unfold slots gdtEmpty
    cases max with
    | zero => omega
    | succ n => simp [List.replicate_succ]

/-- `empty()` panics for `MAX = 0` and for `MAX > 2^13`. -/
theorem empty_panics (max : Nat) (h : capacityOk max = false) : Gdt.empty max = .panic := by
  simp only [capacityOk, Bool.and_eq_false_iff, decide_eq_false_iff_not] at h
  unfold Gdt.empty
  rcases h with h | h
  · simp <;> omega
  · have : ¬ max ≤ 2 ^ 13 := by omega
    simp [this]

/-! ### One append -/

private theorem take_set_succ (l : List (BitVec 64)) (n : Nat) (v : BitVec 64) (h : n < l.length) :
    (l.set n v).take (n + 1) = l.take n ++ [v] := by
  induction l generalizing n with
  | nil => simp at h
  | cons x xs ih =>
    cases n with
    | zero => simp
    | succ m => simp at h; simp [ih m h]

/-- `push` on a table with a free slot: stores the value in slot `len`, returns `len`. -/
theorem push_ok (g : Gdt) (v : BitVec 64) (h : Inv g) (hfit : g.len < g.max) :
    ∃ g', g.push v = (g', .ok g.len) ∧ Inv g' ∧ g'.max = g.max ∧ g'.len = g.len + 1 ∧
      slots g' = slots g ++ [v] := by
  have hl : g.len < g.table.length := by rw [h.tlen]; exact hfit
  refine ⟨⟨g.max, g.table.set g.len v, g.len + 1⟩, ?_, ?_, rfl, rfl, ?_⟩
  · unfold Gdt.push; simp [hl]
  · refine ⟨by simp [h.tlen], by simp, by show g.len + 1 ≤ g.max; omega, h.cap, ?_⟩
    have := h.pos
    simp only
    rw [List.getElem?_set_ne (by omega)]; exact h.null
  · unfold slots; exact take_set_succ _ _ _ hl

/-- `dpl()` of the model descriptor is the spec's DPL field (from C15, all patterns). -/
theorem dpl_ok (d : Descriptor) : d.dpl = .ok ((toSpec d).dpl.setWidth 16) := by
  rw [C15.dpl_is_encoded_level]; cases d <;> rfl

/-- `SegmentSelector::new(index, rpl)` decodes (SDM Figure 3-6) to that index, TI = 0 (GDT) and
that RPL, for every index below 2^13 and every privilege level. -/
theorem selector_decodes (i : Nat) (r : BitVec 2) :
    decodeSel (GdtSelector.new (BitVec.ofNat 16 i) (r.setWidth 16))
      = ⟨BitVec.ofNat 13 i, false, r⟩ := by
  have hi : BitVec.ofNat 13 i = (BitVec.ofNat 16 i).setWidth 13 := by
    apply BitVec.eq_of_toNat_eq; simp <;> omega
  rw [hi]
  generalize BitVec.ofNat 16 i = x
  unfold decodeSel GdtSelector.new
  simp only [SelFields.mk.injEq]
  refine ⟨?_, ?_, ?_⟩ <;> bv_decide

/-- **An append that fits**: does not panic; the descriptor's words (one slot for a user
descriptor, two consecutive slots for a system descriptor) follow the previous slots; the
selector's index is the first of these slots, its RPL the descriptor's DPL, TI = 0; the invariant
is kept and the capacity is unchanged. -/
theorem append_ok (g : Gdt) (d : Descriptor) (h : Inv g)
    (hfit : g.len + (toSpec d).words.length ≤ g.max) :
    ∃ g' sel, g.append d = (g', .ok sel) ∧ Inv g' ∧ g'.max = g.max ∧
      slots g' = slots g ++ (toSpec d).words ∧
      decodeSel sel = ⟨BitVec.ofNat 13 g.len, false, (toSpec d).dpl⟩ := by
  cases d with
  | user v =>
    simp only [toSpec, Desc.words, List.length_cons, List.length_nil] at hfit
    obtain ⟨g1, p1, i1, m1, _, s1⟩ := push_ok g v h (by omega)
    refine ⟨g1, _, ?_, i1, m1, s1, selector_decodes _ _⟩
    have hc : ¬ g.len > g.table.length - 1 := by rw [h.tlen]; omega
    simp only [Gdt.append, hc, if_false, p1, dpl_ok]
  | system lo hi =>
    simp only [toSpec, Desc.words, List.length_cons, List.length_nil] at hfit
    obtain ⟨g1, p1, i1, m1, l1, s1⟩ := push_ok g lo h (by omega)
    obtain ⟨g2, p2, i2, m2, _, s2⟩ := push_ok g1 hi i1 (by omega)
    refine ⟨g2, _, ?_, i2, by omega, by rw [s2, s1]; simp [toSpec, Desc.words],
      selector_decodes _ _⟩
    have hc : ¬ g.len > g.table.length - 2 := by rw [h.tlen]; omega
    simp only [Gdt.append, hc, if_false, p1, p2, dpl_ok]

/-- **An append that does not fit** panics and leaves the table exactly as it was. -/
theorem append_full (g : Gdt) (d : Descriptor) (h : Inv g)
    (hfull : g.max < g.len + (toSpec d).words.length) :
    g.append d = (g, .panic) := by
  have := h.pos
  cases d with
  | user v =>
    simp only [toSpec, Desc.words, List.length_cons, List.length_nil] at hfull
    have hc : g.len > g.table.length - 1 := by rw [h.tlen]; omega
    simp only [Gdt.append, hc, if_true]
  | system lo hi =>
    simp only [toSpec, Desc.words, List.length_cons, List.length_nil] at hfull
    have hc : g.len > g.table.length - 2 := by rw [h.tlen]; omega
    simp only [Gdt.append, hc, if_true]

/-- One append against the spec: same decision (fits / panics), same slots, same selector. -/
theorem append_spec (g : Gdt) (d : Descriptor) (h : Inv g) :
    match gdtAppend g.max (slots g) (toSpec d) with
    | some (s', sf) => ∃ g' sel, g.append d = (g', .ok sel) ∧ Inv g' ∧ g'.max = g.max ∧
        slots g' = s' ∧ decodeSel sel = sf
    | none => g.append d = (g, .panic) := by
  unfold gdtAppend
  rw [slots_length g h]
  by_cases hfit : g.len + (toSpec d).words.length ≤ g.max
  · rw [if_pos hfit]
    exact append_ok g d h hfit
  · rw [if_neg hfit]
    exact append_full g d h (by omega)

/-! ### Any sequence of appends -/

/-- **History theorem.** From any table satisfying the invariant (in particular `empty()` and
`from_raw_entries(..)`), for any sequence of appends — continuing after panics — the model ends
with exactly the slots the spec computes, every call's outcome is the spec's (panic exactly when
the descriptor does not fit, otherwise a selector with index = first slot, RPL = DPL, TI = 0), and
the invariant (null descriptor first, `len ≤ MAX`) holds at the end. -/
theorem history (ds : List Descriptor) (g : Gdt) (h : Inv g) :
    Inv (g.appendAll ds).1 ∧ (g.appendAll ds).1.max = g.max ∧
    slots (g.appendAll ds).1 = (gdtRun g.max (slots g) (ds.map toSpec)).1 ∧
    outsOk (g.appendAll ds).2 (gdtRun g.max (slots g) (ds.map toSpec)).2 := by
  induction ds generalizing g with
  | nil => exact ⟨h, rfl, rfl, trivial⟩
  | cons d rest ih =>
    have hs := append_spec g d h
    simp only [List.map_cons, gdtRun, Gdt.appendAll]
    cases hspec : gdtAppend g.max (slots g) (toSpec d) with
    | none =>
      rw [hspec] at hs
      simp only [hs]
      obtain ⟨a, b, c, e⟩ := ih g h
      exact ⟨a, b, c, trivial, e⟩
    | some p =>
      obtain ⟨s', sf⟩ := p
      rw [hspec] at hs
      obtain ⟨g', sel, ha, hi, hm, hsl, hd⟩ := hs
      simp only [ha]
      obtain ⟨a, b, c, e⟩ := ih g' hi
      rw [hm, hsl] at c e
      exact ⟨a, by rw [b, hm], c, hd, e⟩

/-- The spec's run only ever extends the table, never beyond the capacity. -/
theorem gdtRun_extends (max : Nat) (ds : List Desc) (s : List (BitVec 64)) (hs : s.length ≤ max) :
    (∃ t, (gdtRun max s ds).1 = s ++ t) ∧ (gdtRun max s ds).1.length ≤ max := by
  induction ds generalizing s with
  | nil => exact ⟨⟨[], by simp [gdtRun]⟩, hs⟩
  | cons d rest ih =>
    simp only [gdtRun]
    cases hspec : gdtAppend max s d with
    | none => simpa using ih s hs
    | some p =>
      obtain ⟨s', sf⟩ := p
      unfold gdtAppend at hspec
      split at hspec
      · rename_i hfit
        simp only [Option.some.injEq, Prod.mk.injEq] at hspec
        obtain ⟨h1, _⟩ := hspec
        subst h1
        obtain ⟨⟨t, ht⟩, hl⟩ := ih (s ++ d.words) (by simpa using hfit)
        exact ⟨⟨d.words ++ t, by simp [ht]⟩, hl⟩
      · exact absurd hspec (by simp)

/-- **The selector points at its descriptor.** In the final table of any history, the words of
the `k`-th appended descriptor (if that append was accepted) sit in consecutive slots starting at
the index of the selector that append returned. -/
theorem selector_points_at_descriptor (max : Nat) (hmax : max ≤ 8192) (ds : List Desc)
    (s : List (BitVec 64)) (hs : s.length ≤ max) (k : Nat) (d : Desc) (sf : SelFields)
    (hd : ds[k]? = some d) (ho : (gdtRun max s ds).2[k]? = some (some sf)) :
    ((gdtRun max s ds).1.drop sf.index.toNat).take d.words.length = d.words ∧
    sf.ti = false ∧ sf.rpl = d.dpl := by
  induction ds generalizing s k with
  | nil => simp at hd
  | cons d0 rest ih =>
    simp only [gdtRun] at ho ⊢
    cases hspec : gdtAppend max s d0 with
    | none =>
      rw [hspec] at ho
      dsimp only at ho ⊢
      cases k with
      | zero => simp at ho
      | succ k' =>
        simp only [List.getElem?_cons_succ] at hd ho
        exact ih s hs k' hd ho
    | some p =>
      obtain ⟨s', sf0⟩ := p
      rw [hspec] at ho
      dsimp only at ho ⊢
      unfold gdtAppend at hspec
      split at hspec
      · rename_i hfit
        simp only [Option.some.injEq, Prod.mk.injEq] at hspec
        obtain ⟨h1, h2⟩ := hspec
        subst h1
        have hs' : (s ++ d0.words).length ≤ max := by simpa using hfit
        cases k with
        | zero =>
          simp only [List.getElem?_cons_zero, Option.some.injEq] at hd ho
          subst hd; subst ho; subst h2
          obtain ⟨⟨t, ht⟩, _⟩ := gdtRun_extends max rest (s ++ d0.words) hs'
          have hw : 0 < d0.words.length := by cases d0 <;> simp [Desc.words]
          have hidx : (BitVec.ofNat 13 s.length).toNat = s.length := by
            simp; omega
          simp only [hidx, ht, List.append_assoc]
          refine ⟨?_, by simp, by simp⟩
          rw [List.drop_left']  <;> simp
        | succ k' =>
          simp only [List.getElem?_cons_succ] at hd ho
          exact ih (s ++ d0.words) hs' k' hd ho
      · exact absurd hspec (by simp)

/-! ### `limit`, `from_raw_entries`, `load` -/

/-- `limit()` is 8 × (used slots) − 1, in both build profiles, without truncation. -/
theorem limit_eq (cfg : Cfg) (g : Gdt) (h : Inv g) :
    g.limit cfg = .ok (BitVec.ofNat 16 (gdtLimit g.len)) ∧ gdtLimit g.len < 65536 ∧
    gdtLimit g.len = 8 * (slots g).length - 1 := by
  have h1 := h.pos; have h2 := h.le; have h3 := h.cap
  refine ⟨?_, by unfold gdtLimit; omega, by rw [slots_length g h]; rfl⟩
  unfold Gdt.limit mulU64
  have : g.len * 8 < 2 ^ 64 := by omega
  simp only [this, if_true]
  unfold subU64
  have : 1 ≤ g.len * 8 := by omega
  simp only [this, if_true]
  unfold gdtLimit
  rw [Nat.mul_comm]

/-- `from_raw_entries` on acceptable raw entries reproduces them (and establishes the invariant,
so every theorem above applies to the result). -/
theorem from_raw_ok (max : Nat) (raw : List (BitVec 64)) (h : rawOk max raw = true) :
    ∃ g, Gdt.fromRawEntries max raw = .ok g ∧ Inv g ∧ g.max = max ∧ slots g = raw ∧
      g.entries = .ok raw := by
  simp only [rawOk, Bool.and_eq_true, decide_eq_true_eq, beq_iff_eq] at h
  obtain ⟨⟨⟨hc, hpos⟩, hhead⟩, hle⟩ := h
  obtain ⟨e, he, hie, _, hem⟩ := empty_ok max hc
  have hinv : Inv ⟨max, raw ++ e.table.drop raw.length, raw.length⟩ := by
    have hcap := hie.cap
    refine ⟨?_, hpos, hle, by rw [← hem]; exact hcap, ?_⟩
    · simp [hie.tlen, hem]; omega
    · cases raw with
      | nil => simp at hpos
      | cons x xs => simpa using hhead
  have hslots : slots ⟨max, raw ++ e.table.drop raw.length, raw.length⟩ = raw := by
    unfold slots; simp
  refine ⟨_, ?_, hinv, rfl, hslots, ?_⟩
  · unfold Gdt.fromRawEntries
    rw [he]
    have : ¬ ¬ raw.length > 0 := by omega
    simp only [this, if_false, hhead, beq_self_eq_true, not_true_eq_false, hle]
  · rw [(entries_ok _ hinv).1, hslots]

/-- `from_raw_entries` panics on an empty slice, a non-zero first entry, more than `MAX`
entries (and for an impossible `MAX`). -/
theorem from_raw_panics (max : Nat) (raw : List (BitVec 64)) (h : rawOk max raw = false) :
    Gdt.fromRawEntries max raw = .panic := by
  unfold Gdt.fromRawEntries
  cases hc : capacityOk max with
  | false => rw [empty_panics max hc]
  | true =>
    obtain ⟨e, he, _⟩ := empty_ok max hc
    rw [he]
    simp only [rawOk, hc, Bool.true_and, Bool.and_eq_false_iff, decide_eq_false_iff_not,
      beq_eq_false_iff_ne] at h
    rcases h with (h | h) | h
    · simp [h]
    · by_cases h0 : raw.length > 0
      · simp [h0, h]
      · simp [h0]
    · by_cases h0 : raw.length > 0
      · by_cases h1 : raw.head? = some 0#64
        · simp [h0, h1, h]
        · simp [h0, h1]
      · simp [h0]

/-- Round trip: building a table from the entries of a table reproduces them. -/
theorem from_raw_roundtrip (g : Gdt) (h : Inv g) :
    ∃ g', Gdt.fromRawEntries g.max (slots g) = .ok g' ∧ g'.entries = g.entries ∧
      g'.len = g.len ∧ g'.max = g.max := by
  have hl := slots_length g h
  have hok : rawOk g.max (slots g) = true := by
    have h1 := h.pos; have h2 := h.le; have h3 := h.cap
    simp only [rawOk, capacityOk, Bool.and_eq_true, decide_eq_true_eq, beq_iff_eq, hl]
    exact ⟨⟨⟨⟨by omega, h3⟩, by omega⟩, (entries_ok g h).2⟩, h2⟩
  obtain ⟨g', a, b, c, d, e⟩ := from_raw_ok g.max (slots g) hok
  refine ⟨g', a, by rw [e, (entries_ok g h).1], ?_, c⟩
  rw [← slots_length g' b, d, hl]

/-- **Loading** issues exactly one `lgdt` whose operand is (limit = 8·len − 1, base = the address
of the table itself). (`tableAddr` canonical: `VirtAddr::new` of a real address.) -/
theorem load_hands_cpu_the_table (cfg : Cfg) (g : Gdt) (h : Inv g) (tableAddr : Nat)
    (hc : tableAddr < 2^47 ∨ (2^64 - 2^47 ≤ tableAddr ∧ tableAddr < 2^64)) :
    g.load cfg tableAddr = .ok [.lgdt (BitVec.ofNat 16 (gdtLimit g.len)) tableAddr] := by
  unfold Gdt.load Gdt.pointer
  rw [if_pos hc, (limit_eq cfg g h).1]

/-! ### The whole property from `empty()` -/

/-- **C14, from `empty()`**: for every capacity `0 < MAX ≤ 2^13` and every sequence of appends,
`entries()` of the final table is the spec's table (null descriptor, then the accepted descriptors'
words in order), within capacity, every outcome matches the spec, and `limit()` is
8 × (used slots) − 1. -/
theorem gdt_from_empty (cfg : Cfg) (max : Nat) (hmax : capacityOk max = true) (ds : List Descriptor) :
    ∃ g0, Gdt.empty max = .ok g0 ∧
      let g := (g0.appendAll ds).1
      let spec := gdtRun max gdtEmpty (ds.map toSpec)
      g.entries = .ok spec.1 ∧ spec.1.head? = some 0#64 ∧ spec.1.length ≤ max ∧
      outsOk (g0.appendAll ds).2 spec.2 ∧
      g.limit cfg = .ok (BitVec.ofNat 16 (gdtLimit spec.1.length)) := by
  obtain ⟨g0, he, hi, hs, hm⟩ := empty_ok max hmax
  obtain ⟨a, b, c, d⟩ := history ds g0 hi
  rw [hs, hm] at c d
  refine ⟨g0, he, ?_⟩
  simp only
  have hlen := slots_length _ a
  refine ⟨by rw [(entries_ok _ a).1, c], by rw [← c]; exact (entries_ok _ a).2, ?_, d, ?_⟩
  · rw [← c, hlen, ← hm, ← b]; exact a.le
  · rw [(limit_eq cfg _ a).1, ← c, hlen]

/-! ### Non-vacuity -/

example : capacityOk 3 = true ∧ capacityOk 0 = false ∧ capacityOk 8193 = false := by decide
example : (Gdt.empty 3).bind (fun g => .ok (g.appendAll
    [.system 0x0000600000000011#64 0x22#64, .user 0x33#64])) =
    .ok (⟨3, [0#64, 0x0000600000000011#64, 0x22#64], 3⟩, [.ok 0x000b#16, .panic]) := by decide
example : gdtRun 3 gdtEmpty [.system 0x0000600000000011#64 0x22#64, .user 0x33#64] =
    ([0#64, 0x0000600000000011#64, 0x22#64], [some ⟨1#13, false, 3#2⟩, none]) := by decide
example : rawOk 3 [0#64, 5#64] = true ∧ rawOk 3 [1#64] = false ∧ rawOk 1 [0#64, 0#64] = false := by
  decide
example : Gdt.fromRawEntries 3 [0#64, 5#64] = .ok ⟨3, [0#64, 5#64, 0#64], 2⟩ := by decide
example : (⟨3, [0#64, 5#64, 0#64], 2⟩ : Gdt).limit ⟨true⟩ = .ok 15#16 := by decide

/-! ### The `asm!` blocks behind this property (re-extracted from the source on every run)

`Generated.asmSites` is rewritten by `translator/gen_asm.py` from the `asm!` invocations of the
crate; the theorems below are re-checked by the kernel against what the source says now. They
constrain what the compiler may do with the blocks (delete, merge, hoist, reorder memory accesses
across them) — behaviour that only shows in particular build profiles. -/

/-- Every `asm!` block of the files this property is anchored in carries only options its
instructions admit (`Spec/AsmOptions.lean`): no `pure` on instructions with side effects, no
`nomem`/`readonly` where the hardware dereferences the operand, no `nostack` on pushes/pops. -/
theorem asm_options_admissible :
    ∀ s ∈ Spec.AsmOptions.sitesOfFiles ["src/instructions/tables.rs"], Spec.AsmOptions.admissible s = true := by
  decide +kernel

example : (Spec.AsmOptions.sitesOfFiles ["src/instructions/tables.rs"]).length > 0 := by decide +kernel

end X86.C14

