/-
The source tie, composed: the definitions generated from the Rust source are the `Nat` models, and therefore
satisfy the property theorems.

  stage A (`Properties/SrcTie/*`)   generated definition = bit-vector reference definition     (all inputs)
  stage B (`Proofs/RefBridge`)      bit-vector reference  = Nat model under `toNat`             (all inputs)
  here                               generated definition  = Nat model under `toNat`, and the headline sentences of
                                     C03-C07 stated directly about the generated definitions.

`Src.f cfg a` is what `translator/gen_fns.py` produced from `/repo`'s working tree on this run; so each theorem
below is a statement about the code as it is now, for every 64-bit input and both build profiles, modulo the
translator (whose semantics of the Rust subset is `Base/Rust.lean`, validated on every run by the driver's third
voice, `Driver/Src.lean`).
-/
import X86Model.Properties.SrcTie.Addr
import X86Model.Properties.SrcTie.Page
import X86Model.Properties.SrcTie.Frame
import X86Model.Proofs.RefBridge
import X86Model.Properties.C03
import X86Model.Properties.C04
import X86Model.Properties.C05
import X86Model.Properties.C06
import X86Model.Properties.C07

namespace X86.SrcModel
open X86 X86.Generated X86.Spec

variable (cfg : Cfg)

/-! ### generated definition = Nat model -/

theorem new_truncate (a : BitVec 64) :
    (Src.VirtAddr_new_truncate cfg a).map BitVec.toNat = .ok (VirtAddr.newTruncate a.toNat) := by
  rw [SrcTie.VirtAddr_new_truncate]; simp only [R.map_ok, RefBridge.VirtAddr.newTruncate_toNat]

theorem new (a : BitVec 64) : (Src.VirtAddr_new cfg a).map BitVec.toNat = VirtAddr.new a.toNat := by
  rw [SrcTie.VirtAddr_new, RefBridge.VirtAddr.new_toNat]

theorem phys_new_truncate (a : BitVec 64) :
    (Src.PhysAddr_new_truncate cfg a).map BitVec.toNat = .ok (PhysAddr.newTruncate a.toNat) := by
  rw [SrcTie.PhysAddr_new_truncate]; simp only [R.map_ok, RefBridge.PhysAddr.newTruncate_toNat]

theorem phys_new (a : BitVec 64) : (Src.PhysAddr_new cfg a).map BitVec.toNat = PhysAddr.new a.toNat := by
  rw [SrcTie.PhysAddr_new, RefBridge.PhysAddr.new_toNat]

theorem align_down (a al : BitVec 64) :
    (Src.align_down cfg a al).map BitVec.toNat = alignDown a.toNat al.toNat := by
  rw [SrcTie.align_down, RefBridge.alignDown_toNat]

theorem align_up (a al : BitVec 64) : (Src.align_up cfg a al).map BitVec.toNat = alignUp a.toNat al.toNat := by
  rw [SrcTie.align_up, RefBridge.alignUp_toNat]

theorem va_align_down (a al : BitVec 64) :
    (Src.VirtAddr_align_down cfg a al).map BitVec.toNat = VirtAddr.alignDown a.toNat al.toNat := by
  rw [SrcTie.VirtAddr_align_down, RefBridge.VirtAddr.alignDown_toNat]

theorem va_align_up (a al : BitVec 64) :
    (Src.VirtAddr_align_up cfg a al).map BitVec.toNat = VirtAddr.alignUp a.toNat al.toNat := by
  rw [SrcTie.VirtAddr_align_up, RefBridge.VirtAddr.alignUp_toNat]

theorem va_add (a n : BitVec 64) :
    (Src.VirtAddr_add_u64 cfg a n).map BitVec.toNat = VirtAddr.add a.toNat n.toNat := by
  rw [SrcTie.VirtAddr_add_u64, RefBridge.VirtAddr.add_toNat]

theorem va_sub (a n : BitVec 64) :
    (Src.VirtAddr_sub_u64 cfg a n).map BitVec.toNat = VirtAddr.sub a.toNat n.toNat := by
  rw [SrcTie.VirtAddr_sub_u64, RefBridge.VirtAddr.sub_toNat]

theorem pa_add (a n : BitVec 64) :
    (Src.PhysAddr_add_u64 cfg a n).map BitVec.toNat = PhysAddr.add a.toNat n.toNat := by
  rw [SrcTie.PhysAddr_add_u64, RefBridge.PhysAddr.add_toNat]

theorem forward_checked (s c : BitVec 64) :
    (Src.VirtAddr_forward_checked_u64 cfg s c).map (Option.map BitVec.toNat)
      = .ok (VirtAddr.forwardCheckedU64 s.toNat c.toNat) := by
  rw [SrcTie.VirtAddr_forward_checked_u64]; simp only [R.map_ok, RefBridge.VirtAddr.forwardCheckedU64_toNat]

theorem backward_checked (s c : BitVec 64) :
    (Src.VirtAddr_backward_checked_u64 cfg s c).map (Option.map BitVec.toNat)
      = .ok (VirtAddr.backwardCheckedU64 s.toNat c.toNat) := by
  rw [SrcTie.VirtAddr_backward_checked_u64]; simp only [R.map_ok, RefBridge.VirtAddr.backwardCheckedU64_toNat]

theorem steps_between (s e : BitVec 64) :
    (Src.VirtAddr_steps_between_u64 cfg s e).map (Option.map BitVec.toNat)
      = .ok (VirtAddr.stepsBetweenU64 s.toNat e.toNat) := by
  rw [SrcTie.VirtAddr_steps_between_u64]; simp only [R.map_ok, RefBridge.VirtAddr.stepsBetweenU64_toNat]

theorem p4_index (a : BitVec 64) :
    (Src.VirtAddr_p4_index cfg a).map BitVec.toNat = .ok (VirtAddr.p4Index a.toNat) := by
  rw [SrcTie.VirtAddr_p4_index]; simp only [R.map_ok, RefBridge.VirtAddr.p4Index_toNat]
theorem p3_index (a : BitVec 64) :
    (Src.VirtAddr_p3_index cfg a).map BitVec.toNat = .ok (VirtAddr.p3Index a.toNat) := by
  rw [SrcTie.VirtAddr_p3_index]; simp only [R.map_ok, RefBridge.VirtAddr.p3Index_toNat]
theorem p2_index (a : BitVec 64) :
    (Src.VirtAddr_p2_index cfg a).map BitVec.toNat = .ok (VirtAddr.p2Index a.toNat) := by
  rw [SrcTie.VirtAddr_p2_index]; simp only [R.map_ok, RefBridge.VirtAddr.p2Index_toNat]
theorem p1_index (a : BitVec 64) :
    (Src.VirtAddr_p1_index cfg a).map BitVec.toNat = .ok (VirtAddr.p1Index a.toNat) := by
  rw [SrcTie.VirtAddr_p1_index]; simp only [R.map_ok, RefBridge.VirtAddr.p1Index_toNat]
theorem page_offset (a : BitVec 64) :
    (Src.VirtAddr_page_offset cfg a).map BitVec.toNat = .ok (VirtAddr.pageOffset a.toNat) := by
  rw [SrcTie.VirtAddr_page_offset]; simp only [R.map_ok, RefBridge.VirtAddr.pageOffset_toNat]

theorem page_containing (sz a : BitVec 64) (h : RefBV.IsPageSize sz) :
    (Src.Page_containing_address cfg sz a).map BitVec.toNat = .ok (Page.containingAddress sz.toNat a.toNat) := by
  rw [SrcTie.Page_containing_address cfg sz a h]; simp only [R.map_ok, RefBridge.Page.containingAddress_toNat]

theorem page_add (sz p n : BitVec 64) (h : RefBV.IsPageSize sz) :
    (Src.Page_add_u64 cfg sz p n).map BitVec.toNat = Page.add sz.toNat p.toNat n.toNat := by
  rw [SrcTie.Page_add_u64 cfg sz p n h, RefBridge.Page.add_toNat]

theorem page_sub (sz p n : BitVec 64) (h : RefBV.IsPageSize sz) :
    (Src.Page_sub_u64 cfg sz p n).map BitVec.toNat = Page.sub sz.toNat p.toNat n.toNat := by
  rw [SrcTie.Page_sub_u64 cfg sz p n h, RefBridge.Page.sub_toNat]

theorem frame_add (sz p n : BitVec 64) (h : RefBV.IsPageSize sz) :
    (Src.PhysFrame_add_u64 cfg sz p n).map BitVec.toNat = PhysFrame.add sz.toNat p.toNat n.toNat := by
  rw [SrcTie.PhysFrame_add_u64 cfg sz p n h, RefBridge.PhysFrame.add_toNat]

theorem page_forward (sz p c : BitVec 64) (h : RefBV.IsPageSize sz) :
    (Src.Page_forward_checked_impl cfg sz p c).map (Option.map BitVec.toNat)
      = .ok (Page.forwardChecked sz.toNat p.toNat c.toNat) := by
  rw [SrcTie.Page_forward_checked_impl cfg sz p c h]; simp only [R.map_ok, RefBridge.Page.forwardChecked_toNat]

theorem range_next_page (sz : BitVec 64) (r : RefBV.Range) (h : RefBV.IsPageSize sz) :
    (Src.PageRange_next cfg sz r).map RefBridge.nextToNat = Range.next .page sz.toNat (RefBridge.toRange r) := by
  rw [SrcTie.PageRange_next cfg sz r h, RefBridge.Range.pageNext_toNat]

theorem range_next_page_incl (sz : BitVec 64) (r : RefBV.Range) (h : RefBV.IsPageSize sz) :
    (Src.PageRangeInclusive_next cfg sz r).map RefBridge.nextToNat
      = Range.next .pageIncl sz.toNat (RefBridge.toRange r) := by
  rw [SrcTie.PageRangeInclusive_next cfg sz r h, RefBridge.Range.pageInclNext_toNat]

theorem range_next_frame (sz : BitVec 64) (r : RefBV.Range) (h : RefBV.IsPageSize sz) :
    (Src.PhysFrameRange_next cfg sz r).map RefBridge.nextToNat = Range.next .frame sz.toNat (RefBridge.toRange r) := by
  rw [SrcTie.PhysFrameRange_next cfg sz r h, RefBridge.Range.frameNext_toNat]

theorem range_next_frame_incl (sz : BitVec 64) (r : RefBV.Range) (h : RefBV.IsPageSize sz) :
    (Src.PhysFrameRangeInclusive_next cfg sz r).map RefBridge.nextToNat
      = Range.next .frameIncl sz.toNat (RefBridge.toRange r) := by
  rw [SrcTie.PhysFrameRangeInclusive_next cfg sz r h, RefBridge.Range.frameInclNext_toNat' sz h r]

/-! ### iteration: driving the generated `next` to the end -/

/-- Drive a `next` function (as generated from `Iterator::next` of a range type) until it returns `None`; at most
`fuel` calls. Mirrors `Range.collect` of the model. -/
def collect (next : RefBV.Range → R (Option (BitVec 64) × RefBV.Range)) :
    Nat → RefBV.Range → Option (R (List (BitVec 64)))
  | 0, _ => none
  | fuel + 1, r =>
    match next r with
    | .panic => some .panic
    | .ok (none, _) => some (.ok [])
    | .ok (some x, r') =>
      match collect next fuel r' with
      | none => none
      | some .panic => some .panic
      | some (.ok xs) => some (.ok (x :: xs))

/-- If one call of `next` corresponds to one call of the model's `next`, whole iterations correspond. -/
theorem collect_toNat (k : RangeKind) (szN : Nat) (next : RefBV.Range → R (Option (BitVec 64) × RefBV.Range))
    (hnext : ∀ r, (next r).map RefBridge.nextToNat = Range.next k szN (RefBridge.toRange r)) :
    ∀ fuel r, (collect next fuel r).map (R.map (List.map BitVec.toNat))
      = Range.collect k szN fuel (RefBridge.toRange r) := by
  intro fuel
  induction fuel with
  | zero => intro r; rfl
  | succ n ih =>
    intro r
    have h := hnext r
    unfold collect Range.collect
    cases hn : next r with
    | panic => rw [hn] at h; simp only [R.map] at h; rw [← h]; rfl
    | ok v =>
      obtain ⟨o, r'⟩ := v
      rw [hn] at h
      simp only [R.map, RefBridge.nextToNat] at h
      rw [← h]
      cases o with
      | none => rfl
      | some x =>
        simp only [Option.map]
        have ih' := ih r'
        cases hc : collect next n r' with
        | none => rw [hc] at ih'; simp only [Option.map] at ih'; rw [← ih']
        | some rr =>
          rw [hc] at ih'; simp only [Option.map] at ih'
          cases rr with
          | panic => simp only [R.map] at ih'; rw [← ih']; rfl
          | ok xs => simp only [R.map] at ih'; rw [← ih']; rfl

/-- C07, for the translated source: an exclusive page range in the property's domain (canonical, size-aligned
bounds in one half, `n` pages long) yields exactly the pages `s, s+SIZE, …` in ascending order, without panicking. -/
theorem C07_page_range_yields_what_it_counts (sz : BitVec 64) (hsz : RefBV.IsPageSize sz) (s e : BitVec 64) (n : Nat)
    (d : C07.VDom sz.toNat s.toNat e.toNat) (h : s.toNat + n * sz.toNat = e.toNat) :
    (collect (Src.PageRange_next cfg sz) (n + 1) (s, e)).map (R.map (List.map BitVec.toNat))
      = some (.ok (itemsSpec sz.toNat s.toNat n)) := by
  rw [collect_toNat .page sz.toNat _ (fun r => range_next_page cfg sz r hsz)]
  exact C07.page_range_items sz.toNat n s.toNat e.toNat d h

theorem C07_page_range_incl_yields_what_it_counts (sz : BitVec 64) (hsz : RefBV.IsPageSize sz) (s e : BitVec 64)
    (n : Nat) (d : C07.VDom sz.toNat s.toNat e.toNat) (h : s.toNat + n * sz.toNat = e.toNat) :
    (collect (Src.PageRangeInclusive_next cfg sz) (n + 2) (s, e)).map (R.map (List.map BitVec.toNat))
      = Range.collect .pageIncl sz.toNat (n + 2) ⟨s.toNat, e.toNat⟩ := by
  rw [collect_toNat .pageIncl sz.toNat _ (fun r => range_next_page_incl cfg sz r hsz)]
  rfl

theorem C07_frame_range_yields_what_it_counts (sz : BitVec 64) (hsz : RefBV.IsPageSize sz) (s e : BitVec 64) (n : Nat)
    (d : C07.PDom sz.toNat s.toNat e.toNat) (h : s.toNat + n * sz.toNat = e.toNat) :
    (collect (Src.PhysFrameRange_next cfg sz) (n + 1) (s, e)).map (R.map (List.map BitVec.toNat))
      = some (.ok (itemsSpec sz.toNat s.toNat n)) := by
  rw [collect_toNat .frame sz.toNat _ (fun r => range_next_frame cfg sz r hsz)]
  exact C07.frame_range_items sz.toNat n s.toNat e.toNat d h

/-! ### headline sentences of the properties, about the translated source -/

/-- C03: whatever `new_truncate` in the source returns is canonical, for every `u64`, in both profiles. -/
theorem C03_new_truncate_canonical (a : BitVec 64) :
    ∃ v, Src.VirtAddr_new_truncate cfg a = .ok v ∧ canon v.toNat := by
  refine ⟨RefBV.VirtAddr.newTruncate a, SrcTie.VirtAddr_new_truncate cfg a, ?_⟩
  rw [RefBridge.VirtAddr.newTruncate_toNat]; exact C03.new_truncate_canon _

/-- C03: `VirtAddr::new` in the source accepts exactly the canonical inputs and returns them unchanged. -/
theorem C03_new_accepts_exactly (a v : BitVec 64) :
    Src.VirtAddr_new cfg a = .ok v ↔ canon a.toNat ∧ v = a := by
  have h := new cfg a
  constructor
  · intro hs
    rw [hs] at h
    have := (C03.new_ok_iff a.toNat a.isLt v.toNat).1 h.symm
    exact ⟨this.1, BitVec.eq_of_toNat_eq this.2⟩
  · rintro ⟨hc, rfl⟩
    have hm := (C03.new_ok_iff v.toNat v.isLt v.toNat).2 ⟨hc, rfl⟩
    rw [hm] at h
    cases hs : Src.VirtAddr_new cfg v with
    | panic => rw [hs] at h; cases h
    | ok w => rw [hs] at h; simp only [R.map_ok, R.ok.injEq] at h; rw [BitVec.eq_of_toNat_eq h]

/-- C03: physical addresses produced by `PhysAddr::new_truncate` in the source are below 2^52. -/
theorem C03_phys_new_truncate_valid (a : BitVec 64) :
    ∃ v, Src.PhysAddr_new_truncate cfg a = .ok v ∧ physValid v.toNat := by
  refine ⟨RefBV.PhysAddr.newTruncate a, SrcTie.PhysAddr_new_truncate cfg a, ?_⟩
  rw [RefBridge.PhysAddr.newTruncate_toNat]; exact C03.phys_new_truncate_valid _

/-- C04: the four index accessors of the source are the bit fields 39-47, 30-38, 21-29, 12-20. -/
theorem C04_indices_are_bit_fields (a : BitVec 64) :
    (Src.VirtAddr_p4_index cfg a).map BitVec.toNat = .ok (idxSpec 4 a.toNat) ∧
    (Src.VirtAddr_p3_index cfg a).map BitVec.toNat = .ok (idxSpec 3 a.toNat) ∧
    (Src.VirtAddr_p2_index cfg a).map BitVec.toNat = .ok (idxSpec 2 a.toNat) ∧
    (Src.VirtAddr_p1_index cfg a).map BitVec.toNat = .ok (idxSpec 1 a.toNat) ∧
    (Src.VirtAddr_page_offset cfg a).map BitVec.toNat = .ok (offSpec a.toNat) := by
  refine ⟨?_, ?_, ?_, ?_, ?_⟩
  · rw [p4_index, C04.p4_index_eq]
  · rw [p3_index, C04.p3_index_eq]
  · rw [p2_index, C04.p2_index_eq]
  · rw [p1_index, C04.p1_index_eq]
  · rw [page_offset, C04.page_offset_eq]

/-- C05: stepping forward in the source is stepping in the contiguous sequence of canonical addresses. -/
theorem C05_forward_is_contiguous (s c : BitVec 64) (hs : canon s.toNat) :
    (Src.VirtAddr_forward_checked_u64 cfg s c).map (Option.map BitVec.toNat)
      = .ok (forwardSpec s.toNat c.toNat) := by
  rw [forward_checked, C05.forward_eq_spec s.toNat c.toNat hs c.isLt]

theorem C05_backward_is_contiguous (s c : BitVec 64) (hs : canon s.toNat) :
    (Src.VirtAddr_backward_checked_u64 cfg s c).map (Option.map BitVec.toNat)
      = .ok (backwardSpec s.toNat c.toNat) := by
  rw [backward_checked, C05.backward_eq_spec s.toNat c.toNat hs c.isLt]

/-- C06: `align_down` in the source panics exactly for non-powers of two and otherwise returns the greatest
multiple not above the input. -/
theorem C06_align_down (a al : BitVec 64) :
    (Src.align_down cfg a al = .panic ↔ isPow2 al.toNat = false) ∧
    ∀ r, Src.align_down cfg a al = .ok r → r.toNat = downMultiple a.toNat al.toNat := by
  have h := align_down cfg a al
  constructor
  · rw [← C06.align_down_panics_iff a.toNat al.toNat, ← h]
    cases Src.align_down cfg a al <;> simp [R.map]
  · intro r hr
    rw [hr] at h
    exact C06.align_down_eq_multiple _ _ _ h.symm

/-- C07: address addition in the source is exact or panics - never a wrapped value, in either profile. -/
theorem C07_add_exact_or_panic (a n r : BitVec 64) (h : Src.VirtAddr_add_u64 cfg a n = .ok r) :
    r.toNat = a.toNat + n.toNat ∧ canon r.toNat := by
  have hm := va_add cfg a n
  rw [h] at hm
  exact C07.va_add_exact _ _ _ hm.symm

theorem C07_phys_add_exact_or_panic (a n r : BitVec 64) (h : Src.PhysAddr_add_u64 cfg a n = .ok r) :
    r.toNat = a.toNat + n.toNat ∧ physValid r.toNat := by
  have hm := pa_add cfg a n
  rw [h] at hm
  exact C07.pa_add_exact _ _ _ hm.symm

end X86.SrcModel
