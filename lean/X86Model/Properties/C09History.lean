/-
C09 at HISTORY level — the ghost log of every call of every valid history.

`Properties/C09.lean` and `Properties/C10.lean` are per-call theorems under the hypothesis `Inv s.mem p4`.
Here they are lifted to call histories (`C01HistoryFull.HOp`: `map_to`, `unmap`, `update_flags`,
`set_flags_pN_entry`, `clean_up()`, `clean_up_addr_range`): for EVERY call `op` of EVERY valid history from
the empty level-4 table (any mapper kind, any recursive index, any allocator answers honouring `AllocsOK`),
executed on the memory the history has reached (`runHistory … pre`), the log segment of the call
(`callLog`: the `events` of the state the call returns when started with the empty log, exactly as
`C01HistoryFull.exec` runs it) satisfies `CallLogOK`:

1. `touch` — every event that names a frame names a page table of the hierarchy as it is before the call
   (`IsTable`) or a frame handed out by the allocator during this very call;
2. `unchanged` — every word of every frame `d` that is neither a table before the call nor allocated during it
   has the same value after the call (no mapped data frame, no other physical memory is modified);
3. `zeroed` — every frame handed out by the allocator is linked and then written with 512 zeroes before
   anything else happens (`ZeroedAfterAlloc`; vacuous for the calls that do not allocate);
4. `bound` — `map_to` of a 1 GiB / 2 MiB / 4 KiB page makes at most 1 / 2 / 3 allocator requests and none when
   the table of the page exists; every other call makes none (`AllocBound`);
5. `noDealloc` / `cleanUp` — only clean-up calls have `dealloc` events; a clean-up call has no `alloc` event,
   consists of reads and zero-writes of page tables and deallocations, and every frame it releases was a
   table of level 3..1 of the hierarchy before the call (never the level-4 table).

Main theorems: `call_log_ok` (one call in a state with `Inv`), `history_log_from` (any valid history from a
state with `Inv`/`Rel`), `history_log` (from the empty level-4 table), `history_log_all` (the recursive
formulation `AllCallsOK`), corollaries `history_data_frame_unchanged`, `history_nonmap_other_memory_unchanged`.
No clause needed weakening; no validity condition on the clean-up range is needed for the log clauses.
-/
import X86Model.Properties.C01HistoryFull

namespace X86.C09History
open X86 X86.Spec X86.C01 X86.C01HistoryDormant X86.C01HistoryFull

/-! ### The log segment of a call -/

/-- The state a call returns when it is started on memory `m` with the empty log — exactly the run
`C01HistoryFull.exec` makes (`callSt_mem`, `callSt_cleanUp`). -/
def callSt (k : Kind) (rIdx : Nat) (p4 : Word) (m : PMem) : HOp → St
  | .call (.map parents li huge _ frame flags pflags allocs) =>
    (mapTo k (⟨m, allocs, []⟩ : St) p4 parents li huge frame flags pflags).2
  | .call (.unmap parents li huge sz) => (X86.unmap (⟨m, [], []⟩ : St) p4 parents li huge sz).2
  | .call (.update parents li huge _ flags) => (updateFlags k (⟨m, [], []⟩ : St) p4 parents li huge flags).2
  | .call (.setParent parents idx flags) => (setParentFlags k (⟨m, [], []⟩ : St) p4 parents idx flags).2
  | .cleanUp => (cleanUpAll k rIdx (⟨m, [], []⟩ : St) p4).2
  | .cleanUpRange rs re => (X86.cleanUpRange k rIdx (⟨m, [], []⟩ : St) p4 rs re).2

/-- **The log segment of the call** `op` executed on memory `m` (chronological). -/
def callLog (k : Kind) (rIdx : Nat) (p4 : Word) (m : PMem) (op : HOp) : List Ev :=
  (callSt k rIdx p4 m op).events

/-- The memory `callSt` ends in is the memory `exec` returns (so `runHistory` continues from it). -/
theorem callSt_mem (k : Kind) (rIdx : Nat) (p4 : Word) (m : PMem) (op : HOp) :
    (callSt k rIdx p4 m op).mem = (exec k rIdx p4 m op).2 := by
  cases op with
  | call op => cases op <;> simp only [callSt, C01HistoryFull.exec, C01HistoryDormant.exec]
  | cleanUp => simp only [callSt, C01HistoryFull.exec]
  | cleanUpRange rs re => simp only [callSt, C01HistoryFull.exec]

/-! ### What is claimed about a call's log -/

/-- Clause 4: allocator requests. -/
def AllocBound (p4 : Word) (m : PMem) (log : List Ev) : HOp → Prop
  | .call (.map parents _ _ sz _ _ _ _) =>
    allocCount log ≤ (if sz = 2^30 then 1 else if sz = 2^21 then 2 else 3) ∧
    ((∃ t, tblAt m p4 parents = some t) → allocCount log = 0)
  | _ => allocCount log = 0

/-- Is the call a `map_to`? -/
def _root_.X86.C01HistoryFull.HOp.isMap : HOp → Bool
  | .call (.map _ _ _ _ _ _ _ _) => true
  | _ => false

/-- **The C09 guarantee for one call** `op` of a mapper of kind `k` (recursive index `rIdx`) executed on
memory `m`. -/
structure CallLogOK (k : Kind) (rIdx : Nat) (p4 : Word) (m : PMem) (op : HOp) : Prop where
  /-- 1. only page tables (or frames allocated during this call) are read or written -/
  touch : ∀ ev ∈ callLog k rIdx p4 m op, ∀ f, ev.frame? = some f →
    IsTable m p4 f ∨ f ∈ allocatedIn (callLog k rIdx p4 m op)
  /-- 2. nothing else changes -/
  unchanged : ∀ d i, ¬ IsTable m p4 d → d ∉ allocatedIn (callLog k rIdx p4 m op) →
    (exec k rIdx p4 m op).2 d i = m d i
  /-- 3. zero before use -/
  zeroed : ZeroedAfterAlloc (callLog k rIdx p4 m op)
  /-- 4. allocation bounds -/
  bound : AllocBound p4 m (callLog k rIdx p4 m op) op
  /-- 4'. only `map_to` obtains frames -/
  onlyMapAllocs : op.isMap = false →
    allocCount (callLog k rIdx p4 m op) = 0 ∧ allocatedIn (callLog k rIdx p4 m op) = []
  /-- 5a. only clean-up releases -/
  noDealloc : op.isCleanUp = false → ∀ ev ∈ callLog k rIdx p4 m op, ev.isDealloc = false
  /-- 5b. clean-up only reads, zeroes table entries and releases tables -/
  cleanUp : op.isCleanUp = true →
    (∀ ev ∈ callLog k rIdx p4 m op, ev.isAlloc = false) ∧
    (∀ ev ∈ callLog k rIdx p4 m op,
      (∃ f j, (ev = .rd f j ∨ ev = .wr f j 0#64) ∧ IsTable m p4 f) ∨ (∃ g, ev = .dealloc g)) ∧
    (∀ g ∈ deallocsIn (callLog k rIdx p4 m op), g ≠ p4 ∧ IsTable m p4 g)

/-! ### Helpers -/

theorem events_init (m : PMem) (allocs : List (Option Word)) : (⟨m, allocs, []⟩ : St).events = [] := rfl

theorem allocatedIn_eq_nil_of_no_alloc {l : List Ev} (h : ∀ ev ∈ l, ev.isAlloc = false) : allocatedIn l = [] := by
  unfold allocatedIn
  rw [List.filterMap_eq_nil_iff]
  intro ev hev
  have := h ev hev
  cases ev <;> first | rfl | (simp [Ev.isAlloc] at this)

theorem allocCount_eq_zero_of_no_alloc {l : List Ev} (h : ∀ ev ∈ l, ev.isAlloc = false) : allocCount l = 0 := by
  unfold allocCount
  rw [List.length_eq_zero_iff, List.filter_eq_nil_iff]
  intro ev hev
  rw [h ev hev]; simp

theorem mem_deallocsIn {l : List Ev} {g : Word} : g ∈ deallocsIn l ↔ Ev.dealloc g ∈ l := by
  unfold deallocsIn
  rw [List.mem_filterMap]
  constructor
  · rintro ⟨ev, hev, h⟩
    cases ev <;> simp at h
    subst h; exact hev
  · intro h; exact ⟨_, h, rfl⟩

/-! ### One call -/

/-- A call whose log is `TableOnly` (unmap, update_flags, set_flags_pN_entry). -/
theorem of_tableOnly (k : Kind) (rIdx : Nat) (p4 : Word) (m : PMem) (op : HOp)
    (hcu : op.isCleanUp = false)
    (hb : ∀ log, allocCount log = 0 → AllocBound p4 m log op)
    (h : ∃ seg, TableOnly p4 (⟨m, [], []⟩ : St) (callSt k rIdx p4 m op) seg) :
    CallLogOK k rIdx p4 m op := by
  obtain ⟨seg, h⟩ := h
  have he : callLog k rIdx p4 m op = seg := by
    have := h.events
    rw [events_init, List.nil_append] at this
    exact this
  have hna : ∀ ev ∈ seg, ev.isAlloc = false := by
    intro ev hev
    obtain ⟨f, _, ⟨i, rfl⟩ | ⟨i, v, rfl⟩⟩ := h.touch ev hev <;> rfl
  refine ⟨?_, ?_, ?_, ?_, ?_, ?_, ?_⟩
  · rw [he]
    intro ev hev f hf
    obtain ⟨f', ht, ⟨i, rfl⟩ | ⟨i, v, rfl⟩⟩ := h.touch ev hev <;>
      (simp [Ev.frame?] at hf; subst hf; exact Or.inl ht)
  · intro d i hnt _
    rw [← callSt_mem]
    exact C09.table_only_other_memory_unchanged h d i hnt
  · rw [he]
    apply ZeroedAfterAlloc.of_noAlloc
    intro f hf
    have := hna _ hf
    simp [Ev.isAlloc] at this
  · rw [he]; exact hb seg (allocCount_eq_zero_of_no_alloc hna)
  · intro _; rw [he]
    exact ⟨allocCount_eq_zero_of_no_alloc hna, allocatedIn_eq_nil_of_no_alloc hna⟩
  · intro _; rw [he]; exact h.noAlloc.2
  · intro hc; rw [hcu] at hc; cases hc

/-- A clean-up call (any range arguments). -/
theorem of_cleanUp (k : Kind) (rIdx : Nat) (p4 : Word) (m : PMem) (op : HOp) (rs re : Nat)
    (hinv : Inv m p4) (hcu : op.isCleanUp = true)
    (hb : ∀ log, allocCount log = 0 → AllocBound p4 m log op)
    (hst : callSt k rIdx p4 m op = (X86.cleanUpRange k rIdx (⟨m, [], []⟩ : St) p4 rs re).2) :
    CallLogOK k rIdx p4 m op := by
  obtain ⟨seg, he0, _, hshape⟩ := C10.clean_up_log_shape k rIdx (⟨m, [], []⟩ : St) p4 rs re hinv
  obtain ⟨seg', he0', hfreed⟩ := C10.clean_up_frees_only_empty_unlinked_tables k rIdx (⟨m, [], []⟩ : St) p4 rs re hinv
  rw [events_init, List.nil_append] at he0 he0'
  have he : callLog k rIdx p4 m op = seg := by unfold callLog; rw [hst]; exact he0
  have he' : seg' = seg := by rw [← he0', he0]
  subst he'
  have hna : ∀ ev ∈ seg', ev.isAlloc = false := by
    intro ev hev
    rcases hshape ev hev with ⟨f, j, h | h, _⟩ | ⟨g, h⟩ <;> (subst h; rfl)
  refine ⟨?_, ?_, ?_, ?_, ?_, ?_, ?_⟩
  · rw [he]
    intro ev hev f hf
    rcases hshape ev hev with ⟨f', j, h | h, ht⟩ | ⟨g, h⟩ <;> subst h
    · simp [Ev.frame?] at hf; subst hf; exact Or.inl ht
    · simp [Ev.frame?] at hf; subst hf; exact Or.inl ht
    · simp [Ev.frame?] at hf
  · intro d i hnt _
    rw [← callSt_mem, hst]
    apply Classical.byContradiction
    intro hne
    exact hnt (C10.clean_up_only_zeroes_table_entries k rIdx (⟨m, [], []⟩ : St) p4 rs re hinv d i hne).2
  · rw [he]
    apply ZeroedAfterAlloc.of_noAlloc
    intro f hf
    have := hna _ hf
    simp [Ev.isAlloc] at this
  · rw [he]; exact hb seg' (allocCount_eq_zero_of_no_alloc hna)
  · intro _; rw [he]
    exact ⟨allocCount_eq_zero_of_no_alloc hna, allocatedIn_eq_nil_of_no_alloc hna⟩
  · intro hc; rw [hcu] at hc; cases hc
  · intro _
    rw [he]
    refine ⟨hna, hshape, ?_⟩
    intro g hg
    obtain ⟨hne, q, _, hq, hqi, hgt, _⟩ := hfreed g hg
    exact ⟨hne, q, hq, hqi, hgt⟩

/-- A `map_to` call. -/
theorem of_map (k : Kind) (rIdx : Nat) (p4 : Word) (m : PMem) (parents : List Nat) (li : Nat) (huge : Bool)
    (sz : Nat) (frame flags pflags : Word) (allocs : List (Option Word)) (hinv : Inv m p4)
    (hv : ValidD p4 m (.map parents li huge sz frame flags pflags allocs)) :
    CallLogOK k rIdx p4 m (.call (.map parents li huge sz frame flags pflags allocs)) := by
  obtain ⟨sh, hpi, _, hpf, hfl, hfr, hal⟩ := hv
  have hal4 : Pte.aligned4K frame = true := (leafWord_facts sh frame flags hfl hfr).2.1
  have hlog : ∃ seg, C09.MapLog p4 (⟨m, allocs, []⟩ : St)
      (mapTo k (⟨m, allocs, []⟩ : St) p4 parents li huge frame flags pflags).2 seg parents.length := by
    have h := C09.map_to_log k (⟨m, allocs, []⟩ : St) p4 parents li huge sz frame flags pflags sh hinv hpi hpf hal
    cases hc : mapTo k (⟨m, allocs, []⟩ : St) p4 parents li huge frame flags pflags with
    | mk res s' =>
      rw [hc] at h
      cases res with
      | panic => simp only at h; rw [hal4] at h; cases h
      | ok r => exact h
  obtain ⟨seg, hl⟩ := hlog
  have he : callLog k rIdx p4 m (.call (.map parents li huge sz frame flags pflags allocs)) = seg := by
    have := hl.events
    rw [events_init, List.nil_append] at this
    exact this
  refine ⟨?_, ?_, ?_, ?_, ?_, ?_, ?_⟩
  · rw [he]; exact hl.touch
  · rw [he]
    intro d i hnt hna
    exact C09.map_to_other_memory_unchanged hl d i hnt hna
  · rw [he]; exact hl.zeroed
  · rw [he]
    refine ⟨C09.map_to_alloc_bound sh hl, ?_⟩
    rintro ⟨t, ht⟩
    obtain ⟨seg', he', hc, _⟩ := C09.map_to_no_alloc_when_tables_exist k (⟨m, allocs, []⟩ : St) p4 parents li huge sz
      frame flags pflags t sh hinv hpi hpf ht
    rw [events_init, List.nil_append] at he'
    have : seg' = seg := by rw [← he', hl.events, events_init, List.nil_append]
    rw [← this]; exact hc
  · intro h; cases h
  · intro _; rw [he]; exact hl.nodealloc
  · intro h; cases h

/-- **One call**: in a state satisfying the hierarchy invariant, every valid call's log satisfies
`CallLogOK`. -/
theorem call_log_ok (k : Kind) (rIdx : Nat) (p4 : Word) (m : PMem) (op : HOp)
    (hinv : Inv m p4) (hv : Valid p4 m op) : CallLogOK k rIdx p4 m op := by
  have hk : KindOK k (⟨m, [], []⟩ : St).mem p4 := fun _ => hinv.pres
  cases op with
  | call op =>
    cases op with
    | map parents li huge sz frame flags pflags allocs =>
      exact of_map k rIdx p4 m parents li huge sz frame flags pflags allocs hinv hv
    | unmap parents li huge sz =>
      obtain ⟨sh, hpi⟩ := hv
      exact of_tableOnly k rIdx p4 m _ rfl (fun _ h => h)
        (C09.unmap_log (⟨m, [], []⟩ : St) p4 parents li huge sz sh.len_le.2 hpi)
    | update parents li huge sz flags =>
      obtain ⟨sh, hpi, _, _⟩ := hv
      exact of_tableOnly k rIdx p4 m _ rfl (fun _ h => h)
        (C09.update_flags_log k (⟨m, [], []⟩ : St) p4 parents li huge flags hk sh.len_le.2 hpi)
    | setParent parents idx flags =>
      obtain ⟨hlen, hpi, _, _⟩ := hv
      exact of_tableOnly k rIdx p4 m _ rfl (fun _ h => h)
        (C09.set_parent_flags_log k (⟨m, [], []⟩ : St) p4 parents idx flags hk (by omega) hpi)
  | cleanUp =>
    exact of_cleanUp k rIdx p4 m _ 0 0xfffffffffffff000 hinv rfl (fun _ h => h) rfl
  | cleanUpRange rs re =>
    exact of_cleanUp k rIdx p4 m _ rs re hinv rfl (fun _ h => h) rfl

/-! ### Histories -/

/-- **C09 along histories** (no bound on the length; all page sizes; any mapper kind and recursive index; any
allocator answers honouring the contract; clean-up calls included): from any state `m` satisfying the invariant
whose leaf slots are the records of `a`, for EVERY call `op` of EVERY valid history `ops` — i.e. for every
decomposition `ops = pre ++ op :: post` — the call, executed on the memory `runHistory … m pre` the history has
reached, is valid there, that memory satisfies the invariant, and the call's log satisfies `CallLogOK`. -/
theorem history_log_from (k : Kind) (rIdx : Nat) (p4 : Word) :
    ∀ (pre : List HOp) (ops : List HOp) (m : PMem) (a : Abs), Inv m p4 → Rel p4 m a →
      HistoryValid k rIdx p4 m ops → ∀ (op : HOp) (post : List HOp), ops = pre ++ op :: post →
      Inv (runHistory k rIdx p4 m pre) p4 ∧ Valid p4 (runHistory k rIdx p4 m pre) op ∧
      CallLogOK k rIdx p4 (runHistory k rIdx p4 m pre) op := by
  intro pre
  induction pre with
  | nil =>
    intro ops m a hinv _ hv op post hops
    subst hops
    exact ⟨hinv, hv.1, call_log_ok k rIdx p4 m op hinv hv.1⟩
  | cons x pre ih =>
    intro ops m a hinv hrel hv op post hops
    subst hops
    obtain ⟨hvx, hrest⟩ := hv
    obtain ⟨hi', hr'⟩ := step_ok k rIdx p4 m a x hinv hrel hvx
    exact ih (pre ++ op :: post) _ _ hi' hr' hrest op post rfl

/-- **C09, history theorem**: for every valid history `ops` from the empty level-4 table (`m p4 i = 0` for all
`i`; the rest of `m` is arbitrary — it may hold data), every mapper kind `k`, every recursive index, every
allocator behaviour allowed by `Valid` (`AllocsOK`), and for every call `op` of the history
(`ops = pre ++ op :: post`): `CallLogOK` holds for `op` executed on the memory reached after `pre`. -/
theorem history_log (k : Kind) (rIdx : Nat) (p4 : Word) (m : PMem) (hzero : ∀ i, m p4 i = 0#64)
    (ops : List HOp) (hv : HistoryValid k rIdx p4 m ops)
    (pre : List HOp) (op : HOp) (post : List HOp) (hops : ops = pre ++ op :: post) :
    CallLogOK k rIdx p4 (runHistory k rIdx p4 m pre) op :=
  (history_log_from k rIdx p4 pre ops m [] (init_inv m p4 hzero) (Rel.init p4 m hzero) hv op post hops).2.2

/-- The same as a recursive predicate over the history: every call, in the state it is made in. -/
def AllCallsOK (k : Kind) (rIdx : Nat) (p4 : Word) : PMem → List HOp → Prop
  | _, [] => True
  | m, op :: rest => CallLogOK k rIdx p4 m op ∧ AllCallsOK k rIdx p4 (exec k rIdx p4 m op).2 rest

theorem history_log_all_from (k : Kind) (rIdx : Nat) (p4 : Word) (ops : List HOp) :
    ∀ (m : PMem) (a : Abs), Inv m p4 → Rel p4 m a → HistoryValid k rIdx p4 m ops → AllCallsOK k rIdx p4 m ops := by
  induction ops with
  | nil => intro m a _ _ _; trivial
  | cons op rest ih =>
    intro m a hinv hrel ⟨hv, hrest⟩
    obtain ⟨hi', hr'⟩ := step_ok k rIdx p4 m a op hinv hrel hv
    exact ⟨call_log_ok k rIdx p4 m op hinv hv, ih _ _ hi' hr' hrest⟩

/-- **C09, history theorem, recursive formulation** (from the empty level-4 table). -/
theorem history_log_all (k : Kind) (rIdx : Nat) (p4 : Word) (m : PMem) (hzero : ∀ i, m p4 i = 0#64)
    (ops : List HOp) (hv : HistoryValid k rIdx p4 m ops) : AllCallsOK k rIdx p4 m ops :=
  history_log_all_from k rIdx p4 ops m [] (init_inv m p4 hzero) (Rel.init p4 m hzero) hv

/-! ### Corollaries in plain words -/

/-- **No mapped data frame and no other physical memory is ever modified**: along any valid history from the
empty level-4 table, a frame `d` that is not a page table of the hierarchy when a call is made and is not handed
out by the allocator during that call holds the same 512 (indeed all) words after the call. -/
theorem history_data_frame_unchanged (k : Kind) (rIdx : Nat) (p4 : Word) (m : PMem) (hzero : ∀ i, m p4 i = 0#64)
    (ops : List HOp) (hv : HistoryValid k rIdx p4 m ops)
    (pre : List HOp) (op : HOp) (post : List HOp) (hops : ops = pre ++ op :: post)
    (d : Word) (hnt : ¬ IsTable (runHistory k rIdx p4 m pre) p4 d)
    (hna : d ∉ allocatedIn (callLog k rIdx p4 (runHistory k rIdx p4 m pre) op)) (i : Nat) :
    runHistory k rIdx p4 m (pre ++ [op]) d i = runHistory k rIdx p4 m pre d i := by
  have h := (history_log k rIdx p4 m hzero ops hv pre op post hops).unchanged d i hnt hna
  rw [runHistory_append]
  exact h

/-- For every call other than `map_to` (unmap, update_flags, set_flags_pN_entry, clean-up) the allocator hands
out nothing, so every frame that is not a page table before the call is unchanged. -/
theorem history_nonmap_other_memory_unchanged (k : Kind) (rIdx : Nat) (p4 : Word) (m : PMem)
    (hzero : ∀ i, m p4 i = 0#64) (ops : List HOp) (hv : HistoryValid k rIdx p4 m ops)
    (pre : List HOp) (op : HOp) (post : List HOp) (hops : ops = pre ++ op :: post) (hnm : op.isMap = false)
    (d : Word) (hnt : ¬ IsTable (runHistory k rIdx p4 m pre) p4 d) (i : Nat) :
    runHistory k rIdx p4 m (pre ++ [op]) d i = runHistory k rIdx p4 m pre d i := by
  have h := history_log k rIdx p4 m hzero ops hv pre op post hops
  refine history_data_frame_unchanged k rIdx p4 m hzero ops hv pre op post hops d hnt ?_ i
  rw [(h.onlyMapAllocs hnm).2]; simp

/-- The allocation bound of clause 4 spelled out for the three page sizes. -/
theorem history_map_alloc_bound (k : Kind) (rIdx : Nat) (p4 : Word) (m : PMem) (hzero : ∀ i, m p4 i = 0#64)
    (ops : List HOp) (hv : HistoryValid k rIdx p4 m ops)
    (pre post : List HOp) (parents : List Nat) (li : Nat) (huge : Bool) (sz : Nat) (frame flags pflags : Word)
    (allocs : List (Option Word))
    (hops : ops = pre ++ .call (.map parents li huge sz frame flags pflags allocs) :: post) :
    let log := callLog k rIdx p4 (runHistory k rIdx p4 m pre) (.call (.map parents li huge sz frame flags pflags allocs))
    (sz = 2^30 → allocCount log ≤ 1) ∧ (sz = 2^21 → allocCount log ≤ 2) ∧ allocCount log ≤ 3 ∧
    ((∃ t, tblAt (runHistory k rIdx p4 m pre) p4 parents = some t) → allocCount log = 0) ∧
    (∀ ev ∈ log, ev.isDealloc = false) ∧ ZeroedAfterAlloc log := by
  intro log
  have h := history_log k rIdx p4 m hzero ops hv pre _ post hops
  obtain ⟨hb, hex⟩ := h.bound
  refine ⟨?_, ?_, ?_, hex, h.noDealloc rfl, h.zeroed⟩
  · intro hs; rw [if_pos hs] at hb; exact hb
  · intro hs
    have : ¬ sz = 2^30 := by omega
    rw [if_neg this, if_pos hs] at hb; exact hb
  · show allocCount log ≤ 3
    have hb' : allocCount log ≤ (if sz = 2^30 then 1 else if sz = 2^21 then 2 else 3) := hb
    split at hb'
    · omega
    · split at hb' <;> omega

/-! ### Non-vacuity: the demo history of `C01HistoryFull` (map, unmap, clean-up, map, clean-up)

`demoOps = [opA, opU, .cleanUp, opB, .cleanUp]` from the all-zero memory `m0` with the level-4 table at `0x1000`
is a valid history (`C01HistoryFull.demo_valid`), so the theorem applies to each of its five calls. -/

/-- the hypotheses are satisfiable, and the theorem applies to every call of the demo history -/
example : AllCallsOK ⟨false⟩ 0 0x1000#64 m0 demoOps :=
  history_log_all ⟨false⟩ 0 0x1000#64 m0 (fun _ => rfl) demoOps demo_valid

/-- call 3 (`clean_up()` after map + unmap), as an instance of `history_log` -/
example : CallLogOK ⟨false⟩ 0 0x1000#64 (runHistory ⟨false⟩ 0 0x1000#64 m0 [opA, opU]) .cleanUp :=
  history_log ⟨false⟩ 0 0x1000#64 m0 (fun _ => rfl) demoOps demo_valid [opA, opU] .cleanUp [opB, .cleanUp] rfl

set_option maxRecDepth 1000000 in
/-- **the concrete log of call 1** (`map_to` of the 4 KiB page `[0,0,0]/5` into the empty hierarchy): three
allocator requests (`0x2000`, `0x3000`, `0x4000`), each followed by the link and the 512 zeroing writes, then the
slot is read and the leaf written — 3·(1+1+1+512) + 2 events, no deallocation. -/
example :
    let log := callLog ⟨false⟩ 0 0x1000#64 (runHistory ⟨false⟩ 0 0x1000#64 m0 []) opA
    allocCount log = 3 ∧ allocatedIn log = [0x2000#64, 0x3000#64, 0x4000#64] ∧ log.length = 3 * 515 + 2 ∧
    log.take 4 = [.rd 0x1000#64 0, .alloc (some 0x2000#64), .wr 0x1000#64 0 0x2003#64, .wr 0x2000#64 0 0#64] ∧
    (log.drop 515).take 3 = [.rd 0x2000#64 0, .alloc (some 0x3000#64), .wr 0x2000#64 0 0x3003#64] ∧
    log.drop 1545 = [.rd 0x4000#64 5, .wr 0x4000#64 5 0x5003#64] ∧
    deallocsIn log = [] := by
  decide +kernel

/-- **the concrete log of call 3** (`clean_up()` on the memory reached after `map_to`, `unmap`): no allocator
request; the three empty tables are released bottom-up — each of them a table of the hierarchy before the call,
as clause 5 says. -/
example :
    let log := callLog ⟨false⟩ 0 0x1000#64 (runHistory ⟨false⟩ 0 0x1000#64 m0 [opA, opU]) .cleanUp
    deallocsIn log = [0x4000#64, 0x3000#64, 0x2000#64] ∧
    (∀ g ∈ deallocsIn log, g ≠ 0x1000#64 ∧ IsTable (runHistory ⟨false⟩ 0 0x1000#64 m0 [opA, opU]) 0x1000#64 g) ∧
    allocCount log = 0 := by
  intro log
  have hok := history_log ⟨false⟩ 0 0x1000#64 m0 (fun _ => rfl) demoOps demo_valid [opA, opU] .cleanUp [opB, .cleanUp] rfl
  have hm : runHistory ⟨false⟩ 0 0x1000#64 m0 [opA, opU] = mU := by
    rw [runHistory_cons, demo_exec1, runHistory_cons]
    show (exec ⟨false⟩ 0 0x1000#64 mA opU).2 = mU
    rw [demo_exec2]
  refine ⟨?_, (hok.cleanUp rfl).2.2, (hok.onlyMapAllocs rfl).1⟩
  show deallocsIn (callLog ⟨false⟩ 0 0x1000#64 (runHistory ⟨false⟩ 0 0x1000#64 m0 [opA, opU]) .cleanUp) = _
  rw [hm]
  exact demo_clean3_eval.2.2.2.2

end X86.C09History
