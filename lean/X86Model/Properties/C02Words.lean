/-
C02 / C01 — the word-level frame condition of `map_to`: WHAT a changed word may become.

`C09.map_to_log` / `C10History.FailedCallOK` say WHERE `map_to` may change memory (old page tables, frames handed
out by the allocator during the call). This file says what the changed words ARE, for every mapper kind, page
size, parent-flag set, allocator answer sequence honouring the contract, and every result (success, page already
mapped, huge parent, allocation failure at the 1st/2nd/3rd request). With `A` the frames handed out during the
call (`allocatedIn seg`, `s'.events = s.events ++ seg`), every word `(f, i)` with `s'.mem f i ≠ s.mem f i` is of
one of these kinds (`MapWord`, `PathWord`):
 (A) `f ∈ A`, a new table: the word is zero afterwards (`newZero`), or it is the entry on the page's path and links
     the next new table with `linkFl k pflags` (`newLink`), or — success only — it is the page's slot and holds the
     leaf word (`newLeaf`);
 (B) `link`: `f ∉ A` is the table at `parents.take j` (in the OLD memory), `i = parents[j]`, the entry was ZERO and
     is now `Pte.mk g (linkFl k pflags)` with `g ∈ A` the table at `parents.take (j+1)` afterwards
     (`linkFl k pflags = PRESENT ||| pflags`, recursive kind `PRESENT ||| WRITABLE ||| pflags`);
 (C) `addFlags`: `f ∉ A` is the table at `parents.take j`, `i = parents[j]`, the entry was a table link (non-zero,
     present, not huge) and is now `Pte.setFlags old (Pte.flags old ||| pflags)`, which is `old ||| pflags`
     (`orFlags_facts`, `addFlags_word`: same `tableAddr`, `old &&& new = old`, `new &&& pflags = pflags`);
 (D) `leaf` — success only: `f ∉ A` is the table at `parents`, `i = li`, the slot was ZERO and now holds
     `leafWord huge frame flags`.
The kinds are mutually exclusive: (A) vs the rest by `f ∈ A` (`MapFacts.fresh`: no frame of `A` was a table before),
(B) vs (C) by `old = 0`, (D) vs (B)/(C) by `leaf_slot_not_parent_entry`. (No separate "exactly one" theorem is
stated; within (A) the sub-kinds are separated by the value, and `newLink`/`newLeaf` name the ONE path entry of the
new table because a table has one path — `Inv.wf` of the memory afterwards.)

FINDING (the model, like the crate, does not always rewrite): `create_next_table` writes an existing entry only if
`pflags != 0 && !entry.flags().contains(pflags)`. The classification above is nevertheless TRUE as written, because
in the other case `setFlags old (flags old ||| pflags) = old` (`orFlags_noop`): `createNextTable_shape` therefore
describes the memory after a step on an existing link uniformly as `m.set tbl i (old ||| pflags)`. Concrete
evaluation: the `example` with the three logs near the end (flags already contained / `pflags = 0`: reads only;
an additional flag: `wr … (old ||| pflags)`). Nothing had to be weakened.

Main theorems
* `createNextTable_shape`, `createNextTable_step` — one step of the descent: exact memory afterwards.
* `createPath_words` — the descent: `PathFacts` (tables persist; tree = old tables + `A`; changed words are
  `PathWord`s; every entry the descent passed is `EntryDone`).
* `map_to_words` — `map_to`, whatever the result: `MapFacts` (no panic; `fresh`; `words`; `failed`; `done`; `leaf`).
* Corollary 1: `map_to_failed_words` (a failed call changes only (A), (B), (C); a changed non-zero word of an old
  table is `old ||| pflags` with the same address), `MapFacts.old_nonzero` (the same for any result).
* Corollary 2: `map_to_parent_flags` (every parent entry the call passed contains `pflags` — on success: every
  parent entry of the page; no word of a table that existed before lost a bit), `EntryDone.contains`,
  `EntryDone.keeps`, `MapFacts.keeps_bits`.
* Corollary 3: `set_parent_flags_words`, `update_flags_words` (any mapper kind), `unmap_words` — restated from
  `setParentFlags_mem` / `updateFlags_mem` / `unmap_mem`: exactly one word changes.
* Corollary 4: `history_map_words`, `history_failed_map_words` — every `map_to` call of every valid history from
  the empty level-4 table, in the state the history has reached, with `A = allocatedIn (C09History.callLog …)`.
* Examples: fresh 3-table map (`opA`), second map with more parent flags (`opC`, kind (C)), failed map that has
  written (`C10History.opF`, kind (B)).
Not done: history-level restatements of Corollary 3 (they are the per-call theorems at `runHistory … pre`, whose
invariant `C10History.history_inv_valid` provides); a packaged "exactly one kind" statement (see above).
-/
import X86Model.Properties.C10History

namespace X86.C02Words
open X86 X86.Spec X86.C01 X86.C01HistoryDormant X86.C01HistoryFull

/-! ### Bit-level facts -/

/-- Adding the parent flags to an existing table link is `old ||| pflags`: same address, no flag removed, all
requested flags set. -/
theorem orFlags_facts (e pflags : Word) (hpf : ParentFlagsOK pflags) :
    Pte.setFlags e (Pte.flags e ||| pflags) = e ||| pflags ∧
    tableAddr (Pte.setFlags e (Pte.flags e ||| pflags)) = tableAddr e ∧
    Pte.addr (Pte.setFlags e (Pte.flags e ||| pflags)) = Pte.addr e ∧
    Pte.flags e &&& Pte.flags (Pte.setFlags e (Pte.flags e ||| pflags)) = Pte.flags e ∧
    e &&& Pte.setFlags e (Pte.flags e ||| pflags) = e ∧
    Pte.setFlags e (Pte.flags e ||| pflags) &&& pflags = pflags ∧
    Pte.contains (Pte.setFlags e (Pte.flags e ||| pflags)) pflags = true := by
  obtain ⟨h2, h3⟩ := hpf
  unfold tableAddr Pte.contains Pte.setFlags Pte.flags Pte.addr Pte.ADDR_MASK Pte.FLAGS_ALL
  unfold Word at *
  refine ⟨?_, ?_, ?_, ?_, ?_, ?_, ?_⟩ <;> bv_decide

/-- The model does not rewrite an entry when `pflags = 0` or the entry already contains `pflags`; in that case
`old ||| pflags` is `old`, so "the entry becomes `setFlags old (flags old ||| pflags)`" is true of every entry
the descent passes. -/
theorem orFlags_noop (e pflags : Word) (h : (pflags != 0#64 && !Pte.contains e pflags) = false) :
    Pte.setFlags e (Pte.flags e ||| pflags) = e := by
  unfold Pte.contains Pte.setFlags Pte.flags Pte.addr Pte.ADDR_MASK Pte.FLAGS_ALL at *
  unfold Word at *
  bv_decide

/-- The word linking a new table contains the requested parent flags. -/
theorem link_contains (k : Kind) (g pflags : Word) (hpf : ParentFlagsOK pflags) :
    Pte.mk g (linkFl k pflags) &&& pflags = pflags ∧ Pte.contains (Pte.mk g (linkFl k pflags)) pflags = true := by
  obtain ⟨h2, h3⟩ := hpf
  unfold Pte.contains Pte.mk linkFl Pte.flags Pte.FLAGS_ALL Pte.PRESENT Pte.WRITABLE
  cases k.recursive
  · simp only [Bool.false_eq_true, if_false]
    unfold Word at *
    refine ⟨?_, ?_⟩ <;> bv_decide
  · simp only [if_true]
    unfold Word at *
    refine ⟨?_, ?_⟩ <;> bv_decide

theorem AllocsOK_fresh (m : PMem) (p4 : Word) : ∀ (l : List (Option Word)) (g : Word),
    AllocsOK m p4 l → some g ∈ l → FreshAt m p4 g := by
  intro l
  induction l with
  | nil => intro g _ h; cases h
  | cons a l ih =>
    intro g h hg
    cases a with
    | none =>
      rcases List.mem_cons.1 hg with h' | h'
      · cases h'
      · exact ih g h h'
    | some a =>
      obtain ⟨h1, _, h3⟩ := h
      rcases List.mem_cons.1 hg with h' | h'
      · cases h'; exact h1
      · exact ih g h3 h'

theorem set_self (m : PMem) (f : Word) (i : Nat) : m.set f i (m f i) = m := by
  funext f' i'
  unfold PMem.set
  by_cases h : f' = f ∧ i' = i
  · rw [if_pos h, h.1, h.2]
  · rw [if_neg h]

/-! ### One step of the descent: the exact memory afterwards -/

/-- **`create_next_table`, exact outcome** (hypotheses of `createNextTable_ok`): either it fails and memory is
untouched (the entry is zero and the allocator refused, or the entry is a huge page); or the entry was zero and
the memory is `linked` (the entry links the allocated frame `f` with `linkFl k pflags`, `f` is zeroed); or the
entry was a table link and becomes `setFlags old (flags old ||| pflags)` (`= old ||| pflags`; not rewritten at
all when that equals `old`). -/
theorem createNextTable_shape (k : Kind) (s : St) (p4 : Word) (r : List Nat) (tbl : Word) (i : Nat) (pflags : Word)
    (hinv : Inv s.mem p4) (hr : tblAt s.mem p4 r = some tbl) (hrl : r.length ≤ 2) (hri : IdxOK r)
    (hi : i < 512) (hpf : ParentFlagsOK pflags) (hal : AllocsOK s.mem p4 s.allocs) :
    ∃ res s' seg, createNextTable k s tbl i pflags = (res, s') ∧ s'.events = s.events ++ seg ∧
      ((tableOf (s.mem tbl i) = none ∧ (∃ e, res = .ok (.error e)) ∧ s'.mem = s.mem ∧ allocatedIn seg = []) ∨
       (s.mem tbl i = 0#64 ∧ ∃ f rest, s.allocs = some f :: rest ∧ s'.allocs = rest ∧ res = .ok (.ok f) ∧
          s'.mem = linked s.mem tbl i f (linkFl k pflags) ∧ allocatedIn seg = [f]) ∨
       (s.mem tbl i ≠ 0#64 ∧ Pte.present (s.mem tbl i) = true ∧ Pte.huge (s.mem tbl i) = false ∧
          s'.allocs = s.allocs ∧ res = .ok (.ok (Pte.addr (s.mem tbl i))) ∧
          s'.mem = s.mem.set tbl i (Pte.setFlags (s.mem tbl i) (Pte.flags (s.mem tbl i) ||| pflags)) ∧
          allocatedIn seg = [])) := by
  have hto0 : tableOf (0#64 : Word) = none := by decide
  unfold createNextTable
  simp only [St.rd_fst]
  by_cases hu : Pte.isUnused (s.mem tbl i) = true
  · have hzero : s.mem tbl i = 0#64 := by simpa [Pte.isUnused] using hu
    simp only [hu, if_true]
    cases hall : s.allocs with
    | nil =>
      simp only [St.alloc, St.rd, hall]
      refine ⟨_, _, [.rd tbl i, .alloc none], rfl, by simp [St.events], Or.inl ⟨by rw [hzero]; exact hto0, ⟨_, rfl⟩, rfl, rfl⟩⟩
    | cons a rest =>
      cases a with
      | none =>
        simp only [St.alloc, St.rd, hall]
        refine ⟨_, _, [.rd tbl i, .alloc none], rfl, by simp [St.events], Or.inl ⟨by rw [hzero]; exact hto0, ⟨_, rfl⟩, rfl, rfl⟩⟩
      | some f =>
        rw [hall] at hal
        obtain ⟨hfresh, hdist, hrest⟩ := hal
        have hlf := linkFl_ok k pflags hpf
        obtain ⟨b1, b2, b3, b4, b5⟩ := link_bits f (linkFl k pflags) hfresh.fits hlf
        have hnt : nextTable (Pte.mk f (linkFl k pflags)) = .ok f := by
          rw [nextTable_ok_iff]; exact (tableOf_some_iff _ _).2 ⟨b1, b2, b3.symm⟩
        simp only [St.alloc, St.rd, hall]
        have hfl : (if k.recursive = true then Pte.PRESENT ||| Pte.WRITABLE ||| pflags else Pte.PRESENT ||| pflags) = linkFl k pflags := rfl
        simp only [hfl, b4, Bool.not_true, Bool.false_eq_true, if_false, hnt]
        refine ⟨_, _, [.rd tbl i, .alloc (some f), .wr tbl i (Pte.mk f (linkFl k pflags))] ++ zeroEvs f, rfl, ?_,
          Or.inr (Or.inl ⟨hzero, f, rest, rfl, ?_, rfl, ?_, ?_⟩)⟩
        · rw [St.events_zeroTable, St.events_wr]; simp [St.events]
        · simp only [St.zeroTable_allocs, St.wr_allocs]
        · rw [St.zeroTable_mem, St.wr_mem]; rfl
        · rw [allocatedIn_append, allocatedIn_zeroEvs]; rfl
  · have hu' : Pte.isUnused (s.mem tbl i) = false := by simpa using hu
    have hne : s.mem tbl i ≠ 0#64 := by
      intro h0; rw [h0] at hu'; simp [Pte.isUnused] at hu'
    simp only [hu', Bool.false_eq_true, if_false]
    by_cases hh : Pte.huge (s.mem tbl i) = true
    · simp only [hh, if_true]
      refine ⟨_, _, [.rd tbl i], rfl, by simp, Or.inl ⟨?_, ⟨_, rfl⟩, rfl, rfl⟩⟩
      unfold tableOf; simp [hh]
    · have hS : Pte.huge (s.mem tbl i) = false := by simpa using hh
      have hP : Pte.present (s.mem tbl i) = true := hinv.present_of_not_huge r tbl i hrl hri hr hi hne hS
      simp only [hS, Bool.false_eq_true, if_false]
      have hnt0 : nextTable (s.mem tbl i) = .ok (Pte.addr (s.mem tbl i)) := by
        unfold nextTable; simp [hS, hP]
      by_cases hc : (pflags != 0#64 && !Pte.contains (s.mem tbl i) pflags) = true
      · simp only [hc, if_true]
        obtain ⟨b1, b2, b3⟩ := or_flags_bits (s.mem tbl i) pflags hP hS hpf
        have hnt : nextTable (Pte.setFlags (s.mem tbl i) (Pte.flags (s.mem tbl i) ||| pflags)) =
            .ok (Pte.addr (s.mem tbl i)) := by
          rw [nextTable_ok_iff]; exact (tableOf_some_iff _ _).2 ⟨b1, b2, by rw [b3]; rfl⟩
        simp only [hnt]
        exact ⟨_, _, [.rd tbl i, .wr tbl i (Pte.setFlags (s.mem tbl i) (Pte.flags (s.mem tbl i) ||| pflags))], rfl,
          by simp, Or.inr (Or.inr ⟨hne, hP, trivial, rfl, rfl, rfl, rfl⟩)⟩
      · have hc' : (pflags != 0#64 && !Pte.contains (s.mem tbl i) pflags) = false := by simpa using hc
        simp only [hc, Bool.false_eq_true, if_false, hnt0]
        refine ⟨_, _, [.rd tbl i], rfl, by simp, Or.inr (Or.inr ⟨hne, hP, trivial, rfl, rfl, ?_, rfl⟩)⟩
        rw [orFlags_noop _ _ hc']
        exact (set_self s.mem tbl i).symm

/-! ### Paths -/

/-- `(f, i)` is the parent entry at depth `j` of the page's path (below the table at path `r`) in memory `m`:
`f` is the table at `r ++ parents.take j`, `i = parents[j]`. -/
def OnPath (m : PMem) (p4 : Word) (r parents : List Nat) (j : Nat) (f : Word) (i : Nat) : Prop :=
  tblAt m p4 (r ++ parents.take j) = some f ∧ parents[j]? = some i

theorem take_path (r : List Nat) (i0 : Nat) (rest : List Nat) (j : Nat) :
    (r ++ [i0]) ++ rest.take j = r ++ (i0 :: rest).take (j + 1) := by simp

theorem OnPath.shift {m : PMem} {p4 : Word} {r : List Nat} {i0 : Nat} {rest : List Nat} {j : Nat} {f : Word} {i : Nat}
    (h : OnPath m p4 (r ++ [i0]) rest j f i) : OnPath m p4 r (i0 :: rest) (j + 1) f i :=
  ⟨by rw [← take_path]; exact h.1, by simpa using h.2⟩

theorem path_ok {r parents : List Nat} (hlen : r.length + parents.length ≤ 3) (hidx : IdxOK (r ++ parents)) (j : Nat) :
    (r ++ parents.take j).length ≤ 3 ∧ IdxOK (r ++ parents.take j) := by
  refine ⟨by simp; omega, IdxOK_append.2 ⟨(IdxOK_append.1 hidx).1, fun x hx => (IdxOK_append.1 hidx).2 x (List.mem_of_mem_take hx)⟩⟩

theorem idx_lt {r parents : List Nat} (hidx : IdxOK (r ++ parents)) {j i : Nat} (h : parents[j]? = some i) : i < 512 :=
  (IdxOK_append.1 hidx).2 i (List.mem_of_getElem? h)

/-! ### The classification of changed words (descent through the parent tables) -/

/-- **Kinds of words the descent of `map_to` may change** (`m` before, `m'` after, `A` the frames handed out by the
allocator during the descent, the page's parent path `parents` below the table at path `r`):
* `newZero`  (A)  — a word of a newly allocated table, zero afterwards;
* `newLink`  (A/B) — the entry on the page's path of a newly allocated table, linking the next newly allocated table;
* `link`     (B)  — the entry on the page's path of a table that existed before: it was ZERO and now links a newly
  allocated table `g` with the flags `linkFl k pflags` (`PRESENT ||| pflags`; recursive kind
  `PRESENT ||| WRITABLE ||| pflags`);
* `addFlags` (C)  — the entry on the page's path of a table that existed before: it was a table link (non-zero,
  present, not huge) and is now `setFlags old (flags old ||| pflags)` (`= old ||| pflags`, `orFlags_facts`). -/
inductive PathWord (k : Kind) (pflags p4 : Word) (m m' : PMem) (r parents : List Nat) (A : List Word)
    (f : Word) (i : Nat) : Prop
  | newZero (hA : f ∈ A) (hz : m' f i = 0#64)
  | newLink (j : Nat) (g : Word) (hA : f ∈ A) (hp : OnPath m' p4 r parents j f i) (hg : g ∈ A)
      (hv : m' f i = Pte.mk g (linkFl k pflags)) (hn : tblAt m' p4 (r ++ parents.take (j + 1)) = some g)
  | link (j : Nat) (g : Word) (hA : f ∉ A) (hp : OnPath m p4 r parents j f i) (hz : m f i = 0#64) (hg : g ∈ A)
      (hv : m' f i = Pte.mk g (linkFl k pflags)) (hn : tblAt m' p4 (r ++ parents.take (j + 1)) = some g)
  | addFlags (j : Nat) (hA : f ∉ A) (hp : OnPath m p4 r parents j f i) (hne : m f i ≠ 0#64)
      (hP : Pte.present (m f i) = true) (hS : Pte.huge (m f i) = false)
      (hv : m' f i = Pte.setFlags (m f i) (Pte.flags (m f i) ||| pflags))

/-- What the descent has done to the entry `(t, i)` (table `t` at path `q`) it passed on the way to table `t'`. -/
def EntryDone (k : Kind) (pflags p4 : Word) (m m' : PMem) (A : List Word) (q : List Nat) (t : Word) (i : Nat)
    (t' : Word) : Prop :=
  (t' ∈ A ∧ m' t i = Pte.mk t' (linkFl k pflags) ∧ (t ∈ A ∨ m t i = 0#64)) ∨
  (t ∉ A ∧ tblAt m p4 q = some t ∧ m t i ≠ 0#64 ∧ Pte.present (m t i) = true ∧ Pte.huge (m t i) = false ∧
    m' t i = Pte.setFlags (m t i) (Pte.flags (m t i) ||| pflags))

/-- What one successful step of the descent guarantees at word level. -/
structure StepFacts (k : Kind) (pflags p4 : Word) (m m1 : PMem) (r : List Nat) (tbl : Word) (i0 : Nat) (t1 : Word)
    (A1 : List Word) : Prop where
  tree : ∀ q g, q.length ≤ 3 → IdxOK q → tblAt m1 p4 q = some g → tblAt m p4 q = some g ∨ g ∈ A1
  pers : ∀ q g, q.length ≤ 3 → IdxOK q → tblAt m p4 q = some g → tblAt m1 p4 q = some g
  same : ∀ f i, f ∉ A1 → ¬ (f = tbl ∧ i = i0) → m1 f i = m f i
  zero : ∀ f i, f ∈ A1 → i < 512 → m1 f i = 0#64
  high : ∀ f i, 512 ≤ i → m1 f i = m f i
  next : tblAt m1 p4 (r ++ [i0]) = some t1
  entry : (m tbl i0 = 0#64 ∧ A1 = [t1] ∧ m1 tbl i0 = Pte.mk t1 (linkFl k pflags)) ∨
    (A1 = [] ∧ m tbl i0 ≠ 0#64 ∧ Pte.present (m tbl i0) = true ∧ Pte.huge (m tbl i0) = false ∧
      m1 tbl i0 = Pte.setFlags (m tbl i0) (Pte.flags (m tbl i0) ||| pflags))

/-- **One step, packaged**: failure leaves memory untouched (and the entry leads nowhere); success gives `StepFacts`. -/
theorem createNextTable_step (k : Kind) (s : St) (p4 : Word) (r : List Nat) (tbl : Word) (i : Nat) (pflags : Word)
    (hinv : Inv s.mem p4) (hr : tblAt s.mem p4 r = some tbl) (hrl : r.length ≤ 2) (hri : IdxOK r)
    (hi : i < 512) (hpf : ParentFlagsOK pflags) (hal : AllocsOK s.mem p4 s.allocs) :
    ∃ res s' seg, createNextTable k s tbl i pflags = (res, s') ∧ s'.events = s.events ++ seg ∧
      ((tableOf (s.mem tbl i) = none ∧ (∃ e, res = .ok (.error e)) ∧ s'.mem = s.mem ∧ allocatedIn seg = []) ∨
       (∃ t1, res = .ok (.ok t1) ∧ StepFacts k pflags p4 s.mem s'.mem r tbl i t1 (allocatedIn seg) ∧
          (∀ g ∈ allocatedIn seg, some g ∈ s.allocs) ∧ (∀ g, some g ∈ s'.allocs → some g ∈ s.allocs))) := by
  obtain ⟨res, s', seg, hc, he, hcase⟩ := createNextTable_shape k s p4 r tbl i pflags hinv hr hrl hri hi hpf hal
  have hok := createNextTable_ok k s p4 r tbl i pflags hinv hr hrl hri hi hpf hal
  rw [hc] at hok
  refine ⟨res, s', seg, hc, he, ?_⟩
  rcases hcase with h | ⟨hzero, f, rest, hall, hrest, hres, hmem, hA⟩ | ⟨hne, hP, hS, hall, hres, hmem, hA⟩
  · exact Or.inl h
  · subst hres
    right
    rw [hall] at hal
    obtain ⟨hfresh, _, _⟩ := hal
    have hlf := linkFl_ok k pflags hpf
    have T := tblAt_linked s.mem p4 hinv r tbl i f (linkFl k pflags) hr hrl hri hi hzero hfresh hlf
    have htf : tbl ≠ f := fun h => hfresh.notTable r (by omega) hri (h ▸ hr)
    have hto0 : tableOf (0#64 : Word) = none := by decide
    have hnone : ∀ q', tblAt s.mem p4 (r ++ [i] ++ q') = none := by
      intro q'
      rw [tblAt_append, tblAt_append, hr]
      simp [tblAt, hzero, hto0]
    refine ⟨f, rfl, ⟨?_, ?_, ?_, ?_, ?_, hok.2, Or.inl ⟨hzero, hA, ?_⟩⟩, ?_, ?_⟩
    · intro q g hq hqi hg
      rw [hA, hmem, T q hq hqi] at *
      split at hg
      · right; simp [(Option.some.inj hg).symm]
      · split at hg
        · cases hg
        · exact Or.inl hg
    · intro q g hq hqi hg
      rw [hmem, T q hq hqi]
      by_cases e1 : q = r ++ [i]
      · have := hnone []; rw [List.append_nil, ← e1, hg] at this; cases this
      · rw [if_neg e1]
        by_cases e2 : r ++ [i] <+: q
        · obtain ⟨q', hq'⟩ := e2
          have := hnone q'; rw [hq', hg] at this; cases this
        · rw [if_neg e2]; exact hg
    · intro g j hg hw
      rw [hA] at hg
      rw [hmem]
      exact linked_other s.mem tbl i f _ g j (by simpa using hg) hw
    · intro g j hg hj
      rw [hA] at hg
      have : g = f := by simpa using hg
      rw [hmem, this]
      exact linked_at_new s.mem tbl i f _ j hj
    · intro g j hj
      rw [hmem]
      unfold linked PMem.zeroed PMem.set
      have h1 : ¬ (g = f ∧ j < 512) := fun h => by omega
      have h2 : ¬ (g = tbl ∧ j = i) := fun h => by omega
      simp only [h1, h2, if_false]
    · rw [hmem]; exact linked_at_slot s.mem tbl i f _ htf
    · intro g hg; rw [hA] at hg; have : g = f := by simpa using hg
      rw [this, hall]; simp
    · intro g hg; rw [hrest] at hg; rw [hall]; exact List.mem_cons_of_mem _ hg
  · subst hres
    right
    obtain ⟨b1, b2, b3⟩ := or_flags_bits (s.mem tbl i) pflags hP hS hpf
    obtain ⟨_, i2, _⟩ := set_table_entry s.mem p4 hinv r tbl i _ hr hrl hri hi hP hS b1 b2 b3
    refine ⟨_, rfl, ⟨?_, ?_, ?_, ?_, ?_, hok.2, Or.inr ⟨hA, hne, hP, hS, ?_⟩⟩, ?_, ?_⟩
    · intro q g hq hqi hg
      rw [hmem, i2 q hq hqi] at hg; exact Or.inl hg
    · intro q g hq hqi hg
      rw [hmem, i2 q hq hqi]; exact hg
    · intro g j _ hw
      rw [hmem]; exact PMem.set_other s.mem tbl i _ g j hw
    · intro g j hg; rw [hA] at hg; cases hg
    · intro g j hj
      rw [hmem]; exact PMem.set_other s.mem tbl i _ g j (fun h => by omega)
    · rw [hmem]; exact PMem.set_same _ _ _ _
    · intro g hg; rw [hA] at hg; cases hg
    · intro g hg; rw [hall] at hg; exact hg

/-! ### Composition -/

/-- A word the rest of the descent changes, seen from before the first step. -/
theorem PathWord.lift {k : Kind} {pflags p4 : Word} {m m1 m2 : PMem} {r : List Nat} {i0 : Nat} {rest : List Nat}
    {A1 A2 : List Word} {tbl t1 : Word}
    (hwf : WF m p4) (hr : tblAt m p4 r = some tbl) (hlen : r.length + (i0 :: rest).length ≤ 3)
    (hidx : IdxOK (r ++ i0 :: rest)) (hs : StepFacts k pflags p4 m m1 r tbl i0 t1 A1)
    (hpers : ∀ q g, q.length ≤ 3 → IdxOK q → tblAt m1 p4 q = some g → tblAt m2 p4 q = some g)
    {f : Word} {i : Nat} (h : PathWord k pflags p4 m1 m2 (r ++ [i0]) rest A2 f i) :
    PathWord k pflags p4 m m2 r (i0 :: rest) (A1 ++ A2) f i := by
  have hri : IdxOK r := (IdxOK_append.1 hidx).1
  have hlen' : (r ++ [i0]).length + rest.length ≤ 3 := by simp at hlen ⊢; omega
  have hidx' : IdxOK ((r ++ [i0]) ++ rest) := by simpa using hidx
  -- a table below the first entry is not `tbl`
  have hnot : ∀ j, tblAt m p4 ((r ++ [i0]) ++ rest.take j) = some f → f ≠ tbl := by
    intro j hf e
    obtain ⟨pl, pi⟩ := path_ok hlen' hidx' j
    have := hwf _ r tbl pl (by omega) pi hri (e ▸ hf) hr
    have := congrArg List.length this
    simp at this <;> omega
  cases h with
  | newZero hA hz => exact .newZero (List.mem_append_right _ hA) hz
  | newLink j g hA hp hg hv hn =>
    exact .newLink (j + 1) g (List.mem_append_right _ hA) hp.shift (List.mem_append_right _ hg) hv
      (by rw [← take_path]; exact hn)
  | link j g hA hp hz hg hv hn =>
    obtain ⟨pl, pi⟩ := path_ok hlen' hidx' j
    by_cases hfa : f ∈ A1
    · exact .newLink (j + 1) g (List.mem_append_left _ hfa) (OnPath.shift ⟨hpers _ _ pl pi hp.1, hp.2⟩)
        (List.mem_append_right _ hg) hv (by rw [← take_path]; exact hn)
    · have hfm : tblAt m p4 ((r ++ [i0]) ++ rest.take j) = some f := (hs.tree _ _ pl pi hp.1).resolve_right hfa
      have hft := hnot j hfm
      have e := hs.same f i hfa (fun h => hft h.1)
      refine .link (j + 1) g ?_ (OnPath.shift ⟨hfm, hp.2⟩) (by rw [← e]; exact hz) (List.mem_append_right _ hg) hv
        (by rw [← take_path]; exact hn)
      intro h; rcases List.mem_append.1 h with h | h
      · exact hfa h
      · exact hA h
  | addFlags j hA hp hne hP hS hv =>
    obtain ⟨pl, pi⟩ := path_ok hlen' hidx' j
    by_cases hfa : f ∈ A1
    · exact absurd (hs.zero f i hfa (idx_lt hidx' hp.2)) hne
    · have hfm : tblAt m p4 ((r ++ [i0]) ++ rest.take j) = some f := (hs.tree _ _ pl pi hp.1).resolve_right hfa
      have hft := hnot j hfm
      have e := hs.same f i hfa (fun h => hft h.1)
      rw [e] at hne hP hS hv
      refine .addFlags (j + 1) ?_ (OnPath.shift ⟨hfm, hp.2⟩) hne hP hS hv
      intro h; rcases List.mem_append.1 h with h | h
      · exact hfa h
      · exact hA h

/-- The rest of the descent does not touch a table above it. -/
theorem PathWord.not_above {k : Kind} {pflags p4 : Word} {m1 m2 : PMem} {r' rest : List Nat} {A2 : List Word}
    (hwf : WF m1 p4) (hlen : r'.length + rest.length ≤ 3) (hidx : IdxOK (r' ++ rest))
    (hfresh : ∀ g ∈ A2, FreshAt m1 p4 g)
    {q : List Nat} {t : Word} (hq : tblAt m1 p4 q = some t) (hql : q.length < r'.length) (hqi : IdxOK q)
    {i : Nat} (h : PathWord k pflags p4 m1 m2 r' rest A2 t i) : False := by
  have hoff : ∀ j, tblAt m1 p4 (r' ++ rest.take j) = some t → False := by
    intro j hf
    obtain ⟨pl, pi⟩ := path_ok hlen hidx j
    have := hwf _ q t pl (by omega) pi hqi hf hq
    have := congrArg List.length this
    simp at this <;> omega
  cases h with
  | newZero hA _ => exact (hfresh t hA).notTable q (by omega) hqi hq
  | newLink j g hA _ _ _ _ => exact (hfresh t hA).notTable q (by omega) hqi hq
  | link j g _ hp _ _ _ _ => exact hoff j hp.1
  | addFlags j _ hp _ _ _ _ => exact hoff j hp.1

/-- **What the descent of `map_to` guarantees at word level** (`A` = frames handed out during the descent). -/
structure PathFacts (k : Kind) (pflags p4 : Word) (m m' : PMem) (r parents : List Nat) (A : List Word) : Prop where
  /-- tables stay where they are -/
  pers : ∀ q g, q.length ≤ 3 → IdxOK q → tblAt m p4 q = some g → tblAt m' p4 q = some g
  /-- the tables afterwards are the old tables and the allocated frames -/
  tree : ∀ q g, q.length ≤ 3 → IdxOK q → tblAt m' p4 q = some g → tblAt m p4 q = some g ∨ g ∈ A
  /-- every changed word is of one of the four kinds -/
  words : ∀ f i, m' f i ≠ m f i → PathWord k pflags p4 m m' r parents A f i
  /-- every parent entry the descent passed (the path leads on through it afterwards) links a new table with
  `linkFl k pflags` or is the old link with the parent flags OR-ed in -/
  done : ∀ j i t t', parents[j]? = some i → tblAt m' p4 (r ++ parents.take j) = some t →
    tblAt m' p4 (r ++ parents.take (j + 1)) = some t' →
    EntryDone k pflags p4 m m' A (r ++ parents.take j) t i t'

/-- **The descent of `map_to`, word level** (hypotheses of `createPath_ok`), whatever the result. -/
theorem createPath_words (k : Kind) (pflags : Word) (p4 : Word) (hpf : ParentFlagsOK pflags) :
    ∀ (parents r : List Nat) (tbl : Word) (s : St),
      Inv s.mem p4 → tblAt s.mem p4 r = some tbl → r.length + parents.length ≤ 3 → IdxOK (r ++ parents) →
      AllocsOK s.mem p4 s.allocs →
      ∃ seg, (createPath k pflags s tbl parents).2.events = s.events ++ seg ∧
        (∀ g ∈ allocatedIn seg, some g ∈ s.allocs) ∧
        PathFacts k pflags p4 s.mem (createPath k pflags s tbl parents).2.mem r parents (allocatedIn seg) := by
  intro parents
  induction parents with
  | nil =>
    intro r tbl s _ _ _ _ _
    refine ⟨[], by simp [createPath], (by intro g h; cases h), ⟨fun _ _ _ _ h => h, fun _ _ _ _ h => Or.inl h,
      fun f i h => absurd rfl h, ?_⟩⟩
    intro j i t t' h; simp at h
  | cons i0 rest ih =>
    intro r tbl s hinv hr hlen hidx hal
    have hrl : r.length ≤ 2 := by simp at hlen; omega
    have hri : IdxOK r := (IdxOK_append.1 hidx).1
    have hi : i0 < 512 := (IdxOK_append.1 hidx).2 i0 (by simp)
    obtain ⟨res, s1, seg1, hc, he1, hcase⟩ := createNextTable_step k s p4 r tbl i0 pflags hinv hr hrl hri hi hpf hal
    have hok := createNextTable_ok k s p4 r tbl i0 pflags hinv hr hrl hri hi hpf hal
    rw [hc] at hok
    rcases hcase with ⟨hto, ⟨e, hres⟩, hmem, hA⟩ | ⟨t1, hres, hs, hA1, hsub⟩
    · -- the step fails: nothing changes
      subst hres
      have hcp : createPath k pflags s tbl (i0 :: rest) = (.ok (.error e), s1) := by simp only [createPath, hc]
      rw [hcp]
      refine ⟨seg1, he1, (by rw [hA]; intro g h; cases h), ⟨fun _ _ _ _ h => by rw [hmem]; exact h,
        fun _ _ _ _ h => by rw [hmem] at h; exact Or.inl h, fun f i h => absurd (by rw [hmem]) h, ?_⟩⟩
      intro j i t t' _ _ ht'
      exfalso
      rw [hmem, ← take_path, tblAt_append, tblAt_append, hr] at ht'
      simp [tblAt, hto] at ht'
    · subst hres
      obtain ⟨hs1, ht1⟩ := hok
      have hlen' : (r ++ [i0]).length + rest.length ≤ 3 := by simp at hlen ⊢; omega
      have hidx' : IdxOK ((r ++ [i0]) ++ rest) := by simpa using hidx
      obtain ⟨seg2, he2, hA2, hpf2⟩ := ih (r ++ [i0]) t1 s1 hs1.inv ht1 hlen' hidx' hs1.allocs
      have hcp : createPath k pflags s tbl (i0 :: rest) = createPath k pflags s1 t1 rest := by
        simp only [createPath, hc]
      rw [hcp]
      generalize (createPath k pflags s1 t1 rest).2 = s2 at he2 hpf2
      have hAall : ∀ g ∈ allocatedIn (seg1 ++ seg2), some g ∈ s.allocs := by
        intro g hg
        rw [allocatedIn_append] at hg
        rcases List.mem_append.1 hg with h | h
        · exact hA1 g h
        · exact hsub g (hA2 g h)
      have hfreshAll : ∀ g ∈ allocatedIn (seg1 ++ seg2), FreshAt s.mem p4 g :=
        fun g hg => AllocsOK_fresh s.mem p4 s.allocs g hal (hAall g hg)
      have hfresh2 : ∀ g ∈ allocatedIn seg2, FreshAt s1.mem p4 g :=
        fun g hg => AllocsOK_fresh s1.mem p4 s1.allocs g hs1.allocs (hA2 g hg)
      have htblA : tbl ∉ allocatedIn (seg1 ++ seg2) :=
        fun h => (hfreshAll tbl h).notTable r (by omega) hri hr
      have hr1 : tblAt s1.mem p4 r = some tbl := hs.pers r tbl (by omega) hri hr
      -- the rest leaves the first entry alone
      have hkeep : s2.mem tbl i0 = s1.mem tbl i0 := by
        apply Classical.byContradiction
        intro hne
        exact PathWord.not_above hs1.inv.wf hlen' hidx' hfresh2 hr1 (by simp) hri (hpf2.words tbl i0 hne)
      have hnext2 : tblAt s2.mem p4 (r ++ (i0 :: rest).take 1) = some t1 := by
        have := hpf2.pers (r ++ [i0]) t1 (by simp; omega)
          (IdxOK_append.2 ⟨hri, fun j hj => by simp at hj; rw [hj]; exact hi⟩) ht1
        simpa using this
      refine ⟨seg1 ++ seg2, by rw [he2, he1]; simp, hAall, ⟨?_, ?_, ?_, ?_⟩⟩
      · intro q g hq hqi hg
        exact hpf2.pers q g hq hqi (hs.pers q g hq hqi hg)
      · intro q g hq hqi hg
        rw [allocatedIn_append]
        rcases hpf2.tree q g hq hqi hg with h | h
        · rcases hs.tree q g hq hqi h with h' | h'
          · exact Or.inl h'
          · exact Or.inr (List.mem_append_left _ h')
        · exact Or.inr (List.mem_append_right _ h)
      · intro f i hne
        rw [allocatedIn_append]
        by_cases h2 : s2.mem f i = s1.mem f i
        · have h1 : s1.mem f i ≠ s.mem f i := by rw [← h2]; exact hne
          by_cases hfa : f ∈ allocatedIn seg1
          · have hi' : i < 512 := by
              apply Classical.byContradiction
              intro hge; exact h1 (hs.high f i (by omega))
            exact .newZero (List.mem_append_left _ hfa) (by rw [h2]; exact hs.zero f i hfa hi')
          · have hw : f = tbl ∧ i = i0 := by
              apply Classical.byContradiction
              intro hw; exact h1 (hs.same f i hfa hw)
            obtain ⟨rfl, rfl⟩ := hw
            rw [allocatedIn_append] at htblA
            rcases hs.entry with ⟨hz, hAe, hv⟩ | ⟨hAe, hne0, hP, hS, hv⟩
            · exact .link 0 t1 htblA ⟨by simpa using hr, by simp⟩ hz
                (List.mem_append_left _ (by rw [hAe]; simp)) (by rw [h2]; exact hv) hnext2
            · exact .addFlags 0 htblA ⟨by simpa using hr, by simp⟩ hne0 hP hS (by rw [h2]; exact hv)
        · exact PathWord.lift hinv.wf hr hlen hidx hs hpf2.pers (hpf2.words f i h2)
      · intro j i t t' hj ht ht'
        rw [allocatedIn_append]
        cases j with
        | zero =>
          have hi0 : i = i0 := by simpa using hj.symm
          subst hi0
          have htt : t = tbl := by
            have := hpf2.pers r tbl (by omega) hri hr1
            simp only [List.take_zero, List.append_nil] at ht
            rw [this] at ht; exact (Option.some.inj ht).symm
          have htt' : t' = t1 := by
            rw [hnext2] at ht'; exact (Option.some.inj ht').symm
          subst htt; subst htt'
          rw [allocatedIn_append] at htblA
          rcases hs.entry with ⟨hz, hAe, hv⟩ | ⟨hAe, hne0, hP, hS, hv⟩
          · exact Or.inl ⟨List.mem_append_left _ (by rw [hAe]; simp), by rw [hkeep]; exact hv, Or.inr hz⟩
          · exact Or.inr ⟨htblA, by simpa using hr, hne0, hP, hS, by rw [hkeep]; exact hv⟩
        | succ j =>
          have hj' : rest[j]? = some i := by simpa using hj
          rw [← take_path] at ht ht'
          obtain ⟨pl, pi⟩ := path_ok hlen' hidx' j
          rcases hpf2.done j i t t' hj' ht ht' with ⟨hg, hv, hor⟩ | ⟨hA, hq, hne0, hP, hS, hv⟩
          · refine Or.inl ⟨List.mem_append_right _ hg, hv, ?_⟩
            rcases hor with h | h
            · exact Or.inl (List.mem_append_right _ h)
            · by_cases hfa : t ∈ allocatedIn seg1
              · exact Or.inl (List.mem_append_left _ hfa)
              · by_cases hfa2 : t ∈ allocatedIn seg2
                · exact Or.inl (List.mem_append_right _ hfa2)
                · right
                  have hq1 := (hpf2.tree _ _ pl pi ht).resolve_right hfa2
                  have hfm : tblAt s.mem p4 ((r ++ [i0]) ++ rest.take j) = some t := (hs.tree _ _ pl pi hq1).resolve_right hfa
                  have hft : t ≠ tbl := by
                    intro e
                    have := hinv.wf _ r tbl pl (by omega) pi hri (e ▸ hfm) hr
                    have := congrArg List.length this
                    simp at this <;> omega
                  rw [← hs.same t i hfa (fun h => hft h.1)]; exact h
          · by_cases hfa : t ∈ allocatedIn seg1
            · exact absurd (hs.zero t i hfa (idx_lt hidx' hj')) hne0
            · have hfm : tblAt s.mem p4 ((r ++ [i0]) ++ rest.take j) = some t := (hs.tree _ _ pl pi hq).resolve_right hfa
              have hft : t ≠ tbl := by
                intro e
                have := hinv.wf _ r tbl pl (by omega) pi hri (e ▸ hfm) hr
                have := congrArg List.length this
                simp at this <;> omega
              have e := hs.same t i hfa (fun h => hft h.1)
              rw [e] at hne0 hP hS hv
              refine Or.inr ⟨?_, by rw [← take_path]; exact hfm, hne0, hP, hS, hv⟩
              intro h; rcases List.mem_append.1 h with h | h
              · exact hfa h
              · exact hA h

theorem PathWord.congr {k : Kind} {pflags p4 : Word} {m m1 m' : PMem} {r parents : List Nat} {A : List Word}
    {f : Word} {i : Nat} (hlen : r.length + parents.length ≤ 3) (hidx : IdxOK (r ++ parents))
    (hval : m' f i = m1 f i)
    (hpath : ∀ q g, q.length ≤ 3 → IdxOK q → tblAt m1 p4 q = some g → tblAt m' p4 q = some g)
    (h : PathWord k pflags p4 m m1 r parents A f i) : PathWord k pflags p4 m m' r parents A f i := by
  cases h with
  | newZero hA hz => exact .newZero hA (by rw [hval]; exact hz)
  | newLink j g hA hp hg hv hn =>
    obtain ⟨pl, pi⟩ := path_ok hlen hidx j
    obtain ⟨pl', pi'⟩ := path_ok hlen hidx (j + 1)
    exact .newLink j g hA ⟨hpath _ _ pl pi hp.1, hp.2⟩ hg (by rw [hval]; exact hv) (hpath _ _ pl' pi' hn)
  | link j g hA hp hz hg hv hn =>
    obtain ⟨pl', pi'⟩ := path_ok hlen hidx (j + 1)
    exact .link j g hA hp hz hg (by rw [hval]; exact hv) (hpath _ _ pl' pi' hn)
  | addFlags j hA hp hne hP hS hv => exact .addFlags j hA hp hne hP hS (by rw [hval]; exact hv)

/-! ### `map_to` -/

/-- **Kinds of words `map_to` may change**: the four kinds of the descent (`PathWord`: A, B, C), and — only on
success — the page's slot (D): `leaf` when its table existed before (the slot was ZERO), `newLeaf` when its table
was allocated during this call (kind A: the one non-zero word of the new last table). -/
inductive MapWord (k : Kind) (pflags p4 : Word) (m m' : PMem) (parents : List Nat) (li : Nat) (w : Word)
    (A : List Word) (f : Word) (i : Nat) : Prop
  | path (h : PathWord k pflags p4 m m' [] parents A f i)
  | newLeaf (hA : f ∈ A) (ht : tblAt m' p4 parents = some f) (hi : i = li) (hv : m' f i = w)
  | leaf (hA : f ∉ A) (ht : tblAt m p4 parents = some f) (ht' : tblAt m' p4 parents = some f) (hi : i = li)
      (hz : m f i = 0#64) (hv : m' f i = w)

/-- **Word-level guarantee of one `map_to` call** with result `res` (`A` = frames handed out during the call). -/
structure MapFacts (k : Kind) (pflags p4 : Word) (m m' : PMem) (parents : List Nat) (li : Nat) (w : Word)
    (A : List Word) (res : R (Except MapErr Unit)) : Prop where
  nopanic : res ≠ .panic
  /-- no allocated frame was a table before -/
  fresh : ∀ g ∈ A, FreshAt m p4 g
  pers : ∀ q g, q.length ≤ 3 → IdxOK q → tblAt m p4 q = some g → tblAt m' p4 q = some g
  tree : ∀ q g, q.length ≤ 3 → IdxOK q → tblAt m' p4 q = some g → tblAt m p4 q = some g ∨ g ∈ A
  /-- every changed word is of kind A, B, C or D -/
  words : ∀ f i, m' f i ≠ m f i → MapWord k pflags p4 m m' parents li w A f i
  /-- a failed call changes only words of kinds A, B, C -/
  failed : ∀ e, res = .ok (.error e) → ∀ f i, m' f i ≠ m f i → PathWord k pflags p4 m m' [] parents A f i
  /-- every parent entry the call passed -/
  done : ∀ j i t t', parents[j]? = some i → tblAt m' p4 (parents.take j) = some t →
    tblAt m' p4 (parents.take (j + 1)) = some t' → EntryDone k pflags p4 m m' A (parents.take j) t i t'
  /-- success: the slot holds the leaf word, and it was zero (or its table is new) -/
  leaf : res = .ok (.ok ()) → ∃ t, tblAt m' p4 parents = some t ∧ m' t li = w ∧
    (t ∈ A ∨ (tblAt m p4 parents = some t ∧ m t li = 0#64))

/-- **`map_to`, word level** (hypotheses of `C01.map_to_full`), whatever the result. -/
theorem map_to_words (k : Kind) (s : St) (p4 : Word) (parents : List Nat) (li : Nat) (huge : Bool) (sz : Nat)
    (frame flags pflags : Word)
    (sh : PageShape parents huge sz) (hinv : Inv s.mem p4) (hpi : IdxOK parents)
    (hpf : ParentFlagsOK pflags) (hfl : if huge then LeafBitsHuge flags else LeafBits4K flags)
    (hfr : FrameOK sz frame) (hal : AllocsOK s.mem p4 s.allocs)
    (res : R (Except MapErr Unit)) (s' : St) (h : mapTo k s p4 parents li huge frame flags pflags = (res, s')) :
    ∃ seg, s'.events = s.events ++ seg ∧
      MapFacts k pflags p4 s.mem s'.mem parents li (leafWord huge frame flags) (allocatedIn seg) res := by
  obtain ⟨hl1, hl3⟩ := sh.len_le
  obtain ⟨w1, w2, w3, w4, w5, w6, w7, w8⟩ := leafWord_facts sh frame flags hfl hfr
  have hlen0 : ([] : List Nat).length + parents.length ≤ 3 := by simpa using hl3
  have hidx0 : IdxOK ([] ++ parents) := by simpa using hpi
  have hcp := createPath_ok k pflags p4 hpf parents [] p4 s hinv rfl hlen0 hidx0 hal
  obtain ⟨seg, he, hA, hpfacts⟩ := createPath_words k pflags p4 hpf parents [] p4 s hinv rfl hlen0 hidx0 hal
  have hfresh : ∀ g ∈ allocatedIn seg, FreshAt s.mem p4 g :=
    fun g hg => AllocsOK_fresh s.mem p4 s.allocs g hal (hA g hg)
  unfold mapTo at h
  cases hc : createPath k pflags s p4 parents with
  | mk res1 s1 =>
    rw [hc] at hcp h he hpfacts
    simp only at he hpfacts
    -- the call ends with the state of the descent (plus a read)
    have ofPath : ∀ (e : MapErr) (tail : List Ev), allocatedIn tail = [] → res = .ok (.error e) →
        s'.mem = s1.mem → s'.events = s1.events ++ tail →
        ∃ seg, s'.events = s.events ++ seg ∧
          MapFacts k pflags p4 s.mem s'.mem parents li (leafWord huge frame flags) (allocatedIn seg) res := by
      intro e tail htail hres hm hev
      refine ⟨seg ++ tail, by rw [hev, he]; simp, ?_⟩
      rw [allocatedIn_append, htail, List.append_nil, hm]
      refine ⟨(by rw [hres]; intro h; cases h), hfresh, hpfacts.pers, hpfacts.tree, fun f i hne => .path (hpfacts.words f i hne),
        fun _ _ f i hne => hpfacts.words f i hne, ?_, by rw [hres]; intro h; cases h⟩
      intro j i t t' hj ht ht'
      exact hpfacts.done j i t t' hj ht ht'
    cases res1 with
    | panic => exact hcp.elim
    | ok res' =>
      cases res' with
      | error e =>
        cases e with
        | allocFailed =>
          simp only at h
          obtain ⟨rfl, rfl⟩ := Prod.mk.inj h
          exact ofPath .allocFailed [] rfl rfl rfl (by simp)
        | hugePage =>
          simp only at h
          obtain ⟨rfl, rfl⟩ := Prod.mk.inj h
          exact ofPath .parentHuge [] rfl rfl rfl (by simp)
      | ok tl =>
        obtain ⟨hs1, htl⟩ := hcp
        simp only [List.nil_append] at htl
        simp only [St.rd_fst] at h
        by_cases hu : Pte.isUnused (s1.mem tl li) = true
        · have hzero : s1.mem tl li = 0#64 := by simpa [Pte.isUnused] using hu
          simp only [hu, Bool.not_true, Bool.false_eq_true, if_false, w1, w2] at h
          obtain ⟨rfl, rfl⟩ := Prod.mk.inj h
          have hv : parents.length = 3 ∨ tableOf (leafWord huge frame flags) = tableOf (s1.mem tl li) := by
            rw [hzero]; exact w7
          have hT : ∀ q, q.length ≤ 3 → IdxOK q →
              tblAt (s1.mem.set tl li (leafWord huge frame flags)) p4 q = tblAt s1.mem p4 q :=
            fun q hq hqi => tblAt_set_eq_root s1.mem p4 hs1.inv.wf parents tl li _ htl hl3 hpi hv q hq hqi
          have hpath : ∀ q g, q.length ≤ 3 → IdxOK q → tblAt s1.mem p4 q = some g →
              tblAt (s1.mem.set tl li (leafWord huge frame flags)) p4 q = some g :=
            fun q g hq hqi hg => by rw [hT q hq hqi]; exact hg
          -- the table of the slot is not a table on the way to it
          have hoff : ∀ j, j < parents.length → tblAt s1.mem p4 ([] ++ parents.take j) ≠ some tl := by
            intro j hj hf
            obtain ⟨pl, pi⟩ := path_ok hlen0 hidx0 j
            have := hs1.inv.wf _ parents tl pl hl3 pi hpi hf htl
            have := congrArg List.length this
            simp at this; omega
          have hjlt : ∀ {j i : Nat}, parents[j]? = some i → j < parents.length := by
            intro j i hj
            apply Classical.byContradiction
            intro hge
            rw [List.getElem?_eq_none (by omega)] at hj; cases hj
          -- the slot was zero before the call, or its table is new
          have hold : tl ∉ allocatedIn seg → tblAt s.mem p4 parents = some tl ∧ s.mem tl li = 0#64 := by
            intro hna
            have ht0 : tblAt s.mem p4 parents = some tl := (hpfacts.tree parents tl hl3 hpi htl).resolve_right hna
            refine ⟨ht0, ?_⟩
            apply Classical.byContradiction
            intro hne
            have hch : s1.mem tl li ≠ s.mem tl li := by rw [hzero]; exact fun h => hne h.symm
            cases hpfacts.words tl li hch with
            | newZero hA' _ => exact hna hA'
            | newLink j g hA' _ _ _ _ => exact hna hA'
            | link j g _ hp _ _ _ _ =>
              exact hoff j (hjlt hp.2) (hpfacts.pers _ _ (path_ok hlen0 hidx0 j).1 (path_ok hlen0 hidx0 j).2 hp.1)
            | addFlags j _ hp _ _ _ _ =>
              exact hoff j (hjlt hp.2) (hpfacts.pers _ _ (path_ok hlen0 hidx0 j).1 (path_ok hlen0 hidx0 j).2 hp.1)
          refine ⟨seg ++ [.rd tl li, .wr tl li (leafWord huge frame flags)], by simp [he], ?_⟩
          have hAeq : allocatedIn (seg ++ [.rd tl li, .wr tl li (leafWord huge frame flags)]) = allocatedIn seg := by
            rw [allocatedIn_append]; simp [allocatedIn]
          rw [hAeq]
          simp only [St.wr_mem, St.rd_mem]
          refine ⟨(by intro h; cases h), hfresh, ?_, ?_, ?_, (by intro e h; cases h), ?_, ?_⟩
          · intro q g hq hqi hg
            exact hpath q g hq hqi (hpfacts.pers q g hq hqi hg)
          · intro q g hq hqi hg
            rw [hT q hq hqi] at hg
            exact hpfacts.tree q g hq hqi hg
          · intro f i hne
            by_cases hw : f = tl ∧ i = li
            · obtain ⟨rfl, rfl⟩ := hw
              have hTp : tblAt (s1.mem.set f i (leafWord huge frame flags)) p4 parents = some f := hpath _ _ hl3 hpi htl
              by_cases hfa : f ∈ allocatedIn seg
              · exact .newLeaf hfa hTp rfl (PMem.set_same _ _ _ _)
              · obtain ⟨h1, h2⟩ := hold hfa
                exact .leaf hfa h1 hTp rfl h2 (PMem.set_same _ _ _ _)
            · have hval := PMem.set_other s1.mem tl li (leafWord huge frame flags) f i hw
              exact .path (PathWord.congr hlen0 hidx0 hval hpath (hpfacts.words f i (by rw [← hval]; exact hne)))
          · intro j i t t' hj ht ht'
            obtain ⟨pl, pi⟩ := path_ok hlen0 hidx0 j
            obtain ⟨pl', pi'⟩ := path_ok hlen0 hidx0 (j + 1)
            have ht1 : tblAt s1.mem p4 ([] ++ parents.take j) = some t := by
              rw [← hT _ pl pi]; exact ht
            have ht1' : tblAt s1.mem p4 ([] ++ parents.take (j + 1)) = some t' := by
              rw [← hT _ pl' pi']; exact ht'
            have hne : ¬ (t = tl ∧ i = li) := fun hw => hoff j (hjlt hj) (hw.1 ▸ ht1)
            have hval := PMem.set_other s1.mem tl li (leafWord huge frame flags) t i hne
            rcases hpfacts.done j i t t' hj ht1 ht1' with ⟨hg, hv', hor⟩ | ⟨hA', hq, hne0, hP, hS, hv'⟩
            · exact Or.inl ⟨hg, by rw [hval]; exact hv', hor⟩
            · exact Or.inr ⟨hA', hq, hne0, hP, hS, by rw [hval]; exact hv'⟩
          · intro _
            refine ⟨tl, hpath _ _ hl3 hpi htl, PMem.set_same _ _ _ _, ?_⟩
            by_cases hfa : tl ∈ allocatedIn seg
            · exact Or.inl hfa
            · exact Or.inr (hold hfa)
        · have hu' : Pte.isUnused (s1.mem tl li) = false := by simpa using hu
          simp only [hu', Bool.not_false, if_true] at h
          obtain ⟨rfl, rfl⟩ := Prod.mk.inj h
          exact ofPath .alreadyMapped [.rd tl li] rfl rfl rfl (by simp)

/-! ### Corollaries -/

/-- Kind (C), spelled out: the entry keeps its address, loses no bit, and gains exactly `pflags`
(`new = old ||| pflags`). -/
theorem addFlags_word (old new pflags : Word) (hpf : ParentFlagsOK pflags)
    (hv : new = Pte.setFlags old (Pte.flags old ||| pflags)) :
    new = old ||| pflags ∧ tableAddr new = tableAddr old ∧ Pte.addr new = Pte.addr old ∧
    Pte.flags old &&& Pte.flags new = Pte.flags old ∧ old &&& new = old ∧ new &&& pflags = pflags := by
  obtain ⟨a, b, c, d, e, f, _⟩ := orFlags_facts old pflags hpf
  rw [hv]; exact ⟨a, b, c, d, e, f⟩

/-- **Corollary 2a**: every parent entry the call passed contains all requested parent flags afterwards. -/
theorem EntryDone.contains {k : Kind} {pflags p4 : Word} {m m' : PMem} {A : List Word} {q : List Nat} {t : Word}
    {i : Nat} {t' : Word} (hpf : ParentFlagsOK pflags) (h : EntryDone k pflags p4 m m' A q t i t') :
    m' t i &&& pflags = pflags ∧ Pte.contains (m' t i) pflags = true := by
  rcases h with ⟨_, hv, _⟩ | ⟨_, _, _, _, _, hv⟩
  · rw [hv]; exact link_contains k t' pflags hpf
  · rw [hv]; exact ⟨(orFlags_facts _ _ hpf).2.2.2.2.2.1, (orFlags_facts _ _ hpf).2.2.2.2.2.2⟩

/-- **Corollary 2b**: an existing (non-zero) parent entry of an old table the call passed is `old ||| pflags`: same
address, no bit lost. -/
theorem EntryDone.keeps {k : Kind} {pflags p4 : Word} {m m' : PMem} {A : List Word} {q : List Nat} {t : Word}
    {i : Nat} {t' : Word} (hpf : ParentFlagsOK pflags) (h : EntryDone k pflags p4 m m' A q t i t')
    (hold : t ∉ A) (hne : m t i ≠ 0#64) :
    m' t i = m t i ||| pflags ∧ tableAddr (m' t i) = tableAddr (m t i) ∧ m t i &&& m' t i = m t i := by
  rcases h with ⟨_, _, h | h⟩ | ⟨_, _, _, _, _, hv⟩
  · exact absurd h hold
  · exact absurd h hne
  · obtain ⟨a, b, _, _, e, _⟩ := addFlags_word (m t i) (m' t i) pflags hpf hv
    exact ⟨a, b, e⟩

/-- The kinds are mutually exclusive: (A) `newZero`/`newLink`/`newLeaf` have `f ∈ A`, the others `f ∉ A`; (B) `link`
has `m f i = 0`, (C) `addFlags` has `m f i ≠ 0`; and (D) `leaf` is not an entry on the parent path, because the
table of the page's slot is not one of the tables above it: -/
theorem leaf_slot_not_parent_entry {m : PMem} {p4 : Word} (hwf : WF m p4) {parents : List Nat}
    (hl3 : parents.length ≤ 3) (hpi : IdxOK parents) {f : Word} (hf : tblAt m p4 parents = some f)
    {j i : Nat} (hp : OnPath m p4 [] parents j f i) : False := by
  have hj : j < parents.length := by
    apply Classical.byContradiction
    intro hge
    have := hp.2
    rw [List.getElem?_eq_none (by omega)] at this; cases this
  obtain ⟨pl, pi⟩ := path_ok (r := []) (by simpa using hl3) (by simpa using hpi) j
  have := hwf _ parents f pl hl3 pi hpi hp.1 hf
  have := congrArg List.length this
  simp at this <;> omega

theorem PathWord.keeps_bits {k : Kind} {pflags p4 : Word} {m m' : PMem} {r parents : List Nat} {A : List Word}
    {f : Word} {i : Nat} (hpf : ParentFlagsOK pflags) (h : PathWord k pflags p4 m m' r parents A f i)
    (hold : f ∉ A) : m f i &&& m' f i = m f i := by
  cases h with
  | newZero hA _ => exact absurd hA hold
  | newLink j g hA _ _ _ _ => exact absurd hA hold
  | link j g _ _ hz _ _ _ => rw [hz]; simp
  | addFlags j _ _ _ _ _ hv => rw [hv]; exact (orFlags_facts _ _ hpf).2.2.2.2.1

/-- **No word of a table that existed before the call loses a bit** (successful or failed `map_to`): words of old
tables are unchanged, or were zero (B, D), or gained the parent flags (C). -/
theorem MapFacts.keeps_bits {k : Kind} {pflags p4 : Word} {m m' : PMem} {parents : List Nat} {li : Nat} {w : Word}
    {A : List Word} {res : R (Except MapErr Unit)} (hpf : ParentFlagsOK pflags)
    (h : MapFacts k pflags p4 m m' parents li w A res) (f : Word) (i : Nat) (hold : f ∉ A) :
    m f i &&& m' f i = m f i := by
  by_cases hne : m' f i = m f i
  · rw [hne]; simp
  · cases h.words f i hne with
    | path hp => exact hp.keeps_bits hpf hold
    | newLeaf hA _ _ _ => exact absurd hA hold
    | leaf _ _ _ _ hz _ => rw [hz]; simp

/-- **Corollary 1 (C02, "at most the requested parent flags may be added to existing parent-table entries")**: a
FAILED `map_to` changes only words of kinds (A) — words of tables allocated during the call: zero, or the link to
the next new table —, (B) — a ZERO entry of an existing table on the page's path now links a new (empty) table:
`failed_map_links_new_table` — and (C) — an existing table link on the page's path became `old ||| pflags`. In
particular a changed word of an OLD table that was NON-ZERO only gained the parent flags. -/
theorem map_to_failed_words (k : Kind) (s : St) (p4 : Word) (parents : List Nat) (li : Nat) (huge : Bool) (sz : Nat)
    (frame flags pflags : Word)
    (sh : PageShape parents huge sz) (hinv : Inv s.mem p4) (hpi : IdxOK parents)
    (hpf : ParentFlagsOK pflags) (hfl : if huge then LeafBitsHuge flags else LeafBits4K flags)
    (hfr : FrameOK sz frame) (hal : AllocsOK s.mem p4 s.allocs)
    (e : MapErr) (s' : St) (h : mapTo k s p4 parents li huge frame flags pflags = (.ok (.error e), s')) :
    ∃ seg, s'.events = s.events ++ seg ∧
      (∀ f i, s'.mem f i ≠ s.mem f i → PathWord k pflags p4 s.mem s'.mem [] parents (allocatedIn seg) f i) ∧
      (∀ f i, s'.mem f i ≠ s.mem f i → f ∉ allocatedIn seg → s.mem f i ≠ 0#64 →
        s'.mem f i = s.mem f i ||| pflags ∧ tableAddr (s'.mem f i) = tableAddr (s.mem f i) ∧
        ∃ j, OnPath s.mem p4 [] parents j f i) := by
  obtain ⟨seg, he, hf⟩ := map_to_words k s p4 parents li huge sz frame flags pflags sh hinv hpi hpf hfl hfr hal _ s' h
  refine ⟨seg, he, hf.failed e rfl, ?_⟩
  intro f i hne hold hnz
  cases hf.failed e rfl f i hne with
  | newZero hA _ => exact absurd hA hold
  | newLink j g hA _ _ _ _ => exact absurd hA hold
  | link j g _ _ hz _ _ _ => exact absurd hz hnz
  | addFlags j _ hp _ _ _ hv =>
    obtain ⟨a, b, _⟩ := addFlags_word _ _ pflags hpf hv
    exact ⟨a, b, j, hp⟩

/-- **Corollary 2** (C01, "the effective rights along the walk include the parent flags that were requested"):
after a successful or failed `map_to`, every parent entry on the page's path the call passed (the path leads on
through it) contains all bits of `pflags`; and no word of a table that existed before lost a bit. -/
theorem map_to_parent_flags (k : Kind) (s : St) (p4 : Word) (parents : List Nat) (li : Nat) (huge : Bool) (sz : Nat)
    (frame flags pflags : Word)
    (sh : PageShape parents huge sz) (hinv : Inv s.mem p4) (hpi : IdxOK parents)
    (hpf : ParentFlagsOK pflags) (hfl : if huge then LeafBitsHuge flags else LeafBits4K flags)
    (hfr : FrameOK sz frame) (hal : AllocsOK s.mem p4 s.allocs)
    (res : R (Except MapErr Unit)) (s' : St) (h : mapTo k s p4 parents li huge frame flags pflags = (res, s')) :
    (∀ j i t t', parents[j]? = some i → tblAt s'.mem p4 (parents.take j) = some t →
      tblAt s'.mem p4 (parents.take (j + 1)) = some t' →
      s'.mem t i &&& pflags = pflags ∧ Pte.contains (s'.mem t i) pflags = true) ∧
    (res = .ok (.ok ()) → ∀ j i, parents[j]? = some i → ∃ t, tblAt s'.mem p4 (parents.take j) = some t ∧
      s'.mem t i &&& pflags = pflags) ∧
    (∀ f i, IsTable s.mem p4 f → s.mem f i &&& s'.mem f i = s.mem f i) := by
  obtain ⟨seg, he, hf⟩ := map_to_words k s p4 parents li huge sz frame flags pflags sh hinv hpi hpf hfl hfr hal _ s' h
  have hl3 := sh.len_le.2
  refine ⟨fun j i t t' hj ht ht' => (hf.done j i t t' hj ht ht').contains hpf, ?_, ?_⟩
  · -- on success the whole path exists afterwards
    intro hok j i hj
    obtain ⟨tl, htl, _⟩ := hf.leaf hok
    have hjl : j < parents.length := by
      apply Classical.byContradiction
      intro hge
      rw [List.getElem?_eq_none (by omega)] at hj; cases hj
    have hsplit : ∀ n, n ≤ parents.length → ∃ t, tblAt s'.mem p4 (parents.take n) = some t := by
      intro n _
      have hp : parents = parents.take n ++ parents.drop n := (List.take_append_drop n parents).symm
      rw [hp, tblAt_append] at htl
      cases hq : tblAt s'.mem p4 (parents.take n) with
      | none => rw [hq] at htl; cases htl
      | some t => exact ⟨t, rfl⟩
    obtain ⟨t, ht⟩ := hsplit j (by omega)
    obtain ⟨t', ht'⟩ := hsplit (j + 1) (by omega)
    exact ⟨t, ht, ((hf.done j i t t' hj ht ht').contains hpf).1⟩
  · intro f i ⟨q, hq, hqi, hqf⟩
    exact hf.keeps_bits hpf f i (fun hA => (hf.fresh f hA).notTable q hq hqi hqf)

/-! ### The other operations (Corollary 3)

These follow from the memory-level theorems `setParentFlags_mem`, `updateFlags_mem`, `unmap_mem`
(`Proofs/MapperOps.lean`), for every mapper kind (`setParentFlags_kind`, `updateFlags_kind`). -/

theorem setFlags_addr (e fl : Word) (h : fl &&& 0x000ffffffffff000#64 = 0#64) :
    Pte.addr (Pte.setFlags e fl) = Pte.addr e := by
  unfold Pte.setFlags Pte.addr Pte.ADDR_MASK
  unfold Word at *
  bv_decide

theorem hugeWord_addr (e fl : Word) (h : fl &&& 0x000fffffffffe000#64 = 0#64) :
    Pte.hugeAddr (Pte.mk (Pte.hugeAddr e) (fl ||| Pte.HUGE)) = Pte.hugeAddr e := by
  unfold Pte.mk Pte.hugeAddr Pte.HUGE
  unfold Word at *
  bv_decide

/-- **`set_flags_pN_entry`** (any mapper kind): an error changes nothing; on success exactly ONE word changes — the
entry — and it becomes exactly `Pte.setFlags old flags`: the same address (for flags without address bits, as
`ValidD` demands), the flags REPLACED by `flags` (this call — unlike `map_to` — can remove flags). -/
theorem set_parent_flags_words (k : Kind) (s : St) (p4 : Word) (parents : List Nat) (idx : Nat) (flags : Word)
    (hinv : Inv s.mem p4) (hlen : parents.length ≤ 3) (hidx : IdxOK parents) :
    match (setParentFlags k s p4 parents idx flags).1 with
    | .error _ => (setParentFlags k s p4 parents idx flags).2.mem = s.mem
    | .ok () => ∃ t, tblAt s.mem p4 parents = some t ∧ s.mem t idx ≠ 0#64 ∧
        (setParentFlags k s p4 parents idx flags).2.mem t idx = Pte.setFlags (s.mem t idx) flags ∧
        (flags &&& 0x000ffffffffff000#64 = 0#64 →
          Pte.addr ((setParentFlags k s p4 parents idx flags).2.mem t idx) = Pte.addr (s.mem t idx)) ∧
        ∀ f i, ¬ (f = t ∧ i = idx) → (setParentFlags k s p4 parents idx flags).2.mem f i = s.mem f i := by
  rw [setParentFlags_kind k s p4 parents idx flags hinv hlen hidx]
  have h := setParentFlags_mem s p4 parents idx flags
  cases hr : (setParentFlags ⟨false⟩ s p4 parents idx flags).1 with
  | error e => rw [hr] at h; exact h
  | ok u =>
    cases u
    rw [hr] at h
    obtain ⟨t, ht, hu, _, hm⟩ := h
    refine ⟨t, ht, ?_, ?_, ?_, ?_⟩
    · intro h0; rw [h0] at hu; simp [Pte.isUnused] at hu
    · rw [hm]; exact PMem.set_same _ _ _ _
    · intro hfl; rw [hm, PMem.set_same]; exact setFlags_addr _ _ hfl
    · intro f i hne; rw [hm]; exact PMem.set_other _ _ _ _ f i hne

/-- **`update_flags`** (any mapper kind): an error changes nothing; on success exactly ONE word changes — the page's
slot, which was non-zero — and it becomes `setFlags old flags` (4 KiB) / `mk (hugeAddr old) (flags ||| HUGE)`
(huge): same frame address (for flags without address bits), new flags. -/
theorem update_flags_words (k : Kind) (s : St) (p4 : Word) (parents : List Nat) (li : Nat) (huge : Bool) (flags : Word)
    (hinv : Inv s.mem p4) (hlen : parents.length ≤ 3) (hidx : IdxOK parents) :
    match (updateFlags k s p4 parents li huge flags).1 with
    | .error _ => (updateFlags k s p4 parents li huge flags).2.mem = s.mem
    | .ok () => ∃ t, tblAt s.mem p4 parents = some t ∧ s.mem t li ≠ 0#64 ∧
        (updateFlags k s p4 parents li huge flags).2.mem t li =
          (if huge then Pte.mk (Pte.hugeAddr (s.mem t li)) (flags ||| Pte.HUGE) else Pte.setFlags (s.mem t li) flags) ∧
        (huge = false → flags &&& 0x000ffffffffff000#64 = 0#64 →
          Pte.addr ((updateFlags k s p4 parents li huge flags).2.mem t li) = Pte.addr (s.mem t li)) ∧
        (huge = true → flags &&& 0x000fffffffffe000#64 = 0#64 →
          Pte.hugeAddr ((updateFlags k s p4 parents li huge flags).2.mem t li) = Pte.hugeAddr (s.mem t li)) ∧
        ∀ f i, ¬ (f = t ∧ i = li) → (updateFlags k s p4 parents li huge flags).2.mem f i = s.mem f i := by
  rw [updateFlags_kind k s p4 parents li huge flags hinv hlen hidx]
  have h := updateFlags_mem s p4 parents li huge flags
  cases hr : (updateFlags ⟨false⟩ s p4 parents li huge flags).1 with
  | error e => rw [hr] at h; exact h
  | ok u =>
    cases u
    rw [hr] at h
    obtain ⟨t, ht, hu, _, hm⟩ := h
    refine ⟨t, ht, ?_, ?_, ?_, ?_, ?_⟩
    · intro h0; rw [h0] at hu; simp [Pte.isUnused] at hu
    · rw [hm]; exact PMem.set_same _ _ _ _
    · intro hh hfl; subst hh; rw [hm, PMem.set_same]; exact setFlags_addr _ _ hfl
    · intro hh hfl; subst hh; rw [hm, PMem.set_same]; exact hugeWord_addr _ _ hfl
    · intro f i hne; rw [hm]; exact PMem.set_other _ _ _ _ f i hne

/-- **`unmap`**: an error changes nothing; on success exactly ONE word changes — the page's slot, which held a
present entry — and it becomes zero. -/
theorem unmap_words (s : St) (p4 : Word) (parents : List Nat) (li : Nat) (huge : Bool) (sz : Nat) :
    match (unmap s p4 parents li huge sz).1 with
    | .error _ => (unmap s p4 parents li huge sz).2.mem = s.mem
    | .ok _ => ∃ t, tblAt s.mem p4 parents = some t ∧ Pte.present (s.mem t li) = true ∧
        (unmap s p4 parents li huge sz).2.mem t li = 0#64 ∧
        ∀ f i, ¬ (f = t ∧ i = li) → (unmap s p4 parents li huge sz).2.mem f i = s.mem f i := by
  have h := unmap_mem s p4 parents li huge sz
  cases hr : (unmap s p4 parents li huge sz).1 with
  | error e => rw [hr] at h; exact h
  | ok fr =>
    rw [hr] at h
    obtain ⟨t, ht, hp, _, _, hm⟩ := h
    refine ⟨t, ht, hp, ?_, ?_⟩
    · rw [hm]; exact PMem.set_same _ _ _ _
    · intro f i hne; rw [hm]; exact PMem.set_other _ _ _ _ f i hne

/-! ### Histories (Corollary 4) -/

/-- **History theorem**: for every valid history `ops` from the empty level-4 table (any mapper kind, recursive
index, allocator answers honouring the contract; clean-up calls included) and EVERY `map_to` call of it
(`ops = pre ++ map … :: post`), successful or failed: in the memory `m1 = runHistory … pre` the history has reached
the invariant holds and the word-level classification `MapFacts` holds for the call — with `A` the frames the
allocator handed out during the call (`allocatedIn (callLog …)`, the set of `C09History`/`C10History`). -/
theorem history_map_words (k : Kind) (rIdx : Nat) (p4 : Word) (m : PMem) (hzero : ∀ i, m p4 i = 0#64)
    (ops : List HOp) (hv : HistoryValid k rIdx p4 m ops) (pre post : List HOp)
    (parents : List Nat) (li : Nat) (huge : Bool) (sz : Nat) (frame flags pflags : Word) (allocs : List (Option Word))
    (hops : ops = pre ++ .call (.map parents li huge sz frame flags pflags allocs) :: post) :
    Inv (runHistory k rIdx p4 m pre) p4 ∧
    MapFacts k pflags p4 (runHistory k rIdx p4 m pre)
      (runHistory k rIdx p4 m (pre ++ [.call (.map parents li huge sz frame flags pflags allocs)]))
      parents li (leafWord huge frame flags)
      (allocatedIn (C09History.callLog k rIdx p4 (runHistory k rIdx p4 m pre)
        (.call (.map parents li huge sz frame flags pflags allocs))))
      (mapTo k (⟨runHistory k rIdx p4 m pre, allocs, []⟩ : St) p4 parents li huge frame flags pflags).1 := by
  obtain ⟨hi, hvo⟩ := C10History.history_inv_valid k rIdx p4 pre ops m [] (init_inv m p4 hzero) (Rel.init p4 m hzero)
    hv _ post hops
  obtain ⟨sh, hpi, _, hpf, hfl, hfr, hal⟩ := hvo
  refine ⟨hi, ?_⟩
  have hrun : runHistory k rIdx p4 m (pre ++ [.call (.map parents li huge sz frame flags pflags allocs)]) =
      (mapTo k (⟨runHistory k rIdx p4 m pre, allocs, []⟩ : St) p4 parents li huge frame flags pflags).2.mem := by
    rw [runHistory_append]; rfl
  obtain ⟨seg, he, hf⟩ := map_to_words k (⟨runHistory k rIdx p4 m pre, allocs, []⟩ : St) p4 parents li huge sz frame
    flags pflags sh hi hpi hpf hfl hfr hal _ _ rfl
  have hlog : C09History.callLog k rIdx p4 (runHistory k rIdx p4 m pre)
      (.call (.map parents li huge sz frame flags pflags allocs)) = seg := by
    rw [C09History.events_init, List.nil_append] at he
    exact he
  rw [hrun, hlog]
  exact hf

/-- …in particular for a FAILED `map_to` of a valid history: only words of kinds (A), (B), (C) change — the missing
clause of `C10History.FailedCallOK`. -/
theorem history_failed_map_words (k : Kind) (rIdx : Nat) (p4 : Word) (m : PMem) (hzero : ∀ i, m p4 i = 0#64)
    (ops : List HOp) (hv : HistoryValid k rIdx p4 m ops) (pre post : List HOp)
    (parents : List Nat) (li : Nat) (huge : Bool) (sz : Nat) (frame flags pflags : Word) (allocs : List (Option Word))
    (hops : ops = pre ++ .call (.map parents li huge sz frame flags pflags allocs) :: post)
    (hfail : (exec k rIdx p4 (runHistory k rIdx p4 m pre)
      (.call (.map parents li huge sz frame flags pflags allocs))).1 = false) :
    ∀ f i, runHistory k rIdx p4 m (pre ++ [.call (.map parents li huge sz frame flags pflags allocs)]) f i ≠
        runHistory k rIdx p4 m pre f i →
      PathWord k pflags p4 (runHistory k rIdx p4 m pre)
        (runHistory k rIdx p4 m (pre ++ [.call (.map parents li huge sz frame flags pflags allocs)])) [] parents
        (allocatedIn (C09History.callLog k rIdx p4 (runHistory k rIdx p4 m pre)
          (.call (.map parents li huge sz frame flags pflags allocs)))) f i := by
  obtain ⟨_, hf⟩ := history_map_words k rIdx p4 m hzero ops hv pre post parents li huge sz frame flags pflags allocs hops
  have h1 : (exec k rIdx p4 (runHistory k rIdx p4 m pre) (.call (.map parents li huge sz frame flags pflags allocs))).1 =
      okMap (mapTo k (⟨runHistory k rIdx p4 m pre, allocs, []⟩ : St) p4 parents li huge frame flags pflags).1 := rfl
  rw [h1] at hfail
  cases hres : (mapTo k (⟨runHistory k rIdx p4 m pre, allocs, []⟩ : St) p4 parents li huge frame flags pflags).1 with
  | panic => rw [hres] at hf; exact absurd rfl hf.nopanic
  | ok r =>
    cases r with
    | ok u => cases u; rw [hres] at hfail; simp [okMap] at hfail
    | error e => rw [hres] at hf; exact hf.failed e rfl

/-- A changed NON-ZERO word of a table that existed before (successful or failed `map_to`) is a parent entry on the
page's path that gained the parent flags: `new = old ||| pflags`, same address. -/
theorem MapFacts.old_nonzero {k : Kind} {pflags p4 : Word} {m m' : PMem} {parents : List Nat} {li : Nat} {w : Word}
    {A : List Word} {res : R (Except MapErr Unit)} (hpf : ParentFlagsOK pflags)
    (h : MapFacts k pflags p4 m m' parents li w A res) (f : Word) (i : Nat) (hne : m' f i ≠ m f i)
    (hold : f ∉ A) (hnz : m f i ≠ 0#64) :
    m' f i = m f i ||| pflags ∧ tableAddr (m' f i) = tableAddr (m f i) ∧ ∃ j, OnPath m p4 [] parents j f i := by
  cases h.words f i hne with
  | path hp =>
    cases hp with
    | newZero hA _ => exact absurd hA hold
    | newLink j g hA _ _ _ _ => exact absurd hA hold
    | link j g _ _ hz _ _ _ => exact absurd hz hnz
    | addFlags j _ hp _ _ _ hv =>
      obtain ⟨a, b, _⟩ := addFlags_word _ _ pflags hpf hv
      exact ⟨a, b, j, hp⟩
  | newLeaf hA _ _ _ => exact absurd hA hold
  | leaf _ _ _ _ hz _ => exact absurd hz hnz

/-! ### Non-vacuity: concrete calls

Memory `m0` is all-zero, the level-4 table is `0x1000`, mapper kind `MappedPageTable`. -/

theorem runA : runHistory ⟨false⟩ 0 0x1000#64 m0 [opA] = mA := by
  rw [runHistory_cons, demo_exec1]; rfl

/-! #### (1) a fresh map with three new tables (`opA`, call 1 of `demoOps`) -/

/-- the theorem applies to the call; the changed word `(0x1000, 0)` is of kind (B) (`link`: it was zero, the table
existed), `(0x2000, 0)` and `(0x3000, 0)` of kind (A) (`newLink`), `(0x4000, 5)` of kind (A/D) (`newLeaf`) and every
other word of the three new tables is zero -/
example :
    MapFacts ⟨false⟩ 3#64 0x1000#64 m0 mA [0, 0, 0] 5 (leafWord false 0x5000#64 3#64)
      (allocatedIn (C09History.callLog ⟨false⟩ 0 0x1000#64 m0 opA))
      (mapTo ⟨false⟩ (⟨m0, [some 0x2000#64, some 0x3000#64, some 0x4000#64], []⟩ : St) 0x1000#64 [0, 0, 0] 5 false
        0x5000#64 3#64 3#64).1 := by
  have h : MapFacts ⟨false⟩ 3#64 0x1000#64 m0 (runHistory ⟨false⟩ 0 0x1000#64 m0 [opA]) [0, 0, 0] 5
      (leafWord false 0x5000#64 3#64) (allocatedIn (C09History.callLog ⟨false⟩ 0 0x1000#64 m0 opA))
      (mapTo ⟨false⟩ (⟨m0, [some 0x2000#64, some 0x3000#64, some 0x4000#64], []⟩ : St) 0x1000#64 [0, 0, 0] 5 false
        0x5000#64 3#64 3#64).1 :=
    (history_map_words ⟨false⟩ 0 0x1000#64 m0 (fun _ => rfl) demoOps demo_valid [] [opU, .cleanUp, opB, .cleanUp]
      [0, 0, 0] 5 false 4096 0x5000#64 3#64 3#64 [some 0x2000#64, some 0x3000#64, some 0x4000#64] rfl).2
  rw [runA] at h
  exact h

set_option maxRecDepth 1000000 in
/-- evaluation of that call: the allocated frames and the changed words -/
example :
    allocatedIn (C09History.callLog ⟨false⟩ 0 0x1000#64 m0 opA) = [0x2000#64, 0x3000#64, 0x4000#64] ∧
    mA 0x1000#64 0 = Pte.mk 0x2000#64 (linkFl ⟨false⟩ 3#64) ∧ mA 0x2000#64 0 = Pte.mk 0x3000#64 (linkFl ⟨false⟩ 3#64) ∧
    mA 0x3000#64 0 = Pte.mk 0x4000#64 (linkFl ⟨false⟩ 3#64) ∧ mA 0x4000#64 5 = leafWord false 0x5000#64 3#64 ∧
    mA 0x2000#64 1 = 0#64 ∧ mA 0x4000#64 4 = 0#64 := by
  refine ⟨?_, ?_, ?_, ?_, ?_, ?_, ?_⟩ <;> decide +kernel

/-! #### (2) a second map sharing the three parent tables, with MORE parent flags (`USER_ACCESSIBLE`): kind (C) -/

/-- `map_to` of the page `[0,0,0]/6` with parent flags `PRESENT | WRITABLE | USER_ACCESSIBLE` after `opA` (whose
parent flags were `PRESENT | WRITABLE`); no frame is needed -/
def opC : HOp := .call (.map [0, 0, 0] 6 false 4096 0x6000#64 3#64 7#64 [])

theorem opsC_valid : HistoryValid ⟨false⟩ 0 0x1000#64 m0 [opA, opC] := by
  have hi3 : IdxOK [0, 0, 0] := by intro j h; simp at h; omega
  rw [historyValid_cons, demo_exec1]
  refine ⟨demo_valid1, ⟨.s4k 0 0 0, hi3, by omega, ⟨by decide, by decide⟩, ?_, ?_, trivial⟩, trivial⟩
  · simp only [Bool.false_eq_true, if_false]; unfold LeafBits4K; decide
  · unfold FrameOK; simp only [if_true]; decide

set_option maxRecDepth 1000000 in
/-- evaluation: the call succeeds, allocates nothing, and the three parent entries `0x2003`, `0x3003`, `0x4003`
become `0x2007`, `0x3007`, `0x4007` -/
theorem opC_eval :
    (exec ⟨false⟩ 0 0x1000#64 mA opC).1 = true ∧
    allocatedIn (C09History.callLog ⟨false⟩ 0 0x1000#64 mA opC) = [] ∧
    mA 0x1000#64 0 = 0x2003#64 ∧ (exec ⟨false⟩ 0 0x1000#64 mA opC).2 0x1000#64 0 = 0x2007#64 ∧
    mA 0x2000#64 0 = 0x3003#64 ∧ (exec ⟨false⟩ 0 0x1000#64 mA opC).2 0x2000#64 0 = 0x3007#64 ∧
    mA 0x3000#64 0 = 0x4003#64 ∧ (exec ⟨false⟩ 0 0x1000#64 mA opC).2 0x3000#64 0 = 0x4007#64 ∧
    mA 0x4000#64 6 = 0#64 ∧ (exec ⟨false⟩ 0 0x1000#64 mA opC).2 0x4000#64 6 = 0x6003#64 := by
  refine ⟨?_, ?_, ?_, ?_, ?_, ?_, ?_, ?_, ?_, ?_⟩ <;> decide +kernel

/-- the theorem applied to that call: the changed non-zero word `(0x1000, 0)` of the old level-4 table is
`old ||| pflags` with the same table address (kind (C)) -/
example :
    (exec ⟨false⟩ 0 0x1000#64 mA opC).2 0x1000#64 0 = mA 0x1000#64 0 ||| 7#64 ∧
    tableAddr ((exec ⟨false⟩ 0 0x1000#64 mA opC).2 0x1000#64 0) = tableAddr (mA 0x1000#64 0) := by
  have h := (history_map_words ⟨false⟩ 0 0x1000#64 m0 (fun _ => rfl) [opA, opC] opsC_valid [opA] []
    [0, 0, 0] 6 false 4096 0x6000#64 3#64 7#64 [] rfl).2
  have hrun : runHistory ⟨false⟩ 0 0x1000#64 m0 ([opA] ++ [.call (.map [0, 0, 0] 6 false 4096 0x6000#64 3#64 7#64 [])]) =
      (exec ⟨false⟩ 0 0x1000#64 mA opC).2 := by
    rw [runHistory_append, runA]; rfl
  rw [hrun, runA] at h
  obtain ⟨e1, e2, e3, e4, _⟩ := opC_eval
  have := h.old_nonzero ⟨by decide, by decide⟩ 0x1000#64 0 (by rw [e3, e4]; decide)
    (by rw [show (HOp.call (.map [0, 0, 0] 6 false 4096 0x6000#64 3#64 7#64 [])) = opC from rfl, e2]; simp)
    (by rw [e3]; decide)
  exact ⟨this.1, this.2.1⟩

set_option maxRecDepth 1000000 in
/-- **Finding (model = crate): an entry is rewritten only if that changes it.** With parent flags the entries
already contain (`PRESENT | WRITABLE`) — or with `pflags = 0` — the descent only READS the parent entries; with an
additional flag it writes `old ||| pflags`. The classification is unaffected: an entry that is not rewritten
satisfies `new = setFlags old (flags old ||| pflags)` as well (`orFlags_noop`). -/
example :
    (mapTo ⟨false⟩ (⟨mA, [], []⟩ : St) 0x1000#64 [0, 0, 0] 6 false 0x6000#64 3#64 3#64).2.events =
      [.rd 0x1000#64 0, .rd 0x2000#64 0, .rd 0x3000#64 0, .rd 0x4000#64 6, .wr 0x4000#64 6 0x6003#64] ∧
    (mapTo ⟨false⟩ (⟨mA, [], []⟩ : St) 0x1000#64 [0, 0, 0] 6 false 0x6000#64 3#64 0#64).2.events =
      [.rd 0x1000#64 0, .rd 0x2000#64 0, .rd 0x3000#64 0, .rd 0x4000#64 6, .wr 0x4000#64 6 0x6003#64] ∧
    (mapTo ⟨false⟩ (⟨mA, [], []⟩ : St) 0x1000#64 [0, 0, 0] 6 false 0x6000#64 3#64 7#64).2.events =
      [.rd 0x1000#64 0, .wr 0x1000#64 0 0x2007#64, .rd 0x2000#64 0, .wr 0x2000#64 0 0x3007#64,
       .rd 0x3000#64 0, .wr 0x3000#64 0 0x4007#64, .rd 0x4000#64 6, .wr 0x4000#64 6 0x6003#64] := by
  refine ⟨?_, ?_, ?_⟩ <;> decide +kernel

/-! #### (3) a failed map that has written (`C10History.opF`: the third allocation is refused) -/

/-- the theorem applied to the failed call: the changed word `(0x1000, 0)` — an entry of the existing level-4
table — is of kind (A)/(B)/(C); by the evaluation `failed_map_links_new_table` it was zero and is now `0x2003`, i.e.
kind (B): the link to the new empty table `0x2000` -/
example :
    PathWord ⟨false⟩ 3#64 0x1000#64 m0 (exec ⟨false⟩ 0 0x1000#64 m0 C10History.opF).2 [] [0, 0, 0]
      (allocatedIn (C09History.callLog ⟨false⟩ 0 0x1000#64 m0 C10History.opF)) 0x1000#64 0 := by
  obtain ⟨hv, hfail, h0, h1, _⟩ := C10History.failed_map_links_new_table
  have h := history_failed_map_words ⟨false⟩ 0 0x1000#64 m0 (fun _ => rfl) [C10History.opF] hv [] []
    [0, 0, 0] 5 false 4096 0x5000#64 3#64 3#64 [some 0x2000#64, some 0x3000#64, none] rfl hfail 0x1000#64 0
  have hrun : runHistory ⟨false⟩ 0 0x1000#64 m0
      ([] ++ [.call (.map [0, 0, 0] 5 false 4096 0x5000#64 3#64 3#64 [some 0x2000#64, some 0x3000#64, none])]) =
      (exec ⟨false⟩ 0 0x1000#64 m0 C10History.opF).2 := rfl
  rw [hrun] at h
  exact h (by
    show (exec ⟨false⟩ 0 0x1000#64 m0 C10History.opF).2 0x1000#64 0 ≠ m0 0x1000#64 0
    rw [h1, h0]; decide)

end X86.C02Words
