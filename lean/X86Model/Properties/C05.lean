/-
C05 — Stepping treats the canonical address space as one contiguous sequence.

All statements quantify over every canonical start/end address and every count
below 2^64 (a `usize` on the 64-bit target), with no bound.
-/
import X86Model.Model.Page
import X86Model.Spec.Canon
import X86Model.Proofs.Tactics

namespace X86.C05
open X86 X86.Spec

/-! #### Addresses -/

/-- `forward_checked` = "n positions later in the contiguous canonical sequence, or none". -/
theorem forward_eq_spec (s n : Nat) (hs : canon s) (hn : n < 2^64) :
    VirtAddr.forwardCheckedU64 s n = forwardSpec s n := by
  unfold canon at hs
  simp only [VirtAddr.forwardCheckedU64, forwardSpec, unrank, checkedAdd]
  arith_split

/-- `backward_checked` = "n positions earlier, or none". -/
theorem backward_eq_spec (s n : Nat) (hs : canon s) (hn : n < 2^64) :
    VirtAddr.backwardCheckedU64 s n = backwardSpec s n := by
  unfold canon at hs
  simp only [VirtAddr.backwardCheckedU64, backwardSpec, unrank, checkedSub]
  arith_split

/-- `steps_between` = exact distance when the end is not before the start, else none. -/
theorem steps_eq_spec (s e : Nat) (hs : canon s) (he : canon e) :
    VirtAddr.stepsBetweenU64 s e = stepsSpec s e := by
  unfold canon at hs he
  simp only [VirtAddr.stepsBetweenU64, stepsSpec, checkedSub]
  arith_split

/-- "end not before start" in rank order is plain `≤` on canonical addresses. -/
theorem rank_le_iff (s e : Nat) (hs : canon s) (he : canon e) : rank s ≤ rank e ↔ s ≤ e := by
  unfold canon at hs he; unfold rank; omega

/-- Results of stepping are canonical. -/
theorem forwardSpec_canon (s n e : Nat) (h : forwardSpec s n = some e) : canon e := by
  simp only [forwardSpec, rank, unrank] at h
  unfold canon
  split at h <;> simp only [Option.some.injEq, reduceCtorEq] at h
  split at h <;> omega

theorem backwardSpec_canon (s n e : Nat) (h : backwardSpec s n = some e) : canon e := by
  simp only [backwardSpec, rank, unrank] at h
  unfold canon
  split at h <;> simp only [Option.some.injEq, reduceCtorEq] at h
  split at h <;> omega

/-- `unrank` and `rank` are mutually inverse on their domains. -/
theorem rank_unrank (r : Nat) (h : r < 2^48) : rank (unrank r) = r := by
  unfold rank unrank; split <;> omega

theorem unrank_rank (a : Nat) (h : canon a) : unrank (rank a) = a := by
  unfold canon at h; unfold rank unrank; split <;> omega

/-- forward, backward and steps-between are mutually inverse (the six Kani harnesses of
`addr.rs`, for all inputs). -/
theorem forward_backward (s n e : Nat) (hs : canon s) (hn : n < 2^64)
    (h : VirtAddr.forwardCheckedU64 s n = some e) :
    VirtAddr.backwardCheckedU64 e n = some s ∧ VirtAddr.stepsBetweenU64 s e = some n := by
  rw [forward_eq_spec s n hs hn] at h
  have he := forwardSpec_canon s n e h
  rw [backward_eq_spec e n he hn, steps_eq_spec s e hs he]
  unfold canon at hs he
  simp only [forwardSpec, backwardSpec, stepsSpec, rank, unrank] at *
  split at h <;> simp only [Option.some.injEq, reduceCtorEq] at h
  split at h <;> (constructor <;> (repeat' split) <;> first | omega | (simp only [Option.some.injEq]; omega))

theorem backward_forward (e n s : Nat) (he : canon e) (hn : n < 2^64)
    (h : VirtAddr.backwardCheckedU64 e n = some s) :
    VirtAddr.forwardCheckedU64 s n = some e ∧ VirtAddr.stepsBetweenU64 s e = some n := by
  rw [backward_eq_spec e n he hn] at h
  have hs := backwardSpec_canon e n s h
  rw [forward_eq_spec s n hs hn, steps_eq_spec s e hs he]
  unfold canon at hs he
  simp only [forwardSpec, backwardSpec, stepsSpec, rank, unrank] at *
  split at h <;> simp only [Option.some.injEq, reduceCtorEq] at h
  split at h <;> (constructor <;> (repeat' split) <;> first | omega | (simp only [Option.some.injEq]; omega))

theorem steps_forward (s e n : Nat) (hs : canon s) (he : canon e)
    (h : VirtAddr.stepsBetweenU64 s e = some n) :
    VirtAddr.forwardCheckedU64 s n = some e ∧ VirtAddr.backwardCheckedU64 e n = some s := by
  rw [steps_eq_spec s e hs he] at h
  have hn : n < 2^64 := by
    simp only [stepsSpec, rank] at h; split at h <;> simp only [Option.some.injEq, reduceCtorEq] at h; omega
  rw [forward_eq_spec s n hs hn, backward_eq_spec e n he hn]
  unfold canon at hs he
  simp only [forwardSpec, backwardSpec, stepsSpec, rank, unrank] at *
  split at h <;> simp only [Option.some.injEq, reduceCtorEq] at h
  constructor <;> (repeat' split) <;> first | omega | (simp only [Option.some.injEq]; omega)

/-- The `usize` pair returned by `Step::steps_between` on the 64-bit target. -/
theorem stepsBetweenImpl_eq (s e : Nat) (hs : canon s) (he : canon e) :
    VirtAddr.stepsBetweenImpl s e = stepsPairSpec 1 s e := by
  unfold VirtAddr.stepsBetweenImpl stepsPairSpec; rw [steps_eq_spec s e hs he]
  cases stepsSpec s e <;> simp only [Nat.div_one]

/-! #### Pages of the three sizes step in whole pages -/

/-- Stepping a page forward by `n` = stepping its start address by `n * SIZE`;
`none` when `n * SIZE` overflows or the position does not exist. -/
theorem page_forward_eq_spec (sz p n : Nat) (hsz : pageSize sz) (hp : canon p) (_hn : n < 2^64) :
    Page.forwardChecked sz p n = pageForwardSpec sz p n := by
  unfold Page.forwardChecked checkedMul pageForwardSpec
  by_cases h : n * sz < 2^64
  · simp only [h, if_true]; rw [forward_eq_spec p _ hp h]; rfl
  · simp only [h, if_false]
    unfold canon at hp
    rcases hsz with h' | h' | h' <;> subst h' <;> arith_split

theorem page_backward_eq_spec (sz p n : Nat) (hsz : pageSize sz) (hp : canon p) (_hn : n < 2^64) :
    Page.backwardChecked sz p n = pageBackwardSpec sz p n := by
  unfold Page.backwardChecked checkedMul pageBackwardSpec
  by_cases h : n * sz < 2^64
  · simp only [h, if_true]; rw [backward_eq_spec p _ hp h]; rfl
  · simp only [h, if_false]
    unfold canon at hp
    rcases hsz with h' | h' | h' <;> subst h' <;> arith_split

/-- Stepping keeps pages size-aligned and canonical. -/
theorem page_forward_aligned (sz p n q : Nat) (hsz : pageSize sz) (hp : canon p) (hn : n < 2^64)
    (hal : p % sz = 0) (h : Page.forwardChecked sz p n = some q) : q % sz = 0 ∧ canon q := by
  rw [page_forward_eq_spec sz p n hsz hp hn] at h
  unfold canon at hp ⊢
  simp only [unrank, pageForwardSpec, pageBackwardSpec] at h
  rcases hsz with h' | h' | h' <;> subst h' <;> arith_split

theorem page_backward_aligned (sz p n q : Nat) (hsz : pageSize sz) (hp : canon p) (hn : n < 2^64)
    (hal : p % sz = 0) (h : Page.backwardChecked sz p n = some q) : q % sz = 0 ∧ canon q := by
  rw [page_backward_eq_spec sz p n hsz hp hn] at h
  unfold canon at hp ⊢
  simp only [unrank, pageForwardSpec, pageBackwardSpec] at h
  rcases hsz with h' | h' | h' <;> subst h' <;> arith_split

/-- Steps between two pages = rank distance in pages. -/
theorem page_steps_eq_spec (sz s e : Nat) (hs : canon s) (he : canon e) :
    Page.stepsBetweenImpl sz s e = stepsPairSpec sz s e := by
  unfold Page.stepsBetweenImpl stepsPairSpec; rw [steps_eq_spec s e hs he]; cases stepsSpec s e <;> rfl

/-- For aligned pages the byte distance is a whole number of pages, so stepping forward by the
reported page count lands exactly on the end page (and stepping back returns to the start). -/
theorem page_steps_forward (sz s e d : Nat) (hsz : pageSize sz) (hs : canon s) (he : canon e)
    (hsa : s % sz = 0) (hea : e % sz = 0)
    (h : (Page.stepsBetweenImpl sz s e).2 = some d) :
    Page.forwardChecked sz s d = some e ∧ Page.backwardChecked sz e d = some s := by
  rw [page_steps_eq_spec sz s e hs he] at h
  have hd : d < 2^64 ∧ rank s ≤ rank e ∧ d = (rank e - rank s) / sz := by
    unfold canon at hs he
    simp only [stepsSpec, stepsPairSpec] at h
    rcases hsz with h' | h' | h' <;> subst h' <;> arith_split
  rw [page_forward_eq_spec sz s d hsz hs hd.1, page_backward_eq_spec sz e d hsz he hd.1]
  obtain ⟨_, h1, h2⟩ := hd
  unfold canon at hs he
  simp only [unrank, pageForwardSpec, pageBackwardSpec]
  rcases hsz with h' | h' | h' <;> subst h' <;> (constructor <;> arith_split)

/-- Forward then backward by the same page count returns to the start, and the page distance is the count. -/
theorem page_forward_backward (sz p n q : Nat) (hsz : pageSize sz) (hp : canon p) (hn : n < 2^64)
    (hal : p % sz = 0) (h : Page.forwardChecked sz p n = some q) :
    Page.backwardChecked sz q n = some p ∧ (Page.stepsBetweenImpl sz p q).2 = some n := by
  have hq := (page_forward_aligned sz p n q hsz hp hn hal h).2
  rw [page_backward_eq_spec sz q n hsz hq hn, page_steps_eq_spec sz p q hp hq]
  rw [page_forward_eq_spec sz p n hsz hp hn] at h
  unfold canon at hp hq
  simp only [unrank, stepsSpec, stepsPairSpec, pageForwardSpec, pageBackwardSpec] at h ⊢
  rcases hsz with h' | h' | h' <;> subst h' <;> (constructor <;> arith_split)

/-! #### Table indices step within 0..512 -/

theorem index_forward (i n : Nat) (_hi : i < 512) (_hn : n < 2^64) :
    PageTableIndex.forwardChecked i n = indexForwardSpec i n := by
  simp only [PageTableIndex.forwardChecked, checkedAdd, indexForwardSpec]
  arith_split

theorem index_backward (i n : Nat) :
    PageTableIndex.backwardChecked i n = indexBackwardSpec i n := by
  simp only [PageTableIndex.backwardChecked, checkedSub, indexBackwardSpec]

theorem index_steps (s e : Nat) :
    PageTableIndex.stepsBetween s e = indexStepsSpec s e := rfl

theorem index_forward_range (i n j : Nat) (hi : i < 512) (hn : n < 2^64)
    (h : PageTableIndex.forwardChecked i n = some j) : j < 512 := by
  rw [index_forward i n hi hn] at h; unfold indexForwardSpec at h; arith_split

theorem index_backward_range (i n j : Nat) (hi : i < 512)
    (h : PageTableIndex.backwardChecked i n = some j) : j < 512 := by
  rw [index_backward] at h; unfold indexBackwardSpec at h; arith_split

/-- Index stepping is mutually inverse as well. -/
theorem index_forward_backward (i n j : Nat) (hi : i < 512) (hn : n < 2^64)
    (h : PageTableIndex.forwardChecked i n = some j) :
    PageTableIndex.backwardChecked j n = some i ∧ (PageTableIndex.stepsBetween i j).2 = some n := by
  rw [index_forward i n hi hn] at h; rw [index_backward, index_steps]
  unfold indexForwardSpec at h; unfold indexBackwardSpec indexStepsSpec
  constructor <;> arith_split

/-! #### Non-vacuity: the hypotheses are met by concrete, non-trivial operands -/

example : canon 0x7fffffffffff ∧ forwardSpec 0x7fffffffffff 1 = some 0xffff800000000000 := by decide
example : VirtAddr.forwardCheckedU64 0x7fffffffffff 1 = some 0xffff800000000000 := by decide
example : VirtAddr.backwardCheckedU64 0xffff800000000000 1 = some 0x7fffffffffff := by decide
example : VirtAddr.stepsBetweenU64 0x7fffffffffff 0xffff800000000000 = some 1 := by decide
example : Page.forwardChecked 4096 0x7ffffffff000 1 = some 0xffff800000000000 := by decide
example : VirtAddr.forwardCheckedU64 0xffffffffffffffff 1 = none := by decide

end X86.C05
