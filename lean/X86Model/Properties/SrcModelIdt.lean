/- C12 carried over to the translated source: any history of `set_handler_addr` / option-setter calls executed
with the definitions *generated from `src/structures/idt.rs`* (`Generated/SrcFns.lean`) leaves an entry whose
bytes decode to the gate the architecture-level run of the history dictates (`C12.history`).

`set_handler_addr` itself reads the `CS` register and is not translated: its option part is the generated
`minimal()`, `set_code_selector(cs)`, `set_present(true)`; its three pointer assignments are transcribed here
(and validated by the correspondence and by the table extractor `gen_idt.py`). -/
import X86Model.Properties.SrcTie.IdtOpts
import X86Model.Properties.C12

set_option linter.unusedSimpArgs false

namespace X86.SrcModelIdt
open X86 X86.Generated X86.Idt X86.SrcTie X86.Spec

/-- The translator's `Entry<F>`. -/
abbrev SE := BitVec 16 × (BitVec 16 × BitVec 16) × BitVec 16 × BitVec 32 × BitVec 32

/-- Back from the tuple. -/
def ofTuple (t : SE) : Entry := ⟨t.1, ⟨t.2.1.1, t.2.1.2⟩, t.2.2.1, t.2.2.2.1, t.2.2.2.2⟩

theorem ofTuple_entTuple (e : Entry) : ofTuple (entTuple e) = e := rfl

/-- `options` replaced (what `&mut self.options` setters do to the entry). -/
def withOpts (t : SE) (o : BitVec 16 × BitVec 16) : SE := (t.1, o, t.2.2)

/-- One call of the history language of C12 on the generated definitions. -/
def srcApply (cfg : Cfg) (t : SE) : Idt.Op → R SE
  | .setHandlerAddr a cs =>
    ((Src.EntryOptions_minimal cfg).bind fun o0 =>
      (Src.EntryOptions_set_code_selector cfg o0 cs).bind fun o1 =>
      Src.EntryOptions_set_present cfg o1.2 true).map fun o =>
        (a.setWidth 16, o.2, (a >>> 16).setWidth 16, (a >>> 32).setWidth 32, t.2.2.2.2)
  | .setPresent b => (Src.EntryOptions_set_present cfg t.2.1 b).map fun o => withOpts t o.2
  | .disableInterrupts b => (Src.EntryOptions_disable_interrupts cfg t.2.1 b).map fun o => withOpts t o.2
  | .setPrivilegeLevel d => (Src.EntryOptions_set_privilege_level cfg t.2.1 (d.setWidth 8)).map fun o => withOpts t o.2
  | .setStackIndex i => (Src.EntryOptions_set_stack_index cfg t.2.1 i).map fun o => withOpts t o.2
  | .setCodeSelector s => (Src.EntryOptions_set_code_selector cfg t.2.1 s).map fun o => withOpts t o.2

theorem map_map {α β γ : Type} (r : R α) (f : α → β) (g : β → γ) : (r.map f).map g = r.map (fun a => g (f a)) := by
  cases r <;> rfl

/-- **One call**: the generated definitions do to the tuple what the model does to the entry. -/
theorem srcApply_eq (cfg : Cfg) (e : Entry) (op : Idt.Op) :
    srcApply cfg (entTuple e) op = (e.applyOp cfg op).map entTuple := by
  cases op with
  | setHandlerAddr a cs =>
    simp only [srcApply, Entry.applyOp]
    rw [EntryOptions_minimal, R.bind_ok]
    rw [EntryOptions_set_code_selector, Idt.minimal_eq, Idt.set_code_selector_eq]
    simp only [R.map, R.bind_ok, optRet]
    rw [EntryOptions_set_present, Idt.set_present_eq, Idt.set_handler_addr_eq]
    have hb : (0x0e00#16 ||| 0x8000#16) = 0x8e00#16 := by decide
    simp only [if_true, hb, R.map, optRet, optTuple, entTuple]
  | setPresent b =>
    simp only [srcApply, Entry.applyOp, entTuple]
    rw [EntryOptions_set_present, map_map, map_map]; rfl
  | disableInterrupts b =>
    simp only [srcApply, Entry.applyOp, entTuple]
    rw [EntryOptions_disable_interrupts, map_map, map_map]; rfl
  | setPrivilegeLevel d =>
    simp only [srcApply, Entry.applyOp, entTuple]
    rw [EntryOptions_set_privilege_level, map_map, map_map]; rfl
  | setStackIndex i =>
    simp only [srcApply, Entry.applyOp, entTuple]
    rw [EntryOptions_set_stack_index, map_map, map_map]; rfl
  | setCodeSelector s =>
    simp only [srcApply, Entry.applyOp, entTuple]
    rw [EntryOptions_set_code_selector, map_map, map_map]; rfl

/-- A history on the generated definitions, continuing after a refused call (the entry is then unchanged). -/
def srcFinal (cfg : Cfg) (t : SE) (ops : List Idt.Op) : SE :=
  ops.foldl (fun t op => match srcApply cfg t op with | .ok t' => t' | .panic => t) t

/-- **Histories**: by induction over the call list, for every entry and both profiles. -/
theorem srcFinal_eq (cfg : Cfg) (ops : List Idt.Op) (e : Entry) :
    srcFinal cfg (entTuple e) ops = entTuple (Entry.final cfg e ops) := by
  induction ops generalizing e with
  | nil => rfl
  | cons op rest ih =>
    simp only [srcFinal, Entry.final, List.foldl_cons]
    rw [srcApply_eq]
    cases h : e.applyOp cfg op with
    | ok e' => simp only [R.map]; exact ih e'
    | panic => simp only [R.map]; exact ih e

/-- **C12 for the translated source.** Start from `Entry::missing()` as the source builds it and make any finite
sequence of calls the gate format can express (any handler address, selector, present / interrupt-enable choice,
privilege level, stack index 0..6 - and in a checked build any stack index), continuing after a refused one: the
16 bytes of the entry decode to the gate obtained by applying, in order, the architecture-level operations. -/
theorem C12_history_of_source (cfg : Cfg) (ops : List Idt.Op) (hd : ∀ op ∈ ops, C12.InDomain cfg op) (t0 : SE)
    (h0 : Src.Entry_missing cfg = .ok t0) :
    decodeGate (ofTuple (srcFinal cfg t0 ops)).toBits = (decodeGate Entry.missing.toBits).final (ops.map C12.toSpec) := by
  rw [SrcTie.Entry_missing] at h0
  cases h0
  rw [srcFinal_eq, ofTuple_entTuple]
  exact (C12.history cfg ops Entry.missing (by rw [Idt.missing_eq]; decide) hd).1

/-- the example history: register a handler, make it a ring-3 trap gate on IST 3 (index 2), re-register -/
def demoOps : List Idt.Op :=
  [.setHandlerAddr 0xffff800000001234#64 8#16, .setPrivilegeLevel 3#2, .disableInterrupts false,
   .setStackIndex 2#16, .setHandlerAddr 0x5678#64 8#16]

/-- Non-vacuity: every call of the example history is in the domain… -/
example : ∀ op ∈ demoOps, C12.InDomain ⟨true⟩ op := by
  intro op h
  simp only [demoOps, List.mem_cons, List.mem_nil_iff, or_false] at h
  rcases h with h | h | h | h | h <;> subst h <;> simp [C12.InDomain]

/-- …and on the generated definitions it yields: after four calls a present ring-3 trap gate with IST 3; after the
re-registration the default options again (the customisation does not leak into the new registration). -/
example :
    (Src.Entry_missing ⟨true⟩).map (fun t => srcFinal ⟨true⟩ t (demoOps.take 4)) =
      .ok (0x1234#16, (8#16, 0xef03#16), 0x0000#16, 0xffff8000#32, 0#32) ∧
    (Src.Entry_missing ⟨true⟩).map (fun t => srcFinal ⟨true⟩ t demoOps) =
      .ok (0x5678#16, (8#16, 0x8e00#16), 0#16, 0#32, 0#32) := by
  decide +kernel

end X86.SrcModelIdt
