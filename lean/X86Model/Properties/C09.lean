/-
C09 — Mappers touch only page-table memory, zero new tables, allocate only as needed.

The mapper model appends every memory access (`rd f i`, `wr f i v`), every allocator request
(`alloc answer`) and every deallocation to a ghost log. The theorems below are about the log
segment `seg` one call appends (`s'.events = s.events ++ seg`), for every state satisfying the
hierarchy invariant, every page, every page size, every allocator answer sequence honouring the
`FrameAllocator` contract, and both mapper kinds.

* `map_to_log`: reads and writes touch only frames that were page tables of the hierarchy before
  the call or were handed out by the allocator during it; memory outside those frames is unchanged
  (`map_to_other_memory_unchanged`: in particular no mapped data frame and no foreign memory is
  modified); a frame obtained from the allocator is linked and then completely zeroed
  (`wr f 0 0 … wr f 511 0`) before anything else happens (`ZeroedAfterAlloc`); at most one request
  per parent level — 1/2/3 for 1 GiB/2 MiB/4 KiB (`map_to_alloc_bound`) — none when the tables exist
  (`map_to_no_alloc_when_tables_exist`); nothing is deallocated.
* `unmap_log`, `update_flags_log`, `set_parent_flags_log`, `translate_page_log`: every event is a
  read or write of a table of the hierarchy; no allocator request, no deallocation, memory outside
  the tables unchanged. (`translate`/`translate_addr`: `C01.translate_frame`,
  `C01.translate_reads_tables` — read-only, table frames only.)
* `clean_up_never_allocates`: clean-up only reads, unlinks and deallocates.
-/
import X86Model.Proofs.MapperLog
import X86Model.Properties.C01Map
import X86Model.Model.CleanUp

namespace X86.C09
open X86 X86.Spec X86.C01

/-! ### map_to -/

private theorem ite_snd' {α : Type} {P : St → Prop} {c : Prop} [Decidable c] {a b : α × St}
    (ha : c → P a.2) (hb : ¬ c → P b.2) : P (if c then a else b).2 := by
  by_cases h : c
  · rw [if_pos h]; exact ha h
  · rw [if_neg h]; exact hb h

/-- Log guarantee of `map_to` (`n` = number of parent levels of the page size). -/
structure MapLog (p4 : Word) (s s' : St) (seg : List Ev) (n : Nat) : Prop where
  events : s'.events = s.events ++ seg
  touch : ∀ ev ∈ seg, ∀ f, ev.frame? = some f → IsTable s.mem p4 f ∨ f ∈ allocatedIn seg
  memdiff : ∀ f i, s'.mem f i ≠ s.mem f i → IsTable s.mem p4 f ∨ f ∈ allocatedIn seg
  nodealloc : ∀ ev ∈ seg, ev.isDealloc = false
  count : allocCount seg ≤ n
  zeroed : ZeroedAfterAlloc seg

theorem MapLog.ofCreate {p4 : Word} {s s' : St} {seg : List Ev} {n : Nat} (h : CreateLog p4 s s' seg n) :
    MapLog p4 s s' seg n :=
  ⟨h.events, h.touch, h.memdiff, h.nodealloc, h.count, h.zeroed⟩

/-- the last step of `map_to`: read the slot, maybe write the leaf -/
private theorem MapLog.leaf {p4 : Word} {s s1 s' : St} {seg tail : List Ev} {n : Nat} {t : Word}
    (h : CreateLog p4 s s1 seg n) (ht : IsTable s1.mem p4 t)
    (he : s'.events = s1.events ++ tail)
    (htail : ∀ ev ∈ tail, (∃ i, ev = .rd t i) ∨ (∃ i v, ev = .wr t i v))
    (hm : ∀ f i, s'.mem f i ≠ s1.mem f i → f = t) : MapLog p4 s s' (seg ++ tail) n := by
  have lift : IsTable s.mem p4 t ∨ t ∈ allocatedIn (seg ++ tail) := by
    obtain ⟨q, hq, hqi, hf⟩ := ht
    rcases h.tree q t hq hqi hf with h' | h'
    · exact Or.inl ⟨q, hq, hqi, h'⟩
    · right; simp [h']
  have htailA : allocatedIn tail = [] := by
    unfold allocatedIn
    rw [List.filterMap_eq_nil_iff]
    intro ev hev
    rcases htail ev hev with ⟨i, rfl⟩ | ⟨i, v, rfl⟩ <;> rfl
  refine ⟨by rw [he, h.events]; simp, ?_, ?_, ?_, ?_, ?_⟩
  · intro ev hev f hf
    rcases List.mem_append.1 hev with h1 | h1
    · rcases h.touch ev h1 f hf with h' | h'
      · exact Or.inl h'
      · right; simp [h']
    · rcases htail ev h1 with ⟨i, rfl⟩ | ⟨i, v, rfl⟩ <;>
        (simp [Ev.frame?] at hf; subst hf; exact lift)
  · intro f i hne
    by_cases h1 : s'.mem f i = s1.mem f i
    · rcases h.memdiff f i (by rw [← h1]; exact hne) with h' | h'
      · exact Or.inl h'
      · right; simp [h']
    · rw [hm f i h1]; exact lift
  · intro ev hev
    rcases List.mem_append.1 hev with h1 | h1
    · exact h.nodealloc ev h1
    · rcases htail ev h1 with ⟨i, rfl⟩ | ⟨i, v, rfl⟩ <;> rfl
  · have : allocCount tail = 0 := by
      unfold allocCount
      rw [List.length_eq_zero_iff, List.filter_eq_nil_iff]
      intro ev hev
      rcases htail ev hev with ⟨i, rfl⟩ | ⟨i, v, rfl⟩ <;> simp [Ev.isAlloc]
    have := h.count
    simp; omega
  · apply h.zeroed.append
    exact ZeroedAfterAlloc.of_noAlloc (by
      intro f hf
      rcases htail _ hf with ⟨i, h⟩ | ⟨i, v, h⟩ <;> cases h)

/-- **map_to, log view** (any mapper kind, any page size, any allocator behaviour honouring the
contract): never panics, and the log segment of the call satisfies `MapLog`. -/
theorem map_to_log (k : Kind) (s : St) (p4 : Word) (parents : List Nat) (li : Nat) (huge : Bool) (sz : Nat)
    (frame flags pflags : Word)
    (sh : PageShape parents huge sz) (hinv : Inv s.mem p4) (hpi : IdxOK parents)
    (hpf : ParentFlagsOK pflags) (hal : AllocsOK s.mem p4 s.allocs) :
    match mapTo k s p4 parents li huge frame flags pflags with
    | (.panic, _) => Pte.aligned4K frame = false
    | (.ok _, s') => ∃ seg, MapLog p4 s s' seg parents.length := by
  obtain ⟨hl1, hl3⟩ := sh.len_le
  have hcp := createPath_ok k pflags p4 hpf parents [] p4 s hinv rfl (by simpa using hl3) (by simpa using hpi) hal
  have hlg := createPath_log k pflags p4 hpf parents [] p4 s hinv rfl (by simpa using hl3) (by simpa using hpi) hal
  unfold mapTo
  cases hc : createPath k pflags s p4 parents with
  | mk res s1 =>
    rw [hc] at hcp hlg
    cases res with
    | panic => exact hcp.elim
    | ok res' =>
      obtain ⟨seg, hl⟩ := hlg
      cases res' with
      | error e => cases e <;> exact ⟨seg, MapLog.ofCreate hl⟩
      | ok tl =>
        obtain ⟨_, htl⟩ := hcp
        simp only [List.nil_append] at htl
        have ht : IsTable s1.mem p4 tl := ⟨parents, hl3, hpi, htl⟩
        simp only [St.rd_fst]
        by_cases hu : Pte.isUnused (s1.mem tl li) = true
        · simp only [hu, Bool.not_true, Bool.false_eq_true, if_false]
          by_cases ha : Pte.aligned4K frame = true
          · simp only [ha, Bool.not_true, Bool.false_eq_true, if_false]
            refine ⟨seg ++ [.rd tl li, .wr tl li (Pte.mk frame (if huge = true then flags ||| Pte.HUGE else flags))], MapLog.leaf hl ht (by simp) ?_ ?_⟩
            · intro ev hev; simp at hev
              rcases hev with h | h
              · exact Or.inl ⟨li, h⟩
              · exact Or.inr ⟨li, _, h⟩
            · intro f i hne
              simp only [St.wr_mem, St.rd_mem] at hne
              by_cases hw : f = tl ∧ i = li
              · exact hw.1
              · exact absurd (PMem.set_other s1.mem tl li _ f i hw) hne
          · have ha' : Pte.aligned4K frame = false := by simpa using ha
            simp only [ha', Bool.not_false, if_true]
        · have hu' : Pte.isUnused (s1.mem tl li) = false := by simpa using hu
          simp only [hu', Bool.not_false, if_true]
          refine ⟨seg ++ [.rd tl li], MapLog.leaf hl ht (by simp) ?_ ?_⟩
          · intro ev hev; simp at hev; exact Or.inl ⟨li, hev⟩
          · intro f i hne; simp at hne

/-- **No mapped data frame and no other physical memory is modified**: a word outside the page
tables of the hierarchy (as they were before the call) and outside the frames the allocator handed
out during the call has the same value afterwards. -/
theorem map_to_other_memory_unchanged {p4 : Word} {s s' : St} {seg : List Ev} {n : Nat}
    (h : MapLog p4 s s' seg n) (f : Word) (i : Nat)
    (hnt : ¬ IsTable s.mem p4 f) (hna : f ∉ allocatedIn seg) : s'.mem f i = s.mem f i := by
  apply Classical.byContradiction
  intro hne
  rcases h.memdiff f i hne with h' | h'
  · exact hnt h'
  · exact hna h'

/-- **At most one/two/three frames are requested for a 1 GiB/2 MiB/4 KiB mapping.** -/
theorem map_to_alloc_bound {p4 : Word} {s s' : St} {seg : List Ev} {parents : List Nat} {huge : Bool} {sz : Nat}
    (sh : PageShape parents huge sz) (h : MapLog p4 s s' seg parents.length) :
    allocCount seg ≤ (if sz = 2^30 then 1 else if sz = 2^21 then 2 else 3) := by
  have := h.count
  cases sh <;> simpa using this

/-- **No frame is requested when the needed tables already exist**: if the page's parent tables are
all there, `map_to` makes no allocator request at all (and the allocator's state is untouched). -/
theorem map_to_no_alloc_when_tables_exist (k : Kind) (s : St) (p4 : Word) (parents : List Nat) (li : Nat)
    (huge : Bool) (sz : Nat) (frame flags pflags t : Word)
    (sh : PageShape parents huge sz) (hinv : Inv s.mem p4) (hpi : IdxOK parents)
    (hpf : ParentFlagsOK pflags) (hex : tblAt s.mem p4 parents = some t) :
    ∃ seg, (mapTo k s p4 parents li huge frame flags pflags).2.events = s.events ++ seg ∧
      allocCount seg = 0 ∧ (mapTo k s p4 parents li huge frame flags pflags).2.allocs = s.allocs := by
  obtain ⟨_, hl3⟩ := sh.len_le
  obtain ⟨seg, he, hcnt, hal, hres⟩ := createPath_exists k pflags p4 hpf parents [] p4 t s hinv rfl
    (by simpa using hex) (by simpa using hl3) (by simpa using hpi)
  unfold mapTo
  cases hc : createPath k pflags s p4 parents with
  | mk res s1 =>
    rw [hc] at he hal hres
    simp only at hres
    subst hres
    simp only [St.rd_fst]
    have h1 : allocCount (seg ++ [Ev.rd t li]) = 0 := by
      rw [allocCount_append, hcnt]; rfl
    have h2 : ∀ v, allocCount (seg ++ [Ev.rd t li, Ev.wr t li v]) = 0 := by
      intro v; rw [allocCount_append, hcnt]; rfl
    refine ite_snd' (P := fun st => ∃ seg, st.events = s.events ++ seg ∧ allocCount seg = 0 ∧ st.allocs = s.allocs)
      (fun _ => ⟨seg ++ [.rd t li], by simp [he], h1, by simpa using hal⟩) (fun _ => ?_)
    refine ite_snd' (P := fun st => ∃ seg, st.events = s.events ++ seg ∧ allocCount seg = 0 ∧ st.allocs = s.allocs)
      (fun _ => ⟨seg ++ [.rd t li], by simp [he], h1, by simpa using hal⟩) (fun _ => ?_)
    exact ⟨seg ++ [.rd t li, .wr t li (Pte.mk frame (if huge = true then flags ||| Pte.HUGE else flags))],
      by simp [he], h2 _, by simpa using hal⟩

/-! ### Operations that never allocate or free -/

private theorem ite_snd {α : Type} {P : St → Prop} {c : Prop} [Decidable c] {a b : α × St}
    (ha : c → P a.2) (hb : ¬ c → P b.2) : P (if c then a else b).2 := by
  by_cases h : c
  · rw [if_pos h]; exact ha h
  · rw [if_neg h]; exact hb h

/-- **unmap** touches only tables of the hierarchy (reads along the path, at most one write: the
page's own slot), consults no allocator, frees nothing. -/
theorem unmap_log (s : St) (p4 : Word) (parents : List Nat) (li : Nat) (huge : Bool) (sz : Nat)
    (hlen : parents.length ≤ 3) (hidx : IdxOK parents) :
    ∃ seg, TableOnly p4 s (unmap s p4 parents li huge sz).2 seg := by
  obtain ⟨seg, he, hm, ha, hok, hseg⟩ := descend_events' p4 parents [] p4 s rfl (by simpa using hlen) (by simpa using hidx)
  unfold unmap
  cases hd : descend s p4 parents with
  | mk res s1 =>
    rw [hd] at he hm ha hok
    cases res with
    | error e => exact ⟨seg, TableOnly.desc_end he hm ha hseg⟩
    | ok t =>
      have ht : IsTable s.mem p4 t := ⟨parents, hlen, hidx, by simpa using hok t rfl⟩
      simp only [St.rd_fst]
      refine ite_snd (P := fun st => ∃ seg, TableOnly p4 s st seg) (fun _ => ?_) (fun _ => ?_)
      · exact ⟨_, TableOnly.rd_end li he hm ha hseg ht⟩
      · refine ite_snd (P := fun st => ∃ seg, TableOnly p4 s st seg) (fun _ => ?_) (fun _ => ?_)
        · exact ⟨_, TableOnly.rd_end li he hm ha hseg ht⟩
        · refine ite_snd (P := fun st => ∃ seg, TableOnly p4 s st seg) (fun _ => ?_) (fun _ => ?_)
          · exact ⟨_, TableOnly.rd_end li he hm ha hseg ht⟩
          · exact ⟨_, TableOnly.wr_end li _ he hm ha hseg ht⟩

/-- **update_flags** (both mapper kinds). -/
theorem update_flags_log (k : Kind) (s : St) (p4 : Word) (parents : List Nat) (li : Nat) (huge : Bool)
    (flags : Word) (hk : KindOK k s.mem p4) (hlen : parents.length ≤ 3) (hidx : IdxOK parents) :
    ∃ seg, TableOnly p4 s (updateFlags k s p4 parents li huge flags).2 seg := by
  obtain ⟨seg, he, hm, ha, hok, hseg⟩ := descendK_events k p4 parents s hk hlen hidx
  unfold updateFlags
  cases hd : descendK k s p4 parents with
  | mk res s1 =>
    rw [hd] at he hm ha hok
    cases res with
    | error e => exact ⟨seg, TableOnly.desc_end he hm ha hseg⟩
    | ok t =>
      have ht : IsTable s.mem p4 t := ⟨parents, hlen, hidx, hok t rfl⟩
      simp only [St.rd_fst]
      refine ite_snd (P := fun st => ∃ seg, TableOnly p4 s st seg) (fun _ => ?_) (fun _ => ?_)
      · exact ⟨_, TableOnly.rd_end li he hm ha hseg ht⟩
      · refine ite_snd (P := fun st => ∃ seg, TableOnly p4 s st seg) (fun _ => ?_) (fun _ => ?_)
        · exact ⟨_, TableOnly.rd_end li he hm ha hseg ht⟩
        · exact ⟨_, TableOnly.wr_end li _ he hm ha hseg ht⟩

/-- **set_flags_p4_entry / p3 / p2** (both mapper kinds). -/
theorem set_parent_flags_log (k : Kind) (s : St) (p4 : Word) (parents : List Nat) (idx : Nat)
    (flags : Word) (hk : KindOK k s.mem p4) (hlen : parents.length ≤ 3) (hidx : IdxOK parents) :
    ∃ seg, TableOnly p4 s (setParentFlags k s p4 parents idx flags).2 seg := by
  obtain ⟨seg, he, hm, ha, hok, hseg⟩ := descendK_events k p4 parents s hk hlen hidx
  unfold setParentFlags
  cases hd : descendK k s p4 parents with
  | mk res s1 =>
    rw [hd] at he hm ha hok
    cases res with
    | error e => exact ⟨seg, TableOnly.desc_end he hm ha hseg⟩
    | ok t =>
      have ht : IsTable s.mem p4 t := ⟨parents, hlen, hidx, hok t rfl⟩
      simp only [St.rd_fst]
      refine ite_snd (P := fun st => ∃ seg, TableOnly p4 s st seg) (fun _ => ?_) (fun _ => ?_)
      · exact ⟨_, TableOnly.rd_end idx he hm ha hseg ht⟩
      · refine ite_snd (P := fun st => ∃ seg, TableOnly p4 s st seg) (fun _ => ?_) (fun _ => ?_)
        · exact ⟨_, TableOnly.rd_end idx he hm ha hseg ht⟩
        · exact ⟨_, TableOnly.wr_end idx _ he hm ha hseg ht⟩

/-- **translate_page** (both mapper kinds): reads only, tables only. -/
theorem translate_page_log (k : Kind) (s : St) (p4 : Word) (parents : List Nat) (li : Nat) (huge : Bool)
    (sz : Nat) (hk : KindOK k s.mem p4) (hlen : parents.length ≤ 3) (hidx : IdxOK parents) :
    ∃ seg, TableOnly p4 s (translatePage k s p4 parents li huge sz).2 seg ∧ ∀ ev ∈ seg, ev.isRead = true := by
  obtain ⟨seg, he, hm, ha, hok, hseg⟩ := descendK_events k p4 parents s hk hlen hidx
  have hrd : ∀ ev ∈ seg, ev.isRead = true := by
    intro ev h; obtain ⟨f, i, rfl, _⟩ := hseg ev h; rfl
  have hrd' : ∀ i t, ∀ ev ∈ seg ++ [Ev.rd t i], ev.isRead = true := by
    intro i t ev h
    rcases List.mem_append.1 h with h | h
    · exact hrd ev h
    · simp at h; subst h; rfl
  unfold translatePage
  cases hd : descendK k s p4 parents with
  | mk res s1 =>
    rw [hd] at he hm ha hok
    cases res with
    | error e => exact ⟨seg, TableOnly.desc_end he hm ha hseg, hrd⟩
    | ok t =>
      have ht : IsTable s.mem p4 t := ⟨parents, hlen, hidx, hok t rfl⟩
      simp only [St.rd_fst]
      refine ite_snd (P := fun st => ∃ seg, TableOnly p4 s st seg ∧ ∀ ev ∈ seg, ev.isRead = true) (fun _ => ?_) (fun _ => ?_)
      · exact ⟨_, TableOnly.rd_end li he hm ha hseg ht, hrd' li t⟩
      · refine ite_snd (P := fun st => ∃ seg, TableOnly p4 s st seg ∧ ∀ ev ∈ seg, ev.isRead = true) (fun _ => ?_) (fun _ => ?_)
        · exact ⟨_, TableOnly.rd_end li he hm ha hseg ht, hrd' li t⟩
        · refine ite_snd (P := fun st => ∃ seg, TableOnly p4 s st seg ∧ ∀ ev ∈ seg, ev.isRead = true) (fun _ => ?_) (fun _ => ?_)
          · exact ⟨_, TableOnly.rd_end li he hm ha hseg ht, hrd' li t⟩
          · exact ⟨_, TableOnly.rd_end li he hm ha hseg ht, hrd' li t⟩

/-- What `TableOnly` means for the rest of physical memory: every word outside the page tables of
the hierarchy is unchanged; no allocator request; no deallocation. -/
theorem table_only_other_memory_unchanged {p4 : Word} {s s' : St} {seg : List Ev}
    (h : TableOnly p4 s s' seg) (f : Word) (i : Nat) (hnt : ¬ IsTable s.mem p4 f) :
    s'.mem f i = s.mem f i := by
  apply Classical.byContradiction
  intro hne
  exact hnt (h.memdiff f i hne)

theorem table_only_no_alloc_no_dealloc {p4 : Word} {s s' : St} {seg : List Ev}
    (h : TableOnly p4 s s' seg) : allocCount seg = 0 ∧ (∀ ev ∈ seg, ev.isDealloc = false) ∧ s'.allocs = s.allocs :=
  ⟨h.noAlloc.1, h.noAlloc.2, h.allocs⟩

/-! ### Clean-up only reads, unlinks and releases -/

/-- `s'` extends `s` by events none of which is an allocator request; the allocator is untouched. -/
def NoAllocExt (s s' : St) : Prop :=
  ∃ seg, s'.events = s.events ++ seg ∧ (∀ ev ∈ seg, ev.isAlloc = false) ∧ s'.allocs = s.allocs

theorem NoAllocExt.refl (s : St) : NoAllocExt s s := by
  refine ⟨[], by simp, ?_, rfl⟩
  intro ev h; cases h

theorem NoAllocExt.trans {a b c : St} (h1 : NoAllocExt a b) (h2 : NoAllocExt b c) : NoAllocExt a c := by
  obtain ⟨s1, e1, n1, a1⟩ := h1
  obtain ⟨s2, e2, n2, a2⟩ := h2
  refine ⟨s1 ++ s2, by rw [e2, e1]; simp, ?_, by rw [a2, a1]⟩
  intro ev h
  rcases List.mem_append.1 h with h | h
  · exact n1 ev h
  · exact n2 ev h

theorem NoAllocExt.rd (s : St) (f : Word) (i : Nat) : NoAllocExt s (s.rd f i).2 :=
  ⟨[.rd f i], by simp, by intro ev h; simp at h; subst h; rfl, rfl⟩
theorem NoAllocExt.wr (s : St) (f : Word) (i : Nat) (v : Word) : NoAllocExt s (s.wr f i v) :=
  ⟨[.wr f i v], by simp, by intro ev h; simp at h; subst h; rfl, rfl⟩
theorem NoAllocExt.dealloc (s : St) (f : Word) : NoAllocExt s (s.dealloc f) :=
  ⟨[.dealloc f], by simp, by intro ev h; simp at h; subst h; rfl, rfl⟩

private theorem tableIsEmpty_go_noalloc (tbl : Word) : ∀ (fuel : Nat) (s : St) (i : Nat),
    NoAllocExt s (tableIsEmpty.go tbl s i fuel).2 := by
  intro fuel
  induction fuel with
  | zero => intro s i; exact NoAllocExt.refl s
  | succ n ih =>
    intro s i
    simp only [tableIsEmpty.go]
    split
    · exact (NoAllocExt.rd s tbl i).trans (ih _ _)
    · exact NoAllocExt.rd s tbl i

theorem tableIsEmpty_noalloc (s : St) (tbl : Word) : NoAllocExt s (tableIsEmpty s tbl).2 :=
  tableIsEmpty_go_noalloc tbl 512 s 0

private theorem foldl_noalloc {α : Type} (step : R Unit × St → α → R Unit × St)
    (hstep : ∀ acc a, NoAllocExt acc.2 (step acc a).2) :
    ∀ (l : List α) (init : R Unit × St), NoAllocExt init.2 (l.foldl step init).2 := by
  intro l
  induction l with
  | nil => intro init; exact NoAllocExt.refl _
  | cons a l ih => intro init; rw [List.foldl_cons]; exact (hstep init a).trans (ih _)

/-- **Clean-up never requests a frame** (any mapper kind, any level, any range; no invariant
needed): its log consists of reads, writes and deallocations only. -/
theorem clean_up_level_never_allocates (k : Kind) (rIdx : Nat) :
    ∀ (level : Nat) (s : St) (tbl : Word) (rs re : Nat),
      NoAllocExt s (cleanUpLevel k rIdx level s tbl rs re).2 := by
  intro level
  induction level with
  | zero => intro s tbl rs re; exact NoAllocExt.refl s
  | succ level ih =>
    intro s tbl rs re
    unfold cleanUpLevel
    simp only
    split
    · exact NoAllocExt.refl s
    · split
      · exact NoAllocExt.refl s
      · split
        · exact tableIsEmpty_noalloc s tbl
        · -- the loop over the entries in the window, then the emptiness test
          have hstep : ∀ (F : R Unit × St → Nat → R Unit × St) (l : List Nat) (x : R Unit × St),
              (∀ acc i, NoAllocExt acc.2 (F acc i).2) → List.foldl F (R.ok (), s) l = x → NoAllocExt s x.2 := by
            intro F l x hF hx
            rw [← hx]
            exact foldl_noalloc F hF l (R.ok (), s)
          split
          · rename_i heq
            refine hstep _ _ _ ?_ heq
            intro acc i
            obtain ⟨r, s0⟩ := acc
            cases r with
            | panic => exact NoAllocExt.refl _
            | ok u =>
              cases u
              simp only
              split
              · exact NoAllocExt.refl _
              · split
                · exact NoAllocExt.rd s0 tbl i
                · split
                  · exact NoAllocExt.rd s0 tbl i
                  · split
                    · exact NoAllocExt.rd s0 tbl i
                    · rename_i child _ _ st0 _ _ en0 _
                      have hrec := ih (s0.rd tbl i).2 child
                        (max (Page.containingAddress 4096 st0) rs) (min (Page.containingAddress 4096 en0) re)
                      split
                      · rename_i heq; rw [heq] at hrec; exact (NoAllocExt.rd s0 tbl i).trans hrec
                      · rename_i heq; rw [heq] at hrec; exact (NoAllocExt.rd s0 tbl i).trans hrec
                      · rename_i heq; rw [heq] at hrec
                        exact ((NoAllocExt.rd s0 tbl i).trans hrec).trans
                          ((NoAllocExt.wr _ tbl i 0#64).trans (NoAllocExt.dealloc _ _))
          · rename_i heq
            refine (hstep _ _ _ ?_ heq).trans (tableIsEmpty_noalloc _ tbl)
            intro acc i
            obtain ⟨r, s0⟩ := acc
            cases r with
            | panic => exact NoAllocExt.refl _
            | ok u =>
              cases u
              simp only
              split
              · exact NoAllocExt.refl _
              · split
                · exact NoAllocExt.rd s0 tbl i
                · split
                  · exact NoAllocExt.rd s0 tbl i
                  · split
                    · exact NoAllocExt.rd s0 tbl i
                    · rename_i child _ _ st0 _ _ en0 _
                      have hrec := ih (s0.rd tbl i).2 child
                        (max (Page.containingAddress 4096 st0) rs) (min (Page.containingAddress 4096 en0) re)
                      split
                      · rename_i heq; rw [heq] at hrec; exact (NoAllocExt.rd s0 tbl i).trans hrec
                      · rename_i heq; rw [heq] at hrec; exact (NoAllocExt.rd s0 tbl i).trans hrec
                      · rename_i heq; rw [heq] at hrec
                        exact ((NoAllocExt.rd s0 tbl i).trans hrec).trans
                          ((NoAllocExt.wr _ tbl i 0#64).trans (NoAllocExt.dealloc _ _))

theorem clean_up_never_allocates (k : Kind) (rIdx : Nat) (s : St) (p4 : Word) (rs re : Nat) :
    NoAllocExt s (cleanUpRange k rIdx s p4 rs re).2 := by
  unfold cleanUpRange
  have := clean_up_level_never_allocates k rIdx 4 s p4 rs re
  split <;> (rename_i heq; rw [heq] at this; exact this)

/-! ### Non-vacuity: the hypotheses are met by a concrete state, and the log looks as stated

An empty level-4 table at `0x1000` over all-zero memory, an allocator that will answer `0x2000`,
`0x3000`, then refuse. -/

def demo : St := { mem := fun _ _ => 0#64, allocs := [some 0x2000#64, some 0x3000#64, none], log := [] }

private theorem demo_root : ∀ (q : List Nat) (f : Word), tblAt demo.mem 0x1000#64 q = some f → q = [] ∧ f = 0x1000#64 := by
  intro q f h
  cases q with
  | nil => simp [tblAt] at h; exact ⟨rfl, h.symm⟩
  | cons j q =>
    have : tableOf (demo.mem 0x1000#64 j) = none := by show tableOf 0#64 = none; decide
    simp [tblAt, this] at h

example : Inv demo.mem 0x1000#64 := init_inv demo.mem 0x1000#64 (fun _ => rfl)

example : AllocsOK demo.mem 0x1000#64 demo.allocs := by
  refine ⟨⟨by decide, ?_⟩, ?_, ⟨by decide, ?_⟩, ?_, trivial⟩
  · intro q _ _ h; have := (demo_root q _ h).2; exact absurd this (by decide)
  · intro g hg; simp at hg; subst hg; decide
  · intro q _ _ h; have := (demo_root q _ h).2; exact absurd this (by decide)
  · intro g hg; simp at hg

example : ParentFlagsOK 3#64 ∧ PageShape [0, 0] true (2^21) ∧ IdxOK [0, 0] :=
  ⟨⟨by decide, by decide⟩, .s2m 0 0, by intro j h; simp at h; omega⟩

/-- 2 MiB page into the empty hierarchy: two allocator requests, each followed by the link and the
512 zeroing writes, then the slot is read and the leaf written — 2·(1+1+1+512) + 2 events. -/
example :
    let r := mapTo ⟨false⟩ demo 0x1000#64 [0, 0] 5 true 0x40000000#64 1#64 3#64
    allocCount r.2.events = 2 ∧ r.2.events.length = 2 * 515 + 2 ∧ allocatedIn r.2.events = [0x2000#64, 0x3000#64] ∧
    r.2.events.take 4 = [.rd 0x1000#64 0, .alloc (some 0x2000#64), .wr 0x1000#64 0 0x2003#64, .wr 0x2000#64 0 0#64] ∧
    (r.2.events.drop 515).take 3 = [.rd 0x2000#64 0, .alloc (some 0x3000#64), .wr 0x2000#64 0 0x3003#64] ∧
    r.2.events.drop 1030 = [.rd 0x3000#64 5, .wr 0x3000#64 5 0x40000081#64] := by
  set_option maxRecDepth 100000 in decide

/-- The third request is refused: a 4 KiB map fails after two allocations, and still the new tables
were zeroed and nothing else was touched. -/
example :
    let r := mapTo ⟨false⟩ demo 0x1000#64 [0, 0, 0] 5 false 0x5000#64 1#64 3#64
    (match r.1 with | .ok (.error .allocFailed) => true | _ => false) = true ∧ allocCount r.2.events = 3 ∧
    allocatedIn r.2.events = [0x2000#64, 0x3000#64] ∧ r.2.events.length = 2 * 515 + 2 := by
  set_option maxRecDepth 100000 in decide

/-- the same empty hierarchy with three frames to hand out (used by the C10 examples) -/
def demo3 : St := { mem := fun _ _ => 0#64, allocs := [some 0x2000#64, some 0x3000#64, some 0x4000#64], log := [] }

theorem demo3_allocsOK : AllocsOK demo3.mem 0x1000#64 demo3.allocs := by
  have hroot : ∀ (q : List Nat) (f : Word), tblAt demo3.mem 0x1000#64 q = some f → f = 0x1000#64 := by
    intro q f h
    cases q with
    | nil => simp [tblAt] at h; exact h.symm
    | cons j q =>
      have : tableOf (demo3.mem 0x1000#64 j) = none := by show tableOf 0#64 = none; decide
      simp [tblAt, this] at h
  refine ⟨⟨by decide, ?_⟩, ?_, ⟨by decide, ?_⟩, ?_, ⟨by decide, ?_⟩, ?_, trivial⟩
  · intro q _ _ h; exact absurd (hroot q _ h) (by decide)
  · intro g hg; simp [demo3] at hg; rcases hg with rfl | rfl <;> decide
  · intro q _ _ h; exact absurd (hroot q _ h) (by decide)
  · intro g hg; simp [demo3] at hg; subst hg; decide
  · intro q _ _ h; exact absurd (hroot q _ h) (by decide)
  · intro g hg; simp [demo3] at hg

end X86.C09
