/-
C18 — Port objects perform exactly one access of their width on their port.

Small on purpose: the logic of `port.rs` is one line per function; what matters is the
instruction that is really executed (opcode, DX, accumulator), which the exhaustive
correspondence check observes (all 65536 ports x 3 widths x access kinds).
All statements hold for every port object (every width, access kind, port number), every
value and every machine state (in particular every device behaviour `c.dev`).
-/
import X86Model.Model.Port
import X86Model.Spec.Port
import X86Model.Proofs.TrapBits
import X86Model.Spec.AsmOptions

namespace X86.C18
open X86 X86.Spec X86.Port

/-- A read executes exactly one instruction: the `in` of the object's width with DX = the
object's port. -/
theorem read_trace (p : PortGeneric) (c : Cpu) :
    (read p c).trace = [Insn.inp p.width p.port] := rfl

/-- A read returns exactly the datum the device supplied (its low `width` bits), unchanged. -/
theorem read_returns_device_value (p : PortGeneric) (c : Cpu) :
    (read p c).res = .ok (c.dev p.port p.width &&& p.width.mask) := by
  simp only [Port.read, readFromPort, bind, M.bind, M.insn, step, Out.one, pure, M.pure, trunc32_zext64]

/-- A read changes no register. -/
theorem read_state (p : PortGeneric) (c : Cpu) : (read p c).cpu = c := rfl

/-- A write executes exactly one instruction: the `out` of the object's width with DX = the
object's port and the accumulator holding exactly the given value; it never panics. -/
theorem write_trace (p : PortGeneric) (v : BitVec 32) (c : Cpu) :
    (write p v c).trace = [Insn.out p.width p.port v] ∧ (write p v c).res = .ok () ∧
    (write p v c).cpu = c := ⟨rfl, rfl, rfl⟩

/-- Neither access touches memory: the executed instructions have no memory operand. -/
theorem no_memory_event (p : PortGeneric) (v : BitVec 32) (c : Cpu) :
    (∀ i ∈ (read p c).trace, i.touchesMemory = false) ∧
    (∀ i ∈ (write p v c).trace, i.touchesMemory = false) := by
  constructor <;> intro i hi
  · rw [read_trace] at hi; simp only [List.mem_singleton] at hi; subst hi; rfl
  · rw [(write_trace p v c).1] at hi; simp only [List.mem_singleton] at hi; subst hi; rfl

/-- Port objects (of the same value type and access kind) are equal exactly when their port
numbers are equal. -/
theorem eq_iff (p q : PortGeneric) : Port.eq p q = true ↔ p.port = q.port := by
  simp only [Port.eq, beq_iff_eq]

/-- A clone refers to the same port (it is the same object). -/
theorem clone_same (p : PortGeneric) : clone p = p ∧ (clone p).port = p.port := ⟨rfl, rfl⟩

/-- Accesses through a clone are the same accesses. -/
theorem clone_access (p : PortGeneric) (v : BitVec 32) (c : Cpu) :
    read (clone p) c = read p c ∧ write (clone p) v c = write p v c := ⟨rfl, rfl⟩

/-- The width of the executed instruction is the width of the object's value type, for each
of the three types, and the access kind plays no role. -/
theorem access_kind_irrelevant (w : Width) (a b : Access) (port : BitVec 16) (v : BitVec 32) (c : Cpu) :
    (read (new w a port) c).trace = (read (new w b port) c).trace ∧
    (write (new w a port) v c).trace = (write (new w b port) v c).trace := ⟨rfl, rfl⟩

/-- The model's accesses satisfy the observer-level specification (`Spec/Port.lean`: one
instruction, opcode of the width, DX = port, accumulator = datum, returned value = datum),
which is the oracle the correspondence check evaluates on the real crate's trapped
instructions. -/
theorem read_meets_spec (p : PortGeneric) (c : Cpu) (ret : BitVec 32)
    (h : (read p c).res = .ok ret) :
    portReadOk p.width p.port.toNat (c.dev p.port p.width).toNat
      ((read p c).trace.filterMap (Insn.portEv c)) ret.toNat = true := by
  rw [read_returns_device_value] at h
  injection h with h
  subst h
  simp only [read_trace, List.filterMap_cons, List.filterMap_nil, Insn.portEv, portReadOk, Width.mask_toNat,
    beq_self_eq_true, Bool.and_self]

theorem write_meets_spec (p : PortGeneric) (v : BitVec 32) (c : Cpu) :
    portWriteOk p.width p.port.toNat v.toNat
      ((write p v c).trace.filterMap (Insn.portEv c)) = true := by
  simp only [(write_trace p v c).1, List.filterMap_cons, List.filterMap_nil, Insn.portEv,
    portWriteOk, Width.mask_toNat, beq_self_eq_true, Bool.and_self]

/-! Non-vacuity: concrete ports, widths and device values. -/

private def devEx : Cpu := { Cpu.zero with dev := fun port _ => (port.zeroExtend 32) ||| 0xabcd0000#32 }

example : (read (new .b8 .readOnly 0x3f8#16) devEx).res = .ok 0xf8#32 := by decide
example : (read (new .b16 .readWrite 0x3f8#16) devEx).res = .ok 0x03f8#32 := by decide
example : (read (new .b32 .readWrite 0xffff#16) devEx).res = .ok 0xabcdffff#32 := by decide
example : (write (new .b16 .writeOnly 0x80#16) 0x1234#32 devEx).trace = [Insn.out .b16 0x80#16 0x1234#32] := rfl
example : Port.eq (new .b8 .readWrite 1#16) (new .b8 .readWrite 2#16) = false := by decide

/-! ### The `asm!` blocks behind this property (re-extracted from the source on every run)

`Generated.asmSites` is rewritten by `translator/gen_asm.py` from the `asm!` invocations of the
crate; the theorems below are re-checked by the kernel against what the source says now. They
constrain what the compiler may do with the blocks (delete, merge, hoist, reorder memory accesses
across them) — behaviour that only shows in particular build profiles. -/

/-- Every `asm!` block of the files this property is anchored in carries only options its
instructions admit (`Spec/AsmOptions.lean`): no `pure` on instructions with side effects, no
`nomem`/`readonly` where the hardware dereferences the operand, no `nostack` on pushes/pops. -/
theorem asm_options_admissible :
    ∀ s ∈ Spec.AsmOptions.sitesOfFiles ["src/instructions/port.rs"], Spec.AsmOptions.admissible s = true := by
  decide +kernel

example : (Spec.AsmOptions.sitesOfFiles ["src/instructions/port.rs"]).length > 0 := by decide +kernel

/-- The six port blocks: one `in`/`out` of the width's accumulator with the port in DX, value in
AL/AX/EAX, and nothing else. -/
theorem port_blocks_shape :
    (Spec.AsmOptions.sitesOfFiles ["src/instructions/port.rs"]).map (fun s => (s.func, s.insns, s.operands)) =
      [("read_from_port", ["in al, dx"], ["out(\"al\")", "in(\"dx\")"]),
       ("read_from_port", ["in ax, dx"], ["out(\"ax\")", "in(\"dx\")"]),
       ("read_from_port", ["in eax, dx"], ["out(\"eax\")", "in(\"dx\")"]),
       ("write_to_port", ["out dx, al"], ["in(\"dx\")", "in(\"al\")"]),
       ("write_to_port", ["out dx, ax"], ["in(\"dx\")", "in(\"ax\")"]),
       ("write_to_port", ["out dx, eax"], ["in(\"dx\")", "in(\"eax\")"])] := by
  decide +kernel

end X86.C18
