/-
C01 / C02 — `map_to`: effect on the hardware walk for every virtual address, for every page size,
mapper kind, parent-flag set and allocator answer sequence (including failures at any point).
-/
import X86Model.Proofs.MapperCreate
import X86Model.Properties.C01

namespace X86.C01
open X86 X86.Spec

/-- The frame argument of a mapping of the given shape: size-aligned and below 2^52. -/
def FrameOK (sz : Nat) (frame : Word) : Prop :=
  if sz = 4096 then frame &&& 0xfff0000000000fff#64 = 0#64
  else if sz = 2^21 then frame &&& 0xfff00000001fffff#64 = 0#64
  else frame &&& 0xfff000003fffffff#64 = 0#64

private theorem leaf4k_bits (frame fl : Word) (hf : frame &&& 0xfff0000000000fff#64 = 0#64)
    (h2 : fl &&& 0x000ffffffffff000#64 = 0#64) :
    bitP (Pte.mk frame fl) = bitP fl ∧ tableAddr (Pte.mk frame fl) = frame ∧
    leafFlags4K (Pte.mk frame fl) = fl ∧ Pte.aligned4K frame = true := by
  unfold bitP tableAddr leafFlags4K Pte.mk Pte.aligned4K
  unfold Word at *
  refine ⟨?_, ?_, ?_, ?_⟩ <;> bv_decide

private theorem leaf2m_bits (frame fl : Word) (hf : frame &&& 0xfff00000001fffff#64 = 0#64)
    (h2 : fl &&& 0x000fffffffffe000#64 = 0#64) :
    let v := Pte.mk frame (fl ||| Pte.HUGE)
    bitP v = bitP fl ∧ bitPS v = true ∧ addr2M v = frame ∧ leafFlagsHuge v = fl ||| 0x80#64 ∧
    Pte.aligned4K frame = true ∧ Pte.huge v = true := by
  unfold bitP bitPS addr2M leafFlagsHuge Pte.mk Pte.aligned4K Pte.huge Pte.HUGE
  unfold Word at *
  refine ⟨?_, ?_, ?_, ?_, ?_, ?_⟩ <;> bv_decide

private theorem leaf1g_bits (frame fl : Word) (hf : frame &&& 0xfff000003fffffff#64 = 0#64)
    (h2 : fl &&& 0x000fffffffffe000#64 = 0#64) :
    let v := Pte.mk frame (fl ||| Pte.HUGE)
    bitP v = bitP fl ∧ bitPS v = true ∧ addr1G v = frame ∧ leafFlagsHuge v = fl ||| 0x80#64 ∧
    Pte.aligned4K frame = true ∧ Pte.huge v = true := by
  unfold bitP bitPS addr1G leafFlagsHuge Pte.mk Pte.aligned4K Pte.huge Pte.HUGE
  unfold Word at *
  refine ⟨?_, ?_, ?_, ?_, ?_, ?_⟩ <;> bv_decide

/-- The raw word `map_to` writes into the page's slot: `frame | flags` (`| HUGE_PAGE` for huge pages). -/
def leafWord (huge : Bool) (frame flags : Word) : Word := Pte.mk frame (leafFlagsOf huge flags)

/-- Facts about the word `map_to` writes, uniformly for the three page shapes. -/
theorem leafWord_facts {parents : List Nat} {huge : Bool} {sz : Nat} (sh : PageShape parents huge sz)
    (frame flags : Word) (hfl : if huge then LeafBitsHuge flags else LeafBits4K flags) (hfr : FrameOK sz frame) :
    Pte.mk frame (if huge = true then flags ||| Pte.HUGE else flags) = leafWord huge frame flags ∧
    Pte.aligned4K frame = true ∧
    bitP (leafWord huge frame flags) = bitP flags ∧
    (huge = true → bitPS (leafWord huge frame flags) = true) ∧
    entryFrame sz (leafWord huge frame flags) = frame ∧
    (if huge then leafFlagsHuge (leafWord huge frame flags) else leafFlags4K (leafWord huge frame flags)) =
      leafFlagsOf huge flags ∧
    (parents.length = 3 ∨ tableOf (leafWord huge frame flags) = tableOf 0#64) ∧
    DormantLeaf parents.length (leafWord huge frame flags) := by
  have h0 : tableOf (0#64 : Word) = none := by decide
  cases sh with
  | s4k a b c =>
    simp only [Bool.false_eq_true, if_false] at hfl ⊢
    have hfr' : frame &&& 0xfff0000000000fff#64 = 0#64 := by simpa [FrameOK] using hfr
    obtain ⟨b1, b2, b3, b4⟩ := leaf4k_bits frame flags hfr' hfl
    have hw : leafWord false frame flags = Pte.mk frame flags := rfl
    rw [hw]
    exact ⟨rfl, b4, b1, (fun hc => by cases hc), by simp [entryFrame, b2], b3, Or.inl rfl, Or.inl rfl⟩
  | s2m a b =>
    simp only [if_true] at hfl ⊢
    have hfr' : frame &&& 0xfff00000001fffff#64 = 0#64 := by simpa [FrameOK] using hfr
    obtain ⟨b1, b2, b3, b4, b5, b6⟩ := leaf2m_bits frame flags hfr' hfl
    have hw : leafWord true frame flags = Pte.mk frame (flags ||| Pte.HUGE) := rfl
    rw [hw]
    refine ⟨rfl, b5, b1, (fun _ => b2), by simp [entryFrame, b3], by simp [leafFlagsOf, b4], Or.inr ?_,
      Or.inr ⟨by simp, b6⟩⟩
    rw [h0]; unfold tableOf; simp [b6]
  | s1g a =>
    simp only [if_true] at hfl ⊢
    have hfr' : frame &&& 0xfff000003fffffff#64 = 0#64 := by simpa [FrameOK] using hfr
    obtain ⟨b1, b2, b3, b4, b5, b6⟩ := leaf1g_bits frame flags hfr' hfl
    have hw : leafWord true frame flags = Pte.mk frame (flags ||| Pte.HUGE) := rfl
    rw [hw]
    refine ⟨rfl, b5, b1, (fun _ => b2), by simp [entryFrame, b3], by simp [leafFlagsOf, b4], Or.inr ?_,
      Or.inr ⟨by simp, b6⟩⟩
    rw [h0]; unfold tableOf; simp [b6]

/-- What a successful `map_to` guarantees (requested leaf flags with or without `PRESENT`). -/
structure MapPost (s s' : St) (p4 : Word) (parents : List Nat) (li : Nat) (huge : Bool) (sz : Nat)
    (frame flags : Word) : Prop where
  inv : Inv s'.mem p4
  /-- the page was not translated before -/
  before : ∀ va, parents ++ [li] <+: vaPath va → walk s.mem p4 va = none
  /-- flags with `PRESENT`: every address of the page now translates to the frame -/
  present : flags &&& 1#64 = 1#64 → ∀ va, parents ++ [li] <+: vaPath va →
    ∃ x, walk s'.mem p4 va = some x ∧ x.base = frame.toNat ∧ x.size = sz ∧ x.off = va % sz ∧
      x.flags = leafFlagsOf huge flags
  /-- flags without `PRESENT`: the hardware still sees "not mapped" -/
  dormant : flags &&& 1#64 = 0#64 → ∀ va, parents ++ [li] <+: vaPath va → walk s'.mem p4 va = none
  /-- every other address keeps its mapping -/
  other : ∀ va, ¬ parents ++ [li] <+: vaPath va →
    (walk s'.mem p4 va).map Xlat.core = (walk s.mem p4 va).map Xlat.core
  /-- the page's slot holds the raw word `frame | flags (| HUGE_PAGE)` -/
  slot : ∃ t, tblAt s'.mem p4 parents = some t ∧ s'.mem t li = leafWord huge frame flags
  /-- flags with `PRESENT` keep "every non-zero entry is present" -/
  strict : flags &&& 1#64 = 1#64 → AllPresent s.mem p4 → AllPresent s'.mem p4

/-- What a failed `map_to` guarantees. -/
structure MapErrPost (s s' : St) (p4 : Word) (parents : List Nat) (li : Nat) (e : MapErr) : Prop where
  inv : Inv s'.mem p4
  core : ∀ va, (walk s'.mem p4 va).map Xlat.core = (walk s.mem p4 va).map Xlat.core
  strict : AllPresent s.mem p4 → AllPresent s'.mem p4
  /-- `PageAlreadyMapped` is reported only for a slot that holds a non-zero entry (present or not) -/
  used : e = .alreadyMapped → ∃ t, tblAt s'.mem p4 parents = some t ∧ s'.mem t li ≠ 0#64

/-- **map_to**, general form (any mapper kind, any page size, any allocator behaviour, leaf flags with
or without `PRESENT`): it never panics; on success the slot holds `frame | flags`, the page's addresses
translate to the frame iff the flags contain `PRESENT` (otherwise the hardware keeps seeing "not
mapped"), every other address keeps its mapping and the invariant holds; on error no address changes
its mapping and the invariant holds. -/
theorem map_to_full (k : Kind) (s : St) (p4 : Word) (parents : List Nat) (li : Nat) (huge : Bool) (sz : Nat)
    (frame flags pflags : Word)
    (sh : PageShape parents huge sz) (hinv : Inv s.mem p4) (hpi : IdxOK parents)
    (hpf : ParentFlagsOK pflags) (hfl : if huge then LeafBitsHuge flags else LeafBits4K flags)
    (hfr : FrameOK sz frame) (hal : AllocsOK s.mem p4 s.allocs) :
    match mapTo k s p4 parents li huge frame flags pflags with
    | (.panic, _) => False
    | (.ok (.error e), s') => MapErrPost s s' p4 parents li e
    | (.ok (.ok ()), s') => MapPost s s' p4 parents li huge sz frame flags := by
  obtain ⟨hl1, hl3⟩ := sh.len_le
  obtain ⟨w1, w2, w3, w4, w5, w6, w7, w8⟩ := leafWord_facts sh frame flags hfl hfr
  have hcp := createPath_ok k pflags p4 hpf parents [] p4 s hinv rfl (by simpa using hl3) (by simpa using hpi) hal
  unfold mapTo
  cases hc : createPath k pflags s p4 parents with
  | mk res s1 =>
    rw [hc] at hcp
    cases res with
    | panic => exact hcp
    | ok res' =>
      cases res' with
      | error e =>
        cases e <;> exact ⟨hcp.inv, hcp.core, hcp.strict, fun hc => by cases hc⟩
      | ok tl =>
        obtain ⟨hs1, htl⟩ := hcp
        simp only [List.nil_append] at htl
        simp only [St.rd_fst]
        by_cases hu : Pte.isUnused (s1.mem tl li) = true
        · have hzero : s1.mem tl li = 0#64 := by simpa [Pte.isUnused] using hu
          simp only [hu, Bool.not_true, Bool.false_eq_true, if_false, w1, w2, St.wr_mem, St.rd_mem]
          have hz : ∀ m' lvl va rw us, entryStep m' lvl 0#64 va rw us = none := by
            intro m' lvl va rw us; unfold entryStep; simp [bitP]
          -- before: every address of the page is unmapped (already in `s`, since no mapping changed)
          have hbefore : ∀ va, parents ++ [li] <+: vaPath va → walk s.mem p4 va = none := by
            intro va hva
            obtain ⟨rw, us, h1⟩ := walk_reach s1.mem p4 hs1.inv.wf parents tl li va htl hl3 hva
            have := hs1.core va
            rw [h1, hzero, hz] at this
            cases hw : walk s.mem p4 va with
            | none => rfl
            | some x => rw [hw] at this; cases this
          have hv : parents.length = 3 ∨ tableOf (leafWord huge frame flags) = tableOf (s1.mem tl li) := by
            rw [hzero]; exact w7
          have hnew : ∀ va, parents ++ [li] <+: vaPath va →
              ∃ x : Xlat, walk (s1.mem.set tl li (leafWord huge frame flags)) p4 va =
                  (if bitP flags = true then some x else none) ∧
                x.base = frame.toNat ∧ x.size = sz ∧ x.off = va % sz ∧ x.flags = leafFlagsOf huge flags := by
            intro va hva
            obtain ⟨rw, us, _, h2⟩ := walk_set_on s1.mem p4 hs1.inv.wf tl li (leafWord huge frame flags) va _ htl hl3 hva
            obtain ⟨x, hx, xb, xs, xo, xf⟩ := entryStep_leaf sh (s1.mem.set tl li (leafWord huge frame flags))
              (leafWord huge frame flags) va rw us w4
            exact ⟨x, by rw [h2, hx, w3], by rw [xb, w5], xs, xo, by rw [xf, w6]⟩
          refine ⟨?_, hbefore, ?_, ?_, ?_, ?_, ?_⟩
          all_goals simp only [St.wr_mem, St.rd_mem]
          · apply Inv_set' s1.mem p4 hs1.inv parents tl li _ htl hl3 hpi hv (Or.inr (Or.inr w8))
            intro hp; rw [hp] at hl1; simp at hl1
          · intro hf va hva
            obtain ⟨x, hx, rest⟩ := hnew va hva
            exact ⟨x, by rw [hx, bitP_of_present flags hf]; rfl, rest⟩
          · intro hf va hva
            obtain ⟨x, hx, _⟩ := hnew va hva
            rw [hx, bitP_of_not_present flags hf]; rfl
          · intro va hva
            rw [walk_set_off s1.mem p4 hs1.inv.wf _ tl li _ htl hl3 hpi va hva]
            exact hs1.core va
          · refine ⟨tl, ?_, PMem.set_same _ _ _ _⟩
            rw [tblAt_set_eq_root s1.mem p4 hs1.inv.wf parents tl li _ htl hl3 hpi hv parents hl3 hpi]
            exact htl
          · intro hf hst
            exact AllPresent_set s1.mem p4 hs1.inv.wf (hs1.strict hst) parents tl li _ htl hl3 hpi hv
              (Or.inr (by rw [present_eq_bitP, w3]; exact bitP_of_present flags hf))
        · have hu' : Pte.isUnused (s1.mem tl li) = false := by simpa using hu
          simp only [hu', Bool.not_false, if_true, St.rd_mem]
          refine ⟨hs1.inv, hs1.core, hs1.strict, fun _ => ⟨tl, htl, ?_⟩⟩
          intro h0
          have h0' : s1.mem tl li = 0#64 := h0
          rw [h0'] at hu'; simp [Pte.isUnused] at hu'

/-- **map_to** (any mapper kind, any page size, any allocator behaviour):
* it never panics;
* on success every address of the page — unmapped before — now translates to `frame + offset`
  with the page's size and exactly the requested leaf flags (plus `HUGE_PAGE` for huge pages),
  every other address keeps its mapping, and the invariant holds;
* on error (page already mapped, parent is a huge page, allocation failed at any of the up to
  three allocation points) no address changes its mapping and the invariant holds.
(Leaf flags with `PRESENT`, which the second item needs; `map_to_full` is the general form.) -/
theorem map_to_spec (k : Kind) (s : St) (p4 : Word) (parents : List Nat) (li : Nat) (huge : Bool) (sz : Nat)
    (frame flags pflags : Word)
    (sh : PageShape parents huge sz) (hinv : Inv s.mem p4) (hpi : IdxOK parents) (hli : li < 512)
    (hpf : ParentFlagsOK pflags) (hfl : if huge then LeafFlagsHuge flags else LeafFlags4K flags)
    (hfr : FrameOK sz frame) (hal : AllocsOK s.mem p4 s.allocs) :
    match mapTo k s p4 parents li huge frame flags pflags with
    | (.panic, _) => False
    | (.ok (.error _), s') =>
        Inv s'.mem p4 ∧ ∀ va, (walk s'.mem p4 va).map Xlat.core = (walk s.mem p4 va).map Xlat.core
    | (.ok (.ok ()), s') =>
        Inv s'.mem p4 ∧
        (∀ va, parents ++ [li] <+: vaPath va →
            walk s.mem p4 va = none ∧
            ∃ x, walk s'.mem p4 va = some x ∧ x.base = frame.toNat ∧ x.size = sz ∧ x.off = va % sz ∧
                 x.flags = leafFlagsOf huge flags) ∧
        (∀ va, ¬ parents ++ [li] <+: vaPath va →
            (walk s'.mem p4 va).map Xlat.core = (walk s.mem p4 va).map Xlat.core) := by
  have hfull := map_to_full k s p4 parents li huge sz frame flags pflags sh hinv hpi hpf
    (leafBits_of_leafFlags hfl) hfr hal
  have hp := present_of_leafFlags hfl
  cases hm : mapTo k s p4 parents li huge frame flags pflags with
  | mk res s' =>
    rw [hm] at hfull
    cases res with
    | panic => exact hfull
    | ok r =>
      cases r with
      | error e => exact ⟨hfull.inv, hfull.core⟩
      | ok u =>
        cases u
        exact ⟨hfull.inv, fun va hva => ⟨hfull.before va hva, hfull.present hp va hva⟩, hfull.other⟩

/-- Starting point of every history: an all-zero level-4 table satisfies the invariant. -/
theorem init_inv (m : PMem) (p4 : Word) (h : ∀ i, m p4 i = 0#64) : Inv m p4 := Inv_init m p4 h

/-! #### Non-vacuity: a concrete memory with an empty level-4 table; mapping a 4 KiB page with one
allocation succeeds in the model -/
example : Inv (fun _ _ => 0#64) 0x1000#64 := init_inv _ _ (fun _ => rfl)

end X86.C01
