/-
C01 / C02 — `map_to`: effect on the hardware walk for every virtual address, for every page size,
mapper kind, parent-flag set and allocator answer sequence (including failures at any point).
-/
import X86Model.Proofs.MapperCreate
import X86Model.Properties.C01

namespace X86.C01
open X86 X86.Spec

/-- The frame argument of a mapping of the given shape: size-aligned and below 2^52. -/
def FrameOK (sz : Nat) (frame : Word) : Prop :=
  if sz = 4096 then frame &&& 0xfff0000000000fff#64 = 0#64
  else if sz = 2^21 then frame &&& 0xfff00000001fffff#64 = 0#64
  else frame &&& 0xfff000003fffffff#64 = 0#64

private theorem leaf4k_bits (frame fl : Word) (hf : frame &&& 0xfff0000000000fff#64 = 0#64)
    (h1 : fl &&& 1#64 = 1#64) (h2 : fl &&& 0x000ffffffffff000#64 = 0#64) :
    bitP (Pte.mk frame fl) = true ∧ tableAddr (Pte.mk frame fl) = frame ∧
    leafFlags4K (Pte.mk frame fl) = fl ∧ Pte.aligned4K frame = true := by
  unfold bitP tableAddr leafFlags4K Pte.mk Pte.aligned4K
  unfold Word at *
  refine ⟨?_, ?_, ?_, ?_⟩ <;> bv_decide

private theorem leaf2m_bits (frame fl : Word) (hf : frame &&& 0xfff00000001fffff#64 = 0#64)
    (h1 : fl &&& 1#64 = 1#64) (h2 : fl &&& 0x000fffffffffe000#64 = 0#64) :
    let v := Pte.mk frame (fl ||| Pte.HUGE)
    bitP v = true ∧ bitPS v = true ∧ addr2M v = frame ∧ leafFlagsHuge v = fl ||| 0x80#64 ∧
    Pte.aligned4K frame = true ∧ Pte.huge v = true := by
  unfold bitP bitPS addr2M leafFlagsHuge Pte.mk Pte.aligned4K Pte.huge Pte.HUGE
  unfold Word at *
  refine ⟨?_, ?_, ?_, ?_, ?_, ?_⟩ <;> bv_decide

private theorem leaf1g_bits (frame fl : Word) (hf : frame &&& 0xfff000003fffffff#64 = 0#64)
    (h1 : fl &&& 1#64 = 1#64) (h2 : fl &&& 0x000fffffffffe000#64 = 0#64) :
    let v := Pte.mk frame (fl ||| Pte.HUGE)
    bitP v = true ∧ bitPS v = true ∧ addr1G v = frame ∧ leafFlagsHuge v = fl ||| 0x80#64 ∧
    Pte.aligned4K frame = true ∧ Pte.huge v = true := by
  unfold bitP bitPS addr1G leafFlagsHuge Pte.mk Pte.aligned4K Pte.huge Pte.HUGE
  unfold Word at *
  refine ⟨?_, ?_, ?_, ?_, ?_, ?_⟩ <;> bv_decide

/-- **map_to** (any mapper kind, any page size, any allocator behaviour):
* it never panics;
* on success every address of the page — unmapped before — now translates to `frame + offset`
  with the page's size and exactly the requested leaf flags (plus `HUGE_PAGE` for huge pages),
  every other address keeps its mapping, and the invariant holds;
* on error (page already mapped, parent is a huge page, allocation failed at any of the up to
  three allocation points) no address changes its mapping and the invariant holds. -/
theorem map_to_spec (k : Kind) (s : St) (p4 : Word) (parents : List Nat) (li : Nat) (huge : Bool) (sz : Nat)
    (frame flags pflags : Word)
    (sh : PageShape parents huge sz) (hinv : Inv s.mem p4) (hpi : IdxOK parents) (hli : li < 512)
    (hpf : ParentFlagsOK pflags) (hfl : if huge then LeafFlagsHuge flags else LeafFlags4K flags)
    (hfr : FrameOK sz frame) (hal : AllocsOK s.mem p4 s.allocs) :
    match mapTo k s p4 parents li huge frame flags pflags with
    | (.panic, _) => False
    | (.ok (.error _), s') =>
        Inv s'.mem p4 ∧ ∀ va, (walk s'.mem p4 va).map Xlat.core = (walk s.mem p4 va).map Xlat.core
    | (.ok (.ok ()), s') =>
        Inv s'.mem p4 ∧
        (∀ va, parents ++ [li] <+: vaPath va →
            walk s.mem p4 va = none ∧
            ∃ x, walk s'.mem p4 va = some x ∧ x.base = frame.toNat ∧ x.size = sz ∧ x.off = va % sz ∧
                 x.flags = leafFlagsOf huge flags) ∧
        (∀ va, ¬ parents ++ [li] <+: vaPath va →
            (walk s'.mem p4 va).map Xlat.core = (walk s.mem p4 va).map Xlat.core) := by
  obtain ⟨hl1, hl3⟩ := sh.len_le
  have hcp := createPath_ok k pflags p4 hpf parents [] p4 s hinv rfl (by simpa using hl3) (by simpa using hpi) hal
  unfold mapTo
  cases hc : createPath k pflags s p4 parents with
  | mk res s1 =>
    rw [hc] at hcp
    cases res with
    | panic => exact hcp
    | ok res' =>
      cases res' with
      | error e =>
        cases e <;> exact ⟨hcp.inv, hcp.core⟩
      | ok tl =>
        obtain ⟨hs1, htl⟩ := hcp
        simp only [List.nil_append] at htl
        simp only [St.rd_fst]
        by_cases hu : Pte.isUnused (s1.mem tl li) = true
        · have hzero : s1.mem tl li = 0#64 := by simpa [Pte.isUnused] using hu
          simp only [hu, Bool.not_true, Bool.false_eq_true, if_false]
          have hz : ∀ m' lvl va rw us, entryStep m' lvl 0#64 va rw us = none := by
            intro m' lvl va rw us; unfold entryStep; simp [bitP]
          -- before: every address of the page is unmapped (already in `s`, since no mapping changed)
          have hbefore : ∀ va, parents ++ [li] <+: vaPath va → walk s.mem p4 va = none := by
            intro va hva
            obtain ⟨rw, us, h1⟩ := walk_reach s1.mem p4 hs1.inv.wf parents tl li va htl hl3 hva
            have := hs1.core va
            rw [h1, hzero, hz] at this
            cases hw : walk s.mem p4 va with
            | none => rfl
            | some x => rw [hw] at this; cases this
          cases sh with
          | s4k a b c =>
            simp only [Bool.false_eq_true, if_false] at hfl ⊢
            have hfr' : frame &&& 0xfff0000000000fff#64 = 0#64 := by simpa [FrameOK] using hfr
            obtain ⟨b1, b2, b3, b4⟩ := leaf4k_bits frame flags hfr' hfl.1 hfl.2
            simp only [b4, Bool.not_true, Bool.false_eq_true, if_false, St.wr_mem, St.rd_mem]
            refine ⟨?_, ?_, ?_⟩
            · exact Inv_set s1.mem p4 hs1.inv _ tl li _ htl hl3 hpi (Or.inl rfl) (Or.inr b1) (fun hp => by cases hp)
            · intro va hva
              refine ⟨hbefore va hva, ?_⟩
              obtain ⟨rw, us, _, h2⟩ := walk_set_on s1.mem p4 hs1.inv.wf tl li (Pte.mk frame flags) va _ htl hl3 hva
              refine ⟨leafXlat 1 (Pte.mk frame flags) va rw us, ?_, ?_⟩
              · rw [h2]; unfold entryStep; simp [b1]
              · simp [leafXlat, b2, b3, leafFlagsOf]
            · intro va hva
              rw [walk_set_off s1.mem p4 hs1.inv.wf _ tl li _ htl hl3 hpi va hva]
              exact hs1.core va
          | s2m a b =>
            simp only [if_true] at hfl ⊢
            have hfr' : frame &&& 0xfff00000001fffff#64 = 0#64 := by simpa [FrameOK] using hfr
            obtain ⟨b1, b2, b3, b4, b5, b6⟩ := leaf2m_bits frame flags hfr' hfl.1 hfl.2
            simp only [b5, Bool.not_true, Bool.false_eq_true, if_false, St.wr_mem, St.rd_mem]
            refine ⟨?_, ?_, ?_⟩
            · apply Inv_set s1.mem p4 hs1.inv _ tl li _ htl hl3 hpi _ (Or.inr b1) (fun hp => by cases hp)
              right
              have h0 : tableOf (0#64 : Word) = none := by decide
              rw [hzero, h0]; unfold tableOf; simp [b6]
            · intro va hva
              refine ⟨hbefore va hva, ?_⟩
              obtain ⟨rw, us, _, h2⟩ := walk_set_on s1.mem p4 hs1.inv.wf tl li (Pte.mk frame (flags ||| Pte.HUGE)) va _ htl hl3 hva
              refine ⟨leafXlat 2 (Pte.mk frame (flags ||| Pte.HUGE)) va rw us, ?_, ?_⟩
              · rw [h2]; unfold entryStep; simp [b1, b2]
              · simp [leafXlat, b3, b4, leafFlagsOf]
            · intro va hva
              rw [walk_set_off s1.mem p4 hs1.inv.wf _ tl li _ htl hl3 hpi va hva]
              exact hs1.core va
          | s1g a =>
            simp only [if_true] at hfl ⊢
            have hfr' : frame &&& 0xfff000003fffffff#64 = 0#64 := by simpa [FrameOK] using hfr
            obtain ⟨b1, b2, b3, b4, b5, b6⟩ := leaf1g_bits frame flags hfr' hfl.1 hfl.2
            simp only [b5, Bool.not_true, Bool.false_eq_true, if_false, St.wr_mem, St.rd_mem]
            refine ⟨?_, ?_, ?_⟩
            · apply Inv_set s1.mem p4 hs1.inv _ tl li _ htl hl3 hpi _ (Or.inr b1) (fun hp => by cases hp)
              right
              have h0 : tableOf (0#64 : Word) = none := by decide
              rw [hzero, h0]; unfold tableOf; simp [b6]
            · intro va hva
              refine ⟨hbefore va hva, ?_⟩
              obtain ⟨rw, us, _, h2⟩ := walk_set_on s1.mem p4 hs1.inv.wf tl li (Pte.mk frame (flags ||| Pte.HUGE)) va _ htl hl3 hva
              refine ⟨leafXlat 3 (Pte.mk frame (flags ||| Pte.HUGE)) va rw us, ?_, ?_⟩
              · rw [h2]; unfold entryStep; simp [b1, b2]
              · simp [leafXlat, b3, b4, leafFlagsOf]
            · intro va hva
              rw [walk_set_off s1.mem p4 hs1.inv.wf _ tl li _ htl hl3 hpi va hva]
              exact hs1.core va
        · have hu' : Pte.isUnused (s1.mem tl li) = false := by simpa using hu
          simp only [hu', Bool.not_false, if_true, St.rd_mem]
          exact ⟨hs1.inv, hs1.core⟩

/-- Starting point of every history: an all-zero level-4 table satisfies the invariant. -/
theorem init_inv (m : PMem) (p4 : Word) (h : ∀ i, m p4 i = 0#64) : Inv m p4 := Inv_init m p4 h

/-! #### Non-vacuity: a concrete memory with an empty level-4 table; mapping a 4 KiB page with one
allocation succeeds in the model -/
example : Inv (fun _ _ => 0#64) 0x1000#64 := init_inv _ _ (fun _ => rfl)

end X86.C01
