/-
C07 — Address arithmetic is exact-or-panic; ranges iterate exactly what they count.

The operators are modelled without a build-profile parameter because the code uses checked
arithmetic for them (since the two `fix:` commits recorded in KNOWN_FINDINGS.txt); the
correspondence harness runs in both cargo profiles. `len`/`size` still contain plain `+ 1` and `*`;
their theorems hold for both values of `cfg.ovf`.
-/
import X86Model.Model.Page
import X86Model.Spec.Canon
import X86Model.Proofs.Arith
import X86Model.Properties.C05

namespace X86.C07
open X86 X86.Spec

/-! #### Exact-or-panic arithmetic -/

/-- `VirtAddr + u64`: the exact sum, or a panic — exactly when the sum overflows or is not canonical. -/
theorem va_add_exact (a n r : Nat) (h : VirtAddr.add a n = R.ok r) : r = a + n ∧ canon r :=
  let ⟨h1, _, h3⟩ := va_add_inv a n r h; ⟨h1, h3⟩
theorem va_add_ok_iff (a n : Nat) : (∃ r, VirtAddr.add a n = R.ok r) ↔ a + n < 2^64 ∧ canon (a + n) :=
  ⟨fun ⟨r, h⟩ => let ⟨h1, h2, h3⟩ := va_add_inv a n r h; ⟨h2, h1 ▸ h3⟩,
   fun ⟨h1, h2⟩ => ⟨_, va_add_eq a n h1 h2⟩⟩
theorem va_sub_exact (a n r : Nat) (h : VirtAddr.sub a n = R.ok r) : n ≤ a ∧ r = a - n ∧ canon r :=
  let ⟨h1, h2, h3⟩ := va_sub_inv a n r h; ⟨h2, h1, h3⟩
theorem va_sub_ok_iff (a n : Nat) : (∃ r, VirtAddr.sub a n = R.ok r) ↔ n ≤ a ∧ canon (a - n) :=
  ⟨fun ⟨r, h⟩ => let ⟨h1, h2, h3⟩ := va_sub_inv a n r h; ⟨h2, h1 ▸ h3⟩,
   fun ⟨h1, h2⟩ => ⟨_, va_sub_eq a n h1 h2⟩⟩
theorem va_subaddr_exact (a b r : Nat) (h : VirtAddr.subAddr a b = R.ok r) : b ≤ a ∧ r = a - b :=
  let ⟨h1, h2⟩ := subaddr_inv a b r h; ⟨h2, h1⟩

theorem pa_add_exact (a n r : Nat) (h : PhysAddr.add a n = R.ok r) : r = a + n ∧ physValid r :=
  pa_add_inv a n r h
theorem pa_add_ok_iff (a n : Nat) : (∃ r, PhysAddr.add a n = R.ok r) ↔ physValid (a + n) :=
  ⟨fun ⟨r, h⟩ => let ⟨h1, h2⟩ := pa_add_inv a n r h; h1 ▸ h2, fun h => ⟨_, pa_add_eq a n h⟩⟩
theorem pa_sub_exact (a n r : Nat) (h : PhysAddr.sub a n = R.ok r) : n ≤ a ∧ r = a - n ∧ physValid r :=
  let ⟨h1, h2, h3⟩ := pa_sub_inv a n r h; ⟨h2, h1, h3⟩
theorem pa_subaddr_exact (a b r : Nat) (h : PhysAddr.subAddr a b = R.ok r) : b ≤ a ∧ r = a - b :=
  let ⟨h1, h2⟩ := subaddr_inv a b r h; ⟨h2, h1⟩

/-- `Page ± u64` in pages, for size-aligned pages: exact, and the result is again a canonical page. -/
theorem page_add_exact (sz p n r : Nat) (hal : p % sz = 0) (h : Page.add sz p n = R.ok r) :
    r = p + n * sz ∧ canon r ∧ r % sz = 0 := by
  obtain ⟨h1, _, _, h4⟩ := page_add_inv sz p n r hal h
  exact ⟨h1, h4, by rw [h1, Nat.add_mul_mod_self_right]; exact hal⟩
theorem page_sub_exact (sz p n r : Nat) (hal : p % sz = 0) (h : Page.sub sz p n = R.ok r) :
    n * sz ≤ p ∧ r = p - n * sz ∧ canon r := by
  obtain ⟨h1, h2, h3⟩ := page_sub_inv sz p n r hal h; exact ⟨h2, h1, h3⟩
/-- `Page - Page`: the exact number of pages between two aligned pages. -/
theorem page_subpage_exact (sz p q r : Nat) (hsz : 0 < sz) (hp : p % sz = 0) (hq : q % sz = 0)
    (h : Page.subPage sz p q = R.ok r) : q ≤ p ∧ r * sz = p - q := by
  unfold Page.subPage VirtAddr.subAddr at h
  cases hv : R.ofOption (checkedSub p q) with
  | panic => rw [hv] at h; cases h
  | ok d =>
    rw [hv] at h; simp only [R.map_ok, R.ok.injEq] at h
    obtain ⟨hd, hle⟩ := subaddr_inv p q d hv
    refine ⟨hle, ?_⟩
    have : sz ∣ d := by
      rw [hd]; exact Nat.dvd_sub (Nat.dvd_of_mod_eq_zero hp) (Nat.dvd_of_mod_eq_zero hq)
    rw [← h, ← hd]; exact Nat.div_mul_cancel this

theorem frame_add_exact (sz f n r : Nat) (hal : f % sz = 0) (h : PhysFrame.add sz f n = R.ok r) :
    r = f + n * sz ∧ physValid r ∧ r % sz = 0 := by
  obtain ⟨h1, h2⟩ := frame_add_inv sz f n r hal h
  exact ⟨h1, h2, by rw [h1, Nat.add_mul_mod_self_right]; exact hal⟩
theorem frame_sub_exact (sz f n r : Nat) (hal : f % sz = 0) (h : PhysFrame.sub sz f n = R.ok r) :
    n * sz ≤ f ∧ r = f - n * sz ∧ physValid r := by
  obtain ⟨h1, h2, h3⟩ := frame_sub_inv sz f n r hal h; exact ⟨h2, h1, h3⟩
theorem frame_subframe_exact (sz f g r : Nat) (hf : f % sz = 0) (hg : g % sz = 0)
    (h : PhysFrame.subFrame sz f g = R.ok r) : g ≤ f ∧ r * sz = f - g := by
  unfold PhysFrame.subFrame PhysAddr.subAddr at h
  cases hv : R.ofOption (checkedSub f g) with
  | panic => rw [hv] at h; cases h
  | ok d =>
    rw [hv] at h; simp only [R.map_ok, R.ok.injEq] at h
    obtain ⟨hd, hle⟩ := subaddr_inv f g d hv
    refine ⟨hle, ?_⟩
    have : sz ∣ d := by
      rw [hd]; exact Nat.dvd_sub (Nat.dvd_of_mod_eq_zero hf) (Nat.dvd_of_mod_eq_zero hg)
    rw [← h, ← hd]; exact Nat.div_mul_cancel this

/-! #### Ranges -/

private theorem collect_done (k : RangeKind) (sz fuel : Nat) (r : Range)
    (h : Range.next k sz r = R.ok (none, r)) : Range.collect k sz (fuel + 1) r = some (R.ok []) := by
  simp only [Range.collect, h]

private theorem collect_step (k : RangeKind) (sz fuel x : Nat) (r r' : Range) (xs : List Nat)
    (h : Range.next k sz r = R.ok (some x, r'))
    (h' : Range.collect k sz fuel r' = some (R.ok xs)) :
    Range.collect k sz (fuel + 1) r = some (R.ok (x :: xs)) := by
  simp only [Range.collect, h, h']

/-- A virtual range in the property's domain: canonical, size-aligned bounds in one half. -/
structure VDom (sz s e : Nat) : Prop where
  hsz : pageSize sz
  cs : canon s
  ce : canon e
  sal : s % sz = 0
  eal : e % sz = 0
  half : sameHalf s e

/-- A physical range in the property's domain: valid, size-aligned bounds. -/
structure PDom (sz s e : Nat) : Prop where
  hsz : pageSize sz
  vs : physValid s
  ve : physValid e
  sal : s % sz = 0
  eal : e % sz = 0

private theorem vdom_succ {sz s e n : Nat} (d : VDom sz s e) (h : s + (n + 1) * sz = e) :
    VDom sz (s + sz) e ∧ (s + sz) + n * sz = e ∧ s < e ∧ s + sz < 2^64 ∧ canon (s + sz) := by
  obtain ⟨hsz, cs, ce, sal, eal, half⟩ := d
  unfold canon sameHalf at *
  have e1 : (s + sz) + n * sz = e := by rw [← h, Nat.add_mul]; omega
  have hpos : 0 < sz := by rcases hsz with h' | h' | h' <;> omega
  have hle : s + sz ≤ e := by rw [← e1]; omega
  refine ⟨⟨hsz, by unfold canon; omega, by unfold canon; exact ce, ?_, eal, by unfold sameHalf; omega⟩,
    e1, by omega, by omega, by omega⟩
  rw [Nat.add_mod_right]; exact sal

/-- **Exclusive page ranges** yield exactly `s, s+SIZE, …` up to (not including) `e`, in ascending
order, without panicking. -/
theorem page_range_items (sz n : Nat) : ∀ s e, VDom sz s e → s + n * sz = e →
    Range.collect .page sz (n + 1) ⟨s, e⟩ = some (R.ok (itemsSpec sz s n)) := by
  induction n with
  | zero =>
    intro s e _ h
    have : s = e := by omega
    subst this
    exact collect_done _ _ _ _ (by simp only [Range.next, Nat.lt_irrefl, if_false])
  | succ n ih =>
    intro s e d h
    obtain ⟨d', e1, hlt, h64, hc⟩ := vdom_succ d h
    have hadd : Page.add sz s 1 = R.ok (s + sz) := by
      have := page_add_eq sz s 1 d.sal (by rw [Nat.one_mul]; rcases d.hsz with h' | h' | h' <;> omega)
        (by rw [Nat.one_mul]; exact h64) (by rw [Nat.one_mul]; exact hc)
      rwa [Nat.one_mul] at this
    exact collect_step _ _ _ _ _ _ _
      (by simp only [Range.next, hlt, if_true, hadd, R.map_ok]) (ih (s + sz) e d' e1)

/-- Reported length of an exclusive page range = number of items yielded; `size` = length × SIZE. -/
theorem page_range_len (cfg : Cfg) (sz n s e : Nat) (d : VDom sz s e) (h : s + n * sz = e) :
    Range.len cfg .page sz ⟨s, e⟩ = R.ok n ∧ Range.size cfg .page sz ⟨s, e⟩ = R.ok (n * sz) := by
  obtain ⟨hsz, cs, ce, sal, eal, half⟩ := d
  have hpos : 0 < sz := by rcases hsz with h' | h' | h' <;> omega
  have hlen : Range.len cfg .page sz ⟨s, e⟩ = R.ok n := by
    unfold Range.len Range.isEmpty
    by_cases hn : n = 0
    · subst hn; have : s = e := by omega
      subst this; simp
    · have hlt : s < e := by
        have : 0 < n * sz := Nat.mul_pos (Nat.pos_of_ne_zero hn) hpos
        omega
      have : ¬ s ≥ e := by omega
      simp only [this, decide_false, Bool.false_eq_true, if_false, Page.subPage, VirtAddr.subAddr, checkedSub,
        Nat.le_of_lt hlt, if_true, R.ofOption_some, R.map_ok]
      congr 1
      have : e - s = n * sz := by omega
      rw [this, Nat.mul_div_cancel _ hpos]
  refine ⟨hlen, ?_⟩
  unfold Range.size; rw [hlen]; simp only [R.bind_ok, mulU64]
  have : sz * n < 2^64 := by unfold canon at ce; rw [Nat.mul_comm]; omega
  rw [if_pos this, Nat.mul_comm]

/-- An exclusive range whose start is not below its end is empty: length 0, no items. -/
theorem page_range_empty (cfg : Cfg) (sz s e : Nat) (h : e ≤ s) :
    Range.len cfg .page sz ⟨s, e⟩ = R.ok 0 ∧ Range.collect .page sz 1 ⟨s, e⟩ = some (R.ok []) := by
  constructor
  · unfold Range.len Range.isEmpty; simp [h]
  · exact collect_done _ _ _ _ (by simp only [Range.next, Nat.not_lt.2 h, if_false])

/-- The last step of an inclusive page range (start = end): the page is yielded and the range
becomes empty, wherever the page lies — including the last page of either half. -/
private theorem pageIncl_last (sz s : Nat) (hsz : pageSize sz) (cs : canon s) (sal : s % sz = 0) :
    ∃ r', Range.next .pageIncl sz ⟨s, s⟩ = R.ok (some s, r') ∧ r'.stop < r'.start := by
  simp only [Range.next, Nat.le_refl, if_true]
  have hszlt : sz < 2^64 := by rcases hsz with h | h | h <;> omega
  rw [C05.forward_eq_spec s sz cs hszlt]
  by_cases hf : s % 2^48 + sz < 2^48
  · have hfs : forwardSpec s sz = some (unrank (s % 2^48 + sz)) := by
      unfold forwardSpec rank; rw [if_pos hf]
    rw [hfs]
    have hc : canon (unrank (s % 2^48 + sz)) := (unrank_fields _ hf).1
    have hal : unrank (s % 2^48 + sz) % sz = 0 := by
      rw [unrank_mod _ sz hf hsz]
      rcases hsz with h | h | h <;> subst h <;> omega
    have hgt : s < unrank (s % 2^48 + sz) := by
      unfold canon at cs; unfold unrank
      rcases hsz with h | h | h <;> subst h <;> split <;> omega
    refine ⟨_, rfl, ?_⟩
    show s < Page.containingAddress sz (unrank (s % 2^48 + sz))
    rw [containing_of_aligned sz _ hc hal]; exact hgt
  · have hfs : forwardSpec s sz = none := by
      unfold forwardSpec rank; rw [if_neg hf]
    rw [hfs]
    have hsub : Page.sub sz s 1 = R.ok (s - sz) := by
      have := page_sub_eq sz s 1 sal
        (by rw [Nat.one_mul]; unfold canon at cs; rcases hsz with h | h | h <;> subst h <;> omega)
        (by unfold canon at cs; omega)
        (by rw [Nat.one_mul]; unfold canon at cs ⊢; rcases hsz with h | h | h <;> subst h <;> omega)
      rwa [Nat.one_mul] at this
    simp only [hsub, R.map_ok]
    refine ⟨_, rfl, ?_⟩
    show s - sz < s
    unfold canon at cs; rcases hsz with h | h | h <;> subst h <;> omega

/-- **Inclusive page ranges** yield exactly `s, …, e` (that is `n + 1` pages when `e = s + n·SIZE`),
in ascending order, without panicking — including ranges ending at the last page of either half. -/
theorem page_range_incl_items (sz n : Nat) : ∀ s e, VDom sz s e → s + n * sz = e →
    Range.collect .pageIncl sz (n + 2) ⟨s, e⟩ = some (R.ok (itemsSpec sz s (n + 1))) := by
  induction n with
  | zero =>
    intro s e d h
    have : s = e := by omega
    subst this
    obtain ⟨r', hn, hlt⟩ := pageIncl_last sz s d.hsz d.cs d.sal
    exact collect_step _ _ _ _ _ _ _ hn
      (collect_done _ _ _ _ (by simp only [Range.next, Nat.not_le.2 hlt, if_false]))
  | succ n ih =>
    intro s e d h
    obtain ⟨d', e1, hlt, h64, hc⟩ := vdom_succ d h
    have hszlt : sz < 2^64 := by rcases d.hsz with h' | h' | h' <;> omega
    have hfw : VirtAddr.forwardCheckedU64 s sz = some (s + sz) := by
      rw [C05.forward_eq_spec s sz d.cs hszlt]
      have cs := d.cs; have ce := d.ce; have half := d.half
      have hle : s + sz ≤ e := by rw [← e1]; omega
      have hszpos : 4096 ≤ sz := by rcases d.hsz with h' | h' | h' <;> omega
      unfold canon at cs ce; unfold sameHalf at half
      unfold forwardSpec unrank rank
      (repeat' split) <;> first | omega | (simp only [Option.some.injEq]; omega)
    have hcont : Page.containingAddress sz (s + sz) = s + sz := containing_of_aligned sz _ hc d'.sal
    exact collect_step _ _ _ _ _ _ _
      (by simp only [Range.next, Nat.le_of_lt hlt, if_true, hfw, hcont]) (ih (s + sz) e d' e1)

theorem page_range_incl_len (cfg : Cfg) (sz n s e : Nat) (d : VDom sz s e) (h : s + n * sz = e) :
    Range.len cfg .pageIncl sz ⟨s, e⟩ = R.ok (n + 1) ∧
    Range.size cfg .pageIncl sz ⟨s, e⟩ = R.ok ((n + 1) * sz) := by
  obtain ⟨hsz, cs, ce, sal, eal, half⟩ := d
  have hpos : 0 < sz := by rcases hsz with h' | h' | h' <;> omega
  have hle : s ≤ e := by omega
  have hdiv : (e - s) / sz = n := by
    have : e - s = n * sz := by omega
    rw [this, Nat.mul_div_cancel _ hpos]
  have hn1 : n + 1 < 2^64 := by
    unfold canon at ce
    rcases hsz with h' | h' | h' <;> subst h' <;> omega
  have hlen : Range.len cfg .pageIncl sz ⟨s, e⟩ = R.ok (n + 1) := by
    unfold Range.len Range.isEmpty
    have : ¬ s > e := by omega
    simp only [this, decide_false, Bool.false_eq_true, if_false, Page.subPage, VirtAddr.subAddr, checkedSub,
      hle, if_true, R.ofOption_some, R.map_ok, R.bind_ok, hdiv, addU64, hn1]
  refine ⟨hlen, ?_⟩
  unfold Range.size; rw [hlen]; simp only [R.bind_ok, mulU64]
  have : sz * (n + 1) < 2^64 := by
    unfold canon at cs ce; unfold sameHalf at half
    rcases hsz with h' | h' | h' <;> subst h' <;> omega
  rw [if_pos this, Nat.mul_comm]

/-! Physical frame ranges. -/

private theorem pdom_succ {sz s e n : Nat} (d : PDom sz s e) (h : s + (n + 1) * sz = e) :
    PDom sz (s + sz) e ∧ (s + sz) + n * sz = e ∧ s < e ∧ physValid (s + sz) := by
  obtain ⟨hsz, vs, ve, sal, eal⟩ := d
  unfold physValid at *
  have e1 : (s + sz) + n * sz = e := by rw [← h, Nat.add_mul]; omega
  have hpos : 0 < sz := by rcases hsz with h' | h' | h' <;> omega
  refine ⟨⟨hsz, by unfold physValid; omega, by unfold physValid; exact ve, ?_, eal⟩, e1, by omega, by omega⟩
  rw [Nat.add_mod_right]; exact sal

theorem frame_range_items (sz n : Nat) : ∀ s e, PDom sz s e → s + n * sz = e →
    Range.collect .frame sz (n + 1) ⟨s, e⟩ = some (R.ok (itemsSpec sz s n)) := by
  induction n with
  | zero =>
    intro s e _ h
    have : s = e := by omega
    subst this
    exact collect_done _ _ _ _ (by simp only [Range.next, Nat.lt_irrefl, if_false])
  | succ n ih =>
    intro s e d h
    obtain ⟨d', e1, hlt, hv⟩ := pdom_succ d h
    have hadd : PhysFrame.add sz s 1 = R.ok (s + sz) := by
      have := frame_add_eq sz s 1 d.sal (by rw [Nat.one_mul]; exact hv)
      rwa [Nat.one_mul] at this
    exact collect_step _ _ _ _ _ _ _
      (by simp only [Range.next, hlt, if_true, hadd, R.map_ok]) (ih (s + sz) e d' e1)

theorem frame_range_len (cfg : Cfg) (sz n s e : Nat) (d : PDom sz s e) (h : s + n * sz = e) :
    Range.len cfg .frame sz ⟨s, e⟩ = R.ok n ∧ Range.size cfg .frame sz ⟨s, e⟩ = R.ok (n * sz) := by
  obtain ⟨hsz, vs, ve, sal, eal⟩ := d
  have hpos : 0 < sz := by rcases hsz with h' | h' | h' <;> omega
  have hlen : Range.len cfg .frame sz ⟨s, e⟩ = R.ok n := by
    unfold Range.len Range.isEmpty
    by_cases hn : n = 0
    · subst hn; have : s = e := by omega
      subst this; simp
    · have hlt : s < e := by
        have : 0 < n * sz := Nat.mul_pos (Nat.pos_of_ne_zero hn) hpos
        omega
      have : ¬ s ≥ e := by omega
      simp only [this, decide_false, Bool.false_eq_true, if_false, PhysFrame.subFrame, PhysAddr.subAddr,
        checkedSub, Nat.le_of_lt hlt, if_true, R.ofOption_some, R.map_ok]
      congr 1
      have : e - s = n * sz := by omega
      rw [this, Nat.mul_div_cancel _ hpos]
  refine ⟨hlen, ?_⟩
  unfold Range.size; rw [hlen]; simp only [R.bind_ok, mulU64]
  have : sz * n < 2^64 := by unfold physValid at ve; rw [Nat.mul_comm]; omega
  rw [if_pos this, Nat.mul_comm]

private theorem frameIncl_last (sz s : Nat) (hsz : pageSize sz) (vs : physValid s) (sal : s % sz = 0) :
    ∃ r', Range.next .frameIncl sz ⟨s, s⟩ = R.ok (some s, r') ∧ r'.stop < r'.start := by
  simp only [Range.next, Nat.le_refl, if_true]
  unfold physValid at vs
  by_cases hm : s < Range.maxFrame sz
  · rw [if_pos hm]
    have hadd : PhysFrame.add sz s 1 = R.ok (s + sz) := by
      have := frame_add_eq sz s 1 sal (by
        rw [Nat.one_mul]; unfold physValid; unfold Range.maxFrame at hm
        rcases hsz with h | h | h <;> subst h <;> omega)
      rwa [Nat.one_mul] at this
    simp only [hadd, R.map_ok]
    refine ⟨_, rfl, ?_⟩
    show s < s + sz
    rcases hsz with h | h | h <;> subst h <;> omega
  · rw [if_neg hm]
    have hsub : PhysFrame.sub sz s 1 = R.ok (s - sz) := by
      have := frame_sub_eq sz s 1 sal (by
        rw [Nat.one_mul]; unfold Range.maxFrame at hm
        rcases hsz with h | h | h <;> subst h <;> omega) vs
      rwa [Nat.one_mul] at this
    simp only [hsub, R.map_ok]
    refine ⟨_, rfl, ?_⟩
    show s - sz < s
    unfold Range.maxFrame at hm
    rcases hsz with h | h | h <;> subst h <;> omega

/-- **Inclusive frame ranges**, including ranges ending at the last physical frame. -/
theorem frame_range_incl_items (sz n : Nat) : ∀ s e, PDom sz s e → s + n * sz = e →
    Range.collect .frameIncl sz (n + 2) ⟨s, e⟩ = some (R.ok (itemsSpec sz s (n + 1))) := by
  induction n with
  | zero =>
    intro s e d h
    have : s = e := by omega
    subst this
    obtain ⟨r', hn, hlt⟩ := frameIncl_last sz s d.hsz d.vs d.sal
    exact collect_step _ _ _ _ _ _ _ hn
      (collect_done _ _ _ _ (by simp only [Range.next, Nat.not_le.2 hlt, if_false]))
  | succ n ih =>
    intro s e d h
    obtain ⟨d', e1, hlt, hv⟩ := pdom_succ d h
    have hm : s < Range.maxFrame sz := by
      have ve := d.ve; have eal := d.eal; have hsz := d.hsz
      unfold physValid at ve; unfold Range.maxFrame
      rcases hsz with h' | h' | h' <;> subst h' <;> omega
    have hadd : PhysFrame.add sz s 1 = R.ok (s + sz) := by
      have := frame_add_eq sz s 1 d.sal (by rw [Nat.one_mul]; exact hv)
      rwa [Nat.one_mul] at this
    exact collect_step _ _ _ _ _ _ _
      (by simp only [Range.next, Nat.le_of_lt hlt, if_true, hm, hadd, R.map_ok]) (ih (s + sz) e d' e1)

theorem frame_range_incl_len (cfg : Cfg) (sz n s e : Nat) (d : PDom sz s e) (h : s + n * sz = e) :
    Range.len cfg .frameIncl sz ⟨s, e⟩ = R.ok (n + 1) ∧
    Range.size cfg .frameIncl sz ⟨s, e⟩ = R.ok ((n + 1) * sz) := by
  obtain ⟨hsz, vs, ve, sal, eal⟩ := d
  have hpos : 0 < sz := by rcases hsz with h' | h' | h' <;> omega
  have hle : s ≤ e := by omega
  have hdiv : (e - s) / sz = n := by
    have : e - s = n * sz := by omega
    rw [this, Nat.mul_div_cancel _ hpos]
  have hn1 : n + 1 < 2^64 := by
    unfold physValid at ve
    rcases hsz with h' | h' | h' <;> subst h' <;> omega
  have hlen : Range.len cfg .frameIncl sz ⟨s, e⟩ = R.ok (n + 1) := by
    unfold Range.len Range.isEmpty
    have : ¬ s > e := by omega
    simp only [this, decide_false, Bool.false_eq_true, if_false, PhysFrame.subFrame, PhysAddr.subAddr,
      checkedSub, hle, if_true, R.ofOption_some, R.map_ok, R.bind_ok, hdiv, addU64, hn1]
  refine ⟨hlen, ?_⟩
  unfold Range.size; rw [hlen]; simp only [R.bind_ok, mulU64]
  have : sz * (n + 1) < 2^64 := by
    unfold physValid at vs ve
    rcases hsz with h' | h' | h' <;> subst h' <;> omega
  rw [if_pos this, Nat.mul_comm]

/-- The items are the pages/frames from start in ascending order: item `i` is `s + i·SIZE`. -/
theorem items_ascending (sz s n i : Nat) (h : i < n) : (itemsSpec sz s n)[i]? = some (s + i * sz) :=
  itemsSpec_get sz s n i h
theorem items_count (sz s n : Nat) : (itemsSpec sz s n).length = n := itemsSpec_length sz s n

/-- A 2 MiB range converts to the same bytes in 4 KiB pages. -/
theorem as_4kib_same_bytes (cfg : Cfg) (n s e : Nat) (d : VDom 2097152 s e) (h : s + n * 2097152 = e) :
    Range.as4KiB ⟨s, e⟩ = ⟨s, e⟩ ∧
    Range.size cfg .page size2M ⟨s, e⟩ = R.ok (n * 2097152) ∧
    Range.size cfg .page size4K (Range.as4KiB ⟨s, e⟩) = R.ok (n * 2097152) := by
  have hs4 : s % 4096 = 0 := by have := d.sal; omega
  have he4 : e % 4096 = 0 := by have := d.eal; omega
  have h1 : Range.as4KiB ⟨s, e⟩ = ⟨s, e⟩ := by
    unfold Range.as4KiB size4K
    simp only [containing_of_aligned 4096 s d.cs hs4, containing_of_aligned 4096 e d.ce he4]
  refine ⟨h1, (page_range_len cfg 2097152 n s e d h).2, ?_⟩
  rw [h1]
  have d4 : VDom 4096 s e := ⟨Or.inl rfl, d.cs, d.ce, hs4, he4, d.half⟩
  have h5 : n * 512 * 4096 = n * 2097152 := by omega
  have h4 : s + n * 512 * 4096 = e := by rw [h5]; exact h
  have := (page_range_len cfg 4096 (n * 512) s e d4 h4).2
  unfold size4K; rw [this, h5]

/-! #### Non-vacuity: ranges at the boundaries are inside the domain -/
example : VDom 4096 0x7fffffffd000 0x7ffffffff000 :=
  ⟨Or.inl rfl, by decide, by decide, by decide, by decide, by decide⟩
example : Range.collect .pageIncl 4096 4 ⟨0x7fffffffd000, 0x7ffffffff000⟩ =
    some (R.ok [0x7fffffffd000, 0x7fffffffe000, 0x7ffffffff000]) := by decide
example : Range.collect .pageIncl 4096 3 ⟨0xffffffffffffe000, 0xfffffffffffff000⟩ =
    some (R.ok [0xffffffffffffe000, 0xfffffffffffff000]) := by decide
example : Range.collect .frameIncl 4096 3 ⟨0xfffffffffe000, 0xffffffffff000⟩ =
    some (R.ok [0xfffffffffe000, 0xffffffffff000]) := by decide
example : VirtAddr.add 0xfffffffffffff000 0x2000 = R.panic := by decide

end X86.C07
