/-
C08 — Page-table entries and tables encode exactly what was stored, in hardware layout.

Entry theorems quantify over every 64-bit entry, every 4 KiB-aligned address below 2^52 and every
flag set drawn from bits 0–11 and 52–63 (`Spec.validAddr`, `Spec.inFlagDom`); the history theorems
over every finite sequence of the four setters; the table theorems over every table and slot.
Bit-level facts are discharged by `bv_decide`.
-/
import X86Model.Model.Entry
import X86Model.Spec.PageEntry
import Std.Tactic.BVDecide

namespace X86.C08
open X86 X86.Spec

/-! ### The domain of the property, in plain arithmetic -/

/-- `validAddr a` says exactly: `a < 2^52` and `a` is a multiple of 4096. -/
theorem validAddr_iff (a : BitVec 64) :
    validAddr a = true ↔ a.toNat < 2^52 ∧ a.toNat % 4096 = 0 := by
  have h1 : validAddr a = true ↔ (a < 0x10000000000000#64 ∧ a % 4096#64 = 0#64) := by
    unfold validAddr ADDR_FIELD
    constructor
    · intro h; constructor <;> bv_decide
    · intro ⟨h1, h2⟩; bv_decide
  rw [h1, BitVec.lt_def, BitVec.toNat_eq, BitVec.toNat_umod]
  simp

/-- `inFlagDom f` says exactly: every set bit of `f` is one of 0–11, 52–63. -/
theorem inFlagDom_iff (f : BitVec 64) :
    inFlagDom f = true ↔ ∀ i : Nat, f.getLsbD i = true → (i ≤ 11 ∨ (52 ≤ i ∧ i ≤ 63)) := by
  have hc : ~~~FLAGDOM = ADDR_FIELD := by decide
  have hbits : ∀ j : Fin 64, ADDR_FIELD.getLsbD j.val = decide (12 ≤ j.val ∧ j.val ≤ 51) := by
    decide
  have hz : inFlagDom f = true ↔ f &&& ADDR_FIELD = 0#64 := by
    unfold inFlagDom; rw [hc]; simp
  rw [hz]
  constructor
  · intro h0 i hi
    have hlt : i < 64 := BitVec.lt_of_getLsbD hi
    have hb : (f &&& ADDR_FIELD).getLsbD i = false := by rw [h0]; simp
    rw [BitVec.getLsbD_and, hi, Bool.true_and] at hb
    have := hbits ⟨i, hlt⟩
    simp only at this
    rw [hb] at this
    have := of_decide_eq_false this.symm
    omega
  · intro h
    apply BitVec.eq_of_getLsbD_eq
    intro i hi
    rw [BitVec.getLsbD_and]
    have hb := hbits ⟨i, hi⟩
    simp only at hb
    cases hf : f.getLsbD i with
    | false => simp
    | true =>
      have hd := h i hf
      rw [hb]
      have : decide (12 ≤ i ∧ i ≤ 51) = false := decide_eq_false (by omega)
      simp [this]

/-- The union of the crate's flag constants is the flag domain plus bit 12 (`PAT_HUGE_PAGE`). -/
theorem all_flags : PTFlags.all = FLAGDOM ||| BIT12 := by decide

/-- The literal address mask of `addr()` is the architectural address field. -/
theorem addr_mask : Entry.ADDR_MASK = ADDR_FIELD := by decide

/-- The `PRESENT` flag is the architectural P bit (bit 0). -/
theorem present_is_bit0 : PTFlags.PRESENT = P_BIT := by decide

/-! ### One entry: store, read back -/

/-- `new()` is the all-zero word and is unused. -/
theorem new_zero : Entry.new = 0#64 ∧ Entry.isUnused Entry.new = true := by decide

/-- `set_addr(addr, flags)` with an aligned address stores exactly `addr | flags`
(for every flag word, inside the domain or not). -/
theorem set_addr_raw (e a fl : BitVec 64) (ha : aligned4K a = true) :
    Entry.setAddr e a fl = .ok (a ||| fl) := by
  have : Entry.isAligned a Entry.PAGE_SIZE = true := by
    unfold aligned4K at ha; unfold Entry.isAligned Entry.alignDown Entry.PAGE_SIZE; bv_decide
  simp [Entry.setAddr, this]

/-- `set_addr` with an unaligned address panics (and so leaves the entry untouched). -/
theorem set_addr_unaligned_panics (e a fl : BitVec 64) (ha : aligned4K a = false) :
    Entry.setAddr e a fl = .panic := by
  have : Entry.isAligned a Entry.PAGE_SIZE = false := by
    unfold aligned4K at ha; unfold Entry.isAligned Entry.alignDown Entry.PAGE_SIZE; bv_decide
  simp [Entry.setAddr, this]

/-- `set_frame` is `set_addr` of the frame's start address. -/
theorem set_frame_raw (e a fl : BitVec 64) (ha : validAddr a = true) :
    Entry.setFrame e a fl = .ok (a ||| fl) := by
  apply set_addr_raw
  unfold validAddr ADDR_FIELD at ha; unfold aligned4K; bv_decide

/-- The address reads back. -/
theorem addr_after_set (a fl : BitVec 64) (ha : validAddr a = true) (hf : inFlagDom fl = true) :
    Entry.addr (a ||| fl) = a := by
  unfold validAddr ADDR_FIELD at ha; unfold inFlagDom FLAGDOM at hf
  unfold Entry.addr Entry.ADDR_MASK; bv_decide

/-- The flags read back exactly, on the flag domain … -/
theorem flags_after_set (a fl : BitVec 64) (ha : validAddr a = true) (hf : inFlagDom fl = true) :
    Entry.flags (a ||| fl) &&& FLAGDOM = fl := by
  unfold validAddr ADDR_FIELD at ha; unfold inFlagDom at hf
  unfold Entry.flags PTFlags.fromBitsTruncate; rw [all_flags]; unfold FLAGDOM BIT12 at *; bv_decide

/-- … and the only other bit `flags()` can report, bit 12 (`PAT_HUGE_PAGE`), is address bit 12. -/
theorem flags_after_set_full (a fl : BitVec 64) (ha : validAddr a = true)
    (hf : inFlagDom fl = true) :
    Entry.flags (a ||| fl) = fl ||| (a &&& BIT12) := by
  unfold validAddr ADDR_FIELD at ha; unfold inFlagDom at hf
  unfold Entry.flags PTFlags.fromBitsTruncate; rw [all_flags]; unfold FLAGDOM BIT12 at *; bv_decide

/-- `flags()` of any entry is the entry's flag-domain bits plus its bit 12. -/
theorem flags_any (e : BitVec 64) : Entry.flags e = (e &&& FLAGDOM) ||| (e &&& BIT12) := by
  unfold Entry.flags PTFlags.fromBitsTruncate; rw [all_flags]; unfold FLAGDOM BIT12; bv_decide

/-- `set_flags` stores the old address field with the new flags … -/
theorem set_flags_raw (e fl : BitVec 64) : Entry.setFlags e fl = Entry.addr e ||| fl := rfl

/-- … so it leaves the address unchanged, and the flags read back (on any entry `e`). -/
theorem set_flags_keeps_addr (e fl : BitVec 64) (hf : inFlagDom fl = true) :
    Entry.addr (Entry.setFlags e fl) = Entry.addr e := by
  unfold inFlagDom FLAGDOM at hf
  unfold Entry.setFlags Entry.addr Entry.ADDR_MASK; bv_decide

theorem flags_after_set_flags (e fl : BitVec 64) (hf : inFlagDom fl = true) :
    Entry.flags (Entry.setFlags e fl) &&& FLAGDOM = fl := by
  unfold inFlagDom at hf
  unfold Entry.setFlags Entry.addr Entry.ADDR_MASK Entry.flags PTFlags.fromBitsTruncate
  rw [all_flags]; unfold FLAGDOM BIT12 at *; bv_decide

/-- `addr()` is always a 4 KiB-aligned address below 2^52: the `PhysAddr::new` inside `addr()`
never panics, and `PhysFrame::containing_address` in `frame()` does not move it. -/
theorem addr_never_panics (e : BitVec 64) :
    Entry.addrR e = .ok (Entry.addr e) ∧ validAddr (Entry.addr e) = true ∧
    Entry.alignDown (Entry.addr e) Entry.PAGE_SIZE = Entry.addr e := by
  refine ⟨?_, ?_, ?_⟩
  · have : (e &&& Entry.ADDR_MASK) >>> 52 = 0#64 := by unfold Entry.ADDR_MASK; bv_decide
    simp [Entry.addrR, Entry.addr, this]
  · unfold validAddr ADDR_FIELD Entry.addr Entry.ADDR_MASK; bv_decide
  · unfold Entry.alignDown Entry.addr Entry.ADDR_MASK Entry.PAGE_SIZE; bv_decide

/-- Unused exactly when all-zero. -/
theorem is_unused_iff (e : BitVec 64) : Entry.isUnused e = true ↔ e = 0#64 := by
  simp [Entry.isUnused]

/-- `set_unused` makes the entry all-zero. -/
theorem set_unused_zero (e : BitVec 64) :
    Entry.setUnused e = 0#64 ∧ Entry.isUnused (Entry.setUnused e) = true := by
  simp [Entry.setUnused, Entry.isUnused]

/-- An entry storing (address, flags) is unused exactly when both are zero. -/
theorem is_unused_stored (a fl : BitVec 64) :
    Entry.isUnused (a ||| fl) = (a == 0#64 && fl == 0#64) := by
  unfold Entry.isUnused; bv_decide

/-- `frame()` is `Ok` exactly when the present bit (bit 0) of the entry is set, and then it is the
frame at `addr()`. -/
theorem frame_ok_iff (e : BitVec 64) :
    ((Entry.frame e).isSome = true ↔ e.getLsbD 0 = true) ∧
    (∀ f, Entry.frame e = some f → f = Entry.addr e) := by
  have hal := (addr_never_panics e).2.2
  have hp : PTFlags.contains (Entry.flags e) PTFlags.PRESENT = e.getLsbD 0 := by
    unfold PTFlags.contains Entry.flags PTFlags.fromBitsTruncate
    rw [all_flags]; unfold FLAGDOM BIT12 PTFlags.PRESENT
    rw [Bool.eq_iff_iff]
    constructor <;> intro h <;> bv_decide
  unfold Entry.frame
  rw [hp, hal]
  cases e.getLsbD 0 <;> simp

/-- `frame()` of an entry storing (address, flags) from the domain: the stored address if the
present flag was stored, `FrameNotPresent` otherwise. -/
theorem frame_after_set (a fl : BitVec 64) (ha : validAddr a = true) (hf : inFlagDom fl = true) :
    Entry.frame (a ||| fl) = if fl &&& P_BIT == P_BIT then some a else none := by
  have h1 := addr_after_set a fl ha hf
  have hal := (addr_never_panics (a ||| fl)).2.2
  have hp : PTFlags.contains (Entry.flags (a ||| fl)) PTFlags.PRESENT = (fl &&& P_BIT == P_BIT) := by
    unfold validAddr ADDR_FIELD at ha
    unfold PTFlags.contains Entry.flags PTFlags.fromBitsTruncate
    rw [all_flags]; unfold FLAGDOM BIT12 PTFlags.PRESENT P_BIT
    rw [Bool.eq_iff_iff]
    constructor <;> intro h <;> bv_decide
  unfold Entry.frame
  rw [hp, hal, h1]

/-- Everything the getters report about an entry that stores `s` (in the domain) is what the spec
expects: raw word, `addr()`, `flags()`, `is_unused()`, `frame()`. -/
theorem getters_report_stored (s : Stored) (ha : validAddr s.addr = true)
    (hf : inFlagDom s.flags = true) :
    (⟨s.word, Entry.addr s.word, Entry.flags s.word, Entry.isUnused s.word, Entry.frame s.word⟩
      : Observed) = s.expected := by
  unfold Stored.word Stored.expected
  rw [addr_after_set _ _ ha hf, flags_after_set_full _ _ ha hf, is_unused_stored,
    frame_after_set _ _ ha hf]

/-! ### Histories of setter calls -/

/-- The model's and the spec's operation languages are the same four calls. -/
def toSpec : Entry.Op → SetOp
  | .setAddr a f => .setAddr a f
  | .setFrame a f => .setFrame a f
  | .setFlags f => .setFlags f
  | .setUnused => .setUnused

/-- Being a stored pair of the domain. -/
def StoredOk (s : Stored) : Prop := validAddr s.addr = true ∧ inFlagDom s.flags = true

/-- Every 64-bit word is the word of exactly one in-domain pair (its address field and its
flag-domain bits): the history theorems therefore start from *any* entry. -/
theorem ofWord_word (w : BitVec 64) : (Stored.ofWord w).word = w ∧ StoredOk (Stored.ofWord w) := by
  unfold Stored.ofWord Stored.word StoredOk validAddr inFlagDom ADDR_FIELD FLAGDOM
  refine ⟨?_, ?_, ?_⟩ <;> bv_decide

/-- One step: on an entry storing an in-domain pair, an in-domain call yields the entry storing the
spec's next pair (again in the domain); the model panics exactly when the spec rejects. -/
theorem step_stored (s : Stored) (op : Entry.Op) (hs : StoredOk s)
    (hop : (toSpec op).inDomain = true) :
    ∃ s', specStep s (toSpec op) = some s' ∧ Entry.step s.word op = .ok s'.word ∧ StoredOk s' := by
  obtain ⟨hsa, hsf⟩ := hs
  cases op with
  | setAddr a f =>
    simp only [toSpec, SetOp.inDomain, Bool.and_eq_true] at hop
    have hal : aligned4K a = true := by
      have := hop.1; unfold validAddr ADDR_FIELD at this; unfold aligned4K; bv_decide
    exact ⟨⟨a, f⟩, by simp [toSpec, specStep, hal],
      by simp [Entry.step, set_addr_raw _ _ _ hal, Stored.word], hop.1, hop.2⟩
  | setFrame a f =>
    simp only [toSpec, SetOp.inDomain, Bool.and_eq_true] at hop
    have hal : aligned4K a = true := by
      have := hop.1; unfold validAddr ADDR_FIELD at this; unfold aligned4K; bv_decide
    exact ⟨⟨a, f⟩, by simp [toSpec, specStep, hal],
      by simp [Entry.step, Entry.setFrame, set_addr_raw _ _ _ hal, Stored.word], hop.1, hop.2⟩
  | setFlags f =>
    simp only [toSpec, SetOp.inDomain] at hop
    refine ⟨⟨s.addr, f⟩, by simp [toSpec, specStep], ?_, hsa, hop⟩
    simp only [Entry.step, Entry.setFlags, Stored.word, addr_after_set _ _ hsa hsf]
  | setUnused =>
    refine ⟨⟨0#64, 0#64⟩, by simp [toSpec, specStep], ?_, by decide, by decide⟩
    simp [Entry.step, Entry.setUnused, Stored.word]

/-- **History theorem.** For every entry storing an in-domain pair and every sequence of in-domain
setter calls: the calls do not panic and the entry ends up storing exactly the pair the spec
computes — the last address with the last flags. -/
theorem entry_history (ops : List Entry.Op) (s : Stored) (hs : StoredOk s)
    (hops : ∀ op ∈ ops, (toSpec op).inDomain = true) :
    ∃ s', specRun s (ops.map toSpec) = some s' ∧ Entry.run s.word ops = .ok s'.word ∧
      StoredOk s' := by
  induction ops generalizing s with
  | nil => exact ⟨s, rfl, rfl, hs⟩
  | cons op rest ih =>
    obtain ⟨s1, h1, h2, h3⟩ := step_stored s op hs (hops op (List.mem_cons_self))
    obtain ⟨s2, g1, g2, g3⟩ := ih s1 h3 (fun o ho => hops o (List.mem_cons_of_mem _ ho))
    exact ⟨s2, by simp [specRun, h1, g1], by simp [Entry.run, h2, g2], g3⟩

/-- The spec's pair after a history is literally "the last address / the last flags", scanning
the history backwards: `set_addr`/`set_frame` give both, `set_flags` gives the flags and keeps the
address of whatever came before, `set_unused` gives address 0 and no flags; with no such call the
initial pair's component is kept. -/
theorem specRun_is_last (ops : List SetOp) (s s' : Stored) (h : specRun s ops = some s') :
    s'.addr = (lastAddr? ops.reverse).getD s.addr ∧
    s'.flags = (lastFlags? ops.reverse).getD s.flags := by
  induction ops generalizing s with
  | nil => simp [specRun] at h; subst h; simp [lastAddr?, lastFlags?]
  | cons op rest ih =>
    simp only [specRun] at h
    cases hstep : specStep s op with
    | none => simp [hstep] at h
    | some s1 =>
      rw [hstep] at h
      have ⟨ia, ifl⟩ := ih s1 h
      -- how the backward scan of `rest ++ [op]` relates to the scan of `rest`
      have key : ∀ l : List SetOp,
          (lastAddr? (l ++ [op])).getD s.addr = (lastAddr? l).getD s1.addr ∧
          (lastFlags? (l ++ [op])).getD s.flags = (lastFlags? l).getD s1.flags := by
        intro l
        induction l with
        | nil =>
          cases op <;> simp only [specStep] at hstep <;>
            (try split at hstep) <;> simp_all [lastAddr?, lastFlags?] <;>
            (subst hstep; simp)
        | cons x xs ihx =>
          cases x <;> simp_all [lastAddr?, lastFlags?]
      rw [List.reverse_cons]
      rw [(key rest.reverse).1, (key rest.reverse).2]
      exact ⟨ia, ifl⟩

/-- **History theorem, spelled out.** Start from any entry `e0`, apply any sequence of in-domain
setter calls. Then no call panics, and the final entry is
`(last address) | (last flags)` where "last address" is the address of the most recent
`set_addr`/`set_frame`, or 0 if a `set_unused` came later, or `e0`'s address field if there was
none; "last flags" are the flags of the most recent `set_addr`/`set_frame`/`set_flags`, or empty
if a `set_unused` came later, or `e0`'s flag bits if there was none. All getters report these. -/
theorem entry_history_last (e0 : BitVec 64) (ops : List Entry.Op)
    (hops : ∀ op ∈ ops, (toSpec op).inDomain = true) :
    let A := (lastAddr? (ops.map toSpec).reverse).getD (e0 &&& ADDR_FIELD)
    let F := (lastFlags? (ops.map toSpec).reverse).getD (e0 &&& FLAGDOM)
    ∃ e, Entry.run e0 ops = .ok e ∧ e = A ||| F ∧
      Entry.addr e = A ∧ Entry.flags e &&& FLAGDOM = F ∧ Entry.flags e = F ||| (A &&& BIT12) ∧
      (Entry.isUnused e = true ↔ (A = 0#64 ∧ F = 0#64)) ∧
      Entry.frame e = (if F &&& P_BIT == P_BIT then some A else none) := by
  intro A F
  obtain ⟨hw, hok⟩ := ofWord_word e0
  obtain ⟨s', h1, h2, h3a, h3f⟩ := entry_history ops (Stored.ofWord e0) hok hops
  obtain ⟨la, lf⟩ := specRun_is_last _ _ _ h1
  have hA : s'.addr = A := la
  have hF : s'.flags = F := lf
  rw [hw] at h2
  refine ⟨s'.word, h2, by simp [Stored.word, hA, hF], ?_, ?_, ?_, ?_, ?_⟩
  · rw [← hA]; exact addr_after_set _ _ h3a h3f
  · rw [← hF]; exact flags_after_set _ _ h3a h3f
  · rw [← hF, ← hA]; exact flags_after_set_full _ _ h3a h3f
  · rw [← hA, ← hF]; unfold Stored.word; rw [is_unused_stored]; simp
  · rw [← hA, ← hF]; exact frame_after_set _ _ h3a h3f

/-- A history containing a `set_addr` with an unaligned address panics at that call, the entry
being what the preceding calls stored. -/
theorem history_unaligned_panics (e0 : BitVec 64) (pre post : List Entry.Op) (a fl : BitVec 64)
    (hpre : ∀ op ∈ pre, (toSpec op).inDomain = true) (ha : aligned4K a = false) :
    Entry.run e0 (pre ++ .setAddr a fl :: post) = .panic := by
  obtain ⟨hw, hok⟩ := ofWord_word e0
  obtain ⟨s', _, h2, _⟩ := entry_history pre (Stored.ofWord e0) hok hpre
  rw [hw] at h2
  have : ∀ (l : List Entry.Op) (e e' : BitVec 64), Entry.run e l = .ok e' →
      Entry.run e (l ++ .setAddr a fl :: post) = .panic := by
    intro l
    induction l with
    | nil => intro e e' _; simp [Entry.run, Entry.step, set_addr_unaligned_panics _ _ _ ha]
    | cons x xs ih =>
      intro e e' h
      simp only [Entry.run, List.cons_append] at h ⊢
      cases hx : Entry.step e x with
      | panic => simp [hx] at h
      | ok e1 => rw [hx] at h; simp only; exact ih e1 e' h
  exact this pre e0 _ h2

/-! ### Bit 12: the one place where "flags" and "address" overlap (outside the flag domain)

`PageTableFlags` defines `PAT_HUGE_PAGE = 1 << 12`, a bit of the address field. The property's
flag domain excludes it; the facts below record what the code does with it. -/

/-- `flags()` reports address bit 12 as `PAT_HUGE_PAGE`: storing address 0x1000 with no flags
reads back flag bit 12. -/
theorem flags_reports_addr_bit12 :
    Entry.setAddr Entry.new 0x1000#64 0#64 = .ok 0x1000#64 ∧
    Entry.flags 0x1000#64 = PTFlags.PAT_HUGE_PAGE := by decide

/-- With the out-of-domain flag `PAT_HUGE_PAGE`, `set_flags` does change the address:
address 0x2000, then `set_flags(PAT_HUGE_PAGE)` gives address 0x3000. -/
theorem set_flags_bit12_changes_addr :
    Entry.addr (Entry.setFlags 0x2000#64 PTFlags.PAT_HUGE_PAGE) = 0x3000#64 := by decide

/-! ### The table -/

/-- Reading a slot after writing a slot. -/
theorem read_write (t : PageTable) (i j : Nat) (v : BitVec 64) (hi : i < 512) :
    (t.write i v).read j = if j = i then v else t.read j := by
  unfold PageTable.write PageTable.read
  rw [Vector.getElem?_setIfInBounds]
  by_cases hji : j = i
  · subst hji; simp [hi]
  · have : ¬ i = j := fun h => hji h.symm
    simp [hji, this]

/-- **All access paths address the same slots.** For every `i < 512`: `table[i]` (by `usize`),
`table[PageTableIndex(i)]`, the `i`-th item of `iter()` and the `i`-th item of `iter_mut()` are all
references to slot `i`; both iterators yield exactly 512 items; indexing by `usize ≥ 512` panics. -/
theorem access_paths_agree (i : Nat) (hi : i < 512) :
    PageTable.refUsize i = .ok i ∧ PageTable.refPti i = .ok i ∧
    PageTable.iterRefs[i]? = some i ∧ PageTable.iterMutRefs[i]? = some i := by
  simp [PageTable.refUsize, PageTable.refPti, PageTable.iterRefs, PageTable.iterMutRefs,
    ENTRY_COUNT, hi]

theorem iter_lengths : PageTable.iterRefs.length = 512 ∧ PageTable.iterMutRefs.length = 512 := by
  simp [PageTable.iterRefs, PageTable.iterMutRefs]

theorem index_out_of_range_panics (i : Nat) (hi : 512 ≤ i) : PageTable.refUsize i = .panic := by
  unfold PageTable.refUsize ENTRY_COUNT; rw [if_neg (by omega)]

/-- A value written through any path to slot `i` is what every path reads at slot `i`, and no
other slot changes. -/
theorem write_via_any_path (t : PageTable) (i j : Nat) (v : BitVec 64) (hi : i < 512) (r : Nat)
    (hr : PageTable.refUsize i = .ok r ∨ PageTable.refPti i = .ok r ∨
          PageTable.iterMutRefs[i]? = some r) :
    (t.write r v).read j = if j = i then v else t.read j := by
  obtain ⟨h1, h2, _, h4⟩ := access_paths_agree i hi
  have : r = i := by
    rcases hr with h | h | h
    · rw [h1] at h; exact (R.ok.inj h).symm
    · rw [h2] at h; exact (R.ok.inj h).symm
    · rw [h4] at h; exact (Option.some.inj h).symm
  rw [this]; exact read_write t i j v hi

/-- `new()` is all-zero. -/
theorem new_all_zero (i : Nat) : PageTable.new.read i = 0#64 := by
  unfold PageTable.new PageTable.read Entry.new
  rw [Vector.getElem?_replicate]; split <;> rfl

/-- `is_empty` exactly when every slot is zero. -/
theorem is_empty_iff (t : PageTable) : t.isEmpty = true ↔ ∀ i, i < 512 → t.read i = 0#64 := by
  simp [PageTable.isEmpty, PageTable.iterRefs, Entry.isUnused]

private theorem zero_fold (l : List Nat) (t : PageTable) (hl : ∀ r ∈ l, r < 512) (i : Nat) :
    (l.foldl (fun t r => t.write r (Entry.setUnused (t.read r))) t).read i =
      if i ∈ l then 0#64 else t.read i := by
  induction l generalizing t with
  | nil => simp
  | cons x xs ih =>
    have hx : x < 512 := hl x (List.mem_cons_self)
    rw [List.foldl_cons, ih _ (fun r hr => hl r (List.mem_cons_of_mem _ hr))]
    rw [read_write _ _ _ _ hx]
    simp only [Entry.setUnused, List.mem_cons]
    by_cases h1 : i ∈ xs <;> by_cases h2 : i = x <;> simp [h1, h2]

/-- `zero()` makes every slot zero. -/
theorem zero_all_zero (t : PageTable) (i : Nat) (hi : i < 512) : t.zero.read i = 0#64 := by
  unfold PageTable.zero
  rw [zero_fold]
  · simp [PageTable.iterMutRefs, hi]
  · simp [PageTable.iterMutRefs]

/-- `new`, `zero` and `is_empty` agree on "all zero": a new table is empty, a zeroed table is
empty, and a table with any non-zero slot is not. -/
theorem new_zero_is_empty_agree (t : PageTable) :
    PageTable.new.isEmpty = true ∧ t.zero.isEmpty = true ∧
    (∀ i v, i < 512 → v ≠ 0#64 → (t.write i v).isEmpty = false) := by
  refine ⟨(is_empty_iff _).2 (fun i _ => new_all_zero i),
    (is_empty_iff _).2 (fun i hi => zero_all_zero t i hi), ?_⟩
  intro i v hi hv
  cases h : (t.write i v).isEmpty with
  | false => rfl
  | true =>
    have := (is_empty_iff _).1 h i hi
    rw [read_write _ _ _ _ hi] at this
    simp at this; exact absurd this hv

/-- Layout: the memory image of a table decodes back, slot by slot, to the table (little-endian,
entry `i` at bytes `8i … 8i+7`), and writing slot `i` changes exactly the bytes the spec lists. -/
theorem image_roundtrip (t : Nat → BitVec 64) (i : Nat) : wordAt (imageByte t) i = t i := by
  unfold wordAt imageByte byteOf
  have h : ∀ k, k < 8 → (8 * i + k) / 8 = i ∧ (8 * i + k) % 8 = k := by intro k hk; omega
  have h0 : 8 * i / 8 = i ∧ 8 * i % 8 = 0 := by omega
  simp only [List.range, List.range.loop, List.foldl]
  simp only [h0, h 1 (by omega), h 2 (by omega), h 3 (by omega), h 4 (by omega),
    h 5 (by omega), h 6 (by omega), h 7 (by omega), Nat.add_zero]
  generalize t i = w
  bv_decide

/-! ### Non-vacuity -/

example : validAddr 0x000ffffffffff000#64 = true ∧ inFlagDom 0xfff0000000000fff#64 = true := by decide
example : validAddr 0x1000#64 = true ∧ validAddr 0xfff#64 = false ∧
    validAddr 0x10000000000000#64 = false := by decide
example : Entry.setAddr 0#64 0x000ffffffffff000#64 0x8000000000000003#64
    = .ok 0x800ffffffffff003#64 := by decide
example : Entry.setAddr 0#64 0x1001#64 1#64 = .panic := by decide
example : Entry.frame 0x800ffffffffff003#64 = some 0x000ffffffffff000#64 ∧
    Entry.frame 0x800ffffffffff002#64 = none := by decide
example : Entry.run 0#64 [.setAddr 0x5000#64 3#64, .setFlags 0x8000000000000001#64,
    .setUnused, .setFlags 5#64, .setFrame 0x7000#64 1#64, .setFlags 0x800#64]
    = .ok 0x7800#64 := by decide
example : (toSpec (.setAddr 0x5000#64 3#64)).inDomain = true := by decide
example : lastAddr? [SetOp.setFlags 5#64, .setUnused, .setAddr 0x5000#64 3#64] = some 0#64 ∧
    lastFlags? [SetOp.setFlags 5#64, .setUnused, .setAddr 0x5000#64 3#64] = some 5#64 := by decide
example : ((PageTable.new.write 511 7#64).read 511 = 7#64) ∧
    (PageTable.new.write 511 7#64).isEmpty = false := by
  constructor
  · rw [read_write _ _ _ _ (by omega)]; simp
  · exact (new_zero_is_empty_agree PageTable.new).2.2 511 7#64 (by omega) (by decide)

end X86.C08

