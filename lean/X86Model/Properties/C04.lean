/-
C04 — Virtual address <-> page-table indices is an exact bijection.
-/
import X86Model.Model.Page
import X86Model.Spec.Canon
import X86Model.Proofs.Tactics
import X86Model.Proofs.Canon

namespace X86.C04
open X86 X86.Spec

/-! #### Index and offset accessors are the architectural bit fields -/

theorem p1_index_eq (a : Nat) : VirtAddr.p1Index a = idxSpec 1 a := by
  simp only [VirtAddr.p1Index, idxSpec]; omega
theorem p2_index_eq (a : Nat) : VirtAddr.p2Index a = idxSpec 2 a := by
  simp only [VirtAddr.p2Index, idxSpec]; omega
theorem p3_index_eq (a : Nat) : VirtAddr.p3Index a = idxSpec 3 a := by
  simp only [VirtAddr.p3Index, idxSpec]; omega
theorem p4_index_eq (a : Nat) : VirtAddr.p4Index a = idxSpec 4 a := by
  simp only [VirtAddr.p4Index, idxSpec]; omega
theorem page_offset_eq (a : Nat) : VirtAddr.pageOffset a = offSpec a := by
  simp only [VirtAddr.pageOffset, offSpec]; omega

/-- The by-level accessor agrees with the four named accessors. -/
theorem page_table_index_eq (a l : Nat) (hl : 1 ≤ l ∧ l ≤ 4) :
    VirtAddr.pageTableIndex a l = idxSpec l a := by
  have : l = 1 ∨ l = 2 ∨ l = 3 ∨ l = 4 := by omega
  rcases this with h | h | h | h <;> subst h <;> simp only [VirtAddr.pageTableIndex, idxSpec] <;> omega

/-- The same for pages of every size (the page accessors read the start address). -/
theorem page_index_eq (p : Nat) :
    Page.p4Index p = idxSpec 4 p ∧ Page.p3Index p = idxSpec 3 p ∧
    Page.p2Index p = idxSpec 2 p ∧ Page.p1Index p = idxSpec 1 p :=
  ⟨p4_index_eq p, p3_index_eq p, p2_index_eq p, p1_index_eq p⟩

theorem page_page_table_index_eq (p l : Nat) (hl : 1 ≤ l ∧ l ≤ 4) :
    Page.pageTableIndex p l = idxSpec l p := page_table_index_eq p l hl

/-- Index and offset values never leave 0..512 / 0..4096. -/
theorem index_range (k a : Nat) : idxSpec k a < 512 := by unfold idxSpec; omega
theorem offset_range (a : Nat) : offSpec a < 4096 := by unfold offSpec; omega

/-- A canonical address is determined by its four indices and its offset. -/
theorem addr_from_fields (a : Nat) (h : canon a) :
    a = unrank (ofIndices (idxSpec 4 a) (idxSpec 3 a) (idxSpec 2 a) (idxSpec 1 a) + offSpec a) := by
  obtain ⟨e4, e3, e2, e1⟩ := idxSpec_unfold a
  rw [e4, e3, e2, e1]
  have hr : ofIndices (a / 2^39 % 512) (a / 2^30 % 512) (a / 2^21 % 512) (a / 2^12 % 512) + offSpec a
      = a % 2^48 := by unfold ofIndices offSpec; omega
  rw [hr]; exact (unrank_rank a h).symm

/-! #### Building a page from indices is the exact inverse -/

private theorem from_indices_aux (sz x : Nat) (hsz : pageSize sz) (hx : x < 2^48) (ha : x % sz = 0) :
    Page.containingAddress sz (VirtAddr.newTruncate x) = unrank x := by
  unfold VirtAddr.newTruncate
  rw [signExt48_eq, Nat.mod_eq_of_lt hx]
  have hf := unrank_fields x hx
  exact containing_of_aligned sz _ hf.1 (by rw [unrank_mod x sz hx hsz]; exact ha)

/-- `from_page_table_indices`: a canonical, 4 KiB-aligned page whose indices are the given ones. -/
theorem from_indices_4k (i4 i3 i2 i1 : Nat) (h4 : i4 < 512) (h3 : i3 < 512) (h2 : i2 < 512) (h1 : i1 < 512) :
    Page.fromIndices4K i4 i3 i2 i1 = unrank (ofIndices i4 i3 i2 i1) ∧
    canon (Page.fromIndices4K i4 i3 i2 i1) ∧ Page.fromIndices4K i4 i3 i2 i1 % 4096 = 0 ∧
    idxSpec 4 (Page.fromIndices4K i4 i3 i2 i1) = i4 ∧ idxSpec 3 (Page.fromIndices4K i4 i3 i2 i1) = i3 ∧
    idxSpec 2 (Page.fromIndices4K i4 i3 i2 i1) = i2 ∧ idxSpec 1 (Page.fromIndices4K i4 i3 i2 i1) = i1 := by
  have hf := ofIndices_fields i4 i3 i2 i1 h4 h3 h2 h1
  have hu := unrank_fields _ hf.1
  have he : Page.fromIndices4K i4 i3 i2 i1 = unrank (ofIndices i4 i3 i2 i1) :=
    from_indices_aux 4096 _ (Or.inl rfl) hf.1 hf.2.1
  obtain ⟨e4, e3, e2, e1⟩ := idxSpec_unfold (unrank (ofIndices i4 i3 i2 i1))
  rw [he, e4, e3, e2, e1]
  refine ⟨rfl, hu.1, ?_, ?_, ?_, ?_, ?_⟩ <;> omega

theorem from_indices_2m (i4 i3 i2 : Nat) (h4 : i4 < 512) (h3 : i3 < 512) (h2 : i2 < 512) :
    Page.fromIndices2M i4 i3 i2 = unrank (ofIndices i4 i3 i2 0) ∧
    canon (Page.fromIndices2M i4 i3 i2) ∧ Page.fromIndices2M i4 i3 i2 % 2097152 = 0 ∧
    idxSpec 4 (Page.fromIndices2M i4 i3 i2) = i4 ∧ idxSpec 3 (Page.fromIndices2M i4 i3 i2) = i3 ∧
    idxSpec 2 (Page.fromIndices2M i4 i3 i2) = i2 ∧ idxSpec 1 (Page.fromIndices2M i4 i3 i2) = 0 := by
  have hf := ofIndices_fields i4 i3 i2 0 h4 h3 h2 (by omega)
  have hu := unrank_fields _ hf.1
  have hx : i4 * 2^39 + i3 * 2^30 + i2 * 2^21 = ofIndices i4 i3 i2 0 := by unfold ofIndices; omega
  have hal : ofIndices i4 i3 i2 0 % 2097152 = 0 := by unfold ofIndices; omega
  have he : Page.fromIndices2M i4 i3 i2 = unrank (ofIndices i4 i3 i2 0) := by
    unfold Page.fromIndices2M size2M; rw [hx]
    exact from_indices_aux 2097152 _ (Or.inr (Or.inl rfl)) hf.1 hal
  have hm := unrank_mod _ 2097152 hf.1 (Or.inr (Or.inl rfl))
  obtain ⟨e4, e3, e2, e1⟩ := idxSpec_unfold (unrank (ofIndices i4 i3 i2 0))
  rw [he, e4, e3, e2, e1]
  refine ⟨rfl, hu.1, ?_, ?_, ?_, ?_, ?_⟩ <;> omega

theorem from_indices_1g (i4 i3 : Nat) (h4 : i4 < 512) (h3 : i3 < 512) :
    Page.fromIndices1G i4 i3 = unrank (ofIndices i4 i3 0 0) ∧
    canon (Page.fromIndices1G i4 i3) ∧ Page.fromIndices1G i4 i3 % 1073741824 = 0 ∧
    idxSpec 4 (Page.fromIndices1G i4 i3) = i4 ∧ idxSpec 3 (Page.fromIndices1G i4 i3) = i3 ∧
    idxSpec 2 (Page.fromIndices1G i4 i3) = 0 ∧ idxSpec 1 (Page.fromIndices1G i4 i3) = 0 := by
  have hf := ofIndices_fields i4 i3 0 0 h4 h3 (by omega) (by omega)
  have hu := unrank_fields _ hf.1
  have hx : i4 * 2^39 + i3 * 2^30 = ofIndices i4 i3 0 0 := by unfold ofIndices; omega
  have hal : ofIndices i4 i3 0 0 % 1073741824 = 0 := by unfold ofIndices; omega
  have he : Page.fromIndices1G i4 i3 = unrank (ofIndices i4 i3 0 0) := by
    unfold Page.fromIndices1G size1G; rw [hx]
    exact from_indices_aux 1073741824 _ (Or.inr (Or.inr rfl)) hf.1 hal
  have hm := unrank_mod _ 1073741824 hf.1 (Or.inr (Or.inr rfl))
  obtain ⟨e4, e3, e2, e1⟩ := idxSpec_unfold (unrank (ofIndices i4 i3 0 0))
  rw [he, e4, e3, e2, e1]
  refine ⟨rfl, hu.1, ?_, ?_, ?_, ?_, ?_⟩ <;> omega

/-- Uniqueness: a canonical page-aligned address is the page built from its own indices. -/
theorem indices_inverse_4k (p : Nat) (hc : canon p) (ha : p % 4096 = 0) :
    Page.fromIndices4K (idxSpec 4 p) (idxSpec 3 p) (idxSpec 2 p) (idxSpec 1 p) = p := by
  have h := (from_indices_4k _ _ _ _ (index_range 4 p) (index_range 3 p) (index_range 2 p) (index_range 1 p)).1
  rw [h]
  have hp := addr_from_fields p hc
  have ho : offSpec p = 0 := ha
  rw [ho, Nat.add_zero] at hp; exact hp.symm

theorem indices_inverse_2m (p : Nat) (hc : canon p) (ha : p % 2097152 = 0) :
    Page.fromIndices2M (idxSpec 4 p) (idxSpec 3 p) (idxSpec 2 p) = p := by
  have h := (from_indices_2m _ _ _ (index_range 4 p) (index_range 3 p) (index_range 2 p)).1
  rw [h]
  have hp := addr_from_fields p hc
  have ho : offSpec p = 0 := by unfold offSpec; omega
  have h1 : idxSpec 1 p = 0 := by simp only [idxSpec]; omega
  rw [ho, h1, Nat.add_zero] at hp; exact hp.symm

theorem indices_inverse_1g (p : Nat) (hc : canon p) (ha : p % 1073741824 = 0) :
    Page.fromIndices1G (idxSpec 4 p) (idxSpec 3 p) = p := by
  have h := (from_indices_1g _ _ (index_range 4 p) (index_range 3 p)).1
  rw [h]
  have hp := addr_from_fields p hc
  have ho : offSpec p = 0 := by unfold offSpec; omega
  have h1 : idxSpec 1 p = 0 := by simp only [idxSpec]; omega
  have h2 : idxSpec 2 p = 0 := by simp only [idxSpec]; omega
  rw [ho, h1, h2, Nat.add_zero] at hp; exact hp.symm

/-- Two canonical 4 KiB pages with the same indices are equal (the page is unique). -/
theorem indices_injective (p q : Nat) (hp : canon p) (hq : canon q) (pa : p % 4096 = 0) (qa : q % 4096 = 0)
    (h4 : idxSpec 4 p = idxSpec 4 q) (h3 : idxSpec 3 p = idxSpec 3 q)
    (h2 : idxSpec 2 p = idxSpec 2 q) (h1 : idxSpec 1 p = idxSpec 1 q) : p = q := by
  rw [← indices_inverse_4k p hp pa, ← indices_inverse_4k q hq qa, h4, h3, h2, h1]

/-! #### Index / offset constructors over all `u16` -/

theorem index_new (i : Nat) : PageTableIndex.new i = if i < 512 then R.ok i else R.panic := rfl
theorem index_new_truncate (i : Nat) :
    PageTableIndex.newTruncate i = i % 512 ∧ PageTableIndex.newTruncate i < 512 := by
  unfold PageTableIndex.newTruncate; omega
theorem index_truncate_agrees (i : Nat) (h : i < 512) : PageTableIndex.newTruncate i = i := by
  unfold PageTableIndex.newTruncate; omega
theorem offset_new (o : Nat) : PageOffset.new o = if o < 4096 then R.ok o else R.panic := rfl
theorem offset_new_truncate (o : Nat) :
    PageOffset.newTruncate o = o % 4096 ∧ PageOffset.newTruncate o < 4096 := by
  unfold PageOffset.newTruncate; omega
theorem offset_truncate_agrees (o : Nat) (h : o < 4096) : PageOffset.newTruncate o = o := by
  unfold PageOffset.newTruncate; omega

/-! #### Level helpers describe the 9-9-9-9-12 layout -/

theorem next_lower (l : Nat) (hl : 1 ≤ l ∧ l ≤ 4) :
    PageTableLevel.nextLower l = if l = 1 then none else some (l - 1) := by
  have : l = 1 ∨ l = 2 ∨ l = 3 ∨ l = 4 := by omega
  rcases this with h | h | h | h <;> subst h <;> rfl

theorem next_higher (l : Nat) (hl : 1 ≤ l ∧ l ≤ 4) :
    PageTableLevel.nextHigher l = if l = 4 then none else some (l + 1) := by
  have : l = 1 ∨ l = 2 ∨ l = 3 ∨ l = 4 := by omega
  rcases this with h | h | h | h <;> subst h <;> rfl

/-- One entry of a level-`l` table spans `4096 * 512^(l-1)` bytes; a whole table 512 entries. -/
theorem entry_align (l : Nat) (hl : 1 ≤ l ∧ l ≤ 4) : PageTableLevel.entryAlign l = entrySpan l := by
  have : l = 1 ∨ l = 2 ∨ l = 3 ∨ l = 4 := by omega
  rcases this with h | h | h | h <;> subst h <;> decide

theorem table_align (l : Nat) (hl : 1 ≤ l ∧ l ≤ 4) : PageTableLevel.tableAlign l = 512 * entrySpan l := by
  have : l = 1 ∨ l = 2 ∨ l = 3 ∨ l = 4 := by omega
  rcases this with h | h | h | h <;> subst h <;> decide

/-- The index at level `l` selects the entry whose span contains the address. -/
theorem index_selects_span (a l : Nat) (hl : 1 ≤ l ∧ l ≤ 4) (ha : a < 2^48) :
    idxSpec l a = a % (512 * entrySpan l) / entrySpan l := by
  have : l = 1 ∨ l = 2 ∨ l = 3 ∨ l = 4 := by omega
  rcases this with h | h | h | h <;> subst h <;> simp only [idxSpec, entrySpan] <;> omega

/-! #### Non-vacuity -/
example : Page.fromIndices4K 511 510 1 2 = 0xffffffff80202000 := by decide
example : canon 0xffffffff80202000 ∧ idxSpec 4 0xffffffff80202000 = 511 ∧ idxSpec 1 0xffffffff80202000 = 2 := by decide
example : Page.fromIndices4K 255 511 511 511 = 0x7ffffffff000 := by decide

end X86.C04
