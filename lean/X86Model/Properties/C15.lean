/-
C15 — Segment/TSS descriptors and the TSS have the architectural encoding.

`tss_descriptor` quantifies over all 2^64 TSS addresses, `dpl_is_encoded_level` over all 2^64
(2^128) descriptor patterns; the presets and the two layouts are finite tables.
-/
import X86Model.Model.Gdt
import X86Model.Spec.Descriptor
import Std.Tactic.BVDecide

namespace X86.C15
open X86 X86.Spec

/-! ### The TSS descriptor -/

/-- `size_of::<TaskStateSegment>()` per the `repr(C, packed(4))` rule is the architectural 0x68. -/
theorem tss_size : TaskStateSegment.SIZE_OF = TSS_BYTES := by decide

private theorem get_0_24 (p : BitVec 64) :
    BitField.getBits p 0 24 = .ok (p &&& 0xffffff#64) := by
  simp [BitField.getBits]; bv_decide

private theorem get_24_32 (p : BitVec 64) :
    BitField.getBits p 24 32 = .ok ((p >>> 24) &&& 0xff#64) := by
  simp [BitField.getBits]; bv_decide

private theorem get_32_64 (p : BitVec 64) :
    BitField.getBits p 32 64 = .ok (p >>> 32) := by
  simp [BitField.getBits]

private theorem set_16_40 (x v : BitVec 64) (hv : v &&& ~~~0xffffff#64 = 0#64) :
    BitField.setBits x 16 40 v = .ok ((x &&& ~~~0x000000ffffff0000#64) ||| (v <<< 16)) := by
  have h : (v <<< 40 >>> 40 == v) = true := by bv_decide
  simp [BitField.setBits, h]

private theorem set_56_64 (x v : BitVec 64) (hv : v &&& ~~~0xff#64 = 0#64) :
    BitField.setBits x 56 64 v = .ok ((x &&& ~~~0xff00000000000000#64) ||| (v <<< 56)) := by
  have h : (v <<< 56 >>> 56 == v) = true := by bv_decide
  simp [BitField.setBits, h]

private theorem set_0_16 (x v : BitVec 64) (hv : v &&& ~~~0xffff#64 = 0#64) :
    BitField.setBits x 0 16 v = .ok ((x &&& ~~~0xffff#64) ||| v) := by
  have h : (v <<< 48 >>> 48 == v) = true := by bv_decide
  simp [BitField.setBits, h]

private theorem set_40_44 (x v : BitVec 64) (hv : v &&& ~~~0xf#64 = 0#64) :
    BitField.setBits x 40 44 v = .ok ((x &&& ~~~0x00000f0000000000#64) ||| (v <<< 40)) := by
  have h : (v <<< 60 >>> 60 == v) = true := by bv_decide
  simp [BitField.setBits, h]

private theorem set_0_32 (x v : BitVec 64) (hv : v &&& ~~~0xffffffff#64 = 0#64) :
    BitField.setBits x 0 32 v = .ok ((x &&& ~~~0xffffffff#64) ||| v) := by
  have h : (v <<< 32 >>> 32 == v) = true := by bv_decide
  simp [BitField.setBits, h]

/-- The two words `tss_segment_unchecked` computes, in closed form (no `bit_field` assertion
fires, for any pointer). -/
def tssLow (ptr : BitVec 64) : BitVec 64 :=
  ((((DescriptorFlags.PRESENT &&& ~~~0x000000ffffff0000#64 ||| (ptr &&& 0xffffff#64) <<< 16)
      &&& ~~~0xff00000000000000#64 ||| ((ptr >>> 24) &&& 0xff#64) <<< 56)
      &&& ~~~0xffff#64 ||| 0x67#64)
      &&& ~~~0x00000f0000000000#64 ||| 0b1001#64 <<< 40)

def tssHigh (ptr : BitVec 64) : BitVec 64 := (0#64 &&& ~~~0xffffffff#64) ||| (ptr >>> 32)

theorem tss_segment_never_panics (ptr : BitVec 64) :
    Descriptor.tssSegment ptr = .ok (.system (tssLow ptr) (tssHigh ptr)) := by
  have hsz : BitVec.ofNat 64 (TaskStateSegment.SIZE_OF - 1) = 0x67#64 := by decide
  unfold Descriptor.tssSegment
  simp only [bind, pure, get_0_24, get_24_32, get_32_64, R.bind_ok, hsz]
  rw [set_16_40 _ _ (by bv_decide)]; simp only [R.bind_ok]
  rw [set_56_64 _ _ (by bv_decide)]; simp only [R.bind_ok]
  rw [set_0_16 _ _ (by decide)]; simp only [R.bind_ok]
  rw [set_40_44 _ _ (by decide)]; simp only [R.bind_ok]
  rw [set_0_32 _ _ (by bv_decide)]; simp only [R.bind_ok]
  rfl

/-- **For all 2^64 TSS addresses** the descriptor produced by `tss_segment_unchecked` (and hence
`tss_segment`) is a system segment whose 16 bytes decode, per the architectural format, to
base = the full address, limit = 0x67 (bytes), type = available 64-bit TSS, S = 0, DPL = 0, P = 1,
AVL = G = 0, every reserved bit zero. -/
theorem tss_descriptor (ptr : BitVec 64) :
    ∃ lo hi, Descriptor.tssSegment ptr = .ok (.system lo hi) ∧
      decodeSys lo hi = expectedTss ptr := by
  refine ⟨tssLow ptr, tssHigh ptr, tss_segment_never_panics ptr, ?_⟩
  unfold decodeSys decodeSeg expectedTss tssLow tssHigh TYPE_TSS64_AVAILABLE
    DescriptorFlags.PRESENT
  simp only [SysFields.mk.injEq]
  refine ⟨?_, ?_, ?_, ?_, ?_, ?_, ?_, ?_, ?_, ?_, ?_⟩ <;> bv_decide

/-- The decoder loses nothing: two (lo, hi) pairs with the same decoded fields and the same
reserved bits are equal; in particular the decoded base determines all 64 pointer bits, so
distinct TSS addresses give distinct descriptors. -/
theorem tss_descriptor_injective (p q : BitVec 64)
    (h : Descriptor.tssSegment p = Descriptor.tssSegment q) : p = q := by
  obtain ⟨lo, hi, h1, h2⟩ := tss_descriptor p
  obtain ⟨lo', hi', h1', h2'⟩ := tss_descriptor q
  rw [h1, h1'] at h
  have hlo : lo = lo' := by injection h with h; injection h
  have hhi : hi = hi' := by injection h with h; injection h
  subst hlo; subst hhi
  rw [h2] at h2'
  have := congrArg SysFields.base h2'
  simpa [expectedTss] using this

/-! ### The predefined code/data descriptors -/

/-- The model's value of each preset constant. -/
def presetBits : Preset → BitVec 64
  | .kernelData => DescriptorFlags.KERNEL_DATA
  | .kernelCode32 => DescriptorFlags.KERNEL_CODE32
  | .kernelCode64 => DescriptorFlags.KERNEL_CODE64
  | .userData => DescriptorFlags.USER_DATA
  | .userCode32 => DescriptorFlags.USER_CODE32
  | .userCode64 => DescriptorFlags.USER_CODE64

/-- Each of the six presets decodes to what its name states: code vs data, L and D/B, DPL 0 vs 3,
present, code/data (S = 1) — and is the flat, accessed, readable/writable segment of the doc. -/
theorem presets_decode (k : Preset) : decodeSeg (presetBits k) = expectedPreset k := by
  cases k <;> decide

/-- The named facts, spelled out per preset. -/
theorem presets_named_facts (k : Preset) :
    let d := decodeSeg (presetBits k)
    d.isCode = k.code ∧ d.l = k.long ∧ d.db = k.dsize ∧ d.dpl = k.dpl ∧ d.p = true ∧ d.s = true := by
  cases k <;> decide

/-- The four `Descriptor::*_segment()` constructors are user segments carrying the preset of
their name. -/
theorem constructors :
    Descriptor.kernelCodeSegment = .user (presetBits .kernelCode64) ∧
    Descriptor.kernelDataSegment = .user (presetBits .kernelData) ∧
    Descriptor.userDataSegment = .user (presetBits .userData) ∧
    Descriptor.userCodeSegment = .user (presetBits .userCode64) := ⟨rfl, rfl, rfl, rfl⟩

/-- The presets are the values the Linux kernel uses (the crate's own unit test), as a
cross-check of the decoder against known-good constants. -/
theorem presets_linux_values :
    presetBits .kernelCode64 = 0x00af9b000000ffff#64 ∧ presetBits .kernelCode32 = 0x00cf9b000000ffff#64 ∧
    presetBits .kernelData = 0x00cf93000000ffff#64 ∧ presetBits .userCode64 = 0x00affb000000ffff#64 ∧
    presetBits .userCode32 = 0x00cffb000000ffff#64 ∧ presetBits .userData = 0x00cff3000000ffff#64 := by
  decide

/-- Each named flag is the architectural field of its name, for every descriptor word. -/
theorem flags_are_fields (w : BitVec 64) :
    let d := decodeSeg w
    d.accessed = (w &&& DescriptorFlags.ACCESSED == DescriptorFlags.ACCESSED) ∧
    d.readOrWrite = (w &&& DescriptorFlags.WRITABLE == DescriptorFlags.WRITABLE) ∧
    d.confOrExpandDown = (w &&& DescriptorFlags.CONFORMING == DescriptorFlags.CONFORMING) ∧
    d.isCode = (w &&& DescriptorFlags.EXECUTABLE == DescriptorFlags.EXECUTABLE) ∧
    d.s = (w &&& DescriptorFlags.USER_SEGMENT == DescriptorFlags.USER_SEGMENT) ∧
    (d.dpl == 3#2) = (w &&& DescriptorFlags.DPL_RING_3 == DescriptorFlags.DPL_RING_3) ∧
    d.p = (w &&& DescriptorFlags.PRESENT == DescriptorFlags.PRESENT) ∧
    d.avl = (w &&& DescriptorFlags.AVAILABLE == DescriptorFlags.AVAILABLE) ∧
    d.l = (w &&& DescriptorFlags.LONG_MODE == DescriptorFlags.LONG_MODE) ∧
    d.db = (w &&& DescriptorFlags.DEFAULT_SIZE == DescriptorFlags.DEFAULT_SIZE) ∧
    d.g = (w &&& DescriptorFlags.GRANULARITY == DescriptorFlags.GRANULARITY) ∧
    (d.limit == 0xfffff#20) = (w &&& (DescriptorFlags.LIMIT_0_15 ||| DescriptorFlags.LIMIT_16_19)
        == (DescriptorFlags.LIMIT_0_15 ||| DescriptorFlags.LIMIT_16_19)) ∧
    (d.base == 0#32) = (w &&& (DescriptorFlags.BASE_0_23 ||| DescriptorFlags.BASE_24_31) == 0#64) := by
  unfold decodeSeg SegFields.accessed SegFields.readOrWrite SegFields.confOrExpandDown
    SegFields.isCode DescriptorFlags.ACCESSED DescriptorFlags.WRITABLE DescriptorFlags.CONFORMING
    DescriptorFlags.EXECUTABLE DescriptorFlags.USER_SEGMENT DescriptorFlags.DPL_RING_3
    DescriptorFlags.PRESENT DescriptorFlags.AVAILABLE DescriptorFlags.LONG_MODE
    DescriptorFlags.DEFAULT_SIZE DescriptorFlags.GRANULARITY DescriptorFlags.LIMIT_0_15
    DescriptorFlags.LIMIT_16_19 DescriptorFlags.BASE_0_23 DescriptorFlags.BASE_24_31
  simp only
  refine ⟨?_, ?_, ?_, ?_, ?_, ?_, ?_, ?_, ?_, ?_, ?_, ?_, ?_⟩ <;> bv_decide

/-- The fifteen flag constants, in declaration order, are exactly the architectural field masks. -/
theorem flag_consts_are_field_masks : DescriptorFlags.consts = flagFieldMasks := by decide

/-! ### `dpl()` -/

private theorem fromU16_ok (v : BitVec 16) (h : v &&& ~~~3#16 = 0#16) :
    GdtPrivilegeLevel.fromU16 v = .ok v := by
  have : v = 0#16 ∨ v = 1#16 ∨ v = 2#16 ∨ v = 3#16 := by bv_decide
  rcases this with h | h | h | h <;> subst h <;> decide

/-- **For every 64-bit pattern** `dpl()` does not panic and returns the level encoded in
bits 45–46 of the (low) descriptor word — for user and for system descriptors. -/
theorem dpl_is_encoded_level (d : Descriptor) :
    d.dpl = .ok ((decodeSeg (match d with | .user v => v | .system lo _ => lo)).dpl.setWidth 16) := by
  have key : ∀ w : BitVec 64,
      GdtPrivilegeLevel.fromU16 (((w &&& DescriptorFlags.DPL_RING_3) >>> 45).setWidth 16)
        = .ok ((decodeSeg w).dpl.setWidth 16) := by
    intro w
    rw [fromU16_ok _ (by unfold DescriptorFlags.DPL_RING_3; bv_decide)]
    congr 1
    unfold decodeSeg DescriptorFlags.DPL_RING_3; simp only; bv_decide
  cases d with
  | user v => exact key v
  | system lo hi => exact key lo

/-! ### Layouts -/

/-- The TSS fields sit where the CPU reads them: privilege stacks at byte 4, interrupt stacks at
0x24, I/O-map base at 0x66, total size 0x68; a new TSS has `iomap_base = 0x68` (= its size, i.e.
an empty I/O bitmap) and all stack pointers zero. -/
theorem tss_layout :
    offsetOf TaskStateSegment.layout "privilege_stack_table" = some TSS_OFF_RSP0 ∧
    offsetOf TaskStateSegment.layout "interrupt_stack_table" = some TSS_OFF_IST1 ∧
    offsetOf TaskStateSegment.layout "iomap_base" = some TSS_OFF_IOMAP_BASE ∧
    TaskStateSegment.SIZE_OF = TSS_BYTES ∧
    TaskStateSegment.new.iomap_base = TSS_BYTES ∧
    TaskStateSegment.new.rsp = [0, 0, 0] ∧ TaskStateSegment.new.ist = [0, 0, 0, 0, 0, 0, 0] := by
  decide

/-- The memory image of a new TSS is the architectural encoding of "no stacks, I/O map base =
0x68". -/
theorem tss_new_bytes :
    TaskStateSegment.bytes TaskStateSegment.new = encodeTss [0, 0, 0] [0, 0, 0, 0, 0, 0, 0] 0x68 := by
  decide +kernel

/-- The memory image of any TSS value is the architectural encoding of its fields (each stack
pointer and the I/O-map base little-endian at its architectural offset, reserved bytes zero). -/
theorem tss_bytes (r0 r1 r2 i1 i2 i3 i4 i5 i6 i7 io : Nat) :
    TaskStateSegment.bytes ⟨[r0, r1, r2], [i1, i2, i3, i4, i5, i6, i7], io⟩
      = encodeTss [r0, r1, r2] [i1, i2, i3, i4, i5, i6, i7] io := by
  have hl : TaskStateSegment.layout =
      ([("reserved_1", 0), ("privilege_stack_table", 4), ("reserved_2", 28),
        ("interrupt_stack_table", 36), ("reserved_3", 92), ("reserved_4", 100),
        ("iomap_base", 102)], 104) := by decide
  have hs : TaskStateSegment.SIZE_OF = 104 := by decide
  unfold TaskStateSegment.bytes encodeTss
  rw [hl, hs]
  simp [offsetOf, TaskStateSegment.le, leBytes, List.range, List.range.loop, List.replicate,
    List.flatMap, List.take, List.drop]

/-- The descriptor-table pointer is the pseudo-descriptor: 16-bit limit at byte 0, 64-bit base at
byte 2, 10 bytes. -/
theorem dtp_layout :
    offsetOf DescriptorTablePointer.layout "limit" = some DTP_OFF_LIMIT ∧
    offsetOf DescriptorTablePointer.layout "base" = some DTP_OFF_BASE ∧
    DescriptorTablePointer.SIZE_OF = DTP_BYTES := by
  decide

theorem dtp_bytes (limit base : Nat) :
    DescriptorTablePointer.bytes limit base = encodeDtp limit base := by
  have hl : DescriptorTablePointer.layout = ([("limit", 0), ("base", 2)], 10) := by decide
  have hs : DescriptorTablePointer.SIZE_OF = 10 := by decide
  unfold DescriptorTablePointer.bytes encodeDtp
  rw [hl, hs]
  simp [offsetOf, TaskStateSegment.le, leBytes, List.range, List.range.loop, List.replicate,
    List.take, List.drop]

/-! ### Non-vacuity -/

example : Descriptor.tssSegment 0xfedcba9876543210#64
    = .ok (.system 0x7600895432100067#64 0x00000000fedcba98#64) := by decide
example : decodeSys 0x7600895432100067#64 0x00000000fedcba98#64
    = expectedTss 0xfedcba9876543210#64 := by decide
example : (decodeSys 0x7600895432100067#64 0x00000100fedcba98#64).mbz = false := by decide
example : Descriptor.dpl (.user 0x0000400000000000#64) = .ok 2#16 := by decide
example : Descriptor.dpl (.system 0x0000200000000000#64 0xffffffffffffffff#64) = .ok 1#16 := by decide
example : (decodeSeg (presetBits .userCode64)).dpl = 3#2 ∧ (decodeSeg (presetBits .userCode64)).l = true := by
  decide

end X86.C15
