/-
C19 — Named constants and small codecs match the architecture manuals.

Part 1 (constants): every constant the translator extracts from the Rust source
(`Generated.consts`, rewritten from /repo on every run) has the value the independently written
architectural table (`Spec.ArchTable`) assigns to its name — or the table has no row for it
(uncovered; counted). A changed constant in the source changes `Generated/Consts.lean` and makes
`consts_conform` fail to compile.

Part 2 (codecs): the small value types, transcribed in Model/Codecs.lean, against the layouts
of Spec/Codecs.lean, for ALL inputs (every `u16`/`u8`, every 64-bit word, every register
number / condition / size).
-/
import X86Model.Model.Codecs
import X86Model.Spec.ArchTable
import X86Model.Spec.Codecs
import X86Model.Proofs.Bits
import Std.Tactic.BVDecide

namespace X86.C19
open X86 X86.Spec

/-! ## Part 1 — constants -/

/-- Boolean form, checked by kernel evaluation over the whole generated list. -/
theorem consts_conform_all : Generated.consts.all ArchTable.conforms = true := by decide +kernel

/-- Every generated constant that the architectural table covers has the table's value. -/
theorem consts_conform :
    ∀ c ∈ Generated.consts,
      ArchTable.lookup c.1 c.2.1 = none ∨ ArchTable.lookup c.1 c.2.1 = some c.2.2 := by
  intro c hc
  have h := List.all_eq_true.mp consts_conform_all c hc
  unfold ArchTable.conforms at h
  split at h
  · next hn => exact Or.inl hn
  · next v hv => exact Or.inr (by rw [hv, eq_of_beq h])

/-- Coverage cannot silently drop: at least 253 of the generated constants have a table row
(on the pinned source: 257 extracted, 253 covered; the uncovered ones are listed in the evidence). -/
theorem covered_count : (Generated.consts.filter ArchTable.covered).length ≥ 253 := by decide +kernel

/-- The keys of the table are unique (a lookup cannot be shadowed by an earlier duplicate row). -/
theorem table_keys_nodup :
    (ArchTable.table.map (·.1)).Nodup ∧ ArchTable.table.all (fun g => (g.2.map (·.1)).Nodup) = true := by
  decide +kernel

-- non-vacuity: concrete rows
example : ("Cr4Flags", "FSGSBASE", 2 ^ 16) ∈ Generated.consts := by decide +kernel
example : ArchTable.lookup "Cr4Flags" "FSGSBASE" = some (2 ^ 16) := by decide +kernel
example : ArchTable.lookup "Efer" "MSR" = some 0xC0000080 := by decide +kernel
example : ArchTable.lookup "DescriptorTable" "Gdt" = none := by decide +kernel

/-- `MxCsr::default()` is the architectural reset value. -/
theorem mxcsr_default : MxCsr.default = 0x1F80 := by decide

/-! ## Part 2 — codecs -/

/-! ### Privilege level -/

/-- `PrivilegeLevel::from_u16` succeeds exactly on the four privilege levels (returning the level
with that number) and panics on every other `u16`. -/
theorem pl_from_u16_spec (v : Nat) :
    (isPrivilegeLevel v = true → ∃ p, PrivilegeLevel.fromU16 v = .ok p ∧ p.toNat = v) ∧
    (isPrivilegeLevel v = false → PrivilegeLevel.fromU16 v = .panic) := by
  match v with
  | 0 => exact ⟨fun _ => ⟨.ring0, rfl, rfl⟩, fun h => absurd h (by decide)⟩
  | 1 => exact ⟨fun _ => ⟨.ring1, rfl, rfl⟩, fun h => absurd h (by decide)⟩
  | 2 => exact ⟨fun _ => ⟨.ring2, rfl, rfl⟩, fun h => absurd h (by decide)⟩
  | 3 => exact ⟨fun _ => ⟨.ring3, rfl, rfl⟩, fun h => absurd h (by decide)⟩
  | n + 4 =>
    refine ⟨fun h => ?_, fun _ => by simp [PrivilegeLevel.fromU16]⟩
    simp [isPrivilegeLevel] at h
    omega

/-- … hence `from_u16 v` is `ok` iff `v < 4`. -/
theorem pl_from_u16_ok_iff (v : Nat) : (∃ p, PrivilegeLevel.fromU16 v = .ok p) ↔ v < 4 := by
  have h := pl_from_u16_spec v
  constructor
  · rintro ⟨p, hp⟩
    cases hv : isPrivilegeLevel v
    · rw [h.2 hv] at hp; cases hp
    · simpa [isPrivilegeLevel] using hv
  · intro hv
    obtain ⟨p, hp, _⟩ := h.1 (by simpa [isPrivilegeLevel] using hv)
    exact ⟨p, hp⟩

theorem pl_round_trip (p : PrivilegeLevel) : PrivilegeLevel.fromU16 p.toNat = .ok p := by
  cases p <;> rfl

example : PrivilegeLevel.fromU16 3 = .ok .ring3 ∧ PrivilegeLevel.fromU16 4 = .panic := by decide

/-! ### Segment selector (SDM Vol.3 §3.4.2: RPL bits 1:0, TI bit 2, index bits 15:3) -/

private theorem toNat_simps :
    PrivilegeLevel.ring0.toNat = 0 ∧ PrivilegeLevel.ring1.toNat = 1 ∧
    PrivilegeLevel.ring2.toNat = 2 ∧ PrivilegeLevel.ring3.toNat = 3 := by decide

/-- `SegmentSelector::new` builds the selector with index `index mod 2^13`, TI = 0 (GDT) and the
given RPL. -/
theorem sel_new_spec (i : BitVec 16) (r : PrivilegeLevel) :
    selIndex (SegmentSelector.new i r) = i.toNat % 8192 ∧
    selTI (SegmentSelector.new i r) = 0 ∧
    selRpl (SegmentSelector.new i r) = r.toNat := by
  have hidx : (SegmentSelector.new i r).extractLsb' 3 13 = i.setWidth 13 := by
    cases r <;> simp only [SegmentSelector.new, toNat_simps] <;> bv_decide
  have hti : (SegmentSelector.new i r).extractLsb' 2 1 = 0#1 := by
    cases r <;> simp only [SegmentSelector.new, toNat_simps] <;> bv_decide
  have hrpl : (SegmentSelector.new i r).extractLsb' 0 2 = BitVec.ofNat 2 r.toNat := by
    cases r <;> simp only [SegmentSelector.new, toNat_simps] <;> bv_decide
  refine ⟨?_, ?_, ?_⟩
  · unfold selIndex field; rw [hidx, BitVec.toNat_setWidth]
  · unfold selTI field; rw [hti]; rfl
  · unfold selRpl field; rw [hrpl]; cases r <;> rfl

/-- As a number: `new(i, r) = selMake (i mod 2^13) 0 r`. -/
theorem sel_new_value (i : BitVec 16) (r : PrivilegeLevel) :
    (SegmentSelector.new i r).toNat = selMake (i.toNat % 8192) 0 r.toNat := by
  have h : SegmentSelector.new i r = (i.setWidth 13).setWidth 16 * 8#16 + BitVec.ofNat 16 r.toNat := by
    cases r <;> simp only [SegmentSelector.new, toNat_simps] <;> bv_decide
  rw [h]
  have hr : r.toNat < 4 := by cases r <;> decide
  simp only [BitVec.toNat_add, BitVec.toNat_mul, BitVec.toNat_setWidth, BitVec.toNat_ofNat, selMake]
  omega

/-- `index()` reads bits 15:3. -/
theorem sel_index_spec (s : BitVec 16) : (SegmentSelector.index s).toNat = selIndex s := by
  have h : SegmentSelector.index s = (s.extractLsb' 3 13).setWidth 16 := by
    unfold SegmentSelector.index; bv_decide
  rw [h, BitVec.toNat_setWidth]
  exact Nat.mod_eq_of_lt (Nat.lt_of_lt_of_le (s.extractLsb' 3 13).isLt (by decide))

/-- `rpl()` never panics and reads bits 1:0. -/
theorem sel_rpl_spec (s : BitVec 16) :
    ∃ p, SegmentSelector.rpl s = .ok p ∧ p.toNat = selRpl s := by
  unfold SegmentSelector.rpl selRpl
  rw [getBits_toNat s 0 2 (by decide)]
  have hlt := field_lt s 0 2
  generalize field s 0 2 = k at hlt
  match k, hlt with
  | 0, _ => exact ⟨.ring0, rfl, rfl⟩
  | 1, _ => exact ⟨.ring1, rfl, rfl⟩
  | 2, _ => exact ⟨.ring2, rfl, rfl⟩
  | 3, _ => exact ⟨.ring3, rfl, rfl⟩
  | n + 4, h => exact absurd h (by omega)

/-- `set_rpl` never panics, writes bits 1:0 and leaves TI and index (every other bit) unchanged. -/
theorem sel_set_rpl_spec (s : BitVec 16) (r : PrivilegeLevel) :
    ∃ s', SegmentSelector.setRpl s r = .ok s' ∧ IsFieldUpdate s s' 0 2 r.toNat := by
  have hr : r.toNat < 4 := by cases r <;> decide
  have hv : (BitVec.ofNat 16 r.toNat).toNat = r.toNat := by
    rw [BitVec.toNat_ofNat]; omega
  have := setBits_isFieldUpdate s (BitVec.ofNat 16 r.toNat) 0 2 (by rw [hv]; exact hr) (by decide)
  rw [hv] at this
  exact this

/-- … in particular TI and index are unchanged and the new RPL is read back. -/
theorem sel_set_rpl_fields (s s' : BitVec 16) (r : PrivilegeLevel)
    (h : SegmentSelector.setRpl s r = .ok s') :
    selRpl s' = r.toNat ∧ selTI s' = selTI s ∧ selIndex s' = selIndex s ∧
    SegmentSelector.rpl s' = .ok r := by
  have hs : s' = (s &&& ~~~3#16) ||| BitVec.ofNat 16 r.toNat := by
    have e : SegmentSelector.setRpl s r = .ok ((s &&& ~~~3#16) ||| BitVec.ofNat 16 r.toNat) := by
      cases r <;> simp [SegmentSelector.setRpl, setBits, toNat_simps]
    rw [e] at h
    exact (R.ok.inj h).symm
  subst hs
  unfold selRpl selTI selIndex field SegmentSelector.rpl getBits
  cases r <;> simp only [toNat_simps] <;> refine ⟨?_, ?_, ?_, ?_⟩ <;>
    first
    | (congr 1; bv_decide)
    | (have e : ∀ (a b : BitVec 16), a = b → PrivilegeLevel.fromU16 a.toNat = PrivilegeLevel.fromU16 b.toNat :=
          fun a b h => by rw [h]
       first
       | exact (e _ 0#16 (by bv_decide)).trans rfl
       | exact (e _ 1#16 (by bv_decide)).trans rfl
       | exact (e _ 2#16 (by bv_decide)).trans rfl
       | exact (e _ 3#16 (by bv_decide)).trans rfl)

/-- Round trip: a selector built by `new` gives back its index (when it fits 13 bits) and RPL. -/
theorem sel_round_trip (i : BitVec 16) (r : PrivilegeLevel) (hi : i.toNat < 8192) :
    SegmentSelector.index (SegmentSelector.new i r) = i ∧
    SegmentSelector.rpl (SegmentSelector.new i r) = .ok r := by
  have hi' : i &&& 0xE000#16 = 0#16 := by
    have : i.toNat < 2 ^ 13 := hi
    apply BitVec.eq_of_getLsbD_eq
    intro j hj
    simp only [BitVec.getLsbD_and, BitVec.getLsbD_zero]
    by_cases hj13 : j < 13
    · have : (0xE000#16).getLsbD j = false := by
        have : ∀ j, j < 13 → (0xE000#16).getLsbD j = false := by decide
        exact this j hj13
      simp [this]
    · simp [getLsbD_of_toNat_lt i 13 j this (by omega)]
  constructor
  · unfold SegmentSelector.index SegmentSelector.new
    cases r <;> simp only [toNat_simps] <;> bv_decide
  · obtain ⟨p, hp, hpn⟩ := sel_rpl_spec (SegmentSelector.new i r)
    rw [hp]
    have := (sel_new_spec i r).2.2
    rw [this] at hpn
    congr 1
    cases p <;> cases r <;> first | rfl | (exact absurd hpn (by decide))

/-- Every selector with TI = 0 is `new(index(s), rpl(s))`. -/
theorem sel_decompose (s : BitVec 16) (hti : selTI s = 0) :
    ∃ p, SegmentSelector.rpl s = .ok p ∧ SegmentSelector.new (SegmentSelector.index s) p = s := by
  obtain ⟨p, hp, hpn⟩ := sel_rpl_spec s
  refine ⟨p, hp, ?_⟩
  have hti' : s.extractLsb' 2 1 = 0#1 := by
    unfold selTI field at hti
    exact BitVec.eq_of_toNat_eq (by simpa using hti)
  have hrpl : s.extractLsb' 0 2 = BitVec.ofNat 2 p.toNat := by
    unfold selRpl field at hpn
    apply BitVec.eq_of_toNat_eq
    rw [BitVec.toNat_ofNat, hpn]
    exact (Nat.mod_eq_of_lt (s.extractLsb' 0 2).isLt).symm
  unfold SegmentSelector.new SegmentSelector.index
  cases p <;> simp only [toNat_simps] at hrpl ⊢ <;> bv_decide

theorem sel_null : SegmentSelector.null = 0#16 := by decide

example : SegmentSelector.new 5#16 .ring3 = 0x2B#16 := by decide
example : SegmentSelector.index 0x2B#16 = 5#16 ∧ SegmentSelector.rpl 0x2B#16 = .ok .ring3 := by decide

/-! ### PCID (SDM Vol.3 §4.10.1: 12 bits) -/

theorem pcid_new_spec (v : Nat) : Pcid.new v = if isPcid v then some v else none := by
  unfold Pcid.new isPcid
  by_cases h : v ≥ 4096
  · have : ¬ v < 2 ^ 12 := by omega
    simp [h, this]
  · have : v < 2 ^ 12 := by omega
    simp [h, this]

example : Pcid.new 4095 = some 4095 ∧ Pcid.new 4096 = none := by decide

/-! ### Exception vectors (SDM Vol.3 Table 6-1, APM Vol.2 Table 8-1) -/

/-- `TryFrom<u8>` ∘ `as u8` = id. -/
theorem ev_round_trip (v : ExceptionVector) : ExceptionVector.tryFrom v.toU8 = some v := by
  cases v <;> rfl

/-- For every `u8`: `try_from` succeeds exactly on the architecturally defined vectors and the
variant it returns casts back to the input. -/
theorem ev_try_from_spec :
    ∀ n, n < 256 → (ExceptionVector.tryFrom n).map ExceptionVector.toU8
      = if isExceptionVector n then some n else none := by decide +kernel

theorem ev_try_from_some (n : Nat) (hn : n < 256) (v : ExceptionVector)
    (h : ExceptionVector.tryFrom n = some v) : v.toU8 = n ∧ isExceptionVector n = true := by
  have := ev_try_from_spec n hn
  rw [h] at this
  simp only [Option.map_some] at this
  split at this
  · next hx => exact ⟨by injection this, hx⟩
  · exact absurd this (by simp)

/-- Every variant's number is an architecturally defined vector; distinct variants have distinct numbers. -/
theorem ev_injective (a b : ExceptionVector) (h : a.toU8 = b.toU8) : a = b := by
  have ha := ev_round_trip a
  rw [h, ev_round_trip b] at ha
  exact (Option.some.inj ha).symm

example : ExceptionVector.tryFrom 14 = some .page ∧ ExceptionVector.tryFrom 9 = none ∧
    ExceptionVector.tryFrom 15 = none ∧ ExceptionVector.tryFrom 31 = none := by decide

/-! ### PAT memory types (SDM Vol.3 Table 11-10) -/

theorem pat_round_trip (t : PatMemoryType) : PatMemoryType.fromBits t.bits = some t := by
  cases t <;> rfl

theorem pat_from_bits_spec :
    ∀ n, n < 256 → (PatMemoryType.fromBits n).map PatMemoryType.bits
      = if isPatEncoding n then some n else none := by decide +kernel

example : PatMemoryType.fromBits 6 = some .writeBack ∧ PatMemoryType.fromBits 2 = none := by decide

/-! ### Debug registers (SDM Vol.3 §17.2) -/

theorem darn_new_spec (n : Nat) :
    (DebugAddressRegisterNumber.new n).map DebugAddressRegisterNumber.get
      = if n < 4 then some n else none := by
  match n with
  | 0 | 1 | 2 | 3 => rfl
  | k + 4 => simp [DebugAddressRegisterNumber.new]

theorem darn_round_trip (r : DebugAddressRegisterNumber) :
    DebugAddressRegisterNumber.new r.get = some r := by cases r <;> rfl

/-- `Dr6Flags::trap(n)` is B_n; `Dr7Flags::{local,global}_breakpoint_enable(n)` are L_n / G_n. -/
theorem dr_enable_helpers (n : DebugAddressRegisterNumber) :
    (Dr6Flags.trap n).toNat = dr6B n.get ∧
    (Dr7Flags.localBreakpointEnable n).toNat = dr7L n.get ∧
    (Dr7Flags.globalBreakpointEnable n).toNat = dr7G n.get := by
  cases n <;> decide

theorem bc_from_bits_spec (n : Nat) :
    (BreakpointCondition.fromBits n).map BreakpointCondition.toNat = if n < 4 then some n else none := by
  match n with
  | 0 | 1 | 2 | 3 => rfl
  | k + 4 => simp [BreakpointCondition.fromBits]

theorem bs_from_bits_spec (n : Nat) :
    (BreakpointSize.fromBits n).map BreakpointSize.toNat = if n < 4 then some n else none := by
  match n with
  | 0 | 1 | 2 | 3 => rfl
  | k + 4 => simp [BreakpointSize.fromBits]

/-- `BreakpointSize::new(bytes)` returns the LEN encoding whose length is `bytes`, and only for 1, 2, 4, 8. -/
theorem bs_new_spec (bytes : Nat) (s : BreakpointSize) :
    BreakpointSize.new bytes = some s ↔ lenBytes s.toNat = some bytes := by
  match bytes with
  | 0 | 1 | 2 | 3 | 4 | 5 | 6 | 7 | 8 => cases s <;> decide
  | k + 9 =>
    have : BreakpointSize.new (k + 9) = none := by simp [BreakpointSize.new]
    rw [this]
    cases s <;> simp [BreakpointSize.toNat, lenBytes, Generated.BreakpointSize_Length1B,
      Generated.BreakpointSize_Length2B, Generated.BreakpointSize_Length8B,
      Generated.BreakpointSize_Length4B] <;> omega

theorem bc_round_trip (c : BreakpointCondition) : BreakpointCondition.fromBits c.toNat = some c := by
  cases c <;> rfl
theorem bs_round_trip (s : BreakpointSize) : BreakpointSize.fromBits s.toNat = some s := by
  cases s <;> rfl

/-- `Dr7Flags::all()` is exactly the set of architectural DR7 flag bits, and `valid_bits()` exactly
the defined (non-reserved) bits of DR7. -/
theorem dr7_masks : Dr7Flags.all = dr7FlagMask ∧ Dr7Value.validBits = dr7DefinedMask := by
  decide +kernel

/-- `from_bits` accepts exactly the words without reserved bits; `from_bits_truncate` clears them. -/
theorem dr7_from_bits_spec (b : BitVec 64) :
    Dr7Value.fromBits b = (if b &&& ~~~dr7DefinedMask = 0 then some b else none) ∧
    Dr7Value.fromBitsTruncate b = b &&& dr7DefinedMask ∧
    Dr7Value.flags b = b &&& dr7FlagMask := by
  unfold Dr7Value.fromBits Dr7Value.fromBitsTruncate Dr7Value.flags
  rw [dr7_masks.1, dr7_masks.2]
  exact ⟨rfl, rfl, rfl⟩

private theorem lsb_simps (n : DebugAddressRegisterNumber) :
    BreakpointCondition.lsb n = dr7RWLsb n.get ∧ BreakpointSize.lsb n = dr7LENLsb n.get := ⟨rfl, rfl⟩

private theorem lsb_bound (n : DebugAddressRegisterNumber) :
    dr7RWLsb n.get + 2 ≤ 64 ∧ dr7LENLsb n.get + 2 ≤ 64 := by cases n <;> decide

/-- `condition(n)` never panics and reads R/W_n (bits 17+4n:16+4n). -/
theorem dr7_condition_spec (v : BitVec 64) (n : DebugAddressRegisterNumber) :
    ∃ c, Dr7Value.condition v n = .ok c ∧ c.toNat = dr7RW v n.get := by
  unfold Dr7Value.condition dr7RW
  rw [(lsb_simps n).1, getBits_toNat v _ 2 (lsb_bound n).1]
  have hlt := field_lt v (dr7RWLsb n.get) 2
  generalize field v (dr7RWLsb n.get) 2 = k at hlt
  match k, hlt with
  | 0, _ => exact ⟨.instructionExecution, rfl, rfl⟩
  | 1, _ => exact ⟨.dataWrites, rfl, rfl⟩
  | 2, _ => exact ⟨.ioReadsWrites, rfl, rfl⟩
  | 3, _ => exact ⟨.dataReadsWrites, rfl, rfl⟩
  | j + 4, h => exact absurd h (by omega)

/-- `size(n)` never panics and reads LEN_n (bits 19+4n:18+4n). -/
theorem dr7_size_spec (v : BitVec 64) (n : DebugAddressRegisterNumber) :
    ∃ s, Dr7Value.size v n = .ok s ∧ s.toNat = dr7LEN v n.get := by
  unfold Dr7Value.size dr7LEN
  rw [(lsb_simps n).2, getBits_toNat v _ 2 (lsb_bound n).2]
  have hlt := field_lt v (dr7LENLsb n.get) 2
  generalize field v (dr7LENLsb n.get) 2 = k at hlt
  match k, hlt with
  | 0, _ => exact ⟨.length1B, rfl, rfl⟩
  | 1, _ => exact ⟨.length2B, rfl, rfl⟩
  | 2, _ => exact ⟨.length8B, rfl, rfl⟩
  | 3, _ => exact ⟨.length4B, rfl, rfl⟩
  | j + 4, h => exact absurd h (by omega)

private theorem cond_lt (c : BreakpointCondition) : c.toNat < 4 := by cases c <;> decide
private theorem size_lt (s : BreakpointSize) : s.toNat < 4 := by cases s <;> decide

/-- `set_condition(n, c)` never panics, writes R/W_n := c and changes no other bit of the word —
in particular no other condition field, no size field and no flag bit. -/
theorem dr7_set_condition_spec (v : BitVec 64) (n : DebugAddressRegisterNumber) (c : BreakpointCondition) :
    ∃ r, Dr7Value.setCondition v n c = .ok r ∧ IsFieldUpdate v r (dr7RWLsb n.get) 2 c.toNat := by
  have hc := cond_lt c
  have hv : (BitVec.ofNat 64 c.toNat).toNat = c.toNat := by rw [BitVec.toNat_ofNat]; omega
  have := setBits_isFieldUpdate v (BitVec.ofNat 64 c.toNat) (dr7RWLsb n.get) 2
    (by rw [hv]; exact hc) (lsb_bound n).1
  rw [hv] at this
  exact this

/-- `set_size(n, s)` never panics, writes LEN_n := s and changes no other bit of the word. -/
theorem dr7_set_size_spec (v : BitVec 64) (n : DebugAddressRegisterNumber) (s : BreakpointSize) :
    ∃ r, Dr7Value.setSize v n s = .ok r ∧ IsFieldUpdate v r (dr7LENLsb n.get) 2 s.toNat := by
  have hs := size_lt s
  have hv : (BitVec.ofNat 64 s.toNat).toNat = s.toNat := by rw [BitVec.toNat_ofNat]; omega
  have := setBits_isFieldUpdate v (BitVec.ofNat 64 s.toNat) (dr7LENLsb n.get) 2
    (by rw [hv]; exact hs) (lsb_bound n).2
  rw [hv] at this
  exact this

private theorem cond_simps :
    BreakpointCondition.instructionExecution.toNat = 0 ∧ BreakpointCondition.dataWrites.toNat = 1 ∧
    BreakpointCondition.ioReadsWrites.toNat = 2 ∧ BreakpointCondition.dataReadsWrites.toNat = 3 := by decide
private theorem size_simps :
    BreakpointSize.length1B.toNat = 0 ∧ BreakpointSize.length2B.toNat = 1 ∧
    BreakpointSize.length8B.toNat = 2 ∧ BreakpointSize.length4B.toNat = 3 := by decide

/-- The getters depend only on their own 2-bit field. -/
private theorem condition_congr (a b : BitVec 64) (n : DebugAddressRegisterNumber)
    (h : getBits a (BreakpointCondition.lsb n) 2 = getBits b (BreakpointCondition.lsb n) 2) :
    Dr7Value.condition a n = Dr7Value.condition b n := by unfold Dr7Value.condition; rw [h]
private theorem size_congr (a b : BitVec 64) (n : DebugAddressRegisterNumber)
    (h : getBits a (BreakpointSize.lsb n) 2 = getBits b (BreakpointSize.lsb n) 2) :
    Dr7Value.size a n = Dr7Value.size b n := by unfold Dr7Value.size; rw [h]

/-- Closed form of the setters (used to feed `bv_decide`). -/
private theorem setCondition_eq (v : BitVec 64) (n : DebugAddressRegisterNumber) (c : BreakpointCondition) :
    Dr7Value.setCondition v n c
      = .ok (v &&& ~~~(3#64 <<< BreakpointCondition.lsb n) ||| BitVec.ofNat 64 c.toNat <<< BreakpointCondition.lsb n) := by
  cases n <;> cases c <;> simp [Dr7Value.setCondition, setBits, cond_simps]
private theorem setSize_eq (v : BitVec 64) (n : DebugAddressRegisterNumber) (s : BreakpointSize) :
    Dr7Value.setSize v n s
      = .ok (v &&& ~~~(3#64 <<< BreakpointSize.lsb n) ||| BitVec.ofNat 64 s.toNat <<< BreakpointSize.lsb n) := by
  cases n <;> cases s <;> simp [Dr7Value.setSize, setBits, size_simps]

/-- Independence, spelled out through the crate's own getters: after `set_condition(n, c)` the
condition of `n` is `c`, the condition of every other register, the size of every register and the
flags are what they were, and no reserved bit appears. For all 4 registers × 4 conditions × every
64-bit word. -/
theorem dr7_set_condition_indep (v r : BitVec 64) (n : DebugAddressRegisterNumber) (c : BreakpointCondition)
    (h : Dr7Value.setCondition v n c = .ok r) :
    Dr7Value.condition r n = .ok c ∧
    (∀ m, m ≠ n → Dr7Value.condition r m = Dr7Value.condition v m) ∧
    (∀ m, Dr7Value.size r m = Dr7Value.size v m) ∧
    Dr7Value.flags r = Dr7Value.flags v ∧
    r &&& ~~~Dr7Value.validBits = v &&& ~~~Dr7Value.validBits := by
  rw [setCondition_eq] at h
  have hr := (R.ok.inj h).symm
  subst hr
  refine ⟨?_, ?_, ?_, ?_, ?_⟩
  · have : getBits (v &&& ~~~(3#64 <<< BreakpointCondition.lsb n) |||
        BitVec.ofNat 64 c.toNat <<< BreakpointCondition.lsb n) (BreakpointCondition.lsb n) 2
        = BitVec.ofNat 64 c.toNat := by
      cases n <;> cases c <;>
        simp only [getBits, BreakpointCondition.lsb, DebugAddressRegisterNumber.get, cond_simps] <;> bv_decide
    unfold Dr7Value.condition
    rw [this, BitVec.toNat_ofNat, Nat.mod_eq_of_lt (Nat.lt_trans (cond_lt c) (by decide))]
    exact congrArg R.ofOption (bc_round_trip c)
  · intro m hm
    apply condition_congr
    cases n <;> cases m <;> first | exact absurd rfl hm | (cases c <;>
      simp only [getBits, BreakpointCondition.lsb, DebugAddressRegisterNumber.get, cond_simps] <;> bv_decide)
  · intro m
    apply size_congr
    cases n <;> cases m <;> cases c <;>
      simp only [getBits, BreakpointCondition.lsb, BreakpointSize.lsb, DebugAddressRegisterNumber.get, cond_simps] <;>
      bv_decide
  · unfold Dr7Value.flags
    rw [dr7_masks.1]
    cases n <;> cases c <;>
      simp only [dr7FlagMask, BreakpointCondition.lsb, DebugAddressRegisterNumber.get, cond_simps] <;> bv_decide
  · rw [dr7_masks.2]
    cases n <;> cases c <;>
      simp only [dr7DefinedMask, BreakpointCondition.lsb, DebugAddressRegisterNumber.get, cond_simps] <;> bv_decide

/-- The same for `set_size(n, s)`: 4 registers × 4 sizes × every 64-bit word. -/
theorem dr7_set_size_indep (v r : BitVec 64) (n : DebugAddressRegisterNumber) (s : BreakpointSize)
    (h : Dr7Value.setSize v n s = .ok r) :
    Dr7Value.size r n = .ok s ∧
    (∀ m, m ≠ n → Dr7Value.size r m = Dr7Value.size v m) ∧
    (∀ m, Dr7Value.condition r m = Dr7Value.condition v m) ∧
    Dr7Value.flags r = Dr7Value.flags v ∧
    r &&& ~~~Dr7Value.validBits = v &&& ~~~Dr7Value.validBits := by
  rw [setSize_eq] at h
  have hr := (R.ok.inj h).symm
  subst hr
  refine ⟨?_, ?_, ?_, ?_, ?_⟩
  · have : getBits (v &&& ~~~(3#64 <<< BreakpointSize.lsb n) |||
        BitVec.ofNat 64 s.toNat <<< BreakpointSize.lsb n) (BreakpointSize.lsb n) 2
        = BitVec.ofNat 64 s.toNat := by
      cases n <;> cases s <;>
        simp only [getBits, BreakpointSize.lsb, DebugAddressRegisterNumber.get, size_simps] <;> bv_decide
    unfold Dr7Value.size
    rw [this, BitVec.toNat_ofNat, Nat.mod_eq_of_lt (Nat.lt_trans (size_lt s) (by decide))]
    exact congrArg R.ofOption (bs_round_trip s)
  · intro m hm
    apply size_congr
    cases n <;> cases m <;> first | exact absurd rfl hm | (cases s <;>
      simp only [getBits, BreakpointSize.lsb, DebugAddressRegisterNumber.get, size_simps] <;> bv_decide)
  · intro m
    apply condition_congr
    cases n <;> cases m <;> cases s <;>
      simp only [getBits, BreakpointCondition.lsb, BreakpointSize.lsb, DebugAddressRegisterNumber.get, size_simps] <;>
      bv_decide
  · unfold Dr7Value.flags
    rw [dr7_masks.1]
    cases n <;> cases s <;>
      simp only [dr7FlagMask, BreakpointSize.lsb, DebugAddressRegisterNumber.get, size_simps] <;> bv_decide
  · rw [dr7_masks.2]
    cases n <;> cases s <;>
      simp only [dr7DefinedMask, BreakpointSize.lsb, DebugAddressRegisterNumber.get, size_simps] <;> bv_decide

/-- The fields are independent of the flag operations: inserting, removing or toggling ANY set of
`Dr7Flags` (any `f` within `Dr7Flags::all()`) changes no condition and no size field, and acts on
the flags as the set operation. For every 64-bit word and every flag subset. -/
theorem dr7_flag_ops_indep (v f : BitVec 64) (hf : f &&& ~~~Dr7Flags.all = 0) (n : DebugAddressRegisterNumber) :
    Dr7Value.condition (Dr7Value.insertFlags v f) n = Dr7Value.condition v n ∧
    Dr7Value.condition (Dr7Value.removeFlags v f) n = Dr7Value.condition v n ∧
    Dr7Value.condition (Dr7Value.toggleFlags v f) n = Dr7Value.condition v n ∧
    Dr7Value.size (Dr7Value.insertFlags v f) n = Dr7Value.size v n ∧
    Dr7Value.size (Dr7Value.removeFlags v f) n = Dr7Value.size v n ∧
    Dr7Value.size (Dr7Value.toggleFlags v f) n = Dr7Value.size v n ∧
    Dr7Value.flags (Dr7Value.insertFlags v f) = Dr7Value.flags v ||| f ∧
    Dr7Value.flags (Dr7Value.removeFlags v f) = Dr7Value.flags v &&& ~~~f ∧
    Dr7Value.flags (Dr7Value.toggleFlags v f) = Dr7Value.flags v ^^^ f := by
  rw [dr7_masks.1] at hf
  unfold dr7FlagMask at hf
  refine ⟨?_, ?_, ?_, ?_, ?_, ?_, ?_, ?_, ?_⟩
  iterate 3
    apply condition_congr
    cases n <;> simp only [getBits, BreakpointCondition.lsb, DebugAddressRegisterNumber.get,
      Dr7Value.insertFlags, Dr7Value.removeFlags, Dr7Value.toggleFlags] <;> bv_decide
  iterate 3
    apply size_congr
    cases n <;> simp only [getBits, BreakpointSize.lsb, DebugAddressRegisterNumber.get,
      Dr7Value.insertFlags, Dr7Value.removeFlags, Dr7Value.toggleFlags] <;> bv_decide
  all_goals
    simp only [Dr7Value.flags, Dr7Value.insertFlags, Dr7Value.removeFlags, Dr7Value.toggleFlags,
      dr7_masks.1, dr7FlagMask]
    bv_decide

example : Dr7Value.setCondition 0#64 .dr1 .dataReadsWrites = .ok 0x300000#64 := by decide
example : Dr7Value.setSize 0xFFFFFFFF#64 .dr3 .length1B = .ok 0x3FFFFFFF#64 := by decide
example : Dr7Value.fromBits 0x400#64 = none ∧ Dr7Value.fromBits 0xFFFF2BFF#64 = some 0xFFFF2BFF#64 := by
  decide +kernel

/-! ### Selector error code (SDM Vol.3 §6.13) -/

def tableCode : DescriptorTable → Nat
  | .gdt => 0
  | .idt => 1
  | .ldt => 2

theorem sec_new_spec (v : BitVec 64) :
    SelectorErrorCode.new v = if v.toNat < 65536 then some v else none := by
  unfold SelectorErrorCode.new
  by_cases h : v.toNat > 65535
  · have : ¬ v.toNat < 65536 := by omega
    simp [h, this]
  · have : v.toNat < 65536 := by omega
    simp [h, this]

theorem sec_new_truncate_spec (v : BitVec 64) :
    (SelectorErrorCode.newTruncate v).toNat = v.toNat % 65536 := by
  unfold SelectorErrorCode.newTruncate
  simp only [BitVec.truncate_eq_setWidth, BitVec.toNat_setWidth]
  omega

/-- The accessors read EXT (bit 0), the table (IDT bit 1, TI bit 2) and the index (bits 15:3);
`descriptor_table` never reaches its `unreachable!()`. -/
theorem sec_fields_spec (e : BitVec 64) :
    SelectorErrorCode.external e = secExt e ∧
    (∃ t, SelectorErrorCode.descriptorTable e = .ok t ∧ tableCode t = secTable e) ∧
    (SelectorErrorCode.index e).toNat = secIndex e ∧
    (SelectorErrorCode.isNull e = true ↔ e = 0) := by
  refine ⟨rfl, ?_, ?_, ?_⟩
  · unfold SelectorErrorCode.descriptorTable secTable secIdt secTi
    cases h1 : e.getLsbD 1 <;> cases h2 : e.getLsbD 2
    · have : getBits e 1 2 = 0#64 := by unfold getBits; bv_decide
      rw [this]; exact ⟨.gdt, rfl, by simp [tableCode]⟩
    · have : getBits e 1 2 = 2#64 := by unfold getBits; bv_decide
      rw [this]; exact ⟨.ldt, rfl, by simp [tableCode]⟩
    · have : getBits e 1 2 = 1#64 := by unfold getBits; bv_decide
      rw [this]; exact ⟨.idt, rfl, by simp [tableCode]⟩
    · have : getBits e 1 2 = 3#64 := by unfold getBits; bv_decide
      rw [this]; exact ⟨.idt, rfl, by simp [tableCode]⟩
  · unfold SelectorErrorCode.index secIndex
    exact getBits_toNat e 3 13 (by decide)
  · unfold SelectorErrorCode.isNull
    exact beq_iff_eq

example : SelectorErrorCode.descriptorTable 0x2A#64 = .ok .idt ∧ SelectorErrorCode.index 0x2A#64 = 5#64 := by
  decide

end X86.C19
