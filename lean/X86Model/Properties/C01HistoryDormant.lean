/-
C01 — the history theorem for histories that contain pages mapped WITHOUT `PRESENT`.

`Properties/C01History.lean` proves "the history of successful calls dictates every translation" for
calls whose leaf flags contain `PRESENT`. Here `map_to`/`identity_map` and `update_flags` may carry ANY
leaf flags without address bits (`LeafBits4K` / `LeafBitsHuge`), with or without `PRESENT`, and the mapper
may be of any kind (`MappedPageTable`/`OffsetPageTable`: `⟨false⟩`, `RecursivePageTable`: `⟨true⟩`).

* The abstract state `Abs` is a finite list of page records `PageRec` (page = parent indices + slot
  index, size, frame, current leaf flags) — present and dormant pages alike.
* `expectedHw a va` is what the hardware must see at `va`: the record covering `va` if its flags contain
  `PRESENT`, else nothing. `expectedSlot a parents li` is the raw word the page's slot must hold:
  `frame | flags (| HUGE_PAGE)` for a recorded page, `0` otherwise.
* `absStep` folds the call RESULTS: a failed call changes nothing; a successful `map_to` adds the page
  with its flags; a successful `unmap` removes it (it succeeds only on present pages); a successful
  `update_flags` replaces the flags of the recorded page — present or dormant — and may thereby make it
  visible or invisible to the hardware; parent-flag calls change no record.
  (Corner case kept exact: the raw word of a 4 KiB page at frame 0 with empty flags is the all-zero,
  i.e. unused, entry; such a "mapping" is no record.)
* `history_dormant`: from an empty level-4 table, after any finite history of valid calls, the invariant
  `Inv` holds; the hardware walk of every address equals `expectedHw` of the folded abstract state (up to
  `Xlat.core`: frame, size, offset, leaf flags); every page's slot holds `expectedSlot`; and
  `translate_page` (any mapper kind) returns the frame of every recorded page, present or dormant.

The proof keeps, along the history, an exact correspondence between the records of the abstract state
and the *leaf slots* of the hierarchy (`Rel`; `Proofs/LeafSlots.lean`); the hardware view is a
consequence of that correspondence (`hw_of_rel`).
-/
import X86Model.Proofs.LeafSlots
import X86Model.Properties.C01History
import X86Model.Properties.C01Dormant

namespace X86.C01HistoryDormant
open X86 X86.Spec X86.C01

/-! ### Abstract state -/

/-- One mapped page: its parent-table indices and slot index (they determine the start address; 3/2/1
parents for 4 KiB/2 MiB/1 GiB), `huge` and size, the frame and the current leaf flags (with or without
`PRESENT`). -/
structure PageRec where
  parents : List Nat
  li : Nat
  huge : Bool
  sz : Nat
  frame : Word
  flags : Word
  deriving DecidableEq, Repr

/-- The raw word the page's slot holds: `frame | flags (| HUGE_PAGE)`. -/
abbrev PageRec.word (r : PageRec) : Word := leafWord r.huge r.frame r.flags

/-- Start address of the page, in lower-half form (bits 48..63 not sign-extended): the indices are the
address bits 39..47, 30..38, 21..29 (and 12..20). -/
def PageRec.start (r : PageRec) : Nat :=
  (r.parents ++ [r.li]).foldl (fun acc i => acc * 512 + i) 0 * 512 ^ (3 - r.parents.length) * 4096

/-- Is `r` the record of the page `parents`/`li`? -/
def PageRec.isPage (r : PageRec) (parents : List Nat) (li : Nat) : Bool := r.parents == parents && r.li == li

/-- Does the page contain the virtual address `va`? -/
def PageRec.covers (r : PageRec) (va : Nat) : Bool := (r.parents ++ [r.li]).isPrefixOf (vaPath va)

theorem PageRec.isPage_iff (r : PageRec) (parents : List Nat) (li : Nat) :
    r.isPage parents li = true ↔ r.parents = parents ∧ r.li = li := by
  simp [PageRec.isPage]

theorem PageRec.covers_iff (r : PageRec) (va : Nat) :
    r.covers va = true ↔ r.parents ++ [r.li] <+: vaPath va := by
  simp [PageRec.covers]

/-- The abstract state: the finite map of mapped pages (present or dormant), as an association list. -/
abbrev Abs := List PageRec

/-- The record of the page containing `va`. -/
def Abs.at (a : Abs) (va : Nat) : Option PageRec := a.find? (fun r => r.covers va)

/-- The record of the page `parents`/`li`. -/
def Abs.page (a : Abs) (parents : List Nat) (li : Nat) : Option PageRec := a.find? (fun r => r.isPage parents li)

/-- **What the hardware must see** at `va` (frame, size, offset, leaf flags): the record covering `va` if its
flags contain `PRESENT`, else nothing. -/
def expectedHw (a : Abs) (va : Nat) : Option (Nat × Nat × Nat × Word) :=
  match a.at va with
  | some r => if r.flags &&& 1#64 = 1#64 then some (r.frame.toNat, r.sz, va % r.sz, leafFlagsOf r.huge r.flags) else none
  | none => none

/-- **What the slot of the page `parents`/`li` must hold**: `frame | flags (| HUGE_PAGE)` of its record
(present or dormant), `0` if there is none. -/
def expectedSlot (a : Abs) (parents : List Nat) (li : Nat) : Word :=
  match a.page parents li with
  | some r => r.word
  | none => 0#64

/-- The abstract effect of a successful call (a failed call has none). -/
def absOk (a : Abs) : MOp → Abs
  | .map parents li huge sz frame flags _ _ =>
    if leafWord huge frame flags = 0#64 then a else ⟨parents, li, huge, sz, frame, flags⟩ :: a
  | .unmap parents li _ _ => a.filter (fun r => !r.isPage parents li)
  | .update parents li _ _ flags =>
    a.filterMap (fun r =>
      if r.isPage parents li then
        (if leafWord r.huge r.frame flags = 0#64 then none else some { r with flags := flags })
      else some r)
  | .setParent _ _ _ => a

/-- The abstract effect of a call, as a function of whether it succeeded. -/
def absStep (a : Abs) (ok : Bool) (op : MOp) : Abs := if ok then absOk a op else a

/-! ### Calls, validity, histories -/

/-- Execute one call of a mapper of kind `k` on memory `m`: did it succeed, and the memory afterwards. -/
def exec (k : Kind) (p4 : Word) (m : PMem) : MOp → Bool × PMem
  | .map parents li huge _ frame flags pflags allocs =>
    let r := mapTo k (⟨m, allocs, []⟩ : St) p4 parents li huge frame flags pflags
    (okMap r.1, r.2.mem)
  | .unmap parents li huge sz =>
    let r := X86.unmap (⟨m, [], []⟩ : St) p4 parents li huge sz
    (okExc r.1, r.2.mem)
  | .update parents li huge _ flags =>
    let r := updateFlags k (⟨m, [], []⟩ : St) p4 parents li huge flags
    (okExc r.1, r.2.mem)
  | .setParent parents idx flags =>
    let r := setParentFlags k (⟨m, [], []⟩ : St) p4 parents idx flags
    (okExc r.1, r.2.mem)

/-- For the non-recursive kinds this is the execution function of `C01History`. -/
theorem exec_false (p4 : Word) (m : PMem) (op : MOp) : exec ⟨false⟩ p4 m op = op.exec p4 m := by
  cases op <;> rfl

/-- Validity in the weaker sense: like `MOp.Valid`, but the leaf flags of `map_to` and `update_flags` need
NOT contain `PRESENT` (`LeafBits…` instead of `LeafFlags…`). -/
def ValidD (p4 : Word) (m : PMem) : MOp → Prop
  | .map parents li huge sz frame flags pflags allocs =>
    PageShape parents huge sz ∧ IdxOK parents ∧ li < 512 ∧ ParentFlagsOK pflags ∧
    (if huge then LeafBitsHuge flags else LeafBits4K flags) ∧ FrameOK sz frame ∧ AllocsOK m p4 allocs
  | .unmap parents _ huge sz => PageShape parents huge sz ∧ IdxOK parents
  | .update parents li huge sz flags =>
    PageShape parents huge sz ∧ IdxOK parents ∧ li < 512 ∧
    (if huge then LeafBitsHuge flags else LeafBits4K flags)
  | .setParent parents idx flags => parents.length ≤ 2 ∧ IdxOK parents ∧ idx < 512 ∧ ParentFlags flags

/-- Every call valid in the sense of `C01History` is valid in the weaker sense. -/
theorem validD_of_valid (p4 : Word) (m : PMem) (op : MOp) (h : op.Valid p4 m) : ValidD p4 m op := by
  cases op with
  | map parents li huge sz frame flags pflags allocs =>
    obtain ⟨h1, h2, h3, h4, h5, h6, h7⟩ := h
    exact ⟨h1, h2, h3, h4, leafBits_of_leafFlags h5, h6, h7⟩
  | unmap parents li huge sz => exact h
  | update parents li huge sz flags =>
    obtain ⟨h1, h2, h3, h4⟩ := h
    exact ⟨h1, h2, h3, leafBits_of_leafFlags h4⟩
  | setParent parents idx flags => exact h

/-- Run a history with a mapper of kind `k`. -/
def runHistory (k : Kind) (p4 : Word) : PMem → List MOp → PMem
  | m, [] => m
  | m, op :: rest => runHistory k p4 (exec k p4 m op).2 rest

/-- Each call is valid (in the weaker sense) in the state it is made in. -/
def HistoryValid (k : Kind) (p4 : Word) : PMem → List MOp → Prop
  | _, [] => True
  | m, op :: rest => ValidD p4 m op ∧ HistoryValid k p4 (exec k p4 m op).2 rest

/-- The abstract state a history dictates: the fold of `absStep` over the calls' results. -/
def expectedAbs (k : Kind) (p4 : Word) : PMem → Abs → List MOp → Abs
  | _, a, [] => a
  | m, a, op :: rest => expectedAbs k p4 (exec k p4 m op).2 (absStep a (exec k p4 m op).1 op) rest

/-! ### The correspondence between records and leaf slots -/

/-- A record is well-formed: a page shape with real indices, leaf flags without address bits, an aligned
frame below 2^52. -/
structure PageRec.OK (r : PageRec) : Prop where
  shape : PageShape r.parents r.huge r.sz
  idx : IdxOK r.parents
  li : r.li < 512
  flags : if r.huge then LeafBitsHuge r.flags else LeafBits4K r.flags
  frame : FrameOK r.sz r.frame

/-- **The abstract state describes the hierarchy exactly**: every record is well-formed and its page's slot
is a leaf slot holding `frame | flags (| HUGE_PAGE)`; and every leaf slot of the hierarchy (non-zero entry
that is not a link to a lower table) belongs to a recorded page. -/
structure Rel (p4 : Word) (m : PMem) (a : Abs) : Prop where
  slots : ∀ r ∈ a, r.OK ∧ IsLeafSlot m p4 r.parents r.li r.word
  complete : ∀ q j w, q.length ≤ 3 → IdxOK q → j < 512 → IsLeafSlot m p4 q j w →
    ∃ r ∈ a, r.parents = q ∧ r.li = j

theorem Rel.of_leafSame {p4 : Word} {m m' : PMem} {a : Abs} (h : LeafSame p4 m m') (hrel : Rel p4 m a) :
    Rel p4 m' a := by
  refine ⟨?_, ?_⟩
  · intro r hr
    obtain ⟨hok, hs⟩ := hrel.slots r hr
    exact ⟨hok, (h r.parents r.li r.word hok.shape.len_le.2 hok.idx hok.li).1 hs⟩
  · intro q j w hq hqi hj hs
    exact hrel.complete q j w hq hqi hj ((h q j w hq hqi hj).2 hs)

/-- The empty hierarchy corresponds to the empty abstract state. -/
theorem Rel.init (p4 : Word) (m : PMem) (hzero : ∀ i, m p4 i = 0#64) : Rel p4 m [] := by
  refine ⟨fun r hr => (by cases hr), ?_⟩
  intro q j w _ _ _ ⟨g, hg, hw, hne, _⟩
  exfalso
  cases q with
  | nil =>
    simp [tblAt] at hg; subst hg
    rw [hzero j] at hw; exact hne hw.symm
  | cons j' q => simp [tblAt, hzero j', tableOf_zero] at hg

/-- **A single-word write into the slot of page `p`/`li`** (keeping the tree): the correspondence holds
again for any abstract state `a'` that agrees with `a` on the other pages and has a (well-formed) record
with raw word `v` for this page iff `v` is non-zero. -/
theorem Rel.set {p4 : Word} {m : PMem} {a : Abs} (hwf : WF m p4) (hrel : Rel p4 m a)
    (p : List Nat) (t : Word) (li : Nat) (v : Word) (a' : Abs)
    (hp : tblAt m p4 p = some t) (hpl : p.length ≤ 3) (hpi : IdxOK p)
    (hv : p.length = 3 ∨ tableOf v = tableOf (m t li))
    (hleaf : v ≠ 0#64 → (p.length = 3 ∨ tableOf v = none))
    (h1 : ∀ r ∈ a', (r.parents = p ∧ r.li = li ∧ r.word = v ∧ v ≠ 0#64 ∧ r.OK) ∨
      (r ∈ a ∧ ¬ (r.parents = p ∧ r.li = li)))
    (h2 : ∀ r ∈ a, ¬ (r.parents = p ∧ r.li = li) → r ∈ a')
    (h3 : v ≠ 0#64 → li < 512 → ∃ r ∈ a', r.parents = p ∧ r.li = li) :
    Rel p4 (m.set t li v) a' := by
  refine ⟨?_, ?_⟩
  · intro r hr
    rcases h1 r hr with ⟨e1, e2, e3, hne, hok⟩ | ⟨hra, hk⟩
    · refine ⟨hok, ?_⟩
      rw [isLeafSlot_set m p4 hwf p t li v hp hpl hpi hv r.parents r.li r.word hok.shape.len_le.2 hok.idx,
        if_pos ⟨e1, e2⟩]
      exact ⟨e3, hne, hleaf hne⟩
    · obtain ⟨hok, hs⟩ := hrel.slots r hra
      refine ⟨hok, ?_⟩
      rw [isLeafSlot_set m p4 hwf p t li v hp hpl hpi hv r.parents r.li r.word hok.shape.len_le.2 hok.idx,
        if_neg hk]
      exact hs
  · intro q j w hq hqi hj hs
    rw [isLeafSlot_set m p4 hwf p t li v hp hpl hpi hv q j w hq hqi] at hs
    by_cases hk : q = p ∧ j = li
    · rw [if_pos hk] at hs
      obtain ⟨_, hne, _⟩ := hs
      obtain ⟨r, hr, e1, e2⟩ := h3 hne (hk.2 ▸ hj)
      exact ⟨r, hr, by rw [e1, hk.1], by rw [e2, hk.2]⟩
    · rw [if_neg hk] at hs
      obtain ⟨r, hr, e1, e2⟩ := hrel.complete q j w hq hqi hj hs
      exact ⟨r, h2 r hr (by rw [e1, e2]; exact hk), e1, e2⟩

/-! ### Bit-level facts -/

private theorem bitP_false_of_not_present (fl : Word) (h : ¬ fl &&& 1#64 = 1#64) : bitP fl = false := by
  unfold bitP; unfold Word at *; bv_decide

private theorem upd4k_word (frame fl0 fl : Word) (hf : frame &&& 0xfff0000000000fff#64 = 0#64)
    (h0 : fl0 &&& 0x000ffffffffff000#64 = 0#64) :
    Pte.setFlags (Pte.mk frame fl0) fl = Pte.mk frame fl := by
  unfold Pte.setFlags Pte.mk Pte.addr Pte.ADDR_MASK
  unfold Word at *
  bv_decide

private theorem updHuge_word (frame fl0 fl : Word) (hf : frame &&& 0xfff00000001fffff#64 = 0#64)
    (h0 : fl0 &&& 0x000fffffffffe000#64 = 0#64) :
    Pte.mk (Pte.hugeAddr (Pte.mk frame (fl0 ||| Pte.HUGE))) (fl ||| Pte.HUGE) = Pte.mk frame (fl ||| Pte.HUGE) := by
  unfold Pte.hugeAddr Pte.mk Pte.HUGE
  unfold Word at *
  bv_decide

private theorem parent_bits (e fl : Word) (h1 : fl &&& 1#64 = 1#64) (h2 : fl &&& 0x80#64 = 0#64)
    (h3 : fl &&& 0x000ffffffffff000#64 = 0#64) :
    bitP (Pte.setFlags e fl) = true ∧ bitPS (Pte.setFlags e fl) = false ∧
    tableAddr (Pte.setFlags e fl) = tableAddr e := by
  unfold bitP bitPS tableAddr Pte.setFlags Pte.addr Pte.ADDR_MASK
  unfold Word at *
  refine ⟨?_, ?_, ?_⟩ <;> bv_decide

/-- The word `update_flags` writes over the raw word of a recorded page is the raw word of the page with
the new flags. -/
theorem update_word {parents : List Nat} {huge : Bool} {sz : Nat} (sh : PageShape parents huge sz)
    (frame fl0 fl : Word) (hfl0 : if huge then LeafBitsHuge fl0 else LeafBits4K fl0) (hfr : FrameOK sz frame) :
    (if huge = true then Pte.mk (Pte.hugeAddr (leafWord huge frame fl0)) (fl ||| Pte.HUGE)
      else Pte.setFlags (leafWord huge frame fl0) fl) = leafWord huge frame fl := by
  cases sh with
  | s4k a b c =>
    simp only [Bool.false_eq_true, if_false] at hfl0 ⊢
    have hfr' : frame &&& 0xfff0000000000fff#64 = 0#64 := by simpa [FrameOK] using hfr
    exact upd4k_word frame fl0 fl hfr' hfl0
  | s2m a b =>
    simp only [if_true] at hfl0 ⊢
    have hfr' : frame &&& 0xfff00000001fffff#64 = 0#64 := by simpa [FrameOK] using hfr
    exact updHuge_word frame fl0 fl hfr' hfl0
  | s1g a =>
    simp only [if_true] at hfl0 ⊢
    have hfr' : frame &&& 0xfff000003fffffff#64 = 0#64 := by simpa [FrameOK] using hfr
    exact updHuge_word frame fl0 fl (frame1G_2M frame hfr') hfl0

theorem pageShape_unique {p : List Nat} {h h' : Bool} {s s' : Nat} (a : PageShape p h s) (b : PageShape p h' s') :
    h = h' ∧ s = s' := by
  cases a <;> cases b <;> exact ⟨rfl, rfl⟩

/-- The raw word of a page is non-zero and not a link to a lower table — or it is zero. -/
theorem leafWord_leaf {parents : List Nat} {huge : Bool} {sz : Nat} (sh : PageShape parents huge sz)
    (frame flags : Word) (hfl : if huge then LeafBitsHuge flags else LeafBits4K flags) (hfr : FrameOK sz frame) :
    parents.length = 3 ∨ tableOf (leafWord huge frame flags) = none := by
  obtain ⟨_, _, _, _, _, _, w7, _⟩ := leafWord_facts sh frame flags hfl hfr
  rw [tableOf_zero] at w7; exact w7

/-! ### The hardware and software views follow from the correspondence -/

/-- **The hardware walk is what the abstract state says**: the record covering the address, if its flags
contain `PRESENT`. -/
theorem hw_of_rel {p4 : Word} {m : PMem} {a : Abs} (hinv : Inv m p4) (hrel : Rel p4 m a) (va : Nat) :
    (walk m p4 va).map Xlat.core = expectedHw a va := by
  unfold expectedHw Abs.at
  cases hf : a.find? (fun r => r.covers va) with
  | none =>
    simp only
    cases hw : walk m p4 va with
    | none => rfl
    | some x =>
      exfalso
      obtain ⟨q, j, g, hpre, hq3, hg, hP, hl⟩ := walk_some_leaf m p4 va x hw
      obtain ⟨hqi, hji⟩ := IdxOK_append.1 (IdxOK_of_prefix hpre)
      have hj : j < 512 := hji j (by simp)
      have hls : IsLeafSlot m p4 q j (m g j) := by
        refine ⟨g, hg, rfl, ne_zero_of_bitP hP, hl.imp id (fun hS => ?_)⟩
        cases hto : tableOf (m g j) with
        | none => rfl
        | some t' =>
          have := ((tableOf_some_iff _ _).1 hto).2.1
          rw [hS] at this; cases this
      obtain ⟨r, hr, e1, e2⟩ := hrel.complete q j _ hq3 hqi hj hls
      have hnc := List.find?_eq_none.1 hf r hr
      apply hnc
      rw [PageRec.covers_iff, e1, e2]; exact hpre
  | some r =>
    simp only
    have hr : r ∈ a := List.mem_of_find?_eq_some hf
    have hc0 := List.find?_some hf
    have hc : r.covers va = true := hc0
    rw [PageRec.covers_iff] at hc
    obtain ⟨hok, g, hg, hw, hne, _⟩ := hrel.slots r hr
    obtain ⟨_, hl3⟩ := hok.shape.len_le
    obtain ⟨_, _, w3, w4, w5, w6, _, _⟩ := leafWord_facts hok.shape r.frame r.flags hok.flags hok.frame
    obtain ⟨rw, us, h1⟩ := walk_reach m p4 hinv.wf r.parents g r.li va hg hl3 hc
    obtain ⟨x, hx, xb, xs, xo, xf⟩ := entryStep_leaf hok.shape m (m g r.li) va rw us (by rw [hw]; exact w4)
    rw [hw] at hx xb xf
    rw [w3] at hx
    rw [w5] at xb
    rw [w6] at xf
    rw [h1, hw, hx]
    by_cases hp : r.flags &&& 1#64 = 1#64
    · rw [if_pos hp, bitP_of_present _ hp]
      simp [Xlat.core, xb, xs, xo, xf]
    · rw [if_neg hp, bitP_false_of_not_present _ hp]
      rfl

/-- **The slot of every page holds what the abstract state says** — `frame | flags (| HUGE_PAGE)` of its
record, present or dormant; `0` if the page is not recorded —, whenever the page's table exists and the
slot is not a link to a lower table. -/
theorem slot_of_rel {p4 : Word} {m : PMem} {a : Abs} (hrel : Rel p4 m a) (parents : List Nat) (li : Nat)
    (hl : parents.length ≤ 3) (hpi : IdxOK parents) (hli : li < 512)
    (t : Word) (ht : tblAt m p4 parents = some t) (hnl : parents.length = 3 ∨ tableOf (m t li) = none) :
    m t li = expectedSlot a parents li := by
  unfold expectedSlot Abs.page
  cases hf : a.find? (fun r => r.isPage parents li) with
  | none =>
    simp only
    apply Classical.byContradiction
    intro hne
    obtain ⟨r, hr, e1, e2⟩ := hrel.complete parents li _ hl hpi hli ⟨t, ht, rfl, hne, hnl⟩
    exact List.find?_eq_none.1 hf r hr ((PageRec.isPage_iff _ _ _).2 ⟨e1, e2⟩)
  | some r =>
    simp only
    have hr : r ∈ a := List.mem_of_find?_eq_some hf
    have hc0 := List.find?_some hf
    have hc : r.isPage parents li = true := hc0
    obtain ⟨e1, e2⟩ := (PageRec.isPage_iff _ _ _).1 hc
    obtain ⟨_, g, hg, hw, _⟩ := hrel.slots r hr
    rw [e1, ht] at hg
    rw [← hw, e2, ← Option.some.inj hg]

/-- **The software reading**: `translate_page` (any mapper kind) returns the frame of every recorded page,
whether or not the hardware sees it. -/
theorem translate_of_rel {p4 : Word} {m : PMem} {a : Abs} (hrel : Rel p4 m a) (r : PageRec) (hr : r ∈ a)
    (k : Kind) (s : St) (hs : s.mem = m) :
    (translatePage k s p4 r.parents r.li r.huge r.sz).1 = .ok r.frame := by
  obtain ⟨hok, g, hg, hw, hne, _⟩ := hrel.slots r hr
  subst hs
  exact C01Dormant.translate_page_dormant k s p4 r.parents r.li r.huge r.sz r.frame r.flags hok.shape hok.flags
    hok.frame g hg hw hne

/-! ### One step -/

/-- What `map_to` does to the leaf slots: the descent changes none; on success the page's slot — zero
before — receives the raw word. -/
theorem map_to_leaves (k : Kind) (s : St) (p4 : Word) (parents : List Nat) (li : Nat) (huge : Bool) (sz : Nat)
    (frame flags pflags : Word)
    (sh : PageShape parents huge sz) (hinv : Inv s.mem p4) (hpi : IdxOK parents)
    (hpf : ParentFlagsOK pflags) (hfl : if huge then LeafBitsHuge flags else LeafBits4K flags)
    (hfr : FrameOK sz frame) (hal : AllocsOK s.mem p4 s.allocs) :
    match mapTo k s p4 parents li huge frame flags pflags with
    | (.panic, _) => False
    | (.ok (.error _), s') => LeafSame p4 s.mem s'.mem
    | (.ok (.ok ()), s') => ∃ m1 tl, Inv m1 p4 ∧ LeafSame p4 s.mem m1 ∧ tblAt m1 p4 parents = some tl ∧
        m1 tl li = 0#64 ∧ s'.mem = m1.set tl li (leafWord huge frame flags) := by
  obtain ⟨hl1, hl3⟩ := sh.len_le
  obtain ⟨w1, w2, _⟩ := leafWord_facts sh frame flags hfl hfr
  have hcp := createPath_ok k pflags p4 hpf parents [] p4 s hinv rfl (by simpa using hl3) (by simpa using hpi) hal
  have hls := createPath_leafSame k pflags p4 hpf parents [] p4 s hinv rfl (by simpa using hl3)
    (by simpa using hpi) hal
  unfold mapTo
  cases hc : createPath k pflags s p4 parents with
  | mk res s1 =>
    rw [hc] at hcp hls
    cases res with
    | panic => exact hcp
    | ok res' =>
      cases res' with
      | error e => cases e <;> exact hls
      | ok tl =>
        obtain ⟨hs1, htl⟩ := hcp
        simp only [List.nil_append] at htl
        simp only [St.rd_fst]
        by_cases hu : Pte.isUnused (s1.mem tl li) = true
        · have hzero : s1.mem tl li = 0#64 := by simpa [Pte.isUnused] using hu
          simp only [hu, Bool.not_true, Bool.false_eq_true, if_false, w1, w2, St.wr_mem, St.rd_mem]
          exact ⟨s1.mem, tl, hs1.inv, hls, htl, hzero, rfl⟩
        · have hu' : Pte.isUnused (s1.mem tl li) = false := by simpa using hu
          simp only [hu', Bool.not_false, if_true, St.rd_mem]
          exact hls

private theorem step_map (k : Kind) (p4 : Word) (m : PMem) (a : Abs)
    (parents : List Nat) (li : Nat) (huge : Bool) (sz : Nat) (frame flags pflags : Word) (allocs : List (Option Word))
    (hinv : Inv m p4) (hrel : Rel p4 m a)
    (hv : ValidD p4 m (.map parents li huge sz frame flags pflags allocs)) :
    Inv (exec k p4 m (.map parents li huge sz frame flags pflags allocs)).2 p4 ∧
    Rel p4 (exec k p4 m (.map parents li huge sz frame flags pflags allocs)).2
      (absStep a (exec k p4 m (.map parents li huge sz frame flags pflags allocs)).1
        (.map parents li huge sz frame flags pflags allocs)) := by
  obtain ⟨sh, hpi, hli, hpf, hfl, hfr, hal⟩ := hv
  obtain ⟨hl1, hl3⟩ := sh.len_le
  have hfull := map_to_full k (⟨m, allocs, []⟩ : St) p4 parents li huge sz frame flags pflags sh hinv hpi hpf hfl hfr hal
  have hlv := map_to_leaves k (⟨m, allocs, []⟩ : St) p4 parents li huge sz frame flags pflags sh hinv hpi hpf hfl hfr hal
  show Inv (mapTo k (⟨m, allocs, []⟩ : St) p4 parents li huge frame flags pflags).2.mem p4 ∧
    Rel p4 (mapTo k (⟨m, allocs, []⟩ : St) p4 parents li huge frame flags pflags).2.mem
      (absStep a (okMap (mapTo k (⟨m, allocs, []⟩ : St) p4 parents li huge frame flags pflags).1)
        (.map parents li huge sz frame flags pflags allocs))
  cases hm : mapTo k (⟨m, allocs, []⟩ : St) p4 parents li huge frame flags pflags with
  | mk res s' =>
    rw [hm] at hfull hlv
    cases res with
    | panic => exact hfull.elim
    | ok res' =>
      cases res' with
      | error e =>
        simp only [absStep, okMap, Bool.false_eq_true, if_false]
        exact ⟨hfull.inv, Rel.of_leafSame hlv hrel⟩
      | ok u =>
        cases u
        simp only [absStep, okMap, if_true, absOk]
        refine ⟨hfull.inv, ?_⟩
        obtain ⟨m1, tl, hinv1, hls, htl, hzero, hmem⟩ := hlv
        have hrel1 : Rel p4 m1 a := Rel.of_leafSame hls hrel
        -- no record of `a` is for this page: its slot was zero
        have hnot : ∀ r ∈ a, ¬ (r.parents = parents ∧ r.li = li) := by
          rintro r hr ⟨e1, e2⟩
          obtain ⟨_, g, hg, hw, hne, _⟩ := hrel1.slots r hr
          rw [e1, htl] at hg
          rw [← Option.some.inj hg, e2, hzero] at hw
          exact hne hw.symm
        have hleaf := leafWord_leaf sh frame flags hfl hfr
        rw [show s'.mem = m1.set tl li (leafWord huge frame flags) from hmem]
        apply Rel.set hinv1.wf hrel1 parents tl li (leafWord huge frame flags) _ htl hl3 hpi
          (by rw [hzero, tableOf_zero]; exact hleaf) (fun _ => hleaf)
        · intro r hr
          by_cases hz : leafWord huge frame flags = 0#64
          · rw [if_pos hz] at hr
            exact Or.inr ⟨hr, hnot r hr⟩
          · rw [if_neg hz] at hr
            rcases List.mem_cons.1 hr with h | h
            · subst h
              exact Or.inl ⟨rfl, rfl, rfl, hz, ⟨sh, hpi, hli, hfl, hfr⟩⟩
            · exact Or.inr ⟨h, hnot r h⟩
        · intro r hr _
          by_cases hz : leafWord huge frame flags = 0#64
          · rw [if_pos hz]; exact hr
          · rw [if_neg hz]; exact List.mem_cons_of_mem _ hr
        · intro hz _
          rw [if_neg hz]
          exact ⟨_, List.mem_cons_self, rfl, rfl⟩

private theorem step_unmap (p4 : Word) (m : PMem) (a : Abs)
    (parents : List Nat) (li : Nat) (huge : Bool) (sz : Nat)
    (hinv : Inv m p4) (hrel : Rel p4 m a) (sh : PageShape parents huge sz) (hpi : IdxOK parents) :
    Inv (X86.unmap (⟨m, [], []⟩ : St) p4 parents li huge sz).2.mem p4 ∧
    Rel p4 (X86.unmap (⟨m, [], []⟩ : St) p4 parents li huge sz).2.mem
      (absStep a (okExc (X86.unmap (⟨m, [], []⟩ : St) p4 parents li huge sz).1) (.unmap parents li huge sz)) := by
  obtain ⟨hl1, hl3⟩ := sh.len_le
  have hm := unmap_mem (⟨m, [], []⟩ : St) p4 parents li huge sz
  cases h : (X86.unmap (⟨m, [], []⟩ : St) p4 parents li huge sz).1 with
  | error e =>
    rw [h] at hm
    simp only at hm
    rw [hm]
    simp only [absStep, okExc, Bool.false_eq_true, if_false]
    exact ⟨hinv, hrel⟩
  | ok fr =>
    have hi' := (unmap_ok (⟨m, [], []⟩ : St) p4 parents li huge sz sh hinv hpi fr h).1
    rw [h] at hm
    obtain ⟨t, ht, _, hhuge, _, hmem⟩ := hm
    simp only [absStep, okExc, if_true, absOk]
    refine ⟨hi', ?_⟩
    rw [hmem]
    have hv : parents.length = 3 ∨ tableOf (0#64 : Word) = tableOf (m t li) := by
      cases sh with
      | s4k a b c => left; rfl
      | s2m a b =>
        right
        have := (hhuge rfl).1
        unfold tableOf; simp [this]; decide
      | s1g a =>
        right
        have := (hhuge rfl).1
        unfold tableOf; simp [this]; decide
    apply Rel.set hinv.wf hrel parents t li 0#64 _ ht hl3 hpi hv (fun hne => absurd rfl hne)
    · intro r hr
      obtain ⟨hra, hp⟩ := List.mem_filter.1 hr
      refine Or.inr ⟨hra, ?_⟩
      rw [← PageRec.isPage_iff]
      simpa using hp
    · intro r hr hk
      apply List.mem_filter.2 ⟨hr, ?_⟩
      rw [← PageRec.isPage_iff] at hk
      simpa using hk
    · intro hne; exact absurd rfl hne

private theorem step_update (k : Kind) (p4 : Word) (m : PMem) (a : Abs)
    (parents : List Nat) (li : Nat) (huge : Bool) (sz : Nat) (flags : Word)
    (hinv : Inv m p4) (hrel : Rel p4 m a) (sh : PageShape parents huge sz) (hpi : IdxOK parents) (hli : li < 512)
    (hfl : if huge then LeafBitsHuge flags else LeafBits4K flags) :
    Inv (updateFlags k (⟨m, [], []⟩ : St) p4 parents li huge flags).2.mem p4 ∧
    Rel p4 (updateFlags k (⟨m, [], []⟩ : St) p4 parents li huge flags).2.mem
      (absStep a (okExc (updateFlags k (⟨m, [], []⟩ : St) p4 parents li huge flags).1)
        (.update parents li huge sz flags)) := by
  obtain ⟨hl1, hl3⟩ := sh.len_le
  rw [updateFlags_kind k (⟨m, [], []⟩ : St) p4 parents li huge flags hinv hl3 hpi]
  have hm := updateFlags_mem (⟨m, [], []⟩ : St) p4 parents li huge flags
  cases h : (updateFlags ⟨false⟩ (⟨m, [], []⟩ : St) p4 parents li huge flags).1 with
  | error e =>
    rw [h] at hm
    simp only at hm
    rw [hm]
    simp only [absStep, okExc, Bool.false_eq_true, if_false]
    exact ⟨hinv, hrel⟩
  | ok u =>
    cases u
    obtain ⟨_, _, _, hi', _⟩ := update_flags_spec (⟨m, [], []⟩ : St) p4 parents li huge sz flags sh hinv hpi hfl h
    rw [h] at hm
    obtain ⟨t, ht, hused, hhuge, hmem⟩ := hm
    simp only [absStep, okExc, if_true, absOk]
    refine ⟨hi', ?_⟩
    rw [hmem]
    simp only at ht hused hhuge ⊢
    have hne : m t li ≠ 0#64 := by
      intro h0; rw [h0] at hused; simp [Pte.isUnused] at hused
    -- the slot is a leaf slot, hence recorded
    have hleaf0 : parents.length = 3 ∨ tableOf (m t li) = none := by
      cases sh with
      | s4k a b c => left; rfl
      | s2m a b => right; unfold tableOf; simp [hhuge rfl]
      | s1g a => right; unfold tableOf; simp [hhuge rfl]
    obtain ⟨r0, hr0, e1, e2⟩ := hrel.complete parents li _ hl3 hpi hli ⟨t, ht, rfl, hne, hleaf0⟩
    -- every record of this page holds the slot's word
    have hrec : ∀ r ∈ a, r.parents = parents ∧ r.li = li →
        r.OK ∧ r.huge = huge ∧ r.sz = sz ∧ m t li = leafWord huge r.frame r.flags := by
      intro r hr ⟨e1, e2⟩
      obtain ⟨hok, g, hg, hw, _⟩ := hrel.slots r hr
      rw [e1, ht] at hg
      obtain ⟨eh, es⟩ := pageShape_unique (e1 ▸ hok.shape) sh
      refine ⟨hok, eh, es, ?_⟩
      rw [← Option.some.inj hg, e2] at hw
      rw [hw]
      show leafWord r.huge r.frame r.flags = leafWord huge r.frame r.flags
      rw [eh]
    -- the written word, for a record `r` of this page
    have hword : ∀ r ∈ a, r.parents = parents ∧ r.li = li →
        (if huge = true then Pte.mk (Pte.hugeAddr (m t li)) (flags ||| Pte.HUGE) else Pte.setFlags (m t li) flags) =
          leafWord r.huge r.frame flags := by
      intro r hr hk
      obtain ⟨hok, eh, es, hw⟩ := hrec r hr hk
      rw [hw, eh]
      have hsh : PageShape parents huge sz := sh
      have hfl0 : if huge then LeafBitsHuge r.flags else LeafBits4K r.flags := eh ▸ hok.flags
      have hfr : FrameOK sz r.frame := es ▸ hok.frame
      exact update_word hsh r.frame r.flags flags hfl0 hfr
    generalize hvd : (if huge = true then Pte.mk (Pte.hugeAddr (m t li)) (flags ||| Pte.HUGE)
      else Pte.setFlags (m t li) flags) = v at hword ⊢
    obtain ⟨hok0, eh0, es0, hw0⟩ := hrec r0 hr0 ⟨e1, e2⟩
    have hv0 : v = leafWord huge r0.frame flags := by rw [hword r0 hr0 ⟨e1, e2⟩, eh0]
    have hfr0 : FrameOK sz r0.frame := es0 ▸ hok0.frame
    have hleafv : parents.length = 3 ∨ tableOf v = none := by
      rw [hv0]; exact leafWord_leaf sh r0.frame flags hfl hfr0
    have hv : parents.length = 3 ∨ tableOf v = tableOf (m t li) := by
      rcases hleafv with h | h
      · exact Or.inl h
      · rcases hleaf0 with h' | h'
        · exact Or.inl h'
        · exact Or.inr (by rw [h, h'])
    apply Rel.set hinv.wf hrel parents t li v _ ht hl3 hpi hv (fun _ => hleafv)
    · intro r' hr'
      obtain ⟨r, hr, hfr⟩ := List.mem_filterMap.1 hr'
      by_cases hk : r.isPage parents li = true
      · rw [if_pos hk] at hfr
        have hk' := (PageRec.isPage_iff _ _ _).1 hk
        by_cases hz : leafWord r.huge r.frame flags = 0#64
        · rw [if_pos hz] at hfr; cases hfr
        · rw [if_neg hz] at hfr
          have := Option.some.inj hfr
          subst this
          obtain ⟨hok, eh, es, _⟩ := hrec r hr hk'
          refine Or.inl ⟨hk'.1, hk'.2, (hword r hr hk').symm, by rw [hword r hr hk']; exact hz, ?_⟩
          exact ⟨hok.shape, hok.idx, hok.li, by rw [eh]; exact hfl, hok.frame⟩
      · rw [if_neg hk] at hfr
        have := Option.some.inj hfr
        subst this
        exact Or.inr ⟨hr, fun hc => hk ((PageRec.isPage_iff _ _ _).2 hc)⟩
    · intro r hr hk
      apply List.mem_filterMap.2 ⟨r, hr, ?_⟩
      rw [if_neg (fun hc => hk ((PageRec.isPage_iff _ _ _).1 hc))]
    · intro hz _
      refine ⟨{ r0 with flags := flags }, List.mem_filterMap.2 ⟨r0, hr0, ?_⟩, e1, e2⟩
      rw [if_pos ((PageRec.isPage_iff _ _ _).2 ⟨e1, e2⟩), if_neg (by rw [← hword r0 hr0 ⟨e1, e2⟩]; exact hz)]

private theorem step_setParent (k : Kind) (p4 : Word) (m : PMem) (a : Abs)
    (parents : List Nat) (idx : Nat) (flags : Word)
    (hinv : Inv m p4) (hrel : Rel p4 m a) (hlen : parents.length ≤ 2) (hpi : IdxOK parents) (hidx : idx < 512)
    (hfl : ParentFlags flags) :
    Inv (setParentFlags k (⟨m, [], []⟩ : St) p4 parents idx flags).2.mem p4 ∧
    Rel p4 (setParentFlags k (⟨m, [], []⟩ : St) p4 parents idx flags).2.mem
      (absStep a (okExc (setParentFlags k (⟨m, [], []⟩ : St) p4 parents idx flags).1)
        (.setParent parents idx flags)) := by
  rw [setParentFlags_kind k (⟨m, [], []⟩ : St) p4 parents idx flags hinv (by omega) hpi]
  have hm := setParentFlags_mem (⟨m, [], []⟩ : St) p4 parents idx flags
  have habs : ∀ b, absStep a b (.setParent parents idx flags) = a := by
    intro b; cases b <;> rfl
  rw [habs]
  cases h : (setParentFlags ⟨false⟩ (⟨m, [], []⟩ : St) p4 parents idx flags).1 with
  | error e =>
    rw [h] at hm
    simp only at hm
    rw [hm]
    exact ⟨hinv, hrel⟩
  | ok u =>
    cases u
    have hi' := (set_parent_flags_ok (⟨m, [], []⟩ : St) p4 parents idx flags hlen hinv hpi hidx hfl h).1
    rw [h] at hm
    obtain ⟨t, ht, hused, hnh, hmem⟩ := hm
    refine ⟨hi', ?_⟩
    rw [hmem]
    simp only at ht hused hnh ⊢
    have hne : m t idx ≠ 0#64 := by
      intro h0; rw [h0] at hused; simp [Pte.isUnused] at hused
    have hS : bitPS (m t idx) = false := by
      cases hpe : parents with
      | nil =>
        rw [hpe] at ht; simp [tblAt] at ht; subst ht
        exact hinv.p4nh idx hidx
      | cons a l => exact hnh (by rw [hpe]; simp)
    have hP : bitP (m t idx) = true := hinv.present_of_not_huge parents t idx hlen hpi ht hidx hne hS
    obtain ⟨b1, b2, b3⟩ := parent_bits (m t idx) flags hfl.1 hfl.2.1 hfl.2.2
    exact Rel.of_leafSame (leafSame_set_link m p4 hinv.wf parents t idx _ (tableAddr (m t idx)) ht hlen hpi
      ((tableOf_some_iff _ _).2 ⟨hP, hS, rfl⟩) ((tableOf_some_iff _ _).2 ⟨b1, b2, b3.symm⟩)) hrel

/-- **One step**: from a state satisfying the invariant whose leaf slots are exactly the records of the
abstract state, a valid call (leaf flags with or without `PRESENT`, any mapper kind, any allocator answers
honouring the contract) leads to such a state again, with the abstract state updated by the call's result. -/
theorem step_ok (k : Kind) (p4 : Word) (m : PMem) (a : Abs) (op : MOp)
    (hinv : Inv m p4) (hrel : Rel p4 m a) (hv : ValidD p4 m op) :
    Inv (exec k p4 m op).2 p4 ∧ Rel p4 (exec k p4 m op).2 (absStep a (exec k p4 m op).1 op) := by
  cases op with
  | map parents li huge sz frame flags pflags allocs =>
    exact step_map k p4 m a parents li huge sz frame flags pflags allocs hinv hrel hv
  | unmap parents li huge sz =>
    obtain ⟨sh, hpi⟩ := hv
    exact step_unmap p4 m a parents li huge sz hinv hrel sh hpi
  | update parents li huge sz flags =>
    obtain ⟨sh, hpi, hli, hfl⟩ := hv
    exact step_update k p4 m a parents li huge sz flags hinv hrel sh hpi hli hfl
  | setParent parents idx flags =>
    obtain ⟨hlen, hpi, hidx, hfl⟩ := hv
    exact step_setParent k p4 m a parents idx flags hinv hrel hlen hpi hidx hfl

/-! ### The history theorem -/

/-- The correspondence is kept along any valid history (no bound on its length). -/
theorem history_rel (k : Kind) (p4 : Word) (ops : List MOp) :
    ∀ (m : PMem) (a : Abs), Inv m p4 → Rel p4 m a → HistoryValid k p4 m ops →
      Inv (runHistory k p4 m ops) p4 ∧ Rel p4 (runHistory k p4 m ops) (expectedAbs k p4 m a ops) := by
  induction ops with
  | nil => intro m a hinv hrel _; exact ⟨hinv, hrel⟩
  | cons op rest ih =>
    intro m a hinv hrel ⟨hv, hrest⟩
    obtain ⟨hi', hr'⟩ := step_ok k p4 m a op hinv hrel hv
    exact ih _ _ hi' hr' hrest

/-- **History theorem with dormant pages** (no bound on the length of the history; all page sizes; any
mapper kind; leaf flags with or without `PRESENT`; any allocator answers honouring the contract):
from any state whose leaf slots are the records of `a`, after any valid history
* the invariant holds;
* the hardware walk of the raw memory maps every virtual address exactly as the abstract state obtained by
  folding the call results says: to the record covering it if that record's flags contain `PRESENT`, to
  "not mapped" otherwise;
* every page's slot (when its table exists and the slot is not a link to a lower table) holds
  `expectedSlot`: `frame | flags (| HUGE_PAGE)` of its record, present or dormant, `0` if there is none;
  and the table of every recorded page exists;
* `translate_page` (any mapper kind) returns the frame of every recorded page, present or dormant. -/
theorem history_dormant (k : Kind) (p4 : Word) (ops : List MOp) (m : PMem) (a : Abs)
    (hinv : Inv m p4) (hrel : Rel p4 m a) (hv : HistoryValid k p4 m ops) :
    Inv (runHistory k p4 m ops) p4 ∧
    (∀ va, (walk (runHistory k p4 m ops) p4 va).map Xlat.core = expectedHw (expectedAbs k p4 m a ops) va) ∧
    (∀ parents li t, parents.length ≤ 3 → IdxOK parents → li < 512 →
      tblAt (runHistory k p4 m ops) p4 parents = some t →
      (parents.length = 3 ∨ tableOf (runHistory k p4 m ops t li) = none) →
      runHistory k p4 m ops t li = expectedSlot (expectedAbs k p4 m a ops) parents li) ∧
    (∀ r ∈ expectedAbs k p4 m a ops, ∃ t, tblAt (runHistory k p4 m ops) p4 r.parents = some t ∧
      runHistory k p4 m ops t r.li = r.word) ∧
    (∀ r ∈ expectedAbs k p4 m a ops, ∀ (k' : Kind) (s : St), s.mem = runHistory k p4 m ops →
      (translatePage k' s p4 r.parents r.li r.huge r.sz).1 = .ok r.frame) := by
  obtain ⟨hi', hr'⟩ := history_rel k p4 ops m a hinv hrel hv
  refine ⟨hi', hw_of_rel hi' hr', fun parents li t hl hpi hli ht hnl => slot_of_rel hr' parents li hl hpi hli t ht hnl,
    ?_, fun r hr k' s hs => translate_of_rel hr' r hr k' s hs⟩
  intro r hr
  obtain ⟨_, t, ht, hw, _⟩ := hr'.slots r hr
  exact ⟨t, ht, hw⟩

/-- …in particular from the empty table and the empty abstract state. -/
theorem history_dormant_from_empty (k : Kind) (p4 : Word) (m : PMem) (hzero : ∀ i, m p4 i = 0#64) (ops : List MOp)
    (hv : HistoryValid k p4 m ops) :
    Inv (runHistory k p4 m ops) p4 ∧
    (∀ va, (walk (runHistory k p4 m ops) p4 va).map Xlat.core = expectedHw (expectedAbs k p4 m [] ops) va) ∧
    (∀ parents li t, parents.length ≤ 3 → IdxOK parents → li < 512 →
      tblAt (runHistory k p4 m ops) p4 parents = some t →
      (parents.length = 3 ∨ tableOf (runHistory k p4 m ops t li) = none) →
      runHistory k p4 m ops t li = expectedSlot (expectedAbs k p4 m [] ops) parents li) ∧
    (∀ r ∈ expectedAbs k p4 m [] ops, ∃ t, tblAt (runHistory k p4 m ops) p4 r.parents = some t ∧
      runHistory k p4 m ops t r.li = r.word) ∧
    (∀ r ∈ expectedAbs k p4 m [] ops, ∀ (k' : Kind) (s : St), s.mem = runHistory k p4 m ops →
      (translatePage k' s p4 r.parents r.li r.huge r.sz).1 = .ok r.frame) :=
  history_dormant k p4 ops m [] (init_inv m p4 hzero) (Rel.init p4 m hzero) hv

/-! ### Relation to `C01History` (calls whose leaf flags contain `PRESENT`) -/

theorem runHistory_false (p4 : Word) (ops : List MOp) : ∀ m, runHistory ⟨false⟩ p4 m ops = C01.runHistory p4 m ops := by
  induction ops with
  | nil => intro m; rfl
  | cons op rest ih => intro m; simp only [runHistory, C01.runHistory, exec_false]; exact ih _

/-- A history valid in the sense of `C01History` is valid in the weaker sense. -/
theorem historyValid_of_valid (p4 : Word) (ops : List MOp) :
    ∀ m, C01.HistoryValid p4 m ops → HistoryValid ⟨false⟩ p4 m ops := by
  induction ops with
  | nil => intro m _; trivial
  | cons op rest ih =>
    intro m ⟨hv, hrest⟩
    refine ⟨validD_of_valid p4 m op hv, ?_⟩
    rw [exec_false]; exact ih _ hrest

/-- For such histories both history theorems apply, so the two abstract descriptions of the hardware view
agree: the abstract map of `C01History` is `expectedHw` of the record list. -/
theorem expected_agree (p4 : Word) (m : PMem) (hzero : ∀ i, m p4 i = 0#64) (ops : List MOp)
    (hv : C01.HistoryValid p4 m ops) (va : Nat) :
    C01.expected p4 m (fun _ => none) ops va = expectedHw (expectedAbs ⟨false⟩ p4 m [] ops) va := by
  obtain ⟨_, h1⟩ := C01.history_from_empty p4 m hzero ops hv
  obtain ⟨_, h2, _⟩ := history_dormant_from_empty ⟨false⟩ p4 m hzero ops (historyValid_of_valid p4 ops m hv)
  rw [← h1 va, ← h2 va, runHistory_false]

/-! ### What the results of the calls say about the abstract state -/

private theorem present_of_bitP (fl : Word) (h : bitP fl = true) : fl &&& 1#64 = 1#64 := by
  unfold bitP at h; unfold Word at *; bv_decide

/-- **`unmap` succeeds only on present pages**: if the call succeeds, the page is recorded and its flags
contain `PRESENT` (on a dormant page it reports `PageNotMapped`, `C01Dormant.unmap_dormant`). -/
theorem unmap_ok_present {p4 : Word} {m : PMem} {a : Abs} (hrel : Rel p4 m a) (k : Kind)
    (parents : List Nat) (li : Nat) (huge : Bool) (sz : Nat)
    (sh : PageShape parents huge sz) (hpi : IdxOK parents) (hli : li < 512)
    (h : (exec k p4 m (.unmap parents li huge sz)).1 = true) :
    ∃ r ∈ a, r.parents = parents ∧ r.li = li ∧ r.flags &&& 1#64 = 1#64 := by
  obtain ⟨_, hl3⟩ := sh.len_le
  have hm := unmap_mem (⟨m, [], []⟩ : St) p4 parents li huge sz
  change okExc (X86.unmap (⟨m, [], []⟩ : St) p4 parents li huge sz).1 = true at h
  cases hu : (X86.unmap (⟨m, [], []⟩ : St) p4 parents li huge sz).1 with
  | error e => rw [hu] at h; cases h
  | ok fr =>
    rw [hu] at hm
    obtain ⟨t, ht, hpres, hhuge, _, _⟩ := hm
    simp only at ht hpres hhuge
    have hP : bitP (m t li) = true := hpres
    have hleaf0 : parents.length = 3 ∨ tableOf (m t li) = none := by
      cases sh with
      | s4k a b c => left; rfl
      | s2m a b => right; unfold tableOf; simp [(hhuge rfl).1]
      | s1g a => right; unfold tableOf; simp [(hhuge rfl).1]
    obtain ⟨r, hr, e1, e2⟩ := hrel.complete parents li _ hl3 hpi hli ⟨t, ht, rfl, ne_zero_of_bitP hP, hleaf0⟩
    obtain ⟨hok, g, hg, hw, _⟩ := hrel.slots r hr
    rw [e1, ht] at hg
    rw [← Option.some.inj hg, e2] at hw
    obtain ⟨_, _, w3, _⟩ := leafWord_facts hok.shape r.frame r.flags hok.flags hok.frame
    refine ⟨r, hr, e1, e2, present_of_bitP _ ?_⟩
    rw [← w3]
    have hw' : m t li = leafWord r.huge r.frame r.flags := hw
    rw [← hw']; exact hP

/-- **`update_flags` succeeds only on recorded pages** (present or dormant). -/
theorem update_ok_recorded {p4 : Word} {m : PMem} {a : Abs} (hinv : Inv m p4) (hrel : Rel p4 m a) (k : Kind)
    (parents : List Nat) (li : Nat) (huge : Bool) (sz : Nat) (flags : Word)
    (sh : PageShape parents huge sz) (hpi : IdxOK parents) (hli : li < 512)
    (h : (exec k p4 m (.update parents li huge sz flags)).1 = true) :
    ∃ r ∈ a, r.parents = parents ∧ r.li = li := by
  obtain ⟨_, hl3⟩ := sh.len_le
  have hm := updateFlags_mem (⟨m, [], []⟩ : St) p4 parents li huge flags
  change okExc (updateFlags k (⟨m, [], []⟩ : St) p4 parents li huge flags).1 = true at h
  rw [updateFlags_kind k (⟨m, [], []⟩ : St) p4 parents li huge flags hinv hl3 hpi] at h
  cases hu : (updateFlags ⟨false⟩ (⟨m, [], []⟩ : St) p4 parents li huge flags).1 with
  | error e => rw [hu] at h; cases h
  | ok u =>
    cases u
    rw [hu] at hm
    obtain ⟨t, ht, hused, hhuge, _⟩ := hm
    simp only at ht hused hhuge
    have hne : m t li ≠ 0#64 := by
      intro h0; rw [h0] at hused; simp [Pte.isUnused] at hused
    have hleaf0 : parents.length = 3 ∨ tableOf (m t li) = none := by
      cases sh with
      | s4k a b c => left; rfl
      | s2m a b => right; unfold tableOf; simp [hhuge rfl]
      | s1g a => right; unfold tableOf; simp [hhuge rfl]
    exact hrel.complete parents li _ hl3 hpi hli ⟨t, ht, rfl, hne, hleaf0⟩

/-- **`map_to` succeeds only on pages that are not recorded** (a recorded page — present or dormant —
yields `PageAlreadyMapped`). -/
theorem map_ok_fresh {p4 : Word} {m : PMem} {a : Abs} (hinv : Inv m p4) (hrel : Rel p4 m a) (k : Kind)
    (parents : List Nat) (li : Nat) (huge : Bool) (sz : Nat) (frame flags pflags : Word) (allocs : List (Option Word))
    (hv : ValidD p4 m (.map parents li huge sz frame flags pflags allocs))
    (h : (exec k p4 m (.map parents li huge sz frame flags pflags allocs)).1 = true) :
    ∀ r ∈ a, ¬ (r.parents = parents ∧ r.li = li) := by
  obtain ⟨sh, hpi, hli, hpf, hfl, hfr, hal⟩ := hv
  have hlv := map_to_leaves k (⟨m, allocs, []⟩ : St) p4 parents li huge sz frame flags pflags sh hinv hpi hpf hfl hfr hal
  change okMap (mapTo k (⟨m, allocs, []⟩ : St) p4 parents li huge frame flags pflags).1 = true at h
  cases hm : mapTo k (⟨m, allocs, []⟩ : St) p4 parents li huge frame flags pflags with
  | mk res s' =>
    rw [hm] at hlv h
    cases res with
    | panic => exact hlv.elim
    | ok res' =>
      cases res' with
      | error e => cases h
      | ok u =>
        cases u
        obtain ⟨m1, tl, _, hls, htl, hzero, _⟩ := hlv
        have hrel1 : Rel p4 m1 a := Rel.of_leafSame hls hrel
        rintro r hr ⟨e1, e2⟩
        obtain ⟨_, g, hg, hw, hne, _⟩ := hrel1.slots r hr
        rw [e1, htl] at hg
        rw [← Option.some.inj hg, e2, hzero] at hw
        exact hne hw.symm

/-! ### Non-vacuity: a concrete history with dormant pages that are later revived by `update_flags`

From the empty hierarchy (level-4 table at `0x1000`, all memory zero):
1. `map_to` of the 4 KiB page `[0,0,0]/5` (address `0x5000`) to frame `0x5000` with flags `WRITABLE` only —
   three tables are allocated, the page is dormant;
2. `unmap` of that page — fails (`PageNotMapped`), changes nothing;
3. `map_to` of the 2 MiB page `[0,0]/7` (address `0xe00000`) to frame `0x40000000`, `WRITABLE` only — dormant;
4. `update_flags(PRESENT | WRITABLE)` on the 4 KiB page — it becomes visible to the hardware;
5. `set_flags_p3_entry` — changes no record;
6. `update_flags(PRESENT | WRITABLE | NO_EXECUTE)` on the 2 MiB page — it becomes visible. -/

def m0 : PMem := fun _ _ => 0#64

def demoOps : List MOp :=
  [ .map [0, 0, 0] 5 false 4096 0x5000#64 2#64 3#64 [some 0x2000#64, some 0x3000#64, some 0x4000#64],
    .unmap [0, 0, 0] 5 false 4096,
    .map [0, 0] 7 true (2^21) 0x40000000#64 2#64 3#64 [],
    .update [0, 0, 0] 5 false 4096 3#64,
    .setParent [0] 0 7#64,
    .update [0, 0] 7 true (2^21) 0x8000000000000003#64 ]

/-- the hypotheses of the history theorem are satisfiable: the history is valid (for every mapper kind) -/
theorem demoOps_valid (k : Kind) : HistoryValid k 0x1000#64 m0 demoOps := by
  have hi3 : IdxOK [0, 0, 0] := by intro j h; simp at h; omega
  have hi2 : IdxOK [0, 0] := by intro j h; simp at h; omega
  have hi1 : IdxOK [0] := by intro j h; simp at h; omega
  refine ⟨⟨.s4k 0 0 0, hi3, by omega, ⟨by decide, by decide⟩, ?_, ?_, C09.demo3_allocsOK⟩,
    ⟨.s4k 0 0 0, hi3⟩,
    ⟨.s2m 0 0, hi2, by omega, ⟨by decide, by decide⟩, ?_, ?_, trivial⟩,
    ⟨.s4k 0 0 0, hi3, by omega, ?_⟩,
    ⟨by simp, hi1, by omega, by decide, by decide, by decide⟩,
    ⟨.s2m 0 0, hi2, by omega, ?_⟩, trivial⟩
  · simp only [Bool.false_eq_true, if_false]; unfold LeafBits4K; decide
  · unfold FrameOK; simp only [if_true]; decide
  · simp only [if_true]; unfold LeafBitsHuge; decide
  · unfold FrameOK; decide
  · simp only [Bool.false_eq_true, if_false]; unfold LeafBits4K; decide
  · simp only [if_true]; unfold LeafBitsHuge; decide

set_option maxRecDepth 100000 in
/-- the abstract state after the first three calls: both pages recorded, both dormant (flags `WRITABLE`) -/
example : expectedAbs ⟨false⟩ 0x1000#64 m0 [] (demoOps.take 3) =
    [⟨[0, 0], 7, true, 2^21, 0x40000000#64, 2#64⟩, ⟨[0, 0, 0], 5, false, 4096, 0x5000#64, 2#64⟩] := by
  decide +kernel

set_option maxRecDepth 100000 in
/-- the abstract state after the whole history: both pages recorded with flags containing `PRESENT`
(the same for the recursive mapper kind) -/
theorem demoOps_abs : expectedAbs ⟨false⟩ 0x1000#64 m0 [] demoOps =
    [⟨[0, 0], 7, true, 2^21, 0x40000000#64, 0x8000000000000003#64⟩, ⟨[0, 0, 0], 5, false, 4096, 0x5000#64, 3#64⟩] ∧
    expectedAbs ⟨true⟩ 0x1000#64 m0 [] demoOps = expectedAbs ⟨false⟩ 0x1000#64 m0 [] demoOps := by
  decide +kernel

/-- the two pages start at `0x5000` and `0xe00000`, and contain these addresses -/
example : (⟨[0, 0, 0], 5, false, 4096, 0x5000#64, 3#64⟩ : PageRec).start = 0x5000 ∧
    (⟨[0, 0], 7, true, 2^21, 0x40000000#64, 2#64⟩ : PageRec).start = 0xe00000 ∧
    (⟨[0, 0, 0], 5, false, 4096, 0x5000#64, 3#64⟩ : PageRec).covers 0x5000 = true ∧
    (⟨[0, 0], 7, true, 2^21, 0x40000000#64, 2#64⟩ : PageRec).covers 0xe00000 = true := by decide

theorem demoOps_take_valid (k : Kind) : HistoryValid k 0x1000#64 m0 (demoOps.take 3) := by
  obtain ⟨h1, h2, h3, _⟩ := demoOps_valid k
  exact ⟨h1, h2, h3, trivial⟩

set_option maxRecDepth 100000 in
/-- **after the first three calls** the theorem says: the hardware sees neither page (`0x5123` lies in the
4 KiB page, `0xe00123` in the 2 MiB page) … -/
example : walk (runHistory ⟨false⟩ 0x1000#64 m0 (demoOps.take 3)) 0x1000#64 0x5123 = none ∧
    walk (runHistory ⟨false⟩ 0x1000#64 m0 (demoOps.take 3)) 0x1000#64 0xe00123 = none := by
  obtain ⟨_, hw, _⟩ := history_dormant_from_empty ⟨false⟩ 0x1000#64 m0 (fun _ => rfl) _ (demoOps_take_valid _)
  have e1 : expectedHw (expectedAbs ⟨false⟩ 0x1000#64 m0 [] (demoOps.take 3)) 0x5123 = none := by decide +kernel
  have e2 : expectedHw (expectedAbs ⟨false⟩ 0x1000#64 m0 [] (demoOps.take 3)) 0xe00123 = none := by decide +kernel
  have h1 := hw 0x5123
  have h2 := hw 0xe00123
  rw [e1] at h1; rw [e2] at h2
  exact ⟨by simpa using h1, by simpa using h2⟩

set_option maxRecDepth 100000 in
/-- … while `translate_page` (both mapper kinds) reports their frames, and the slots hold the raw words
`0x5000 | WRITABLE` and `0x40000000 | WRITABLE | HUGE_PAGE` -/
example : ∀ (k' : Kind) (s : St), s.mem = runHistory ⟨false⟩ 0x1000#64 m0 (demoOps.take 3) →
    (translatePage k' s 0x1000#64 [0, 0, 0] 5 false 4096).1 = .ok 0x5000#64 ∧
    (translatePage k' s 0x1000#64 [0, 0] 7 true (2^21)).1 = .ok 0x40000000#64 := by
  obtain ⟨_, _, _, _, ht⟩ := history_dormant_from_empty ⟨false⟩ 0x1000#64 m0 (fun _ => rfl) _ (demoOps_take_valid _)
  have hmem : (⟨[0, 0, 0], 5, false, 4096, 0x5000#64, 2#64⟩ : PageRec) ∈ expectedAbs ⟨false⟩ 0x1000#64 m0 [] (demoOps.take 3) ∧
      (⟨[0, 0], 7, true, 2^21, 0x40000000#64, 2#64⟩ : PageRec) ∈ expectedAbs ⟨false⟩ 0x1000#64 m0 [] (demoOps.take 3) := by
    decide +kernel
  intro k' s hs
  exact ⟨ht _ hmem.1 k' s hs, ht _ hmem.2 k' s hs⟩

example : expectedSlot (expectedAbs ⟨false⟩ 0x1000#64 m0 [] (demoOps.take 3)) [0, 0, 0] 5 = 0x5002#64 ∧
    expectedSlot (expectedAbs ⟨false⟩ 0x1000#64 m0 [] (demoOps.take 3)) [0, 0] 7 = 0x40000082#64 ∧
    expectedSlot (expectedAbs ⟨false⟩ 0x1000#64 m0 [] (demoOps.take 3)) [0, 0, 0] 6 = 0#64 := by
  set_option maxRecDepth 100000 in decide +kernel

set_option maxRecDepth 100000 in
/-- **after the whole history** the theorem says: the hardware translates `0x5123` to `0x5000 + 0x123`
(4 KiB page, flags `PRESENT | WRITABLE`) and `0xe00123` to `0x40000000 + 0x123` (2 MiB page, flags
`PRESENT | WRITABLE | NO_EXECUTE | HUGE_PAGE`), and nothing at `0x6000` — for both mapper kinds -/
example (k : Kind) (hk : k = ⟨false⟩ ∨ k = ⟨true⟩) :
    (walk (runHistory k 0x1000#64 m0 demoOps) 0x1000#64 0x5123).map Xlat.core = some (0x5000, 4096, 0x123, 3#64) ∧
    (walk (runHistory k 0x1000#64 m0 demoOps) 0x1000#64 0xe00123).map Xlat.core =
      some (0x40000000, 2^21, 0x123, 0x8000000000000083#64) ∧
    (walk (runHistory k 0x1000#64 m0 demoOps) 0x1000#64 0x6000).map Xlat.core = none := by
  obtain ⟨_, hw, _⟩ := history_dormant_from_empty k 0x1000#64 m0 (fun _ => rfl) _ (demoOps_valid k)
  rw [hw, hw, hw]
  rcases hk with rfl | rfl
  · rw [demoOps_abs.1]; decide +kernel
  · rw [demoOps_abs.2, demoOps_abs.1]; decide +kernel

set_option maxRecDepth 100000 in
/-- cross-check by evaluating the model and the walk directly -/
example : (walk (runHistory ⟨false⟩ 0x1000#64 m0 demoOps) 0x1000#64 0x5123).map Xlat.core = some (0x5000, 4096, 0x123, 3#64) ∧
    walk (runHistory ⟨false⟩ 0x1000#64 m0 (demoOps.take 3)) 0x1000#64 0x5123 = none := by
  decide +kernel

end X86.C01HistoryDormant
