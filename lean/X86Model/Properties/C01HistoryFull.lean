/-
C01 — the history theorem for histories that also contain CLEAN-UP calls.

`Properties/C01HistoryDormant.lean` proves "the history of successful calls dictates every translation" for
histories of `map_to`/`identity_map`, `unmap`, `update_flags` and `set_flags_pN_entry` calls (all page sizes,
any leaf flags, both mapper kinds). Here the history may in addition contain `clean_up()` (whole address
space) and `clean_up_addr_range(range)` calls (`Model/CleanUp.lean`), for a mapper of kind `k` whose
recursive index is `rIdx` (only used by the recursive kind).

* A clean-up call changes NOTHING in the abstract state (`absStep … (.cleanUp) = a`).
* The key step (`cleanUp_leafSame`): a clean-up run — any range arguments, any recursive index, both mapper
  kinds — creates, removes and changes no leaf slot of the hierarchy: it only zeroes links to tables that are
  entirely empty, so every leaf slot before is a leaf slot after (same table, same path, same word) and
  vice versa. Hence it keeps the correspondence `Rel` between abstract records and leaf slots.
* `history_full` / `history_full_from_empty`: the statement of `history_dormant_from_empty` for the
  extended language; in addition every clean-up call of a valid history returns normally (no panic).
* `cleanUp_tables_hold_pages`, `cleanUp_p4_zero_of_no_pages`: after `clean_up()` every remaining table of level
  3..1 carries a recorded page (a table holding no page of the history has been freed); with no page recorded
  the level-4 table is empty again.
* A concrete history (`demoOps`: map, unmap, clean-up, map, clean-up) with the theorem applied to it and
  cross-checked by evaluation.
The effective rights (`R/W`, `U/S`) of the walk are treated in `Properties/C01HistoryRights.lean`.
-/
import X86Model.Properties.C01HistoryDormant
import X86Model.Properties.C10

namespace X86.C01HistoryFull
open X86 X86.Spec X86.C01 X86.C01HistoryDormant

/-! ### Clean-up changes no leaf slot -/

/-- **A clean-up run creates, removes and changes no leaf slot** (any range arguments, any recursive index,
both mapper kinds; only the hierarchy invariant is assumed). -/
theorem cleanUp_leafSame (k : Kind) (rIdx : Nat) (s : St) (p4 : Word) (rs re : Nat) (hinv : Inv s.mem p4) :
    LeafSame p4 s.mem (cleanUpRange k rIdx s p4 rs re).2.mem := by
  obtain ⟨seg, h⟩ := C10.clean_up_range_post k rIdx s p4 rs re hinv
  generalize (cleanUpRange k rIdx s p4 rs re).2 = s' at h
  intro q j w hq hqi hj
  constructor
  · rintro ⟨g, hg, hw, hne, hl⟩
    -- the slot's word is not modified
    have hsame : s'.mem g j = s.mem g j := by
      apply Classical.byContradiction
      intro hmod
      rcases hl with hl | hl
      · -- a modified word lies in a table of level 4..2
        obtain ⟨_, q', hq', hqi', _, hf⟩ := h.mem g j hmod
        have : q = q' := hinv.wf q q' g hq (by omega) hqi hqi' hg hf
        subst this; omega
      · obtain ⟨c, hc, _⟩ := h.link g j hmod
        rw [hw, hl] at hc; cases hc
    -- the table is not empty afterwards, so it is still linked where it was
    have hkeep : tblAt s'.mem p4 q = some g := by
      apply Classical.byContradiction
      intro hgone
      -- walk down `q`: some link on the path was zeroed, so the table below it was freed, hence is empty
      have gen : ∀ (q : List Nat) (t0 : Word), IdxOK q → tblAt s.mem t0 q = some g →
          tblAt s'.mem t0 q = some g ∧ ∃ x, x < 512 ∧ s'.mem t0 x ≠ 0#64 := by
        intro q
        induction q with
        | nil =>
          intro t0 _ h0
          simp [tblAt] at h0; subst h0
          exact ⟨rfl, j, hj, by rw [hsame, hw]; exact hne⟩
        | cons i rest ih =>
          intro t0 hidx h0
          have hi : i < 512 := hidx i (by simp)
          simp only [tblAt] at h0
          cases hto : tableOf (s.mem t0 i) with
          | none => rw [hto] at h0; cases h0
          | some t' =>
            rw [hto] at h0
            obtain ⟨h1, x, hx, hnz⟩ := ih t' (fun y hy => hidx y (List.mem_cons_of_mem _ hy)) h0
            have hs2 : s'.mem t0 i = s.mem t0 i := by
              apply Classical.byContradiction
              intro hmod
              obtain ⟨c, hc, hd⟩ := h.link t0 i hmod
              rw [hto] at hc
              have : c = t' := (Option.some.inj hc).symm
              subst this
              obtain ⟨_, _, _, _, _, _, hz, _⟩ := h.freed c hd
              exact hnz (hz x hx)
            refine ⟨by simp only [tblAt, hs2, hto]; exact h1, i, hi, ?_⟩
            rw [hs2]
            intro hz; rw [hz, tableOf_zero] at hto; cases hto
      exact hgone (gen q p4 hqi hg).1
    exact ⟨g, hkeep, by rw [hsame]; exact hw, hne, hl⟩
  · rintro ⟨g, hg, hw, hne, hl⟩
    have hg0 : tblAt s.mem p4 q = some g := h.tree q g hq hqi hg
    have hsame : s'.mem g j = s.mem g j := by
      apply Classical.byContradiction
      intro hmod
      obtain ⟨hz, _⟩ := h.mem g j hmod
      rw [hz] at hw; exact hne hw.symm
    exact ⟨g, hg0, by rw [← hsame]; exact hw, hne, hl⟩

/-! ### Calls, validity, histories -/

/-- One call of the extended language: a mapper call of `C01History`/`C01HistoryDormant`, `clean_up()`, or
`clean_up_addr_range(rs ..= re)` (`rs`, `re`: start addresses of the first and the last 4 KiB page). -/
inductive HOp where
  | call (op : MOp)
  | cleanUp
  | cleanUpRange (rs re : Nat)

def okR {α : Type} : R α → Bool
  | .ok _ => true
  | .panic => false

/-- Execute one call of a mapper of kind `k` (recursive index `rIdx`) on memory `m`: did it succeed
(clean-up: return without panic), and the memory afterwards. -/
def exec (k : Kind) (rIdx : Nat) (p4 : Word) (m : PMem) : HOp → Bool × PMem
  | .call op => C01HistoryDormant.exec k p4 m op
  | .cleanUp =>
    let r := cleanUpAll k rIdx (⟨m, [], []⟩ : St) p4
    (okR r.1, r.2.mem)
  | .cleanUpRange rs re =>
    let r := X86.cleanUpRange k rIdx (⟨m, [], []⟩ : St) p4 rs re
    (okR r.1, r.2.mem)

/-- Validity: mapper calls as in `C01HistoryDormant.ValidD`; the range of `clean_up_addr_range` consists of
canonical 4 KiB pages (`PageAddr`: canonical and page-aligned start addresses) with `rs ≤ re`, as in the
range theorems of C10. No side condition on the recursive index is needed. -/
def Valid (p4 : Word) (m : PMem) : HOp → Prop
  | .call op => ValidD p4 m op
  | .cleanUp => True
  | .cleanUpRange rs re => PageAddr rs ∧ PageAddr re ∧ rs ≤ re

/-- The abstract effect of a call, as a function of whether it succeeded: a clean-up call has none. -/
def absStep (a : Abs) (ok : Bool) : HOp → Abs
  | .call op => C01HistoryDormant.absStep a ok op
  | .cleanUp => a
  | .cleanUpRange _ _ => a

/-- Run a history. -/
def runHistory (k : Kind) (rIdx : Nat) (p4 : Word) : PMem → List HOp → PMem
  | m, [] => m
  | m, op :: rest => runHistory k rIdx p4 (exec k rIdx p4 m op).2 rest

/-- Each call is valid in the state it is made in. -/
def HistoryValid (k : Kind) (rIdx : Nat) (p4 : Word) : PMem → List HOp → Prop
  | _, [] => True
  | m, op :: rest => Valid p4 m op ∧ HistoryValid k rIdx p4 (exec k rIdx p4 m op).2 rest

/-- The abstract state a history dictates: the fold of `absStep` over the calls' results. -/
def expectedAbs (k : Kind) (rIdx : Nat) (p4 : Word) : PMem → Abs → List HOp → Abs
  | _, a, [] => a
  | m, a, op :: rest =>
    expectedAbs k rIdx p4 (exec k rIdx p4 m op).2 (absStep a (exec k rIdx p4 m op).1 op) rest

/-- Is the call a clean-up call? -/
def HOp.isCleanUp : HOp → Bool
  | .call _ => false
  | _ => true

/-- Every clean-up call of the history returns normally. -/
def CleanUpsReturn (k : Kind) (rIdx : Nat) (p4 : Word) : PMem → List HOp → Prop
  | _, [] => True
  | m, op :: rest =>
    (op.isCleanUp = true → (exec k rIdx p4 m op).1 = true) ∧
    CleanUpsReturn k rIdx p4 (exec k rIdx p4 m op).2 rest

/-- `clean_up()` is `clean_up_addr_range` over the whole address space. -/
theorem exec_cleanUp (k : Kind) (rIdx : Nat) (p4 : Word) (m : PMem) :
    exec k rIdx p4 m .cleanUp = exec k rIdx p4 m (.cleanUpRange 0 0xfffffffffffff000) := by
  simp only [exec, C10.clean_up_all_eq]

/-- the memory after `clean_up()` -/
theorem exec_cleanUp_snd (k : Kind) (rIdx : Nat) (p4 : Word) (m : PMem) :
    (exec k rIdx p4 m .cleanUp).2 = (cleanUpRange k rIdx (⟨m, [], []⟩ : St) p4 0 0xfffffffffffff000).2.mem := by
  simp only [exec, C10.clean_up_all_eq]

/-! ### One step -/

theorem pageAddr_zero : PageAddr 0 := by unfold PageAddr canon; omega
theorem pageAddr_last : PageAddr 0xfffffffffffff000 := by unfold PageAddr canon; omega

/-- A clean-up call keeps the invariant and the correspondence (abstract state unchanged). -/
theorem step_cleanUpRange (k : Kind) (rIdx : Nat) (p4 : Word) (m : PMem) (a : Abs) (rs re : Nat)
    (hinv : Inv m p4) (hrel : Rel p4 m a) :
    Inv (exec k rIdx p4 m (.cleanUpRange rs re)).2 p4 ∧ Rel p4 (exec k rIdx p4 m (.cleanUpRange rs re)).2 a :=
  ⟨(C10.clean_up_translations_unchanged k rIdx (⟨m, [], []⟩ : St) p4 rs re hinv).2,
    Rel.of_leafSame (cleanUp_leafSame k rIdx (⟨m, [], []⟩ : St) p4 rs re hinv) hrel⟩

/-- **One step** of the extended language. -/
theorem step_ok (k : Kind) (rIdx : Nat) (p4 : Word) (m : PMem) (a : Abs) (op : HOp)
    (hinv : Inv m p4) (hrel : Rel p4 m a) (hv : Valid p4 m op) :
    Inv (exec k rIdx p4 m op).2 p4 ∧ Rel p4 (exec k rIdx p4 m op).2 (absStep a (exec k rIdx p4 m op).1 op) := by
  cases op with
  | call op => exact C01HistoryDormant.step_ok k p4 m a op hinv hrel hv
  | cleanUp =>
    have h := step_cleanUpRange k rIdx p4 m a 0 0xfffffffffffff000 hinv hrel
    rw [← exec_cleanUp] at h
    exact h
  | cleanUpRange rs re => exact step_cleanUpRange k rIdx p4 m a rs re hinv hrel

/-- A valid clean-up call returns normally. -/
theorem step_returns (k : Kind) (rIdx : Nat) (p4 : Word) (m : PMem) (op : HOp)
    (hinv : Inv m p4) (hv : Valid p4 m op) :
    op.isCleanUp = true → (exec k rIdx p4 m op).1 = true := by
  have key : ∀ rs re, PageAddr rs → PageAddr re → rs ≤ re → (exec k rIdx p4 m (.cleanUpRange rs re)).1 = true := by
    intro rs re h1 h2 h3
    show okR (X86.cleanUpRange k rIdx (⟨m, [], []⟩ : St) p4 rs re).1 = true
    rw [C10.clean_up_range_never_panics k rIdx (⟨m, [], []⟩ : St) p4 rs re hinv h1 h2 h3]
    rfl
  intro hc
  cases op with
  | call op => cases hc
  | cleanUp => rw [exec_cleanUp]; exact key _ _ pageAddr_zero pageAddr_last (Nat.zero_le _)
  | cleanUpRange rs re => exact key rs re hv.1 hv.2.1 hv.2.2

/-! ### The history theorem -/

/-- The correspondence is kept along any valid history (no bound on its length), and every clean-up call
returns normally. -/
theorem history_rel (k : Kind) (rIdx : Nat) (p4 : Word) (ops : List HOp) :
    ∀ (m : PMem) (a : Abs), Inv m p4 → Rel p4 m a → HistoryValid k rIdx p4 m ops →
      Inv (runHistory k rIdx p4 m ops) p4 ∧
      Rel p4 (runHistory k rIdx p4 m ops) (expectedAbs k rIdx p4 m a ops) ∧
      CleanUpsReturn k rIdx p4 m ops := by
  induction ops with
  | nil => intro m a hinv hrel _; exact ⟨hinv, hrel, trivial⟩
  | cons op rest ih =>
    intro m a hinv hrel ⟨hv, hrest⟩
    obtain ⟨hi', hr'⟩ := step_ok k rIdx p4 m a op hinv hrel hv
    obtain ⟨h1, h2, h3⟩ := ih _ _ hi' hr' hrest
    exact ⟨h1, h2, step_returns k rIdx p4 m op hinv hv, h3⟩

/-- **History theorem with clean-up calls** (no bound on the length of the history; all page sizes; any
mapper kind and recursive index; leaf flags with or without `PRESENT`; any allocator answers honouring the
contract; `clean_up()` and `clean_up_addr_range` over any range of canonical pages): from any state whose
leaf slots are the records of `a`, after any valid history
* the invariant holds;
* the hardware walk of the raw memory maps every virtual address exactly as the abstract state obtained by
  folding the call results says (clean-up calls contribute nothing);
* every page's slot (when its table exists and the slot is not a link to a lower table) holds `expectedSlot`;
* the table of every recorded page exists and its slot holds the page's raw word — clean-up calls in the
  history have not removed it;
* `translate_page` (any mapper kind) returns the frame of every recorded page, present or dormant;
* every clean-up call of the history returned without panic. -/
theorem history_full (k : Kind) (rIdx : Nat) (p4 : Word) (ops : List HOp) (m : PMem) (a : Abs)
    (hinv : Inv m p4) (hrel : Rel p4 m a) (hv : HistoryValid k rIdx p4 m ops) :
    Inv (runHistory k rIdx p4 m ops) p4 ∧
    (∀ va, (walk (runHistory k rIdx p4 m ops) p4 va).map Xlat.core =
      expectedHw (expectedAbs k rIdx p4 m a ops) va) ∧
    (∀ parents li t, parents.length ≤ 3 → IdxOK parents → li < 512 →
      tblAt (runHistory k rIdx p4 m ops) p4 parents = some t →
      (parents.length = 3 ∨ tableOf (runHistory k rIdx p4 m ops t li) = none) →
      runHistory k rIdx p4 m ops t li = expectedSlot (expectedAbs k rIdx p4 m a ops) parents li) ∧
    (∀ r ∈ expectedAbs k rIdx p4 m a ops, ∃ t, tblAt (runHistory k rIdx p4 m ops) p4 r.parents = some t ∧
      runHistory k rIdx p4 m ops t r.li = r.word) ∧
    (∀ r ∈ expectedAbs k rIdx p4 m a ops, ∀ (k' : Kind) (s : St), s.mem = runHistory k rIdx p4 m ops →
      (translatePage k' s p4 r.parents r.li r.huge r.sz).1 = .ok r.frame) ∧
    CleanUpsReturn k rIdx p4 m ops := by
  obtain ⟨hi', hr', hc⟩ := history_rel k rIdx p4 ops m a hinv hrel hv
  refine ⟨hi', hw_of_rel hi' hr', fun parents li t hl hpi hli ht hnl => slot_of_rel hr' parents li hl hpi hli t ht hnl,
    ?_, fun r hr k' s hs => translate_of_rel hr' r hr k' s hs, hc⟩
  intro r hr
  obtain ⟨_, t, ht, hw, _⟩ := hr'.slots r hr
  exact ⟨t, ht, hw⟩

/-- …in particular from the empty table and the empty abstract state. -/
theorem history_full_from_empty (k : Kind) (rIdx : Nat) (p4 : Word) (m : PMem) (hzero : ∀ i, m p4 i = 0#64)
    (ops : List HOp) (hv : HistoryValid k rIdx p4 m ops) :
    Inv (runHistory k rIdx p4 m ops) p4 ∧
    (∀ va, (walk (runHistory k rIdx p4 m ops) p4 va).map Xlat.core =
      expectedHw (expectedAbs k rIdx p4 m [] ops) va) ∧
    (∀ parents li t, parents.length ≤ 3 → IdxOK parents → li < 512 →
      tblAt (runHistory k rIdx p4 m ops) p4 parents = some t →
      (parents.length = 3 ∨ tableOf (runHistory k rIdx p4 m ops t li) = none) →
      runHistory k rIdx p4 m ops t li = expectedSlot (expectedAbs k rIdx p4 m [] ops) parents li) ∧
    (∀ r ∈ expectedAbs k rIdx p4 m [] ops, ∃ t, tblAt (runHistory k rIdx p4 m ops) p4 r.parents = some t ∧
      runHistory k rIdx p4 m ops t r.li = r.word) ∧
    (∀ r ∈ expectedAbs k rIdx p4 m [] ops, ∀ (k' : Kind) (s : St), s.mem = runHistory k rIdx p4 m ops →
      (translatePage k' s p4 r.parents r.li r.huge r.sz).1 = .ok r.frame) ∧
    CleanUpsReturn k rIdx p4 m ops :=
  history_full k rIdx p4 ops m [] (init_inv m p4 hzero) (Rel.init p4 m hzero) hv

/-! ### Relation to `C01HistoryDormant` (histories without clean-up calls) -/

theorem runHistory_calls (k : Kind) (rIdx : Nat) (p4 : Word) (ops : List MOp) :
    ∀ m, runHistory k rIdx p4 m (ops.map .call) = C01HistoryDormant.runHistory k p4 m ops := by
  induction ops with
  | nil => intro m; rfl
  | cons op rest ih => intro m; exact ih _

theorem expectedAbs_calls (k : Kind) (rIdx : Nat) (p4 : Word) (ops : List MOp) :
    ∀ m a, expectedAbs k rIdx p4 m a (ops.map .call) = C01HistoryDormant.expectedAbs k p4 m a ops := by
  induction ops with
  | nil => intro m a; rfl
  | cons op rest ih => intro m a; exact ih _ _

theorem historyValid_calls (k : Kind) (rIdx : Nat) (p4 : Word) (ops : List MOp) :
    ∀ m, C01HistoryDormant.HistoryValid k p4 m ops → HistoryValid k rIdx p4 m (ops.map .call) := by
  induction ops with
  | nil => intro m _; trivial
  | cons op rest ih => intro m ⟨hv, hrest⟩; exact ⟨hv, ih _ hrest⟩

/-! ### What `clean_up()` leaves behind: only tables that carry a page of the history -/

theorem overlaps_all (q : List Nat) (hq : q.length ≤ 3) (hqi : IdxOK q) :
    Overlaps q (pn 0) (pn 0xfffffffffffff000) := by
  obtain ⟨h1, h2⟩ := span_nested q [] (by simpa using (by omega : q.length ≤ 4)) hqi
  have h3 := spanLo_le_spanHi q
  have e1 : pn 0 = 0 := by decide
  have e2 : pn 0xfffffffffffff000 = 2^36 - 1 := by decide
  have e3 : spanHi [] = 2^36 - 1 := by decide
  simp only [List.nil_append] at h1 h2
  rw [e3] at h2
  unfold Overlaps
  rw [e1, e2]
  omega

/-- **After `clean_up()` every remaining table of level 3..1 carries a recorded page** (recursive mapper: outside
the subtree of the recursive slot, which clean-up never touches): a table that holds no page of the history —
directly or in a table below it — has been freed. -/
theorem cleanUp_tables_hold_pages (k : Kind) (rIdx : Nat) (p4 : Word) (m : PMem) (a : Abs)
    (hinv : Inv m p4) (hrel : Rel p4 m a) :
    ∀ (q : List Nat) (g : Word), 1 ≤ q.length → q.length ≤ 3 → IdxOK q →
      (k.recursive = true → q.head? ≠ some rIdx) →
      tblAt (exec k rIdx p4 m .cleanUp).2 p4 q = some g → ∃ r ∈ a, q <+: r.parents := by
  have hrel' : Rel p4 (exec k rIdx p4 m .cleanUp).2 a := (step_ok k rIdx p4 m a .cleanUp hinv hrel trivial).2
  rw [exec_cleanUp_snd] at hrel' ⊢
  have hne := fun q g h1 h3 hqi hns hg => C10.clean_up_leaves_no_empty_table k rIdx (⟨m, [], []⟩ : St) p4 0 0xfffffffffffff000
    hinv pageAddr_zero pageAddr_last (Nat.zero_le _) q g h1 h3 hqi (overlaps_all q h3 hqi) hns hg
  generalize (X86.cleanUpRange k rIdx (⟨m, [], []⟩ : St) p4 0 0xfffffffffffff000).2.mem = m' at hrel' hne
  -- downward induction on the depth of the table
  have gen : ∀ (n : Nat) (q : List Nat) (g : Word), q.length + n = 3 → 1 ≤ q.length → IdxOK q →
      (k.recursive = true → q.head? ≠ some rIdx) → tblAt m' p4 q = some g → ∃ r ∈ a, q <+: r.parents := by
    intro n
    induction n with
    | zero =>
      intro q g hlen h1 hqi hns hg
      obtain ⟨j, hj, hnz⟩ := hne q g h1 (by omega) hqi hns hg
      obtain ⟨r, hr, e1, _⟩ := hrel'.complete q j _ (by omega) hqi hj ⟨g, hg, rfl, hnz, Or.inl (by omega)⟩
      exact ⟨r, hr, by rw [e1]; exact List.prefix_refl _⟩
    | succ n ih =>
      intro q g hlen h1 hqi hns hg
      obtain ⟨j, hj, hnz⟩ := hne q g h1 (by omega) hqi hns hg
      cases hto : tableOf (m' g j) with
      | none =>
        obtain ⟨r, hr, e1, _⟩ := hrel'.complete q j _ (by omega) hqi hj ⟨g, hg, rfl, hnz, Or.inr hto⟩
        exact ⟨r, hr, by rw [e1]; exact List.prefix_refl _⟩
      | some c =>
        have hc : tblAt m' p4 (q ++ [j]) = some c := by
          rw [tblAt_append, hg]; simp [tblAt, hto]
        have hns' : k.recursive = true → (q ++ [j]).head? ≠ some rIdx := by
          intro hk
          cases q with
          | nil => simp at h1
          | cons x q' => simpa using hns hk
        obtain ⟨r, hr, hpre⟩ := ih (q ++ [j]) c (by simp; omega) (by simp)
          (IdxOK_append.2 ⟨hqi, fun y hy => by simp at hy; rw [hy]; exact hj⟩) hns' hc
        exact ⟨r, hr, prefix_of_ext hpre⟩
  intro q g h1 h3 hqi hns hg
  exact gen (3 - q.length) q g (by omega) h1 hqi hns hg

/-- …in particular, **if no page is recorded, `clean_up()` empties the level-4 table** (outside the recursive
slot): every table was freed. -/
theorem cleanUp_p4_zero_of_no_pages (k : Kind) (rIdx : Nat) (p4 : Word) (m : PMem)
    (hinv : Inv m p4) (hrel : Rel p4 m []) (i : Nat) (hi : i < 512) (hns : k.recursive = true → i ≠ rIdx) :
    (exec k rIdx p4 m .cleanUp).2 p4 i = 0#64 := by
  have hrel' : Rel p4 (exec k rIdx p4 m .cleanUp).2 [] := (step_ok k rIdx p4 m [] .cleanUp hinv hrel trivial).2
  apply Classical.byContradiction
  intro hnz
  cases hto : tableOf ((exec k rIdx p4 m .cleanUp).2 p4 i) with
  | none =>
    obtain ⟨r, hr, _⟩ := hrel'.complete [] i _ (by simp) (fun _ h => by cases h) hi ⟨p4, rfl, rfl, hnz, Or.inr hto⟩
    cases hr
  | some c =>
    have hc : tblAt (exec k rIdx p4 m .cleanUp).2 p4 [i] = some c := by simp [tblAt, hto]
    obtain ⟨r, hr, _⟩ := cleanUp_tables_hold_pages k rIdx p4 m [] hinv hrel [i] c (by simp) (by simp)
      (fun y hy => by simp at hy; rw [hy]; exact hi) (fun hk => by simpa using hns hk) hc
    cases hr

/-! ### `map_to` into a fresh subtree (used to evaluate the example below) -/

/-- Memory (and last table) after linking the fresh frames `fs` along `path` below `tbl`. -/
def linkedPath (fl : Word) : PMem → Word → List Nat → List Word → PMem × Word
  | m, tbl, i :: is, f :: fs => linkedPath fl (linked m tbl i f fl) f is fs
  | m, tbl, _, _ => (m, tbl)

theorem createNextTable_fresh (k : Kind) (s : St) (tbl : Word) (i : Nat) (pflags f : Word) (rest : List (Option Word))
    (hz : s.mem tbl i = 0#64) (hal : s.allocs = some f :: rest) (ha : Pte.aligned4K f = true)
    (hnt : nextTable (Pte.mk f (linkFl k pflags)) = .ok f) :
    ∃ s', createNextTable k s tbl i pflags = (.ok (.ok f), s') ∧ s'.mem = linked s.mem tbl i f (linkFl k pflags) ∧
      s'.allocs = rest := by
  have hu : Pte.isUnused (s.mem tbl i) = true := by rw [hz]; decide
  have hfl : (if k.recursive = true then Pte.PRESENT ||| Pte.WRITABLE ||| pflags else Pte.PRESENT ||| pflags) = linkFl k pflags := rfl
  unfold createNextTable
  simp only [hu, if_true, St.alloc, St.rd, hal, hfl, ha, Bool.not_true, Bool.false_eq_true, if_false, hnt]
  refine ⟨_, rfl, ?_, ?_⟩
  · rw [St.zeroTable_mem]; rfl
  · rw [St.zeroTable_allocs]; rfl

theorem createPath_fresh (k : Kind) (pflags : Word) : ∀ (path : List Nat) (fs : List Word) (tbl : Word) (s : St)
    (rest : List (Option Word)), fs.length = path.length → IdxOK path →
    (∀ i, path.head? = some i → s.mem tbl i = 0#64) → s.allocs = fs.map some ++ rest →
    (∀ f ∈ fs, Pte.aligned4K f = true ∧ nextTable (Pte.mk f (linkFl k pflags)) = .ok f) →
    ∃ s', createPath k pflags s tbl path = (.ok (.ok (linkedPath (linkFl k pflags) s.mem tbl path fs).2), s') ∧
      s'.mem = (linkedPath (linkFl k pflags) s.mem tbl path fs).1 ∧ s'.allocs = rest := by
  intro path
  induction path with
  | nil =>
    intro fs tbl s rest hlen _ _ hal _
    cases fs with
    | nil => exact ⟨s, rfl, rfl, by simpa using hal⟩
    | cons f fs => simp at hlen
  | cons i is ih =>
    intro fs tbl s rest hlen hidx hz hal hfs
    cases fs with
    | nil => simp at hlen
    | cons f fs =>
      obtain ⟨h1, h2⟩ := hfs f (by simp)
      obtain ⟨s1, hc, hm, ha⟩ := createNextTable_fresh k s tbl i pflags f (fs.map some ++ rest) (hz i rfl)
        (by simpa using hal) h1 h2
      have hz1 : ∀ j, is.head? = some j → s1.mem f j = 0#64 := by
        intro j hj
        rw [hm]
        apply linked_at_new
        cases is with
        | nil => cases hj
        | cons j' is' => simp at hj; subst hj; exact hidx j' (by simp)
      obtain ⟨s', hc', hm', ha'⟩ := ih fs f s1 rest (by simpa using hlen)
        (fun y hy => hidx y (List.mem_cons_of_mem _ hy)) hz1 ha (fun g hg => hfs g (List.mem_cons_of_mem _ hg))
      refine ⟨s', ?_, ?_, ha'⟩
      · simp only [createPath, hc, linkedPath]; rw [hc', hm]
      · simp only [linkedPath]; rw [hm', hm]

theorem linkedPath_last_zero (fl : Word) : ∀ (path : List Nat) (fs : List Word) (tbl : Word) (m : PMem) (j : Nat),
    fs.length = path.length → path ≠ [] → j < 512 →
    (linkedPath fl m tbl path fs).1 (linkedPath fl m tbl path fs).2 j = 0#64 := by
  intro path
  induction path with
  | nil => intro fs tbl m j _ h; exact absurd rfl h
  | cons i is ih =>
    intro fs tbl m j hlen _ hj
    cases fs with
    | nil => simp at hlen
    | cons f fs =>
      simp only [linkedPath]
      cases is with
      | nil =>
        cases fs with
        | nil => simp only [linkedPath]; exact linked_at_new m tbl i f fl j hj
        | cons g gs => simp at hlen
      | cons i' is' => exact ih fs f _ j (by simpa using hlen) (by simp) hj

/-- **`map_to` into a fresh subtree succeeds**: the first parent entry is unused, the allocator hands out
aligned frames for all parent levels. The resulting memory is written out. -/
theorem mapTo_fresh (k : Kind) (s : St) (p4 : Word) (parents : List Nat) (li : Nat) (huge : Bool)
    (frame flags pflags : Word) (fs : List Word) (rest : List (Option Word))
    (hlen : fs.length = parents.length) (hne : parents ≠ []) (hidx : IdxOK parents) (hli : li < 512)
    (hz : ∀ i, parents.head? = some i → s.mem p4 i = 0#64) (hal : s.allocs = fs.map some ++ rest)
    (hfs : ∀ f ∈ fs, Pte.aligned4K f = true ∧ nextTable (Pte.mk f (linkFl k pflags)) = .ok f)
    (hfr : Pte.aligned4K frame = true) :
    ∃ s', mapTo k s p4 parents li huge frame flags pflags = (.ok (.ok ()), s') ∧
      s'.mem = (linkedPath (linkFl k pflags) s.mem p4 parents fs).1.set
        (linkedPath (linkFl k pflags) s.mem p4 parents fs).2 li (leafWord huge frame flags) := by
  obtain ⟨s1, hc, hm, _⟩ := createPath_fresh k pflags parents fs p4 s rest hlen hidx hz hal hfs
  -- the slot lies in the last fresh table, which is zero
  have hslot : s1.mem (linkedPath (linkFl k pflags) s.mem p4 parents fs).2 li = 0#64 := by
    rw [hm]
    exact linkedPath_last_zero (linkFl k pflags) parents fs p4 s.mem li hlen hne hli
  have hu : Pte.isUnused (s1.mem (linkedPath (linkFl k pflags) s.mem p4 parents fs).2 li) = true := by
    rw [hslot]; decide
  unfold mapTo
  rw [hc]
  simp only [St.rd_fst, hu, Bool.not_true, Bool.false_eq_true, if_false, hfr]
  exact ⟨_, rfl, by rw [St.wr_mem, St.rd_mem, hm]; rfl⟩

/-! ### Histories: composition -/

theorem historyValid_cons (k : Kind) (rIdx : Nat) (p4 : Word) (m : PMem) (op : HOp) (rest : List HOp) :
    HistoryValid k rIdx p4 m (op :: rest) ↔ Valid p4 m op ∧ HistoryValid k rIdx p4 (exec k rIdx p4 m op).2 rest :=
  Iff.rfl

theorem runHistory_cons (k : Kind) (rIdx : Nat) (p4 : Word) (m : PMem) (op : HOp) (rest : List HOp) :
    runHistory k rIdx p4 m (op :: rest) = runHistory k rIdx p4 (exec k rIdx p4 m op).2 rest := rfl

theorem expectedAbs_cons (k : Kind) (rIdx : Nat) (p4 : Word) (m : PMem) (a : Abs) (op : HOp) (rest : List HOp) :
    expectedAbs k rIdx p4 m a (op :: rest) =
      expectedAbs k rIdx p4 (exec k rIdx p4 m op).2 (absStep a (exec k rIdx p4 m op).1 op) rest := rfl

theorem runHistory_append (k : Kind) (rIdx : Nat) (p4 : Word) (xs ys : List HOp) :
    ∀ m, runHistory k rIdx p4 m (xs ++ ys) = runHistory k rIdx p4 (runHistory k rIdx p4 m xs) ys := by
  induction xs with
  | nil => intro m; rfl
  | cons x xs ih => intro m; exact ih _

theorem expectedAbs_append (k : Kind) (rIdx : Nat) (p4 : Word) (xs ys : List HOp) :
    ∀ m a, expectedAbs k rIdx p4 m a (xs ++ ys) =
      expectedAbs k rIdx p4 (runHistory k rIdx p4 m xs) (expectedAbs k rIdx p4 m a xs) ys := by
  induction xs with
  | nil => intro m a; rfl
  | cons x xs ih => intro m a; exact ih _ _

/-! ### Non-vacuity: a concrete history with clean-up calls

From the empty hierarchy (level-4 table at `0x1000`, all memory zero; mapper kind `MappedPageTable`):
1. `map_to` of the 4 KiB page `[0,0,0]/5` (address `0x5000`) to frame `0x5000` — three tables are allocated
   (`0x2000`, `0x3000`, `0x4000`);
2. `unmap` of that page — the three tables are left behind, empty;
3. `clean_up()` — the three tables are freed bottom-up, the level-4 entry is zero again (in fact all memory is);
4. `map_to` of the 4 KiB page `[0,0,1]/7` (address `0x207000`) to frame `0x9000` — three tables are allocated again
   (the allocator hands out the frames freed in step 3);
5. `clean_up()` — frees nothing;
and the hardware walk translates the second page, and only it. -/

def opA : HOp := .call (.map [0, 0, 0] 5 false 4096 0x5000#64 3#64 3#64 [some 0x2000#64, some 0x3000#64, some 0x4000#64])
def opU : HOp := .call (.unmap [0, 0, 0] 5 false 4096)
def opB : HOp := .call (.map [0, 0, 1] 7 false 4096 0x9000#64 3#64 3#64 [some 0x2000#64, some 0x3000#64, some 0x4000#64])

def demoOps : List HOp := [opA, opU, .cleanUp, opB, .cleanUp]

/-- memory after call 1, written out -/
def mA : PMem :=
  (linked (linked (linked m0 0x1000#64 0 0x2000#64 3#64) 0x2000#64 0 0x3000#64 3#64) 0x3000#64 0 0x4000#64 3#64).set
    0x4000#64 5 0x5003#64
/-- memory after call 2 -/
def mU : PMem := mA.set 0x4000#64 5 0#64
/-- memory after call 4 -/
def mB : PMem :=
  (linked (linked (linked m0 0x1000#64 0 0x2000#64 3#64) 0x2000#64 0 0x3000#64 3#64) 0x3000#64 1 0x4000#64 3#64).set
    0x4000#64 7 0x9003#64

private theorem demo_fs : ∀ f ∈ [0x2000#64, 0x3000#64, 0x4000#64],
    Pte.aligned4K f = true ∧ nextTable (Pte.mk f (linkFl ⟨false⟩ 3#64)) = .ok f := by
  intro f hf
  simp only [List.mem_cons, List.not_mem_nil, or_false] at hf
  rcases hf with rfl | rfl | rfl <;> exact ⟨by decide, (nextTable_ok_iff _ _).2 (by decide)⟩

/-- call 1 succeeds and produces `mA` -/
theorem demo_exec1 : exec ⟨false⟩ 0 0x1000#64 m0 opA = (true, mA) := by
  obtain ⟨s', h1, h2⟩ := mapTo_fresh ⟨false⟩ (⟨m0, [some 0x2000#64, some 0x3000#64, some 0x4000#64], []⟩ : St) 0x1000#64
    [0, 0, 0] 5 false 0x5000#64 3#64 3#64 [0x2000#64, 0x3000#64, 0x4000#64] [] rfl (by simp)
    (by intro j h; simp at h; omega) (by omega) (fun _ _ => rfl) rfl demo_fs (by decide)
  show (okMap (mapTo _ _ _ _ _ _ _ _ _).1, (mapTo _ _ _ _ _ _ _ _ _).2.mem) = _
  rw [h1]
  show (true, s'.mem) = _
  rw [h2]; rfl

/-- call 4 (on the all-zero memory the first clean-up leaves) succeeds and produces `mB` -/
theorem demo_exec4 : exec ⟨false⟩ 0 0x1000#64 m0 opB = (true, mB) := by
  obtain ⟨s', h1, h2⟩ := mapTo_fresh ⟨false⟩ (⟨m0, [some 0x2000#64, some 0x3000#64, some 0x4000#64], []⟩ : St) 0x1000#64
    [0, 0, 1] 7 false 0x9000#64 3#64 3#64 [0x2000#64, 0x3000#64, 0x4000#64] [] rfl (by simp)
    (by intro j h; simp at h; omega) (by omega) (fun _ _ => rfl) rfl demo_fs (by decide)
  show (okMap (mapTo _ _ _ _ _ _ _ _ _).1, (mapTo _ _ _ _ _ _ _ _ _).2.mem) = _
  rw [h1]
  show (true, s'.mem) = _
  rw [h2]; rfl

theorem set_ne_zero {m : PMem} {t : Word} {i : Nat} {v : Word} {g : Word} {j : Nat}
    (h : (m.set t i v) g j ≠ 0#64) : (g = t ∧ j = i) ∨ m g j ≠ 0#64 := by
  by_cases hc : g = t ∧ j = i
  · exact Or.inl hc
  · rw [PMem.set_other m t i v g j hc] at h; exact Or.inr h

theorem linked_ne_zero {m : PMem} {t : Word} {i : Nat} {f fl : Word} {g : Word} {j : Nat}
    (h : linked m t i f fl g j ≠ 0#64) : (g = t ∧ j = i) ∨ m g j ≠ 0#64 := by
  unfold linked PMem.zeroed at h
  by_cases hc : g = f ∧ j < 512
  · rw [if_pos hc] at h; exact absurd rfl h
  · rw [if_neg hc] at h; exact set_ne_zero h

theorem demo_valid1 : Valid 0x1000#64 m0 opA := by
  have hi3 : IdxOK [0, 0, 0] := by intro j h; simp at h; omega
  refine ⟨.s4k 0 0 0, hi3, by omega, ⟨by decide, by decide⟩, ?_, ?_, C09.demo3_allocsOK⟩
  · simp only [Bool.false_eq_true, if_false]; unfold LeafBits4K; decide
  · unfold FrameOK; simp only [if_true]; decide

theorem demo_valid4 : Valid 0x1000#64 m0 opB := by
  have hi3 : IdxOK [0, 0, 1] := by intro j h; simp at h; omega
  refine ⟨.s4k 0 0 1, hi3, by omega, ⟨by decide, by decide⟩, ?_, ?_, C09.demo3_allocsOK⟩
  · simp only [Bool.false_eq_true, if_false]; unfold LeafBits4K; decide
  · unfold FrameOK; simp only [if_true]; decide

theorem demo_valid2 (m : PMem) : Valid 0x1000#64 m opU :=
  ⟨.s4k 0 0 0, by intro j h; simp at h; omega⟩

/-- the record of the first page -/
def recA : PageRec := ⟨[0, 0, 0], 5, false, 4096, 0x5000#64, 3#64⟩
/-- the record of the second page -/
def recB : PageRec := ⟨[0, 0, 1], 7, false, 4096, 0x9000#64, 3#64⟩

/-- the state after call 1: invariant, and the abstract state is the record of the first page -/
theorem demo_state1 : Inv mA 0x1000#64 ∧ Rel 0x1000#64 mA [recA] := by
  have h := step_ok ⟨false⟩ 0 0x1000#64 m0 [] _ (init_inv m0 _ (fun _ => rfl)) (Rel.init _ m0 (fun _ => rfl)) demo_valid1
  rw [demo_exec1] at h
  have ha : absStep [] true opA = [recA] := by decide +kernel
  rw [← ha]; exact h

theorem demo_inv1 : Inv mA 0x1000#64 := demo_state1.1

set_option maxRecDepth 100000 in
/-- call 2 succeeds and produces `mU` -/
theorem demo_exec2 : exec ⟨false⟩ 0 0x1000#64 mA opU = (true, mU) := by
  have hm := unmap_mem (⟨mA, [], []⟩ : St) 0x1000#64 [0, 0, 0] 5 false 4096
  have hok : okExc (X86.unmap (⟨mA, [], []⟩ : St) 0x1000#64 [0, 0, 0] 5 false 4096).1 = true := by decide +kernel
  show (okExc (X86.unmap (⟨mA, [], []⟩ : St) 0x1000#64 [0, 0, 0] 5 false 4096).1,
    (X86.unmap (⟨mA, [], []⟩ : St) 0x1000#64 [0, 0, 0] 5 false 4096).2.mem) = _
  cases hu : (X86.unmap (⟨mA, [], []⟩ : St) 0x1000#64 [0, 0, 0] 5 false 4096).1 with
  | error e => rw [hu] at hok; cases hok
  | ok fr =>
    rw [hu] at hm
    obtain ⟨t, ht, _, _, _, hmem⟩ := hm
    have ht' : tblAt mA 0x1000#64 [0, 0, 0] = some 0x4000#64 := by decide +kernel
    simp only at ht
    rw [ht'] at ht
    rw [hmem, ← Option.some.inj ht]
    rfl

/-- the state after call 2: invariant, and the abstract state is empty again -/
theorem demo_state2 : Inv mU 0x1000#64 ∧ Rel 0x1000#64 mU [] := by
  have h := step_ok ⟨false⟩ 0 0x1000#64 mA [recA] _ demo_state1.1 demo_state1.2 (demo_valid2 mA)
  rw [demo_exec2] at h
  have ha : absStep [recA] true opU = [] := by decide +kernel
  rw [← ha]; exact h

set_option maxRecDepth 1000000 in
/-- evaluation of call 3 at the words that were non-zero, and its ghost log: the three tables are deallocated
bottom-up -/
theorem demo_clean3_eval :
    let r := (cleanUpRange ⟨false⟩ 0 (⟨mU, [], []⟩ : St) 0x1000#64 0 0xfffffffffffff000).2
    r.mem 0x1000#64 0 = 0#64 ∧ r.mem 0x2000#64 0 = 0#64 ∧ r.mem 0x3000#64 0 = 0#64 ∧ r.mem 0x4000#64 5 = 0#64 ∧
    deallocsIn r.events = [0x4000#64, 0x3000#64, 0x2000#64] := by decide +kernel

/-- call 3 returns and leaves the all-zero memory: the level-4 entry (and every other word) is zero again -/
theorem demo_exec3 : exec ⟨false⟩ 0 0x1000#64 mU HOp.cleanUp = (true, m0) := by
  have hret := step_returns ⟨false⟩ 0 0x1000#64 mU .cleanUp demo_state2.1 trivial rfl
  obtain ⟨e1, e2, e3, e4, _⟩ := demo_clean3_eval
  have hmem : (exec ⟨false⟩ 0 0x1000#64 mU .cleanUp).2 = m0 := by
    rw [exec_cleanUp_snd]
    funext f j
    show _ = 0#64
    apply Classical.byContradiction
    intro hne
    -- a non-zero word was not modified …
    have hsame : (cleanUpRange ⟨false⟩ 0 (⟨mU, [], []⟩ : St) 0x1000#64 0 0xfffffffffffff000).2.mem f j = mU f j := by
      apply Classical.byContradiction
      intro hmod
      exact hne (C10.clean_up_only_zeroes_table_entries ⟨false⟩ 0 (⟨mU, [], []⟩ : St) 0x1000#64 _ _ demo_state2.1 f j hmod).1
    -- … so it is one of the non-zero words of `mU`
    have hnz : mU f j ≠ 0#64 := by rw [← hsame]; exact hne
    unfold mU mA at hnz
    rcases set_ne_zero hnz with ⟨rfl, rfl⟩ | hnz
    · exact hne e4
    rcases set_ne_zero hnz with ⟨rfl, rfl⟩ | hnz
    · exact hne e4
    rcases linked_ne_zero hnz with ⟨rfl, rfl⟩ | hnz
    · exact hne e3
    rcases linked_ne_zero hnz with ⟨rfl, rfl⟩ | hnz
    · exact hne e2
    rcases linked_ne_zero hnz with ⟨rfl, rfl⟩ | hnz
    · exact hne e1
    exact hnz rfl
  exact Prod.ext hret hmem

private theorem fst_of {α β : Type} {x : α × β} {a : α} {b : β} (h : x = (a, b)) : x.1 = a := by rw [h]
private theorem snd_of {α β : Type} {x : α × β} {a : α} {b : β} (h : x = (a, b)) : x.2 = b := by rw [h]

/-- the history is valid -/
theorem demo_valid : HistoryValid ⟨false⟩ 0 0x1000#64 m0 demoOps := by
  unfold demoOps
  rw [historyValid_cons, snd_of demo_exec1, historyValid_cons, snd_of demo_exec2, historyValid_cons, snd_of demo_exec3,
    historyValid_cons, snd_of demo_exec4, historyValid_cons]
  exact ⟨demo_valid1, demo_valid2 mA, trivial, demo_valid4, trivial, trivial⟩

/-- the memory after the first three calls is all zero again -/
theorem demo_run3 : runHistory ⟨false⟩ 0 0x1000#64 m0 (demoOps.take 3) = m0 := by
  show runHistory ⟨false⟩ 0 0x1000#64 m0 [_, _, _] = m0
  rw [runHistory_cons, snd_of demo_exec1, runHistory_cons, snd_of demo_exec2, runHistory_cons, snd_of demo_exec3]
  rfl

/-- the abstract state the history dictates: the second page only -/
theorem demo_abs : expectedAbs ⟨false⟩ 0 0x1000#64 m0 [] demoOps = [recB] := by
  unfold demoOps
  rw [expectedAbs_cons, snd_of demo_exec1, fst_of demo_exec1, expectedAbs_cons, snd_of demo_exec2, fst_of demo_exec2,
    expectedAbs_cons, snd_of demo_exec3, fst_of demo_exec3, expectedAbs_cons, snd_of demo_exec4, fst_of demo_exec4,
    expectedAbs_cons]
  decide +kernel

/-- **calls 1–3**: after `map_to`, `unmap` the level-4 entry still links the (now useless) level-3 table … -/
example : runHistory ⟨false⟩ 0 0x1000#64 m0 (demoOps.take 2) 0x1000#64 0 = 0x2003#64 := by
  show runHistory ⟨false⟩ 0 0x1000#64 m0 [_, _] 0x1000#64 0 = _
  rw [runHistory_cons, snd_of demo_exec1, runHistory_cons, snd_of demo_exec2]
  decide +kernel

/-- … after `clean_up()` it is zero again, … -/
example : runHistory ⟨false⟩ 0 0x1000#64 m0 (demoOps.take 3) 0x1000#64 0 = 0#64 := by
  rw [demo_run3]; rfl

/-- … and the same by the general theorem, without evaluating the clean-up: no page is recorded after call 2
(`demo_state2`), so `clean_up()` empties the level-4 table (`cleanUp_p4_zero_of_no_pages`) -/
example (i : Nat) (hi : i < 512) : (exec ⟨false⟩ 0 0x1000#64 mU .cleanUp).2 0x1000#64 i = 0#64 :=
  cleanUp_p4_zero_of_no_pages ⟨false⟩ 0 0x1000#64 mU demo_state2.1 demo_state2.2 i hi (fun h => by cases h)

/-- … the ghost log of that `clean_up()` call shows the three tables deallocated bottom-up … -/
example : deallocsIn (cleanUpAll ⟨false⟩ 0 (⟨runHistory ⟨false⟩ 0 0x1000#64 m0 (demoOps.take 2), [], []⟩ : St) 0x1000#64).2.events =
    [0x4000#64, 0x3000#64, 0x2000#64] := by
  have h : runHistory ⟨false⟩ 0 0x1000#64 m0 (demoOps.take 2) = mU := by
    show runHistory ⟨false⟩ 0 0x1000#64 m0 [_, _] = _
    rw [runHistory_cons, snd_of demo_exec1, runHistory_cons, snd_of demo_exec2]; rfl
  rw [h, C10.clean_up_all_eq]
  exact demo_clean3_eval.2.2.2.2

set_option maxRecDepth 1000000 in
/-- **call 5**: the second `clean_up()` (after the second page was mapped) deallocates nothing and writes nothing -/
theorem demo_clean5_eval :
    let r := (cleanUpRange ⟨false⟩ 0 (⟨mB, [], []⟩ : St) 0x1000#64 0 0xfffffffffffff000).2
    deallocsIn r.events = [] ∧ r.events.filter (fun ev => match ev with | .wr _ _ _ => true | _ => false) = [] := by
  decide +kernel

example : deallocsIn (cleanUpAll ⟨false⟩ 0 (⟨runHistory ⟨false⟩ 0 0x1000#64 m0 (demoOps.take 4), [], []⟩ : St) 0x1000#64).2.events = [] := by
  have h : runHistory ⟨false⟩ 0 0x1000#64 m0 (demoOps.take 4) = mB := by
    show runHistory ⟨false⟩ 0 0x1000#64 m0 [_, _, _, _] = _
    rw [runHistory_cons, snd_of demo_exec1, runHistory_cons, snd_of demo_exec2, runHistory_cons, snd_of demo_exec3,
      runHistory_cons, snd_of demo_exec4]; rfl
  rw [h, C10.clean_up_all_eq]
  exact demo_clean5_eval.1

set_option maxRecDepth 100000 in
/-- **after the whole history** the theorem says: the hardware translates `0x207123` (second page) to
`0x9000 + 0x123` with flags `PRESENT | WRITABLE`, and nothing at `0x5123` (first page, unmapped) -/
example :
    (walk (runHistory ⟨false⟩ 0 0x1000#64 m0 demoOps) 0x1000#64 0x207123).map Xlat.core = some (0x9000, 4096, 0x123, 3#64) ∧
    (walk (runHistory ⟨false⟩ 0 0x1000#64 m0 demoOps) 0x1000#64 0x5123).map Xlat.core = none := by
  obtain ⟨_, hw, _⟩ := history_full_from_empty ⟨false⟩ 0 0x1000#64 m0 (fun _ => rfl) demoOps demo_valid
  rw [hw, hw, demo_abs]
  decide +kernel

/-- … `translate_page` returns the frame of the second page, its slot still holds `0x9000 | PRESENT | WRITABLE`,
and both clean-up calls returned -/
example : (∀ (k' : Kind) (s : St), s.mem = runHistory ⟨false⟩ 0 0x1000#64 m0 demoOps →
      (translatePage k' s 0x1000#64 [0, 0, 1] 7 false 4096).1 = .ok 0x9000#64) ∧
    (∃ t, tblAt (runHistory ⟨false⟩ 0 0x1000#64 m0 demoOps) 0x1000#64 [0, 0, 1] = some t ∧
      runHistory ⟨false⟩ 0 0x1000#64 m0 demoOps t 7 = 0x9003#64) ∧
    CleanUpsReturn ⟨false⟩ 0 0x1000#64 m0 demoOps := by
  obtain ⟨_, _, _, hs, ht, hc⟩ := history_full_from_empty ⟨false⟩ 0 0x1000#64 m0 (fun _ => rfl) demoOps demo_valid
  rw [demo_abs] at hs ht
  exact ⟨fun k' s h => ht recB (by simp) k' s h, hs recB (by simp), hc⟩

end X86.C01HistoryFull
