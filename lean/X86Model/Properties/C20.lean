/-
C20 — RecursivePageTable validates its table and computes exact recursive addresses.

Model: `Model/Recursive.lean` (`Recursive.new`, `p3Page`/`p2Page`/`p1Page`).
Spec:  `Spec/Recursive.lean` (`newSpec`, `recP3`/`recP2`/`recP1`) and the hardware walk
       `Spec/Walk.lean` (`walk`).
-/
import X86Model.Model.Recursive
import X86Model.Spec.Recursive
import X86Model.Properties.C04
import X86Model.Proofs.Arith
import Std.Tactic.BVDecide

namespace X86.C20
open X86 X86.Spec X86.Recursive

/-! ### The constructor -/

/-- The frame comparison of `new` (`Ok(Cr3::read().0) != table[r].frame()`) is exactly "the slot is
present and its address field (bits 51:12) equals CR3's". -/
theorem frame_test_eq (cr3 e : Word) :
    (some (cr3Frame cr3) = entryFrame e) ↔ (bitP e = true ∧ tableAddr e = tableAddr cr3) := by
  unfold entryFrame cr3Frame frameContaining Pte.present Pte.addr Pte.PRESENT Pte.ADDR_MASK bitP tableAddr
  by_cases hp : (e &&& 1#64 != 0#64) = true
  · simp only [hp, if_true, Option.some.injEq, true_and]
    constructor
    · intro h; bv_decide
    · intro h; bv_decide
  · simp only [hp, if_false, false_and, reduceCtorEq, Bool.false_eq_true]

private theorem page_indices (a : Nat) (hc : canon a) :
    Page.p4Index (Page.containingAddress size4K a) = idxSpec 4 a ∧
    Page.p3Index (Page.containingAddress size4K a) = idxSpec 3 a ∧
    Page.p2Index (Page.containingAddress size4K a) = idxSpec 2 a ∧
    Page.p1Index (Page.containingAddress size4K a) = idxSpec 1 a := by
  have hcanon : canon (a - a % 4096) := by unfold canon at *; omega
  have hp : Page.containingAddress size4K a = a - a % 4096 := by
    unfold Page.containingAddress VirtAddr.newTruncate size4K
    exact signExt48_canon _ hcanon
  rw [hp]
  obtain ⟨e4, e3, e2, e1⟩ := idxSpec_unfold a
  rw [e4, e3, e2, e1]
  unfold Page.p4Index Page.p3Index Page.p2Index Page.p1Index
    VirtAddr.p4Index VirtAddr.p3Index VirtAddr.p2Index VirtAddr.p1Index
  refine ⟨?_, ?_, ?_, ?_⟩ <;> omega

/-- The model of `new` is the documented decision table: for every canonical table address, every
CR3 value and every table content, `new` returns what `newSpec` says, reading slot `idxSpec 4 a`. -/
theorem new_eq_spec (a : Nat) (cr3 : Word) (tbl : Nat → Word) (hc : canon a) :
    Recursive.new a cr3 tbl =
      .ok (match newSpec a cr3 (tbl (idxSpec 4 a)) with
           | .ok r => .ok r
           | .notRecursive => .error .notRecursive
           | .notActive => .error .notActive) := by
  obtain ⟨h4, h3, h2, h1⟩ := page_indices a hc
  unfold Recursive.new newSpec
  rw [va_new_ok a hc]
  simp only [R.map_ok, h4, h3, h2, h1]
  by_cases hrec : idxSpec 3 a ≠ idxSpec 4 a ∨ idxSpec 2 a ≠ idxSpec 4 a ∨ idxSpec 1 a ≠ idxSpec 4 a
  · simp only [hrec, if_true]
  · simp only [hrec, if_false]
    by_cases hact : bitP (tbl (idxSpec 4 a)) = true ∧ tableAddr (tbl (idxSpec 4 a)) = tableAddr cr3
    · have := (frame_test_eq cr3 (tbl (idxSpec 4 a))).mpr hact
      simp only [hact, and_self, if_true, this, ne_eq, not_true_eq_false, if_false]
    · have : ¬ (some (cr3Frame cr3) = entryFrame (tbl (idxSpec 4 a))) :=
        fun h => hact ((frame_test_eq cr3 _).mp h)
      simp only [hact, if_false, ne_eq, this, not_false_eq_true, if_true]

/-- `new` succeeds exactly when the four indices of the table address are equal, and that slot of
the table is present and points to the frame CR3 holds; the index it then uses is the common one. -/
theorem new_ok_iff (a : Nat) (cr3 : Word) (tbl : Nat → Word) (r : Nat) (hc : canon a) :
    Recursive.new a cr3 tbl = .ok (.ok r) ↔
      (idxSpec 4 a = r ∧ idxSpec 3 a = r ∧ idxSpec 2 a = r ∧ idxSpec 1 a = r) ∧
      bitP (tbl r) = true ∧ tableAddr (tbl r) = tableAddr cr3 := by
  rw [new_eq_spec a cr3 tbl hc]
  unfold newSpec
  by_cases hrec : idxSpec 3 a ≠ idxSpec 4 a ∨ idxSpec 2 a ≠ idxSpec 4 a ∨ idxSpec 1 a ≠ idxSpec 4 a
  · simp only [hrec, if_true, R.ok.injEq, reduceCtorEq, false_iff]
    intro ⟨⟨e4, e3, e2, e1⟩, _⟩; omega
  · simp only [hrec, if_false]
    have hall : idxSpec 3 a = idxSpec 4 a ∧ idxSpec 2 a = idxSpec 4 a ∧ idxSpec 1 a = idxSpec 4 a := by omega
    by_cases hact : bitP (tbl (idxSpec 4 a)) = true ∧ tableAddr (tbl (idxSpec 4 a)) = tableAddr cr3
    · simp only [hact, and_self, if_true, R.ok.injEq, Except.ok.injEq]
      constructor
      · intro h; subst h; exact ⟨⟨rfl, hall.1, hall.2.1, hall.2.2⟩, hact⟩
      · intro h; exact h.1.1
    · simp only [hact, if_false, R.ok.injEq, reduceCtorEq, false_iff]
      intro ⟨⟨e4, _, _, _⟩, h⟩; subst e4; exact hact h

/-- Not of the recursive form ⇒ `NotRecursive`, whatever CR3 and the table hold (checked first). -/
theorem new_not_recursive (a : Nat) (cr3 : Word) (tbl : Nat → Word) (hc : canon a)
    (h : ¬ (idxSpec 3 a = idxSpec 4 a ∧ idxSpec 2 a = idxSpec 4 a ∧ idxSpec 1 a = idxSpec 4 a)) :
    Recursive.new a cr3 tbl = .ok (.error .notRecursive) := by
  rw [new_eq_spec a cr3 tbl hc]; unfold newSpec
  have : idxSpec 3 a ≠ idxSpec 4 a ∨ idxSpec 2 a ≠ idxSpec 4 a ∨ idxSpec 1 a ≠ idxSpec 4 a := by omega
  simp only [this, if_true]

/-- Recursive form, but the slot is not present or points elsewhere ⇒ `NotActive`. -/
theorem new_not_active (a : Nat) (cr3 : Word) (tbl : Nat → Word) (hc : canon a)
    (hrec : idxSpec 3 a = idxSpec 4 a ∧ idxSpec 2 a = idxSpec 4 a ∧ idxSpec 1 a = idxSpec 4 a)
    (h : ¬ (bitP (tbl (idxSpec 4 a)) = true ∧ tableAddr (tbl (idxSpec 4 a)) = tableAddr cr3)) :
    Recursive.new a cr3 tbl = .ok (.error .notActive) := by
  rw [new_eq_spec a cr3 tbl hc]; unfold newSpec
  have : ¬ (idxSpec 3 a ≠ idxSpec 4 a ∨ idxSpec 2 a ≠ idxSpec 4 a ∨ idxSpec 1 a ≠ idxSpec 4 a) := by omega
  simp only [this, if_false, h]

/-- `new` never panics on a canonical address and has no other outcome than the three above. -/
theorem new_total (a : Nat) (cr3 : Word) (tbl : Nat → Word) (hc : canon a) :
    ∃ o, Recursive.new a cr3 tbl = .ok o := ⟨_, new_eq_spec a cr3 tbl hc⟩

/-! ### The recursive addresses -/

private theorem pidx (p : Nat) :
    Page.p4Index p = idxSpec 4 p ∧ Page.p3Index p = idxSpec 3 p ∧ Page.p2Index p = idxSpec 2 p :=
  ⟨C04.p4_index_eq p, C04.p3_index_eq p, C04.p2_index_eq p⟩

/-- `p3_page(page, R)` is the canonical (sign-extended), 4 KiB-aligned page with indices
`(R, R, R, i4)`, for every `R < 512` and every page (of any size; `page` is its start address). -/
theorem p3_page_eq (page r : Nat) (hr : r < 512) :
    p3Page page r = unrank (ofIndices r r r (idxSpec 4 page)) ∧
    canon (p3Page page r) ∧ p3Page page r % 4096 = 0 := by
  unfold p3Page; rw [(pidx page).1]
  have h := C04.from_indices_4k r r r (idxSpec 4 page) hr hr hr (C04.index_range 4 page)
  exact ⟨h.1, h.2.1, h.2.2.1⟩

/-- `p2_page(page, R)`: indices `(R, R, i4, i3)`. -/
theorem p2_page_eq (page r : Nat) (hr : r < 512) :
    p2Page page r = unrank (ofIndices r r (idxSpec 4 page) (idxSpec 3 page)) ∧
    canon (p2Page page r) ∧ p2Page page r % 4096 = 0 := by
  unfold p2Page; rw [(pidx page).1, (pidx page).2.1]
  have h := C04.from_indices_4k r r (idxSpec 4 page) (idxSpec 3 page) hr hr
    (C04.index_range 4 page) (C04.index_range 3 page)
  exact ⟨h.1, h.2.1, h.2.2.1⟩

/-- `p1_page(page, R)`: indices `(R, i4, i3, i2)`. -/
theorem p1_page_eq (page r : Nat) (hr : r < 512) :
    p1Page page r = unrank (ofIndices r (idxSpec 4 page) (idxSpec 3 page) (idxSpec 2 page)) ∧
    canon (p1Page page r) ∧ p1Page page r % 4096 = 0 := by
  unfold p1Page; rw [(pidx page).1, (pidx page).2.1, (pidx page).2.2]
  have h := C04.from_indices_4k r (idxSpec 4 page) (idxSpec 3 page) (idxSpec 2 page) hr
    (C04.index_range 4 page) (C04.index_range 3 page) (C04.index_range 2 page)
  exact ⟨h.1, h.2.1, h.2.2.1⟩

/-- The model's three table pages are the spec's (`Spec/Recursive.lean`). -/
theorem table_pages_eq_spec (page r : Nat) (hr : r < 512) :
    p3Page page r = recP3 r page ∧ p2Page page r = recP2 r page ∧ p1Page page r = recP1 r page :=
  ⟨(p3_page_eq page r hr).1, (p2_page_eq page r hr).1, (p1_page_eq page r hr).1⟩

/-- Index fields of the three addresses as the MMU extracts them (`vaIdx4..1` of `Spec/Walk.lean`). -/
theorem p3_page_indices (page r : Nat) (hr : r < 512) :
    vaIdx4 (p3Page page r) = r ∧ vaIdx3 (p3Page page r) = r ∧ vaIdx2 (p3Page page r) = r ∧
    vaIdx1 (p3Page page r) = idxSpec 4 page := by
  unfold p3Page; rw [(pidx page).1]
  have h := C04.from_indices_4k r r r (idxSpec 4 page) hr hr hr (C04.index_range 4 page)
  exact ⟨h.2.2.2.1, h.2.2.2.2.1, h.2.2.2.2.2.1, h.2.2.2.2.2.2⟩

theorem p2_page_indices (page r : Nat) (hr : r < 512) :
    vaIdx4 (p2Page page r) = r ∧ vaIdx3 (p2Page page r) = r ∧ vaIdx2 (p2Page page r) = idxSpec 4 page ∧
    vaIdx1 (p2Page page r) = idxSpec 3 page := by
  unfold p2Page; rw [(pidx page).1, (pidx page).2.1]
  have h := C04.from_indices_4k r r (idxSpec 4 page) (idxSpec 3 page) hr hr
    (C04.index_range 4 page) (C04.index_range 3 page)
  exact ⟨h.2.2.2.1, h.2.2.2.2.1, h.2.2.2.2.2.1, h.2.2.2.2.2.2⟩

theorem p1_page_indices (page r : Nat) (hr : r < 512) :
    vaIdx4 (p1Page page r) = r ∧ vaIdx3 (p1Page page r) = idxSpec 4 page ∧
    vaIdx2 (p1Page page r) = idxSpec 3 page ∧ vaIdx1 (p1Page page r) = idxSpec 2 page := by
  unfold p1Page; rw [(pidx page).1, (pidx page).2.1, (pidx page).2.2]
  have h := C04.from_indices_4k r (idxSpec 4 page) (idxSpec 3 page) (idxSpec 2 page) hr
    (C04.index_range 4 page) (C04.index_range 3 page) (C04.index_range 2 page)
  exact ⟨h.2.2.2.1, h.2.2.2.2.1, h.2.2.2.2.2.1, h.2.2.2.2.2.2⟩

/-! ### The link to the MMU: the recursive addresses reach the intended tables

`RecSlot m p4 r`: slot `r` of the P4 table at physical address `p4` is a present, non-huge entry
pointing to `p4` itself (what `new` validates, plus PS = 0). `entry4/3/2 m p4 page` are the
entries on `page`'s path as the hardware reads them. -/

def RecSlot (m : PhysMem) (p4 : BitVec 64) (r : Nat) : Prop :=
  bitP (m p4 r) = true ∧ bitPS (m p4 r) = false ∧ tableAddr (m p4 r) = p4

def entry4 (m : PhysMem) (p4 : BitVec 64) (page : Nat) : BitVec 64 := m p4 (idxSpec 4 page)
def entry3 (m : PhysMem) (p4 : BitVec 64) (page : Nat) : BitVec 64 :=
  m (tableAddr (entry4 m p4 page)) (idxSpec 3 page)
def entry2 (m : PhysMem) (p4 : BitVec 64) (page : Nat) : BitVec 64 :=
  m (tableAddr (entry3 m p4 page)) (idxSpec 2 page)

/-- A present, non-huge entry: a pointer to the next-level table. -/
def IsTable (e : BitVec 64) : Prop := bitP e = true ∧ bitPS e = false

/-- The P4 table's own recursive address `(R,R,R,R)` translates to the P4 frame. -/
theorem p4_addr_walk (m : PhysMem) (p4 : BitVec 64) (r : Nat) (hr : r < 512) (hrec : RecSlot m p4 r) :
    ∃ x, walk m p4 (recP4 r) = some x ∧ x.base = p4.toNat ∧ x.size = 4096 ∧ x.off = 0 := by
  have hf := ofIndices_fields r r r r hr hr hr hr
  have hu := unrank_fields _ hf.1
  have i4 : vaIdx4 (recP4 r) = r := by unfold vaIdx4 recP4; omega
  have i3 : vaIdx3 (recP4 r) = r := by unfold vaIdx3 recP4; omega
  have i2 : vaIdx2 (recP4 r) = r := by unfold vaIdx2 recP4; omega
  have i1 : vaIdx1 (recP4 r) = r := by unfold vaIdx1 recP4; omega
  have ho : recP4 r % 4096 = 0 := by unfold recP4; omega
  obtain ⟨hp, hps, ht⟩ := hrec
  unfold walk
  simp only [i4, i3, i2, i1, hp, hps, ht, Bool.not_true, Bool.or_false, Bool.false_eq_true, if_false]
  exact ⟨_, rfl, rfl, rfl, ho⟩

/-- The address `p3_page(page, R)` translates to the frame of `page`'s level-3 table whenever
`P4[i4]` is present (and not huge). -/
theorem p3_page_walk (m : PhysMem) (p4 : BitVec 64) (page r : Nat) (hr : r < 512)
    (hrec : RecSlot m p4 r) (h4 : bitP (entry4 m p4 page) = true) :
    ∃ x, walk m p4 (p3Page page r) = some x ∧
      x.base = (tableAddr (entry4 m p4 page)).toNat ∧ x.size = 4096 ∧ x.off = 0 := by
  obtain ⟨i4, i3, i2, i1⟩ := p3_page_indices page r hr
  have ho := (p3_page_eq page r hr).2.2
  obtain ⟨hp, hps, ht⟩ := hrec
  unfold entry4 at h4
  unfold walk
  simp only [i4, i3, i2, i1, hp, hps, ht, h4, Bool.not_true, Bool.or_false, Bool.false_eq_true, if_false]
  exact ⟨_, rfl, rfl, rfl, ho⟩

/-- The address `p2_page(page, R)` translates to the frame of `page`'s level-2 table whenever
`P4[i4]` is a table pointer and `P3[i3]` is present. -/
theorem p2_page_walk (m : PhysMem) (p4 : BitVec 64) (page r : Nat) (hr : r < 512)
    (hrec : RecSlot m p4 r) (h4 : IsTable (entry4 m p4 page)) (h3 : bitP (entry3 m p4 page) = true) :
    ∃ x, walk m p4 (p2Page page r) = some x ∧
      x.base = (tableAddr (entry3 m p4 page)).toNat ∧ x.size = 4096 ∧ x.off = 0 := by
  obtain ⟨i4, i3, i2, i1⟩ := p2_page_indices page r hr
  have ho := (p2_page_eq page r hr).2.2
  obtain ⟨hp, hps, ht⟩ := hrec
  obtain ⟨h4p, h4s⟩ := h4
  unfold entry3 at h3; unfold entry4 at h4p h4s h3
  unfold walk
  simp only [i4, i3, i2, i1, hp, hps, ht, h4p, h4s, h3, Bool.not_true, Bool.or_false,
      Bool.false_eq_true, if_false]
  exact ⟨_, rfl, rfl, rfl, ho⟩

/-- The address `p1_page(page, R)` translates to the frame of `page`'s level-1 table whenever
`P4[i4]` and `P3[i3]` are table pointers and `P2[i2]` is present. -/
theorem p1_page_walk (m : PhysMem) (p4 : BitVec 64) (page r : Nat) (hr : r < 512)
    (hrec : RecSlot m p4 r) (h4 : IsTable (entry4 m p4 page)) (h3 : IsTable (entry3 m p4 page))
    (h2 : bitP (entry2 m p4 page) = true) :
    ∃ x, walk m p4 (p1Page page r) = some x ∧
      x.base = (tableAddr (entry2 m p4 page)).toNat ∧ x.size = 4096 ∧ x.off = 0 := by
  obtain ⟨i4, i3, i2, i1⟩ := p1_page_indices page r hr
  have ho := (p1_page_eq page r hr).2.2
  obtain ⟨hp, hps, ht⟩ := hrec
  obtain ⟨h4p, h4s⟩ := h4
  obtain ⟨h3p, h3s⟩ := h3
  unfold entry2 at h2; unfold entry3 at h3p h3s h2; unfold entry4 at h4p h4s h3p h3s h2
  unfold walk
  simp only [i4, i3, i2, i1, hp, hps, ht, h4p, h4s, h3p, h3s, h2, Bool.not_true, Bool.or_false,
      Bool.false_eq_true, if_false]
  exact ⟨_, rfl, rfl, rfl, ho⟩

/-- Why the parent `HUGE_PAGE` checks matter (finding F5): when `P3[i3]` is a 1 GiB huge page, the
address `p1_page(page, R)` does not reach a page table at all — the MMU resolves it inside the
mapped 1 GiB *data* frame (as a 2 MiB translation whose base is bits 51:21 of the huge entry). -/
theorem p1_page_walk_huge_parent (m : PhysMem) (p4 : BitVec 64) (page r : Nat) (hr : r < 512)
    (hrec : RecSlot m p4 r) (h4 : IsTable (entry4 m p4 page))
    (h3 : bitP (entry3 m p4 page) = true) (h3h : bitPS (entry3 m p4 page) = true) :
    ∃ x, walk m p4 (p1Page page r) = some x ∧
      x.base = (addr2M (entry3 m p4 page)).toNat ∧ x.size = 2^21 := by
  obtain ⟨i4, i3, i2, i1⟩ := p1_page_indices page r hr
  obtain ⟨hp, hps, ht⟩ := hrec
  obtain ⟨h4p, h4s⟩ := h4
  unfold entry3 at h3 h3h; unfold entry4 at h4p h4s h3 h3h
  unfold walk
  simp only [i4, i3, i2, i1, hp, hps, ht, h4p, h4s, h3, h3h, Bool.not_true, Bool.or_false,
      Bool.false_eq_true, if_false, if_true]
  exact ⟨_, rfl, rfl, rfl⟩

/-! ### Non-vacuity -/

/-- A concrete recursively mapped hierarchy: P4 at 0x1000 with recursive slot 1, P3 at 0x2000 under
P4[0], P2 at 0x3000 under P3[0], P1 at 0x4000 under P2[1]. -/
def exMem : PhysMem := fun f i =>
  if f = 0x1000#64 ∧ i = 1 then 0x1003#64
  else if f = 0x1000#64 ∧ i = 0 then 0x2003#64
  else if f = 0x2000#64 ∧ i = 0 then 0x3003#64
  else if f = 0x3000#64 ∧ i = 1 then 0x4003#64
  else 0#64

example : RecSlot exMem 0x1000#64 1 := by unfold RecSlot; decide
example : IsTable (entry4 exMem 0x1000#64 0x201000) ∧ IsTable (entry3 exMem 0x1000#64 0x201000) ∧
    bitP (entry2 exMem 0x1000#64 0x201000) = true := by unfold IsTable; decide
example : p1Page 0x201000 1 = 0x8000001000 ∧ p2Page 0x201000 1 = 0x8040000000 ∧
    p3Page 0x201000 1 = 0x8040200000 ∧ recP4 1 = 0x8040201000 := by decide
example : (walk exMem 0x1000#64 (p1Page 0x201000 1)).map (·.base) = some 0x4000 := by decide
example : (walk exMem 0x1000#64 (p2Page 0x201000 1)).map (·.base) = some 0x3000 := by decide
example : (walk exMem 0x1000#64 (p3Page 0x201000 1)).map (·.base) = some 0x2000 := by decide
-- sign extension for R ≥ 256
example : p3Page 0x201000 511 = 0xffffffffffe00000 ∧ p1Page 0xffff800000000000 256 = 0xffff804000000000 := by decide
-- the constructor: recursive address of index 1 with the right slot, wrong slot contents, wrong address
example : Recursive.new 0x8040201000 0x1000#64 (exMem 0x1000#64) = .ok (.ok 1) := by rfl
example : Recursive.new 0x8040201000 0x5000#64 (exMem 0x1000#64) = .ok (.error .notActive) := by rfl
example : Recursive.new 0x8040202000 0x1000#64 (exMem 0x1000#64) = .ok (.error .notRecursive) := by rfl

end X86.C20
