/-
The oracle's rights bookkeeping (`prw` / `pus`) = the proven specification of effective rights.

`Properties/OracleSpec.lean` ties the executable oracle of the differential test (`Driver/Mapper.lean`: `AbsMap`,
`absLookup`, `absAfterOk`) to the specification of the history theorems up to the fields `prw`/`pus`.
`Properties/C01HistoryRights.lean` proves the history theorem WITH rights (`RRec`, `absOkR`, `Granted`,
`history_rights_from_empty`). This file closes the gap:

1. `toAbsMapR`, `SimR` — the oracle entry of a record with rights; `SimR` is FULL equality of the lists
   (`abs = a.map toAbsMapR`), all six fields.
2. update agreement with rights: `oracleOkR_map`, `oracleOkR_unmap`, `oracleOkR_update`, `oracleOkR_setParent`,
   `oracleOkR_eq`, `oracleStepR_eq`.
   FINDING (R1), see the end of the file: for `set_flags_pN_entry` the bare equation
   `oracleOk (a.map toAbsMapR) op = (absOkR a op).map toAbsMapR` is FALSE for a merely `ValidD` call: the oracle
   compares `parents ++ [idx]` with the ADDRESS indices `[i4, i3, i2]` of the page's start (padded with the
   slot index and zeros for huge pages), the specification with the page's PARENT path only. They differ
   exactly when a recorded HUGE page lies at or above the entry (`P ++ [li] <+: parents ++ [idx]`, path SHORTER
   than the prefix): then the oracle lowers `prw/pus`, the specification does not. Such a call cannot SUCCEED in a
   state the records describe (`noHugeAbove_of_ok`: the entry would have to be a table link, the page's slot is
   a leaf), so along histories the two agree; the oracle errs on the safe side (a lower bound is only lowered).
3. `rightsClause`, `rightsClause_of_granted`, `oracle_rights_history` — the oracle's rights clause is implied at
   every canonical address after every valid history from the empty table.
4. `example`s on `C01HistoryRights.demoR`.
-/
import X86Model.Properties.OracleSpec
import X86Model.Properties.C01HistoryRights

namespace X86.OracleSpecRights
open X86 X86.Spec X86.C01 X86.C01HistoryDormant X86.Driver X86.OracleSpec X86.C01HistoryRights

/-! ### 1. Translation of records with rights -/

/-- **The oracle entry of a record with rights**: `toAbsMap` of the page, `prw`/`pus` from the record. -/
def toAbsMapR (x : RRec) : Driver.AbsMap := { toAbsMap x.page with prw := x.prw, pus := x.pus }

/-- The oracle's list IS the translation of the specification's state (all six fields, same order). -/
def SimR (abs : List Driver.AbsMap) (a : AbsR) : Prop := abs = a.map toAbsMapR

theorem SimR.nil : SimR [] [] := rfl

/-- All six fields of an oracle entry (for evaluation in `example`s; `AbsMap` has no `DecidableEq`). -/
def full (x : Driver.AbsMap) : Nat × Nat × Nat × Word × Bool × Bool := (x.start, x.size, x.frame, x.flags, x.prw, x.pus)

theorem core_toAbsMapR (x : RRec) : core (toAbsMapR x) = core (toAbsMap x.page) := rfl

/-- Forgetting the rights: `SimR` implies `OracleSpec.Sim` for the underlying page records. -/
theorem SimR.sim {abs : List Driver.AbsMap} {a : AbsR} (h : SimR abs a) : Sim abs a.abs := by
  unfold SimR at h
  subst h
  unfold Sim AbsR.abs
  simp only [List.map_map]
  apply List.map_congr_left
  intro x _
  rfl

/-! ### Index extraction -/

/-- The address indices the oracle's `set_flags_pN_entry` branch reads off the start address of a page: the
page's own index path, padded with zeros (huge pages). -/
theorem idx_pageAddr {parents : List Nat} {huge : Bool} {sz : Nat} (li : Nat)
    (sh : PageShape parents huge sz) (hpi : IdxOK parents) (hli : li < 512) :
    [vaIdx4 (pageAddr parents li), vaIdx3 (pageAddr parents li), vaIdx2 (pageAddr parents li)] =
      ((parents ++ [li]) ++ [0, 0]).take 3 := by
  cases sh with
  | s4k a b c =>
    have ha : a < 512 := hpi a (by simp)
    have hb : b < 512 := hpi b (by simp)
    have hc' : c < 512 := hpi c (by simp)
    have hS : pageStart [a, b, c] li = a * 2^39 + b * 2^30 + c * 2^21 + li * 2^12 := by
      simp [pageStart]; omega
    have hx := signExt48_cases (pageStart [a, b, c] li) (by omega)
    simp only [pageAddr]
    generalize signExt48 (pageStart [a, b, c] li) = P at *
    simp [vaIdx4, vaIdx3, vaIdx2]
    omega
  | s2m a b =>
    have ha : a < 512 := hpi a (by simp)
    have hb : b < 512 := hpi b (by simp)
    have hS : pageStart [a, b] li = a * 2^39 + b * 2^30 + li * 2^21 := by
      simp [pageStart]; omega
    have hx := signExt48_cases (pageStart [a, b] li) (by omega)
    simp only [pageAddr]
    generalize signExt48 (pageStart [a, b] li) = P at *
    simp [vaIdx4, vaIdx3, vaIdx2]
    omega
  | s1g a =>
    have ha : a < 512 := hpi a (by simp)
    have hS : pageStart [a] li = a * 2^39 + li * 2^30 := by
      simp [pageStart]; omega
    have hx := signExt48_cases (pageStart [a] li) (by omega)
    simp only [pageAddr]
    generalize signExt48 (pageStart [a] li) = P at *
    simp [vaIdx4, vaIdx3, vaIdx2]
    omega

/-- **The two prefix tests compared.** For a page of path `P`/`li` and a parent entry `parents`/`idx`
(`|parents| ≤ 2`): the oracle's test (on the padded address indices) is the specification's test
(`parents ++ [idx]` a prefix of `P`), EXCEPT when the page is huge and lies at or above the entry. -/
theorem prefixTest_cases {P : List Nat} {huge : Bool} {sz : Nat} (li : Nat) (sh : PageShape P huge sz)
    (parents : List Nat) (idx : Nat) (hl : parents.length ≤ 2) :
    ((parents ++ [idx] == (((P ++ [li]) ++ [0, 0]).take 3).take (parents ++ [idx]).length) =
      (parents ++ [idx]).isPrefixOf P) ∨
    (P.length ≠ 3 ∧ P ++ [li] <+: parents ++ [idx]) := by
  match parents, hl with
  | [], _ => cases sh <;> (left; simp [List.isPrefixOf])
  | [p], _ =>
    cases sh with
    | s4k a b c => left; simp [List.isPrefixOf]
    | s2m a b => left; simp [List.isPrefixOf]
    | s1g a =>
      by_cases h : p = a ∧ idx = li
      · right; obtain ⟨rfl, rfl⟩ := h; exact ⟨by simp, List.prefix_refl _⟩
      · left; simp [List.isPrefixOf]; exact fun h1 h2 => h ⟨h1, h2⟩
  | [p, q], _ =>
    cases sh with
    | s4k a b c => left; simp [List.isPrefixOf]
    | s2m a b =>
      by_cases h : p = a ∧ q = b ∧ idx = li
      · right; obtain ⟨rfl, rfl, rfl⟩ := h; exact ⟨by simp, List.prefix_refl _⟩
      · left; simp [List.isPrefixOf]; exact fun h1 h2 h3 => h ⟨h1, h2, h3⟩
    | s1g a =>
      by_cases h : p = a ∧ q = li
      · right; obtain ⟨rfl, rfl⟩ := h; exact ⟨by simp, ⟨[idx], rfl⟩⟩
      · left; simp [List.isPrefixOf]; intro h1 h2; exact absurd ⟨h1, h2⟩ h
  | _ :: _ :: _ :: _, h => simp at h

/-! ### 2. Update agreement with rights -/

/-- `map_to`: the pushed entry is the translation of the new record, `bitRW pflags`/`bitUS pflags` included. -/
theorem oracleOkR_map (a : AbsR) (parents : List Nat) (li : Nat) (huge : Bool) (sz : Nat) (frame flags pflags : Word)
    (allocs : List (Option Word)) (hnd : leafWord huge frame flags ≠ 0#64) :
    oracleOk (a.map toAbsMapR) (.map parents li huge sz frame flags pflags allocs) =
      (absOkR a (.map parents li huge sz frame flags pflags allocs)).map toAbsMapR := by
  simp only [oracleOk, absOkR]
  rw [if_neg hnd]
  rfl

theorem oracleOkR_unmap (a : AbsR) (hok : ∀ x ∈ a, x.page.OK) {parents : List Nat} {huge : Bool} {sz : Nat} (li : Nat)
    (sh : PageShape parents huge sz) (hpi : IdxOK parents) (hli : li < 512) :
    oracleOk (a.map toAbsMapR) (.unmap parents li huge sz) = (absOkR a (.unmap parents li huge sz)).map toAbsMapR := by
  simp only [oracleOk, absOkR]
  rw [List.filter_map]
  congr 1
  apply List.filter_congr
  intro x hx
  simp only [Function.comp]
  rw [isPage_iff_addr x.page (hok x hx) li sh hpi hli]
  rfl

private theorem filterMap_map {β γ : Type} (g : β → γ) (U' : γ → γ) (V : β → Option β) :
    ∀ (l' : List β), (∀ r ∈ l', ∃ r', V r = some r' ∧ g r' = U' (g r)) →
      (l'.filterMap V).map g = (l'.map g).map U' := by
  intro l'
  induction l' with
  | nil => intro _; rfl
  | cons r rest ih =>
    intro hV
    obtain ⟨r', e1, e2⟩ := hV r (by simp)
    rw [List.filterMap_cons_some e1]
    simp only [List.map_cons, e2]
    rw [ih (fun x hx => hV x (List.mem_cons_of_mem _ hx))]

private theorem leafWord_ne_zero' (huge : Bool) (frame flags : Word) (h : huge = true ∨ flags ≠ 0#64) :
    leafWord huge frame flags ≠ 0#64 := by
  unfold leafWord Pte.mk leafFlagsOf
  cases huge
  · simp only [Bool.false_eq_true, if_false]
    rcases h with h | h
    · cases h
    · unfold Word at *; bv_decide
  · simp only [if_true]
    unfold Word at *; bv_decide

theorem oracleOkR_update (a : AbsR) (hok : ∀ x ∈ a, x.page.OK) {parents : List Nat} {huge : Bool} {sz : Nat}
    (li : Nat) (flags : Word) (sh : PageShape parents huge sz) (hpi : IdxOK parents) (hli : li < 512)
    (hnd : huge = true ∨ flags ≠ 0#64) :
    oracleOk (a.map toAbsMapR) (.update parents li huge sz flags) =
      (absOkR a (.update parents li huge sz flags)).map toAbsMapR := by
  simp only [oracleOk, absOkR]
  refine (filterMap_map toAbsMapR _ _ a ?_).symm
  intro x hx
  have hpage := isPage_iff_addr x.page (hok x hx) li sh hpi hli
  have hst : (toAbsMapR x).start = (toAbsMap x.page).start := rfl
  have hsz : (toAbsMapR x).size = (toAbsMap x.page).size := rfl
  by_cases hc : x.page.isPage parents li = true
  · obtain ⟨e1, e2⟩ := (PageRec.isPage_iff _ _ _).1 hc
    have hh : x.page.huge = huge := (pageShape_unique (e1 ▸ (hok x hx).shape) sh).1
    have hz : leafWord x.page.huge x.page.frame flags ≠ 0#64 := leafWord_ne_zero' _ _ _ (by rw [hh]; exact hnd)
    refine ⟨{ x with page := { x.page with flags := flags } }, by rw [if_pos hc, if_neg hz], ?_⟩
    rw [hc] at hpage
    simp only [hst, hsz, ← hpage, if_true]
    simp only [toAbsMapR, toAbsMap, hh]
    rfl
  · refine ⟨x, by rw [if_neg hc], ?_⟩
    have hc' : x.page.isPage parents li = false := by simpa using hc
    rw [hc'] at hpage
    simp only [hst, hsz, ← hpage, Bool.false_eq_true, if_false]

/-- No recorded HUGE page lies at or above the parent entry `parents`/`idx` (its slot path `P ++ [li]` is not a
prefix of `parents ++ [idx]`). This is the exact condition under which the two prefix tests agree. -/
def NoHugeAbove (a : AbsR) (parents : List Nat) (idx : Nat) : Prop :=
  ∀ x ∈ a, x.page.parents.length ≠ 3 → ¬ (x.page.parents ++ [x.page.li] <+: parents ++ [idx])

/-- **`set_flags_pN_entry`**: the oracle lowers `prw/pus` of exactly the records the specification lowers, provided
no recorded huge page lies at or above the entry. -/
theorem oracleOkR_setParent (a : AbsR) (hok : ∀ x ∈ a, x.page.OK) (parents : List Nat) (idx : Nat) (flags : Word)
    (hl : parents.length ≤ 2) (hno : NoHugeAbove a parents idx) :
    oracleOk (a.map toAbsMapR) (.setParent parents idx flags) =
      (absOkR a (.setParent parents idx flags)).map toAbsMapR := by
  simp only [oracleOk, absOkR, List.map_map]
  apply List.map_congr_left
  intro x hx
  simp only [Function.comp]
  have hidx := idx_pageAddr x.page.li (hok x hx).shape (hok x hx).idx (hok x hx).li
  have hst : (toAbsMapR x).start = pageAddr x.page.parents x.page.li := rfl
  rw [hst, hidx]
  rcases prefixTest_cases x.page.li (hok x hx).shape parents idx hl with h | ⟨h1, h2⟩
  · rw [h]; split <;> rfl
  · exact absurd h2 (hno x hx h1)

/-- A SUCCESSFUL `set_flags_pN_entry` in a state the records describe: the entry is a table link, so no recorded
huge page (whose slot is a leaf) lies at or above it. -/
theorem noHugeAbove_of_ok (k : Kind) (p4 : Word) (m : PMem) (a : AbsR) (hinv : Inv m p4) (hrel : Rel p4 m a.abs)
    (parents : List Nat) (idx : Nat) (flags : Word) (hv : ValidD p4 m (.setParent parents idx flags))
    (hsucc : (C01HistoryDormant.exec k p4 m (.setParent parents idx flags)).1 = true) :
    NoHugeAbove a parents idx := by
  obtain ⟨hlen, hpi, hidx, hfl⟩ := hv
  have hsucc' : okExc (setParentFlags k (⟨m, [], []⟩ : St) p4 parents idx flags).1 = true := hsucc
  rw [setParentFlags_kind k (⟨m, [], []⟩ : St) p4 parents idx flags hinv (by omega) hpi] at hsucc'
  have hm := setParentFlags_mem (⟨m, [], []⟩ : St) p4 parents idx flags
  cases h : (setParentFlags ⟨false⟩ (⟨m, [], []⟩ : St) p4 parents idx flags).1 with
  | error e => rw [h] at hsucc'; cases hsucc'
  | ok u =>
    cases u
    rw [h] at hm
    obtain ⟨t, ht, hused, hnh, _⟩ := hm
    simp only at ht hused hnh
    have hne : m t idx ≠ 0#64 := by
      intro h0; rw [h0] at hused; simp [Pte.isUnused] at hused
    have hS : bitPS (m t idx) = false := by
      cases hpe : parents with
      | nil =>
        rw [hpe] at ht; simp [tblAt] at ht; subst ht
        exact hinv.p4nh idx hidx
      | cons a l => exact hnh (by rw [hpe]; simp)
    have hP : bitP (m t idx) = true := hinv.present_of_not_huge parents t idx hlen hpi ht hidx hne hS
    have hto : tableOf (m t idx) = some (tableAddr (m t idx)) := (tableOf_some_iff _ _).2 ⟨hP, hS, rfl⟩
    have hlink : tblAt m p4 (parents ++ [idx]) = some (tableAddr (m t idx)) := by
      rw [tblAt_append, ht]; simp [tblAt, hto]
    intro x hx hlen3 ⟨rest, hrest⟩
    obtain ⟨_, g, hg, hw, _, hleaf⟩ := hrel.slots x.page (C01HistoryRights.mem_abs hx)
    have hnone : tableOf (m g x.page.li) = none := by
      rcases hleaf with h3 | h3
      · exact absurd h3 hlen3
      · rw [hw]; exact h3
    have : tblAt m p4 (x.page.parents ++ [x.page.li]) = none := by
      rw [tblAt_append, hg]; simp [tblAt, hnone]
    rw [← hrest, tblAt_append, this] at hlink
    cases hlink

/-- **Update agreement with rights** (per call): for a call with the shape `ValidD` demands, outside the all-zero
leaf word (`OpND`), and — for `set_flags_pN_entry` — with no recorded huge page at or above the entry, the oracle's
update of the translated list is the translation of `absOkR`: FULL equality, `prw`/`pus` included. -/
theorem oracleOkR_eq (a : AbsR) (hok : ∀ x ∈ a, x.page.OK) (p4 : Word) (m : PMem) (op : MOp)
    (hv : ValidD p4 m op) (hnd : OpND op)
    (hno : ∀ parents idx flags, op = .setParent parents idx flags → NoHugeAbove a parents idx) :
    oracleOk (a.map toAbsMapR) op = (absOkR a op).map toAbsMapR := by
  cases op with
  | map parents li huge sz frame flags pflags allocs => exact oracleOkR_map a parents li huge sz frame flags pflags allocs hnd
  | unmap parents li huge sz =>
    obtain ⟨sh, hpi⟩ := hv
    exact oracleOkR_unmap a hok li sh hpi hnd
  | update parents li huge sz flags =>
    obtain ⟨sh, hpi, hli, _⟩ := hv
    exact oracleOkR_update a hok li flags sh hpi hli hnd
  | setParent parents idx flags =>
    exact oracleOkR_setParent a hok parents idx flags hv.1 (hno parents idx flags rfl)

/-- **Update agreement with rights, as the harness applies it** (`if !isOk then st.abs else absAfterOk …`): in a
state the records describe (`Inv`, `Rel`), for every valid call, with the call's own result. No side condition
on `set_flags_pN_entry` is left: if it succeeds, `noHugeAbove_of_ok` applies. -/
theorem oracleStepR_eq (k : Kind) (p4 : Word) (m : PMem) (a : AbsR) (hinv : Inv m p4) (hrel : Rel p4 m a.abs)
    (op : MOp) (hv : ValidD p4 m op) (hnd : OpND op) :
    oracleStep (a.map toAbsMapR) (C01HistoryDormant.exec k p4 m op).1 op =
      (absStepR a (C01HistoryDormant.exec k p4 m op).1 (.call op)).map toAbsMapR := by
  have hok : ∀ x ∈ a, x.page.OK := fun x hx => (hrel.slots x.page (C01HistoryRights.mem_abs hx)).1
  cases hr : (C01HistoryDormant.exec k p4 m op).1 with
  | false => simp [oracleStep, absStepR]
  | true =>
    simp only [oracleStep, absStepR, if_true]
    apply oracleOkR_eq a hok p4 m op hv hnd
    intro parents idx flags e
    subst e
    exact noHugeAbove_of_ok k p4 m a hinv hrel parents idx flags hv hr

/-! ### 3. Histories: the oracle's list is the translation of `expectedAbsR` -/

/-- Along every valid history the oracle's own fold (its update applied to the calls' results) IS the translation
of the specification's abstract state with rights. -/
theorem oracle_history_simR (k : Kind) (rIdx : Nat) (p4 : Word) (ops : List C01HistoryFull.HOp) :
    ∀ (m : PMem) (a : AbsR), Inv m p4 → Rel p4 m a.abs →
      C01HistoryFull.HistoryValid k rIdx p4 m ops → (∀ op ∈ ops, OpNDH op) →
      SimR (oracleAbs k rIdx p4 m (a.map toAbsMapR) ops) (expectedAbsR k rIdx p4 m a ops) := by
  induction ops with
  | nil => intro m a _ _ _ _; rfl
  | cons op rest ih =>
    intro m a hinv hrel ⟨hv, hrest⟩ hnd
    obtain ⟨hi', hr'⟩ := C01HistoryFull.step_ok k rIdx p4 m a.abs op hinv hrel hv
    rw [← absStepR_abs] at hr'
    have hstep : oracleStepH (a.map toAbsMapR) (C01HistoryFull.exec k rIdx p4 m op).1 op =
        (absStepR a (C01HistoryFull.exec k rIdx p4 m op).1 op).map toAbsMapR := by
      cases op with
      | call o => exact oracleStepR_eq k p4 m a hinv hrel o hv (hnd (.call o) (by simp))
      | cleanUp => rfl
      | cleanUpRange rs re => rfl
    have := ih _ _ hi' hr' hrest (fun o ho => hnd o (List.mem_cons_of_mem _ ho))
    unfold SimR at this ⊢
    simp only [oracleAbs, expectedAbsR]
    rw [hstep]
    exact this

/-! ### Lookup agreement with rights -/

private theorem present_bit' (huge : Bool) (fl : Word) :
    (leafFlagsOf huge fl &&& 1#64 != 0#64) = (fl &&& 1#64 == 1#64) := by
  unfold leafFlagsOf
  cases huge
  · simp only [Bool.false_eq_true, if_false]
    rw [Bool.eq_iff_iff]; simp only [bne_iff_ne, beq_iff_eq, ne_eq]
    unfold Word at *; constructor <;> intro h <;> bv_decide
  · simp only [if_true]
    rw [Bool.eq_iff_iff]; simp only [bne_iff_ne, beq_iff_eq, ne_eq]
    unfold Word at *; constructor <;> intro h <;> bv_decide

private theorem find?_congr'' {α : Type} {p q : α → Bool} :
    ∀ (l : List α), (∀ x ∈ l, p x = q x) → l.find? p = l.find? q := by
  intro l
  induction l with
  | nil => intro _; rfl
  | cons x rest ih =>
    intro h
    simp only [List.find?_cons, h x (by simp)]
    rw [ih (fun y hy => h y (List.mem_cons_of_mem _ hy))]

/-- **Lookup agreement with rights** (well-formed records, canonical address): the oracle's `absLookup` on the
translated list returns the translation — `prw`/`pus` included — of the first record whose page contains the
address, if its flags contain `PRESENT`. -/
theorem absLookup_toAbsMapR (a : AbsR) (hok : ∀ x ∈ a, x.page.OK) (va : Nat) (hc : canon va) :
    absLookup (a.map toAbsMapR) va =
      ((a.find? (fun x => x.page.covers va)).filter (fun x => x.page.flags &&& 1#64 == 1#64)).map toAbsMapR := by
  unfold absLookup
  rw [List.find?_map]
  have hcg : a.find? ((fun x : Driver.AbsMap => decide (x.start ≤ va) && decide (va < x.start + x.size)) ∘ toAbsMapR) =
      a.find? (fun x => x.page.covers va) := by
    apply find?_congr''
    intro x hx
    exact inRange_toAbsMap x.page (hok x hx) va hc
  rw [hcg]
  cases a.find? (fun x => x.page.covers va) with
  | none => rfl
  | some x =>
    have hb := present_bit' x.page.huge x.page.flags
    have hfl : (toAbsMapR x).flags = leafFlagsOf x.page.huge x.page.flags := rfl
    by_cases h : (x.page.flags &&& 1#64 == 1#64) = true
    · have hb' : ((toAbsMapR x).flags &&& 1#64 != 0#64) = true := by rw [hfl, ← h]; exact hb
      simp [Option.filter, h, hb']
    · have h' : (x.page.flags &&& 1#64 == 1#64) = false := by simpa using h
      have hb' : ((toAbsMapR x).flags &&& 1#64 != 0#64) = false := by rw [hfl, ← h']; exact hb
      simp [Option.filter, h', hb']

/-! ### The oracle's rights clause -/

/-- **The oracle's rights clause** at a probe address, verbatim from `handleMapper` (the clause commented "keep
including them for every page mapped earlier"; the oracle's `disabled` list is `[]` along the histories
considered here, so `if underDisabled disabled' va then none else absLookup abs' va` is `absLookup abs' va`). -/
def rightsClause (m : PMem) (p4 : Word) (abs : List Driver.AbsMap) (va : Nat) : Bool :=
  match walk m p4 va, absLookup abs va with
  | some x, some a => (!(a.prw && bitRW a.flags) || x.rw) && (!(a.pus && bitUS a.flags) || x.us)
  | _, _ => true

/-- with no switched-off parent entries the driver's expression is `rightsClause` -/
theorem rightsClause_is_driver (m : PMem) (p4 : Word) (abs : List Driver.AbsMap) (va : Nat) :
    rightsClause m p4 abs va =
      (match walk m p4 va, (if underDisabled [] va then none else absLookup abs va) with
       | some x, some a => (!(a.prw && bitRW a.flags) || x.rw) && (!(a.pus && bitUS a.flags) || x.us)
       | _, _ => true) := by
  have hd : underDisabled [] va = false := by simp [underDisabled]
  rw [hd]
  rfl

private theorem rights_leafFlagsOf (huge : Bool) (fl : Word) :
    bitRW (leafFlagsOf huge fl) = bitRW fl ∧ bitUS (leafFlagsOf huge fl) = bitUS fl := by
  unfold leafFlagsOf bitRW bitUS
  cases huge
  · simp
  · simp only [if_true]
    unfold Word at *
    refine ⟨?_, ?_⟩ <;> bv_decide

/-- In a state the records with rights describe (`Rel`) and whose parent entries carry the guaranteed rights
(`Granted`), the oracle's rights clause holds at every canonical address: what the oracle demands of the walk's
effective rights — `prw ∧ WRITABLE ∈ leaf flags → rw`, `pus ∧ USER ∈ leaf flags → us` for the entry its lookup
finds — is literally the lower bound `rights_of_granted` proves for that record. -/
theorem rightsClause_of_granted {p4 : Word} {m : PMem} {a : AbsR} (hrel : Rel p4 m a.abs) (hg : Granted p4 m a)
    (va : Nat) (hc : canon va) : rightsClause m p4 (a.map toAbsMapR) va = true := by
  have hok : ∀ x ∈ a, x.page.OK := fun x hx => (hrel.slots x.page (C01HistoryRights.mem_abs hx)).1
  unfold rightsClause
  rw [absLookup_toAbsMapR a hok va hc]
  cases hf : a.find? (fun x => x.page.covers va) with
  | none => cases walk m p4 va <;> rfl
  | some x =>
    have hx : x ∈ a := List.mem_of_find?_eq_some hf
    have hcov0 := List.find?_some hf
    have hcov : x.page.covers va = true := hcov0
    by_cases hp : x.page.flags &&& 1#64 = 1#64
    · obtain ⟨X, hX, _, _, _, _, xrw, xus⟩ := rights_of_granted hrel hg x hx hp va hcov
      have hp' : (x.page.flags &&& 1#64 == 1#64) = true := by simpa using hp
      rw [hX]
      simp only [Option.filter, hp', if_true, Option.map]
      obtain ⟨l1, l2⟩ := rights_leafFlagsOf x.page.huge x.page.flags
      have hfl : (toAbsMapR x).flags = leafFlagsOf x.page.huge x.page.flags := rfl
      have e1 : (toAbsMapR x).prw = x.prw := rfl
      have e2 : (toAbsMapR x).pus = x.pus := rfl
      rw [hfl, l1, l2, e1, e2]
      have h1 : (!(x.prw && bitRW x.page.flags) || X.rw) = true := by
        cases hq : x.prw <;> cases hb : bitRW x.page.flags <;> simp
        exact xrw hq hb
      have h2 : (!(x.pus && bitUS x.page.flags) || X.us) = true := by
        cases hq : x.pus <;> cases hb : bitUS x.page.flags <;> simp
        exact xus hq hb
      rw [h1, h2]; rfl
    · have hp' : (x.page.flags &&& 1#64 == 1#64) = false := by simpa using hp
      simp only [Option.filter, hp', Bool.false_eq_true, if_false, Option.map]
      cases walk m p4 va <;> rfl

/-- **The oracle's rights verdict is never a false alarm on states the model reaches.** From the empty level-4
table, after any valid history (language of `C01HistoryFull`: map / unmap / update_flags / set_flags_pN_entry of
every size and mapper kind, leaf flags with or without `PRESENT`, clean-up calls; no all-zero leaf word,
`OpNDH`), with the oracle's list computed by folding ITS OWN update (`oracleAbs`: `oracleOk` over the successful
calls) from `[]`:
* that list is the translation of the specification's abstract state with rights, `prw`/`pus` included;
* the rights clause `handleMapper` evaluates holds at every canonical address of the model's memory. -/
theorem oracle_rights_history (k : Kind) (rIdx : Nat) (p4 : Word) (m : PMem) (hzero : ∀ i, m p4 i = 0#64)
    (ops : List C01HistoryFull.HOp) (hv : C01HistoryFull.HistoryValid k rIdx p4 m ops)
    (hnd : ∀ op ∈ ops, OpNDH op) (va : Nat) (hc : canon va) :
    oracleAbs k rIdx p4 m [] ops = (expectedAbsR k rIdx p4 m [] ops).map toAbsMapR ∧
    rightsClause (C01HistoryFull.runHistory k rIdx p4 m ops) p4 (oracleAbs k rIdx p4 m [] ops) va = true := by
  have hinv := init_inv m p4 hzero
  have hrel : Rel p4 m (AbsR.abs []) := Rel.init p4 m hzero
  obtain ⟨_, hr, hg⟩ := history_granted k rIdx p4 ops m [] hinv hrel (fun x hx => by cases hx) hv
  have hs : oracleAbs k rIdx p4 m [] ops = (expectedAbsR k rIdx p4 m [] ops).map toAbsMapR :=
    oracle_history_simR k rIdx p4 ops m [] hinv hrel hv hnd
  refine ⟨hs, ?_⟩
  rw [hs]
  exact rightsClause_of_granted hr hg va hc

/-- Together with `OracleSpec.oracle_history`: both hardware verdicts of the oracle (mapping and rights) accept
the model's memory. -/
theorem oracle_both_history (k : Kind) (rIdx : Nat) (p4 : Word) (m : PMem) (hzero : ∀ i, m p4 i = 0#64)
    (ops : List C01HistoryFull.HOp) (hv : C01HistoryFull.HistoryValid k rIdx p4 m ops)
    (hnd : ∀ op ∈ ops, OpNDH op) (va : Nat) (hc : canon va) :
    walkMatchesAbs (C01HistoryFull.runHistory k rIdx p4 m ops) p4 (oracleAbs k rIdx p4 m [] ops) [] va = true ∧
    rightsClause (C01HistoryFull.runHistory k rIdx p4 m ops) p4 (oracleAbs k rIdx p4 m [] ops) va = true :=
  ⟨(oracle_history k rIdx p4 m hzero ops hv hnd va hc).2.2, (oracle_rights_history k rIdx p4 m hzero ops hv hnd va hc).2⟩

/-! ### 4. Non-vacuity: `C01HistoryRights.demoR` -/

theorem demoR_nd : ∀ op ∈ demoR, OpNDH op := by
  intro op hop
  simp only [demoR, List.mem_cons, List.not_mem_nil, or_false] at hop
  rcases hop with rfl | rfl | rfl | rfl
  · show leafWord false 0x5000#64 7#64 ≠ 0#64; decide
  · show leafWord false 0x6000#64 7#64 ≠ 0#64; decide
  · trivial
  · trivial

set_option maxRecDepth 100000 in
/-- the oracle's own list along `demoR` (start, size, frame, flags, prw, pus; most recent first): after the two
`map_to` calls the first page is guaranteed writable and user, the second writable only; the
`set_flags_p2_entry(PRESENT | WRITABLE)` call on their common level-2 entry removes the user guarantee -/
example :
    (oracleAbs ⟨false⟩ 0 0x1000#64 m0 [] (demoR.take 2)).map full =
      [(0x6000, 4096, 0x6000, 7#64, true, false), (0x5000, 4096, 0x5000, 7#64, true, true)] ∧
    (oracleAbs ⟨false⟩ 0 0x1000#64 m0 [] demoR).map full =
      [(0x6000, 4096, 0x6000, 7#64, true, false), (0x5000, 4096, 0x5000, 7#64, true, false)] := by
  refine ⟨?_, ?_⟩ <;> decide +kernel

/-- the same list obtained from the theorem and `demoR_abs` (any recursive index) -/
example : oracleAbs ⟨false⟩ 0 0x1000#64 m0 [] demoR =
    [toAbsMapR ⟨⟨[0, 0, 0], 6, false, 4096, 0x6000#64, 7#64⟩, true, false⟩,
     toAbsMapR ⟨⟨[0, 0, 0], 5, false, 4096, 0x5000#64, 7#64⟩, true, false⟩] := by
  rw [(oracle_rights_history ⟨false⟩ 0 0x1000#64 m0 (fun _ => rfl) demoR (demoR_valid _ _) demoR_nd 0 (by decide)).1,
    demoR_abs.2]
  rfl

/-- the oracle's rights clause accepts the model's memory after `demoR` at every canonical address, every mapper
kind and recursive index -/
example (k : Kind) (rIdx : Nat) (va : Nat) (hc : canon va) :
    rightsClause (C01HistoryFull.runHistory k rIdx 0x1000#64 m0 demoR) 0x1000#64
      (oracleAbs k rIdx 0x1000#64 m0 [] demoR) va = true :=
  (oracle_rights_history k rIdx 0x1000#64 m0 (fun _ => rfl) demoR (demoR_valid k rIdx) demoR_nd va hc).2

/-! ### Finding (R1): the two prefix tests differ on huge pages at or above the entry

The oracle compares `parents ++ [idx]` with `[i4, i3, i2].take n` of the page's START ADDRESS; for a huge page
these indices continue with the page's own slot index and zeros. `absOkR` compares with the page's PARENT path.
For a recorded 1 GiB page `[0]/1`:
* `set_flags_p3_entry` on the entry `[0]/1` (the page's own slot): oracle lowers, specification does not;
* `set_flags_p2_entry` on the entry `[0,1]/0` ("below" the page): oracle lowers, specification does not.
Both calls are `ValidD` (which does not look at the state), so the per-call equation needs `NoHugeAbove`. Neither
call can succeed when the page is recorded (`noHugeAbove_of_ok`): `set_flags_pN_entry` fails on a huge entry and
cannot descend through one — so no history reaches the difference, and the difference is on the safe side (the
oracle only ever LOWERS a lower bound). The other direction does not occur: whenever the specification lowers,
the oracle does (`prefixTest_cases`: the first alternative is an equation of the two tests). -/

example :
    let a : AbsR := [⟨⟨[0], 1, true, 2^30, 0x40000000#64, 7#64⟩, true, true⟩]
    let op1 : MOp := .setParent [0] 1 3#64
    let op2 : MOp := .setParent [0, 1] 0 3#64
    (oracleOk (a.map toAbsMapR) op1).map full = [(0x40000000, 2^30, 0x40000000, 0x87#64, true, false)] ∧
    ((absOkR a op1).map toAbsMapR).map full = [(0x40000000, 2^30, 0x40000000, 0x87#64, true, true)] ∧
    (oracleOk (a.map toAbsMapR) op2).map full = [(0x40000000, 2^30, 0x40000000, 0x87#64, true, false)] ∧
    ((absOkR a op2).map toAbsMapR).map full = [(0x40000000, 2^30, 0x40000000, 0x87#64, true, true)] ∧
    ¬ NoHugeAbove a [0] 1 ∧ ¬ NoHugeAbove a [0, 1] 0 := by
  refine ⟨by decide, by decide, by decide, by decide, ?_, ?_⟩
  · intro h; exact h _ (List.mem_singleton.2 rfl) (by decide) (List.prefix_refl _)
  · intro h; exact h _ (List.mem_singleton.2 rfl) (by decide) ⟨[0], rfl⟩

/-- both calls are valid in the sense of the history theorems (validity does not look at the state) -/
example (p4 : Word) (m : PMem) : ValidD p4 m (.setParent [0] 1 3#64) ∧ ValidD p4 m (.setParent [0, 1] 0 3#64) := by
  refine ⟨⟨by simp, ?_, by omega, by decide, by decide, by decide⟩, ⟨by simp, ?_, by omega, by decide, by decide, by decide⟩⟩
  · intro j h; simp at h; omega
  · intro j h; simp at h; omega

end X86.OracleSpecRights
