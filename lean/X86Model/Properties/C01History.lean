/-
C01 — "the history of successful calls dictates every translation": for every finite history of
valid mapper calls starting from an empty level-4 table, (1) the state invariant holds, and
(2) the hardware walk of the raw table memory translates every virtual address to exactly what
the abstract fold over the call results says, and to "not mapped" otherwise.
(MappedPageTable / OffsetPageTable: mapper kind `⟨false⟩`.)
-/
import X86Model.Properties.C01Map

namespace X86.C01
open X86 X86.Spec

/-- One mapper call. The allocator's answers for the call are part of the operation. -/
inductive MOp where
  | map (parents : List Nat) (li : Nat) (huge : Bool) (sz : Nat) (frame flags pflags : Word)
      (allocs : List (Option Word))
  | unmap (parents : List Nat) (li : Nat) (huge : Bool) (sz : Nat)
  | update (parents : List Nat) (li : Nat) (huge : Bool) (sz : Nat) (flags : Word)
  | setParent (parents : List Nat) (idx : Nat) (flags : Word)

def okMap : R (Except MapErr Unit) → Bool
  | .ok (.ok ()) => true
  | _ => false

def okExc {ε α : Type} : Except ε α → Bool
  | .ok _ => true
  | .error _ => false

/-- Execute one call on memory `m`: did it succeed, and the memory afterwards. -/
def MOp.exec (p4 : Word) (m : PMem) : MOp → Bool × PMem
  | .map parents li huge _ frame flags pflags allocs =>
    let r := mapTo ⟨false⟩ (⟨m, allocs, []⟩ : St) p4 parents li huge frame flags pflags
    (okMap r.1, r.2.mem)
  | .unmap parents li huge sz =>
    let r := X86.unmap (⟨m, [], []⟩ : St) p4 parents li huge sz
    (okExc r.1, r.2.mem)
  | .update parents li huge _ flags =>
    let r := updateFlags ⟨false⟩ (⟨m, [], []⟩ : St) p4 parents li huge flags
    (okExc r.1, r.2.mem)
  | .setParent parents idx flags =>
    let r := setParentFlags ⟨false⟩ (⟨m, [], []⟩ : St) p4 parents idx flags
    (okExc r.1, r.2.mem)

/-- The call's arguments are within the property's quantifier (and the allocator honours its
contract in the state the call is made in). -/
def MOp.Valid (p4 : Word) (m : PMem) : MOp → Prop
  | .map parents li huge sz frame flags pflags allocs =>
    PageShape parents huge sz ∧ IdxOK parents ∧ li < 512 ∧ ParentFlagsOK pflags ∧
    (if huge then LeafFlagsHuge flags else LeafFlags4K flags) ∧ FrameOK sz frame ∧ AllocsOK m p4 allocs
  | .unmap parents _ huge sz => PageShape parents huge sz ∧ IdxOK parents
  | .update parents li huge sz flags =>
    PageShape parents huge sz ∧ IdxOK parents ∧ li < 512 ∧
    (if huge then LeafFlagsHuge flags else LeafFlags4K flags)
  | .setParent parents idx flags => parents.length ≤ 2 ∧ IdxOK parents ∧ idx < 512 ∧ ParentFlags flags

/-- What the MMU should see for each address: the mapping part of a translation. -/
abbrev AbsMap := Nat → Option (Nat × Nat × Nat × Word)

open Classical in
/-- The abstract effect of a successful call (a failed call has none). -/
noncomputable def MOp.absOk (a : AbsMap) : MOp → AbsMap
  | .map parents li huge sz frame flags _ _ => fun va =>
    if parents ++ [li] <+: vaPath va then some (frame.toNat, sz, va % sz, leafFlagsOf huge flags) else a va
  | .unmap parents li _ _ => fun va =>
    if parents ++ [li] <+: vaPath va then none else a va
  | .update parents li huge _ flags => fun va =>
    if parents ++ [li] <+: vaPath va then
      (a va).map (fun c => (c.1, c.2.1, c.2.2.1, leafFlagsOf huge flags))
    else a va
  | .setParent _ _ _ => a

/-- The abstract effect of a call, as a function of whether it succeeded. -/
noncomputable def MOp.absStep (a : AbsMap) (ok : Bool) (op : MOp) : AbsMap :=
  if ok then op.absOk a else a

private theorem step_map_aux (p4 : Word) (m : PMem) (a : AbsMap)
    (parents : List Nat) (li : Nat) (huge : Bool) (sz : Nat) (frame flags pflags : Word) (allocs : List (Option Word))
    (habs : ∀ va, (walk m p4 va).map Xlat.core = a va)
    (r : R (Except MapErr Unit) × St)
    (h : match r with
      | (.panic, _) => False
      | (.ok (.error _), s') =>
          Inv s'.mem p4 ∧ ∀ va, (walk s'.mem p4 va).map Xlat.core = (walk m p4 va).map Xlat.core
      | (.ok (.ok ()), s') =>
          Inv s'.mem p4 ∧
          (∀ va, parents ++ [li] <+: vaPath va →
              walk m p4 va = none ∧
              ∃ x, walk s'.mem p4 va = some x ∧ x.base = frame.toNat ∧ x.size = sz ∧ x.off = va % sz ∧
                   x.flags = leafFlagsOf huge flags) ∧
          (∀ va, ¬ parents ++ [li] <+: vaPath va →
              (walk s'.mem p4 va).map Xlat.core = (walk m p4 va).map Xlat.core)) :
    Inv r.2.mem p4 ∧
    ∀ va, (walk r.2.mem p4 va).map Xlat.core =
      (MOp.map parents li huge sz frame flags pflags allocs).absStep a (okMap r.1) va := by
  obtain ⟨res, s'⟩ := r
  cases res with
  | panic => exact absurd h id
  | ok res' =>
    cases res' with
    | error e =>
      refine ⟨h.1, fun va => ?_⟩
      simp only [MOp.absStep, okMap, Bool.false_eq_true, if_false]
      rw [h.2 va]; exact habs va
    | ok u =>
      cases u
      obtain ⟨hi', hon, hoff⟩ := h
      refine ⟨hi', fun va => ?_⟩
      simp only [MOp.absStep, okMap, ↓reduceIte, MOp.absOk]
      by_cases hva : parents ++ [li] <+: vaPath va
      · obtain ⟨_, x, hx, e1, e2, e3, e4⟩ := hon va hva
        rw [if_pos hva, hx]; simp [Xlat.core, e1, e2, e3, e4]
      · rw [if_neg hva, hoff va hva]; exact habs va

private theorem step_unmap_aux (p4 : Word) (m : PMem) (a : AbsMap)
    (parents : List Nat) (li : Nat) (huge : Bool) (sz : Nat)
    (hinv : Inv m p4) (habs : ∀ va, (walk m p4 va).map Xlat.core = a va)
    (r : Except OpErr Word × St)
    (hok : ∀ fr, r.1 = .ok fr → Inv r.2.mem p4 ∧
        (∀ va, parents ++ [li] <+: vaPath va → walk r.2.mem p4 va = none ∧
            ∃ x, walk m p4 va = some x ∧ x.base = fr.toNat ∧ x.size = sz) ∧
        (∀ va, ¬ parents ++ [li] <+: vaPath va → walk r.2.mem p4 va = walk m p4 va))
    (herr : ∀ e, r.1 = .error e → r.2.mem = m) :
    Inv r.2.mem p4 ∧
    ∀ va, (walk r.2.mem p4 va).map Xlat.core = (MOp.unmap parents li huge sz).absStep a (okExc r.1) va := by
  obtain ⟨res, s'⟩ := r
  cases res with
  | error e =>
    have := herr e rfl
    simp only at this
    simp only [MOp.absStep, okExc, Bool.false_eq_true, if_false, this]
    exact ⟨hinv, habs⟩
  | ok fr =>
    obtain ⟨hi', hon, hoff⟩ := hok fr rfl
    refine ⟨hi', fun va => ?_⟩
    simp only [MOp.absStep, okExc, ↓reduceIte, MOp.absOk]
    by_cases hva : parents ++ [li] <+: vaPath va
    · rw [if_pos hva, (hon va hva).1]; rfl
    · rw [if_neg hva, hoff va hva]; exact habs va

private theorem step_update_aux (p4 : Word) (m : PMem) (a : AbsMap)
    (parents : List Nat) (li : Nat) (huge : Bool) (sz : Nat) (flags : Word)
    (hinv : Inv m p4) (habs : ∀ va, (walk m p4 va).map Xlat.core = a va)
    (r : Except OpErr Unit × St)
    (hok : r.1 = .ok () → Inv r.2.mem p4 ∧
        (∀ va, parents ++ [li] <+: vaPath va →
            ∃ x x', walk m p4 va = some x ∧ walk r.2.mem p4 va = some x' ∧
              x'.base = x.base ∧ x'.size = x.size ∧ x'.off = x.off ∧ x.size = sz ∧
              x'.flags = leafFlagsOf huge flags) ∧
        (∀ va, ¬ parents ++ [li] <+: vaPath va → walk r.2.mem p4 va = walk m p4 va))
    (herr : ∀ e, r.1 = .error e → r.2.mem = m) :
    Inv r.2.mem p4 ∧
    ∀ va, (walk r.2.mem p4 va).map Xlat.core = (MOp.update parents li huge sz flags).absStep a (okExc r.1) va := by
  obtain ⟨res, s'⟩ := r
  cases res with
  | error e =>
    have := herr e rfl
    simp only at this
    simp only [MOp.absStep, okExc, Bool.false_eq_true, if_false, this]
    exact ⟨hinv, habs⟩
  | ok u =>
    cases u
    obtain ⟨hi', hon, hoff⟩ := hok rfl
    refine ⟨hi', fun va => ?_⟩
    simp only [MOp.absStep, okExc, ↓reduceIte, MOp.absOk]
    by_cases hva : parents ++ [li] <+: vaPath va
    · obtain ⟨x, x', hx, hx', e1, e2, e3, _, e5⟩ := hon va hva
      rw [if_pos hva, hx', ← habs va, hx]
      simp [Xlat.core, e1, e2, e3, e5]
    · rw [if_neg hva, hoff va hva]; exact habs va

private theorem step_setParent_aux (p4 : Word) (m : PMem) (a : AbsMap)
    (parents : List Nat) (idx : Nat) (flags : Word)
    (hinv : Inv m p4) (habs : ∀ va, (walk m p4 va).map Xlat.core = a va)
    (r : Except OpErr Unit × St)
    (hok : r.1 = .ok () → Inv r.2.mem p4 ∧
        ∀ va, (walk r.2.mem p4 va).map Xlat.core = (walk m p4 va).map Xlat.core)
    (herr : ∀ e, r.1 = .error e → r.2.mem = m) :
    Inv r.2.mem p4 ∧
    ∀ va, (walk r.2.mem p4 va).map Xlat.core = (MOp.setParent parents idx flags).absStep a (okExc r.1) va := by
  obtain ⟨res, s'⟩ := r
  cases res with
  | error e =>
    have := herr e rfl
    simp only at this
    simp only [MOp.absStep, okExc, Bool.false_eq_true, if_false, this]
    exact ⟨hinv, habs⟩
  | ok u =>
    cases u
    obtain ⟨hi', hcore⟩ := hok rfl
    refine ⟨hi', fun va => ?_⟩
    simp only [MOp.absStep, okExc, ↓reduceIte, MOp.absOk]
    exact (hcore va).trans (habs va)

/-- The calls of a history (leaf flags with `PRESENT`) keep the strict form of the entry invariant:
every non-zero entry of every table is present. (The state invariant `Inv` itself also admits pages
mapped without `PRESENT`, see `Properties/C01Dormant.lean`; the abstract map of this file describes what
the MMU sees, so its calls are the ones whose leaf flags contain `PRESENT`.) -/
theorem step_strict (p4 : Word) (m : PMem) (op : MOp)
    (hinv : Inv m p4) (hst : AllPresent m p4) (hv : op.Valid p4 m) : AllPresent (op.exec p4 m).2 p4 := by
  cases op with
  | map parents li huge sz frame flags pflags allocs =>
    obtain ⟨sh, hpi, hli, hpf, hfl, hfr, hal⟩ := hv
    have hfull := map_to_full ⟨false⟩ (⟨m, allocs, []⟩ : St) p4 parents li huge sz frame flags pflags
      sh hinv hpi hpf (leafBits_of_leafFlags hfl) hfr hal
    show AllPresent (mapTo ⟨false⟩ (⟨m, allocs, []⟩ : St) p4 parents li huge frame flags pflags).2.mem p4
    cases hm : mapTo ⟨false⟩ (⟨m, allocs, []⟩ : St) p4 parents li huge frame flags pflags with
    | mk res s' =>
      rw [hm] at hfull
      cases res with
      | panic => exact hfull.elim
      | ok r =>
        cases r with
        | error e => exact hfull.strict hst
        | ok u => cases u; exact hfull.strict (present_of_leafFlags hfl) hst
  | unmap parents li huge sz =>
    obtain ⟨sh, hpi⟩ := hv
    exact unmap_strict (⟨m, [], []⟩ : St) p4 parents li huge sz sh hinv hpi hst
  | update parents li huge sz flags =>
    obtain ⟨sh, hpi, hli, hfl⟩ := hv
    exact update_flags_strict (⟨m, [], []⟩ : St) p4 parents li huge sz flags sh hinv hpi hfl hst
  | setParent parents idx flags =>
    obtain ⟨hlen, hpi, hidx, hfl⟩ := hv
    show AllPresent (setParentFlags ⟨false⟩ (⟨m, [], []⟩ : St) p4 parents idx flags).2.mem p4
    cases h : (setParentFlags ⟨false⟩ (⟨m, [], []⟩ : St) p4 parents idx flags).1 with
    | error e => rw [set_parent_flags_err _ p4 parents idx flags e h]; exact hst
    | ok u =>
      cases u
      exact (set_parent_flags_full (⟨m, [], []⟩ : St) p4 parents idx flags hlen hinv hpi hidx hfl h).2.2 hst

/-- One step: from a state satisfying the invariant (in its strict form: every non-zero entry is
present — what histories of calls with `PRESENT` leaf flags maintain, `step_strict`) whose walk
matches the abstract map, a valid call leads to such a state again, with the abstract map updated by
the call's result. -/
theorem step_ok (p4 : Word) (m : PMem) (a : AbsMap) (op : MOp)
    (hinv : Inv m p4) (hst : AllPresent m p4)
    (habs : ∀ va, (walk m p4 va).map Xlat.core = a va) (hv : op.Valid p4 m) :
    Inv (op.exec p4 m).2 p4 ∧
    ∀ va, (walk (op.exec p4 m).2 p4 va).map Xlat.core = op.absStep a (op.exec p4 m).1 va := by
  cases op with
  | map parents li huge sz frame flags pflags allocs =>
    obtain ⟨sh, hpi, hli, hpf, hfl, hfr, hal⟩ := hv
    exact step_map_aux p4 m a parents li huge sz frame flags pflags allocs habs _
      (map_to_spec ⟨false⟩ (⟨m, allocs, []⟩ : St) p4 parents li huge sz frame flags pflags
        sh hinv hpi hli hpf hfl hfr hal)
  | unmap parents li huge sz =>
    obtain ⟨sh, hpi⟩ := hv
    exact step_unmap_aux p4 m a parents li huge sz hinv habs _
      (unmap_ok (⟨m, [], []⟩ : St) p4 parents li huge sz sh hinv hpi)
      (unmap_err (⟨m, [], []⟩ : St) p4 parents li huge sz)
  | update parents li huge sz flags =>
    obtain ⟨sh, hpi, hli, hfl⟩ := hv
    exact step_update_aux p4 m a parents li huge sz flags hinv habs _
      (update_flags_ok (⟨m, [], []⟩ : St) p4 parents li huge sz flags sh hinv hpi hli hfl
        (fun t ht h0 => hst.present parents t li sh.len_le.2 hpi ht hli h0))
      (update_flags_err (⟨m, [], []⟩ : St) p4 parents li huge flags)
  | setParent parents idx flags =>
    obtain ⟨hlen, hpi, hidx, hfl⟩ := hv
    exact step_setParent_aux p4 m a parents idx flags hinv habs _
      (set_parent_flags_ok (⟨m, [], []⟩ : St) p4 parents idx flags hlen hinv hpi hidx hfl)
      (set_parent_flags_err (⟨m, [], []⟩ : St) p4 parents idx flags)

/-- Run a history; each call must be valid in the state it is made in. -/
def runHistory (p4 : Word) : PMem → List MOp → PMem
  | m, [] => m
  | m, op :: rest => runHistory p4 (op.exec p4 m).2 rest

def HistoryValid (p4 : Word) : PMem → List MOp → Prop
  | _, [] => True
  | m, op :: rest => op.Valid p4 m ∧ HistoryValid p4 (op.exec p4 m).2 rest

/-- The abstract map a history dictates (fold of `absStep` over the calls' results). -/
noncomputable def expected (p4 : Word) : PMem → AbsMap → List MOp → AbsMap
  | _, a, [] => a
  | m, a, op :: rest => expected p4 (op.exec p4 m).2 (op.absStep a (op.exec p4 m).1) rest

/-- **History theorem** (no bound on the length of the history): starting from an empty level-4
table, after any valid history the invariant holds and the hardware walk of the raw memory maps
every virtual address exactly as the history of successful calls dictates. -/
theorem history_dictates (p4 : Word) (ops : List MOp) :
    ∀ (m : PMem) (a : AbsMap), Inv m p4 → AllPresent m p4 → (∀ va, (walk m p4 va).map Xlat.core = a va) →
      HistoryValid p4 m ops →
      Inv (runHistory p4 m ops) p4 ∧ AllPresent (runHistory p4 m ops) p4 ∧
      ∀ va, (walk (runHistory p4 m ops) p4 va).map Xlat.core = expected p4 m a ops va := by
  induction ops with
  | nil => intro m a hinv hst habs _; exact ⟨hinv, hst, habs⟩
  | cons op rest ih =>
    intro m a hinv hst habs ⟨hv, hrest⟩
    obtain ⟨hi', ha'⟩ := step_ok p4 m a op hinv hst habs hv
    exact ih _ _ hi' (step_strict p4 m op hinv hst hv) ha' hrest

/-- …in particular from the empty table, where nothing is mapped. -/
theorem history_from_empty (p4 : Word) (m : PMem) (hzero : ∀ i, m p4 i = 0#64) (ops : List MOp)
    (hv : HistoryValid p4 m ops) :
    Inv (runHistory p4 m ops) p4 ∧
    ∀ va, (walk (runHistory p4 m ops) p4 va).map Xlat.core = expected p4 m (fun _ => none) ops va := by
  suffices h : Inv (runHistory p4 m ops) p4 ∧ AllPresent (runHistory p4 m ops) p4 ∧
      ∀ va, (walk (runHistory p4 m ops) p4 va).map Xlat.core = expected p4 m (fun _ => none) ops va from
    ⟨h.1, h.2.2⟩
  apply history_dictates p4 ops m (fun _ => none) (init_inv m p4 hzero) (AllPresent_init m p4 hzero) _ hv
  intro va
  have : walk m p4 va = none := by
    unfold walk; simp [hzero, bitP]
  rw [this]; rfl

end X86.C01
