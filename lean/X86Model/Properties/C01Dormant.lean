/-
C01 (dormant pages) — pages mapped WITHOUT the `PRESENT` flag (reserved / swapped-out pages).

The real API allows `map_to(page, frame, flags)` with `flags ∌ PRESENT`: the slot then holds the
non-zero, non-present word `frame | flags` (`| HUGE_PAGE` for 2 MiB / 1 GiB pages). The state invariant
`Inv` (`Proofs/MapperWF.lean`) admits such *leaf* entries (`LeafOrPresent`); this file says what the
mapper operations do with them:

a. `map_dormant` — `map_to` with leaf flags lacking `PRESENT` (any mapper kind, any page size, any
   allocator behaviour) never panics, keeps the invariant, and changes no translation of the hardware
   walk: the page itself stays "not mapped"; `map_dormant_succeeds` — it succeeds when the page's tables
   exist and the slot is unused; it reports `PageAlreadyMapped` only for a slot in use.
b. afterwards the slot holds the raw word `frame | flags (| HUGE_PAGE)` and `translate_page` (any mapper
   kind) reports the frame (`translate_page_dormant`, `map_dormant_translate_page`); `unmap` reports
   `PageNotMapped` and changes nothing (`unmap_dormant`).
c. `update_flags_revives` — `update_flags` with flags containing `PRESENT` on such a page succeeds and
   makes the hardware walk translate the page to that frame.
d. `clean_up_keeps_dormant_page` — `clean_up` / `clean_up_addr_range` (any range, both mapper kinds) does
   not touch the entry and does not free (or unlink) the table that holds it.
-/
import X86Model.Proofs.Dormant
import X86Model.Properties.C01Map
import X86Model.Properties.C10

namespace X86.C01Dormant
open X86 X86.Spec X86.C01

/-- The raw word in the slot of a 4 KiB page. -/
theorem leafWord_4k (frame flags : Word) : leafWord false frame flags = frame ||| flags := rfl
/-- The raw word in the slot of a huge page. -/
theorem leafWord_huge (frame flags : Word) : leafWord true frame flags = frame ||| (flags ||| 0x80#64) := rfl

/-- A non-present word is not a table link. -/
theorem tableOf_of_not_present (e : Word) (h : Pte.present e = false) : tableOf e = none := by
  unfold tableOf; simp [h]

/-! ### a. `map_to` without `PRESENT` -/

/-- **`map_to` with leaf flags that lack `PRESENT`** (any mapper kind, any page size — 4 KiB, 2 MiB,
1 GiB —, any parent flags, any allocator behaviour), from a state satisfying the invariant:
* it never panics;
* on error the invariant holds, no address changes its mapping, and `PageAlreadyMapped` is reported only
  if the slot holds a non-zero entry;
* on success the invariant holds, the hardware walk of EVERY address finds the same mapping as before —
  in particular every address of the page itself is still "not mapped" —, and the page's slot holds the
  non-present raw word `frame | flags` (`| HUGE_PAGE` for huge pages). -/
theorem map_dormant (k : Kind) (s : St) (p4 : Word) (parents : List Nat) (li : Nat) (huge : Bool) (sz : Nat)
    (frame flags pflags : Word)
    (sh : PageShape parents huge sz) (hinv : Inv s.mem p4) (hpi : IdxOK parents)
    (hpf : ParentFlagsOK pflags) (hfl : if huge then LeafBitsHuge flags else LeafBits4K flags)
    (hnp : flags &&& 1#64 = 0#64)
    (hfr : FrameOK sz frame) (hal : AllocsOK s.mem p4 s.allocs) :
    match mapTo k s p4 parents li huge frame flags pflags with
    | (.panic, _) => False
    | (.ok (.error e), s') =>
        Inv s'.mem p4 ∧
        (∀ va, (walk s'.mem p4 va).map Xlat.core = (walk s.mem p4 va).map Xlat.core) ∧
        (e = .alreadyMapped → ∃ t, tblAt s'.mem p4 parents = some t ∧ s'.mem t li ≠ 0#64)
    | (.ok (.ok ()), s') =>
        Inv s'.mem p4 ∧
        (∀ va, (walk s'.mem p4 va).map Xlat.core = (walk s.mem p4 va).map Xlat.core) ∧
        (∀ va, parents ++ [li] <+: vaPath va → walk s'.mem p4 va = none ∧ walk s.mem p4 va = none) ∧
        ∃ t, tblAt s'.mem p4 parents = some t ∧ s'.mem t li = leafWord huge frame flags ∧
          Pte.present (s'.mem t li) = false := by
  have hfull := map_to_full k s p4 parents li huge sz frame flags pflags sh hinv hpi hpf hfl hfr hal
  obtain ⟨_, _, w3, _⟩ := leafWord_facts sh frame flags hfl hfr
  cases hm : mapTo k s p4 parents li huge frame flags pflags with
  | mk res s' =>
    rw [hm] at hfull
    cases res with
    | panic => exact hfull
    | ok r =>
      cases r with
      | error e => exact ⟨hfull.inv, hfull.core, hfull.used⟩
      | ok u =>
        cases u
        obtain ⟨t, ht, hslot⟩ := hfull.slot
        refine ⟨hfull.inv, ?_, ?_, t, ht, hslot, ?_⟩
        · intro va
          by_cases hva : parents ++ [li] <+: vaPath va
          · rw [hfull.dormant hnp va hva, hfull.before va hva]
          · exact hfull.other va hva
        · intro va hva; exact ⟨hfull.dormant hnp va hva, hfull.before va hva⟩
        · rw [hslot, present_eq_bitP, w3]; exact bitP_of_not_present flags hnp

/-- **…and it succeeds when the slot is unused**: if the page's parent tables exist and its slot is
zero, `map_to` returns `Ok` (no allocation is needed; whatever the leaf flags are). -/
theorem map_dormant_succeeds (k : Kind) (s : St) (p4 : Word) (parents : List Nat) (li : Nat) (huge : Bool) (sz : Nat)
    (frame flags pflags : Word)
    (sh : PageShape parents huge sz) (hinv : Inv s.mem p4) (hpi : IdxOK parents)
    (hpf : ParentFlagsOK pflags) (hfl : if huge then LeafBitsHuge flags else LeafBits4K flags)
    (hfr : FrameOK sz frame)
    (t : Word) (ht : tblAt s.mem p4 parents = some t) (h0 : s.mem t li = 0#64) :
    (mapTo k s p4 parents li huge frame flags pflags).1 = .ok (.ok ()) := by
  obtain ⟨_, hl3⟩ := sh.len_le
  obtain ⟨_, w2, _⟩ := leafWord_facts sh frame flags hfl hfr
  obtain ⟨seg, _, _, _, hres⟩ := createPath_exists k pflags p4 hpf parents [] p4 t s hinv rfl
    (by simpa using ht) (by simpa using hl3) (by simpa using hpi)
  have hmem := createPath_exists_mem k pflags p4 hpf parents [] p4 t s hinv rfl
    (by simpa using ht) (by simpa using hl3) (by simpa using hpi) t li
  unfold mapTo
  cases hc : createPath k pflags s p4 parents with
  | mk res s1 =>
    rw [hc] at hres hmem
    simp only at hres hmem
    subst hres
    -- the descent did not touch the slot: its table is not at a strict prefix of the page's path
    have hslot : s1.mem t li = 0#64 := by
      rw [← h0]
      apply Classical.byContradiction
      intro hne
      obtain ⟨q, hq, hq3, hqi, hg⟩ := hmem hne
      have : q = parents := hinv.wf q parents t hq3 hl3 hqi hpi hg ht
      rw [this] at hq; simp at hq
    simp [hslot, Pte.isUnused, w2]

/-! #### Non-vacuity: mapping a 4 KiB page `WRITABLE` but not `PRESENT` into the empty hierarchy -/

/-- the state after `map_to(page [0,0,0]/5, frame 0x5000, WRITABLE)` on the empty hierarchy -/
def stD : St := (mapTo ⟨false⟩ C09.demo3 0x1000#64 [0, 0, 0] 5 false 0x5000#64 2#64 3#64).2

private theorem demo_hyps :
    PageShape [0, 0, 0] false 4096 ∧ Inv C09.demo3.mem 0x1000#64 ∧ IdxOK [0, 0, 0] ∧ ParentFlagsOK 3#64 ∧
    (if false = true then LeafBitsHuge 2#64 else LeafBits4K 2#64) ∧ (2#64 : Word) &&& 1#64 = 0#64 ∧
    FrameOK 4096 0x5000#64 ∧ AllocsOK C09.demo3.mem 0x1000#64 C09.demo3.allocs := by
  refine ⟨.s4k 0 0 0, init_inv _ _ (fun _ => rfl), by intro j h; simp at h; omega, ⟨by decide, by decide⟩,
    ?_, by decide, ?_, C09.demo3_allocsOK⟩
  · simp only [Bool.false_eq_true, if_false]; unfold LeafBits4K; decide
  · unfold FrameOK; simp only [if_true]; decide

/-- the hypotheses of `map_dormant` are satisfiable, the call succeeds, and the MMU does not see the page -/
example :
    (match (mapTo ⟨false⟩ C09.demo3 0x1000#64 [0, 0, 0] 5 false 0x5000#64 2#64 3#64).1 with
      | .ok (.ok ()) => true | _ => false) = true ∧
    walk stD.mem 0x1000#64 0x5000 = none ∧ stD.mem 0x4000#64 5 = 0x5002#64 := by
  set_option maxRecDepth 100000 in decide +kernel

private theorem stD_eq : mapTo ⟨false⟩ C09.demo3 0x1000#64 [0, 0, 0] 5 false 0x5000#64 2#64 3#64 = (.ok (.ok ()), stD) := by
  have h1 : (match (mapTo ⟨false⟩ C09.demo3 0x1000#64 [0, 0, 0] 5 false 0x5000#64 2#64 3#64).1 with
      | .ok (.ok ()) => true | _ => false) = true := by
    set_option maxRecDepth 100000 in decide +kernel
  cases hmt : mapTo ⟨false⟩ C09.demo3 0x1000#64 [0, 0, 0] 5 false 0x5000#64 2#64 3#64 with
  | mk res s' =>
    have hs' : s' = stD := by unfold stD; rw [hmt]
    rw [hmt] at h1
    cases res with
    | panic => simp at h1
    | ok e => cases e with
      | error _ => simp at h1
      | ok u => cases u; rw [hs']

set_option maxRecDepth 100000 in
/-- what `map_dormant` yields for it: the invariant, and a slot with a non-zero non-present word -/
theorem stD_facts : Inv stD.mem 0x1000#64 ∧
    ∃ t, tblAt stD.mem 0x1000#64 [0, 0, 0] = some t ∧ stD.mem t 5 = leafWord false 0x5000#64 2#64 ∧
      Pte.present (stD.mem t 5) = false := by
  obtain ⟨sh, hinv, hpi, hpf, hfl, hnp, hfr, hal⟩ := demo_hyps
  have := map_dormant ⟨false⟩ C09.demo3 0x1000#64 [0, 0, 0] 5 false 4096 0x5000#64 2#64 3#64 sh hinv hpi hpf hfl hnp hfr hal
  rw [stD_eq] at this
  exact ⟨this.1, this.2.2.2⟩

/-- the hypotheses of `map_dormant_succeeds` are satisfiable: mapping the neighbouring page 6 — its
tables exist now, its slot is unused -/
example : ∃ t, tblAt stD.mem 0x1000#64 [0, 0, 0] = some t ∧ stD.mem t 6 = 0#64 ∧
    (match (mapTo ⟨false⟩ stD 0x1000#64 [0, 0, 0] 6 false 0x6000#64 2#64 3#64).1 with
      | .ok (.ok ()) => true | _ => false) = true := by
  refine ⟨0x4000#64, ?_, ?_, ?_⟩ <;> (set_option maxRecDepth 100000 in decide +kernel)

/-! #### Non-vacuity for the huge sizes: a 2 MiB and a 1 GiB page mapped `WRITABLE` but not `PRESENT` -/

/-- the hypotheses of `map_dormant` for a 2 MiB page (`[0, 0]`/5, frame `0x40000000`) and a 1 GiB page
(`[0]`/5, frame `0x40000000`) on the empty hierarchy -/
example :
    (PageShape [0, 0] true (2^21) ∧ IdxOK [0, 0] ∧ (if true = true then LeafBitsHuge 2#64 else LeafBits4K 2#64) ∧
      FrameOK (2^21) 0x40000000#64) ∧
    (PageShape [0] true (2^30) ∧ IdxOK [0] ∧ FrameOK (2^30) 0x40000000#64) ∧
    Inv C09.demo3.mem 0x1000#64 ∧ ParentFlagsOK 3#64 ∧ (2#64 : Word) &&& 1#64 = 0#64 ∧
    AllocsOK C09.demo3.mem 0x1000#64 C09.demo3.allocs := by
  refine ⟨⟨.s2m 0 0, by intro j h; simp at h; omega, ?_, ?_⟩, ⟨.s1g 0, by intro j h; simp at h; omega, ?_⟩,
    init_inv _ _ (fun _ => rfl), ⟨by decide, by decide⟩, by decide, C09.demo3_allocsOK⟩
  · simp only [if_true]; unfold LeafBitsHuge; decide
  · unfold FrameOK; decide
  · unfold FrameOK; decide

/-- both calls succeed; the slots hold `frame | WRITABLE | HUGE_PAGE = 0x40000082`; the MMU sees nothing;
`translate_page` reports the frame -/
example :
    let r2 := mapTo ⟨false⟩ C09.demo3 0x1000#64 [0, 0] 5 true 0x40000000#64 2#64 3#64
    let r1 := mapTo ⟨false⟩ C09.demo3 0x1000#64 [0] 5 true 0x40000000#64 2#64 3#64
    (match r2.1 with | .ok (.ok ()) => true | _ => false) = true ∧
    (match r1.1 with | .ok (.ok ()) => true | _ => false) = true ∧
    r2.2.mem 0x3000#64 5 = 0x40000082#64 ∧ r1.2.mem 0x2000#64 5 = 0x40000082#64 ∧
    walk r2.2.mem 0x1000#64 0xa00000 = none ∧ walk r1.2.mem 0x1000#64 0x140000000 = none ∧
    (match (translatePage ⟨false⟩ r2.2 0x1000#64 [0, 0] 5 true (2^21)).1 with
      | .ok f => f == 0x40000000#64 | _ => false) = true ∧
    (match (translatePage ⟨true⟩ r1.2 0x1000#64 [0] 5 true (2^30)).1 with
      | .ok f => f == 0x40000000#64 | _ => false) = true := by
  set_option maxRecDepth 100000 in decide +kernel

/-! ### b. the software view: `translate_page` reports the frame; `unmap` reports `PageNotMapped` -/

/-- **`translate_page`** (any mapper kind) on a page whose slot holds the raw word `frame | flags
(| HUGE_PAGE)` — present or not — returns the frame. (For a 4 KiB page the word must be non-zero:
`frame = 0` with empty flags is the unused entry.) -/
theorem translate_page_dormant (k : Kind) (s : St) (p4 : Word) (parents : List Nat) (li : Nat) (huge : Bool) (sz : Nat)
    (frame flags : Word) (sh : PageShape parents huge sz)
    (hfl : if huge then LeafBitsHuge flags else LeafBits4K flags) (hfr : FrameOK sz frame)
    (t : Word) (ht : tblAt s.mem p4 parents = some t) (hslot : s.mem t li = leafWord huge frame flags)
    (hnz : leafWord huge frame flags ≠ 0#64) :
    (translatePage k s p4 parents li huge sz).1 = .ok frame := by
  have hne : s.mem t li ≠ 0#64 := by rw [hslot]; exact hnz
  cases sh with
  | s4k a b c =>
    simp only [Bool.false_eq_true, if_false] at hfl
    have hfr' : frame &&& 0xfff0000000000fff#64 = 0#64 := by simpa [FrameOK] using hfr
    rw [translatePage_of_slot k s p4 _ li false 4096 t ht hne (fun h => by cases h), hslot]
    simp only [Bool.false_eq_true, if_false]
    rw [leafWord_4k]; exact congrArg _ (leaf4k_addr frame flags hfr' hfl)
  | s2m a b =>
    simp only [if_true] at hfl
    have hfr' : frame &&& 0xfff00000001fffff#64 = 0#64 := by simpa [FrameOK] using hfr
    obtain ⟨c1, c2, _⟩ := leafHuge_addr frame flags hfr' hfl
    have hw : leafWord true frame flags = Pte.mk frame (flags ||| Pte.HUGE) := rfl
    rw [translatePage_of_slot k s p4 _ li true (2^21) t ht hne
      (fun _ => by rw [hslot, hw, c1]; exact ⟨c2, alignedTo_of_2M frame hfr'⟩), hslot, hw]
    simp only [if_true]
    exact congrArg _ c1
  | s1g a =>
    simp only [if_true] at hfl
    have hfr' : frame &&& 0xfff000003fffffff#64 = 0#64 := by simpa [FrameOK] using hfr
    obtain ⟨c1, c2, _⟩ := leafHuge_addr frame flags (frame1G_2M frame hfr') hfl
    have hw : leafWord true frame flags = Pte.mk frame (flags ||| Pte.HUGE) := rfl
    rw [translatePage_of_slot k s p4 _ li true (2^30) t ht hne
      (fun _ => by rw [hslot, hw, c1]; exact ⟨c2, alignedTo_of_1G frame hfr'⟩), hslot, hw]
    simp only [if_true]
    exact congrArg _ c1

/-- The raw word of a huge page is never zero (it has the `HUGE_PAGE` bit). -/
theorem leafWord_huge_ne_zero (frame flags : Word) : leafWord true frame flags ≠ 0#64 := by
  intro h
  have : Pte.huge (leafWord true frame flags) = false := by rw [h]; decide
  have h2 : Pte.huge (leafWord true frame flags) = true := by
    unfold leafWord leafFlagsOf Pte.huge Pte.mk Pte.HUGE
    simp only [if_true]
    unfold Word at *
    bv_decide
  rw [this] at h2; cases h2

/-- **After a successful `map_to` without `PRESENT`**: `translate_page` of the model (any mapper kind)
returns the frame, while the hardware walk of every address of the page finds nothing. -/
theorem map_dormant_translate_page (k k' : Kind) (s s' : St) (p4 : Word) (parents : List Nat) (li : Nat) (huge : Bool)
    (sz : Nat) (frame flags pflags : Word)
    (sh : PageShape parents huge sz) (hinv : Inv s.mem p4) (hpi : IdxOK parents)
    (hpf : ParentFlagsOK pflags) (hfl : if huge then LeafBitsHuge flags else LeafBits4K flags)
    (hnp : flags &&& 1#64 = 0#64)
    (hfr : FrameOK sz frame) (hal : AllocsOK s.mem p4 s.allocs)
    (hnz : leafWord huge frame flags ≠ 0#64)
    (h : mapTo k s p4 parents li huge frame flags pflags = (.ok (.ok ()), s')) :
    (translatePage k' s' p4 parents li huge sz).1 = .ok frame ∧
    ∀ va, parents ++ [li] <+: vaPath va → walk s'.mem p4 va = none := by
  have := map_dormant k s p4 parents li huge sz frame flags pflags sh hinv hpi hpf hfl hnp hfr hal
  rw [h] at this
  obtain ⟨_, _, hwalk, t, ht, hslot, _⟩ := this
  exact ⟨translate_page_dormant k' s' p4 parents li huge sz frame flags sh hfl hfr t ht hslot hnz,
    fun va hva => (hwalk va hva).1⟩

/-- the hypotheses are satisfiable (state `stD` above), and both mapper kinds report the frame -/
example : (translatePage ⟨false⟩ stD 0x1000#64 [0, 0, 0] 5 false 4096).1 = .ok 0x5000#64 ∧
    (translatePage ⟨true⟩ stD 0x1000#64 [0, 0, 0] 5 false 4096).1 = .ok 0x5000#64 ∧
    leafWord false 0x5000#64 2#64 ≠ 0#64 := by
  obtain ⟨sh, hinv, hpi, hpf, hfl, hnp, hfr, hal⟩ := demo_hyps
  have hnz : leafWord false 0x5000#64 2#64 ≠ 0#64 := by decide
  exact ⟨(map_dormant_translate_page ⟨false⟩ ⟨false⟩ C09.demo3 stD 0x1000#64 [0, 0, 0] 5 false 4096 0x5000#64 2#64 3#64
      sh hinv hpi hpf hfl hnp hfr hal hnz stD_eq).1,
    (map_dormant_translate_page ⟨false⟩ ⟨true⟩ C09.demo3 stD 0x1000#64 [0, 0, 0] 5 false 4096 0x5000#64 2#64 3#64
      sh hinv hpi hpf hfl hnp hfr hal hnz stD_eq).1, hnz⟩

/-- **`unmap`** of a page mapped without `PRESENT` reports `PageNotMapped` and changes nothing (the entry
stays; `update_flags` can later make it present). -/
theorem unmap_dormant (s : St) (p4 : Word) (parents : List Nat) (li : Nat) (huge : Bool) (sz : Nat)
    (t : Word) (ht : tblAt s.mem p4 parents = some t) (hnp : Pte.present (s.mem t li) = false) :
    (unmap s p4 parents li huge sz).1 = .error .notMapped ∧ (unmap s p4 parents li huge sz).2.mem = s.mem :=
  unmap_of_not_present s p4 parents li huge sz t ht hnp

example : (unmap stD 0x1000#64 [0, 0, 0] 5 false 4096).1 = .error .notMapped := by
  obtain ⟨_, t, ht, _, hnp⟩ := stD_facts
  exact (unmap_dormant stD 0x1000#64 [0, 0, 0] 5 false 4096 t ht hnp).1

/-! ### c. `update_flags` with `PRESENT` revives the page -/

/-- **`update_flags` with flags that contain `PRESENT`** on a page whose slot holds `frame | flags₀
(| HUGE_PAGE)` (mapped with or without `PRESENT`), in a state satisfying the invariant: the call
succeeds, the invariant is kept, every address of the page now translates to `frame + offset` with the
page's size and exactly the new leaf flags, every other address keeps its translation — and if `flags₀`
lacked `PRESENT`, the page's addresses were "not mapped" for the hardware before. -/
theorem update_flags_revives (s : St) (p4 : Word) (parents : List Nat) (li : Nat) (huge : Bool) (sz : Nat)
    (frame flags0 flags : Word)
    (sh : PageShape parents huge sz) (hinv : Inv s.mem p4) (hpi : IdxOK parents)
    (hfl0 : if huge then LeafBitsHuge flags0 else LeafBits4K flags0) (hfr : FrameOK sz frame)
    (t : Word) (ht : tblAt s.mem p4 parents = some t) (hslot : s.mem t li = leafWord huge frame flags0)
    (hnz : leafWord huge frame flags0 ≠ 0#64)
    (hfl : if huge then LeafFlagsHuge flags else LeafFlags4K flags) :
    (updateFlags ⟨false⟩ s p4 parents li huge flags).1 = .ok () ∧
    Inv (updateFlags ⟨false⟩ s p4 parents li huge flags).2.mem p4 ∧
    (∀ va, parents ++ [li] <+: vaPath va →
      (flags0 &&& 1#64 = 0#64 → walk s.mem p4 va = none) ∧
      ∃ x, walk (updateFlags ⟨false⟩ s p4 parents li huge flags).2.mem p4 va = some x ∧
        x.base = frame.toNat ∧ x.size = sz ∧ x.off = va % sz ∧ x.flags = leafFlagsOf huge flags) ∧
    (∀ va, ¬ parents ++ [li] <+: vaPath va →
      walk (updateFlags ⟨false⟩ s p4 parents li huge flags).2.mem p4 va = walk s.mem p4 va) := by
  obtain ⟨_, _, w3, w4, w5, _⟩ := leafWord_facts sh frame flags0 hfl0 hfr
  have hne : s.mem t li ≠ 0#64 := by rw [hslot]; exact hnz
  have hok : (updateFlags ⟨false⟩ s p4 parents li huge flags).1 = .ok () :=
    updateFlags_of_slot ⟨false⟩ s p4 parents li huge flags t ht hne
      (fun hh => by rw [hslot, huge_eq_bitPS]; exact w4 hh)
  obtain ⟨t', ht', _, hi', hon, hoff, _⟩ := update_flags_spec s p4 parents li huge sz flags sh hinv hpi
    (leafBits_of_leafFlags hfl) hok
  have : t' = t := Option.some.inj (ht'.symm.trans ht)
  subst this
  refine ⟨hok, hi', ?_, hoff⟩
  intro va hva
  obtain ⟨hold, _, _, hnew⟩ := hon va hva
  refine ⟨?_, ?_⟩
  · intro hnp
    apply hold
    rw [hslot, present_eq_bitP, w3]; exact bitP_of_not_present flags0 hnp
  · obtain ⟨x, hx, xb, rest⟩ := hnew (present_of_leafFlags hfl)
    exact ⟨x, hx, by rw [xb, hslot, w5], rest⟩

/-- the hypotheses are satisfiable: `update_flags(PRESENT | WRITABLE)` on the dormant page of `stD` makes
the MMU translate `0x5123` to `0x5000 + 0x123` -/
example : (walk (updateFlags ⟨false⟩ stD 0x1000#64 [0, 0, 0] 5 false 3#64).2.mem 0x1000#64 0x5123).map
      (fun x => (x.base, x.size, x.off, x.flags)) = some (0x5000, 4096, 0x123, 3#64) ∧
    walk stD.mem 0x1000#64 0x5123 = none := by
  set_option maxRecDepth 100000 in decide +kernel

example : ∃ t, tblAt stD.mem 0x1000#64 [0, 0, 0] = some t ∧ stD.mem t 5 = leafWord false 0x5000#64 2#64 ∧
    leafWord false 0x5000#64 2#64 ≠ 0#64 ∧ LeafFlags4K 3#64 ∧
    (updateFlags ⟨false⟩ stD 0x1000#64 [0, 0, 0] 5 false 3#64).1 = .ok () := by
  obtain ⟨sh, _, hpi, _, hfl0, _, hfr, _⟩ := demo_hyps
  obtain ⟨hinv, t, ht, hslot, _⟩ := stD_facts
  have hnz : leafWord false 0x5000#64 2#64 ≠ 0#64 := by decide
  have hfl : (if false = true then LeafFlagsHuge 3#64 else LeafFlags4K 3#64) := by
    simp only [Bool.false_eq_true, if_false]; exact ⟨by decide, by decide⟩
  exact ⟨t, ht, hslot, hnz, by simpa using hfl,
    (update_flags_revives stD 0x1000#64 [0, 0, 0] 5 false 4096 0x5000#64 2#64 3#64 sh hinv hpi hfl0 hfr t ht hslot hnz hfl).1⟩

/-! ### d. `clean_up` keeps the table that holds a dormant entry -/

/-- **`clean_up_addr_range` / `clean_up`** (any range, both mapper kinds), in a state satisfying the
invariant: the table `t` (at path `parents`) whose slot `li` holds a non-zero, non-present word — a page
mapped without `PRESENT` — is not freed: the slot holds the same word afterwards, `t` is still linked at
`parents`, and `t` is not among the deallocated frames (so `translate_page` keeps reporting the frame). -/
theorem clean_up_keeps_dormant_page (k : Kind) (rIdx : Nat) (s : St) (p4 : Word) (rs re : Nat)
    (hinv : Inv s.mem p4) (parents : List Nat) (li : Nat) (t : Word) (hpi : IdxOK parents) (hli : li < 512)
    (ht : tblAt s.mem p4 parents = some t) (hnz : s.mem t li ≠ 0#64) (hnp : Pte.present (s.mem t li) = false) :
    (cleanUpRange k rIdx s p4 rs re).2.mem t li = s.mem t li ∧
    tblAt (cleanUpRange k rIdx s p4 rs re).2.mem p4 parents = some t ∧
    ∃ seg, (cleanUpRange k rIdx s p4 rs re).2.events = s.events ++ seg ∧ t ∉ deallocsIn seg :=
  C10.clean_up_keeps_table_with_leaf k rIdx s p4 rs re hinv parents t hpi ht li hli hnz
    (tableOf_of_not_present _ hnp)

/-- …hence `translate_page` still reports the frame after any clean-up. -/
theorem clean_up_then_translate_page (k k' : Kind) (rIdx : Nat) (s : St) (p4 : Word) (rs re : Nat)
    (parents : List Nat) (li : Nat) (huge : Bool) (sz : Nat) (frame flags : Word)
    (hinv : Inv s.mem p4) (sh : PageShape parents huge sz) (hpi : IdxOK parents) (hli : li < 512)
    (hfl : if huge then LeafBitsHuge flags else LeafBits4K flags) (hnp : flags &&& 1#64 = 0#64)
    (hfr : FrameOK sz frame)
    (t : Word) (ht : tblAt s.mem p4 parents = some t) (hslot : s.mem t li = leafWord huge frame flags)
    (hnz : leafWord huge frame flags ≠ 0#64) :
    (translatePage k' (cleanUpRange k rIdx s p4 rs re).2 p4 parents li huge sz).1 = .ok frame := by
  obtain ⟨_, _, w3, _⟩ := leafWord_facts sh frame flags hfl hfr
  have hpres : Pte.present (s.mem t li) = false := by
    rw [hslot, present_eq_bitP, w3]; exact bitP_of_not_present flags hnp
  obtain ⟨h1, h2, _⟩ := clean_up_keeps_dormant_page k rIdx s p4 rs re hinv parents li t hpi hli ht
    (by rw [hslot]; exact hnz) hpres
  exact translate_page_dormant k' _ p4 parents li huge sz frame flags sh hfl hfr t h2 (by rw [h1]; exact hslot) hnz

/-- the hypotheses are satisfiable (state `stD`), and a clean-up of the whole address space frees nothing
there: all three tables lead to the dormant entry -/
example : ∃ t, tblAt stD.mem 0x1000#64 [0, 0, 0] = some t ∧ stD.mem t 5 ≠ 0#64 ∧ Pte.present (stD.mem t 5) = false := by
  obtain ⟨_, t, ht, hslot, hnp⟩ := stD_facts
  exact ⟨t, ht, by rw [hslot]; decide, hnp⟩

example : deallocsIn ((cleanUpAll ⟨false⟩ 0 stD 0x1000#64).2.events.drop stD.events.length) = [] ∧
    (match (translatePage ⟨false⟩ (cleanUpAll ⟨false⟩ 0 stD 0x1000#64).2 0x1000#64 [0, 0, 0] 5 false 4096).1 with
      | .ok f => f == 0x5000#64 | _ => false) = true := by
  set_option maxRecDepth 1000000 in decide +kernel

end X86.C01Dormant
