/-
C13 — `set_general_handler!` installs, per vector, a stub that reports that vector.

The Rust side is three `macro_rules!`; the translator re-extracts their arms from the source on every
run (Generated/GeneralHandler.lean) and Model/GeneralHandler.lean interprets them. The Lean side of
this property is therefore *deliberately a table*: the conformance theorems are kernel evaluations
(`decide +kernel`) of the generated tables against the independently written architectural table
(Spec/ExceptionTable.lean), and they are re-checked against whatever the source says now. On top of
the table facts, the statements about ranges, about the installation as a whole and about what a
stub does with a stack image are proved for ALL ranges / frames / error codes.

Sentences of the property and where they are stated:
  1. "makes present exactly the non-reserved vectors in that range and leaves all other entries
     untouched"            → `install_spec`, `installed_iff`, `untouched_iff`, `install_never_panics`,
                             `whole_form_installs`, `single_form_installs`, `range_form_installs` (all ranges, all forms)
  2. "the general handler is called exactly once with index v, the pushed frame contents, and the
     error code exactly when the vector defines one"
                           → `stub_reports`, `installed_stub_reports` (all frames, all error codes)
  3. "for returning vectors execution then resumes at the interrupted instruction and stack pointer"
                           → `stub_resumes`, and `abort_stub_does_not_return`
  4. "iretq on a frame value transfers to exactly the frame's instruction pointer, stack pointer and
     flags"                → `iretq_frame_value`, `leave_by_iretq_resumes`
  table conformance        → `visits_every_vector_once`, `effects_conform`, `arm_table_conforms`,
                             `special_arms_are_the_special_vectors`, `arms_not_shadowed`,
                             `arms_type_check`, `frame_layout_conforms`, `spec_sets`
-/
import X86Model.Model.GeneralHandler
import X86Model.Spec.ExceptionTable
import X86Model.Proofs.GeneralHandler

namespace X86.C13
open X86 X86.GH X86.Spec.Exc X86.Generated.GH

/-! ## The architectural table (sanity of the spec itself) -/

/-- The table's derived predicates are the explicit sets of the manuals' summary:
error code {8,10,11,12,13,14,17,21,29,30}, reserved {15,22–27,31}, aborts {8,18}. -/
theorem spec_sets : ∀ v, v < 256 →
    pushesErrorCode v = decide (v ∈ errorCodeVectors) ∧
    isReserved v = decide (v ∈ reservedVectors) ∧
    isAbort v = decide (v ∈ abortVectors) := by decide +kernel

example : pushesErrorCode 14 = true ∧ pushesErrorCode 3 = false ∧ isReserved 15 = true ∧ isAbort 18 = true := by
  decide

/-! ## What the architecture asks of the macro -/

/-- The stub vector `v` needs: reports `v`, takes and forwards an error code exactly when the CPU
pushes one, never returns exactly when `v` is an abort. -/
def specStub (v : Nat) : Stub :=
  { index := v, takesErr := pushesErrorCode v, passesErr := pushesErrorCode v,
    diverging := isAbort v, panicsAfter := isAbort v }

/-- Executing the entry macro for vector `v` must write `specStub v` into entry `v` (the field at
byte offset 16·v), or nothing when `v` is reserved. -/
def specEffect (v : Nat) : Option (Nat × Stub) := if isReserved v then none else some (v, specStub v)

/-! ## Table conformance (kernel evaluation of the generated tables) -/

/-- The bit recursion reaches the eight-bit arm exactly once per vector, in ascending order, and
`IDX` is that vector. -/
theorem visits_every_vector_once : visited.map idxOf = List.range 256 := by decide +kernel

example : visited.length = 256 := by decide +kernel
example : idxOf [1, 0, 0, 0, 0, 0, 0, 1] = 129 := by decide +kernel

/-- **Every expansion conforms to the architectural table**: for each of the 256 vectors, executing
`set_general_handler_entry!` for it never panics and writes exactly the architecturally required stub
into exactly the entry at offset 16·v — nothing for the reserved vectors. -/
theorem effects_conform : effects = (List.range 256).map (fun v => (v, R.ok (specEffect v))) := by
  decide +kernel

/-- `v` as the eight literal bits of a matcher, bit 7 first. -/
def bitsOf (v : Nat) : List Nat := [v / 128 % 2, v / 64 % 2, v / 32 % 2, v / 16 % 2, v / 8 % 2, v / 4 % 2, v / 2 % 2, v % 2]

def bitsValue (bits : List Nat) : Nat := bits.foldl (fun acc b => 2 * acc + b) 0

/-- Arm-level reading of the same fact, directly on `set_general_handler_entry!` (without the
recursion macro): the arm selected for the bit pattern of `v` -/
def armConforms (v : Nat) : Bool :=
  match selectArm (bitsOf v) with
  | none => false
  | some a =>
    -- reserved vectors have an empty arm and nothing else has
    (a.empty == isReserved v) &&
    (a.empty ||
      -- it targets the field at offset 16·v
      ((if a.target == "[]" then indexMut v else R.ofOption (fieldSlot a.target)) == R.ok v) &&
      -- the stub takes and forwards an error code exactly on the error-code vectors
      (a.hasErrParam == pushesErrorCode v) && ((a.errArg != "None") == pushesErrorCode v) &&
      -- the index expression is the vector (`$idx` and `IDX` both denote the constant `IDX`)
      (a.indexArg == "$idx" || a.indexArg == "IDX") &&
      -- diverging (and panicking after the call) exactly on the abort vectors
      (a.diverging == isAbort v) && (a.panicsAfter == isAbort v)) &&
    -- a special arm's literal pattern is the vector it is selected for
    (a.catchAll || bitsValue a.bits == v)

theorem arm_table_conforms : ∀ v, v < 256 → armConforms v = true := by decide +kernel

example : (selectArm (bitsOf 14)).map (·.target) = some "page_fault" := by decide +kernel
example : (selectArm (bitsOf 200)).map (·.catchAll) = some true := by decide +kernel

/-- The special (non catch-all) arms are exactly the vectors that need one: error-code vectors,
aborts and reserved vectors. -/
theorem special_arms_are_the_special_vectors : ∀ v, v < 256 →
    (arms.any (fun a => !a.catchAll && bitsValue a.bits == v)) =
      (pushesErrorCode v || isAbort v || isReserved v) := by decide +kernel

/-- No special arm is shadowed by an earlier one (`macro_rules!` takes the first match), every
special arm has eight literal bits, and the catch-all arm is the last. -/
theorem arms_not_shadowed :
    (∀ a ∈ arms, a.catchAll = false → a.bits.length = 8 ∧ selectArm a.bits = some a) ∧
    (arms.getLast?.map (·.catchAll)) = some true := by decide +kernel

/-- Every stub has the handler type of the field it is stored in. -/
theorem arms_type_check : visited.all armTypeChecks = true := by decide +kernel

/-- The frame value's public fields lie on the hardware frame's slots (RIP 0, CS 8, RFLAGS 16,
RSP 24, SS 32), with the hardware widths, and the value is exactly one frame long. -/
theorem frame_layout_conforms :
    fieldAt "instruction_pointer" = some (offRIP, 8) ∧ fieldAt "code_segment" = some (offCS, 2) ∧
    fieldAt "cpu_flags" = some (offRFLAGS, 8) ∧ fieldAt "stack_pointer" = some (offRSP, 8) ∧
    fieldAt "stack_segment" = some (offSS, 2) ∧ frameValueSize = frameBytes ∧
    (frameWrapperTransparent && frameWrapperInner == "InterruptStackFrameValue") = true := by
  decide +kernel

/-! ## Ranges: `RangeBounds<u8>::contains` and the three macro forms -/

theorem contains_spec (v : Nat) :
    (∀ lo hi, (RangeArg.excl lo hi).contains v = true ↔ lo ≤ v ∧ v < hi) ∧
    (∀ lo hi, (RangeArg.incl lo hi).contains v = true ↔ lo ≤ v ∧ v ≤ hi) ∧
    (∀ lo, (RangeArg.from lo).contains v = true ↔ lo ≤ v) ∧
    (∀ hi, (RangeArg.to hi).contains v = true ↔ v < hi) ∧
    (∀ hi, (RangeArg.toIncl hi).contains v = true ↔ v ≤ hi) ∧
    (RangeArg.full.contains v = true) := by
  simp [RangeArg.contains]

example : (RangeArg.excl 32 64).contains 63 = true ∧ (RangeArg.excl 32 64).contains 64 = false := by decide

/-- Does the range a form forwards contain exactly the vectors satisfying `p` (among all `u8`)? -/
def formDenotes (f : Form) (p : Nat → Bool) : Bool :=
  match f.toRange with
  | some r => (List.range 256).all (fun v => r.contains v == p v)
  | none => false

/-- `set_general_handler!(idt, h)` forwards a range that contains every `u8`
(stated on the meaning of the forwarded range, not on its spelling). -/
theorem whole_table_form :
    ∃ r, Form.whole.toRange = some r ∧ ∀ v, v < 256 → r.contains v = true := by
  have h : formDenotes .whole (fun _ => true) = true := by decide +kernel
  unfold formDenotes at h
  split at h
  · next r hr =>
    refine ⟨r, hr, fun v hv => ?_⟩
    have := List.all_eq_true.mp h v (List.mem_range.mpr hv)
    simpa using this
  · cases h

/-- `set_general_handler!(idt, h, i)` forwards a range that contains exactly the vector `i`,
for every literal `i : u8`. -/
theorem single_index_form (i : Nat) (hi : i < 256) :
    ∃ r, (Form.single i).toRange = some r ∧ ∀ v, v < 256 → (r.contains v = true ↔ v = i) := by
  have hall : ∀ i, i < 256 → formDenotes (.single i) (fun v => v == i) = true := by decide +kernel
  have h := hall i hi
  unfold formDenotes at h
  split at h
  · next r hr =>
    refine ⟨r, hr, fun v hv => ?_⟩
    have := List.all_eq_true.mp h v (List.mem_range.mpr hv)
    cases hc : r.contains v <;> simp [hc] at this ⊢ <;> omega
  · cases h

/-- `set_general_handler!(idt, h, range)` hands the caller's range on unchanged. -/
theorem range_form (r : RangeArg) : (Form.range r).toRange = some r := by
  have : (formRange == "$range") = true := by decide +kernel
  simp [Form.toRange, this]

example : formDenotes (.single 14) (fun v => v == 14) = true := by decide +kernel
example : ((Form.single 14).toRange.map (fun r => (r.contains 13, r.contains 14, r.contains 15))) =
    some (false, true, false) := by decide +kernel

/-! ## Installation, for every range -/

/-- The table entry the installation must produce at `v`. -/
def want (r : RangeArg) (v : Nat) : Option Stub :=
  if r.contains v = true ∧ isReserved v = false then some (specStub v) else none

/-- **Installation, all ranges.** For every range (of every `RangeBounds` shape and all bounds),
`set_general_handler!` never panics and produces, for every vector `v`: the architecturally required
stub at entry `v` when `v` is in the range and not reserved; no write at all otherwise. -/
theorem install_spec (r : RangeArg) :
    ∃ t, install r = .ok t ∧ t.size = 256 ∧ ∀ v, v < 256 → t[v]? = some (want r v) := by
  have hfun : (fun v => (v, R.ok (specEffect v))) =
      (fun v => (v, R.ok ((if isReserved v then none else some (specStub v)).map (fun s => (v, s))))) := by
    funext v; unfold specEffect; cases isReserved v <;> rfl
  obtain ⟨t, ht, hsz, hget⟩ := fold_writes_own_slot r (fun v => if isReserved v then none else some (specStub v))
    Delta.empty (by simp [Delta.empty]) 256 (by omega)
  refine ⟨t, ?_, hsz, ?_⟩
  · rw [install, effects_conform, hfun]; exact ht
  · intro v hv
    rw [hget v]
    unfold want
    cases hr : isReserved v <;> cases hc : r.contains v <;> simp [hv, Delta.empty]

theorem install_never_panics (r : RangeArg) : install r ≠ .panic := by
  obtain ⟨t, ht, _⟩ := install_spec r
  rw [ht]; exact fun h => by cases h

/-- `installed range v ↔ v ∈ range ∧ v ∉ reserved` — and the installed stub is the right one. -/
theorem installed_iff (r : RangeArg) (t : Delta) (ht : install r = .ok t) (v : Nat) (hv : v < 256) :
    (∃ s, t[v]? = some (some s)) ↔ (r.contains v = true ∧ isReserved v = false) := by
  obtain ⟨t', ht', _, hget⟩ := install_spec r
  have : t = t' := by rw [ht] at ht'; cases ht'; rfl
  subst this
  rw [hget v hv]
  unfold want
  by_cases h : r.contains v = true ∧ isReserved v = false
  · simp [h]
  · simp [h]

theorem installed_is_spec_stub (r : RangeArg) (t : Delta) (ht : install r = .ok t) (v : Nat) (hv : v < 256)
    (s : Stub) (hs : t[v]? = some (some s)) : s = specStub v := by
  obtain ⟨t', ht', _, hget⟩ := install_spec r
  have : t = t' := by rw [ht] at ht'; cases ht'; rfl
  subst this
  rw [hget v hv] at hs
  unfold want at hs
  split at hs
  · simpa using hs.symm
  · simp at hs

/-- All other entries are untouched. -/
theorem untouched_iff (r : RangeArg) (t : Delta) (ht : install r = .ok t) (v : Nat) (hv : v < 256) :
    t[v]? = some none ↔ ¬(r.contains v = true ∧ isReserved v = false) := by
  obtain ⟨t', ht', _, hget⟩ := install_spec r
  have : t = t' := by rw [ht] at ht'; cases ht'; rfl
  subst this
  rw [hget v hv]
  unfold want
  by_cases h : r.contains v = true ∧ isReserved v = false
  · simp [h]
  · simp [h]

/-- The whole-table form installs every non-reserved vector. -/
theorem whole_form_installs :
    ∃ t, installForm .whole = .ok t ∧
      ∀ v, v < 256 → t[v]? = some (if isReserved v = false then some (specStub v) else none) := by
  obtain ⟨r, hr, hall⟩ := whole_table_form
  obtain ⟨t, ht, _, hget⟩ := install_spec r
  refine ⟨t, by simp [installForm, hr, ht], fun v hv => ?_⟩
  rw [hget v hv]; unfold want; simp [hall v hv]

/-- The single-index form installs vector `i` (unless reserved) and touches nothing else. -/
theorem single_form_installs (i : Nat) (hi : i < 256) :
    ∃ t, installForm (.single i) = .ok t ∧
      ∀ v, v < 256 → t[v]? = some (if v = i ∧ isReserved v = false then some (specStub v) else none) := by
  obtain ⟨r, hr, hiff⟩ := single_index_form i hi
  obtain ⟨t, ht, _, hget⟩ := install_spec r
  refine ⟨t, by simp [installForm, hr, ht], fun v hv => ?_⟩
  rw [hget v hv]; unfold want; simp [hiff v hv]

/-- The range form installs exactly the non-reserved vectors of the caller's range. -/
theorem range_form_installs (r : RangeArg) :
    ∃ t, installForm (.range r) = .ok t ∧ ∀ v, v < 256 → t[v]? = some (want r v) := by
  obtain ⟨t, ht, _, hget⟩ := install_spec r
  exact ⟨t, by simp [installForm, range_form r, ht], hget⟩

-- non-vacuity: a concrete range on the generated tables
example : (install (.excl 10 20)).map (fun t => (t[9]?, t[10]?.map (·.map (·.index)), t[15]?, t[20]?)) =
    .ok (some none, some (some 10), some none, some none) := by decide +kernel
example : ∃ t, install (.incl 0 255) = .ok t := by
  obtain ⟨t, h, _⟩ := install_spec (.incl 0 255); exact ⟨t, h⟩
example : want (.incl 8 8) 8 = some (specStub 8) ∧ want (.incl 15 15) 15 = none := by decide +kernel

/-! ## What an installed stub does with a hardware stack frame -/

/-- A frame whose values have the widths of their registers. -/
def FrameWF (f : Frame) : Prop :=
  f.rip < 2 ^ 64 ∧ f.cs < 2 ^ 16 ∧ f.rflags < 2 ^ 64 ∧ f.rsp < 2 ^ 64 ∧ f.ss < 2 ^ 16

instance (f : Frame) : Decidable (FrameWF f) := by unfold FrameWF; infer_instance

/-- The frame value laid over the five pushed slots reads back the pushed values (at the widths
of the fields), whatever lies above them on the stack. -/
theorem decode_pushed (rip cs fl rsp ss : Nat) (rest : List Nat) :
    decodeFrame (rip :: cs :: fl :: rsp :: ss :: rest) =
      some ⟨rip % 2 ^ 64, cs % 2 ^ 16, fl % 2 ^ 64, rsp % 2 ^ 64, ss % 2 ^ 16⟩ := by
  obtain ⟨h1, h2, h3, h4, h5, _, h7⟩ := frame_layout_conforms
  simp [decodeFrame, readField, h1, h2, h3, h4, h5, h7, offRIP, offCS, offRFLAGS, offRSP, offSS]

theorem decode_pushed_wf (f : Frame) (hf : FrameWF f) (rest : List Nat) :
    decodeFrame (f.rip :: f.cs :: f.rflags :: f.rsp :: f.ss :: rest) = some f := by
  obtain ⟨a, b, c, d, e⟩ := hf
  rw [decode_pushed, Nat.mod_eq_of_lt a, Nat.mod_eq_of_lt b, Nat.mod_eq_of_lt c, Nat.mod_eq_of_lt d,
    Nat.mod_eq_of_lt e]

/-- **The general handler's arguments.** When the stub the architecture asks for at `v` is entered
with the stack image the CPU pushes for vector `v` (frame `f`, error code `e` on the error-code
vectors, anything above), the general handler is called (once: `enter` yields one report) with
`index = v`, exactly the pushed frame, and `Some(e)` exactly when the vector defines an error code. -/
theorem stub_reports (v : Nat) (f : Frame) (hf : FrameWF f) (e : Nat) (rest : List Nat) :
    (specStub v).enter (delivered v f e ++ rest) =
      some (expectedReport v f e, f.rip :: f.cs :: f.rflags :: f.rsp :: f.ss :: rest) := by
  cases h : pushesErrorCode v <;>
    simp [Stub.enter, specStub, delivered, pushed, expectedReport, h, decode_pushed_wf f hf]

/-- **Returning vectors resume the interrupted program**: a non-abort stub whose general handler
returns executes `iretq` on the pushed frame: RIP, RSP, RFLAGS, CS, SS of the interrupted program. -/
theorem stub_resumes (v : Nat) (hv : isAbort v = false) (f : Frame) (hf : FrameWF f) (e : Nat) (rest : List Nat) :
    (specStub v).deliver (delivered v f e ++ rest) false =
      some (expectedReport v f e, .resumed (expectedResume f)) := by
  unfold Stub.deliver
  rw [stub_reports v f hf e rest]
  simp [Stub.exitReturn, specStub, hv, X86.Spec.Exc.iretq, expectedResume]

/-- The abort vectors' stubs never return to the interrupted program: if the general handler
returns they panic. -/
theorem abort_stub_does_not_return (v : Nat) (hv : isAbort v = true) (f : Frame) (hf : FrameWF f) (e : Nat)
    (rest : List Nat) :
    (specStub v).deliver (delivered v f e ++ rest) false = some (expectedReport v f e, .panicked) := by
  unfold Stub.deliver
  rw [stub_reports v f hf e rest]
  simp [Stub.exitReturn, specStub, hv]

/-- **`InterruptStackFrameValue::iretq`** pushes SS, RSP, RFLAGS, CS, RIP of the value in the order
`iretq` pops them: control transfers to exactly the value's instruction pointer, stack pointer and
flags (and selectors). For every frame value. -/
theorem iretq_frame_value (f : Frame) : frameValueIretq f = some (expectedResume f) := by
  simp [frameValueIretq, iretqSteps, iretqRun, iretqOperands, frameField, X86.Spec.Exc.iretq, expectedResume]

example : frameValueIretq ⟨0x401000, 0x33, 0x246, 0x7ffd00001000, 0x2b⟩ =
    some ⟨0x401000, 0x33, 0x246, 0x7ffd00001000, 0x2b⟩ := by decide +kernel

/-- A general handler that leaves through `iretq` on the frame it was handed — the only way out of
the abort vectors' handlers — resumes the interrupted program, on every vector. -/
theorem leave_by_iretq_resumes (v : Nat) (f : Frame) (hf : FrameWF f) (e : Nat) (rest : List Nat) :
    (specStub v).deliver (delivered v f e ++ rest) true =
      some (expectedReport v f e, .resumed (expectedResume f)) := by
  unfold Stub.deliver
  rw [stub_reports v f hf e rest]
  simp [exitByIretq, expectedReport, iretq_frame_value]

/-- The property's second half for the installation as a whole: whatever range was installed, the
entry of every installed vector reports that vector, the pushed frame and the error code exactly
when the vector defines one, and (unless it is an abort) resumes the interrupted program. -/
theorem installed_stub_reports (r : RangeArg) (t : Delta) (ht : install r = .ok t) (v : Nat) (hv : v < 256)
    (s : Stub) (hs : t[v]? = some (some s)) (f : Frame) (hf : FrameWF f) (e : Nat) (rest : List Nat) :
    s.deliver (delivered v f e ++ rest) false =
      some (expectedReport v f e, if isAbort v then .panicked else .resumed (expectedResume f)) ∧
    s.deliver (delivered v f e ++ rest) true = some (expectedReport v f e, .resumed (expectedResume f)) := by
  have := installed_is_spec_stub r t ht v hv s hs
  subst this
  refine ⟨?_, leave_by_iretq_resumes v f hf e rest⟩
  cases ha : isAbort v
  · simpa using stub_resumes v ha f hf e rest
  · simpa using abort_stub_does_not_return v ha f hf e rest

-- non-vacuity
example : FrameWF ⟨0x401000, 0x33, 0x246, 0x7ffd_0000_1000, 0x2b⟩ := by decide
example : (specStub 14).deliver (delivered 14 ⟨0x401000, 0x33, 0x246, 0x7ffd00001000, 0x2b⟩ 7 ++ [99]) false =
    some (⟨14, ⟨0x401000, 0x33, 0x246, 0x7ffd00001000, 0x2b⟩, some 7⟩,
      .resumed ⟨0x401000, 0x33, 0x246, 0x7ffd00001000, 0x2b⟩) := by decide +kernel
example : (specStub 3).deliver (delivered 3 ⟨0x401000, 0x33, 0x246, 0x7ffd00001000, 0x2b⟩ 7) false =
    some (⟨3, ⟨0x401000, 0x33, 0x246, 0x7ffd00001000, 0x2b⟩, none⟩,
      .resumed ⟨0x401000, 0x33, 0x246, 0x7ffd00001000, 0x2b⟩) := by decide +kernel
/-- The statement has content: a stub *without* error-code parameter entered on an error-code
delivery reports a frame shifted by one slot (the error code as instruction pointer). -/
example : ({ specStub 13 with takesErr := false, passesErr := false } : Stub).enter
      (delivered 13 ⟨0x401000, 0x33, 0x246, 0x7ffd00001000, 0x2b⟩ 7) =
    some (⟨13, ⟨7, 0x1000, 0x33, 0x246, 0x1000⟩, none⟩, delivered 13 ⟨0x401000, 0x33, 0x246, 0x7ffd00001000, 0x2b⟩ 7) := by
  decide +kernel

end X86.C13
